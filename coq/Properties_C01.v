(* C01 - symmetric/Hermitian solvers return only genuine, orthonormal eigenpairs.
   Assembly (exact arithmetic): the Krylov relation (C07) + an eigenpair of H give the residual
   identity; the GENERATED convergence test bounds exactly that residual; the GENERATED driver
   returns exactly the pairs whose flags the last test set (C05); the GENERATED back-transformation
   of the shift solver inverts nu = 1/(lambda - sigma) and the residual is transported with the
   documented scale |A - sigma I|.  The small eigen-solver's contract (H y = theta y, y'y = 1) is a
   hypothesis (C09 is partial). *)
From SV Require Import Cxx Ops MapsGen GlueGen.
From mathcomp Require Import all_ssreflect all_algebra.
From SV Require Import OpsF Krylov ShiftMaps GluePf.
Set Implicit Arguments. Unset Strict Implicit. Unset Printing Implicit Defensive.
Import GRing.Theory Num.Theory.
Local Open Scope ring_scope.

Theorem C01_ritz_residual : forall (F : fieldType) (n k : nat) (A : 'M[F]_n) (V : 'M[F]_(n, k)) (H : 'M[F]_k) (f : 'cV[F]_n) (ek : 'rV[F]_k),
  A *m V = V *m H + f *m ek -> forall (y : 'cV[F]_k) (theta : F), H *m y = theta *: y ->
  A *m (V *m y) - theta *: (V *m y) = (ek *m y) 0 0 *: f.
Proof. move=> F n k A V H f ek rel y theta; exact: ritz_residual. Qed.
Print Assumptions C01_ritz_residual.

(* the flag computed by num_converged is exactly |est| |f| < tol max(|theta|, eps^(2/3)) *)
Theorem C01_conv_test_sound : forall (F : rcfType) (eps23 tol theta est fnorm : F),
  conv_test (OpsF F) eps23 tol `|theta| `|est| fnorm = (`|est| * fnorm < tol * Num.max `|theta| eps23).
Proof. move=> F; exact: conv_test_sound. Qed.
Print Assumptions C01_conv_test_sound.

(* orthonormal Ritz vectors: X = V Y with V'BV = I and Y'Y = I gives X'BX = I (also after restarts) *)
Theorem C01_orthonormal : forall (F : fieldType) (n k p : nat) (V : 'M[F]_(n, k + p)) (Q : 'M[F]_(k + p)) (B : 'M[F]_n),
  V^T *m B *m V = 1%:M -> Q^T *m Q = 1%:M -> (V *m Q)^T *m B *m (V *m Q) = 1%:M.
Proof. move=> F n k p V Q B h1 h2; exact: restart_orth. Qed.
Print Assumptions C01_orthonormal.

(* shift-and-invert: generated back-transformation is the inverse map, and the residual in A's spectrum is
   the operator residual transported by -(1/nu)(A - sigma I): the documented scale tol * |A - sigma I| *)
Theorem C01_shift_back_inverse : forall (F : rcfType) (sigma lambda : F), lambda != sigma ->
  back_symshift (OpsF F) sigma ((lambda - sigma)^-1) = lambda.
Proof. by move=> F sigma lambda /back_shiftinvert_inverse []. Qed.
Print Assumptions C01_shift_back_inverse.

Theorem C01_shift_backtransform : forall (F : fieldType) (n : nat) (A Op : 'M[F]_n) (sigma nu : F) (x : 'cV[F]_n),
  (A - sigma%:M) *m Op = 1%:M -> nu != 0 ->
  A *m x - (sigma + nu^-1) *: x = - nu^-1 *: ((A - sigma%:M) *m (Op *m x - nu *: x)).
Proof. move=> F n A Op sigma nu x; exact: transport_shiftinvert. Qed.
Print Assumptions C01_shift_backtransform.

(* the driver hands back exactly the pairs flagged by the LAST convergence test (generated compute, any history) *)
Theorem C01_flags_are_current : forall (Wst : Type) (W : string -> list BinNums.Z -> Wst -> res (Wst * BinNums.Z)) (flags : Wst -> list bool) (nev : BinNums.Z),
  numconv_contract Wst W flags nev -> GluePf.sort_contract Wst W flags ->
  forall orc ncv niter info0 selection maxit sorting w ret niter' info' w',
  BinInt.Z.le BinNums.Z0 maxit ->
  herm_compute Wst W orc nev ncv niter info0 selection maxit sorting w = Ok (ret, niter', info', w') ->
  ret = count (flags w').
Proof.
move=> Wst W flags nev h1 h2 orc ncv niter info0 sel maxit srt w ret niter' info' w' hm hc.
by have [_ [_ [-> _]]] := @herm_compute_spec Wst W flags nev h1 h2 orc ncv niter info0 sel maxit srt w ret niter' info' w' hm hc.
Qed.
Print Assumptions C01_flags_are_current.
