(* C02 - general (nonsymmetric) solvers return only genuine unit-norm eigenpairs. (partial: the
   Hessenberg eigen-solver's contract and the probe heuristic of the complex-shift solver are
   hypotheses / exercised, not proved.) *)
From SV Require Import Cxx Ops MapsGen GlueGen.
From mathcomp Require Import all_ssreflect all_algebra.
From SV Require Import OpsF Krylov ShiftMaps GluePf.
Set Implicit Arguments. Unset Strict Implicit. Unset Printing Implicit Defensive.
Import GRing.Theory Num.Theory.
Local Open Scope ring_scope.

Theorem C02_ritz_residual : forall (F : fieldType) (n k : nat) (A : 'M[F]_n) (V : 'M[F]_(n, k)) (H : 'M[F]_k) (f : 'cV[F]_n) (ek : 'rV[F]_k),
  A *m V = V *m H + f *m ek -> forall (y : 'cV[F]_k) (theta : F), H *m y = theta *: y ->
  A *m (V *m y) - theta *: (V *m y) = (ek *m y) 0 0 *: f.
Proof. move=> F n k A V H f ek rel y theta; exact: ritz_residual. Qed.
Print Assumptions C02_ritz_residual.

Theorem C02_real_shift_back : forall (F : rcfType) (sigma lambda : F), lambda != sigma ->
  back_genrealshift (OpsF F) sigma ((lambda - sigma)^-1) = lambda.
Proof. by move=> F sigma lambda /back_shiftinvert_inverse [_ []]. Qed.
Print Assumptions C02_real_shift_back.

Theorem C02_real_shift_transport : forall (F : fieldType) (n : nat) (A Op : 'M[F]_n) (sigma nu : F) (x : 'cV[F]_n),
  (A - sigma%:M) *m Op = 1%:M -> nu != 0 ->
  A *m x - (sigma + nu^-1) *: x = - nu^-1 *: ((A - sigma%:M) *m (Op *m x - nu *: x)).
Proof. move=> F n A Op sigma nu x; exact: transport_shiftinvert. Qed.
Print Assumptions C02_real_shift_transport.

(* complex shift: lambda is one of the two roots the code forms from nu *)
Theorem C02_complex_shift_roots : forall (F : fieldType) (z s : F), z != 0 -> z ^+ 2 + s ^+ 2 != 0 -> (2%:R : F) != 0 ->
  let nu := z / (z ^+ 2 + s ^+ 2) in
  (z - (2%:R * nu)^-1) ^+ 2 = (1 - 4%:R * s ^+ 2 * nu ^+ 2) / (4%:R * nu ^+ 2).
Proof. move=> F; exact: complex_shift_roots. Qed.
Print Assumptions C02_complex_shift_roots.

Theorem C02_flags_are_current : forall (Wst : Type) (W : string -> list BinNums.Z -> Wst -> res (Wst * BinNums.Z)) (flags : Wst -> list bool) (nev : BinNums.Z),
  numconv_contract Wst W flags nev -> GluePf.sort_contract Wst W flags ->
  forall orc ncv niter info0 selection maxit sorting w ret niter' info' w',
  BinInt.Z.le BinNums.Z0 maxit ->
  gen_compute Wst W orc nev ncv niter info0 selection maxit sorting w = Ok (ret, niter', info', w') ->
  ret = count (flags w').
Proof.
move=> Wst W flags nev h1 h2 orc ncv niter info0 sel maxit srt w ret niter' info' w' hm hc.
by have [_ [_ [-> _]]] := @gen_compute_spec Wst W flags nev h1 h2 orc ncv niter info0 sel maxit srt w ret niter' info' w' hm hc.
Qed.
Print Assumptions C02_flags_are_current.
