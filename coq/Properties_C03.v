(* C03 - generalized symmetric solvers: true pencil eigenpairs, B-orthonormal vectors.
   Residual transport for each of the five modes (exact arithmetic, any field), with the explicit
   scalar factor, the generated back-transformations, and B-orthonormality from the Krylov basis. *)
From SV Require Import Cxx Ops MapsGen.
From mathcomp Require Import all_ssreflect all_algebra.
From SV Require Import OpsF Krylov ShiftMaps.
Set Implicit Arguments. Unset Strict Implicit. Unset Printing Implicit Defensive.
Import GRing.Theory Num.Theory.
Local Open Scope ring_scope.

Theorem C03_cholesky : forall (F : fieldType) (n : nat) (A L Li : 'M[F]_n) (lambda : F) (y : 'cV[F]_n),
  Li *m L = 1%:M -> L *m Li = 1%:M ->
  let Op := Li *m A *m Li^T in let x := Li^T *m y in
  A *m x - lambda *: ((L *m L^T) *m x) = L *m (Op *m y - lambda *: y).
Proof. move=> F n A L Li lambda y; exact: transport_cholesky. Qed.
Print Assumptions C03_cholesky.

Theorem C03_cholesky_orthonormal : forall (F : fieldType) (n : nat) (L Li : 'M[F]_n) (k : nat) (Y : 'M[F]_(n, k)),
  Li *m L = 1%:M -> Y^T *m Y = 1%:M -> (Li^T *m Y)^T *m (L *m L^T) *m (Li^T *m Y) = 1%:M.
Proof. move=> F n L Li k Y; exact: cholesky_orthonormal. Qed.
Print Assumptions C03_cholesky_orthonormal.

Theorem C03_regular_inverse : forall (F : fieldType) (n : nat) (A B Bi : 'M[F]_n) (lambda : F) (x : 'cV[F]_n),
  B *m Bi = 1%:M -> A *m x - lambda *: (B *m x) = B *m ((Bi *m A) *m x - lambda *: x).
Proof. move=> F n A B Bi lambda x; exact: transport_reginv. Qed.
Print Assumptions C03_regular_inverse.

Theorem C03_shift_invert : forall (F : fieldType) (n : nat) (A B Op : 'M[F]_n) (sigma nu : F) (x : 'cV[F]_n),
  (A - sigma *: B) *m Op = B -> nu != 0 ->
  A *m x - (sigma + nu^-1) *: (B *m x) = - nu^-1 *: ((A - sigma *: B) *m (Op *m x - nu *: x)).
Proof. move=> F n A B Op sigma nu x; exact: transport_gshiftinvert. Qed.
Print Assumptions C03_shift_invert.

Theorem C03_buckling : forall (F : fieldType) (n : nat) (K KG Op : 'M[F]_n) (sigma nu : F) (x : 'cV[F]_n),
  (K - sigma *: KG) *m Op = K -> nu != 1 ->
  K *m x - (sigma * nu / (nu - 1)) *: (KG *m x) = (1 - nu)^-1 *: ((K - sigma *: KG) *m (Op *m x - nu *: x)).
Proof. move=> F n K KG Op sigma nu x; exact: transport_buckling. Qed.
Print Assumptions C03_buckling.

Theorem C03_cayley : forall (F : fieldType) (n : nat) (A B Op : 'M[F]_n) (sigma nu : F) (x : 'cV[F]_n),
  (A - sigma *: B) *m Op = A + sigma *: B -> nu != 1 ->
  A *m x - (sigma * (nu + 1) / (nu - 1)) *: (B *m x) = (1 - nu)^-1 *: ((A - sigma *: B) *m (Op *m x - nu *: x)).
Proof. move=> F n A B Op sigma nu x; exact: transport_cayley. Qed.
Print Assumptions C03_cayley.

(* the generated back-transformations are the inverses of the documented forward maps *)
Theorem C03_back_maps : forall (F : rcfType) (sigma lambda : F), lambda != sigma -> sigma != 0 ->
  [/\ back_geigs_shiftinvert (OpsF F) sigma ((lambda - sigma)^-1) = lambda,
      back_geigs_buckling (OpsF F) sigma (lambda / (lambda - sigma)) = lambda
    & back_geigs_cayley (OpsF F) sigma ((lambda + sigma) / (lambda - sigma)) = lambda].
Proof.
move=> F sigma lambda ne s0; split.
- by have [_ [_ ->]] := back_shiftinvert_inverse ne.
- exact: back_buckling_inverse.
- exact: back_cayley_inverse.
Qed.
Print Assumptions C03_back_maps.

(* B-orthonormality of the returned vectors: X = V Y, V'BV = I (C07), Y'Y = I *)
Theorem C03_B_orthonormal : forall (F : fieldType) (n k p : nat) (V : 'M[F]_(n, k + p)) (Q : 'M[F]_(k + p)) (B : 'M[F]_n),
  V^T *m B *m V = 1%:M -> Q^T *m Q = 1%:M -> (V *m Q)^T *m B *m (V *m Q) = 1%:M.
Proof. move=> F n k p V Q B h1 h2; exact: restart_orth. Qed.
Print Assumptions C03_B_orthonormal.
