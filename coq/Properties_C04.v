(* C04 - the converged set is the part of the spectrum the selection rule asks for.
   (partial: that the Krylov space FINDS the extreme eigenvalues is a convergence statement outside
   any exact or float model; proved are the selection mechanics and the spectral maps.) *)
From SV Require Import Cxx Ops MapsGen.
From mathcomp Require Import all_ssreflect all_algebra.
From SV Require Import OpsF ShiftMaps.
Set Implicit Arguments. Unset Strict Implicit. Unset Printing Implicit Defensive.
Import GRing.Theory Num.Theory.
Local Open Scope ring_scope.

(* LargestMagn on nu = 1/(lambda - sigma) means "closest to sigma" ... *)
Theorem C04_shift_magnitude : forall (F : rcfType) (sigma l1 l2 : F), l1 != sigma -> l2 != sigma ->
  (`|(l1 - sigma)^-1| > `|(l2 - sigma)^-1|) = (`|l1 - sigma| < `|l2 - sigma|).
Proof. move=> F; exact: shiftinvert_magnitude. Qed.
Print Assumptions C04_shift_magnitude.

(* ... and nu is strictly decreasing on each side of sigma (LargestAlge on nu = smallest lambda above sigma) *)
Theorem C04_shift_monotone : forall (F : rcfType) (sigma l1 l2 : F), sigma < l1 -> sigma < l2 ->
  ((l1 - sigma)^-1 > (l2 - sigma)^-1) = (l1 < l2).
Proof. move=> F; exact: shiftinvert_monotone. Qed.
Print Assumptions C04_shift_monotone.

(* each back-transformation is the inverse of its forward map *)
Theorem C04_maps_inverse : forall (F : rcfType) (sigma lambda : F), lambda != sigma -> sigma != 0 ->
  [/\ back_symshift (OpsF F) sigma ((lambda - sigma)^-1) = lambda,
      back_genrealshift (OpsF F) sigma ((lambda - sigma)^-1) = lambda,
      back_geigs_shiftinvert (OpsF F) sigma ((lambda - sigma)^-1) = lambda,
      back_geigs_buckling (OpsF F) sigma (lambda / (lambda - sigma)) = lambda
    & back_geigs_cayley (OpsF F) sigma ((lambda + sigma) / (lambda - sigma)) = lambda].
Proof.
move=> F sigma lambda ne s0; have [a [b c]] := back_shiftinvert_inverse ne; split=> //.
- exact: back_buckling_inverse.
- exact: back_cayley_inverse.
Qed.
Print Assumptions C04_maps_inverse.

(* selection mechanics - whatever permutation std::sort's contract allows, the first k stored positions hold the
   rule's top k, and for BothEnds the ceil(k/2) largest + floor(k/2) smallest - are the theorems
   C18_argsort_ordered, C18_bothends_prefix and C18_sorted_extremes of Properties_C18.v (same generated argsort);
   the check of this property re-checks that file as well. *)
