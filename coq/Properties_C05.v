(* C05 - result accessors, counts, ordering and status are mutually consistent.
   The drivers herm_compute / gen_compute, the accessors' index loops and init are GENERATED
   from HermEigsBase.h / GenEigsBase.h (gen/GlueGen.v) in "world" mode: every kernel call is
   a call of an arbitrary world W.  The theorems hold for EVERY world satisfying the three
   contracts below (each validated against the real code at every hook event), every oracle,
   every start state - hence for every history of init()/compute() calls. *)
Require Import ZArith List Sorting.Permutation.
From SV Require Import Cxx GlueGen GluePf SortGen SortPf SortModel SortKey.
Import ListNotations.
Local Open Scope Z_scope.

Theorem C05_herm_compute_consistent :
  forall (Wst : Type) (W : string -> list Z -> Wst -> res (Wst * Z)) (flags : Wst -> list bool) (nev : Z),
  numconv_contract Wst W flags nev -> GluePf.sort_contract Wst W flags ->
  forall orc ncv niter info0 selection maxit sorting w ret niter' info' w',
  0 <= maxit ->
  herm_compute Wst W orc nev ncv niter info0 selection maxit sorting w = Ok (ret, niter', info', w') ->
  (exists i, 0 <= i <= maxit /\ niter' = niter + i + 1) /\        (* at most maxit restarts *)
  Z.of_nat (List.length (flags w')) = nev /\
  ret = count (flags w') /\ ret <= nev /\                          (* return value = |eigenvalues()| <= nev *)
  (info' = CompInfo_Successful <-> ret = nev) /\
  (info' = CompInfo_Successful \/ info' = CompInfo_NotConverging).
Proof. intros Wst W flags nev Hn Hs. exact (herm_compute_spec Wst W flags nev Hn Hs). Qed.
Print Assumptions C05_herm_compute_consistent.

Theorem C05_gen_compute_consistent :
  forall (Wst : Type) (W : string -> list Z -> Wst -> res (Wst * Z)) (flags : Wst -> list bool) (nev : Z),
  numconv_contract Wst W flags nev -> GluePf.sort_contract Wst W flags ->
  forall orc ncv niter info0 selection maxit sorting w ret niter' info' w',
  0 <= maxit ->
  gen_compute Wst W orc nev ncv niter info0 selection maxit sorting w = Ok (ret, niter', info', w') ->
  (exists i, 0 <= i <= maxit /\ niter' = niter + i + 1) /\
  Z.of_nat (List.length (flags w')) = nev /\
  ret = count (flags w') /\ ret <= nev /\
  (info' = CompInfo_Successful <-> ret = nev) /\
  (info' = CompInfo_Successful \/ info' = CompInfo_NotConverging).
Proof. intros Wst W flags nev Hn Hs. exact (gen_compute_spec Wst W flags nev Hn Hs). Qed.
Print Assumptions C05_gen_compute_consistent.

(* eigenvalues(): one entry per set flag among the first nev, in index order *)
Theorem C05_eigenvalues_count : forall orc nev, 0 <= nev ->
  herm_eigenvalues_count orc nev = cnt orc (Z.to_nat nev) 0 /\ gen_eigenvalues_count orc nev = cnt orc (Z.to_nat nev) 0.
Proof. exact eigenvalues_count. Qed.
Print Assumptions C05_eigenvalues_count.

(* eigenvectors(nvec): min(nvec, count) columns, never written past *)
Theorem C05_eigenvectors_cols : forall orc nev nconv nvec, 0 <= nvec -> 0 <= nconv ->
  fst (herm_eigenvectors_cols orc nev nconv nvec) = Z.min nvec nconv /\
  0 <= snd (herm_eigenvectors_cols orc nev nconv nvec) <= Z.min nvec nconv /\
  fst (gen_eigenvectors_cols orc nev nconv nvec) = Z.min nvec nconv /\
  0 <= snd (gen_eigenvectors_cols orc nev nconv nvec) <= Z.min nvec nconv.
Proof. exact eigenvectors_cols. Qed.
Print Assumptions C05_eigenvectors_cols.

(* num_operations: init() resets the counters; a factorization step costs between 1 and 2
   applications (2 exactly when the sequence broke down and expand_basis applied the operator once) *)
Theorem C05_init_resets_counters : forall Wst W nev ncv n a b w nm ni w',
  herm_init Wst W nev ncv n a b w = Ok (nm, ni, w') -> nm = 0 /\ ni = 0.
Proof. exact herm_init_zero. Qed.
Print Assumptions C05_init_resets_counters.

Theorem C05_gen_init_resets_counters : forall Wst W nev ncv n a b w nm ni w',
  gen_init Wst W nev ncv n a b w = Ok (nm, ni, w') -> nm = 0 /\ ni = 0.
Proof. exact gen_init_zero. Qed.
Print Assumptions C05_gen_init_resets_counters.

Theorem C05_ops_counted_lanczos : forall Wst W orc mk mm mn from_k to_m oc w mk' oc' w',
  lanczos_factorize_from Wst W orc mk mm mn from_k to_m oc w = Ok (mk', oc', w') ->
  (to_m <= from_k -> mk' = mk /\ oc' = oc) /\
  (from_k < to_m -> mk' = to_m /\ from_k <= mk /\ to_m - from_k <= oc' - oc <= 2 * (to_m - from_k)).
Proof. exact lanczos_factorize_count. Qed.
Print Assumptions C05_ops_counted_lanczos.

Theorem C05_ops_counted_arnoldi : forall Wst W orc mk mm mn from_k to_m oc w mk' oc' w',
  arnoldi_factorize_from Wst W orc mk mm mn from_k to_m oc w = Ok (mk', oc', w') ->
  (to_m <= from_k -> mk' = mk /\ oc' = oc) /\
  (from_k < to_m -> mk' = to_m /\ from_k <= mk /\ to_m - from_k <= oc' - oc <= 2 * (to_m - from_k)).
Proof. exact arnoldi_factorize_count. Qed.
Print Assumptions C05_ops_counted_arnoldi.

(* ordering by the sorting argument: C18's theorems on the same generated argsort / dispatch *)
Theorem C05_sorted_by_rule : forall keys p, contract keys p -> forall sel, sel <> BothEnds ->
  argsort_post no_orc sel (Z.of_nat (List.length keys)) p = Ok p /\ adjacent_ok keys p.
Proof. exact argsort_ordered. Qed.
Print Assumptions C05_sorted_by_rule.

(* non-vacuity: a replay world meeting the contracts, on which the driver returns 2 of 3 *)
Definition demo_world : string -> list Z -> (list bool * list Z) -> res ((list bool * list Z) * Z) :=
  fun f _ st => let '(fl, tr) := st in
    if String.eqb f "num_converged" then
      match tr with x :: r => let fl' := [true; Z.ltb 1 x; Z.ltb 2 x] in Ok ((fl', r), count fl') | [] => Throw "trace" "exhausted" end
    else Ok (st, 4).
Example C05_nonvacuous :
  herm_compute _ demo_world (fun _ _ => false) 3 6 0 1 0 2 3 ([false; false; false], [1; 2; 2]) = Ok (2, 3, 2, ([true; true; false], [])) /\
  numconv_contract _ demo_world fst 3 /\ GluePf.sort_contract _ demo_world fst.
Proof.
  split; [vm_compute; reflexivity|]. split.
  - intros a [fl tr] [fl' tr'] r H. unfold demo_world in H. cbn in H. destruct tr as [|x t]; [discriminate|].
    inversion H; subst. cbn. split; reflexivity.
  - intros a [fl tr] [fl' tr'] r H. unfold demo_world in H. cbn in H. inversion H; subst. apply Permutation_refl.
Qed.
