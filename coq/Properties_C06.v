(* C06 - results depend only on arguments; operator left untouched.
   (a) init() overwrites every piece of mutable state of the solver and of its factorization
       (inventory GENERATED from the class definitions: a new data member that init() does not
       reset breaks `C06_init_resets_all_state`);
   (b) the counters after init() do not depend on the state before (generated init);
   (c) the differential histories of the check compare fresh and reused objects bit for bit. *)
Require Import ZArith List Bool.
From SV Require Import Cxx GlueGen GluePf InvGen InvPf.
Import ListNotations.

Theorem C06_init_resets_all_state :
  herm_init_complete = true /\ gen_init_complete = true /\ arnoldi_init_complete = true /\ lanczos_no_state = true.
Proof. exact init_resets_all_state. Qed.
Print Assumptions C06_init_resets_all_state.

Theorem C06_compute_uses_only_members :
  forallb (fun m => mem m (all_members_of "HermEigsBase")) herm_compute_uses = true /\
  forallb (fun m => mem m (all_members_of "GenEigsBase")) gen_compute_uses = true /\
  forallb (fun m => mem m (all_members_of "Arnoldi")) arnoldi_uses = true.
Proof. exact compute_uses_only_members. Qed.
Print Assumptions C06_compute_uses_only_members.

Theorem C06_init_forgets_counters : forall Wst W nev ncv n a b a' b' w,
  herm_init Wst W nev ncv n a b w = herm_init Wst W nev ncv n a' b' w.
Proof. exact herm_init_counters. Qed.
Print Assumptions C06_init_forgets_counters.

Theorem C06_no_static_state : static_variables = [].
Proof. exact no_static_state. Qed.
Print Assumptions C06_no_static_state.

(* non-vacuity: the inventories are not empty *)
Example C06_nonvacuous : (List.length (state_of "HermEigsBase") = 9)%nat /\ (List.length (state_of "Arnoldi") = 6)%nat /\
  mem "m_ritz_conv" herm_init_touches = true.
Proof. vm_compute. repeat split. Qed.
