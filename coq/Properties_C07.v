(* C07 - the Krylov factorization invariant holds at every step, restart and breakdown.
   Exact-arithmetic algebra over an arbitrary field (mathcomp): each theorem is the step of
   the invariant  A V = V H + f e_k',  V'BV = I,  V'Bf = 0  that one routine of
   Arnoldi.h / Lanczos.h performs; B is an arbitrary symmetric bilinear form (identity for
   standard problems).  The dimension bookkeeping (m_k, operation counts, from_k <= m_k) is
   proved on the GENERATED factorize_from (C05/C13); the numeric routines are tied by the
   invariants evaluated inside real solver runs at every hook event. *)
From SV Require Import Cxx Ops LinAlg RngGen Arnoldi.
From mathcomp Require Import all_ssreflect all_algebra.
From SV Require Import Krylov OpsF ArnoldiPf ArnoldiLoop ArnoldiOrth LanczosLoop.
Set Implicit Arguments. Unset Strict Implicit. Unset Printing Implicit Defensive.
Import GRing.Theory.
Local Open Scope ring_scope.

(* extension by one column (any B-inner product): basis stays orthonormal, the new residual is
   B-orthogonal to it, and the new column satisfies the relation *)
Theorem C07_extend_K : forall (F : fieldType) (n : nat) (ip : 'cV[F]_n -> 'cV[F]_n -> F),
  (forall x y z, ip x (y + z) = ip x y + ip x z) -> (forall c x y, ip x (c *: y) = c * ip x y) -> (forall x y, ip x y = ip y x) ->
  forall (A : 'cV[F]_n -> 'cV[F]_n) vs f beta, orthonormal ip vs -> orth_to ip vs f -> beta != 0 -> ip f f = beta * beta ->
  let '(vs', h, f') := arnoldi_step ip A vs f beta in
  [/\ orthonormal ip vs', orth_to ip vs' f' & A (last 0 vs') = lincomb h vs' + f'].
Proof. move=> F n ip h1 h2 h3 A vs f beta; exact: arnoldi_step_ok. Qed.
Print Assumptions C07_extend_K.

(* every re-orthogonalisation pass (f -= V c, h += c) keeps the relation exactly, with or without
   the 0.717 shortcut and whatever the number of passes *)
Theorem C07_reorth_pass : forall (F : fieldType) (n : nat) (vs : seq 'cV[F]_n) (h c : seq F) (w f : 'cV[F]_n),
  size h = size vs -> size c = size vs ->
  w = lincomb h vs + f -> w = lincomb [seq p.1 + p.2 | p <- zip h c] vs + (f - lincomb c vs).
Proof. move=> F n; exact: reorth_pass_ok. Qed.
Print Assumptions C07_reorth_pass.

(* Lanczos = Arnoldi for a self-adjoint operator: the projections on all but the last two basis vectors vanish *)
Theorem C07_lanczos_is_arnoldi : forall (F : fieldType) (n : nat) (ip : 'cV[F]_n -> 'cV[F]_n -> F),
  (forall x y z, ip x (y + z) = ip x y + ip x z) -> (forall c x y, ip x (c *: y) = c * ip x y) -> (forall x y, ip x y = ip y x) ->
  forall (A : 'cV[F]_n -> 'cV[F]_n), (forall x y, ip (A x) y = ip x (A y)) ->
  forall (vs : seq 'cV[F]_n) (Hc : nat -> nat -> F) i j, orthonormal ip vs -> (i < size vs)%N -> (j.+1 < i)%N ->
  A (nth 0 vs j) = \sum_(l < j.+2) Hc l j *: nth 0 vs l -> ip (nth 0 vs j) (A (nth 0 vs i)) = 0.
Proof. move=> F n ip h1 h2 h3 A hA vs Hc i j; exact: lanczos_coeff_zero. Qed.
Print Assumptions C07_lanczos_is_arnoldi.

(* implicit restart (Sorensen): compress_V's formulas give a k-step factorization *)
Theorem C07_restart_K : forall (F : fieldType) (n k p : nat) (A : 'M[F]_n) (V : 'M[F]_(n, k + p)) (H : 'M[F]_(k + p))
  (f : 'cV[F]_n) (em : 'rV[F]_(k + p)), A *m V = V *m H + f *m em ->
  forall (Q : 'M[F]_(k + p)) (H11 : 'M[F]_k) (H12 : 'M[F]_(k, p)) (H21 : 'M[F]_(p, k)) (H22 : 'M[F]_p),
  H *m Q = Q *m block_mx H11 H12 H21 H22 ->
  forall (h q : F) (e1 : 'cV[F]_p) (ek : 'rV[F]_k), H21 = h *: (e1 *m ek) ->
  forall qr : 'rV[F]_p, em *m Q = row_mx (q *: ek) qr ->
  A *m lsubmx (V *m Q) = lsubmx (V *m Q) *m H11 + (h *: (rsubmx (V *m Q) *m e1) + q *: f) *m ek.
Proof. move=> F n k p A V H f em rel Q H11 H12 H21 H22 sim h q e1 ek Hess qr band; exact: (restart_K rel sim Hess band). Qed.
Print Assumptions C07_restart_K.

Theorem C07_restart_orth : forall (F : fieldType) (n k p : nat) (V : 'M[F]_(n, k + p)) (Q : 'M[F]_(k + p)) (B : 'M[F]_n),
  V^T *m B *m V = 1%:M -> Q^T *m Q = 1%:M -> (V *m Q)^T *m B *m (V *m Q) = 1%:M.
Proof. move=> F n k p V Q B h1 h2; exact: restart_orth. Qed.
Print Assumptions C07_restart_orth.

(* the Ritz residual identity used by C01-C03: ||A x - theta x|| = |e_k' y| ||f|| *)
Theorem C07_ritz_residual : forall (F : fieldType) (n k : nat) (A : 'M[F]_n) (V : 'M[F]_(n, k)) (H : 'M[F]_k) (f : 'cV[F]_n) (ek : 'rV[F]_k),
  A *m V = V *m H + f *m ek -> forall (y : 'cV[F]_k) (theta : F), H *m y = theta *: y ->
  A *m (V *m y) - theta *: (V *m y) = (ek *m y) 0 0 *: f.
Proof. move=> F n k A V H f ek rel y theta; exact: ritz_residual. Qed.
Print Assumptions C07_ritz_residual.

(* ---- on the MODEL of Arnoldi::factorize_from itself (model/Arnoldi.v, tied bit for bit to the C++ in its binary64 instance), in exact
   arithmetic over any real closed field: the Gram-Schmidt step gives w = V h + f for ANY basis V and ANY coefficients h, and the whole
   re-orthogonalisation loop (any number of passes) either drops the residual (f = 0, beta = 0: the breakdown branch) or returns (f, h) that
   still satisfy w = V h + f *)
Theorem C07_model_gram_schmidt : forall (F : rcfType) (n : nat) (V : seq (seq F)) (w h : seq F) (r : nat),
  (forall j, (j < size V)%N -> size (nth [::] V j) = n) -> size w = n -> (r < n)%N ->
  comb V h r + nth 0 (Arnoldi.vsub2 (OpsF F) w (Arnoldi.lincomb (OpsF F) n V h)) r = nth 0 w r.
Proof. move=> F n V w h r; exact: gs_relation. Qed.
Print Assumptions C07_model_gram_schmidt.

Theorem C07_model_reorth_relation : forall (F : rcfType) (eps bt : F) (n : nat) (Vs : seq (seq F)) (i1 : nat) (w : seq F) (fuel : nat) (f h : seq F) (beta : F) (Vf : seq F) (err : F),
  (forall j, (j < size Vs)%N -> size (nth [::] Vs j) = n) -> size Vs = i1 ->
  size f = n -> size h = i1 -> size Vf = i1 -> krel n Vs w f h ->
  let '(f', h', beta') := Arnoldi.arn_reorth (OpsF F) eps fuel n Vs i1 bt f h beta Vf err in
  (f' = nseq n 0 /\ beta' = 0) \/ (krel n Vs w f' h' /\ size h' = i1).
Proof. move=> F eps bt n Vs i1 w fuel f h beta Vf err; exact: arn_reorth_relation. Qed.
Print Assumptions C07_model_reorth_relation.

(* one WHOLE step of the model of Arnoldi::factorize_from (arnoldi_step: normalisation or breakdown restart through expand_basis, operator
   application, Gram-Schmidt, up to five re-orthogonalisation passes, update of H): the new basis vector v_i, column i of H and the new
   residual satisfy  A v_i = sum_(j<=i) H(j,i) v_j + f  (or the residual was dropped: f = 0, beta = 0) - for every state it is started from *)
Theorem C07_model_step_column : forall (F : rcfType) (near0 eps l717 : F) (Arows : seq (seq F)) (n m : nat) (bt : F) (i : nat) (Fc : fac (OpsF F)) (cnt : nat),
  size Arows = n -> (i < m)%N -> size (fV (OpsF F) Fc) = m -> (forall j, (j < m)%N -> size (nth [::] (fV (OpsF F) Fc) j) = n) -> size (fH (OpsF F) Fc) = m ->
  let '(F', cnt') := Arnoldi.arnoldi_step (OpsF F) near0 eps l717 Arows n m bt i (Fc, cnt) in
  let v := nth [::] (fV (OpsF F) F') i in
  size v = n ->
  (ff (OpsF F) F' = nseq n 0 /\ fbeta (OpsF F) F' = 0) \/
  krel n (take i.+1 (fV (OpsF F) F')) (apply_op (OpsF F) Arows v) (ff (OpsF F) F') (take i.+1 (nth [::] (fH (OpsF F) F') i)).
Proof. move=> F near0 eps l717 Arows n m bt i Fc cnt; exact: arnoldi_step_column. Qed.
Print Assumptions C07_model_step_column.

(* the three-term recurrence written by the two `map ... combine` statements of the model of Lanczos::factorize_from *)
Theorem C07_model_lanczos_recurrence : forall (F : rcfType) (n : nat) (w u v : seq F) (beta alpha : F) (r : nat),
  size w = n -> size u = n -> size v = n -> (r < n)%N ->
  let w' := List.map (fun p : F * F => p.1 - beta * p.2) (List.combine w u) in
  let f := List.map (fun p : F * F => p.1 - alpha * p.2) (List.combine w' v) in
  beta * nth 0 u r + alpha * nth 0 v r + nth 0 f r = nth 0 w r.
Proof. move=> F n w u v beta alpha r; exact: lanczos_recurrence. Qed.
Print Assumptions C07_model_lanczos_recurrence.

(* ---- the WHOLE factorization of the model, every number of steps.  Notation (proofs/ArnoldiLoop.v), for a state Fc with basis V, matrix H
   (column i, row j: Hc Fc i j), residual f and k columns built:
     InvW k Fc : shapes are m columns of length n / m x m, and  A v_i = sum_(j<k) H(j,i) v_j  for every i + 1 < k, and H(j,i) = 0 for i < k, i + 1 < j < m
     R2 k Fc   : A v_(k-1) = sum_(j<k) H(j,k-1) v_j + f        (so InvW k /\ R2 k is  A V_k = V_k H_k + f e_k'  with H_k upper Hessenberg)
     dropped Fc: f = 0 and beta = 0  (the re-orthogonalisation found the residual negligible and discarded it)
     nb_run l st: no step of the run l starts from a breakdown (every entry norm beta >= near_0).
   Arnoldi::init establishes the relation for one column: *)
Theorem C07_model_init_relation : forall (F : rcfType) (near0 eps l717 : F) (Arows : seq (seq F)) (n m : nat) (v0 : seq F) (Fc : fac (OpsF F)) (cnt : nat),
  0 < near0 -> size Arows = n -> (0 < m)%N -> Arnoldi.init (OpsF F) near0 eps Arows n m v0 = @Done _ (Fc, cnt) ->
  InvW Arows n m 1 Fc /\ (R2 Arows n 1 Fc \/ dropped n Fc).
Proof. move=> F near0 eps l717 Arows n m v0 Fc cnt np sA m0; exact: (@init_relation F near0 eps Arows n m np sA v0 Fc cnt m0). Qed.
Print Assumptions C07_model_init_relation.

(* ... and Arnoldi::factorize_from(from_k, to_m) hands it on to EVERY column, for every from_k < to_m <= m: started from a state that satisfies the
   relation for from_k columns, a run in which no step starts from a breakdown ends with the relation for to_m columns - each step closes the
   relation of the previous column with v_k = f / beta, H(k, k-1) = beta and opens the one of column k by Gram-Schmidt and up to five
   re-orthogonalisation passes; H stays upper Hessenberg; only the residual of the LAST column may have been dropped *)
Theorem C07_model_factorize_relation : forall (F : rcfType) (near0 eps l717 : F) (Arows : seq (seq F)) (n m : nat) (from_k to_m : nat) (Fc : fac (OpsF F)) (cnt : nat),
  0 < near0 -> size Arows = n -> (0 < from_k)%N -> (from_k < to_m <= m)%N -> (from_k <= fk (OpsF F) Fc)%N ->
  InvW Arows n m from_k Fc -> R2 Arows n from_k Fc ->
  let bt := eps * Num.sqrt (of_Z (OpsF F) (BinInt.Z.of_nat n)) in
  let Fz := {| fV := fV (OpsF F) Fc; fH := zero_from (OpsF F) m from_k (fH (OpsF F) Fc); ff := ff (OpsF F) Fc; fbeta := fbeta (OpsF F) Fc; fk := fk (OpsF F) Fc |} in
  nb_run near0 eps l717 Arows n m bt (List.seq from_k (to_m - from_k)) (Fz, cnt) ->
  exists F' cnt', [/\ arnoldi_factorize_from_k (OpsF F) near0 eps l717 Arows n m from_k to_m (Fc, cnt) = @Done _ (F', cnt'),
                     fk (OpsF F) F' = to_m, InvW Arows n m to_m F' & R2 Arows n to_m F' \/ dropped n F'].
Proof. move=> F near0 eps l717 Arows n m from_k to_m Fc cnt np sA k0 kt kf iw r2 bt; exact: (@factorize_relation F near0 eps l717 Arows n m bt np sA from_k to_m Fc cnt (erefl _)). Qed.
Print Assumptions C07_model_factorize_relation.

(* ---- the COMPLETE Krylov invariant on the model, exact arithmetic.  Full k Fc (proofs/ArnoldiOrth.v) :=
        InvW k Fc  /\  (R2 k Fc \/ dropped Fc)  /\  V_k' V_k = I (Orth)  /\  V_k' f = 0 (Fperp)  /\  beta = |f| (Bnorm)
   i.e.  A V_k = V_k H_k + f e_k',  H_k upper Hessenberg,  orthonormal basis,  residual orthogonal to it.
   Arnoldi::init establishes it for one column whenever the operator does not annihilate the start vector, *)
Theorem C07_model_init_full_invariant : forall (F : rcfType) (near0 eps : F) (Arows : seq (seq F)) (n m : nat) (v0 : seq F) (Fc : fac (OpsF F)) (cnt : nat),
  0 < near0 -> size Arows = n -> (0 < m)%N -> norm (OpsF F) (apply_op (OpsF F) Arows v0) != 0 ->
  Arnoldi.init (OpsF F) near0 eps Arows n m v0 = @Done _ (Fc, cnt) -> Full Arows n m 1 Fc.
Proof. move=> F near0 eps Arows n m v0 Fc cnt np sA m0 nz; exact: (@init_full F near0 eps Arows n m np sA v0 Fc cnt m0 nz). Qed.
Print Assumptions C07_model_init_full_invariant.

(* and Arnoldi::factorize_from(from_k, to_m) carries it from from_k to to_m columns, for every from_k < to_m <= m, every operator (symmetric or
   not) and every run in which no step starts from a breakdown: classical Gram-Schmidt against an orthonormal basis is exact, so in exact
   arithmetic the re-orthogonalisation loop makes no pass and never drops the residual, v_k = f / beta is a unit vector orthogonal to the basis
   and the new residual is orthogonal to the extended basis.  With C07_restart_K / C07_restart_orth (the implicit restart keeps the invariant)
   this is the whole invariant of C07 for breakdown-free histories; the breakdown branch (expand_basis) and floating point are covered by the
   bit-exact tie and the invariant observer. *)
Theorem C07_model_factorize_full_invariant : forall (F : rcfType) (near0 eps l717 : F) (Arows : seq (seq F)) (n m : nat) (from_k to_m : nat) (Fc : fac (OpsF F)) (cnt : nat),
  0 < near0 -> 0 <= eps -> size Arows = n -> (0 < from_k)%N -> (from_k < to_m <= m)%N -> (from_k <= fk (OpsF F) Fc)%N ->
  Full Arows n m from_k Fc ->
  let bt := eps * Num.sqrt (of_Z (OpsF F) (BinInt.Z.of_nat n)) in
  let Fz := {| fV := fV (OpsF F) Fc; fH := zero_from (OpsF F) m from_k (fH (OpsF F) Fc); ff := ff (OpsF F) Fc; fbeta := fbeta (OpsF F) Fc; fk := fk (OpsF F) Fc |} in
  nb_run near0 eps l717 Arows n m bt (List.seq from_k (to_m - from_k)) (Fz, cnt) ->
  exists F' cnt', [/\ arnoldi_factorize_from_k (OpsF F) near0 eps l717 Arows n m from_k to_m (Fc, cnt) = @Done _ (F', cnt'),
                     fk (OpsF F) F' = to_m & Full Arows n m to_m F'].
Proof. move=> F near0 eps l717 Arows n m from_k to_m Fc cnt np e0 sA k0 kt kf fu bt; exact: (@factorize_full F near0 eps l717 Arows n m bt np e0 sA from_k to_m Fc cnt (erefl _)). Qed.
Print Assumptions C07_model_factorize_full_invariant.

(* ---- the same for the model of Lanczos::factorize_from (lanczos_step: the path of every SYMMETRIC solver), for a self-adjoint operator.
   FullL k Fc (proofs/LanczosLoop.v) := shapes; A v_i = sum_(j<k) T(j,i) v_j (+ f for i = k - 1) for every i < k; T(j,i) = 0 outside the built
   tridiagonal band (in particular T is tridiagonal and the not yet built part is zero); V_k' V_k = I; V_k' f = 0; beta = |f|.
   The three-term recurrence only ever subtracts the components along v_(k-1) and v_k; that the new residual is orthogonal to ALL earlier
   basis vectors follows from the relation of the earlier columns and the self-adjointness - hence in exact arithmetic the near-breakdown
   test of the model does not fire and its re-orthogonalisation loop makes no pass.  For every from_k < to_m <= m and every run in which no
   step starts from a breakdown: *)
Theorem C07_model_lanczos_full_invariant : forall (F : rcfType) (near0 eps : F) (Arows : seq (seq F)) (n m : nat) (from_k to_m : nat) (Fc : fac (OpsF F)) (cnt : nat),
  0 < near0 -> 0 <= eps -> size Arows = n ->
  (forall x y : seq F, size x = n -> size y = n -> dot (OpsF F) (apply_op (OpsF F) Arows x) y = dot (OpsF F) x (apply_op (OpsF F) Arows y)) ->
  (0 < from_k)%N -> (from_k < to_m <= m)%N -> (from_k <= fk (OpsF F) Fc)%N -> FullL Arows n m from_k Fc ->
  let bt := eps * Num.sqrt (of_Z (OpsF F) (BinInt.Z.of_nat n)) in
  let Fz := {| fV := fV (OpsF F) Fc; fH := zero_from (OpsF F) m from_k (fH (OpsF F) Fc); ff := ff (OpsF F) Fc; fbeta := fbeta (OpsF F) Fc; fk := fk (OpsF F) Fc |} in
  nb_runL near0 eps Arows n m bt (Num.sqrt eps) (List.seq from_k (to_m - from_k)) (Fz, cnt) ->
  exists F' cnt', [/\ lanczos_factorize_from_k (OpsF F) near0 eps Arows n m from_k to_m (Fc, cnt) = @Done _ (F', cnt'),
                     fk (OpsF F) F' = to_m & FullL Arows n m to_m F'].
Proof.
move=> F near0 eps Arows n m from_k to_m Fc cnt np e0 sA sym k0 kt kf fu bt.
exact: (@factorize_lan F near0 eps Arows n m bt (Num.sqrt eps) np e0 (Num.Theory.sqrtr_ge0 eps) sA sym from_k to_m Fc cnt (erefl _) (erefl _)).
Qed.
Print Assumptions C07_model_lanczos_full_invariant.

(* Lanczos shares Arnoldi::init: it establishes FullL for one column unless the first residual was negligible and dropped *)
Theorem C07_model_lanczos_init : forall (F : rcfType) (near0 eps : F) (Arows : seq (seq F)) (n m : nat) (v0 : seq F) (Fc : fac (OpsF F)) (cnt : nat),
  0 < near0 -> 0 <= eps -> size Arows = n -> (0 < m)%N -> norm (OpsF F) (apply_op (OpsF F) Arows v0) != 0 ->
  Arnoldi.init (OpsF F) near0 eps Arows n m v0 = @Done _ (Fc, cnt) -> FullL Arows n m 1 Fc \/ dropped n Fc.
Proof.
move=> F near0 eps Arows n m v0 Fc cnt np e0 sA m0 nz.
exact: (@init_fullL F near0 eps Arows n m (Num.sqrt eps) np e0 (Num.Theory.sqrtr_ge0 eps) sA v0 Fc cnt m0 nz).
Qed.
Print Assumptions C07_model_lanczos_init.
