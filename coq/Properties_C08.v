(* C08 - shifted QR helpers: orthogonal Q, exact similarity, structure preserved.
   Exact-arithmetic theorems over an ARBITRARY real closed field F about the hand-written
   kernel models (model/Givens.v, model/HessQR.v), which are tied to the C++ bit for bit
   (C-bit) in their binary64 instance.  TridiagQR: model tied bit for bit, matrix_QtHQ() = Q'TQ proved for
   every n (proofs/TridiagQRPf.v).  DoubleShiftQR: model tied bit for bit, reflector-level theorems,
   identities evaluated on the implementation; its global theorem is listed in DESIGN.md as not proved. *)
From SV Require Import Ops LinAlg Givens HessQR TridiagQR DoubleShift.
From mathcomp Require Import all_ssreflect all_algebra.
From SV Require Import OpsF GivensPf HessQRPf TridiagQRPf.
Set Implicit Arguments. Unset Strict Implicit. Unset Printing Implicit Defensive.
Import GRing.Theory Num.Theory.
Local Open Scope ring_scope.

(* the rotation kernel: exact in the zero cases and in the standard branch ... *)
Theorem C08_rotation_spec : forall (F : rcfType) (cut x y : F), std_inputs cut x y ->
  let '(r, c, s) := compute_rotation (OpsF F) cut x y in
  [/\ c * x - s * y = r, s * x + c * y = 0, c ^+ 2 + s ^+ 2 = 1, 0 <= r & r ^+ 2 = x ^+ 2 + y ^+ 2].
Proof. exact: rotation_spec. Qed.
Print Assumptions C08_rotation_spec.

(* ... and in the Taylor branch (|y/x| below the cutoff) s = t c exactly and the two defects are t^6 polynomials *)
Theorem C08_rotation_taylor : forall (F : rcfType) (cut a b : F), a != 0 -> ~~ (cut <= b / a) ->
  let t := b / a in
  let '(r, c, s) := stable_scaling (OpsF F) cut a b in
  [/\ s = t * c,
      c * a + s * b = r + (5%:R / 16%:R) * t ^+ 6 * a
    & c ^+ 2 + s ^+ 2 = 1 + (5%:R / 8%:R) * t ^+ 6 - (15%:R / 64%:R) * t ^+ 8 + (9%:R / 64%:R) * t ^+ 10].
Proof. exact: scaling_taylor. Qed.
Print Assumptions C08_rotation_taylor.

(* UpperHessenbergQR::compute, every n, every input (entries below the sub-diagonal arbitrary),
   every shift: R has n columns, there are n-1 rotations, column j of R is Q' applied to column j
   of the Hessenberg part of H - sI, and R is upper triangular *)
Theorem C08_hessqr_R : forall (F : rcfType) (cut : F) (n : nat) (H : seq (seq F)) (sh : F),
  size H = n -> (forall j, (j < n)%N -> size (nth [::] H j) = n) ->
  (forall x y : F, let '(r, c, s) := compute_rotation (OpsF F) cut x y in c * x - s * y = r /\ s * x + c * y = 0) ->
  let '(R, rs) := hqr_compute (OpsF F) cut n H sh in
  [/\ size R = n, size rs = (n - 1)%N &
   forall j, (j < n)%N ->
     nth [::] R j = apply_QtY (OpsF F) rs (zb j.+1 (nth [::] (diag_sub (OpsF F) sh H) j)) /\
     (forall k, (j < k < n)%N -> nth 0 (nth [::] R j) k = 0)].
Proof. move=> F cut n H sh h1 h2 h3; exact: hqr_compute_spec. Qed.
Print Assumptions C08_hessqr_R.

(* matrix_QtHQ() = Q' H Q: for every n >= 1, every input (entries below the sub-diagonal ignored), every shift, as an identity
   of linear maps (mv = matrix times vector on the list representation); hypothesis: the contract of the rotation kernel, which
   C08_rotation_spec discharges in the zero cases and the standard branch *)
Theorem C08_hessqr_QtHQ_is_similar : forall (F : rcfType) (cut : F) (n : nat) (H : seq (seq F)) (sh : F),
  (forall x y : F, let '(r, c, s) := compute_rotation (OpsF F) cut x y in
     [/\ c * x - s * y = r, s * x + c * y = 0 & c ^+ 2 + s ^+ 2 = 1]) ->
  (0 < n)%N -> size H = n -> (forall j, (j < n)%N -> size (nth [::] H j) = n) ->
  let '(R, rs) := hqr_compute (OpsF F) cut n H sh in
  forall x, size x = n -> mv n (hqr_QtHQ (OpsF F) R rs sh) x = apply_QtY (OpsF F) rs (mv n (hess n H) (apply_QY (OpsF F) rs x)).
Proof. move=> F cut n H sh hrot n0 sH sc; exact: hqr_QtHQ_similar. Qed.
Print Assumptions C08_hessqr_QtHQ_is_similar.

(* Q is orthogonal: apply_QtY preserves inner products, apply_QY and apply_QtY are mutually
   inverse - for every sequence of rotations with c^2 + s^2 = 1 (what C08_rotation_spec gives) *)
Theorem C08_Q_isometry : forall (F : rcfType) (rs : seq (F * F)) (x y : seq F), size x = size y -> normalized rs ->
  dotr (apply_QtY (OpsF F) rs x) (apply_QtY (OpsF F) rs y) = dotr x y.
Proof. move=> F; exact: QtY_isometry. Qed.
Print Assumptions C08_Q_isometry.

Theorem C08_Q_inverse : forall (F : rcfType) (rs : seq (F * F)) (y : seq F), normalized rs ->
  apply_QY (OpsF F) rs (apply_QtY (OpsF F) rs y) = y /\ apply_QtY (OpsF F) rs (apply_QY (OpsF F) rs y) = y.
Proof. by move=> F rs y h; split; [exact: QY_QtY | exact: QtY_QY]. Qed.
Print Assumptions C08_Q_inverse.

(* right-multiplication by Q (what matrix_QtHQ and apply_YQ do column-wise) is multiplication by the
   same Q that apply_QY applies from the left:  (M G_k G_k+1 ...) x = M (G_k (G_k+1 (... x))) *)
Theorem C08_apply_consistent : forall (F : rcfType) (n k : nat) (rs : seq (F * F)) (M : seq (seq F)) (x : seq F),
  cols_ok n M -> size x = size M ->
  mv n (colrots k rs M) x = mv n M (QYp k rs x) /\ apply_QY (OpsF F) rs x = QYp 0 rs x.
Proof. by move=> F n k rs M x h1 h2; split; [exact: mv_colrots | exact: apply_QY_QYp]. Qed.
Print Assumptions C08_apply_consistent.

(* non-vacuity over the rationals-in-an-rcf: a 3-4-5 rotation *)
Example C08_nonvacuous : forall F : rcfType, std_inputs (0 : F) (3%:R) (4%:R) /\
  normalized [:: ((3%:R / 5%:R : F), - (4%:R / 5%:R))].
Proof.
move=> F; split.
- right; right. rewrite !normr_nat ltr_nat /=. by rewrite divr_ge0 ?ler0n.
- rewrite /normalized /= andbT sqrrN !expr_div_n -mulrDl -!natrX -natrD.
  by rewrite divff // pnatr_eq0.
Qed.

(* TridiagQR::matrix_QtHQ: the 2x2 core of every step is the congruence G^T [x y; y z] G with G = [c s; -s c], for all inputs *)
Theorem C08_tridiag_QtHQ_core : forall (F : rcfType) (c s x y z u1 u2 : F),
  let '(nd, nl, nd1) := TridiagQR.qthq_core (OpsF F) c s x y z in
  nd * u1 ^+ 2 + 2%:R * nl * u1 * u2 + nd1 * u2 ^+ 2 =
  x * (c * u1 + s * u2) ^+ 2 + 2%:R * y * (c * u1 + s * u2) * (- s * u1 + c * u2) + z * (- s * u1 + c * u2) ^+ 2.
Proof. move=> F c s x y z u1 u2; exact: qthq_core_similarity. Qed.
Print Assumptions C08_tridiag_QtHQ_core.

(* TridiagQR (the factorization behind every implicit restart of the SYMMETRIC solvers): matrix_QtHQ() = Q' T Q for every n >= 1, every
   diagonal / sub-diagonal and every shift, under the same contract of the rotation kernel as above.  With T the (deflated) symmetric
   tridiagonal matrix that compute() factorized and (c_i, s_i) the rotations it stored, the diagonal D and the sub-diagonal L written by the
   in-place loop of matrix_QtHQ() are the diagonal and the sub-diagonal of
        M = G_{n-2}' ... G_0' T G_0 ... G_{n-2},     G_i = [c_i s_i; -s_i c_i] in the plane (i, i+1)      (congs = that product, entrywise),
   and M is symmetric and zero outside its three diagonals: (D, L) IS Q' T Q.  The proof follows the bulge: M_i = G_{i-1}'...T...G_{i-1} is
   tridiagonal plus one entry at (i+1, i-1), M_i(i, i-1) = -s_{i-1} p_i and M_i(i, i) = shift + c_{i-1} p_i with p_i the pivot of the QR
   factorization, and the next rotation annihilates the bulge because it was computed from (p_i, T(i+1, i)).  (matrix_QtHQ finally zeroes
   sub-diagonal entries below eps (|D_i| + |D_i+1|): a deflation, not part of the similarity.) *)
Theorem C08_tridiag_QtHQ_is_similar : forall (F : rcfType) (cut eps : F) (n : nat) (diag subd : seq F) (sh : F),
  (forall x y : F, let '(r, c, s) := compute_rotation (OpsF F) cut x y in
     [/\ c * x - s * y = r, s * x + c * y = 0 & c ^+ 2 + s ^+ 2 = 1]) ->
  (0 < n)%N -> size diag = n -> size subd = (n - 1)%N ->
  let q := tqr_compute (OpsF F) cut eps n diag subd sh in
  let M := congs 0 (rots (OpsF F) q) (Tfun (nth 0 (T_diag (OpsF F) q)) (nth 0 (T_subd (OpsF F) q))) in
  let '(D, L) := qthq_loop (OpsF F) n q (n - 1) 0 (T_diag (OpsF F) q, T_subd (OpsF F) q) in
  [/\ forall j, (j < n)%N -> nth 0 D j = M j j,
      forall j, (j.+1 < n)%N -> nth 0 L j = M j.+1 j,
      forall r k, M r k = M k r &
      forall r k, (r < n)%N -> (k.+1 < r)%N -> M r k = 0].
Proof. move=> F cut eps n diag subd sh; exact: tqr_QtHQ_similar. Qed.
Print Assumptions C08_tridiag_QtHQ_is_similar.

(* DoubleShiftQR: apply_PX / apply_XP act through hh3 (hh2) on triples (pairs) of entries; for a unit vector u the map is an
   isometry and an involution, i.e. every reflector P = I - 2 u u' is orthogonal and symmetric *)
Theorem C08_reflector_isometry : forall (F : rcfType) (u0 u1 u2 x0 x1 x2 y0 y1 y2 : F), u0 ^+ 2 + u1 ^+ 2 + u2 ^+ 2 = 1 ->
  let '(a0, a1, a2) := DoubleShift.hh3 (OpsF F) u0 u1 u2 x0 x1 x2 in let '(b0, b1, b2) := DoubleShift.hh3 (OpsF F) u0 u1 u2 y0 y1 y2 in
  a0 * b0 + a1 * b1 + a2 * b2 = x0 * y0 + x1 * y1 + x2 * y2.
Proof. move=> F u0 u1 u2 x0 x1 x2 y0 y1 y2; exact: hh3_isometry. Qed.
Print Assumptions C08_reflector_isometry.

Theorem C08_reflector_involution : forall (F : rcfType) (u0 u1 u2 x0 x1 x2 : F), u0 ^+ 2 + u1 ^+ 2 + u2 ^+ 2 = 1 ->
  let '(a0, a1, a2) := DoubleShift.hh3 (OpsF F) u0 u1 u2 x0 x1 x2 in DoubleShift.hh3 (OpsF F) u0 u1 u2 a0 a1 a2 = (x0, x1, x2).
Proof. move=> F u0 u1 u2 x0 x1 x2; exact: hh3_involution. Qed.
Print Assumptions C08_reflector_involution.
