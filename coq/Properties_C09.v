(* C09 - small dense eigen-decompositions: exact pairing and value conventions.
   Models (model/TridiagEig.v): TridiagEigen::compute with tridiagonal_qr_step, Eigen's makeGivens /
   hypot / applyOnTheRight - tied to TridiagEigen<double> bit for bit (eigenvalues, eigenvectors, or the
   exception); the eigenvalue extraction and scaling of UpperHessenbergEigen - tied bit for bit on the
   Schur factor produced by the implementation; model/Schur.v: UpperHessenbergSchur::compute complete
   (norm, deflation scan, 2x2 splitting, ordinary and both exceptional shifts, Francis sweep with Eigen's
   makeHouseholder / makeGivens and the scalar reflector kernels) - tied to UpperHessenbergSchur<double> bit
   for bit (T, U, or the exception).  The eigenvector back-substitution is not modelled: the identities
   of the property are evaluated on the implementation (lib/p_C09.py).  The n*eps bounds are floating-point statements, not theorems. *)
From SV Require Import Ops LinAlg TridiagEig Schur.
From mathcomp Require Import all_ssreflect all_algebra.
From SV Require Import OpsF TEigPf SchurPf SchurShape.
Set Implicit Arguments. Unset Strict Implicit. Unset Printing Implicit Defensive.
Import GRing.Theory Num.Theory.
Local Open Scope ring_scope.

(* every rotation of the tridiagonal QR step is an exact plane rotation that annihilates the bulge:
   for EVERY pair (p, q), including the zero cases *)
Theorem C09_givens_exact : forall (F : rcfType) (p q : F),
  let '(c, s) := make_givens (OpsF F) p q in
  [/\ c ^+ 2 + s ^+ 2 = 1, s * p + c * q = 0 & (c * p - s * q) ^+ 2 = p ^+ 2 + q ^+ 2].
Proof. move=> F; exact: make_givens_spec. Qed.
Print Assumptions C09_givens_exact.

(* one iteration of the bulge chase writes exactly the entries of G^T T G (as a quadratic form on the 4x4 window around the
   rotation plane, bulge included) for the plane rotation G = [c s; -s c] by which the eigenvector matrix is multiplied:
   every step is an orthogonal similarity, for every (c, s) and every window *)
Theorem C09_chase_step_is_similarity : forall (F : rcfType) (c s a x z dk sk dk1 e f u0 u1 u2 u3 : F),
  let '(ndk, ndk1, nsk) := rot_update (OpsF F) c s dk dk1 sk in
  qform a (c * x - s * z) (s * x + c * z) ndk nsk ndk1 (- s * e) (c * e) f u0 u1 u2 u3 =
  qform a x z dk sk dk1 0 e f u0 (c * u1 + s * u2) (- s * u1 + c * u2) u3.
Proof. move=> F c s a x z dk sk dk1 e f u0 u1 u2 u3; exact: chase_step_similarity. Qed.
Print Assumptions C09_chase_step_is_similarity.

(* TridiagEigen: whenever the main loop returns (instead of signalling the iteration limit, where the C++
   throws), every sub-diagonal entry is exactly zero - for every scalar instance (binary64 included), every
   input, every start state of the loop: numbers are only returned from a fully deflated matrix *)
Theorem C09_tridiag_success_is_diagonal : forall (o : Ops) (cz pinv : T o) (fuel n start e iter : nat) d sd Q d' sd' Q',
  (e <= n)%N -> zero_from e sd ->
  te_loop o cz pinv fuel n start e iter d sd Q = Some (d', sd', Q') ->
  size sd' = size sd /\ zero_from 0 sd'.
Proof. move=> o cz pinv fuel n start e iter d sd Q d' sd' Q'; exact: te_loop_zero. Qed.
Print Assumptions C09_tridiag_success_is_diagonal.

(* UpperHessenbergEigen: value conventions, for EVERY scalar instance and every matrix T (quasi-triangular
   or not): n values; a real one carries the literal zero as imaginary part; complex ones are emitted as
   adjacent pairs (a, z), (a, -z) *)
Theorem C09_value_shape : forall (o : Ops) (n : nat) (Tm : mat o),
  conv_list (he_values o n n 0 Tm) /\ List.length (he_values o n n 0 Tm) = n.
Proof. by move=> o n Tm; split; [exact: he_values_conv | rewrite he_values_length ?subn0]. Qed.
Print Assumptions C09_value_shape.

(* in exact arithmetic, after the scaling back by a non-negative scale: real values stay real, pairs stay
   exact conjugates and the member with the non-negative imaginary part comes first *)
Theorem C09_value_conventions : forall (F : rcfType) (n : nat) (Tm : mat (OpsF F)) (scale : F), 0 <= scale ->
  conv_listF (he_eigenvalues (OpsF F) n Tm scale).
Proof. move=> F n Tm scale; exact: he_eigenvalues_conv. Qed.
Print Assumptions C09_value_conventions.

(* UpperHessenbergSchur: Eigen's makeHouseholder is exact for EVERY (c0, x1, x2) and every threshold min >= 0: the reflector
   I - tau w w^T, w = (1, v1, v2), is orthogonal (tau (2 - tau |w|^2) = 0); if the tail is not negligible it maps (c0, x1, x2) to
   (beta, 0, 0) with beta^2 = c0^2 + x1^2 + x2^2 - which is what the model then stores at T(k, k-1) and what the clean-up loop
   zeroes; otherwise it is the identity and beta = c0 *)
Theorem C09_householder_exact : forall (F : rcfType) (min_ c0 x1 x2 : F), 0 <= min_ ->
  let '(v1, v2, tau, beta) := make_householder (OpsF F) min_ c0 x1 x2 in
  hh3_cond tau v1 v2 /\
  (if x1 * x1 + x2 * x2 <= min_ then tau = 0 /\ beta = c0
   else hh3 tau v1 v2 (c0, x1, x2) = (beta, 0, 0) /\ beta ^+ 2 = c0 ^+ 2 + x1 ^+ 2 + x2 ^+ 2).
Proof. move=> F min_ c0 x1 x2 m0; exact: make_householder_spec. Qed.
Print Assumptions C09_householder_exact.

(* the 3-vector map both reflector kernels (apply_householder_left on columns, apply_householder_right on rows) compute is an
   isometry and an involution whenever the orthogonality condition holds: every Francis step is an orthogonal similarity on the
   entries it touches *)
Theorem C09_reflector_kernel_isometry : forall (F : rcfType) (tau v1 v2 : F) (x y : F * F * F), hh3_cond tau v1 v2 ->
  dot3 (hh3 tau v1 v2 x) (hh3 tau v1 v2 y) = dot3 x y /\ hh3 tau v1 v2 (hh3 tau v1 v2 x) = x.
Proof. by move=> F tau v1 v2 x y hc; split; [exact: hh3_dot | exact: hh3_invol]. Qed.
Print Assumptions C09_reflector_kernel_isometry.

(* matrix level: apply_householder_left writes hh3 of the triple (rows k, k+1, k+2) in every column j >= k and nothing else;
   apply_householder_right (scalar path of the _simd kernel) writes hh3 of the triple (columns k, k+1, k+2) in every row below nrow (here n)
   and nothing else - with C09_reflector_kernel_isometry: one Francis reflector step is H M H, H = I - tau w w^T symmetric orthogonal,
   on all the entries the two kernels touch *)
Theorem C09_reflector_kernels_entries : forall (F : rcfType) (n : nat) (M : mat (OpsF F)) (k : nat) (v1 v2 tau : F), wfm n M -> (k + 2 < n)%N ->
  (forall i j, (i < n)%N -> (j < n)%N ->
     (~~ ((k <= j) && (k <= i <= k + 2))%N -> mget (OpsF F) (hh_left (OpsF F) M k v1 v2 tau) i j = mget (OpsF F) M i j) /\
     ((k <= j)%N -> (mget (OpsF F) (hh_left (OpsF F) M k v1 v2 tau) k j, mget (OpsF F) (hh_left (OpsF F) M k v1 v2 tau) (k + 1) j,
                     mget (OpsF F) (hh_left (OpsF F) M k v1 v2 tau) (k + 2) j)
                    = hh3 tau v1 v2 (mget (OpsF F) M k j, mget (OpsF F) M (k + 1) j, mget (OpsF F) M (k + 2) j))) /\
  (forall i, (i < n)%N ->
     (forall c, (c < n)%N -> c != k -> c != (k + 1)%N -> c != (k + 2)%N -> mget (OpsF F) (hh_right (OpsF F) M k n v1 v2 tau) i c = mget (OpsF F) M i c) /\
     (mget (OpsF F) (hh_right (OpsF F) M k n v1 v2 tau) i k, mget (OpsF F) (hh_right (OpsF F) M k n v1 v2 tau) i (k + 1),
      mget (OpsF F) (hh_right (OpsF F) M k n v1 v2 tau) i (k + 2))
       = hh3 tau v1 v2 (mget (OpsF F) M i k, mget (OpsF F) M i (k + 1), mget (OpsF F) M i (k + 2))).
Proof.
move=> F n M k v1 v2 tau w k2; split; first exact: hh_left_entries.
by have [_ h] := hh_right_entries v1 v2 tau w k2.
Qed.
Print Assumptions C09_reflector_kernels_entries.

(* the WHOLE iteration, for every n, every input matrix (Hessenberg or not), every eps and every min >= 0: whenever the model of
   UpperHessenbergSchur::compute returns (instead of signalling the iteration limit, where the C++ throws), the accumulated U has
   the n x n shape and U U^T = I exactly - whatever shifts, deflations and exceptional shifts were taken *)
Theorem C09_schur_U_orthogonal : forall (F : rcfType) (eps min_ : F) (n : nat) (M Tm U : mat (OpsF F)), 0 <= min_ ->
  sc_compute (OpsF F) eps min_ n M = Some (Tm, U) ->
  wfm n U /\ forall i j, (i < n)%N -> (j < n)%N -> \sum_(c < n) mget (OpsF F) U i c * mget (OpsF F) U j c = (i == j)%:R.
Proof. move=> F eps min_ n M Tm U m0 h; exact: (sc_compute_U_orthogonal m0 h). Qed.
Print Assumptions C09_schur_U_orthogonal.

(* the shape of T, for EVERY scalar instance (the binary64 one that is tied bit for bit included), every n and every n x n upper Hessenberg input:
   whenever the model of UpperHessenbergSchur::compute returns, either it took the early exit for a matrix of norm zero (T is the input) or T is
   literally zero below the sub-diagonal and no two consecutive sub-diagonal entries are both non-zero - quasi-upper-triangular with 1x1 / 2x2
   diagonal blocks, which is the shape UpperHessenbergEigen's eigenvalue extraction (C09_value_shape) walks over *)
Theorem C09_schur_T_quasi_triangular : forall (o : Ops) (eps min_ : T o) (n : nat) (M Tm U : mat o),
  SchurShape.wfm n M -> Hess n M -> sc_compute o eps min_ n M = Some (Tm, U) ->
  (Ops.eqb o (l1_norm o n M) (zero o) = true /\ Tm = M) \/
  (SchurShape.wfm n Tm /\ Hess n Tm /\ forall i, (i + 2 < n)%N -> mget o Tm (i + 1)%N i = zero o \/ mget o Tm (i + 2)%N (i + 1)%N = zero o).
Proof. move=> o eps min_ n M Tm U; exact: sc_compute_quasi_triangular. Qed.
Print Assumptions C09_schur_T_quasi_triangular.

(* non-vacuity: a 2x2 rotation block yields one conjugate pair, a diagonal matrix yields real values *)
Example C09_nonvacuous : forall F : rcfType,
  he_values (OpsF F) 2 2 0 [:: [:: 0; 1]; [:: -1; 0]] = [:: (0, 1); (0, -1)].
Proof.
move=> F; rewrite /he_values /mget /mcol /vnth /max_ /half /= /F_of_lit /=.
rewrite oner_eq0 /= subrr mulr0 normr0 normr1 normrN1 Order.POrderTheory.ltxx /= ltr01 /=; do 4! rewrite ?(divr1, invr1, mulr0, mul0r, add0r, mul1r, mulr1, normrN1, sqrtr1, addr0).
by [].
Qed.

(* non-vacuity of C09_schur_U_orthogonal: the model returns on a concrete input in every real closed field *)
Example C09_schur_nonvacuous : forall (F : rcfType) (eps min_ : F),
  sc_compute (OpsF F) eps min_ 1 [:: [:: 1]] = Some ([:: [:: 1]], [:: [:: 1]]).
Proof.
move=> F eps min_; rewrite /sc_compute /l1_norm /= /abs_sum /= add0r normr1 oner_eq0 /=.
by rewrite /mget /mcol /vnth /mset /mapi /= addr0.
Qed.

(* non-vacuity of C09_schur_T_quasi_triangular on the binary64 instance: a 3 x 3 Hessenberg matrix (columns listed) on which the model returns *)
Example C09_schur_shape_nonvacuous :
  let M := [:: [:: 2; 1; 0]; [:: 1; 3; 1]; [:: 4; 1; 1]]%float in
  (if sc_compute OpsFloat 0x1p-52%float 0x1p-1022%float 3 M is Some (Tm, _) then PrimFloat.eqb (mget OpsFloat Tm 2 0) 0%float else false) = true.
Proof. by vm_compute. Qed.
