(* C10 - Bunch-Kaufman LDLT solves every nonsingular symmetric shifted system.
   The model (model/BK.v: copy_data, find_lambda/find_sigma, permutate_mat, pivoting_1x1/2x2,
   interchange_rows, gaussian_elimination_1x1/2x2, compute, solve_inplace on the packed lower
   triangle) is tied to BKLDLT<double> bit for bit (C-bit: status, permutation, every packed
   entry, the solution).  Theorems, in exact arithmetic over an ARBITRARY real closed field:
   the pivot strategy only ever divides by a non-zero 1x1 pivot / a nonsingular 2x2 block when the
   column is not already eliminated, the 2x2 block solve is exact, lower and upper input give the
   same packed copy (for every scalar instance, floats included), and the status after compute()
   is always fresh.  The n*eps residual bound itself is a floating-point statement: it is
   evaluated on the implementation in exact rational arithmetic (lib/p_C10.py). *)
From SV Require Import Ops LinAlg BK.
From mathcomp Require Import all_ssreflect all_algebra.
From SV Require Import OpsF BKPf BKElim BKPerm BKPermOk.
Set Implicit Arguments. Unset Strict Implicit. Unset Printing Implicit Defensive.
Import GRing.Theory Num.Theory.
Local Open Scope ring_scope.

(* the three outcomes of the pivot decision (bk_choice is the decision made inside permutate_mat,
   translated from the same three comparisons), for 0 < alpha < 1, lambda = |a_rk| > 0 the largest
   off-diagonal magnitude of column k, sigma >= lambda *)
Theorem C10_pivot_1x1_nonzero : forall (F : rcfType) (alpha akk arr ark sigma : F),
  0 < alpha -> 0 < `|ark| -> `|ark| <= sigma ->
  bk_choice (OpsF F) alpha `|akk| `|ark| sigma `|arr| = 0%N -> akk != 0.
Proof. move=> F alpha akk arr ark sigma a0 l0 sl; exact: choice0_pivot_nonzero. Qed.
Print Assumptions C10_pivot_1x1_nonzero.

Theorem C10_pivot_1x1_interchange_nonzero : forall (F : rcfType) (alpha akk arr ark sigma : F),
  0 < alpha -> 0 < `|ark| -> `|ark| <= sigma ->
  bk_choice (OpsF F) alpha `|akk| `|ark| sigma `|arr| = 1%N -> arr != 0.
Proof. move=> F alpha akk arr ark sigma a0 l0 sl; exact: choice1_pivot_nonzero. Qed.
Print Assumptions C10_pivot_1x1_interchange_nonzero.

Theorem C10_pivot_2x2_nonsingular : forall (F : rcfType) (alpha akk arr ark sigma : F),
  0 < alpha -> alpha < 1 -> 0 < `|ark| -> `|ark| <= sigma ->
  bk_choice (OpsF F) alpha `|akk| `|ark| sigma `|arr| = 2%N -> akk * arr - ark * ark != 0.
Proof. move=> F alpha akk arr ark sigma a0 a1 l0 sl; exact: choice2_block_nonsingular. Qed.
Print Assumptions C10_pivot_2x2_nonsingular.

(* ... and in that 2x2 block the off-diagonal entry strictly dominates a_kk, so both 2x2 kernels take their second branch *)
Theorem C10_pivot_2x2_second_branch : forall (F : rcfType) (alpha akk arr ark sigma : F),
  0 < alpha -> alpha < 1 -> 0 < `|ark| -> `|ark| <= sigma ->
  bk_choice (OpsF F) alpha `|akk| `|ark| sigma `|arr| = 2%N -> Ops.leb (OpsF F) (Ops.abs (OpsF F) ark) (Ops.abs (OpsF F) akk) = false.
Proof. move=> F alpha akk arr ark sigma a0 a1 l0 sl; exact: choice2_offdiag_dominates. Qed.
Print Assumptions C10_pivot_2x2_second_branch.

(* the decision taken inside permutate_mat (model of BKLDLT::permutate_mat, tied bit for bit) IS bk_choice on the four magnitudes:
   a 1x1 pivot is chosen exactly when bk_choice is not 2 - for every scalar instance *)
Theorem C10_decision_is_bk_choice : forall (o : Ops) (alpha : T o) (n : nat) (P : packed o) (pm : list BinNums.Z) (k : nat),
  let '(lambda, r) := find_lambda o n P k in
  ltb o (zero o) lambda = true ->
  let '(sigma, p) := find_sigma o n P k r k in
  fst (fst (permutate_mat o alpha n P pm k)) = negb (Nat.eqb (bk_choice o alpha (abs o (pget o P k k)) lambda sigma (abs o (pget o P r r))) 2).
Proof. move=> o alpha n P pm k; exact: permutate_mat_decision. Qed.
Print Assumptions C10_decision_is_bk_choice.

(* gaussian_elimination_1x1 (model tied bit for bit) at step k with a non-zero pivot a_kk: it reports success, keeps the packed shape,
   stores the Schur complement a_ij - (a_jk / a_kk) a_ik in the trailing triangle, the multipliers a_ik / a_kk in column k and
   touches NOTHING else - for every scalar instance (the statement fixes the evaluation order of the binary64 one) *)
Theorem C10_elimination_is_schur_complement : forall (o : Ops) (n : nat) (P : packed o) (k : nat),
  wf (o:=o) n P -> (k < n)%N -> Ops.eqb o (pget o P k k) (zero o) = false ->
  let akk := pget o P k k in
  let '(P', inf) := elim_1x1 o n P k in
  [/\ inf = 0%N, wf n P' & forall i j, (j <= i < n)%N ->
     pget o P' i j = if (k < j)%N then Ops.sub o (pget o P i j) (Ops.mul o (Ops.div o (pget o P j k) akk) (pget o P i k))
                     else if (j == k) && (k < i)%N then Ops.div o (pget o P i k) akk else pget o P i j].
Proof. move=> o n P k; exact: elim_1x1_spec. Qed.
Print Assumptions C10_elimination_is_schur_complement.

(* in exact arithmetic that step is one step of the L D L^T factorization: a_ik = l_i d, a_ij = S_ij + l_i d l_j, pivot entry left in place *)
Theorem C10_elimination_1x1_is_ldlt_step : forall (F : rcfType) (n : nat) (P : list (list F)) (k : nat),
  wf (o:=OpsF F) n P -> (k < n)%N -> pget (OpsF F) P k k != 0 ->
  let d := pget (OpsF F) P k k in
  let P' := (elim_1x1 (OpsF F) n P k).1 in
  [/\ pget (OpsF F) P' k k = d,
      forall i, (k < i < n)%N -> pget (OpsF F) P i k = pget (OpsF F) P' i k * d &
      forall i j, (k < j)%N -> (j <= i < n)%N -> pget (OpsF F) P i j = pget (OpsF F) P' i j + pget (OpsF F) P' i k * d * pget (OpsF F) P' j k].
Proof. move=> F n P k; exact: elim_1x1_reconstruct. Qed.
Print Assumptions C10_elimination_1x1_is_ldlt_step.

(* gaussian_elimination_2x2 at step k with a nonsingular pivot block E = [e11 e21; e21 e22]: with (x1_i, x2_i) = solve_2x2 E (a_ik, a_i,k+1) the
   trailing triangle receives a_ij - (x1_i a_jk + x2_i a_j,k+1), the columns k, k+1 below the block receive x1_i, x2_i, nothing else is touched -
   for every scalar instance *)
Theorem C10_elimination_2x2_entries : forall (o : Ops) (n : nat) (P : packed o) (k : nat), wf (o:=o) n P -> (k + 1 < n)%N ->
  let e11 := pget o P k k in let e21 := pget o P (k + 1)%N k in let e22 := pget o P (k + 1)%N (k + 1)%N in
  Ops.eqb o (Ops.sub o (Ops.mul o e11 e22) (Ops.mul o e21 e21)) (zero o) = false ->
  let X i := solve_2x2 o e11 e21 e22 (pget o P i k) (pget o P i (k + 1)%N) in
  let '(P', inf) := elim_2x2 o n P k in
  [/\ inf = 0%N, wf n P' & forall i j, (j <= i < n)%N ->
     pget o P' i j = if (k + 1 < j)%N then Ops.sub o (pget o P i j) (Ops.add o (Ops.mul o (X i).1 (pget o P j k)) (Ops.mul o (X i).2 (pget o P j (k + 1)%N)))
                     else if (k + 1 < i)%N && (j == k) then (X i).1
                     else if (k + 1 < i)%N && (j == k + 1)%N then (X i).2 else pget o P i j].
Proof. move=> o n P k; exact: elim_2x2_spec. Qed.
Print Assumptions C10_elimination_2x2_entries.

(* and in exact arithmetic it is one 2x2 block step of L D L^T: (a_ik, a_i,k+1) = E l_i, a_ij = S_ij + l_i^T E l_j, block left in place *)
Theorem C10_elimination_2x2_is_ldlt_step : forall (F : rcfType) (n : nat) (P : list (list F)) (k : nat), wf (o:=OpsF F) n P -> (k + 1 < n)%N ->
  let pg := pget (OpsF F) in
  let e11 := pg P k k in let e21 := pg P (k + 1)%N k in let e22 := pg P (k + 1)%N (k + 1)%N in
  e11 * e22 - e21 * e21 != 0 ->
  let P' := (elim_2x2 (OpsF F) n P k).1 in
  [/\ pg P' k k = e11 /\ pg P' (k + 1)%N k = e21 /\ pg P' (k + 1)%N (k + 1)%N = e22,
      forall i, (k + 1 < i < n)%N -> pg P i k = e11 * pg P' i k + e21 * pg P' i (k + 1)%N /\ pg P i (k + 1)%N = e21 * pg P' i k + e22 * pg P' i (k + 1)%N &
      forall i j, (k + 1 < j)%N -> (j <= i < n)%N ->
        pg P i j = pg P' i j + (pg P' i k * (e11 * pg P' j k + e21 * pg P' j (k + 1)%N) + pg P' i (k + 1)%N * (e21 * pg P' j k + e22 * pg P' j (k + 1)%N))].
Proof. move=> F n P k; exact: elim_2x2_reconstruct. Qed.
Print Assumptions C10_elimination_2x2_is_ldlt_step.

(* the 2x2 diagonal block solve used by solve_inplace and gaussian_elimination_2x2 *)
Theorem C10_solve_2x2 : forall (F : rcfType) (e11 e21 e22 b1 b2 : F), e11 * e22 - e21 * e21 != 0 ->
  let '(x1, x2) := solve_2x2 (OpsF F) e11 e21 e22 b1 b2 in
  e11 * x1 + e21 * x2 = b1 /\ e21 * x1 + e22 * x2 = b2.
Proof. move=> F e11 e21 e22 b1 b2; exact: solve_2x2_spec. Qed.
Print Assumptions C10_solve_2x2.

(* the permutation bracket of solve(): the interchanges recorded by compute() are applied to b in order before the sweeps
   and undone in reverse order after them; the second pass is the exact inverse of the first - for EVERY scalar instance
   (binary64 included) - whenever the permutation vector has one entry per row, each encoding a row index below n
   (p for a 1x1 pivot, -p-1 for a 2x2 pivot); the C-bit run compares that vector with BKLDLT's entry by entry *)
Theorem C10_solve_permutation_bracket : forall (o : Ops) (n : nat) (pm : list BinNums.Z) (x : list (T o)), size x = n -> perm_ok n pm ->
  List.fold_left (fun x pr => vswap o x (fst pr) (snd pr)) (List.rev (permc pm))
    (List.fold_left (fun x pr => vswap o x (fst pr) (snd pr)) (permc pm) x) = x.
Proof. by move=> o n pm x sx ok; apply: bk_solve_permutation_bracket; rewrite sx; apply: permc_in_range. Qed.
Print Assumptions C10_solve_permutation_bracket.

(* ... and every permutation vector the compute() model can produce is of that form: for every scalar instance, order, input,
   triangle and shift - so the bracket holds after every factorization, with no side condition left *)
Theorem C10_compute_permutation_wellformed : forall (o : Ops) (alpha : T o) (n : nat) (src : list (list (T o))) (uplo : bool) (shift : T o),
  perm_ok n (perm o (bk_compute o alpha n src uplo shift)).
Proof. move=> o alpha n src uplo shift; exact: bk_compute_perm_ok. Qed.
Print Assumptions C10_compute_permutation_wellformed.

Theorem C10_solve_permutation_bracket_after_compute : forall (o : Ops) (alpha : T o) (n : nat) (src : list (list (T o))) (uplo : bool) (shift : T o) (x : list (T o)),
  size x = n -> let pc := permc (perm o (bk_compute o alpha n src uplo shift)) in
  List.fold_left (fun x pr => vswap o x (fst pr) (snd pr)) (List.rev pc) (List.fold_left (fun x pr => vswap o x (fst pr) (snd pr)) pc x) = x.
Proof. by move=> o alpha n src uplo shift x sx; apply: (@C10_solve_permutation_bracket o n) => //; apply: bk_compute_perm_ok. Qed.
Print Assumptions C10_solve_permutation_bracket_after_compute.

(* one interchange moves exactly the two named entries (what the sweeps between the two passes see) *)
Theorem C10_interchange_entries : forall (o : Ops) (x : list (T o)) (i j k : nat), (i < size x)%N -> (j < size x)%N ->
  vnth o (vswap o x i j) k = if k == j then vnth o x i else if k == i then vnth o x j else vnth o x k.
Proof. move=> o x i j k; exact: permute_entry. Qed.
Print Assumptions C10_interchange_entries.

(* non-vacuity of the bracket: the vector [1; -1; 2] (row 0 <-> 1 as a 1x1 interchange, row 2 a 2x2 pivot with row 2) is perm_ok *)
Example C10_bracket_nonvacuous : perm_ok 3 [:: BinNums.Zpos BinNums.xH; BinNums.Zneg BinNums.xH; BinNums.Zpos (BinNums.xO BinNums.xH)].
Proof. by split=> // -[|[|[|i]]]. Qed.

(* lower and upper triangle of one symmetric matrix: identical packed copy, hence identical
   factorization and solution - for EVERY scalar instance (the binary64 one included) *)
Theorem C10_lower_upper_agree : forall (o : Ops) (alpha : T o) (n : nat) (src : list (list (T o))) (shift : T o),
  (forall i j, (i < n)%N -> (j < n)%N -> List.nth i (List.nth j src nil) (zero o) = List.nth j (List.nth i src nil) (zero o)) ->
  bk_compute o alpha n src true shift = bk_compute o alpha n src false shift.
Proof. by move=> o alpha n src shift sym; rewrite /bk_compute (copy_lower_upper shift sym). Qed.
Print Assumptions C10_lower_upper_agree.

(* the status is Successful (0) or NumericalIssue (3) and is decided by THIS call *)
Theorem C10_info_fresh : forall (o : Ops) (alpha : T o) (n : nat) (src : list (list (T o))) (uplo : bool) (shift : T o),
  let s := bk_compute o alpha n src uplo shift in info o s = 0%N \/ info o s = 3%N.
Proof. move=> o alpha n src uplo shift; exact: bk_info_fresh. Qed.
Print Assumptions C10_info_fresh.

(* non-vacuity: alpha = 5/8 (0 < alpha < 1), the zero-diagonal block [0 1; 1 0] takes the 2x2 branch *)
Example C10_nonvacuous : forall F : rcfType, bk_choice (OpsF F) (2%:R^-1) `|0 : F| `|1 : F| 1 `|0 : F| = 2%N.
Proof.
move=> F; rewrite /bk_choice /= normr0 normr1 !mulr1 mulr0.
have h : 0 < (2%:R : F)^-1 by rewrite invr_gt0 ltr0n.
by rewrite h Order.TotalTheory.leNgt h.
Qed.
