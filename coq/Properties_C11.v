(* C11 - matrix-operation wrappers compute the documented operator in every configuration.
   (1) inventory regenerated from the headers (gen/WrapGen.v): every use of the stored matrix in a wrapper
       that takes a triangle option names that option (element accessors excepted), every wrapper
       constructor carries its storage-order static_assert - finite checks decided by computation on the
       regenerated tables;
   (2) semantic model of the triangle handling of SymShiftInvert (three helper variants) and
       DenseSymShiftSolve composed with the Bunch-Kaufman model (model/Wrap.v, tied bit for bit to the
       48 BKLDLT-backed configurations of SymShiftInvert<double> and to DenseSymShiftSolve<double>):
       the factorized matrix is sym(A) - sigma sym(B) entry by entry and only the designated triangles
       are read - for EVERY scalar instance.
   The other wrappers delegate to Eigen (products, LLT, LU, CG): compared with a long double reference
   and checked for triangle independence on the implementation (lib/p_C11.py). *)
From SV Require Import Cxx Ops LinAlg BK Wrap WrapGen.
From mathcomp Require Import all_ssreflect.
From SV Require Import OpsF WrapPf.
Require Import String List.
Set Implicit Arguments. Unset Strict Implicit. Unset Printing Implicit Defensive.

Definition site_ok (s : string * string * string * bool) : bool :=
  let '(_, where_, _, names_option) := s in names_option || String.eqb where_ "operator()".

Theorem C11_triangle_option_at_every_use : forallb site_ok wrapper_sites = true.
Proof. by vm_compute. Qed.
Print Assumptions C11_triangle_option_at_every_use.

Theorem C11_every_wrapper_checks_storage_order :
  forallb (fun p : string * BinNums.Z => BinInt.Z.leb 1 (snd p)) wrapper_static_asserts = true /\ List.length wrapper_static_asserts = 16.
Proof. by vm_compute. Qed.
Print Assumptions C11_every_wrapper_checks_storage_order.

(* every wrapper with a triangle option appears in the inventory of sites *)
Theorem C11_inventory_complete :
  forallb (fun c : string * list string =>
             negb (existsb (fun p => String.prefix "Uplo" p) (snd c)) ||
             existsb (fun s : string * string * string * bool => String.eqb (fst (fst (fst s))) (fst c)) wrapper_sites) wrapper_tparams = true.
Proof. by vm_compute. Qed.
Print Assumptions C11_inventory_complete.

Theorem C11_shift_invert_matrix_dense_A : forall (o : Ops) (lowerA lowerB : bool) (n : nat) (A B : mat o) (sigma : T o) (i j : nat),
  (i < n)%N -> (j < n)%N -> in_tri lowerA i j ->
  mget o (ssi_mat_dense_A o lowerA lowerB n A B sigma) i j = sub o (sym_entry o lowerA A i j) (mul o (sym_entry o lowerB B i j) sigma).
Proof. move=> o lowerA lowerB n A B sigma i j; exact: ssi_dense_A_entries. Qed.
Print Assumptions C11_shift_invert_matrix_dense_A.

Theorem C11_shift_invert_matrix_sparse_A : forall (o : Ops) (lowerA lowerB : bool) (n : nat) (A B : mat o) (sigma : T o) (i j : nat),
  (i < n)%N -> (j < n)%N -> in_tri lowerB i j ->
  mget o (ssi_mat_sparse_A o lowerA lowerB n A B sigma) i j = add o (mul o (neg o sigma) (sym_entry o lowerB B i j)) (sym_entry o lowerA A i j).
Proof. move=> o lowerA lowerB n A B sigma i j; exact: ssi_sparse_A_entries. Qed.
Print Assumptions C11_shift_invert_matrix_sparse_A.

(* changing entries in the other triangle changes no output (factorization status included) *)
Theorem C11_shift_invert_reads_only_triangles : forall (o : Ops) (alpha : T o) (a_dense lowerA lowerB : bool) (n : nat) (A A' B B' : mat o) (sigma : T o) (x : vec o),
  agree_on lowerA n A A' -> agree_on lowerB n B B' ->
  ssi_solve o alpha a_dense lowerA lowerB n A B sigma x = ssi_solve o alpha a_dense lowerA lowerB n A' B' sigma x.
Proof. move=> o alpha a_dense lowerA lowerB n A A' B B' sigma x; exact: ssi_solve_reads_only_triangles. Qed.
Print Assumptions C11_shift_invert_reads_only_triangles.

Theorem C11_dense_shift_solve_reads_only_triangle : forall (o : Ops) (alpha : T o) (lower : bool) (n : nat) (A A' : mat o) (sigma : T o) (x : vec o),
  agree_on lower n A A' -> dsss_solve o alpha lower n A sigma x = dsss_solve o alpha lower n A' sigma x.
Proof. move=> o alpha lower n A A' sigma x; exact: dsss_solve_reads_only_triangle. Qed.
Print Assumptions C11_dense_shift_solve_reads_only_triangle.

(* non-vacuity: two different matrices that agree on the lower triangle *)
Example C11_nonvacuous : forall o : Ops, agree_on true 2 [:: [:: one o; one o]; [:: zero o; one o]] [:: [:: one o; one o]; [:: one o; one o]].
Proof. by move=> o [|[|i]] [|[|j]]. Qed.
