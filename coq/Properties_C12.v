(* C12 - invalid arguments are rejected with invalid_argument; valid ones are accepted.
   Every function named here is GENERATED from the constructors / checks of /repo
   (gen/ArgsGen.v); the documented ranges (herm_spec, gen_spec, jd_spec) are hand-written. *)
Require Import ZArith List Bool.
From SV Require Import Cxx ArgsGen ArgsModel ArgsPf.
Import ListNotations.
Local Open Scope Z_scope.

(* symmetric / Hermitian family (both constructors of HermEigsBase), every n incl. n <= 1 *)
Theorem C12_herm_accepts : forall n nev ncv,
  (herm_spec n nev ncv = true -> herm_ctor_lvalue n nev ncv = Ok (nev, ncv, 0, 0)) /\
  (herm_spec n nev ncv = false -> rejected_invalid (herm_ctor_lvalue n nev ncv)).
Proof. exact herm_ctor_spec. Qed.
Print Assumptions C12_herm_accepts.

Theorem C12_herm_ctors_agree : forall n nev ncv, herm_ctor_rvalue n nev ncv = herm_ctor_lvalue n nev ncv.
Proof. exact herm_ctors_agree. Qed.
Print Assumptions C12_herm_ctors_agree.

Theorem C12_gen_accepts : forall n nev ncv,
  (gen_spec n nev ncv = true -> gen_ctor n nev ncv = Ok (nev, ncv, 0, 0)) /\
  (gen_spec n nev ncv = false -> rejected_invalid (gen_ctor n nev ncv)).
Proof. exact gen_ctor_spec. Qed.
Print Assumptions C12_gen_accepts.

Theorem C12_jd_accepts : forall n nev ni nm,
  (jd_spec n nev = false -> rejected_invalid (jd_ctor n nev ni nm)) /\
  (jd_spec n nev = true -> exists mx ini cs, jd_ctor n nev ni nm = Ok (nev, mx, ini, cs) /\
      (0 <= ni -> 0 <= ini /\ 0 <= cs /\ ini + cs <= n) /\ mx <= n).
Proof. exact jd_ctor_spec. Qed.
Print Assumptions C12_jd_accepts.

Theorem C12_svd_accepts : forall rows cols ncomp ncv,
  (herm_spec (Z.min rows cols) ncomp ncv = true -> svd_ctor rows cols ncomp ncv = Ok (ncomp, ncv, 0, 0)) /\
  (herm_spec (Z.min rows cols) ncomp ncv = false -> rejected_invalid (svd_ctor rows cols ncomp ncv)).
Proof. exact svd_ctor_spec. Qed.
Print Assumptions C12_svd_accepts.

Theorem C12_sigma_zero : forall orc : oracle,
  shift_mode_check_shiftinvert orc = Ok tt /\
  (orc "sigma == Scalar(0)"%string [] = true -> rejected_invalid (shift_mode_check_buckling orc) /\ rejected_invalid (shift_mode_check_cayley orc)) /\
  (orc "sigma == Scalar(0)"%string [] = false -> shift_mode_check_buckling orc = Ok tt /\ shift_mode_check_cayley orc = Ok tt).
Proof. exact shift_mode_spec. Qed.
Print Assumptions C12_sigma_zero.

Theorem C12_zero_start_vector : forall (orc : oracle) k c,
  (orc "v0norm < m_near_0"%string [] = true -> rejected_invalid (arnoldi_init_check orc k c)) /\
  (orc "v0norm < m_near_0"%string [] = false -> arnoldi_init_check orc k c = Ok (1, c + 2)).
Proof. exact arnoldi_init_spec. Qed.
Print Assumptions C12_zero_start_vector.

Theorem C12_wrappers_square :
  square_test wrapper_ctor_DenseSymShiftSolve /\ square_test wrapper_ctor_SparseSymShiftSolve /\
  square_test wrapper_ctor_DenseGenRealShiftSolve /\ square_test wrapper_ctor_SparseGenRealShiftSolve /\
  square_test wrapper_ctor_DenseGenComplexShiftSolve /\ square_test wrapper_ctor_SparseGenComplexShiftSolve /\
  square_test wrapper_ctor_DenseCholesky /\ square_test wrapper_ctor_SparseCholesky /\
  square_test wrapper_ctor_SparseRegularInverse.
Proof. exact wrappers_square. Qed.
Print Assumptions C12_wrappers_square.

Theorem C12_wrapper_symshiftinvert : forall ar ac br bc,
  (ar = ac /\ ar = br /\ ar = bc -> wrapper_ctor_SymShiftInvert ar ac br bc = Ok tt) /\
  (~ (ar = ac /\ ar = br /\ ar = bc) -> rejected_invalid (wrapper_ctor_SymShiftInvert ar ac br bc)).
Proof. exact wrapper_symshiftinvert. Qed.
Print Assumptions C12_wrapper_symshiftinvert.

Theorem C12_throw_types : forallb site_ok throw_sites = true.
Proof. exact throw_sites_classified. Qed.
Print Assumptions C12_throw_types.

(* non-vacuity: accepted and rejected triples exist on both sides of every boundary *)
Example C12_nonvacuous :
  herm_spec 10 3 6 = true /\ herm_spec 10 10 11 = false /\ herm_spec 1 1 1 = false /\ herm_spec 10 9 10 = true /\
  gen_spec 10 8 10 = true /\ gen_spec 10 9 10 = false /\ gen_spec 10 3 4 = false /\
  is_ok (herm_ctor_lvalue 10 3 6) = true /\ is_ok (gen_ctor 10 3 4) = false /\
  jd_ctor 10 3 6 30 = Ok (3, 10, 6, 3) /\ jd_ctor 7 3 6 30 = Ok (3, 7, 2, 2).
Proof. vm_compute. repeat split; reflexivity. Qed.
