(* C13 - compute() terminates within its work bound and its index arithmetic stays in range.
   (partial: memory safety / UB / NaN of the compiled code are exercised by the sanitizer
   search, not by a theorem).  All functions are GENERATED (gen/GlueGen.v). *)
Require Import ZArith List.
From SV Require Import Cxx GlueGen GluePf.
Import ListNotations.
Local Open Scope Z_scope.

(* restart sizes: 1 <= k <= ncv - 1 for every pattern of zero estimates / conjugate pairs *)
Theorem C13_herm_restart_size : forall orc nev ncv nconv, 1 <= nev -> nev < ncv -> 0 <= nconv ->
  1 <= herm_nev_adjusted orc nev ncv nconv <= ncv - 1.
Proof. exact herm_restart_size. Qed.
Print Assumptions C13_herm_restart_size.

Theorem C13_gen_restart_size : forall orc nev ncv nconv, 1 <= nev -> nev + 2 <= ncv -> 0 <= nconv ->
  1 <= gen_nev_adjusted orc nev ncv nconv <= ncv - 1.
Proof. exact gen_restart_size. Qed.
Print Assumptions C13_gen_restart_size.

(* a breakdown costs exactly one extra application *)
Theorem C13_expand_basis_one_op : forall orc seed oc, expand_basis_count orc seed oc = oc + 1.
Proof. exact expand_basis_one_op. Qed.
Print Assumptions C13_expand_basis_one_op.

(* a restart applies the operator at most 2(ncv-1) times ... *)
Theorem C13_herm_restart_work : forall Wst W (ops : Wst -> Z) ncv, 1 <= ncv ->
  (forall a w w' r, W "m_fac.factorize_from"%string a w = Ok (w', r) -> ops w <= ops w' <= ops w + 2 * (ncv - 1)) ->
  (forall f a w w' r, f <> "m_fac.factorize_from"%string -> W f a w = Ok (w', r) -> ops w' = ops w) ->
  forall orc k sel w w', herm_restart Wst W orc ncv k sel w = Ok w' -> ops w <= ops w' <= ops w + 2 * (ncv - 1).
Proof. intros Wst W ops ncv H1 H2 H3. exact (herm_restart_ops Wst W ops ncv H1 H2 H3). Qed.
Print Assumptions C13_herm_restart_work.

(* ... and compute() at most 2(ncv-1)(maxit+1) times, for every oracle and world: with the 2
   applications of init() this is the bound 2 + 2*ncv*(maxit+1) of the property *)
Theorem C13_herm_work_bound : forall Wst W (ops : Wst -> Z) ncv, 1 <= ncv ->
  (forall a w w' r, W "m_fac.factorize_from"%string a w = Ok (w', r) -> ops w <= ops w' <= ops w + 2 * (ncv - 1)) ->
  (forall f a w w' r, f <> "m_fac.factorize_from"%string -> W f a w = Ok (w', r) -> ops w' = ops w) ->
  forall orc nev niter info0 selection maxit sorting w ret niter' info' w', 0 <= maxit ->
  herm_compute Wst (with_restart Wst W ncv orc (herm_restart Wst W)) orc nev ncv niter info0 selection maxit sorting w = Ok (ret, niter', info', w') ->
  ops w <= ops w' <= ops w + 2 * (ncv - 1) * (maxit + 1).
Proof. intros Wst W ops ncv H1 H2 H3 orc. exact (herm_compute_work Wst W ops ncv H1 H2 H3 orc). Qed.
Print Assumptions C13_herm_work_bound.

Theorem C13_gen_work_bound : forall Wst W (ops : Wst -> Z) ncv, 1 <= ncv ->
  (forall a w w' r, W "m_fac.factorize_from"%string a w = Ok (w', r) -> ops w <= ops w' <= ops w + 2 * (ncv - 1)) ->
  (forall f a w w' r, f <> "m_fac.factorize_from"%string -> W f a w = Ok (w', r) -> ops w' = ops w) ->
  forall orc nev niter info0 selection maxit sorting w ret niter' info' w', 0 <= maxit ->
  gen_compute Wst (with_restart Wst W ncv orc (gen_restart Wst W)) orc nev ncv niter info0 selection maxit sorting w = Ok (ret, niter', info', w') ->
  ops w <= ops w' <= ops w + 2 * (ncv - 1) * (maxit + 1).
Proof. intros Wst W ops ncv H1 H2 H3 orc. exact (gen_compute_work Wst W ops ncv H1 H2 H3 orc). Qed.
Print Assumptions C13_gen_work_bound.

(* the factorize_from contract used above, on the generated Arnoldi / Lanczos loops *)
Theorem C13_factorize_work : forall Wst W orc mk mm mn from_k to_m oc w mk' oc' w',
  arnoldi_factorize_from Wst W orc mk mm mn from_k to_m oc w = Ok (mk', oc', w') ->
  (to_m <= from_k -> mk' = mk /\ oc' = oc) /\
  (from_k < to_m -> mk' = to_m /\ from_k <= mk /\ to_m - from_k <= oc' - oc <= 2 * (to_m - from_k)).
Proof. exact arnoldi_factorize_count. Qed.
Print Assumptions C13_factorize_work.

Example C13_nonvacuous : herm_nev_adjusted (fun _ _ => false) 1 7 0 = 3 /\ gen_nev_adjusted (fun _ a => match a with [x] => Z.eqb x 3 | _ => false end) 3 8 0 = 4
  /\ herm_nev_adjusted (fun _ _ => true) 2 5 2 = 4.
Proof. vm_compute. repeat split. Qed.
