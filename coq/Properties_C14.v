(* C14 - a failing user operator is contained.  (partial: C++ unwinding and leaks are
   exercised under ASan/LSan by the fault-injection search.)  Generated drivers, arbitrary world. *)
Require Import ZArith List.
From SV Require Import Cxx GlueGen GluePf ArgsGen ArgsPf.
Import ListNotations.
Local Open Scope Z_scope.

(* whatever exception a kernel / the operator raises, exactly that exception leaves compute() and
   init(): the generated drivers have no handler, raise nothing of their own, and stop at the
   first failing call *)
Theorem C14_herm_compute_propagates : forall Wst W (e0 m0 : string),
  (forall f a w e m, W f a w = Throw e m -> e = e0 /\ m = m0) ->
  forall orc nev ncv ni inf sel maxit srt w e m,
  herm_compute Wst W orc nev ncv ni inf sel maxit srt w = Throw e m -> e = e0 /\ m = m0.
Proof. exact herm_compute_throw. Qed.
Print Assumptions C14_herm_compute_propagates.

Theorem C14_gen_compute_propagates : forall Wst W (e0 m0 : string),
  (forall f a w e m, W f a w = Throw e m -> e = e0 /\ m = m0) ->
  forall orc nev ncv ni inf sel maxit srt w e m,
  gen_compute Wst W orc nev ncv ni inf sel maxit srt w = Throw e m -> e = e0 /\ m = m0.
Proof. exact gen_compute_throw. Qed.
Print Assumptions C14_gen_compute_propagates.

Theorem C14_init_propagates : forall Wst W (e0 m0 : string),
  (forall f a w e m, W f a w = Throw e m -> e = e0 /\ m = m0) ->
  forall nev ncv n a b w e m,
  (herm_init Wst W nev ncv n a b w = Throw e m -> e = e0 /\ m = m0) /\
  (gen_init Wst W nev ncv n a b w = Throw e m -> e = e0 /\ m = m0).
Proof. intros Wst W e0 m0 H nev ncv n a b w e m. split; [apply (herm_init_throw Wst W e0 m0 H)|apply (gen_init_throw Wst W e0 m0 H)]. Qed.
Print Assumptions C14_init_propagates.

(* the library contains no try/catch at all (translated inventory) *)
Theorem C14_no_handlers : n_catch_or_try = 0.
Proof. exact no_catch_anywhere. Qed.
Print Assumptions C14_no_handlers.

(* recovery: init() overwrites the counters whatever state a fault left behind *)
Theorem C14_init_forgets_counters : forall Wst W nev ncv n a b a' b' w,
  herm_init Wst W nev ncv n a b w = herm_init Wst W nev ncv n a' b' w /\
  gen_init Wst W nev ncv n a b w = gen_init Wst W nev ncv n a' b' w.
Proof. intros. split; reflexivity. Qed.
Print Assumptions C14_init_forgets_counters.

Example C14_nonvacuous :
  herm_compute (list Z) (fun f _ w => if String.eqb f "retrieve_ritzpair" then Throw "OpFault" "k=3" else Ok (w, 0)) (fun _ _ => false) 2 5 0 1 0 10 3 [] = Throw "OpFault"%string "k=3"%string.
Proof. reflexivity. Qed.
