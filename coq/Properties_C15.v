(* C15 - Davidson solver: Successful means true residuals below tol, never NaN.
   Theorems on the driver JDSymEigsBase::compute_with_guess REGENERATED from the header in world mode
   (gen/JDGen.v; Eigen calls and the correction equation are abstract), for every world, oracle and start state,
   on the convergence flags / returned count (shape of RitzPairs::check_convergence and of the return expression
   checked textually by the generator), and exact-arithmetic identities of the Rayleigh-Ritz step (alg/Davidson.v).
   The numerical clauses (true residual < tol, finiteness) are evaluated on the implementation (lib/p_C15.py);
   two genuine defects are recorded as known findings F6, F7. *)
Require Import ZArith List.
From SV Require Import Cxx JDGen JDPf.
From mathcomp Require Import all_ssreflect all_algebra.
From SV Require Import Davidson.
Set Implicit Arguments. Unset Strict Implicit. Unset Printing Implicit Defensive.

Theorem C15_status_is_fresh_and_explained :
  forall (Wst : Type) (W : String.string -> list BinNums.Z -> Wst -> res (Wst * BinNums.Z)) (orc : String.string -> list BinNums.Z -> bool)
         (sel maxit nev mx ini niter0 info0 : BinNums.Z) (w : Wst) it inf w',
  BinInt.Z.lt 0 maxit ->
  jd_compute Wst W orc nev mx ini niter0 info0 sel maxit w = Ok (it, inf, w') ->
  (BinInt.Z.le 0 it /\ BinInt.Z.lt it maxit) /\
  ((inf = BinNums.Z0 /\ orc "m_ritz_pairs.check_convergence(tol, m_number_eigenvalues)"%string (it :: nil) = true) \/
   (inf = BinNums.Zpos 2 /\ orc "m_ritz_pairs.check_convergence(tol, m_number_eigenvalues)"%string (it :: nil) = false /\ it = BinInt.Z.sub maxit (BinNums.Zpos 1)) \/
   (inf = BinNums.Zpos 3 /\ orc "small_problem_info != Eigen::ComputationInfo::Success"%string (it :: nil) = true)).
Proof. move=> Wst W orc sel maxit nev mx ini niter0 info0 w it inf w'; exact: jd_compute_spec. Qed.
Print Assumptions C15_status_is_fresh_and_explained.

Theorem C15_maxit0 :
  forall (Wst : Type) (W : String.string -> list BinNums.Z -> Wst -> res (Wst * BinNums.Z)) (orc : String.string -> list BinNums.Z -> bool)
         (sel maxit nev mx ini niter0 info0 : BinNums.Z) (w : Wst) it inf w',
  BinInt.Z.le maxit 0 -> jd_compute Wst W orc nev mx ini niter0 info0 sel maxit w = Ok (it, inf, w') -> it = BinNums.Z0 /\ inf = info0.
Proof. move=> Wst W orc sel maxit nev mx ini niter0 info0 w it inf w'; exact: jd_compute_maxit0. Qed.
Print Assumptions C15_maxit0.

(* Successful => compute() returns nev; always 0 <= return <= nev *)
Theorem C15_success_returns_nev : forall (below : BinNums.Z -> bool) (n nev : nat), (nev <= n)%coq_nat ->
  jd_check_convergence below n nev = true -> jd_return (jd_flags below n) nev = BinInt.Z.of_nat nev.
Proof. exact: jd_success_returns_nev. Qed.
Print Assumptions C15_success_returns_nev.

Theorem C15_return_range : forall (flags : list bool) (nev : nat), BinInt.Z.le 0 (jd_return flags nev) /\ BinInt.Z.le (jd_return flags nev) (BinInt.Z.of_nat nev).
Proof. exact: jd_return_le_nev. Qed.
Print Assumptions C15_return_range.

(* exact arithmetic: with a consistent cache OP = A V the stored residues are the true residuals, a restart keeps the
   cache consistent, Ritz vectors of an orthonormal basis are orthonormal, residuals are orthogonal to the search space *)
Theorem C15_cached_residual_is_true_residual : forall (R : comRingType) (n m k : nat) (A : 'M[R]_n) (V : 'M[R]_(n, m)) (S : 'M[R]_(m, k)) (Th : 'M[R]_k),
  ((A *m V) *m S - (V *m S) *m Th = A *m (V *m S) - (V *m S) *m Th)%R /\ ((A *m V) *m S = A *m (V *m S))%R.
Proof. by move=> R n m k A V S Th; split; [exact: cached_residual | exact: restart_cache]. Qed.
Print Assumptions C15_cached_residual_is_true_residual.

Theorem C15_ritz_vectors_orthonormal : forall (R : comRingType) (n m k : nat) (V : 'M[R]_(n, m)) (S : 'M[R]_(m, k)),
  (V^T *m V = 1%:M -> S^T *m S = 1%:M -> (V *m S)^T *m (V *m S) = 1%:M)%R.
Proof. move=> R n m k V S; exact: ritz_orthonormal. Qed.
Print Assumptions C15_ritz_vectors_orthonormal.

Theorem C15_galerkin : forall (R : comRingType) (n m k : nat) (A : 'M[R]_n) (V : 'M[R]_(n, m)) (S : 'M[R]_(m, k)) (Th : 'M[R]_k),
  (V^T *m V = 1%:M -> (V^T *m (A *m V)) *m S = S *m Th -> V^T *m (A *m (V *m S) - (V *m S) *m Th) = 0)%R.
Proof. move=> R n m k A V S Th; exact: galerkin. Qed.
Print Assumptions C15_galerkin.

(* non-vacuity: flags all set *)
Example C15_nonvacuous : jd_check_convergence (fun _ => true) 5 3 = true /\ jd_return (jd_flags (fun _ => true) 5) 3 = BinNums.Zpos 3.
Proof. by vm_compute. Qed.
