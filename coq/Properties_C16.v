(* C16 - partial SVD returns the leading singular triplets with orthonormal factors.
   (1) facts regenerated from contrib/PartialSVDSolver.h (gen/SvdGen.v): tall/wide dispatch conditions of the
       constructor and of matrix_U/matrix_V, the column count min(k, nconv), and whether compute() empties
       the lazily filled eigenvector cache;
   (2) the cache as a state machine: with that reset every accessor, along every sequence of calls, hands back
       the vectors of the most recent compute() (and the refutation without it: the defect that was fixed);
   (3) exact arithmetic: singular triplets from eigenpairs of the Gram operator.
   Accuracy, ordering, non-negativity and finiteness are evaluated on the implementation (lib/p_C16.py). *)
Require Import ZArith List.
From SV Require Import Cxx SvdGen SvdPf.
From mathcomp Require Import all_ssreflect all_algebra.
From SV Require Import Davidson.
Set Implicit Arguments. Unset Strict Implicit. Unset Printing Implicit Defensive.

Theorem C16_compute_resets_cache : svd_compute_resets_cache = true.
Proof. reflexivity. Qed.
Print Assumptions C16_compute_resets_cache.

Theorem C16_accessors_describe_latest_compute : forall (ops : list svd_op) (s : svd_st), fresh_cache s ->
  List.Forall (fun p : nat * option nat => match snd p with Some g => g = fst p | None => True end) (snd (svd_run svd_compute_resets_cache s ops)).
Proof. rewrite C16_compute_resets_cache; exact: svd_accessors_current. Qed.
Print Assumptions C16_accessors_describe_latest_compute.

Theorem C16_stale_without_reset_refuted :
  snd (svd_run false {| gen := 0; cache := None |} (Compute :: GetU :: Compute :: GetU :: nil)) = ((1, None) :: (1, Some 1) :: (2, None) :: (2, Some 1) :: nil)%coq_nat.
Proof. exact: svd_stale_without_reset. Qed.
Print Assumptions C16_stale_without_reset_refuted.

Theorem C16_dispatch_consistent : forall m n : BinNums.Z,
  svd_V_is_evecs m n = svd_is_tall m n /\ svd_U_is_evecs m n = negb (svd_is_tall m n).
Proof. exact: svd_dispatch_consistent. Qed.
Print Assumptions C16_dispatch_consistent.

Theorem C16_column_count : forall k nconv : BinNums.Z, BinInt.Z.le 0 k -> BinInt.Z.le 0 nconv ->
  svd_ncols k nconv = BinInt.Z.min k nconv /\ (BinInt.Z.le 0 (svd_ncols k nconv) /\ BinInt.Z.le (svd_ncols k nconv) nconv).
Proof. move=> k nconv hk hn; exact: svd_ncols_spec. Qed.
Print Assumptions C16_column_count.

(* exact arithmetic, any field: an eigenpair (s^2, v) of A^T A with s != 0 gives the triplet (s, u = A v / s, v) *)
Theorem C16_triplet_from_gram : forall (F : fieldType) (p q : nat) (A : 'M[F]_(p, q)) (v : 'cV[F]_q) (s : F), (s != 0)%R ->
  (A^T *m (A *m v) = (s * s) *: v)%R ->
  let u := (s^-1 *: (A *m v))%R in
  [/\ (A *m v = s *: u)%R, (A^T *m u = s *: v)%R & (u^T *m u = v^T *m v)%R].
Proof. move=> F p q A v s; exact: svd_from_gram. Qed.
Print Assumptions C16_triplet_from_gram.

Theorem C16_left_vectors_orthonormal : forall (F : fieldType) (p q : nat) (A : 'M[F]_(p, q)) (vi vj : 'cV[F]_q) (si sj : F),
  (si != 0)%R -> (sj != 0)%R -> (A^T *m (A *m vj) = (sj * sj) *: vj)%R ->
  ((si^-1 *: (A *m vi))^T *m (sj^-1 *: (A *m vj)) = (sj / si) *: (vi^T *m vj))%R.
Proof. move=> F p q A vi vj si sj; exact: svd_left_inner. Qed.
Print Assumptions C16_left_vectors_orthonormal.

Example C16_nonvacuous : fresh_cache {| gen := 0; cache := None |} /\ svd_is_tall 5 3 = true /\ svd_is_tall 3 3 = false.
Proof. by split; [left|]. Qed.
