(* C17 - LOBPCG: on success, smallest eigenvalues with n-by-k B-orthonormal eigenvectors.
   (1) facts regenerated from contrib/LOBPCGSolver.h with their source shapes checked (gen/LobGen.v): eigenvectors()
       returns the N x M matrix X, the final block recomputes residuals = A X - B X diag(lambda) and assigns Success only
       under BlockSize == 0, the tolerance is tol * n, the initial status is not Success;
   (2) BlockSize == 0 <=> every residual column is below the tolerance;
   (3) exact arithmetic: the Rayleigh-Ritz update keeps X B-orthonormal and the residual orthogonal to the trial space.
   "The k smallest eigenvalues" and the numerical clauses are evaluated on the implementation (lib/p_C17.py). *)
Require Import ZArith List.
From SV Require Import Cxx LobGen LobPf.
From mathcomp Require Import all_ssreflect all_algebra.
From SV Require Import Davidson.
Set Implicit Arguments. Unset Strict Implicit. Unset Printing Implicit Defensive.

Theorem C17_eigenvectors_returns_X : lobpcg_eigenvectors_returns_X = true.
Proof. reflexivity. Qed.
Print Assumptions C17_eigenvectors_returns_X.

Theorem C17_status_sound : lobpcg_success_only_if_blocksize_zero = true /\ lobpcg_initial_status_not_success = true /\
  forall (below : BinNums.Z -> bool) (nev : nat),
    lobpcg_blocksize below nev = BinNums.Z0 <-> (forall j, (j < nev)%coq_nat -> below (BinInt.Z.of_nat j) = true).
Proof. by split; [|split] => // below nev; exact: blocksize_zero_iff. Qed.
Print Assumptions C17_status_sound.

Theorem C17_blocksize_range : forall (below : BinNums.Z -> bool) (nev : nat),
  BinInt.Z.le 0 (lobpcg_blocksize below nev) /\ BinInt.Z.le (lobpcg_blocksize below nev) (BinInt.Z.of_nat nev).
Proof. exact: blocksize_range. Qed.
Print Assumptions C17_blocksize_range.

Theorem C17_update_keeps_B_orthonormal : forall (R : comRingType) (n m k : nat) (B : 'M[R]_n) (S : 'M[R]_(n, m)) (C : 'M[R]_(m, k)),
  (C^T *m (S^T *m B *m S) *m C = 1%:M -> (S *m C)^T *m B *m (S *m C) = 1%:M)%R.
Proof. move=> R n m k B S C; exact: rr_B_orthonormal. Qed.
Print Assumptions C17_update_keeps_B_orthonormal.

Theorem C17_residual_orthogonal_to_trial_space : forall (R : comRingType) (n m k : nat) (A B : 'M[R]_n) (S : 'M[R]_(n, m)) (C : 'M[R]_(m, k)) (L : 'M[R]_k),
  ((S^T *m A *m S) *m C = (S^T *m B *m S) *m C *m L -> S^T *m (A *m (S *m C) - B *m (S *m C) *m L) = 0)%R.
Proof. move=> R n m k A B S C L; exact: rr_galerkin. Qed.
Print Assumptions C17_residual_orthogonal_to_trial_space.

Example C17_nonvacuous : lobpcg_blocksize (fun _ => true) 3 = BinNums.Z0 /\ lobpcg_blocksize (fun j => BinInt.Z.eqb j 1) 3 = BinNums.Zpos 2.
Proof. by vm_compute. Qed.
