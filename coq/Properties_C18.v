(* C18 - the eigenvalue ordering primitive is a correct permutation for every rule and tie.
   std::sort is modelled by its contract (`contract keys p`: p is a permutation of
   0..len-1 and no adjacent pair is strictly out of key order); every statement holds
   for EVERY p the contract allows, hence for every tie-breaking.  The BothEnds loop,
   the dispatch tables and the key table are GENERATED from SelectionRule.h /
   GenEigsBase.h / HermEigsBase.h (gen/SortGen.v). *)
Require Import ZArith List Sorting.Permutation.
From SV Require Import Cxx SortKey SortGen SortModel SortPf.
Import ListNotations.
Local Open Scope Z_scope.

Theorem C18_argsort_perm : forall keys : list Z, Z.of_nat (List.length keys) < 9223372036854775808 ->
  forall p, contract keys p -> forall sel, exists out,
    argsort_post no_orc sel (Z.of_nat (List.length keys)) p = Ok out /\ Permutation out (iota (List.length keys)).
Proof. exact argsort_perm. Qed.
Print Assumptions C18_argsort_perm.

Theorem C18_argsort_ordered : forall keys p, contract keys p -> forall sel, sel <> BothEnds ->
  argsort_post no_orc sel (Z.of_nat (List.length keys)) p = Ok p /\ adjacent_ok keys p.
Proof. exact argsort_ordered. Qed.
Print Assumptions C18_argsort_ordered.

Theorem C18_bothends_prefix : forall keys : list Z, Z.of_nat (List.length keys) < 9223372036854775808 ->
  forall p, contract keys p -> forall k, (k <= List.length keys)%nat -> exists out,
    argsort_post no_orc BothEnds (Z.of_nat (List.length keys)) p = Ok out /\
    Permutation (firstn k out) (firstn ((k + 1) / 2) p ++ skipn (List.length keys - k / 2) p).
Proof. exact bothends_prefix. Qed.
Print Assumptions C18_bothends_prefix.

(* ... and in a sorted p the leading entries have the smallest keys (= largest values for the
   key -x of BothEnds), the trailing ones the largest keys (= smallest values) *)
Theorem C18_sorted_extremes : forall keys p, adjacent_ok keys p -> forall i j, (i <= j)%nat -> (j < List.length p)%nat ->
  nth (Z.to_nat (nth i p 0)) keys 0 <= nth (Z.to_nat (nth j p 0)) keys 0.
Proof. exact adjacent_chain. Qed.
Print Assumptions C18_sorted_extremes.

Theorem C18_dispatch_exact_argsort : forall rule,
  dispatched argsort_dispatch false rule = documented_real rule /\
  (documented_real rule = KThrow <-> throws_invalid argsort_dispatch rule = true).
Proof. exact dispatch_exact_argsort. Qed.
Print Assumptions C18_dispatch_exact_argsort.

Theorem C18_dispatch_exact_gen_select : forall rule,
  dispatched gen_select_dispatch true rule = documented_complex rule /\
  (documented_complex rule = KThrow <-> throws_invalid gen_select_dispatch rule = true).
Proof. exact dispatch_exact_gen_select. Qed.
Print Assumptions C18_dispatch_exact_gen_select.

Theorem C18_dispatch_exact_gen_sort : forall rule,
  dispatched gen_sort_dispatch true rule = documented_complex rule /\
  (documented_complex rule = KThrow <-> throws_invalid gen_sort_dispatch rule = true).
Proof. exact dispatch_exact_gen_sort. Qed.
Print Assumptions C18_dispatch_exact_gen_sort.

Theorem C18_herm_sorting_rules : forall rule,
  (herm_sort_check rule = Ok tt <-> (rule = 0 \/ rule = 3 \/ rule = 4 \/ rule = 7)) /\
  (herm_sort_check rule <> Ok tt -> throws (herm_sort_check rule) "invalid_argument" = true).
Proof. exact herm_sort_check_exact. Qed.
Print Assumptions C18_herm_sorting_rules.

Theorem C18_key_direction_real : forall x y : Z,
  (key_lt (KNeg (KAbs KVal)) (ZR x) (ZR y) = true <-> Z.abs x > Z.abs y) /\
  (key_lt (KNeg KVal) (ZR x) (ZR y) = true <-> x > y) /\
  (key_lt (KAbs KVal) (ZR x) (ZR y) = true <-> Z.abs x < Z.abs y) /\
  (key_lt KVal (ZR x) (ZR y) = true <-> x < y).
Proof. exact key_direction_real. Qed.
Print Assumptions C18_key_direction_real.

Theorem C18_key_direction_complex : forall a b c d : Z,
  (key_lt (KNeg (KAbs KVal)) (ZC a b) (ZC c d) = true <-> a * a + b * b > c * c + d * d) /\
  (key_lt (KAbs KVal) (ZC a b) (ZC c d) = true <-> a * a + b * b < c * c + d * d) /\
  (key_lt (KNeg KRe) (ZC a b) (ZC c d) = true <-> a > c) /\
  (key_lt KRe (ZC a b) (ZC c d) = true <-> a < c) /\
  (key_lt (KNeg (KAbs KIm)) (ZC a b) (ZC c d) = true <-> Z.abs b > Z.abs d) /\
  (key_lt (KAbs KIm) (ZC a b) (ZC c d) = true <-> Z.abs b < Z.abs d).
Proof. exact key_direction_complex. Qed.
Print Assumptions C18_key_direction_complex.

(* the checker that is run on the outputs of the real code is written against the
   SPECIFICATION only (documented keys, interleave) and accepts only results it allows *)
Theorem C18_checker_sound : forall sel vals out,
  valid_argsort sel vals (Indices out) = true ->
  exists keys p, documented_real sel <> KThrow /\ keys_of (documented_real sel) vals = Some keys /\
    contract keys p /\ out = (if sel =? 8 then interleave p else p).
Proof. exact valid_argsort_sound. Qed.
Print Assumptions C18_checker_sound.

Theorem C18_checker_sound_complex : forall rule vals out,
  valid_gen_sort rule vals (Indices out) = true ->
  exists keys, documented_complex rule <> KThrow /\ keys_of (documented_complex rule) vals = Some keys /\ contract keys out.
Proof. exact valid_gen_sort_sound. Qed.
Print Assumptions C18_checker_sound_complex.

Theorem C18_checker_sound_throw : forall sel vals e,
  valid_argsort sel vals (Thrown e) = true -> documented_real sel = KThrow /\ e = "invalid_argument"%string.
Proof. exact valid_throw_sound. Qed.
Print Assumptions C18_checker_sound_throw.

(* the generated BothEnds loop IS the specified interleaving *)
Theorem C18_generated_loop_is_interleave : forall orc p, Z.of_nat (List.length p) < 9223372036854775808 ->
  argsort_post orc BothEnds (Z.of_nat (List.length p)) p = Ok (interleave p).
Proof. exact post_bothends. Qed.
Print Assumptions C18_generated_loop_is_interleave.

(* non-vacuity: a concrete vector with ties, a sign pair and a zero, and a result the contract allows *)
Example C18_nonvacuous :
  let vals := [ZR 3; ZR (-1); ZR 2; ZR 0; ZR (-2); ZR 2] in
  valid_argsort BothEnds vals (Indices [0; 4; 2; 1; 5; 3]) = true /\
  valid_argsort BothEnds vals (Indices [0; 4; 5; 1; 2; 3]) = true /\   (* the other tie order *)
  valid_argsort BothEnds vals (Indices [0; 1; 2; 4; 5; 3]) = false /\
  valid_argsort LargestMagn vals (Indices [0; 2; 4; 5; 1; 3]) = true /\
  valid_argsort LargestReal vals (Thrown "invalid_argument") = true /\
  contract [-3; 1; -2; 0; 2; -2] [0; 2; 5; 3; 1; 4].
Proof.
  intros vals. do 5 (split; [vm_compute; reflexivity|]).
  apply sort_contract_ok. vm_compute. reflexivity.
Qed.
