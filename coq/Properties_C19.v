(* C19 - the internal random generator is the exact, seed-pure Park-Miller sequence.
   Statements only; every proof is `exact <lemma>`.  All are about the terms
   GENERATED from /repo/include/Spectra/Util/SimpleRandom.h (gen/RngGen.v). *)
Require Import ZArith Reals List.
From SV Require Import Cxx Ops RngGen RngPf DrawRange.

(* 1+2: every state 1..2^31-2 advances as minstd and stays in 1..2^31-2 *)
Theorem C19_next_is_minstd : forall s : Z, (1 <= s <= 2147483646)%Z ->
  next_long_rand s = ((16807 * s) mod 2147483647)%Z /\ (1 <= next_long_rand s <= 2147483646)%Z.
Proof. exact next_spec. Qed.
Print Assumptions C19_next_is_minstd.

(* any number of draws: closed form and non-degeneracy *)
Theorem C19_iterate : forall (k : nat) (s : Z), in_range s ->
  in_range (iter_next k s) /\ iter_next k s = ((16807 ^ Z.of_nat k * s) mod 2147483647)%Z.
Proof. exact iterate_in_range. Qed.
Print Assumptions C19_iterate.

(* 3: every seed the library can generate is normalised into the non-degenerate range *)
Theorem C19_lib_seeds : forall i j : Z, (0 <= i < 1048576)%Z -> (0 <= j < expand_tries)%Z ->
  in_range (seed_norm (expand_seed (expand_call_seed_arnoldi i) j)) /\
  in_range (seed_norm (expand_seed (expand_call_seed_lanczos i) j)).
Proof. exact lib_seeds_ok. Qed.
Print Assumptions C19_lib_seeds.

Theorem C19_literal_seeds : Forall (fun p => in_range (seed_norm (snd p))) literal_seed_sites.
Proof. exact literal_seeds_ok. Qed.
Print Assumptions C19_literal_seeds.

Theorem C19_all_sites : n_rng_sites = (Z.of_nat (List.length literal_seed_sites) + 1)%Z.
Proof. exact all_sites_accounted. Qed.
Print Assumptions C19_all_sites.

(* 4: the computed draw is in [-1/2, 1/2] in every binary format with prec >= 2
      containing 1/2 and 1; complex draws are two consecutive real draws *)
Theorem C19_draw_range : forall prec emin : Z, (2 <= prec)%Z -> (emin <= - prec)%Z ->
  forall Hp : Flocq.Core.FLX.Prec_gt_0 prec, forall s : Z, in_range s ->
  (- / 2 <= fst (random_real (OpsFl prec emin) s) <= / 2)%R /\
  in_range (snd (random_real (OpsFl prec emin) s)).
Proof. exact draw_range. Qed.
Print Assumptions C19_draw_range.

Theorem C19_draw_range_complex : forall prec emin : Z, (2 <= prec)%Z -> (emin <= - prec)%Z ->
  forall Hp : Flocq.Core.FLX.Prec_gt_0 prec, forall s : Z, in_range s ->
  let '((re, im), s') := random_complex (OpsFl prec emin) s in
  (- / 2 <= re <= / 2)%R /\ (- / 2 <= im <= / 2)%R /\ in_range s'.
Proof. exact draw_range_complex. Qed.
Print Assumptions C19_draw_range_complex.

(* 5: purity - a draw is a function of the seed alone, for every scalar instance *)
Theorem C19_draw_pure : forall (o : Ops) (s : Z),
  random_real o s =
  (sub o (div o (of_Z o (next_long_rand s)) (of_Z o 2147483647))
         (of_lit o (Build_lit 1 2 0x1p-1%float)), next_long_rand s).
Proof. exact random_real_shape. Qed.
Print Assumptions C19_draw_pure.

(* non-vacuity: the hypotheses are met by the default seed and a library seed *)
Example C19_nonvacuous : in_range (seed_norm 0) /\ in_range (seed_norm (expand_seed (expand_call_seed_arnoldi 7) 3))
  /\ next_long_rand 1 = 16807%Z /\ iter_next 10000 1 = 1043618065%Z.
Proof. vm_compute. repeat split; discriminate. Qed.
