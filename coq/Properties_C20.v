(* C20 - solvers are re-entrant.  (partial: the data race itself, the memory model and the
   schedules are runtime behaviour, exercised by the ThreadSanitizer search; what is proved is
   the absence of hidden shared mutable state, on inventories GENERATED from /repo.) *)
Require Import ZArith List Bool.
From SV Require Import Cxx InvGen InvPf RngGen RngPf.
Import ListNotations.

Theorem C20_no_static_state : static_variables = [].
Proof. exact no_static_state. Qed.
Print Assumptions C20_no_static_state.

Theorem C20_mutable_members_private :
  forallb (fun p => mem (fst p) private_mutable_owners && negb (mem (fst p) shareable_wrappers)) mutable_members = true.
Proof. exact mutable_members_private. Qed.
Print Assumptions C20_mutable_members_private.

Theorem C20_shared_wrappers_immutable :
  forallb (fun r => match r with (_, _, is_const) => is_const end) product_wrapper_methods = true /\
  forallb (fun r => match r with (c, _, _, _, _, mut) => negb (mem c shareable_wrappers && mut) end) data_members = true.
Proof. exact shared_wrappers_immutable. Qed.
Print Assumptions C20_shared_wrappers_immutable.

(* the only source of pseudo-randomness is a local generator object with a literal / index-derived
   seed (C19): every construction site is accounted for, and the state is the single member m_rand *)
Theorem C20_rng_local : n_rng_sites = (Z.of_nat (List.length literal_seed_sites) + 1)%Z.
Proof. exact all_sites_accounted. Qed.
Print Assumptions C20_rng_local.

Example C20_nonvacuous : (List.length mutable_members = 11)%nat /\ (List.length product_wrapper_methods >= 12)%nat.
Proof. vm_compute. split; [reflexivity|]. repeat constructor. Qed.
