(* C15/C16/C17: exact-arithmetic identities behind the Rayleigh-Ritz steps of the Davidson, LOBPCG and
   partial-SVD solvers (any commutative ring / field). *)
From mathcomp Require Import all_ssreflect all_algebra.
From mathcomp Require Import ring.
Set Implicit Arguments. Unset Strict Implicit. Unset Printing Implicit Defensive.
Import GRing.Theory.
Local Open Scope ring_scope.

Section Dav.
Variable R : comRingType.
Variables (n m k : nat).

(* cached products: if OP = A V, the residue matrix OP S - (V S) Theta that the solver stores is the true residual
   A X - X Theta of the Ritz vectors X = V S *)
Lemma cached_residual (A : 'M[R]_n) (V : 'M[R]_(n, m)) (S : 'M[R]_(m, k)) (Th : 'M[R]_k) :
  (A *m V) *m S - (V *m S) *m Th = A *m (V *m S) - (V *m S) *m Th.
Proof. by rewrite mulmxA. Qed.

(* restart keeps the cache consistent: (A V) S' = A (V S') *)
Lemma restart_cache (A : 'M[R]_n) (V : 'M[R]_(n, m)) (S : 'M[R]_(m, k)) : (A *m V) *m S = A *m (V *m S).
Proof. by rewrite mulmxA. Qed.

(* Ritz vectors of an orthonormal basis with orthonormal small eigenvectors are orthonormal *)
Lemma ritz_orthonormal (V : 'M[R]_(n, m)) (S : 'M[R]_(m, k)) :
  V^T *m V = 1%:M -> S^T *m S = 1%:M -> (V *m S)^T *m (V *m S) = 1%:M.
Proof. by move=> hv hs; rewrite trmx_mul -mulmxA [V^T *m _]mulmxA hv mul1mx. Qed.

(* Galerkin condition: if S diagonalises the projected matrix V^T A V (= V^T OP), the residual is orthogonal to the search space *)
Lemma galerkin (A : 'M[R]_n) (V : 'M[R]_(n, m)) (S : 'M[R]_(m, k)) (Th : 'M[R]_k) :
  V^T *m V = 1%:M -> (V^T *m (A *m V)) *m S = S *m Th ->
  V^T *m (A *m (V *m S) - (V *m S) *m Th) = 0.
Proof.
move=> hv hs; rewrite mulmxBr !mulmxA -[V^T *m A *m V]mulmxA hs.
by rewrite -[V^T *m V *m S *m Th]mulmxA [V^T *m V *m _]mulmxA -mulmxA hv mul1mx subrr.
Qed.

(* LOBPCG Rayleigh-Ritz on the trial space S = [X R D]: coefficients C that are gramB-orthonormal give B-orthonormal X' = S C,
   the cached products stay consistent, and if C solves the projected pencil the new residual is orthogonal to the trial space *)
Lemma rr_B_orthonormal (B : 'M[R]_n) (S : 'M[R]_(n, m)) (C : 'M[R]_(m, k)) :
  C^T *m (S^T *m B *m S) *m C = 1%:M -> (S *m C)^T *m B *m (S *m C) = 1%:M.
Proof. by move=> h; rewrite trmx_mul -!mulmxA in h *; rewrite -h !mulmxA. Qed.

Lemma rr_galerkin (A B : 'M[R]_n) (S : 'M[R]_(n, m)) (C : 'M[R]_(m, k)) (L : 'M[R]_k) :
  (S^T *m A *m S) *m C = (S^T *m B *m S) *m C *m L ->
  S^T *m (A *m (S *m C) - B *m (S *m C) *m L) = 0.
Proof. by move=> h; rewrite mulmxBr !mulmxA h subrr. Qed.
End Dav.

(* partial SVD through the Gram operator: A^T A v = s^2 v, u = A v / s  ==>  A v = s u,  A^T u = s v,  |u|^2 = |v|^2 *)
Section SVD.
Variable F : fieldType.
Variables (p q : nat).
Lemma svd_from_gram (A : 'M[F]_(p, q)) (v : 'cV[F]_q) (s : F) : s != 0 ->
  A^T *m (A *m v) = (s * s) *: v ->
  let u := s^-1 *: (A *m v) in
  [/\ A *m v = s *: u, A^T *m u = s *: v & u^T *m u = v^T *m v].
Proof.
move=> sn h u; split.
- by rewrite /u scalerA divff // scale1r.
- by rewrite /u -scalemxAr h scalerA mulrA mulVf // mul1r.
- rewrite /u -scalemxAr [(_ *: _)^T]linearZ /= -scalemxAl scalerA trmx_mul -mulmxA h -scalemxAr scalerA.
  have -> : s^-1 * s^-1 * (s * s) = 1 by field.
  by rewrite scale1r.
Qed.

(* left vectors built from right ones inherit their inner products up to the ratio of the singular values:
   orthonormal V with A^T A v_j = s_j^2 v_j gives orthonormal U *)
Lemma svd_left_inner (A : 'M[F]_(p, q)) (vi vj : 'cV[F]_q) (si sj : F) : si != 0 -> sj != 0 ->
  A^T *m (A *m vj) = (sj * sj) *: vj ->
  (si^-1 *: (A *m vi))^T *m (sj^-1 *: (A *m vj)) = (sj / si) *: (vi^T *m vj).
Proof.
move=> sin sjn h.
rewrite -scalemxAr [(_ *: _)^T]linearZ /= -scalemxAl scalerA trmx_mul -mulmxA h -scalemxAr scalerA.
by congr (_ *: _); field; rewrite sin sjn.
Qed.
End SVD.
