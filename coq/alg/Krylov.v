(* Algebra behind the Krylov factorization invariant (C07) and the Ritz residual (C01-C03):
   pure mathematics over an arbitrary field, mathcomp matrices / column vectors. *)
From mathcomp Require Import all_ssreflect all_algebra.
Set Implicit Arguments. Unset Strict Implicit. Unset Printing Implicit Defensive.
Import GRing.Theory.
Local Open Scope ring_scope.

(* ------------------------------------------------------------------ Ritz residual identity *)
Section Ritz.
Variable F : fieldType.
Variables (n k : nat).
Variables (A : 'M[F]_n) (V : 'M[F]_(n, k)) (H : 'M[F]_k) (f : 'cV[F]_n) (ek : 'rV[F]_k).
Hypothesis rel : A *m V = V *m H + f *m ek.

(* H y = theta y  ->  A (V y) - theta (V y) = (e_k' y) f *)
Theorem ritz_residual (y : 'cV[F]_k) (theta : F) : H *m y = theta *: y ->
  A *m (V *m y) - theta *: (V *m y) = (ek *m y) 0 0 *: f.
Proof.
move=> hy; rewrite mulmxA rel mulmxDl -!mulmxA hy -scalemxAr addrC addKr.
by rewrite [X in f *m X]mx11_scalar mul_mx_scalar.
Qed.

(* generalized problem: the iterated operator is Op, the user's pencil is recovered by a linear map L with
   L (Op x - nu x) = c (A' x - lambda B' x): the residual is transported *)
Theorem ritz_residual_vec (y : 'cV[F]_k) (theta : F) : H *m y = theta *: y ->
  A *m (V *m y) = theta *: (V *m y) + (ek *m y) 0 0 *: f.
Proof. by move=> hy; rewrite -(ritz_residual hy) addrC subrK. Qed.
End Ritz.

(* ------------------------------------------------------------------ implicit restart (Sorensen) *)
Section Restart.
Variable F : fieldType.
Variables (n k p : nat).
Variables (A : 'M[F]_n) (V : 'M[F]_(n, k + p)) (H : 'M[F]_(k + p)) (f : 'cV[F]_n) (em : 'rV[F]_(k + p)).
Hypothesis rel : A *m V = V *m H + f *m em.
Variables (Q : 'M[F]_(k + p)).
Variables (H11 : 'M[F]_k) (H12 : 'M[F]_(k, p)) (H21 : 'M[F]_(p, k)) (H22 : 'M[F]_p).
(* Q'HQ = H+ written without an inverse: H Q = Q H+ *)
Hypothesis sim : H *m Q = Q *m block_mx H11 H12 H21 H22.
(* H+ is Hessenberg: its lower-left block has the single entry h = H+(k+1, k) *)
Variables (h q : F) (e1 : 'cV[F]_p) (ek : 'rV[F]_k).
Hypothesis Hess : H21 = h *: (e1 *m ek).
(* band structure of Q (a product of p shifted-QR factors): the last row of Q, restricted to the
   first k columns, is q e_k' with q = Q(m, k) *)
Variable qr : 'rV[F]_p.
Hypothesis band : em *m Q = row_mx (q *: ek) qr.

Let W := V *m Q.
Let W1 := lsubmx W.
Let W2 := rsubmx W.

(* the first k columns of VQ, the leading block of H+ and the residual
   f+ = H+(k+1,k) (VQ) e_{k+1} + Q(m,k) f  form a k-step factorization: exactly compress_V *)
Theorem restart_K : A *m W1 = W1 *m H11 + (h *: (W2 *m e1) + q *: f) *m ek.
Proof.
have full : A *m W = W *m block_mx H11 H12 H21 H22 + f *m (em *m Q).
  by rewrite /W mulmxA rel mulmxDl -!mulmxA sim.
have Wsplit : W = row_mx W1 W2 by rewrite hsubmxK.
move: full; rewrite band {1 2}Wsplit mul_mx_row mul_row_block mul_mx_row add_row_mx.
move/eq_row_mx => [-> _].
rewrite Hess -addrA; congr (_ + _).
by rewrite mulmxDl -!scalemxAl -!scalemxAr mulmxA.
Qed.

(* orthonormality is inherited when Q'Q = I, for any symmetric bilinear form B *)
Variable B : 'M[F]_n.
Hypothesis VBV : V^T *m B *m V = 1%:M.
Hypothesis QQ : Q^T *m Q = 1%:M.
Theorem restart_orth : W^T *m B *m W = 1%:M.
Proof.
have VBV' : V^T *m (B *m V) = 1%:M by rewrite mulmxA.
by rewrite /W trmx_mul -!mulmxA (mulmxA B) (mulmxA V^T) VBV' mul1mx.
Qed.
End Restart.

(* ------------------------------------------------------------------ one Arnoldi / Lanczos step *)
Section Step.
Variable F : fieldType.
Variable n : nat.
Notation vec := 'cV[F]_n.
(* an arbitrary symmetric bilinear form (x' B y; B = I for standard problems) *)
Variable ip : vec -> vec -> F.
Hypothesis ipDr : forall x y z, ip x (y + z) = ip x y + ip x z.
Hypothesis ipZr : forall c x y, ip x (c *: y) = c * ip x y.
Hypothesis ipC : forall x y, ip x y = ip y x.

Lemma ip0r x : ip x 0 = 0.
Proof. by have := ipZr 0 x 0; rewrite scale0r mul0r. Qed.
Lemma ipNr x y : ip x (- y) = - ip x y.
Proof. by rewrite -scaleN1r ipZr mulN1r. Qed.
Lemma ipBr x y z : ip x (y - z) = ip x y - ip x z.
Proof. by rewrite ipDr ipNr. Qed.
Lemma ipZl c x y : ip (c *: x) y = c * ip x y.
Proof. by rewrite ipC ipZr ipC. Qed.

Fixpoint lincomb (cs : seq F) (vs : seq vec) : vec :=
  match cs, vs with c :: cs', v :: vs' => c *: v + lincomb cs' vs' | _, _ => 0 end.

Definition orthonormal (vs : seq vec) := forall i j, (i < size vs)%N -> (j < size vs)%N ->
  ip (nth 0 vs i) (nth 0 vs j) = (i == j)%:R.
Definition orth_to (vs : seq vec) (f : vec) := forall i, (i < size vs)%N -> ip (nth 0 vs i) f = 0.

Lemma ip_lincomb u (cs : seq F) (vs : seq vec) : size cs = size vs ->
  ip u (lincomb cs vs) = \sum_(i < size vs) nth 0 cs i * ip u (nth 0 vs i).
Proof.
elim: cs vs => [|c cs IH] [|v vs] //=.
- by move=> _; rewrite big_ord0 ip0r.
- by case=> sz; rewrite ipDr ipZr IH // big_ord_recl.
Qed.

Variable A : vec -> vec.

(* v = f / beta, w = A v, h = V'^T B w, f' = w - V' h  (one pass; further passes below) *)
Definition arnoldi_step (vs : seq vec) (f : vec) (beta : F) : seq vec * seq F * vec :=
  let v := beta^-1 *: f in
  let vs' := rcons vs v in
  let w := A v in
  let h := [seq ip u w | u <- vs'] in
  (vs', h, w - lincomb h vs').

Theorem arnoldi_step_ok vs f beta : orthonormal vs -> orth_to vs f -> beta != 0 -> ip f f = beta * beta ->
  let '(vs', h, f') := arnoldi_step vs f beta in
  [/\ orthonormal vs', orth_to vs' f' & A (last 0 vs') = lincomb h vs' + f'].
Proof.
move=> onv ofv b0 ff /=.
set v := beta^-1 *: f. set vs' := rcons vs v. set w := A v.
have vv : ip v v = 1.
  by rewrite /v ipZl ipZr ff [beta^-1 * (beta * beta)]mulrA mulVf // mul1r mulVf.
have vsv i : (i < size vs)%N -> ip (nth 0 vs i) v = 0.
  by move=> hi; rewrite /v ipZr ofv // mulr0.
have on' : orthonormal vs'.
  move=> i j; rewrite /vs' size_rcons !ltnS !nth_rcons => hi hj.
  case: (ltnP i (size vs)) => hi'; case: (ltnP j (size vs)) => hj'.
  - exact: onv.
  - have -> : j = size vs by apply/eqP; rewrite eqn_leq hj hj'.
    by rewrite eqxx vsv // (ltn_eqF hi').
  - have -> : i = size vs by apply/eqP; rewrite eqn_leq hi hi'.
    by rewrite eqxx ipC vsv // eq_sym (ltn_eqF hj').
  - have -> : i = size vs by apply/eqP; rewrite eqn_leq hi hi'.
    have -> : j = size vs by apply/eqP; rewrite eqn_leq hj hj'.
    by rewrite !eqxx vv.
split=> //.
- move=> i hi. rewrite ipBr ip_lincomb ?size_map //.
  rewrite (bigD1 (Ordinal hi)) //= big1 ?addr0; last first.
    move=> j ne; rewrite on' // (nth_map 0) //; have -> : (i == j) = false by apply/negbTE; move: ne; rewrite eq_sym.
    by rewrite mulr0.
  by rewrite (nth_map 0) // on' // eqxx mulr1 subrr.
- by rewrite /vs' last_rcons addrC subrK.
Qed.

(* a re-orthogonalisation pass  f -= V c, h += c  (c = V^T B f) preserves the relation exactly *)
Lemma lincomb_add (c d : seq F) (vs : seq vec) : size c = size vs -> size d = size vs ->
  lincomb [seq p.1 + p.2 | p <- zip c d] vs = lincomb c vs + lincomb d vs.
Proof.
elim: vs c d => [|v vs IH] [|a c] [|b d] //=; first by rewrite addr0.
move=> [sc] [sd]; rewrite IH // scalerDl; rewrite !addrA; congr (_ + _).
by rewrite -!addrA; congr (_ + _); rewrite addrC.
Qed.

Theorem reorth_pass_ok vs (h c : seq F) (w f : vec) : size h = size vs -> size c = size vs ->
  w = lincomb h vs + f -> w = lincomb [seq p.1 + p.2 | p <- zip h c] vs + (f - lincomb c vs).
Proof. by move=> sh sc ->; rewrite lincomb_add // -addrA; congr (_ + _); rewrite addrCA subrr addr0. Qed.

(* Lanczos: for A self-adjoint in the form, the projection coefficients on all but the last two
   basis vectors vanish, so the three-term recurrence computes the same h as the full projection *)
Hypothesis Asym : forall x y, ip (A x) y = ip x (A y).
Theorem lanczos_coeff_zero (vs : seq vec) (Hc : nat -> nat -> F) i j :
  orthonormal vs -> (i < size vs)%N -> (j.+1 < i)%N ->
  (* column j of the Krylov relation: A v_j lies in span(v_0 .. v_{j+1}) *)
  A (nth 0 vs j) = \sum_(l < j.+2) Hc l j *: nth 0 vs l ->
  ip (nth 0 vs j) (A (nth 0 vs i)) = 0.
Proof.
move=> on hi hji rel; rewrite -Asym rel ipC.
have -> : ip (nth 0 vs i) (\sum_(l < j.+2) Hc l j *: nth 0 vs l) = \sum_(l < j.+2) Hc l j * ip (nth 0 vs i) (nth 0 vs l).
  elim/big_rec2: _ => [|l x y _ <-]; first exact: ip0r.
  by rewrite ipDr ipZr.
rewrite big1 // => l _; rewrite on //; last exact: leq_trans (ltn_ord l) (leq_trans hji (ltnW hi)).
have -> : (i == l) = false by apply/negbTE; rewrite neq_ltn; apply/orP; right; exact: leq_trans (ltn_ord l) hji.
by rewrite mulr0.
Qed.
End Step.
