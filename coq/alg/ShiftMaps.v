(* Spectral transformations of the shift modes (C01-C04): the GENERATED back-transformations
   (gen/MapsGen.v) invert the documented forward maps, the forward map orders eigenvalues as the
   documentation says, and the residual of the iterated operator is transported to the user's pencil. *)
From SV Require Import Cxx Ops MapsGen.
From mathcomp Require Import all_ssreflect all_algebra.
From mathcomp Require Import ring.
From SV Require Import OpsF.
Set Implicit Arguments. Unset Strict Implicit. Unset Printing Implicit Defensive.
Import Order.Theory GRing.Theory Num.Theory.
Local Open Scope ring_scope.

Section Scalar.
Variable F : rcfType.
Notation O := (OpsF F).

(* each back-transformation is the inverse of its forward map on the domain of the mode *)
Theorem back_shiftinvert_inverse (sigma lambda : F) : lambda != sigma ->
  back_symshift O sigma ((lambda - sigma)^-1) = lambda /\
  back_genrealshift O sigma ((lambda - sigma)^-1) = lambda /\
  back_geigs_shiftinvert O sigma ((lambda - sigma)^-1) = lambda.
Proof.
move=> ne; have d : lambda - sigma != 0 by rewrite subr_eq0.
by rewrite /back_symshift /back_genrealshift /back_geigs_shiftinvert /= div1r invrK subrK.
Qed.

Theorem back_buckling_inverse (sigma lambda : F) : lambda != sigma -> sigma != 0 ->
  back_geigs_buckling O sigma (lambda / (lambda - sigma)) = lambda.
Proof.
move=> ne s0; have d : lambda - sigma != 0 by rewrite subr_eq0.
rewrite /back_geigs_buckling /=.
have -> : lambda / (lambda - sigma) - 1 = sigma / (lambda - sigma) by field.
by field; rewrite d s0.
Qed.

Theorem back_cayley_inverse (sigma lambda : F) : lambda != sigma -> sigma != 0 ->
  back_geigs_cayley O sigma ((lambda + sigma) / (lambda - sigma)) = lambda.
Proof.
move=> ne s0; have d : lambda - sigma != 0 by rewrite subr_eq0.
rewrite /back_geigs_cayley /=.
have -> : (lambda + sigma) / (lambda - sigma) - 1 = (2%:R * sigma) / (lambda - sigma) by field.
have -> : (lambda + sigma) / (lambda - sigma) + 1 = (2%:R * lambda) / (lambda - sigma) by field.
have t0 : (2%:R : F) != 0 by rewrite pnatr_eq0.
by field; rewrite d s0.
Qed.

(* rule transport for nu = 1/(lambda - sigma): LargestMagn on nu means closest to sigma,
   and nu is strictly decreasing on each side of sigma *)
Theorem shiftinvert_magnitude (sigma l1 l2 : F) : l1 != sigma -> l2 != sigma ->
  (`|(l1 - sigma)^-1| > `|(l2 - sigma)^-1|) = (`|l1 - sigma| < `|l2 - sigma|).
Proof.
move=> n1 n2; rewrite !normfV ltf_pinv // ?posrE ?normr_gt0 ?subr_eq0 //.
Qed.

Theorem shiftinvert_monotone (sigma l1 l2 : F) : sigma < l1 -> sigma < l2 ->
  ((l1 - sigma)^-1 > (l2 - sigma)^-1) = (l1 < l2).
Proof.
by move=> h1 h2; rewrite ltf_pinv ?posrE ?subr_gt0 // ltr_add2r.
Qed.

(* the convergence test bounds exactly the quantity it is documented to bound *)
Theorem conv_test_sound (eps23 tol theta est fnorm : F) :
  conv_test O eps23 tol `|theta| `|est| fnorm = (`|est| * fnorm < tol * Num.max `|theta| eps23).
Proof. by rewrite /conv_test /= /Order.max. Qed.
End Scalar.

(* ------------------------------------------------------------------ residual transport (matrices over any field) *)
Section Transport.
Variable F : fieldType.
Variable n : nat.
Implicit Types (A B K KG L Op : 'M[F]_n) (x y u v : 'cV[F]_n).

(* coordinate-wise scalar identities (u = A x, v = B x) *)
Lemma lin_shiftinvert (sigma nu : F) u x : nu != 0 ->
  u - (sigma + nu^-1) *: x = - nu^-1 *: (x - nu *: (u - sigma *: x)).
Proof. by move=> n0; apply/colP=> i; rewrite !mxE; move: (u i 0) (x i 0) => a b; field. Qed.
Lemma lin_buckling (sigma nu : F) u v : nu != 1 ->
  u - (sigma * nu / (nu - 1)) *: v = (1 - nu)^-1 *: (u - nu *: (u - sigma *: v)).
Proof.
move=> n1; apply/colP=> i; rewrite !mxE; move: (u i 0) (v i 0) => a b; field.
by rewrite !subr_eq0 n1 eq_sym n1.
Qed.
Lemma lin_cayley (sigma nu : F) u v : nu != 1 ->
  u - (sigma * (nu + 1) / (nu - 1)) *: v = (1 - nu)^-1 *: (u + sigma *: v - nu *: (u - sigma *: v)).
Proof.
move=> n1; apply/colP=> i; rewrite !mxE; move: (u i 0) (v i 0) => a b; field.
by rewrite !subr_eq0 n1 eq_sym n1.
Qed.

(* standard shift-and-invert: (A - sigma I) Op = I, lambda = sigma + 1/nu *)
Theorem transport_shiftinvert A Op (sigma nu : F) x : (A - sigma%:M) *m Op = 1%:M -> nu != 0 ->
  A *m x - (sigma + nu^-1) *: x = - nu^-1 *: ((A - sigma%:M) *m (Op *m x - nu *: x)).
Proof.
move=> inv n0.
rewrite mulmxBr mulmxA inv mul1mx -scalemxAr mulmxBl mul_scalar_mx.
exact: lin_shiftinvert.
Qed.

(* generalized shift-and-invert: (A - sigma B) Op = B *)
Theorem transport_gshiftinvert A B Op (sigma nu : F) x : (A - sigma *: B) *m Op = B -> nu != 0 ->
  A *m x - (sigma + nu^-1) *: (B *m x) = - nu^-1 *: ((A - sigma *: B) *m (Op *m x - nu *: x)).
Proof.
move=> inv n0.
rewrite mulmxBr mulmxA inv -scalemxAr mulmxBl -scalemxAl.
move: (A *m x) (B *m x) => u v.
by apply/colP=> i; rewrite !mxE; move: (u i 0) (v i 0) => a b; field.
Qed.

(* buckling: (K - sigma KG) Op = K, lambda = sigma nu / (nu - 1) *)
Theorem transport_buckling K KG Op (sigma nu : F) x : (K - sigma *: KG) *m Op = K -> nu != 1 ->
  K *m x - (sigma * nu / (nu - 1)) *: (KG *m x) = (1 - nu)^-1 *: ((K - sigma *: KG) *m (Op *m x - nu *: x)).
Proof.
move=> inv n1.
rewrite mulmxBr mulmxA inv -scalemxAr mulmxBl -scalemxAl.
exact: lin_buckling.
Qed.

(* Cayley: (A - sigma B) Op = A + sigma B, lambda = sigma (nu + 1) / (nu - 1) *)
Theorem transport_cayley A B Op (sigma nu : F) x : (A - sigma *: B) *m Op = A + sigma *: B -> nu != 1 ->
  A *m x - (sigma * (nu + 1) / (nu - 1)) *: (B *m x) = (1 - nu)^-1 *: ((A - sigma *: B) *m (Op *m x - nu *: x)).
Proof.
move=> inv n1.
rewrite mulmxBr mulmxA inv -scalemxAr mulmxBl mulmxDl -!scalemxAl.
exact: lin_cayley.
Qed.

(* Cholesky mode: B = L L^T, Op = L^-1 A L^-T, x = L^-T y *)
Theorem transport_cholesky A L Li (lambda : F) y : Li *m L = 1%:M -> L *m Li = 1%:M ->
  let Op := Li *m A *m Li^T in let x := Li^T *m y in
  A *m x - lambda *: ((L *m L^T) *m x) = L *m (Op *m y - lambda *: y).
Proof.
move=> il li /=.
have lit : L^T *m Li^T = 1%:M by rewrite -trmx_mul il trmx1.
rewrite mulmxBr -scalemxAr !mulmxA li mul1mx.
congr (_ - _ *: _).
by rewrite -!mulmxA (mulmxA L^T) lit mul1mx.
Qed.
Theorem cholesky_orthonormal L Li (k : nat) (Y : 'M[F]_(n, k)) : Li *m L = 1%:M -> Y^T *m Y = 1%:M ->
  (Li^T *m Y)^T *m (L *m L^T) *m (Li^T *m Y) = 1%:M.
Proof.
move=> il yy.
have lit : L^T *m Li^T = 1%:M by rewrite -trmx_mul il trmx1.
rewrite trmx_mul trmxK -!mulmxA (mulmxA L^T) lit mul1mx (mulmxA Li) il mul1mx.
exact: yy.
Qed.

(* regular-inverse mode: Op = B^-1 A *)
Theorem transport_reginv A B Bi (lambda : F) x : B *m Bi = 1%:M ->
  A *m x - lambda *: (B *m x) = B *m ((Bi *m A) *m x - lambda *: x).
Proof. by move=> bi; rewrite mulmxBr -scalemxAr !mulmxA bi mul1mx. Qed.
End Transport.

(* ------------------------------------------------------------------ complex shift (any field) *)
Section ComplexShift.
Variable F : fieldType.
(* z = lambda - Re sigma, s = Im sigma; the iterated operator Re[(A - sigma I)^-1] has eigenvalue
   nu = (1/(z - i s) + 1/(z + i s))/2 = z / (z^2 + s^2); lambda is then one of the two roots the code forms:
   z = 1/(2 nu) +- sqrt(1 - 4 s^2 nu^2) / (2 nu),  i.e.  (z - 1/(2 nu))^2 = (1 - 4 s^2 nu^2) / (4 nu^2) *)
Theorem complex_shift_roots (z s : F) : z != 0 -> z ^+ 2 + s ^+ 2 != 0 -> (2%:R : F) != 0 ->
  let nu := z / (z ^+ 2 + s ^+ 2) in
  (z - (2%:R * nu)^-1) ^+ 2 = (1 - 4%:R * s ^+ 2 * nu ^+ 2) / (4%:R * nu ^+ 2).
Proof.
move=> z0 d0 t0 /=.
have f0 : (4%:R : F) != 0 by rewrite (_ : 4%:R = 2%:R * 2%:R) ?mulf_neq0 // -natrM.
by field; rewrite z0 d0 t0 f0.
Qed.
End ComplexShift.
