(* Composition of the generated argument checks into constructor-level models, and
   the documented acceptance ranges (specification side). Definitions only. *)
From SV Require Import Cxx ArgsGen.
Local Open Scope Z_scope.

(* JDSymEigsBase(op, nev, nvec_init, nvec_max): member initialisers, then
   check_argument(), then initialize()  (order checked by the translator) *)
Definition jd_ctor (n nev nvec_init nvec_max : Z) : res (Z * Z * Z * Z) :=
  let '(ne, mx, ini, cs) := jd_ctor_inits n nev nvec_init nvec_max in
  match jd_check_argument n ne with
  | Throw e m => Throw e m
  | Ok _ => let '(mx', ini', cs') := jd_initialize n mx ini cs in Ok (ne, mx', ini', cs')
  end.
Definition jd_ctor_default (n nev : Z) := let '(a, b) := jd_default_sizes nev in jd_ctor n nev a b.

(* PartialSVDSolver(mat, ncomp, ncv) = SymEigsSolver on an operator of size min(rows, cols),
   constructed through the lvalue constructor of HermEigsBase *)
Definition svd_ctor (rows cols ncomp ncv : Z) := herm_ctor_lvalue (svd_dim rows cols) ncomp ncv.

(* ---- documented ranges *)
Definition herm_spec (n nev ncv : Z) : bool := (1 <=? nev) && (nev <=? n - 1) && (nev <? ncv) && (ncv <=? n).
Definition gen_spec (n nev ncv : Z) : bool := (1 <=? nev) && (nev <=? n - 2) && (nev + 2 <=? ncv) && (ncv <=? n).
Definition jd_spec (n nev : Z) : bool := (1 <=? nev) && (nev <=? n - 1).
