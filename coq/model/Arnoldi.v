(* Arnoldi::{init, expand_basis, factorize_from, compress_V} and Lanczos::factorize_from for the
   standard inner product (IdentityBOp), statement by statement, with Eigen's scalar evaluation
   order.  The operator is a dense matrix given by its rows (y_i = sum_j A_ij x_j, left to right).
   The random restart vectors come from the GENERATED generator (gen/RngGen.v). Definitions only. *)
Require Import List ZArith.
From SV Require Import Cxx Ops LinAlg RngGen.
Import ListNotations.

Section Kry.
Variable o : Ops.
Variable near_0 eps : T o.
Variable lit_0717 : T o.                       (* RealScalar(0.717) *)
Variable Arows : list (list (T o)).            (* the operator, by rows *)
Notation "x + y" := (add o x y). Notation "x - y" := (sub o x y). Notation "x * y" := (mul o x y).
Notation "x / y" := (div o x y).
Notation vec := (vec o). Notation mat := (mat o).

Definition apply_op (x : vec) : vec := map (fun row => dot o row x) Arows.
Definition norm (x : vec) : T o := sqrt o (dot o x x).
Fixpoint maxabs_from (acc : T o) (x : vec) : T o :=
  match x with [] => acc | a :: r => maxabs_from (if ltb o acc (abs o a) then abs o a else acc) r end.
Definition maxabs (x : vec) : T o := match x with [] => zero o | a :: r => maxabs_from (abs o a) r end.
(* V' y for the first k columns *)
(* Eigen's gemv kernels accumulate from 0 (this matters for the sign of zero only) *)
Definition dot0 (x y : vec) : T o := dot_from o (zero o) x y.
Definition adjoint_product (V : mat) (k : nat) (y : vec) : vec := map (fun c => dot0 c y) (firstn k V).
(* sum_j c_j V_j, accumulated per row from the first term *)
Fixpoint lincomb_from (acc : vec) (V : mat) (c : vec) : vec :=
  match V, c with v :: V', a :: c' => lincomb_from (map (fun p => fst p + snd p * a) (combine acc v)) V' c' | _, _ => acc end.
Definition lincomb (n : nat) (V : mat) (c : vec) : vec := lincomb_from (repeat (zero o) n) V c.
Definition vsub2 (x y : vec) : vec := map (fun p => fst p - snd p) (combine x y).
Definition vdivs (x : vec) (s : T o) : vec := map (fun a => a / s) x.

Record fac := { fV : mat; fH : mat; ff : vec; fbeta : T o; fk : nat }.
Inductive outcome (A : Type) := Done (a : A) | Thrown (e : string).
Arguments Done {A} a. Arguments Thrown {A} e.

(* random_vec through the generated generator *)
Fixpoint random_vec (n : nat) (st : Z) : vec * Z :=
  match n with O => ([], st) | S n' => let '(x, st') := random_real o st in let '(r, st'') := random_vec n' st' in (x :: r, st'') end.

Definition init (n m : nat) (v0 : vec) : outcome (fac * nat) :=
  let v0norm := norm v0 in
  if ltb o v0norm near_0 then Thrown "invalid_argument" else
  let v := apply_op v0 in
  let vnorm := norm v in
  let v := vdivs v vnorm in
  let w := apply_op v in
  let h00 := dot o v w in
  let f := map (fun p => fst p - snd p * h00) (combine w v) in
  let '(f, beta) := if ltb o (maxabs f) (eps * abs o h00) then (repeat (zero o) n, zero o) else (f, norm f) in
  let V := v :: repeat (repeat (zero o) n) (m - 1) in
  let H := mset o (repeat (repeat (zero o) m) m) 0 0 h00 in
  Done ({| fV := V; fH := H; ff := f; fbeta := beta; fk := 1 |}, 2%nat).

(* the three-pass inner loop of expand_basis *)
Fixpoint eb_inner (fuel : nat) (V : mat) (k n : nat) (f : vec) (fnorm : T o) (Vf : vec) (err : T o) : vec * T o * vec * T o :=
  match fuel with
  | O => (f, fnorm, Vf, err)
  | S fu =>
    if leb o (eps * fnorm) err then
      let f := vsub2 f (lincomb n (firstn k V) Vf) in
      let fnorm := norm f in
      let Vf := adjoint_product V k f in
      eb_inner fu V k n f fnorm Vf (maxabs Vf)
    else (f, fnorm, Vf, err)
  end.
(* expand_basis(V(first k columns), seed, f, fnorm, op_counter): returns (f, fnorm, extra applications) *)
Fixpoint eb_tries (fuel : nat) (iter : Z) (V : mat) (k n : nat) (seed : Z) (f : vec) (fnorm : T o) (cnt : nat) : vec * T o * nat :=
  match fuel with
  | O => (f, fnorm, cnt)
  | S fu =>
    let st := seed_norm (expand_seed seed iter) in
    let '(f, cnt) := if Z.eqb iter 0 then let '(v, _) := random_vec n st in (apply_op v, S cnt)
                     else let '(r, _) := random_vec n st in (r, cnt) in
    let Vf := adjoint_product V k f in
    let f := vsub2 f (lincomb n (firstn k V) Vf) in
    let fnorm := norm f in
    let Vf := adjoint_product V k f in
    let '(f, fnorm, Vf, err) := eb_inner 3 V k n f fnorm Vf (maxabs Vf) in
    if ltb o err (eps * fnorm) then (f, fnorm, cnt) else eb_tries fu (iter + 1)%Z V k n seed f fnorm cnt
  end.
Definition expand_basis (V : mat) (k n : nat) (seed : Z) (f : vec) (fnorm : T o) (cnt : nat) : vec * T o * nat :=
  eb_tries (Z.to_nat expand_tries) 0%Z V k n seed f fnorm cnt.

Definition zero_from (m from_k : nat) (H : mat) : mat :=
  mapi (fun j col => if Nat.leb from_k j then repeat (zero o) m else mapi (fun i x => if Nat.leb from_k i then zero o else x) col) H.

(* Arnoldi re-orthogonalisation loop (up to 5 passes) on (f, h, beta) *)
Fixpoint arn_reorth (fuel : nat) (n : nat) (Vs : mat) (i1 : nat) (beta_thresh : T o) (f h : vec) (beta : T o) (Vf : vec) (err : T o) : vec * vec * T o :=
  match fuel with
  | O => (f, h, beta)
  | S fu =>
    if ltb o (eps * beta) err then
      if ltb o beta beta_thresh then (repeat (zero o) n, h, zero o) else
      let f := vsub2 f (lincomb n Vs Vf) in
      let h := map (fun p => fst p + snd p) (combine h Vf) in
      let beta := norm f in
      let Vf := adjoint_product Vs i1 f in
      arn_reorth fu n Vs i1 beta_thresh f h beta Vf (maxabs Vf)
    else (f, h, beta)
  end.

Definition set_col (M : mat) (j : nat) (c : vec) : mat := msetcol o M j c.
Definition pad (m : nat) (h : vec) : vec := h ++ repeat (zero o) (m - length h).

Definition arnoldi_step (n m : nat) (beta_thresh : T o) (i : nat) (st : fac * nat) : fac * nat :=
  let '(F, cnt) := st in
  let '(f, beta, cnt, restart) :=
    if ltb o (fbeta F) near_0 then
      let '(f, b, c) := expand_basis (fV F) i n (2 * Z.of_nat i)%Z (ff F) (fbeta F) cnt in (f, b, c, true)
    else (ff F, fbeta F, cnt, false) in
  let v := vdivs f beta in
  let V := set_col (fV F) i v in
  let H := mset o (fH F) i (i - 1) (if restart then zero o else beta) in
  let w := apply_op v in
  let cnt := S cnt in
  let i1 := S i in
  let Vs := firstn i1 V in
  let h := adjoint_product V i1 w in
  let f := vsub2 w (lincomb n Vs h) in
  let beta := norm f in
  let '(f, h, beta) :=
    if ltb o (lit_0717 * norm h) beta then (f, h, beta) else
    let Vf := adjoint_product V i1 f in
    arn_reorth 5 n Vs i1 beta_thresh f h beta Vf (maxabs Vf) in
  (* h is a map onto rows 0..i of column i of H; the rest of the column was zeroed *)
  let H := set_col H i (pad m h) in
  ({| fV := V; fH := H; ff := f; fbeta := beta; fk := fk F |}, cnt).

Definition arnoldi_factorize_from_k (n m : nat) (from_k to_m : nat) (st : fac * nat) : outcome (fac * nat) :=
  if Nat.leb to_m from_k then Done st else
  let '(F, cnt) := st in
  if Nat.ltb (fk F) from_k then Thrown "invalid_argument" else
  let beta_thresh := eps * sqrt o (of_Z o (Z.of_nat n)) in
  let F := {| fV := fV F; fH := zero_from m from_k (fH F); ff := ff F; fbeta := fbeta F; fk := fk F |} in
  let '(F, cnt) := fold_left (fun st i => arnoldi_step n m beta_thresh i st) (seq from_k (to_m - from_k)) (F, cnt) in
  Done ({| fV := fV F; fH := fH F; ff := ff F; fbeta := fbeta F; fk := to_m |}, cnt).

(* Lanczos re-orthogonalisation loop *)
Fixpoint lan_reorth (fuel : nat) (n : nat) (Vs : mat) (i : nat) (beta_thresh : T o) (f : vec) (H : mat) (beta : T o) (Vf : vec) (err : T o) : vec * mat * T o :=
  match fuel with
  | O => (f, H, beta)
  | S fu =>
    if ltb o (eps * beta) err then
      if ltb o beta beta_thresh then (repeat (zero o) n, H, zero o) else
      let f := vsub2 f (lincomb n Vs Vf) in
      let H := mset o H (i - 1) i (mget o H (i - 1) i + vnth o Vf (i - 1)) in
      let H := mset o H i (i - 1) (mget o H (i - 1) i) in
      let H := mset o H i i (mget o H i i + vnth o Vf i) in
      let beta := norm f in
      let Vf := adjoint_product Vs (S i) f in
      lan_reorth fu n Vs i beta_thresh f H beta Vf (maxabs Vf)
    else (f, H, beta)
  end.

Definition lanczos_step (n m : nat) (beta_thresh eps_sqrt : T o) (i : nat) (st : fac * nat) : fac * nat :=
  let '(F, cnt) := st in
  let restart0 := ltb o (fbeta F) near_0 in
  let '(V, restart) :=
    if negb restart0 then
      let v := vdivs (ff F) (fbeta F) in
      let V := set_col (fV F) i v in
      if ltb o (fbeta F) eps_sqrt then
        let Viv := dot o (mcol o V (i - 1)) v in
        (V, ltb o eps_sqrt (abs o Viv))
      else (V, false)
    else (fV F, true) in
  let '(V, f, beta, cnt) :=
    if restart then
      let '(f, b, c) := expand_basis V i n (2 * Z.of_nat i)%Z (ff F) (fbeta F) cnt in
      (set_col V i (vdivs f b), f, b, c)
    else (V, ff F, fbeta F, cnt) in
  let v := mcol o V i in
  let H := mset o (fH F) i (i - 1) (if restart then zero o else beta) in
  let H := mset o H (i - 1) i (mget o H i (i - 1)) in
  let w := apply_op v in
  let cnt := S cnt in
  let w := if restart then w else map (fun p => fst p - mget o H i (i - 1) * snd p) (combine w (mcol o V (i - 1))) in
  let H := mset o H i i (dot o v w) in
  let f := map (fun p => fst p - mget o H i i * snd p) (combine w v) in
  let beta := norm f in
  let Vs := firstn (S i) V in
  let Vf := adjoint_product V (S i) f in
  let '(f, H, beta) := lan_reorth 5 n Vs i beta_thresh f H beta Vf (maxabs Vf) in
  ({| fV := V; fH := H; ff := f; fbeta := beta; fk := fk F |}, cnt).

Definition lanczos_factorize_from_k (n m : nat) (from_k to_m : nat) (st : fac * nat) : outcome (fac * nat) :=
  if Nat.leb to_m from_k then Done st else
  let '(F, cnt) := st in
  if Nat.ltb (fk F) from_k then Thrown "invalid_argument" else
  let beta_thresh := eps * sqrt o (of_Z o (Z.of_nat n)) in
  let eps_sqrt := sqrt o eps in
  let F := {| fV := fV F; fH := zero_from m from_k (fH F); ff := ff F; fbeta := fbeta F; fk := fk F |} in
  let '(F, cnt) := fold_left (fun st i => lanczos_step n m beta_thresh eps_sqrt i st) (seq from_k (to_m - from_k)) (F, cnt) in
  Done ({| fV := fV F; fH := fH F; ff := ff F; fbeta := fbeta F; fk := to_m |}, cnt).

(* compress_V(Q) after the m_k bookkeeping of compress_H: k is the NEW dimension *)
Definition compress_V (n m k : nat) (Q : mat) (F : fac) : fac :=
  let Vs := map (fun i => lincomb n (firstn (m - k + i + 1) (fV F)) (firstn (m - k + i + 1) (mcol o Q i))) (seq 0 k)
            ++ [lincomb n (fV F) (mcol o Q k)] in
  let V := Vs ++ skipn (S k) (fV F) in
  let qq := mget o Q (m - 1) (k - 1) in
  let hh := mget o (fH F) k (k - 1) in
  let fk' := map (fun p => fst p * qq + snd p * hh) (combine (ff F) (mcol o V k)) in
  {| fV := V; fH := fH F; ff := fk'; fbeta := norm fk'; fk := k |}.
End Kry.
