(* BKLDLT<double>: copy_data, the Bunch-Kaufman pivot strategy (find_lambda, find_sigma,
   permutate_mat, pivoting_1x1/2x2, interchange_rows), gaussian_elimination_1x1/2x2, compute and
   solve_inplace, statement by statement on the packed lower triangle (column j holds rows j..n-1).
   Real scalars (conj = identity). Definitions only. *)
Require Import List ZArith.
From SV Require Import Ops LinAlg.
Import ListNotations.

Section BK.
Variable o : Ops.
Variable alpha : T o.        (* (1 + sqrt(17)) / 8 *)
Notation "x + y" := (add o x y). Notation "x - y" := (sub o x y). Notation "x * y" := (mul o x y).
Notation "x / y" := (div o x y). Notation "- x" := (neg o x).
Notation vec := (vec o).
Definition packed := list vec.

Definition pget (P : packed) (i j : nat) : T o := nth (i - j) (nth j P []) (zero o).
Definition pset (P : packed) (i j : nat) (x : T o) : packed :=
  mapi (fun jj c => if Nat.eqb jj j then vset o c (i - j) x else c) P.
Definition pswap (P : packed) (i1 j1 i2 j2 : nat) : packed :=
  let a := pget P i1 j1 in let b := pget P i2 j2 in pset (pset P i1 j1 b) i2 j2 a.

(* copy_data: src is the full matrix (list of columns); uplo_lower = true reads the lower triangle *)
Definition copy_data (n : nat) (src : list vec) (uplo_lower : bool) (shift : T o) : packed :=
  map (fun j => map (fun i => let x := if uplo_lower then nth i (nth j src []) (zero o) else nth j (nth i src []) (zero o) in
                              if Nat.eqb i j then x - shift else x) (seq j (n - j))) (seq 0 n).

(* find_lambda(k): largest |entry| strictly below the diagonal of column k, first maximal index *)
Definition find_lambda (n : nat) (P : packed) (k : nat) : T o * nat :=
  fold_left (fun (st : T o * nat) i => let '(lam, r) := st in
               let a := abs o (pget P i k) in if ltb o lam a then (a, i) else (lam, r))
            (seq (k + 2) (n - k - 2)) (abs o (pget P (k + 1) k), (k + 1)%nat).

Definition find_sigma (n : nat) (P : packed) (k r : nat) (p0 : nat) : T o * nat :=
  let '(sigma, p) := if Nat.ltb r (n - 1) then find_lambda n P r else (- one o, p0) in
  fold_left (fun (st : T o * nat) j => let '(sg, p) := st in
               let a := abs o (pget P r j) in if ltb o sg a then (a, j) else (sg, p))
            (seq k (r - k)) (sigma, p).

Record st := { P_ : packed; perm : list Z; info : nat }.   (* info: 0 Successful, 3 NumericalIssue *)

Definition set_perm (pm : list Z) (k : nat) (v : Z) : list Z := mapi (fun i x => if Nat.eqb i k then v else x) pm.

Definition pivoting_1x1 (n : nat) (P : packed) (pm : list Z) (k r : nat) : packed * list Z :=
  let pm := set_perm pm k (Z.of_nat r) in
  if Nat.eqb k r then (P, pm) else
  let P := pswap P k k r r in
  let P := fold_left (fun P i => pswap P i k i r) (seq (r + 1) (n - r - 1)) P in
  let P := fold_left (fun P j => pswap P j k r j) (seq (k + 1) (r - k - 1)) P in
  (P, pm).

Definition pivoting_2x2 (n : nat) (P : packed) (pm : list Z) (k r p : nat) : packed * list Z :=
  let '(P, pm) := pivoting_1x1 n P pm k p in
  let '(P, pm) := pivoting_1x1 n P pm (k + 1) r in
  let P := pswap P (k + 1) k r k in
  let pm := set_perm pm k (- nth k pm 0%Z - 1)%Z in
  let pm := set_perm pm (k + 1) (- nth (k + 1) pm 0%Z - 1)%Z in
  (P, pm).

Definition interchange_rows (P : packed) (r1 r2 c1 : nat) (c2p1 : nat) : packed :=
  if Nat.eqb r1 r2 then P else fold_left (fun P j => pswap P r1 j r2 j) (seq c1 (c2p1 - c1)) P.

(* the pivot decision, as a function of the four magnitudes: 0 = 1x1 without interchange,
   1 = 1x1 with interchange k <-> r, 2 = 2x2 *)
Definition bk_choice (abs_akk lambda sigma abs_arr : T o) : nat :=
  if ltb o abs_akk (alpha * lambda) then
    if ltb o (sigma * abs_akk) (alpha * lambda * lambda) then
      if leb o (alpha * sigma) abs_arr then 1%nat else 2%nat
    else 0%nat
  else 0%nat.

(* permutate_mat(k): returns (is_1x1, P, perm) *)
Definition permutate_mat (n : nat) (P : packed) (pm : list Z) (k : nat) : bool * packed * list Z :=
  let '(lambda, r) := find_lambda n P k in
  if ltb o (zero o) lambda then
    let abs_akk := abs o (pget P k k) in
    if ltb o abs_akk (alpha * lambda) then
      let '(sigma, p) := find_sigma n P k r k in
      if ltb o (sigma * abs_akk) (alpha * lambda * lambda) then
        if leb o (alpha * sigma) (abs o (pget P r r)) then
          let '(P, pm) := pivoting_1x1 n P pm k r in
          (true, interchange_rows P k r 0 k, pm)
        else
          let '(P, pm) := pivoting_2x2 n P pm k r k in
          let P := interchange_rows P k k 0 k in
          (false, interchange_rows P (k + 1) r 0 k, pm)
      else (true, P, pm)
    else (true, P, pm)
  else (true, P, pm).

Definition elim_1x1 (n : nat) (P : packed) (k : nat) : packed * nat :=
  let akk := pget P k k in
  if eqb o akk (zero o) then (P, 3%nat) else
  let ldim := (n - k - 1)%nat in
  let l := map (fun t => pget P (k + 1 + t) k) (seq 0 ldim) in
  let P := fold_left (fun P j =>
             let s := nth j l (zero o) / akk in
             fold_left (fun P t => let i := (j + k + 1 + t)%nat in pset P i (j + k + 1) (pget P i (j + k + 1) - s * nth (j + t) l (zero o)))
                       (seq 0 (ldim - j)) P) (seq 0 ldim) P in
  (fold_left (fun P t => pset P (k + 1 + t) k (nth t l (zero o) / akk)) (seq 0 ldim) P, 0%nat).

Definition elim_2x2 (n : nat) (P : packed) (k : nat) : packed * nat :=
  let e11 := pget P k k in let e21 := pget P (k + 1) k in let e22 := pget P (k + 1) (k + 1) in
  let e12 := e21 in
  if eqb o (e11 * e22 - e12 * e21) (zero o) then (P, 3%nat) else
  let ldim := (n - k - 2)%nat in
  let c1 := map (fun t => pget P (k + 2 + t) k) (seq 0 ldim) in
  let c2 := map (fun t => pget P (k + 2 + t) (k + 1)) (seq 0 ldim) in
  let '(X0, X1) :=
    if leb o (abs o e12) (abs o e11) then
      let fac := e12 / e11 in
      let den := e22 - fac * e21 in
      let X1 := map (fun pr => (snd pr - fac * fst pr) / den) (combine c1 c2) in
      let X0 := map (fun pr => (fst pr - e21 * snd pr) / e11) (combine c1 X1) in
      (X0, X1)
    else
      let fac := e11 / e12 in
      let den := e21 - fac * e22 in
      let X1 := map (fun pr => (fst pr - fac * snd pr) / den) (combine c1 c2) in
      let X0 := map (fun pr => (fst pr - e22 * snd pr) / e12) (combine c2 X1) in
      (X0, X1) in
  let P := fold_left (fun P j =>
             let l1j := nth j c1 (zero o) in let l2j := nth j c2 (zero o) in
             fold_left (fun P t => let i := (j + k + 2 + t)%nat in
                          pset P i (j + k + 2) (pget P i (j + k + 2) - (nth (j + t) X0 (zero o) * l1j + nth (j + t) X1 (zero o) * l2j)))
                       (seq 0 (ldim - j)) P) (seq 0 ldim) P in
  let P := fold_left (fun P t => pset (pset P (k + 2 + t) k (nth t X0 (zero o))) (k + 2 + t) (k + 1) (nth t X1 (zero o))) (seq 0 ldim) P in
  (P, 0%nat).

(* the main loop of compute(): fuel n; returns the final state and the loop index k at exit *)
Fixpoint bk_loop (fuel n k : nat) (P : packed) (pm : list Z) (inf : nat) : packed * list Z * nat * nat :=
  match fuel with
  | O => (P, pm, inf, k)
  | S fu =>
    if Nat.ltb k (n - 1) then
      let '(is1, P, pm) := permutate_mat n P pm k in
      if is1 then
        let '(P, inf) := elim_1x1 n P k in
        if Nat.eqb inf 0 then bk_loop fu n (k + 1) P pm inf else (P, pm, inf, k)
      else
        let '(P, inf) := elim_2x2 n P k in
        if Nat.eqb inf 0 then bk_loop fu n (k + 2) P pm inf else (P, pm, inf, (k + 1)%nat)
    else (P, pm, inf, k)
  end.

Definition bk_compute (n : nat) (src : list vec) (uplo_lower : bool) (shift : T o) : st :=
  let P := copy_data n src uplo_lower shift in
  let pm := map Z.of_nat (seq 0 n) in
  let '(P, pm, inf, k) := bk_loop n n 0 P pm 0%nat in
  let inf := if Nat.eqb k (n - 1) then (if eqb o (pget P k k) (zero o) then 3%nat else inf) else inf in
  {| P_ := P; perm := pm; info := inf |}.

Definition permc (pm : list Z) : list (nat * nat) :=
  concat (mapi (fun i v => let p := Z.to_nat (if Z.leb 0 v then v else (- v - 1)%Z) in if Nat.eqb p i then [] else [(i, p)]) pm).

Definition vswap (x : vec) (i j : nat) : vec := vset o (vset o x i (vnth o x j)) j (vnth o x i).

Definition solve_2x2 (e11 e21 e22 b1 b2 : T o) : T o * T o :=
  let e12 := e21 in
  if leb o (abs o e21) (abs o e11) then
    let fac := e21 / e11 in
    let x2 := (b2 - fac * b1) / (e22 - fac * e12) in
    let x1 := (b1 - e12 * x2) / e11 in (x1, x2)
  else
    let fac := e11 / e21 in
    let x2 := (b1 - fac * b2) / (e12 - fac * e22) in
    let x1 := (b2 - e22 * x2) / e21 in (x1, x2).

Fixpoint fwd (fuel n : nat) (P : packed) (pm : list Z) (endi : Z) (i : nat) (x : vec) : vec :=
  match fuel with
  | O => x
  | S fu =>
    if Z.leb (Z.of_nat i) endi then
      if Z.leb 0 (nth i pm 0%Z) then
        let xi := vnth o x i in
        fwd fu n P pm endi (i + 1) (fold_left (fun x t => vset o x (i + 1 + t) (vnth o x (i + 1 + t) - pget P (i + 1 + t) i * xi)) (seq 0 (n - i - 1)) x)
      else
        let xi := vnth o x i in let xi1 := vnth o x (i + 1) in
        fwd fu n P pm endi (i + 2) (fold_left (fun x t => vset o x (i + 2 + t) (vnth o x (i + 2 + t) - (pget P (i + 2 + t) i * xi + pget P (i + 2 + t) (i + 1) * xi1))) (seq 0 (n - i - 2)) x)
    else x
  end.

Fixpoint dsolve (fuel n : nat) (P : packed) (pm : list Z) (i : nat) (x : vec) : vec :=
  match fuel with
  | O => x
  | S fu =>
    if Nat.ltb i n then
      let e11 := pget P i i in
      if Z.leb 0 (nth i pm 0%Z) then dsolve fu n P pm (i + 1) (vset o x i (vnth o x i / e11))
      else
        let '(x1, x2) := solve_2x2 e11 (pget P (i + 1) i) (pget P (i + 1) (i + 1)) (vnth o x i) (vnth o x (i + 1)) in
        dsolve fu n P pm (i + 2) (vset o (vset o x i x1) (i + 1) x2)
    else x
  end.

Definition ldot (P : packed) (col i0 : nat) (ldim : nat) (x : vec) : T o :=
  dot o (map (fun t => pget P (i0 + t) col) (seq 0 ldim)) (map (fun t => vnth o x (i0 + t)) (seq 0 ldim)).

Fixpoint bwd (fuel n : nat) (P : packed) (pm : list Z) (i : Z) (x : vec) : vec :=
  match fuel with
  | O => x
  | S fu =>
    if Z.leb 0 i then
      let ii := Z.to_nat i in
      let ldim := (n - ii - 1)%nat in
      let x := vset o x ii (vnth o x ii - ldot P ii (ii + 1) ldim x) in
      if Z.ltb (nth ii pm 0%Z) 0 then
        let x := vset o x (ii - 1) (vnth o x (ii - 1) - ldot P (ii - 1) (ii + 1) ldim x) in
        bwd fu n P pm (i - 2)%Z x
      else bwd fu n P pm (i - 1)%Z x
    else x
  end.

Definition bk_solve (n : nat) (s : st) (b : vec) : vec :=
  let pc := permc (perm s) in
  let x := fold_left (fun x pr => vswap x (fst pr) (snd pr)) pc b in
  let endi := if Z.ltb (nth (n - 1) (perm s) 0%Z) 0 then (Z.of_nat n - 3)%Z else (Z.of_nat n - 2)%Z in
  let x := fwd n n (P_ s) (perm s) endi 0 x in
  let x := dsolve n n (P_ s) (perm s) 0 x in
  let x := bwd n n (P_ s) (perm s) endi x in
  fold_left (fun x pr => vswap x (fst pr) (snd pr)) (rev pc) x.
End BK.
