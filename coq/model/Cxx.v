(* Prelude shared by every generated (translated) file: result type of functions
   that may throw, functional vector update, the oracle type. Definitions only. *)
Require Export ZArith List Bool.
Require Export Coq.Strings.String.
Export ListNotations.
(* String is exported for the `string` type and %string literals; its `length` is shadowed back: *)
Notation length := List.length (only parsing).

Inductive res (A : Type) : Type :=
| Ok (a : A)
| Throw (exn msg : string).
Arguments Ok {A} a.
Arguments Throw {A} exn msg.

Definition oracle := string -> list Z -> bool.

Fixpoint upd {A} (l : list A) (i : nat) (x : A) : list A :=
  match l, i with
  | [], _ => []
  | _ :: r, O => x :: r
  | a :: r, S i' => a :: upd r i' x
  end.

Definition is_ok {A} (r : res A) : bool := match r with Ok _ => true | Throw _ _ => false end.
Definition throws {A} (r : res A) (e : string) : bool :=
  match r with Ok _ => false | Throw e' _ => String.eqb e e' end.
