(* DoubleShiftQR: stable_norm3, stable_scaling, compute_reflector, update_block, compute,
   apply_PX/apply_XP, matrix_QtHQ, apply_QtY, apply_YQ - statement by statement.
   Matrices are lists of columns. Definitions only. *)
Require Import List ZArith.
From SV Require Import Ops LinAlg.
Import ListNotations.

Section DS.
Variable o : Ops.
Variable cutoff near_0 eps : T o.
Notation "x + y" := (add o x y). Notation "x - y" := (sub o x y). Notation "x * y" := (mul o x y).
Notation "x / y" := (div o x y). Notation "- x" := (neg o x).
Notation vec := (vec o). Notation mat := (mat o).
Definition l_half : lit := Build_lit 1 2 0x1p-1%float.
Definition l_eighth : lit := Build_lit 1 8 0x1p-3%float.
Definition l_38 : lit := Build_lit 3 8 0x1.8p-2%float.
Definition two := of_Z o 2.

Definition stable_norm3 (x1 x2 x3 : T o) : T o :=
  let x1 := abs o x1 in let x2 := abs o x2 in let x3 := abs o x3 in
  let '(x1, x2) := if ltb o x1 x2 then (x2, x1) else (x1, x2) in
  let '(x1, x3) := if ltb o x1 x3 then (x3, x1) else (x1, x3) in
  if ltb o x1 near_0 then zero o else
  let r2 := x2 / x1 in let r3 := x3 / x1 in
  let r := r2 * r2 + r3 * r3 in
  let r := if (leb o cutoff r2 || leb o cutoff r3)%bool then sqrt o (one o + r)
           else one o + r * (of_lit o l_half - of_lit o l_eighth * r) in
  x1 * r.

(* (x1, x2, x3) updated in place *)
Definition ds_scaling (x1 x2 x3 : T o) : T o * T o * T o :=
  let x1sign := if ltb o (zero o) x1 then one o else - one o in
  let x1 := abs o x1 in
  let r2 := x2 / x1 in let r3 := x3 / x1 in
  let r := r2 * r2 + r3 * r3 in
  let r := if (leb o cutoff (abs o r2) || leb o cutoff (abs o r3))%bool then one o / sqrt o (one o + r)
           else one o - r * (of_lit o l_half - of_lit o l_38 * r) in
  (x1sign * r, r2 * r, r3 * r).

(* Eigen::numext::hypot on finite arguments *)
Definition hypot (x y : T o) : T o :=
  let x := abs o x in let y := abs o y in
  let p := if ltb o x y then y else x in
  if eqb o p (zero o) then zero o else
  let qp := (if ltb o x y then x else y) / p in
  p * sqrt o (one o + qp * qp).

(* reflector ind: (nr, u0, u1, u2); nr = 1 means identity *)
Definition compute_reflector (x1 x2 x3 : T o) : nat * (T o * T o * T o) :=
  let x2m := abs o x2 in let x3m := abs o x3 in
  if (ltb o x2m near_0 && ltb o x3m near_0)%bool then (1%nat, (zero o, zero o, zero o)) else
  let nr := if ltb o x3m near_0 then 2%nat else 3%nat in
  let x_norm := if ltb o x3m near_0 then hypot x1 x2 else stable_norm3 x1 x2 x3 in
  let rho := if leb o x1 (zero o) then one o else - one o in        (* (x1 <= 0) - (x1 > 0) *)
  let x1_new := x1 - rho * x_norm in
  let x1m := abs o x1_new in
  if (leb o x2m x1m && leb o x3m x1m)%bool then
    let '(a, b, c) := ds_scaling x1_new x2 x3 in (nr, (a, b, c))
  else if (leb o x1m x2m && leb o x3m x2m)%bool then
    let '(b, a, c) := ds_scaling x2 x1_new x3 in (nr, (a, b, c))
  else
    let '(c, a, b) := ds_scaling x3 x1_new x2 in (nr, (a, b, c)).

Definition refl := (nat * (T o * T o * T o))%type.
Definition refl_id : refl := (1%nat, (zero o, zero o, zero o)).

(* one application of the reflector P = I - 2 u u' to a pair / triple of entries (the inner statements of apply_PX / apply_XP) *)
Definition hh2 (u0 u1 x0 x1 : T o) : T o * T o :=
  let u0_2 := two * u0 in let u1_2 := two * u1 in
  let tmp := u0_2 * x0 + u1_2 * x1 in (x0 - tmp * u0, x1 - tmp * u1).
Definition hh3 (u0 u1 u2 x0 x1 x2 : T o) : T o * T o * T o :=
  let u0_2 := two * u0 in let u1_2 := two * u1 in let u2_2 := two * u2 in
  let tmp := u0_2 * x0 + u1_2 * x1 + u2_2 * x2 in (x0 - tmp * u0, x1 - tmp * u1, x2 - tmp * u2).

(* apply_PX on the block rows r0.. (nrow rows), columns c0 .. c0+ncol-1 *)
Definition apply_PX_block (rf : refl) (r0 c0 nrow ncol : nat) (H : mat) : mat :=
  let '(nr, (u0, u1, u2)) := rf in
  if Nat.eqb nr 1 then H else
  if (Nat.eqb nr 2 || Nat.eqb nrow 2)%bool then
    fold_left (fun H j =>
      let '(y0, y1) := hh2 u0 u1 (mget o H r0 j) (mget o H (S r0) j) in
      mset o (mset o H r0 j y0) (S r0) j y1) (seq c0 ncol) H
  else
    fold_left (fun H j =>
      let '(y0, y1, y2) := hh3 u0 u1 u2 (mget o H r0 j) (mget o H (S r0) j) (mget o H (S (S r0)) j) in
      mset o (mset o (mset o H r0 j y0) (S r0) j y1) (S (S r0)) j y2) (seq c0 ncol) H.

(* apply_XP on the block rows 0 .. nrow-1, columns c0, c0+1 (, c0+2) *)
Definition apply_XP_block (rf : refl) (c0 nrow ncol : nat) (H : mat) : mat :=
  let '(nr, (u0, u1, u2)) := rf in
  if Nat.eqb nr 1 then H else
  if (Nat.eqb nr 2 || Nat.eqb ncol 2)%bool then
    fold_left (fun H i =>
      let '(y0, y1) := hh2 u0 u1 (mget o H i c0) (mget o H i (S c0)) in
      mset o (mset o H i c0 y0) i (S c0) y1) (seq 0 nrow) H
  else
    fold_left (fun H i =>
      let '(y0, y1, y2) := hh3 u0 u1 u2 (mget o H i c0) (mget o H i (S c0)) (mget o H i (S (S c0))) in
      mset o (mset o (mset o H i c0 y0) i (S c0) y1) i (S (S c0)) y2) (seq 0 nrow) H.

Fixpoint set_refl (rs : list refl) (i : nat) (r : refl) : list refl :=
  match rs, i with [], _ => [] | _ :: t, O => r :: t | a :: t, S i' => a :: set_refl t i' r end.

(* update_block(il, iu): state (H, reflectors) *)
Definition ds_update_block (n : nat) (shift_s shift_t : T o) (il iu : nat) (st : mat * list refl) : mat * list refl :=
  let '(H, rs) := st in
  let bsize := (iu - il + 1)%nat in
  if Nat.eqb bsize 1 then (H, set_refl rs il refl_id) else
  let x00 := mget o H il il in let x01 := mget o H il (S il) in
  let x10 := mget o H (S il) il in let x11 := mget o H (S il) (S il) in
  let m00 := x00 * (x00 - shift_s) + x01 * x10 + shift_t in
  let m10 := x10 * (x00 + x11 - shift_s) in
  if Nat.eqb bsize 2 then
    let rf := compute_reflector m00 m10 (zero o) in
    let rs := set_refl rs il rf in
    let H := apply_PX_block rf il il 2 (n - il) H in
    let H := apply_XP_block rf il (il + 2) 2 H in
    (H, set_refl rs (S il) refl_id)
  else
  let m20 := mget o H (il + 2) (S il) * mget o H (S il) il in
  let rf := compute_reflector m00 m10 m20 in
  let rs := set_refl rs il rf in
  let H := apply_PX_block rf il il 3 (n - il) H in
  let H := apply_XP_block rf il (il + Nat.min bsize 4) 3 H in
  let '(H, rs) := fold_left (fun (st : mat * list refl) i =>
      let '(H, rs) := st in
      let rf := compute_reflector (mget o H (il + i) (il + i - 1)) (mget o H (il + i + 1) (il + i - 1)) (mget o H (il + i + 2) (il + i - 1)) in
      let rs := set_refl rs (il + i) rf in
      let H := apply_PX_block rf (il + i) (il + i - 1) 3 (n - il - i + 1) H in
      let H := apply_XP_block rf (il + i) (il + Nat.min bsize (i + 4)) 3 H in
      (H, rs)) (seq 1 (bsize - 3)) (H, rs) in
  let rf := compute_reflector (mget o H (iu - 1) (iu - 2)) (mget o H iu (iu - 2)) (zero o) in
  let rs := set_refl rs (iu - 1) rf in
  let H := apply_PX_block rf (iu - 1) (iu - 2) 2 (n - iu + 2) H in
  let H := apply_XP_block rf (iu - 1) (il + bsize) 2 H in
  (H, set_refl rs iu refl_id).

(* first pass of compute(): zero negligible sub-diagonals, record block starts, zero below the sub-diagonal *)
Definition negligible (n : nat) (H : mat) (i : nat) : bool :=
  let eps_abs := near_0 * (of_Z o (Z.of_nat n) / eps) in
  let h := abs o (mget o H (S i) i) in
  let diag := abs o (mget o H i i) + abs o (mget o H (S i) (S i)) in
  (leb o h eps_abs || leb o h (eps * diag))%bool.

Definition zero_below (n i : nat) (col : vec) : vec := mapi (fun k x => if Nat.ltb (S i) k then zero o else x) col.

Definition ds_pass1 (n : nat) (H : mat) : mat * list nat :=
  fold_left (fun (st : mat * list nat) i =>
    let '(H, zi) := st in
    let '(H, zi) := if negligible n H i then (mset o H (S i) i (zero o), zi ++ [S i]) else (H, zi) in
    (msetcol o H i (zero_below n i (mcol o H i)), zi)) (seq 0 (n - 1)) (H, [0%nat]).

Fixpoint blocks (zi : list nat) : list (nat * nat) :=
  match zi with a :: ((b :: _) as r) => (a, (b - 1)%nat) :: blocks r | _ => [] end.

Definition ds_compute (n : nat) (H : mat) (s t : T o) : mat * list refl :=
  let '(H, zi) := ds_pass1 n H in
  let zi := zi ++ [n] in
  let '(H, rs) := fold_left (fun st b => ds_update_block n s t (fst b) (snd b) st) (blocks zi) (H, repeat refl_id n) in
  let H := fold_left (fun H i => if negligible n H i then mset o H (S i) i (zero o) else H) (seq 0 (n - 1)) H in
  (H, rs).

(* apply_PX(Scalar* x, u_ind) on y[i..] *)
Definition apply_PX_vec (rf : refl) (i : nat) (y : vec) : vec :=
  let '(nr, (u0, u1, u2)) := rf in
  if Nat.eqb nr 1 then y else
  let x0 := vnth o y i in let x1 := vnth o y (S i) in
  let nr2 := Nat.eqb nr 2 in
  let dot2 := two * (x0 * u0 + x1 * u1 + (if nr2 then zero o else vnth o y (S (S i)) * u2)) in
  let y := vset o (vset o y i (x0 - dot2 * u0)) (S i) (x1 - dot2 * u1) in
  if nr2 then y else vset o y (S (S i)) (vnth o y (S (S i)) - dot2 * u2).

Definition ds_apply_QtY (n : nat) (rs : list refl) (y : vec) : vec :=
  fold_left (fun y i => apply_PX_vec (nth i rs refl_id) i y) (seq 0 (n - 1)) y.

Definition ds_apply_YQ (n nrow : nat) (rs : list refl) (Y : mat) : mat :=
  let Y := fold_left (fun Y i => apply_XP_block (nth i rs refl_id) i nrow 3 Y) (seq 0 (n - 2)) Y in
  apply_XP_block (nth (n - 2) rs refl_id) (n - 2) nrow 2 Y.
End DS.
