(* UpperHessenbergQR::stable_scaling / compute_rotation, statement by statement. Definitions only. *)
Require Import List ZArith Floats.
From SV Require Import Ops.
Import ListNotations.

Section Rot.
Variable o : Ops.
Variable cutoff : T o.     (* Scalar(0.1) * pow(eps, Scalar(0.25)) - supplied/validated from the code's value *)
Notation "x + y" := (add o x y). Notation "x - y" := (sub o x y). Notation "x * y" := (mul o x y).
Notation "x / y" := (div o x y). Notation "- x" := (neg o x).
Definition lit_half : lit := Build_lit 1 2 0x1p-1%float.
Definition lit_quarter : lit := Build_lit 1 4 0x1p-2%float.
Definition lit_eighth : lit := Build_lit 1 8 0x1p-3%float.
Definition lit_38 : lit := Build_lit 3 8 0x1.8p-2%float.
Definition c2 := of_lit o lit_half.
Definition c4 := of_lit o lit_quarter.
Definition c8 := of_lit o lit_eighth.
Definition c38 := of_lit o lit_38.

(* returns (r, c, s) *)
Definition stable_scaling (a b : T o) : T o * T o * T o :=
  let t := b / a in
  if leb o cutoff t then
    let denom := sqrt o (one o + t * t) in
    let c := one o / denom in
    let s := t * c in
    (a * denom, c, s)
  else
    let t2 := t * t in
    let tc := t2 * (c2 - c38 * t2) in
    let c := one o - tc in
    let s := t - t * tc in
    (a + c2 * b * t * (one o - t2 * (c4 - c8 * t2)), c, s).

Definition compute_rotation (x y : T o) : T o * T o * T o :=
  let xsign := if ltb o (zero o) x then one o else - one o in
  let xabs := abs o x in
  if eqb o y (zero o) then (xabs, (if eqb o x (zero o) then one o else xsign), zero o) else
  let ysign := if ltb o (zero o) y then one o else - one o in
  let yabs := abs o y in
  if eqb o x (zero o) then (yabs, zero o, - ysign) else
  if ltb o yabs xabs then
    let '(r, c, s) := stable_scaling xabs yabs in (r, xsign * c, (- ysign) * s)
  else
    let '(r, s, c) := stable_scaling yabs xabs in (r, xsign * c, (- ysign) * s).
End Rot.
