(* UpperHessenbergQR::{compute, matrix_QtHQ, apply_QY, apply_QtY, apply_YQ, apply_YQt}:
   same loops, same evaluation order.  Matrices are lists of columns. Definitions only. *)
Require Import List ZArith.
From SV Require Import Ops LinAlg Givens.
Import ListNotations.

Section HQR.
Variable o : Ops.
Variable cutoff : T o.
Notation "x + y" := (add o x y). Notation "x - y" := (sub o x y). Notation "x * y" := (mul o x y).
Notation "- x" := (neg o x).
Notation vec := (vec o). Notation mat := (mat o).

(* rows i, i+1 of a column: (c a - s b, s a + c b) *)
Fixpoint rot_at (i : nat) (c s : T o) (y : vec) : vec :=
  match i, y with
  | O, a :: b :: r => (c * a - s * b) :: (s * a + c * b) :: r
  | S i', a :: r => a :: rot_at i' c s r
  | _, _ => y
  end.
(* the transposed rotation: (c a + s b, -s a + c b) *)
Fixpoint rott_at (i : nat) (c s : T o) (y : vec) : vec :=
  match i, y with
  | O, a :: b :: r => (c * a + s * b) :: ((- s) * a + c * b) :: r
  | S i', a :: r => a :: rott_at i' c s r
  | _, _ => y
  end.

Definition set_col_i (n i : nat) (r : T o) (col : vec) : vec :=
  firstn i col ++ r :: zero o :: repeat (zero o) (n - i - 2).

Definition hqr_step (n i : nat) (R : mat) : mat * (T o * T o) :=
  let col := nth i R [] in
  let xi := nth i col (zero o) in
  let xj := nth (S i) col (zero o) in
  let '(r, c, s) := compute_rotation o cutoff xi xj in
  (mapi_from 0 (fun j cj => if Nat.ltb j i then cj else if Nat.eqb j i then set_col_i n i r cj else rot_at i c s cj) R, (c, s)).

Fixpoint hqr_loop (n : nat) (fuel i : nat) (R : mat) (rots : list (T o * T o)) : mat * list (T o * T o) :=
  match fuel with
  | O => (R, rev rots)
  | S f => let '(R', cs) := hqr_step n i R in hqr_loop n f (S i) R' (cs :: rots)
  end.

(* compute(mat, shift): R and the n-1 rotations *)
Definition hqr_compute (n : nat) (H : mat) (shift : T o) : mat * list (T o * T o) :=
  hqr_loop n (n - 1) 0 (diag_sub o shift H) [].

(* columns i, i+1 over the first k rows *)
Fixpoint rot_cols_rows (k : nat) (c s : T o) (a b : vec) : vec * vec :=
  match k, a, b with
  | S k', x :: a', y :: b' => let '(a2, b2) := rot_cols_rows k' c s a' b' in ((c * x - s * y) :: a2, (s * x + c * y) :: b2)
  | _, _, _ => (a, b)
  end.
Fixpoint rq_loop (i : nat) (rots : list (T o * T o)) (R : mat) : mat :=
  match rots with
  | [] => R
  | (c, s) :: rs =>
    let a := nth i R [] in
    let b := nth (S i) R [] in
    let '(a2, b2) := rot_cols_rows (i + 2) c s a b in
    rq_loop (S i) rs (mapi_from 0 (fun j cj => if Nat.eqb j i then a2 else if Nat.eqb j (S i) then b2 else cj) R)
  end.
Definition hqr_QtHQ (R : mat) (rots : list (T o * T o)) (shift : T o) : mat := diag_add o shift (rq_loop 0 rots R).

(* apply_QtY(vector): i ascending *)
Fixpoint apply_QtY_from (i : nat) (rots : list (T o * T o)) (y : vec) : vec :=
  match rots with [] => y | (c, s) :: rs => apply_QtY_from (S i) rs (rot_at i c s y) end.
Definition apply_QtY (rots : list (T o * T o)) (y : vec) : vec := apply_QtY_from 0 rots y.
(* apply_QY(vector): i descending *)
Fixpoint apply_QY_rev (rots_rev : list (T o * T o)) (i1 : nat) (y : vec) : vec :=
  match rots_rev, i1 with
  | (c, s) :: rs, S i => apply_QY_rev rs i (rott_at i c s y)
  | _, _ => y
  end.
Definition apply_QY (rots : list (T o * T o)) (y : vec) : vec := apply_QY_rev (rev rots) (List.length rots) y.
(* matrix versions act on every column (rows i, i+1 of Y) *)
Definition apply_QtY_mat (rots : list (T o * T o)) (Y : mat) : mat := map (apply_QtY rots) Y.
Definition apply_QY_mat (rots : list (T o * T o)) (Y : mat) : mat := map (apply_QY rots) Y.

(* apply_YQ: columns i, i+1 over all rows, i ascending *)
Fixpoint apply_YQ_from (i : nat) (rots : list (T o * T o)) (Y : mat) : mat :=
  match rots with
  | [] => Y
  | (c, s) :: rs =>
    let a := nth i Y [] in let b := nth (S i) Y [] in
    let '(a2, b2) := rot_cols_rows (List.length a) c s a b in
    apply_YQ_from (S i) rs (mapi_from 0 (fun j cj => if Nat.eqb j i then a2 else if Nat.eqb j (S i) then b2 else cj) Y)
  end.
Definition apply_YQ (rots : list (T o * T o)) (Y : mat) : mat := apply_YQ_from 0 rots Y.
(* apply_YQt: col i = c*Yi + s*col(i+1); col(i+1) = -s*Yi + c*col(i+1), i descending *)
Fixpoint rott_cols (c s : T o) (a b : vec) : vec * vec :=
  match a, b with
  | x :: a', y :: b' => let '(a2, b2) := rott_cols c s a' b' in ((c * x + s * y) :: a2, ((- s) * x + c * y) :: b2)
  | _, _ => (a, b)
  end.
Fixpoint apply_YQt_rev (rots_rev : list (T o * T o)) (i1 : nat) (Y : mat) : mat :=
  match rots_rev, i1 with
  | (c, s) :: rs, S i =>
    let a := nth i Y [] in let b := nth (S i) Y [] in
    let '(a2, b2) := rott_cols c s a b in
    apply_YQt_rev rs i (mapi_from 0 (fun j cj => if Nat.eqb j i then a2 else if Nat.eqb j (S i) then b2 else cj) Y)
  | _, _ => Y
  end.
Definition apply_YQt (rots : list (T o * T o)) (Y : mat) : mat := apply_YQt_rev (rev rots) (List.length rots) Y.
End HQR.
