(* Dense vectors / matrices as lists over an Ops scalar type, with the evaluation order of
   the C++ loops (left-to-right sums).  A matrix is a list of columns. Definitions only. *)
Require Import List ZArith.
From SV Require Import Ops.
Import ListNotations.

Section LA.
Variable o : Ops.
Notation S := (T o).
Definition vec := list S.
Definition mat := list vec.

Fixpoint mapi_from {A B} (k : nat) (f : nat -> A -> B) (l : list A) : list B :=
  match l with [] => [] | x :: r => f k x :: mapi_from (Datatypes.S k) f r end.
Definition mapi {A B} (f : nat -> A -> B) (l : list A) : list B := mapi_from 0 f l.

Definition vnth (v : vec) (i : nat) : S := nth i v (zero o).
Definition mcol (M : mat) (j : nat) : vec := nth j M [].
Definition mget (M : mat) (i j : nat) : S := vnth (mcol M j) i.
Fixpoint vset (v : vec) (i : nat) (x : S) : vec :=
  match v, i with [], _ => [] | _ :: r, O => x :: r | a :: r, Datatypes.S i' => a :: vset r i' x end.
Definition mset (M : mat) (i j : nat) (x : S) : mat := mapi (fun jj c => if Nat.eqb jj j then vset c i x else c) M.
Definition msetcol (M : mat) (j : nat) (c : vec) : mat := mapi (fun jj c0 => if Nat.eqb jj j then c else c0) M.

(* left-to-right accumulation, as the scalar loops of Eigen built with EIGEN_DONT_VECTORIZE *)
Fixpoint dot_from (acc : S) (x y : vec) : S :=
  match x, y with a :: x', b :: y' => dot_from (add o acc (mul o a b)) x' y' | _, _ => acc end.
Definition dot (x y : vec) : S :=
  match x, y with a :: x', b :: y' => dot_from (mul o a b) x' y' | _, _ => zero o end.
Definition vscale (c : S) (x : vec) : vec := map (fun a => mul o a c) x.
Definition vadd (x y : vec) : vec := map (fun p => add o (fst p) (snd p)) (combine x y).
Definition vsub (x y : vec) : vec := map (fun p => sub o (fst p) (snd p)) (combine x y).

Definition identity (n : nat) : mat := map (fun j => map (fun i => if Nat.eqb i j then one o else zero o) (seq 0 n)) (seq 0 n).
Definition diag_add (s : S) (M : mat) : mat := mapi (fun j col => mapi (fun i x => if Nat.eqb i j then add o x s else x) col) M.
Definition diag_sub (s : S) (M : mat) : mat := mapi (fun j col => mapi (fun i x => if Nat.eqb i j then sub o x s else x) col) M.
End LA.
