(* The scalar abstraction every numeric kernel model is written against.
   Instances: OpsFloat (binary64, to run), OpsF (any real closed field, to prove). *)
Require Export ZArith Floats.

Record lit := { lit_num : Z; lit_den : positive; lit_f : float }.

Record Ops := {
  T : Type;
  zero : T; one : T;
  add : T -> T -> T; sub : T -> T -> T; mul : T -> T -> T; div : T -> T -> T;
  neg : T -> T; abs : T -> T; sqrt : T -> T;
  ltb : T -> T -> bool; leb : T -> T -> bool; eqb : T -> T -> bool;
  of_Z : Z -> T; of_lit : lit -> T }.

Definition float_of_Z (z : Z) : float :=
  match z with
  | Z0 => 0%float
  | Zpos p => PrimFloat.of_uint63 (Uint63.of_pos p)
  | Zneg p => PrimFloat.opp (PrimFloat.of_uint63 (Uint63.of_pos p))
  end.
(* exact for |z| < 2^53; the models only convert such integers *)

(* named constants: extraction of a float literal directly inside the record loses its Obj.magic *)
Definition f_zero : float := 0%float.
Definition f_one : float := 1%float.

Definition OpsFloat : Ops := {|
  T := float; zero := f_zero; one := f_one;
  add := PrimFloat.add; sub := PrimFloat.sub; mul := PrimFloat.mul; div := PrimFloat.div;
  neg := PrimFloat.opp; abs := PrimFloat.abs; sqrt := PrimFloat.sqrt;
  ltb := PrimFloat.ltb; leb := PrimFloat.leb; eqb := PrimFloat.eqb;
  of_Z := float_of_Z; of_lit := lit_f |}.
