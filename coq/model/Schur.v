(* UpperHessenbergSchur<double>::compute with upper_hessenberg_l1_norm, find_small_subdiag, split_off_two_rows,
   compute_shift, init_francis_qr_step, perform_francis_qr_step (with Eigen's makeHouseholder, makeGivens with
   the r output, applyOnTheLeft / applyOnTheRight and the scalar path of apply_householder_left / _right),
   statement by statement, same evaluation order.  A matrix is a list of columns.  Definitions only. *)
Require Import List ZArith Floats.
From SV Require Import Ops LinAlg.
Import ListNotations.

Section SC.
Variable o : Ops.
Variables (eps min_ : T o).   (* NumTraits::epsilon(), TypeTraits::min(): read from the code *)
Notation "x + y" := (add o x y). Notation "x - y" := (sub o x y). Notation "x * y" := (mul o x y).
Notation "x / y" := (div o x y). Notation "- x" := (neg o x).
Notation vec := (vec o). Notation mat := (mat o).
Notation "M [ i , j ]" := (mget o M i j) (at level 9).

Definition l_half : lit := Build_lit 1 2 0x1p-1%float.
Definition l_075 : lit := Build_lit 3 4 0x1.8p-1%float.
Definition l_m04375 : lit := Build_lit (-7) 16 (-0x1.cp-2)%float.
Definition l_0964 : lit := Build_lit 241 250 0x1.ed916872b020cp-1%float.
Definition l_two : lit := Build_lit 2 1 0x1p+1%float.
Definition maxi (a b : T o) : T o := if ltb o a b then b else a.     (* numext::maxi = std::max *)
Definition geb0 (x : T o) : bool := leb o (zero o) x.                   (* x >= 0 *)

(* x.col(j).segment(0, min(n, j + 2)).cwiseAbs().sum(): linear redux from the first coefficient *)
Definition abs_sum (v : vec) : T o :=
  match v with [] => zero o | a :: r => fold_left (fun s x => s + abs o x) r (abs o a) end.
Definition l1_norm (n : nat) (M : mat) : T o :=
  fold_left (fun nm j => nm + abs_sum (firstn (Nat.min n (j + 2)) (mcol o M j))) (seq 0 n) (zero o).

Fixpoint find_small (fuel res : nat) (M : mat) (near_0 : T o) : nat :=
  match fuel with
  | O => res
  | S fu =>
    if Nat.ltb 0 res then
      let s := abs o M[res - 1, res - 1] + abs o M[res, res] in
      let s := maxi (s * eps) near_0 in
      if leb o (abs o M[res, res - 1]) s then res else find_small fu (res - 1) M near_0
    else res
  end.

(* JacobiRotation::makeGivens(p, q, &r): (c, s, r) *)
Definition make_givens_r (p q : T o) : T o * T o * T o :=
  if eqb o q (zero o) then ((if ltb o p (zero o) then - one o else one o), zero o, abs o p)
  else if eqb o p (zero o) then (zero o, (if ltb o q (zero o) then one o else - one o), abs o q)
  else if ltb o (abs o q) (abs o p) then
    let t := q / p in
    let u := sqrt o (one o + t * t) in
    let u := if ltb o p (zero o) then - u else u in
    let c := one o / u in
    (c, (- t) * c, p * u)
  else
    let t := p / q in
    let u := sqrt o (one o + t * t) in
    let u := if ltb o q (zero o) then - u else u in
    let s := (- one o) / u in
    ((- t) * s, s, q * u).

(* rows p, q of the columns j >= j0: applyOnTheLeft(p, q, rot.adjoint()) on rightCols *)
Definition rot_rows (M : mat) (p q j0 : nat) (c s : T o) : mat :=
  if (eqb o c (one o) && eqb o s (zero o))%bool then M else
  mapi (fun j col => if Nat.leb j0 j then
      let x := vnth o col p in let y := vnth o col q in
      vset o (vset o col p (c * x - s * y)) q (s * x + c * y)
    else col) M.
(* columns p, q, rows < nrow: topRows(nrow).applyOnTheRight(p, q, rot) *)
Definition rot_cols_top (M : mat) (p q nrow : nat) (c s : T o) : mat :=
  if (eqb o c (one o) && eqb o s (zero o))%bool then M else
  let x := mcol o M p in let y := mcol o M q in
  let x' := mapi (fun i a => if Nat.ltb i nrow then c * a - s * vnth o y i else a) x in
  let y' := mapi (fun i b => if Nat.ltb i nrow then s * vnth o x i + c * b else b) y in
  msetcol o (msetcol o M p x') q y'.

(* Vector3s::makeHouseholder(ess, tau, beta): (v1, v2, tau, beta) *)
Definition make_householder (c0 x1 x2 : T o) : T o * T o * T o * T o :=
  let tail := x1 * x1 + x2 * x2 in
  if leb o tail min_ then (zero o, zero o, zero o, c0) else
  let beta := sqrt o (c0 * c0 + tail) in
  let beta := if geb0 c0 then - beta else beta in
  (x1 / (c0 - beta), x2 / (c0 - beta), (beta - c0) / beta, beta).

(* apply_householder_left: rows k, k+1, k+2 of the columns j >= k *)
Definition hh_left (M : mat) (k : nat) (v1 v2 tau : T o) : mat :=
  mapi (fun j col => if Nat.leb k j then
      let x0 := vnth o col k in let x1 := vnth o col (k + 1) in let x2 := vnth o col (k + 2) in
      let t := tau * ((x0 + v1 * x1) + v2 * x2) in
      vset o (vset o (vset o col k (x0 - t)) (k + 1) (x1 - t * v1)) (k + 2) (x2 - t * v2)
    else col) M.
(* apply_householder_right(_simd, scalar path): columns k, k+1, k+2, rows < nrow *)
Definition hh_right (M : mat) (k nrow : nat) (v1 v2 tau : T o) : mat :=
  let c0 := mcol o M k in let c1 := mcol o M (k + 1) in let c2 := mcol o M (k + 2) in
  let tv := mapi (fun i x0 => tau * ((x0 + v1 * vnth o c1 i) + v2 * vnth o c2 i)) c0 in
  let c0' := mapi (fun i x => if Nat.ltb i nrow then x - vnth o tv i else x) c0 in
  let c1' := mapi (fun i x => if Nat.ltb i nrow then x - vnth o tv i * v1 else x) c1 in
  let c2' := mapi (fun i x => if Nat.ltb i nrow then x - vnth o tv i * v2 else x) c2 in
  msetcol o (msetcol o (msetcol o M k c0') (k + 1) c1') (k + 2) c2'.

Definition split_off (n iu : nat) (Tm U : mat) (ex : T o) : mat * mat :=
  let p := of_lit o l_half * (Tm[iu - 1, iu - 1] - Tm[iu, iu]) in
  let q := p * p + Tm[iu, iu - 1] * Tm[iu - 1, iu] in
  let Tm := mset o Tm iu iu (Tm[iu, iu] + ex) in
  let Tm := mset o Tm (iu - 1) (iu - 1) (Tm[iu - 1, iu - 1] + ex) in
  let '(Tm, U) :=
    if geb0 q then
      let z := sqrt o (abs o q) in
      let '(c, s, _) := make_givens_r (if geb0 p then p + z else p - z) Tm[iu, iu - 1] in
      let Tm := rot_rows Tm (iu - 1) iu (iu - 1) c s in
      let Tm := rot_cols_top Tm (iu - 1) iu (iu + 1) c s in
      let Tm := mset o Tm iu (iu - 1) (zero o) in
      (Tm, rot_cols_top U (iu - 1) iu n c s)
    else (Tm, U) in
  ((if Nat.ltb 1 iu then mset o Tm (iu - 1) (iu - 2) (zero o) else Tm), U).

Definition sub_diag_upto (Tm : mat) (iu : nat) (s : T o) : mat :=
  mapi (fun j col => if Nat.leb j iu then vset o col j (vnth o col j - s) else col) Tm.

(* compute_shift: (T, ex_shift, shift_info) *)
Definition compute_shift (iu iter : nat) (Tm : mat) (ex : T o) : mat * T o * (T o * T o * T o) :=
  let s0 := Tm[iu, iu] in let s1 := Tm[iu - 1, iu - 1] in let s2 := Tm[iu, iu - 1] * Tm[iu - 1, iu] in
  let '(Tm, ex, (s0, s1, s2)) :=
    if Nat.eqb iter 10 then
      let ex := ex + s0 in
      let Tm := sub_diag_upto Tm iu s0 in
      let s := abs o Tm[iu, iu - 1] + abs o Tm[iu - 1, iu - 2] in
      (Tm, ex, (of_lit o l_075 * s, of_lit o l_075 * s, of_lit o l_m04375 * s * s))
    else (Tm, ex, (s0, s1, s2)) in
  if Nat.eqb iter 30 then
    let s := (s1 - s0) / of_lit o l_two in
    let s := s * s + s2 in
    if ltb o (zero o) s then
      let s := sqrt o s in
      let s := if ltb o s1 s0 then - s else s in
      let s := s + (s1 - s0) / of_lit o l_two in
      let s := s0 - s2 / s in
      let ex := ex + s in
      let Tm := sub_diag_upto Tm iu s in
      (Tm, ex, (of_lit o l_0964, of_lit o l_0964, of_lit o l_0964))
    else (Tm, ex, (s0, s1, s2))
  else (Tm, ex, (s0, s1, s2)).

(* init_francis_qr_step: (im, first Householder vector) *)
Fixpoint init_francis (fuel il im : nat) (Tm : mat) (sh : T o * T o * T o) : nat * (T o * T o * T o) :=
  let '(s0, s1, s2) := sh in
  let Tmm := Tm[im, im] in
  let r := s0 - Tmm in let s := s1 - Tmm in
  let v0 := (r * s - s2) / Tm[im + 1, im] + Tm[im, im + 1] in
  let v1 := Tm[im + 1, im + 1] - Tmm - r - s in
  let v2 := Tm[im + 2, im + 1] in
  match fuel with
  | O => (im, (v0, v1, v2))
  | S fu =>
    if Nat.eqb im il then (im, (v0, v1, v2)) else
    let lhs := Tm[im, im - 1] * (abs o v1 + abs o v2) in
    let rhs := v0 * (abs o Tm[im - 1, im - 1] + abs o Tmm + abs o Tm[im + 1, im + 1]) in
    if ltb o (abs o lhs) (eps * rhs) then (im, (v0, v1, v2)) else init_francis fu il (im - 1) Tm sh
  end.

(* the Householder sweep k = im .. iu - 2 *)
Fixpoint francis_sweep (fuel n il im iu k : nat) (fhv : T o * T o * T o) (near_0 : T o) (Tm U : mat) : mat * mat :=
  match fuel with
  | O => (Tm, U)
  | S fu =>
    if Nat.leb (k + 2) iu then
      let first := Nat.eqb k im in
      let '(c0, x1, x2) := if first then fhv else (Tm[k, k - 1], Tm[k + 1, k - 1], Tm[k + 2, k - 1]) in
      let '(v1, v2, tau, beta) := make_householder c0 x1 x2 in
      let '(Tm, U) :=
        if ltb o near_0 (abs o beta) then
          let Tm := if (first && Nat.ltb il k)%bool then mset o Tm k (k - 1) (- Tm[k, k - 1])
                    else if negb first then mset o Tm k (k - 1) beta else Tm in
          let Tm := hh_left Tm k v1 v2 tau in
          let Tm := hh_right Tm k (Nat.min iu (k + 3) + 1) v1 v2 tau in
          (Tm, hh_right U k n v1 v2 tau)
        else (Tm, U) in
      francis_sweep fu n il im iu (k + 1) fhv near_0 Tm U
    else (Tm, U)
  end.

Definition cleanup (im iu : nat) (Tm : mat) : mat :=
  fold_left (fun Tm i =>
    let Tm := mset o Tm i (i - 2) (zero o) in
    if Nat.ltb (im + 2) i then mset o Tm i (i - 3) (zero o) else Tm) (seq (im + 2) (iu + 1 - (im + 2))) Tm.

Definition francis_step (n il im iu : nat) (fhv : T o * T o * T o) (near_0 : T o) (Tm U : mat) : mat * mat :=
  let '(Tm, U) := francis_sweep n n il im iu im fhv near_0 Tm U in
  let '(c, s, beta) := make_givens_r Tm[iu - 1, iu - 2] Tm[iu, iu - 2] in
  let '(Tm, U) :=
    if ltb o near_0 (abs o beta) then
      let Tm := mset o Tm (iu - 1) (iu - 2) beta in
      let Tm := rot_rows Tm (iu - 1) iu (iu - 1) c s in
      let Tm := rot_cols_top Tm (iu - 1) iu (iu + 1) c s in
      (Tm, rot_cols_top U (iu - 1) iu n c s)
    else (Tm, U) in
  (cleanup im iu Tm, U).

(* main loop: iu1 = iu + 1 (the C++ index is signed and ends at -1); None = the iteration limit was hit (the C++ throws) *)
Fixpoint sc_loop (fuel n iu1 iter total : nat) (ex near_0 : T o) (Tm U : mat) : option (mat * mat) :=
  match fuel with
  | O => None
  | S fu =>
    match iu1 with
    | O => Some (Tm, U)
    | S iu =>
      let il := find_small n iu Tm near_0 in
      if Nat.eqb il iu then
        let Tm := mset o Tm iu iu (Tm[iu, iu] + ex) in
        let Tm := if Nat.ltb 0 iu then mset o Tm iu (iu - 1) (zero o) else Tm in
        sc_loop fu n iu 0 total ex near_0 Tm U
      else if Nat.eqb il (iu - 1) then
        let '(Tm, U) := split_off n iu Tm U ex in
        sc_loop fu n (iu - 1) 0 total ex near_0 Tm U
      else
        let '(Tm, ex, sh) := compute_shift iu iter Tm ex in
        let iter := S iter in let total := S total in
        if Nat.ltb (40 * n) total then None else
        let '(im, fhv) := init_francis n il (iu - 2) Tm sh in
        let '(Tm, U) := francis_step n il im iu fhv near_0 Tm U in
        sc_loop fu n iu1 iter total ex near_0 Tm U
    end
  end.

Definition sc_compute (n : nat) (M : mat) : option (mat * mat) :=
  let norm := l1_norm n M in
  let near_0 := maxi (norm * eps * eps) min_ in
  if eqb o norm (zero o) then Some (M, identity o n)
  else sc_loop (41 * n + 2) n n 0 0 (zero o) near_0 M (identity o n).
End SC.
