(* Sort keys of SelectionRule.h as data: the translator emits one keyexp per
   (value type, rule) from the SortingTarget specialisations. Definitions only. *)
Require Import ZArith List Bool.
Import ListNotations.

Inductive keyexp := KVal | KRe | KIm | KAbs (k : keyexp) | KNeg (k : keyexp) | KThrow.

Fixpoint keyexp_eqb (a b : keyexp) : bool :=
  match a, b with
  | KVal, KVal | KRe, KRe | KIm, KIm | KThrow, KThrow => true
  | KAbs x, KAbs y | KNeg x, KNeg y => keyexp_eqb x y
  | _, _ => false
  end.

(* Integer-valued evaluation used by the verified checker.  Values are integers
   (real case) or Gaussian integers (complex case).  |z| for a complex z is
   represented by re^2+im^2, which orders values exactly as the modulus does. *)
Inductive zval := ZR (x : Z) | ZC (re im : Z).

Fixpoint zkey (k : keyexp) (v : zval) : option Z :=
  match k, v with
  | KVal, ZR x => Some x
  | KVal, ZC _ _ => None            (* complex values are not ordered: does not instantiate *)
  | KRe, ZC a _ => Some a
  | KIm, ZC _ b => Some b
  | KRe, ZR _ | KIm, ZR _ => None
  | KAbs KVal, ZC a b => Some (a * a + b * b)%Z
  | KAbs k', _ => option_map Z.abs (zkey k' v)
  | KNeg k', _ => option_map Z.opp (zkey k' v)
  | KThrow, _ => None
  end.
