(* Model of argsort / SortEigenvalue around the std::sort contract, and the
   executable checker run on the C++ outputs. Definitions only. *)
Require Import ZArith List Bool Sorting.Permutation.
From SV Require Import Cxx SortKey.
Import ListNotations.
Local Open Scope Z_scope.

Definition no_orc : oracle := fun _ _ => false.

(* the std::sort contract for comparator `key i < key j`: the result is a
   permutation of 0..len-1 and no adjacent pair is strictly out of order *)
Fixpoint adj_ok (keys : list Z) (p : list Z) : bool :=
  match p with
  | a :: ((b :: _) as r) => negb (nth (Z.to_nat b) keys 0 <? nth (Z.to_nat a) keys 0) && adj_ok keys r
  | _ => true
  end.

Fixpoint insert (x : Z) (l : list Z) : list Z :=
  match l with [] => [x] | y :: r => if x <=? y then x :: l else y :: insert x r end.
Fixpoint isort (l : list Z) : list Z := match l with [] => [] | x :: r => insert x (isort r) end.

Fixpoint list_eqb (a b : list Z) : bool :=
  match a, b with [] , [] => true | x :: a', y :: b' => (x =? y) && list_eqb a' b' | _, _ => false end.

Definition iota (n : nat) : list Z := map Z.of_nat (seq 0 n).
Definition is_perm_iota (p : list Z) : bool := list_eqb (isort p) (iota (List.length p)).

Definition sort_contract (keys : list Z) (p : list Z) : bool :=
  (Nat.eqb (List.length p) (List.length keys)) && is_perm_iota p && adj_ok keys p.

Fixpoint keys_of (k : keyexp) (vals : list zval) : option (list Z) :=
  match vals with
  | [] => Some []
  | v :: r => match zkey k v, keys_of k r with Some x, Some xs => Some (x :: xs) | _, _ => None end
  end.

(* inverse of the BothEnds interleaving: p[j] = q[2j], p[len-1-j] = q[2j+1] *)
Definition deinterleave (q : list Z) : list Z :=
  let len := List.length q in
  map (fun j => if Nat.ltb j ((len + 1) / 2) then nth (2 * j) q 0 else nth (2 * (len - 1 - j) + 1) q 0) (seq 0 len).

Inductive outcome := Indices (out : list Z) | Thrown (exn : string).

(* ---- the SPECIFICATION side (hand-written from the documentation; nothing generated) ----
   documented keys: |x| (Magn), Re (Real), |Im| (Imag), x (Alge); negated for Largest*;
   BothEnds sorts as LargestAlge and then interleaves.  Real values: Magn/Alge/BothEnds
   only.  Complex values, as used by the general solvers: Magn/Real/Imag only. *)
Definition documented_real (rule : Z) : keyexp :=
  if rule =? 0 then KNeg (KAbs KVal) else if rule =? 3 then KNeg KVal else if rule =? 4 then KAbs KVal
  else if rule =? 7 then KVal else if rule =? 8 then KNeg KVal else KThrow.
Definition documented_complex (rule : Z) : keyexp :=
  if rule =? 0 then KNeg (KAbs KVal) else if rule =? 1 then KNeg KRe else if rule =? 2 then KNeg (KAbs KIm)
  else if rule =? 4 then KAbs KVal else if rule =? 5 then KRe else if rule =? 6 then KAbs KIm else KThrow.

(* BothEnds: position 2j holds the j-th from the top, position 2j+1 the j-th from the bottom *)
Definition il_at (p : list Z) (j : nat) : Z :=
  if Nat.eqb (j mod 2) 0 then nth (j / 2) p 0 else nth (List.length p - 1 - j / 2) p 0.
Definition interleave (p : list Z) : list Z := map (il_at p) (seq 0 (List.length p)).

Definition is_throw (k : keyexp) : bool := match k with KThrow => true | _ => false end.

(* checker for argsort(selection, values, len) on real values, len = |vals| *)
Definition valid_argsort (selection : Z) (vals : list zval) (o : outcome) : bool :=
  let k := documented_real selection in
  match o with
  | Thrown e => is_throw k && String.eqb e "invalid_argument"%string
  | Indices out =>
    negb (is_throw k) &&
    match keys_of k vals with
    | None => false
    | Some keys =>
      if selection =? 8 then
        let p := deinterleave out in sort_contract keys p && list_eqb (interleave p) out
      else sort_contract keys out
    end
  end.

(* checker for SortEigenvalue<complex, rule> as used by the general solvers *)
Definition valid_gen_sort (rule : Z) (vals : list zval) (o : outcome) : bool :=
  let k := documented_complex rule in
  match o with
  | Thrown e => is_throw k && String.eqb e "invalid_argument"%string
  | Indices out =>
    negb (is_throw k) &&
    match keys_of k vals with
    | None => false
    | Some keys => sort_contract keys out
    end
  end.
