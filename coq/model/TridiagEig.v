(* TridiagEigen<double>::compute and tridiagonal_qr_step (with Eigen's JacobiRotation::makeGivens,
   numext::hypot and applyOnTheRight), statement by statement; UpperHessenbergEigen's extraction of
   the eigenvalues from the quasi-triangular Schur factor and the assembly of complex eigenvectors.
   Definitions only. *)
Require Import List ZArith Floats.
From SV Require Import Ops LinAlg.
Import ListNotations.

Section TE.
Variable o : Ops.
Variables (near_0 consider_zero precision_inv : T o).   (* min*10, min, 1/eps: read from the code *)
Notation "x + y" := (add o x y). Notation "x - y" := (sub o x y). Notation "x * y" := (mul o x y).
Notation "x / y" := (div o x y). Notation "- x" := (neg o x).
Notation vec := (vec o). Notation mat := (mat o).
Definition l_half : lit := Build_lit 1 2 0x1p-1%float.
Definition half := of_lit o l_half.
Definition nz (x : T o) : bool := negb (eqb o x (zero o)).

(* Eigen::numext::hypot on finite arguments *)
Definition hypot (x y : T o) : T o :=
  let x := abs o x in let y := abs o y in
  let p := if ltb o x y then y else x in
  if eqb o p (zero o) then zero o else
  let qp := (if ltb o x y then x else y) / p in
  p * sqrt o (one o + qp * qp).

(* JacobiRotation<double>::makeGivens(p, q): (c, s) *)
Definition make_givens (p q : T o) : T o * T o :=
  if eqb o q (zero o) then ((if ltb o p (zero o) then - one o else one o), zero o)
  else if eqb o p (zero o) then (zero o, (if ltb o q (zero o) then one o else - one o))
  else if ltb o (abs o q) (abs o p) then
    let t := q / p in
    let u := sqrt o (one o + t * t) in
    let u := if ltb o p (zero o) then - u else u in
    let c := one o / u in
    (c, (- t) * c)
  else
    let t := p / q in
    let u := sqrt o (one o + t * t) in
    let u := if ltb o q (zero o) then - u else u in
    let s := (- one o) / u in
    ((- t) * s, s).

(* q.applyOnTheRight(k, k+1, rot): columns k and k+1 *)
Definition rot_cols (Q : mat) (k : nat) (c s : T o) : mat :=
  if (eqb o c (one o) && eqb o s (zero o))%bool then Q else
  let x := mcol o Q k in let y := mcol o Q (k + 1) in
  let x' := map (fun p => c * fst p - s * snd p) (combine x y) in
  let y' := map (fun p => s * fst p + c * snd p) (combine x y) in
  msetcol o (msetcol o Q k x') (k + 1) y'.

Definition wilkinson_mu (dend1 dend e : T o) : T o :=
  let td := (dend1 - dend) * half in
  let mu := dend in
  if eqb o td (zero o) then mu - abs o e
  else if nz e then
    let e2 := e * e in
    let h := hypot td e in
    if eqb o e2 (zero o) then mu - e / ((td + (if ltb o (zero o) td then h else - h)) / e)
    else mu - e2 / (td + (if ltb o (zero o) td then h else - h))
  else mu.

(* "do T = G' T G" on the three entries of the (k, k+1) window: new diag[k], diag[k+1], subdiag[k] *)
Definition rot_update (c s dk dk1 sk : T o) : T o * T o * T o :=
  let sdk := s * dk + c * sk in
  let dkp1 := s * sk + c * dk1 in
  (c * (c * dk - s * sk) - s * (c * sk - s * dk1), s * sdk + c * dkp1, c * sdk - s * dkp1).

(* the chase: k runs from start while k < end and z != 0 *)
Fixpoint chase (fuel : nat) (start end_ k : nat) (x z : T o) (d sd : vec) (Q : mat) : vec * vec * mat :=
  match fuel with
  | O => (d, sd, Q)
  | S fu =>
    if (Nat.ltb k end_ && nz z)%bool then
      let '(c, s) := make_givens x z in
      let dk := vnth o d k in let dk1 := vnth o d (k + 1) in let sk := vnth o sd k in
      let '(ndk, ndk1, nsk) := rot_update c s dk dk1 sk in
      let d := vset o d k ndk in
      let d := vset o d (k + 1) ndk1 in
      let sd := vset o sd k nsk in
      let sd := if Nat.ltb start k then vset o sd (k - 1) (c * vnth o sd (k - 1) - s * z) else sd in
      let x := vnth o sd k in
      let '(z, sd) := if Nat.ltb k (end_ - 1) then ((- s) * vnth o sd (k + 1), vset o sd (k + 1) (c * vnth o sd (k + 1))) else (z, sd) in
      chase fu start end_ (k + 1) x z d sd (rot_cols Q k c s)
    else (d, sd, Q)
  end.

Definition qr_step (n start end_ : nat) (d sd : vec) (Q : mat) : vec * vec * mat :=
  let mu := wilkinson_mu (vnth o d (end_ - 1)) (vnth o d end_) (vnth o sd (end_ - 1)) in
  chase n start end_ start (vnth o d start - mu) (vnth o sd start) d sd Q.

(* the deflation scan of compute(): for i in [start, end) *)
Definition deflate (start end_ : nat) (d sd : vec) : vec :=
  fold_left (fun sd i =>
    let si := vnth o sd i in
    if leb o (abs o si) consider_zero then vset o sd i (zero o)
    else let sc := precision_inv * si in
         if leb o (sc * sc) (abs o (vnth o d i) + abs o (vnth o d (i + 1))) then vset o sd i (zero o) else sd)
    (seq start (end_ - start)) sd.

Fixpoint find_end (fuel end_ : nat) (sd : vec) : nat :=
  match fuel with O => end_ | S fu => if (Nat.ltb 0 end_ && eqb o (vnth o sd (end_ - 1)) (zero o))%bool then find_end fu (end_ - 1) sd else end_ end.
Fixpoint find_start (fuel start : nat) (sd : vec) : nat :=
  match fuel with O => start | S fu => if (Nat.ltb 0 start && nz (vnth o sd (start - 1)))%bool then find_start fu (start - 1) sd else start end.

(* main loop; returns None when the iteration limit is hit (the C++ throws) *)
Fixpoint te_loop (fuel n start end_ iter : nat) (d sd : vec) (Q : mat) : option (vec * vec * mat) :=
  match fuel with
  | O => None
  | S fu =>
    if Nat.ltb 0 end_ then
      let sd := deflate start end_ d sd in
      let end_ := find_end n end_ sd in
      if Nat.leb end_ 0 then Some (d, sd, Q) else
      let iter := S iter in
      if Nat.ltb (30 * n) iter then None else
      let start := find_start n (end_ - 1) sd in
      let '(d, sd, Q) := qr_step n start end_ d sd Q in
      te_loop fu n start end_ iter d sd Q
    else Some (d, sd, Q)
  end.

Definition vmaxabs (v : vec) : T o :=
  match v with [] => zero o | a :: r => fold_left (fun m x => if ltb o m (abs o x) then abs o x else m) r (abs o a) end.

(* compute(): diag d (n entries), sub-diagonal sd (n-1 entries); result (eigenvalues, eigenvector columns) *)
Definition te_compute (n : nat) (d sd : vec) : option (vec * mat) :=
  let Q := identity o n in
  let m1 := vmaxabs d in let m2 := vmaxabs sd in
  let scale := if ltb o m1 m2 then m2 else m1 in
  if ltb o scale near_0 then Some (map (fun _ => zero o) d, Q) else
  let d := map (fun x => x / scale) d in let sd := map (fun x => x / scale) sd in
  match te_loop (30 * n + 2) n 0 (n - 1) 0 d sd Q with
  | None => None
  | Some (d, sd, Q) => Some (map (fun x => x * scale) d, Q)
  end.
End TE.

(* ---- UpperHessenbergEigen: eigenvalues from the quasi-triangular T (list of columns), before the scaling back *)
Section HE.
Variable o : Ops.
Notation "x + y" := (add o x y). Notation "x - y" := (sub o x y). Notation "x * y" := (mul o x y).
Notation "x / y" := (div o x y). Notation "- x" := (neg o x).
Definition max_ (a b : T o) : T o := if ltb o a b then b else a.    (* std::max *)

Fixpoint he_values (fuel n i : nat) (Tm : mat o) : list (T o * T o) :=
  match fuel with
  | O => []
  | S fu =>
    if Nat.ltb i n then
      if (Nat.eqb i (n - 1) || eqb o (mget o Tm (i + 1) i) (zero o))%bool then
        (mget o Tm i i, zero o) :: he_values fu n (i + 1) Tm
      else
        let p := half o * (mget o Tm i i - mget o Tm (i + 1) (i + 1)) in
        let t0 := mget o Tm (i + 1) i in let t1 := mget o Tm i (i + 1) in
        let maxval := max_ (abs o p) (max_ (abs o t0) (abs o t1)) in
        let t0 := t0 / maxval in let t1 := t1 / maxval in
        let p0 := p / maxval in
        let z := maxval * sqrt o (abs o (p0 * p0 + t0 * t1)) in
        let re := mget o Tm (i + 1) (i + 1) + p in
        (re, z) :: (re, - z) :: he_values fu n (i + 2) Tm
    else []
  end.

(* m_eivalues *= scale: the real scale is converted to Complex(scale, 0) and multiplied as a complex number *)
Definition he_eigenvalues (n : nat) (Tm : mat o) (scale : T o) : list (T o * T o) :=
  map (fun v => (fst v * scale - snd v * zero o, fst v * zero o + snd v * scale)) (he_values n n 0 Tm).
End HE.
