(* TridiagQR::{compute, matrix_R, matrix_QtHQ}: same statements, same evaluation order.
   The tridiagonal matrix is given by its diagonal and sub-diagonal. Definitions only. *)
Require Import List ZArith.
From SV Require Import Ops LinAlg Givens.
Import ListNotations.

Section TQR.
Variable o : Ops.
Variable cutoff : T o.
Variable eps : T o.
Notation "x + y" := (add o x y). Notation "x - y" := (sub o x y). Notation "x * y" := (mul o x y).
Notation "- x" := (neg o x).
Notation vec := (vec o).
Notation "v [ i ]" := (vnth o v i) (at level 9).

(* deflation of negligible sub-diagonals: |t_i| <= eps (|d_i| + |d_{i+1}|) -> 0 *)
Definition deflate (d sub : vec) : vec :=
  mapi (fun i t => if leb o (abs o t) (eps * (abs o d[i] + abs o d[Datatypes.S i])) then zero o else t) sub.

Record tqr := { T_diag : vec; T_subd : vec; R_diag : vec; R_supd : vec; R_supd2 : vec; rots : list (T o * T o) }.

(* state of the main loop: (R_diag, R_supd, R_supd2, rots_rev) *)
Definition tqr_step (n : nat) (Tsub : vec) (i : nat) (st : vec * vec * vec * list (T o * T o)) :=
  let '(Rd, Rs, Rs2, acc) := st in
  let '(r, c, s) := compute_rotation o cutoff Rd[i] Tsub[i] in
  let Rd := vset o Rd i r in
  let Tii1 := Rs[i] in
  let Ti1i1 := Rd[Datatypes.S i] in
  let Rs := vset o Rs i (c * Tii1 - s * Ti1i1) in
  let Rd := vset o Rd (Datatypes.S i) (s * Tii1 + c * Ti1i1) in
  let '(Rs, Rs2) :=
    if Nat.ltb i (n - 2) then
      let Rs2 := vset o Rs2 i ((- s) * Rs[Datatypes.S i]) in
      let Rs := vset o Rs (Datatypes.S i) (Rs[Datatypes.S i] * c) in
      (Rs, Rs2)
    else (Rs, Rs2) in
  (Rd, Rs, Rs2, (c, s) :: acc).

Fixpoint tqr_loop (n : nat) (Tsub : vec) (fuel i : nat) st :=
  match fuel with O => st | Datatypes.S f => tqr_loop n Tsub f (Datatypes.S i) (tqr_step n Tsub i st) end.

Definition tqr_compute (n : nat) (diag subd : vec) (shift : T o) : tqr :=
  let Tsub := deflate diag subd in
  let Rd := map (fun x => x - shift) diag in
  let '(Rd, Rs, Rs2, acc) := tqr_loop n Tsub (n - 1) 0 (Rd, Tsub, repeat (zero o) (n - 2), []) in
  {| T_diag := diag; T_subd := Tsub; R_diag := Rd; R_supd := Rs; R_supd2 := Rs2; rots := rev acc |}.

(* the 2x2 core of one step of matrix_QtHQ: new (D_i, L_i, D_{i+1}) from (x, y, z) = (D_i, L_i, D_{i+1}) *)
Definition qthq_core (c s x y z : T o) : T o * T o * T o :=
  let cs := c * s in let c2 := c * c in let s2 := s * s in
  let c2x := c2 * x in let s2x := s2 * x in let c2z := c2 * z in let s2z := s2 * z in
  let csy2 := of_Z o 2 * c * s * y in
  (c2x - csy2 + s2z, cs * (x - z) + (c2 - s2) * y, s2x + csy2 + c2z).

(* matrix_QtHQ: state (diag, sub) of dest *)
Definition qthq_step (n : nat) (q : tqr) (i : nat) (st : vec * vec) : vec * vec :=
  let '(D, L) := st in
  let c := fst (nth i (rots q) (zero o, zero o)) in
  let s := snd (nth i (rots q) (zero o, zero o)) in
  let x := D[i] in let y := L[i] in let z := D[Datatypes.S i] in
  let '(nd, nl, nd1) := qthq_core c s x y z in
  let D := vset o D i nd in
  let L := vset o L i nl in
  let D := vset o D (Datatypes.S i) nd1 in
  if Nat.ltb i (n - 2) then
    let ci1 := fst (nth (Datatypes.S i) (rots q) (zero o, zero o)) in
    let si1 := snd (nth (Datatypes.S i) (rots q) (zero o, zero o)) in
    let oo := (- s) * (T_subd q)[Datatypes.S i] in
    let L := vset o L (Datatypes.S i) (L[Datatypes.S i] * c) in
    let L := vset o L i (ci1 * L[i] - si1 * oo) in
    (D, L)
  else (D, L).
Fixpoint qthq_loop (n : nat) (q : tqr) (fuel i : nat) st :=
  match fuel with O => st | Datatypes.S f => qthq_loop n q f (Datatypes.S i) (qthq_step n q i st) end.
(* returns (diagonal, sub-diagonal) of Q'TQ; the super-diagonal is a copy of the sub-diagonal *)
Definition tqr_QtHQ (n : nat) (q : tqr) : vec * vec :=
  let '(D, L) := qthq_loop n q (n - 1) 0 (T_diag q, T_subd q) in
  (D, mapi (fun i t => if leb o (abs o t) (eps * (abs o D[i] + abs o D[Datatypes.S i])) then zero o else t) L).
End TQR.
