(* SymShiftInvert<double, TypeA, TypeB, UploA, UploB, ...>: the three SymShiftInvertHelper::factorize
   variants (which triangle of A and B is read, how A - sigma B is assembled) composed with the
   Bunch-Kaufman model (model/BK.v), statement by statement. A and B are full matrices (lists of
   columns) whose non-designated triangles hold arbitrary values. Definitions only. *)
Require Import List ZArith.
From SV Require Import Ops LinAlg BK.
Import ListNotations.

Section W.
Variable o : Ops.
Variable alpha : T o.
Notation "x + y" := (add o x y). Notation "x - y" := (sub o x y). Notation "x * y" := (mul o x y).
Notation "- x" := (neg o x).
Notation mat := (mat o). Notation vec := (vec o).

(* (i, j) belongs to the Lower (true) / Upper (false) triangle, diagonal included *)
Definition in_tri (lower : bool) (i j : nat) : bool := if lower then Nat.leb j i else Nat.leb i j.
(* the symmetric matrix that a stored triangle denotes *)
Definition sym_entry (lower : bool) (M : mat) (i j : nat) : T o := if in_tri lower i j then mget o M i j else mget o M j i.

(* "A is dense, B is dense or sparse": mat.triangularView<UploA>() = A;
   mat -= (B * sigma).triangularView<UploA>()  or  mat -= (B * sigma).triangularView<UploB>().transpose();
   entries outside the UploA triangle are never assigned: the model leaves zero there *)
Definition ssi_mat_dense_A (lowerA lowerB : bool) (n : nat) (A B : mat) (sigma : T o) : mat :=
  map (fun j => map (fun i =>
        if in_tri lowerA i j then
          (if Bool.eqb lowerA lowerB then mget o A i j - mget o B i j * sigma else mget o A i j - mget o B j i * sigma)
        else zero o) (seq 0 n)) (seq 0 n).

(* "A is sparse, B is dense": mat.triangularView<UploB>() = -sigma * B;
   mat += A.triangularView<UploB>()  or  mat += A.triangularView<UploA>().transpose() *)
Definition ssi_mat_sparse_A (lowerA lowerB : bool) (n : nat) (A B : mat) (sigma : T o) : mat :=
  map (fun j => map (fun i =>
        if in_tri lowerB i j then
          (if Bool.eqb lowerA lowerB then (- sigma) * mget o B i j + mget o A i j else (- sigma) * mget o B i j + mget o A j i)
        else zero o) (seq 0 n)) (seq 0 n).

(* set_shift + perform_op for the two BKLDLT-backed variants: None = factorization failed (the wrapper throws) *)
Definition ssi_solve (a_dense : bool) (lowerA lowerB : bool) (n : nat) (A B : mat) (sigma : T o) (x : vec) : option vec :=
  let '(m, lower) := if a_dense then (ssi_mat_dense_A lowerA lowerB n A B sigma, lowerA)
                     else (ssi_mat_sparse_A lowerA lowerB n A B sigma, lowerB) in
  let s := bk_compute o alpha n m lower (zero o) in
  if Nat.eqb (info o s) 0 then Some (bk_solve o n s x) else None.

(* DenseSymShiftSolve<double, Uplo>: m_solver.compute(m_mat, Uplo, sigma) *)
Definition dsss_solve (lower : bool) (n : nat) (A : mat) (sigma : T o) (x : vec) : option vec :=
  let s := bk_compute o alpha n A lower sigma in
  if Nat.eqb (info o s) 0 then Some (bk_solve o n s x) else None.
End W.
