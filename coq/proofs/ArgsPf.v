(* C12: accept/reject boundaries of the generated argument checks. *)
Require Import ZArith Lia List Bool ZifyBool.
From SV Require Import Cxx ArgsGen ArgsModel.
Import ListNotations.
Local Open Scope Z_scope.
Ltac Zify.zify_post_hook ::= Z.to_euclidean_division_equations.

Definition rejected_invalid {A} (r : res A) : Prop := exists m, r = Throw "invalid_argument"%string m.

Ltac case_bools :=
  repeat match goal with
  | |- context[if ?b then _ else _] => let E := fresh "E" in destruct b eqn:E
  end.

Theorem herm_ctor_spec n nev ncv :
  (herm_spec n nev ncv = true -> herm_ctor_lvalue n nev ncv = Ok (nev, ncv, 0, 0)) /\
  (herm_spec n nev ncv = false -> rejected_invalid (herm_ctor_lvalue n nev ncv)).
Proof.
  unfold herm_spec, herm_ctor_lvalue, rejected_invalid. cbv zeta.
  split; intros H; case_bools; try lia; try (eexists; reflexivity); repeat f_equal; lia.
Qed.

Theorem herm_ctors_agree n nev ncv : herm_ctor_rvalue n nev ncv = herm_ctor_lvalue n nev ncv.
Proof. reflexivity. Qed.

Theorem gen_ctor_spec n nev ncv :
  (gen_spec n nev ncv = true -> gen_ctor n nev ncv = Ok (nev, ncv, 0, 0)) /\
  (gen_spec n nev ncv = false -> rejected_invalid (gen_ctor n nev ncv)).
Proof.
  unfold gen_spec, gen_ctor, rejected_invalid. cbv zeta.
  split; intros H; case_bools; try lia; try (eexists; reflexivity); repeat f_equal; lia.
Qed.

(* nothing is accepted when n <= 1 (resp. n <= 2) *)
Corollary herm_small_n n nev ncv : n <= 1 -> rejected_invalid (herm_ctor_lvalue n nev ncv).
Proof. intros H. apply herm_ctor_spec. unfold herm_spec. lia. Qed.
Corollary gen_small_n n nev ncv : n <= 2 -> rejected_invalid (gen_ctor n nev ncv).
Proof. intros H. apply gen_ctor_spec. unfold gen_spec. lia. Qed.

Theorem jd_ctor_spec n nev ni nm :
  (jd_spec n nev = false -> rejected_invalid (jd_ctor n nev ni nm)) /\
  (jd_spec n nev = true -> exists mx ini cs, jd_ctor n nev ni nm = Ok (nev, mx, ini, cs) /\
      (0 <= ni -> 0 <= ini /\ 0 <= cs /\ ini + cs <= n) /\ mx <= n).
Proof.
  unfold jd_spec, jd_ctor, jd_ctor_inits, jd_check_argument, jd_initialize, rejected_invalid. cbv zeta.
  split; intros H.
  - case_bools; try lia; eexists; reflexivity.
  - case_bools; try lia; do 3 eexists; (split; [reflexivity|]); split; try lia.
Qed.

Theorem svd_ctor_spec rows cols ncomp ncv :
  (herm_spec (Z.min rows cols) ncomp ncv = true -> svd_ctor rows cols ncomp ncv = Ok (ncomp, ncv, 0, 0)) /\
  (herm_spec (Z.min rows cols) ncomp ncv = false -> rejected_invalid (svd_ctor rows cols ncomp ncv)).
Proof. unfold svd_ctor, svd_dim. apply herm_ctor_spec. Qed.

(* sigma = 0 rejected exactly in buckling and Cayley mode *)
Theorem shift_mode_spec (orc : oracle) :
  shift_mode_check_shiftinvert orc = Ok tt /\
  (orc "sigma == Scalar(0)"%string [] = true -> rejected_invalid (shift_mode_check_buckling orc) /\ rejected_invalid (shift_mode_check_cayley orc)) /\
  (orc "sigma == Scalar(0)"%string [] = false -> shift_mode_check_buckling orc = Ok tt /\ shift_mode_check_cayley orc = Ok tt).
Proof.
  unfold shift_mode_check_shiftinvert, shift_mode_check_buckling, shift_mode_check_cayley, rejected_invalid.
  split; [reflexivity|]. split; intros ->; split; try reflexivity; eexists; reflexivity.
Qed.

(* a zero start vector is rejected before any operator application; otherwise init
   performs exactly two applications and leaves the factorization at step 1 *)
Theorem arnoldi_init_spec (orc : oracle) k c :
  (orc "v0norm < m_near_0"%string [] = true -> rejected_invalid (arnoldi_init_check orc k c)) /\
  (orc "v0norm < m_near_0"%string [] = false -> arnoldi_init_check orc k c = Ok (1, c + 2)).
Proof.
  unfold arnoldi_init_check, rejected_invalid. split; intros ->; [eexists; reflexivity|]. f_equal. f_equal. lia.
Qed.

(* wrappers: the ten with a squareness test accept exactly square shapes; the six products accept all *)
Definition square_test (f : Z -> Z -> res unit) : Prop :=
  forall r c, (r = c -> f r c = Ok tt) /\ (r <> c -> rejected_invalid (f r c)).

Ltac sq f := unfold square_test, rejected_invalid, f; intros r c; cbv zeta;
  destruct (Z.eqb_spec r c); cbn [negb]; split; intros H; try contradiction; try reflexivity;
  try (eexists; reflexivity); try (exfalso; apply H; assumption).

Theorem wrappers_square :
  square_test wrapper_ctor_DenseSymShiftSolve /\ square_test wrapper_ctor_SparseSymShiftSolve /\
  square_test wrapper_ctor_DenseGenRealShiftSolve /\ square_test wrapper_ctor_SparseGenRealShiftSolve /\
  square_test wrapper_ctor_DenseGenComplexShiftSolve /\ square_test wrapper_ctor_SparseGenComplexShiftSolve /\
  square_test wrapper_ctor_DenseCholesky /\ square_test wrapper_ctor_SparseCholesky /\
  square_test wrapper_ctor_SparseRegularInverse.
Proof.
  split; [sq wrapper_ctor_DenseSymShiftSolve|]. split; [sq wrapper_ctor_SparseSymShiftSolve|].
  split; [sq wrapper_ctor_DenseGenRealShiftSolve|]. split; [sq wrapper_ctor_SparseGenRealShiftSolve|].
  split; [sq wrapper_ctor_DenseGenComplexShiftSolve|]. split; [sq wrapper_ctor_SparseGenComplexShiftSolve|].
  split; [sq wrapper_ctor_DenseCholesky|]. split; [sq wrapper_ctor_SparseCholesky|].
  sq wrapper_ctor_SparseRegularInverse.
Qed.

Theorem wrapper_symshiftinvert ar ac br bc :
  (ar = ac /\ ar = br /\ ar = bc -> wrapper_ctor_SymShiftInvert ar ac br bc = Ok tt) /\
  (~ (ar = ac /\ ar = br /\ ar = bc) -> rejected_invalid (wrapper_ctor_SymShiftInvert ar ac br bc)).
Proof.
  unfold wrapper_ctor_SymShiftInvert, rejected_invalid. cbv zeta.
  split; intros H; case_bools; try lia; try reflexivity; eexists; reflexivity.
Qed.

Theorem product_wrappers_accept_all :
  wrapper_ctor_DenseGenMatProd = Ok tt /\ wrapper_ctor_DenseSymMatProd = Ok tt /\ wrapper_ctor_DenseHermMatProd = Ok tt /\
  wrapper_ctor_SparseGenMatProd = Ok tt /\ wrapper_ctor_SparseSymMatProd = Ok tt /\ wrapper_ctor_SparseHermMatProd = Ok tt.
Proof. repeat split. Qed.

(* every exception raised by argument validation is invalid_argument: the only other
   exception types in the library are the ones listed here *)
Definition non_argument_sites : list (string * string) :=
  [("TridiagEigen::compute", "runtime_error"); ("TridiagEigen::eigenvalues", "logic_error");
   ("TridiagEigen::eigenvectors", "logic_error"); ("UpperHessenbergSchur::compute", "runtime_error");
   ("UpperHessenbergSchur::matrix_T", "logic_error"); ("UpperHessenbergSchur::matrix_U", "logic_error");
   ("UpperHessenbergEigen::eigenvalues", "logic_error"); ("UpperHessenbergEigen::eigenvectors", "logic_error");
   ("SparseRegularInverse::solve", "runtime_error"); ("BKLDLT::solve_inplace", "logic_error")]%string.

Definition pair_eqb (a b : string * string) := (String.eqb (fst a) (fst b) && String.eqb (snd a) (snd b))%bool.
Definition site_ok (p : string * string) : bool :=
  String.eqb (snd p) "invalid_argument" || existsb (pair_eqb p) non_argument_sites ||
  (String.eqb (snd p) "logic_error" &&
   (String.prefix "UpperHessenbergQR::" (fst p) || String.prefix "TridiagQR::" (fst p) || String.prefix "DoubleShiftQR::" (fst p))).

Theorem throw_sites_classified : forallb site_ok throw_sites = true.
Proof. vm_compute. reflexivity. Qed.

Theorem no_catch_anywhere : n_catch_or_try = 0.
Proof. reflexivity. Qed.
