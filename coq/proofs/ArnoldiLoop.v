(* C07: the whole loop of Arnoldi::factorize_from on the MODEL (model/Arnoldi.v, tied bit for bit) in exact arithmetic: as long as no step
   enters the breakdown branch, the Arnoldi relation  A v_i = sum_j H(j, i) v_j (+ f for the last column)  holds for EVERY column built so far,
   H is upper Hessenberg, and this is handed from step to step: v_k = f / beta, H(k, k-1) = beta closes the relation of column k - 1. *)
From SV Require Import Cxx Ops LinAlg RngGen Arnoldi.
From mathcomp Require Import all_ssreflect all_algebra.
From mathcomp Require Import ring zify.
From SV Require Import OpsF ArnoldiPf.
Set Implicit Arguments. Unset Strict Implicit. Unset Printing Implicit Defensive.
Import Order.Theory GRing.Theory Num.Theory.
Local Open Scope ring_scope.

Section L.
Variable F : rcfType.
Notation O := (OpsF F).
Variables (near0 eps l717 : F) (Arows : seq (seq F)) (n m : nat) (bt : F).
Hypothesis near0_pos : 0 < near0.
Hypothesis sA : size Arows = n.
Notation fac := (fac O).
Notation step := (arnoldi_step O near0 eps l717 Arows n m bt).

Definition Av (Fc : fac) (i r : nat) : F := nth 0 (apply_op O Arows (nth [::] (fV O Fc) i)) r.
Definition Hc (Fc : fac) (i j : nat) : F := nth 0 (nth [::] (fH O Fc) i) j.      (* H(j, i): column i, row j *)
Definition Vr (Fc : fac) (j r : nat) : F := nth 0 (nth [::] (fV O Fc) j) r.

Definition wfF (Fc : fac) : Prop :=
  [/\ size (fV O Fc) = m, forall j, (j < m)%N -> size (nth [::] (fV O Fc) j) = n,
      size (fH O Fc) = m, forall j, (j < m)%N -> size (nth [::] (fH O Fc) j) = m & size (ff O Fc) = n].

(* k columns built; f is the residual of column k - 1 *)
Definition Inv (k : nat) (Fc : fac) : Prop :=
  [/\ wfF Fc,
      forall i, (i.+1 < k)%N -> forall r, (r < n)%N -> Av Fc i r = \sum_(0 <= j < k) Hc Fc i j * Vr Fc j r,
      forall r, (r < n)%N -> Av Fc k.-1 r = \sum_(0 <= j < k) Hc Fc k.-1 j * Vr Fc j r + nth 0 (ff O Fc) r &
      forall i j, (i < k)%N -> (i.+1 < j < m)%N -> Hc Fc i j = 0].

Lemma nth_mapi_g A B k (g : nat -> A -> B) l j d d' : (j < size l)%N -> nth d' (mapi_from k g l) j = g (k + j)%N (nth d l j).
Proof. by elim: l k j => [|x l IH] k [|j] //=; rewrite ?addn0 // ltnS => /IH ->; rewrite addSnnS. Qed.
Lemma nth_mset (M : seq (seq F)) a b x i j : size M = m -> (forall c, (c < m)%N -> size (nth [::] M c) = m) -> (i < m)%N -> (j < m)%N -> (a < m)%N ->
  nth 0 (nth [::] (mset O M a b x) i) j = if (i == b) && (j == a) then x else nth 0 (nth [::] M i) j.
Proof.
move=> sM sc im jm am; rewrite /mset /mapi (@nth_mapi_g _ _ 0 _ M i [::] [::]) ?sM // add0n eqbE.
case: (i =P b) => _ //=.
have := sc i im; move: am jm; elim: (nth [::] M i) a j (m) => [|y v IH] a j mm /= am jm sv; first by lia.
by case: a j am jm => [|a] [|j] //= am jm; apply: (IH a j mm.-1); lia.
Qed.

Lemma arn_reorth_sizes fuel (Vs : seq (seq F)) i1 : forall f h beta Vf err,
  (forall j, (j < size Vs)%N -> size (nth [::] Vs j) = n) -> size Vs = i1 -> size f = n -> size h = i1 -> size Vf = i1 ->
  let '(f', h', beta') := arn_reorth O eps fuel n Vs i1 bt f h beta Vf err in size f' = n /\ size h' = i1.
Proof.
elim: fuel => [|fuel IH] f h beta Vf err sz sV sf sh sVf //=.
case: ifP => _ //; case: ifP => _; first by rewrite repeatE size_nseq.
have sl : size (lincomb O n Vs Vf) = n by rewrite /lincomb size_lincomb_from repeatE size_nseq.
apply: IH => //.
- by rewrite /vsub2 combineE size_map size_zip sf sl minnn.
- by rewrite combineE size_map size_zip sh sVf minnn.
- by rewrite /adjoint_product mapE size_map firstnE size_take sV ltnn.
Qed.

Lemma size_mset (M : seq (seq F)) a b x : size (mset O M a b x) = size M.
Proof. by rewrite /mset /mapi size_mapi_from'. Qed.
Lemma size_vset_l (v : seq F) i x : size (vset O v i x) = size v.
Proof. by elim: v i => [|y v IH] [|i] //=; rewrite IH. Qed.
Lemma size_col_mset (M : seq (seq F)) a b x i : (i < size M)%N -> size (nth [::] (mset O M a b x) i) = size (nth [::] M i).
Proof. by move=> h; rewrite /mset /mapi (@nth_mapi_g _ _ 0 _ M i [::] [::]) //; case: ifP => _ //; rewrite size_vset_l. Qed.

(* one step that does not start from a breakdown: what it writes *)
Lemma step_struct k Fc cnt : (0 < k < m)%N -> wfF Fc -> Ops.ltb O (fbeta O Fc) near0 = false ->
  let F' := (step k (Fc, cnt)).1 in
  let beta := fbeta O Fc in
  [/\ wfF F',
      fV O F' = msetcol O (fV O Fc) k (vdivs O (ff O Fc) beta),
      forall i, (i < m)%N -> i != k -> nth [::] (fH O F') i = nth [::] (mset O (fH O Fc) k (k - 1)%coq_nat beta) i &
      exists h2, size h2 = k.+1 /\ nth [::] (fH O F') k = pad O m h2].
Proof.
move=> /andP[k0 km] [sV scV sH scH sf] nb.
rewrite /arnoldi_step nb; cbv iota beta.
set v := vdivs O (ff O Fc) (fbeta O Fc). set V := set_col O (fV O Fc) k v.
set w := apply_op O Arows v.
set H1 := mset O (fH O Fc) k (k - 1)%coq_nat (fbeta O Fc).
set Vs := List.firstn k.+1 V. set h := adjoint_product O V k.+1 w.
have sv : size v = n by rewrite /v /vdivs mapE size_map.
have sVv : size V = m by rewrite /V /set_col size_msetcol.
have nV j : (j < m)%N -> nth [::] V j = if j == k then v else nth [::] (fV O Fc) j.
  by move=> jm; rewrite /V /set_col nth_msetcol ?sV.
have eVs : Vs = take k.+1 V by rewrite /Vs firstnE.
have sVs : size Vs = k.+1 by rewrite eVs size_take sVv; case: ltnP => //; lia.
have szVs : forall j, (j < size Vs)%N -> size (nth [::] Vs j) = n.
  move=> j; rewrite sVs => ji; rewrite eVs nth_take // nV; last by lia.
  by case: eqP => // _; apply: scV; lia.
have sw : size w = n by rewrite /w /apply_op mapE size_map.
have sh : size h = k.+1 by rewrite /h /adjoint_product mapE size_map firstnE size_take sVv; case: ltnP => //; lia.
have sl : size (lincomb O n Vs h) = n by rewrite /lincomb size_lincomb_from repeatE size_nseq.
have sf0 : size (vsub2 O w (lincomb O n Vs h)) = n by rewrite /vsub2 combineE size_map size_zip sw sl minnn.
have sVf : size (adjoint_product O V k.+1 (vsub2 O w (lincomb O n Vs h))) = k.+1.
  by rewrite /adjoint_product mapE size_map firstnE size_take sVv; case: ltnP => //; lia.
case E: (if Ops.ltb O _ _ then _ else _) => [[f2 h2] beta2] /=.
have [sf2 sh2] : size f2 = n /\ size h2 = k.+1.
  move: E; case: ifP => _; first by case=> <- <- _.
  move=> E; have := @arn_reorth_sizes 5 Vs k.+1 _ _ (norm O (vsub2 O w (lincomb O n Vs h))) _ (maxabs O (adjoint_product O V k.+1 (vsub2 O w (lincomb O n Vs h)))) szVs sVs sf0 sh sVf.
  by rewrite E.
have sH1 : size H1 = m by rewrite /H1 size_mset.
have sp : size (pad O m h2) = m by rewrite /pad appE size_cat repeatE size_nseq lengthE sh2; lia.
split.
- split=> //=.
  + by move=> j jm; rewrite nV //; case: eqP => // _; exact: scV.
  + by rewrite /set_col size_msetcol.
  + move=> j jm; rewrite /set_col nth_msetcol ?sH1 //; case: eqP => // _.
    by rewrite /H1 size_col_mset ?sH // scH.
- by [].
- by move=> i im /negbTE ik /=; rewrite /set_col nth_msetcol ?sH1 // ik.
- by exists h2; split=> //=; rewrite /set_col nth_msetcol ?sH1 // eqxx.
Qed.

Definition InvW (k : nat) (Fc : fac) : Prop :=
  [/\ wfF Fc,
      forall i, (i.+1 < k)%N -> forall r, (r < n)%N -> Av Fc i r = \sum_(0 <= j < k) Hc Fc i j * Vr Fc j r &
      forall i j, (i < k)%N -> (i.+1 < j < m)%N -> Hc Fc i j = 0].
Definition R2 (k : nat) (Fc : fac) : Prop :=
  forall r, (r < n)%N -> Av Fc k.-1 r = \sum_(0 <= j < k) Hc Fc k.-1 j * Vr Fc j r + nth 0 (ff O Fc) r.
Definition dropped (Fc : fac) : Prop := ff O Fc = nseq n 0 /\ fbeta O Fc = 0.

Lemma Inv_step k Fc cnt : (0 < k < m)%N -> InvW k Fc -> R2 k Fc -> Ops.ltb O (fbeta O Fc) near0 = false ->
  let F' := (step k (Fc, cnt)).1 in InvW k.+1 F' /\ (R2 k.+1 F' \/ dropped F').
Proof.
move=> km [w r1 z] r2 nb.
have /andP[k0 km'] := km.
have [w' eV eH [h2 [sh2 eHk]]] := @step_struct k Fc cnt km w nb.
have [sV scV sH scH sf] := w; have [sV' scV' sH' scH' sf'] := w'.
have bpos : fbeta O Fc != 0.
  by move: nb => /= /negbT; rewrite -leNgt => h; rewrite gt_eqF //; exact: lt_le_trans near0_pos h.
set F' := (step k (Fc, cnt)).1 in w' eV eH eHk sV' scV' sH' scH' sf' *.
have vr j r : (j < m)%N -> Vr F' j r = if j == k then nth 0 (ff O Fc) r / fbeta O Fc else Vr Fc j r.
  move=> jm; rewrite /Vr eV nth_msetcol ?sV //; case: eqP => // _.
  rewrite /vdivs mapE; case: (ltnP r (size (ff O Fc))) => h; first by rewrite (nth_map 0).
  by rewrite !nth_default ?size_map // mul0r.
have hc i j : (i < m)%N -> i != k -> (j < m)%N -> Hc F' i j = if (i == (k - 1)%coq_nat) && (j == k) then fbeta O Fc else Hc Fc i j.
  by move=> im ik jm; rewrite /Hc eH // nth_mset.
have av i r : (i < m)%N -> i != k -> Av F' i r = Av Fc i r.
  by move=> im /negbTE ik; rewrite /Av eV nth_msetcol ?sV // ik.
split; last first.
- have := @arnoldi_step_column F near0 eps l717 Arows n m bt k Fc cnt sA km' sV scV sH.
  rewrite -/F'; case E: (step k (Fc, cnt)) => [F'' cnt'] /=.
  have eF : F'' = F' by rewrite /F' E.
  rewrite eF => /(_ (scV' k km')) [[d1 d2]|kr]; first by right.
  left=> r rn; rewrite /Av /= -(kr r rn) /comb.
  have -> : size (take k.+1 (fV O F')) = k.+1 by rewrite size_take sV'; case: ltnP => //; lia.
  have -> : size (take k.+1 (nth [::] (fH O F') k)) = k.+1 by rewrite size_take scH' //; case: ltnP => //; lia.
  rewrite minnn; congr (_ + _).
  apply: eq_big_nat => j /andP[_ jk].
  by rewrite /Hc /Vr eHk !nth_take.
split=> //.
- move=> i ik r rn; rewrite big_nat_recr //= av; [|lia|lia].
  rewrite vr // eqxx.
  have -> : \sum_(0 <= j < k) Hc F' i j * Vr F' j r = \sum_(0 <= j < k) Hc Fc i j * Vr Fc j r.
    apply: eq_big_nat => j /andP[_ jk].
    rewrite hc; [|lia|lia|lia]. rewrite vr; last by lia.
    have -> : (j == k) = false by lia.
    by rewrite andbF.
  rewrite hc; [|lia|lia|lia]. rewrite eqxx andbT.
  case: (i =P (k - 1)%coq_nat) => [e|ne].
  + have -> : i = k.-1 by lia.
    rewrite (r2 r rn) mulrC divfK //.
  + rewrite z ?mul0r ?addr0 ?r1 //; lia.
- move=> i j ik /andP[ij jm].
  case: (i =P k) => [e|ne].
  + rewrite /Hc e eHk /pad appE nth_cat sh2.
    have -> : (j < k.+1)%N = false by lia.
    by rewrite repeatE nth_nseq; case: ifP.
  + rewrite hc; [|lia|lia|lia].
    have -> : (i == (k - 1)%coq_nat) && (j == k) = false by lia.
    by apply: z; lia.
Qed.

Local Arguments arnoldi_step : simpl never.
(* no step of the run starts from a breakdown (residual norm below near_0) *)
Fixpoint nb_run (l : list nat) (st : fac * nat) : bool :=
  if l is i :: l' then ~~ Ops.ltb O (fbeta O st.1) near0 && nb_run l' (step i st) else true.

Theorem loop_relation len : forall k0 st, (0 < k0)%N -> (k0 + len <= m)%N -> InvW k0 st.1 -> R2 k0 st.1 ->
  nb_run (List.seq k0 len) st ->
  let F' := (List.fold_left (fun st i => step i st) (List.seq k0 len) st).1 in
  InvW (k0 + len) F' /\ (R2 (k0 + len) F' \/ dropped F').
Proof.
elim: len => [|len IH] k0 st k00 km iw r2 /=; first by rewrite addn0; split=> //; left.
case: st iw r2 => Fc cnt /= iw r2 /andP[/negbTE nb rest].
have km' : (0 < k0 < m)%N by lia.
have [iw1 r21] := @Inv_step k0 Fc cnt km' iw r2 nb.
rewrite addnS -addSn.
case: len IH km rest => [|len] IH km rest.
  by rewrite /= addn0.
apply: IH => //; first by lia.
case: r21 => // -[_ d2].
move: rest => /= /andP[/negbTE nb1 _].
by move: nb1; rewrite d2 /= near0_pos.
Qed.

(* ---- factorize_from: zero_from, the loop, the bookkeeping of k *)
Lemma nth_mapi_col (M : seq (seq F)) (g : nat -> seq F -> seq F) i : (i < size M)%N -> nth [::] (mapi g M) i = g i (nth [::] M i).
Proof. by move=> h; rewrite /mapi (@nth_mapi_g _ _ 0 _ M i [::] [::]). Qed.

Lemma Hc_zero_from k Fc Fz : wfF Fc -> fV O Fz = fV O Fc -> fH O Fz = zero_from O m k (fH O Fc) -> ff O Fz = ff O Fc ->
  wfF Fz /\ forall i j, (i < m)%N -> (j < m)%N -> Hc Fz i j = if (k <= i)%N || (k <= j)%N then 0 else Hc Fc i j.
Proof.
move=> [sV scV sH scH sf] eV eH ef.
have col i : (i < m)%N -> nth [::] (fH O Fz) i = if (k <= i)%N then nseq m 0 else mapi (fun j x => if PeanoNat.Nat.leb k j then 0 else x) (nth [::] (fH O Fc) i).
  move=> im; rewrite eH /zero_from nth_mapi_col ?sH //.
  by case: (PeanoNat.Nat.leb_spec k i) => [/ssrnat.leP ->|/ssrnat.ltP h]; rewrite ?repeatE //; have -> : (k <= i)%N = false by lia.
split.
- split; rewrite ?eV ?ef //.
  + by rewrite eH /zero_from /mapi size_mapi_from'.
  + by move=> j jm; rewrite col //; case: ifP => _; rewrite ?size_nseq // /mapi size_mapi_from' scH.
- move=> i j im jm; rewrite /Hc col //; case: (leqP k i) => ki /=; first by rewrite nth_nseq jm.
  rewrite /mapi (@nth_mapi_g _ _ 0 _ _ j 0 0) ?scH // add0n.
  by case: (PeanoNat.Nat.leb_spec k j) => [/ssrnat.leP ->|/ssrnat.ltP h] //; have -> : (k <= j)%N = false by lia.
Qed.

Theorem factorize_relation from_k to_m Fc cnt : bt = Ops.mul O eps (Ops.sqrt O (of_Z O (BinInt.Z.of_nat n))) -> (0 < from_k)%N -> (from_k < to_m <= m)%N -> (from_k <= fk O Fc)%N ->
  InvW from_k Fc -> R2 from_k Fc ->
  let Fz := {| fV := fV O Fc; fH := zero_from O m from_k (fH O Fc); ff := ff O Fc; fbeta := fbeta O Fc; fk := fk O Fc |} in
  nb_run (List.seq from_k (to_m - from_k)) (Fz, cnt) ->
  exists F' cnt', [/\ arnoldi_factorize_from_k O near0 eps l717 Arows n m from_k to_m (Fc, cnt) = @Done _ (F', cnt'),
                     fk O F' = to_m, InvW to_m F' & R2 to_m F' \/ dropped F'].
Proof.
move=> ebt k0 /andP[kt tm] kf [w r1 z] r2 Fz nb.
rewrite /arnoldi_factorize_from_k -ebt.
have -> : PeanoNat.Nat.leb to_m from_k = false by apply/PeanoNat.Nat.leb_gt/ssrnat.ltP.
have -> : PeanoNat.Nat.ltb (fk O Fc) from_k = false by rewrite ltbE; lia.
have [wz hz] := @Hc_zero_from from_k Fc Fz w erefl erefl erefl.
have iwz : InvW from_k Fz.
  split=> //.
  - move=> i ik r rn; rewrite (_ : Av Fz i r = Av Fc i r) // r1 //.
    apply: eq_big_nat => j /andP[_ jk]; rewrite hz; [|lia|lia].
    by have -> : (from_k <= i)%N || (from_k <= j)%N = false by lia.
  - move=> i j ik /andP[ij jm]; rewrite hz; [|lia|lia].
    by case: ifP => // _; apply: z => //; rewrite ij jm.
have r2z : R2 from_k Fz.
  move=> r rn; rewrite (_ : Av Fz from_k.-1 r = Av Fc from_k.-1 r) // r2 //; congr (_ + _).
  apply: eq_big_nat => j /andP[_ jk]; rewrite hz; [|lia|lia].
  by have -> : (from_k <= from_k.-1)%N || (from_k <= j)%N = false by lia.
have km : (from_k + (to_m - from_k) <= m)%N by lia.
have := @loop_relation (to_m - from_k) from_k (Fz, cnt) k0 km iwz r2z nb.
have -> : (from_k + (to_m - from_k) = to_m)%N by lia.
rewrite -/Fz; case: (List.fold_left _ _ _) => F1 cnt1 /= [iw1 r21].
exists {| fV := fV O F1; fH := fH O F1; ff := ff O F1; fbeta := fbeta O F1; fk := to_m |}, cnt1; split=> //.
Qed.

(* Arnoldi::init: one column, A v_0 = H(0,0) v_0 + f (or the residual was negligible and dropped) *)
Theorem init_relation (v0 : seq F) Fc cnt : (0 < m)%N -> init O near0 eps Arows n m v0 = @Done _ (Fc, cnt) ->
  InvW 1 Fc /\ (R2 1 Fc \/ dropped Fc).
Proof.
move=> m0; rewrite /init; case: ifP => // _.
set v := vdivs O _ _; set w := apply_op O Arows v; set h00 := dot O v w.
have sv : size v = n by rewrite /v /vdivs mapE size_map /apply_op mapE size_map.
have sw : size w = n by rewrite /w /apply_op mapE size_map.
set f0 := List.map _ (List.combine w v).
have sf0 : size f0 = n by rewrite /f0 mapE size_map combineE size_zip sw sv minnn.
case E: (if Ops.ltb O _ _ then _ else _) => [f beta] [<- _] {Fc cnt}.
have sf : size f = n by move: E; case: ifP => _ [<- _] //; rewrite repeatE size_nseq.
set Fc := Build_fac _ _ _ _ _ _.
have eV0 : nth [::] (fV O Fc) 0 = v by [].
have eH j : (j < m)%N -> Hc Fc 0 j = if j == 0%N then h00 else 0.
  move=> jm; rewrite /Hc /= nth_mset ?repeatE ?size_nseq //; last by move=> c cm; rewrite nth_nseq cm size_nseq.
  by rewrite eqxx /= nth_nseq m0 nth_nseq jm; case: eqP.
have w_ : wfF Fc.
  split=> //=.
  - by rewrite repeatE size_nseq; lia.
  - move=> [|j] jm //=; rewrite !repeatE nth_nseq.
    have -> : (j < m - 1)%N by rewrite -/(subn m 1); lia.
    by rewrite size_nseq.
  - by rewrite size_mset repeatE size_nseq.
  - by move=> j jm; rewrite size_col_mset !repeatE ?size_nseq // nth_nseq jm size_nseq.
split.
- split=> // i j; rewrite ltnS leqn0 => /eqP -> /andP[j1 jm].
  by rewrite eH //; case: eqP => // e; rewrite e in j1.
- move: E; case: ifP => _ [ef eb]; first by right; split; rewrite /Fc /= -?ef -?eb ?repeatE.
  left=> r rn; rewrite /R2 /= big_nat1 eH // eqxx /Av /Vr eV0 -/w /= -ef /f0 mapE combineE.
  rewrite (nth_map (0, 0)) ?size_zip ?sw ?sv ?minnn // nth_zip ?sw ?sv //=.
  by rewrite [h00 * _]mulrC addrC subrK.
Qed.
End L.
