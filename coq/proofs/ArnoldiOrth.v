(* C07: orthonormality on the MODEL of Arnoldi::factorize_from in exact arithmetic: started from an orthonormal basis with a residual
   orthogonal to it (and beta = |f|), every step that does not start from a breakdown keeps V' V = I, V' f = 0, beta = |f| - the classical
   Gram-Schmidt step is exact, so the re-orthogonalisation loop of the model makes no pass and never drops the residual. *)
From SV Require Import Cxx Ops LinAlg RngGen Arnoldi.
From mathcomp Require Import all_ssreflect all_algebra.
From mathcomp Require Import ring zify.
From SV Require Import OpsF ArnoldiPf ArnoldiLoop.
Set Implicit Arguments. Unset Strict Implicit. Unset Printing Implicit Defensive.
Import Order.Theory GRing.Theory Num.Theory.
Local Open Scope ring_scope.

Section D.
Variable F : rcfType.
Notation O := (OpsF F).
Implicit Types (x y : seq F).

Lemma dot_fromE acc x y : size x = size y -> dot_from O acc x y = acc + \sum_(0 <= r < size x) nth 0 x r * nth 0 y r.
Proof.
elim: x y acc => [|a x IH] [|b y] acc //=.
- by move=> _; rewrite big_geq // addr0.
- by move=> [sxy]; rewrite IH // big_nat_recl //= addrA.
Qed.
Lemma dotE x y : size x = size y -> dot O x y = \sum_(0 <= r < size x) nth 0 x r * nth 0 y r.
Proof.
case: x y => [|a x] [|b y] //=.
- by move=> _; rewrite big_geq.
- by move=> [sxy]; rewrite dot_fromE // big_nat_recl.
Qed.
Lemma dot0E x y : size x = size y -> dot0 O x y = \sum_(0 <= r < size x) nth 0 x r * nth 0 y r.
Proof. by move=> h; rewrite /dot0 dot_fromE // add0r. Qed.
Lemma dot_ge0 x : 0 <= dot O x x.
Proof. by rewrite dotE //; apply: sumr_ge0 => r _; rewrite -expr2 sqr_ge0. Qed.
Lemma norm_sq x : norm O x ^+ 2 = dot O x x.
Proof. by rewrite /norm /= sqr_sqrtr // dot_ge0. Qed.
Lemma norm_ge0 x : 0 <= norm O x. Proof. by rewrite /norm /= sqrtr_ge0. Qed.

Lemma maxabs_from_zero (acc : F) l : 0 <= acc -> (forall j, (j < size l)%N -> nth 0 l j = 0) -> maxabs_from O acc l = acc.
Proof.
elim: l acc => [|a l IH] acc a0 h //=.
have -> : a = 0 by exact: (h 0%N).
rewrite normr0 ltNge a0 /=; apply: IH => // j jl; exact: (h j.+1).
Qed.
Lemma maxabs_zero l : (forall j, (j < size l)%N -> nth 0 l j = 0) -> maxabs O l = 0.
Proof.
case: l => [|a l] h //=; have e : a = 0 by exact: (h 0%N).
by rewrite e normr0 maxabs_from_zero // => j jl; exact: (h j.+1).
Qed.
End D.

Section O.
Variable F : rcfType.
Notation O := (OpsF F).
Variables (near0 eps l717 : F) (Arows : seq (seq F)) (n m : nat) (bt : F).
Hypothesis near0_pos : 0 < near0.
Hypothesis eps_ge0 : 0 <= eps.
Hypothesis sA : size Arows = n.
Notation fac := (fac O).
Notation step := (arnoldi_step O near0 eps l717 Arows n m bt).
Notation wfF := (wfF n m).

Definition Orth (k : nat) (Fc : fac) : Prop :=
  forall i j, (i < k)%N -> (j < k)%N -> dot O (nth [::] (fV O Fc) i) (nth [::] (fV O Fc) j) = (i == j)%:R.
Definition Fperp (k : nat) (Fc : fac) : Prop := forall j, (j < k)%N -> dot O (nth [::] (fV O Fc) j) (ff O Fc) = 0.
Definition Bnorm (Fc : fac) : Prop := fbeta O Fc = norm O (ff O Fc).

Lemma dotC (x y : seq F) : size x = size y -> dot O x y = dot O y x.
Proof. by move=> h; rewrite !dotE // -h; apply: eq_big_nat => r _; rewrite mulrC. Qed.

(* classical Gram-Schmidt against an orthonormal family is exact *)
Lemma gs_orth (Vs : seq (seq F)) (w : seq F) : (forall j, (j < size Vs)%N -> size (nth [::] Vs j) = n) -> size w = n ->
  (forall i j, (i < size Vs)%N -> (j < size Vs)%N -> dot O (nth [::] Vs i) (nth [::] Vs j) = (i == j)%:R) ->
  let h := [seq dot0 O c w | c <- Vs] in
  forall i, (i < size Vs)%N -> dot O (nth [::] Vs i) (vsub2 O w (lincomb O n Vs h)) = 0.
Proof.
move=> sz sw orth h i ik.
have sh : size h = size Vs by rewrite /h size_map.
have sl : size (lincomb O n Vs h) = n by rewrite /lincomb size_lincomb_from repeatE size_nseq.
have sf : size (vsub2 O w (lincomb O n Vs h)) = n by rewrite /vsub2 combineE size_map size_zip sw sl minnn.
rewrite dotE ?sz ?sf //.
have fr r : (r < n)%N -> nth 0 (vsub2 O w (lincomb O n Vs h)) r = nth 0 w r - \sum_(0 <= j < size Vs) nth 0 h j * nth 0 (nth [::] Vs j) r.
  move=> rn; rewrite /vsub2 combineE (nth_map (0, 0)) ?size_zip ?sw ?sl ?minnn // nth_zip ?sw ?sl //= nth_lincomb //.
  by rewrite /comb sh minnn.
rewrite (eq_big_nat _ _ (F2 := fun r => nth 0 (nth [::] Vs i) r * nth 0 w r - \sum_(0 <= j < size Vs) nth 0 h j * (nth 0 (nth [::] Vs i) r * nth 0 (nth [::] Vs j) r))); last first.
  move=> r /andP[_ rn]; rewrite fr // mulrBr big_distrr /=; congr (_ - _).
  by apply: eq_big_nat => j _; rewrite mulrCA.
rewrite sumrB exchange_big /=.
have hi : nth 0 h i = \sum_(0 <= r < n) nth 0 (nth [::] Vs i) r * nth 0 w r.
  by rewrite /h (nth_map [::]) // dot0E ?sz ?sw.
rewrite -hi.
rewrite (eq_big_nat _ _ (F2 := fun j => nth 0 h j * (i == j)%:R)); last first.
  by move=> j /andP[_ jk]; rewrite -mulr_sumr -(orth i j) // dotE ?sz.
rewrite (big_cat_nat _ _ _ (leq0n i) (ltnW ik)) /= (big_ltn ik) eqxx mulr1.
rewrite !big1_seq ?addr0 ?add0r ?subrr // => j; rewrite mem_index_iota => /andP[_ /andP[a b]].
- have -> : (i == j) = false by lia.
  by rewrite mulr0.
- have -> : (i == j) = false by lia.
  by rewrite mulr0.
Qed.

Lemma nth_vdivs (f : seq F) (b : F) r : nth 0 (vdivs O f b) r = nth 0 f r / b.
Proof.
rewrite /vdivs mapE; case: (ltnP r (size f)) => h; first by rewrite (nth_map 0).
by rewrite !nth_default ?size_map // mul0r.
Qed.

Lemma step_orth k Fc cnt : (0 < k < m)%N -> wfF Fc -> Orth k Fc -> Fperp k Fc -> Bnorm Fc -> Ops.ltb O (fbeta O Fc) near0 = false ->
  let F' := (step k (Fc, cnt)).1 in [/\ Orth k.+1 F', Fperp k.+1 F', Bnorm F' & R2 Arows n k.+1 F'].
Proof.
move=> /andP[k0 km] [sV scV sH scH sf] orth fperp bn nb.
have bpos : 0 < fbeta O Fc by move: nb => /= /negbT; rewrite -leNgt; exact: lt_le_trans.
have bne : fbeta O Fc != 0 by rewrite gt_eqF.
have bsq : fbeta O Fc ^+ 2 = dot O (ff O Fc) (ff O Fc) by rewrite bn norm_sq.
rewrite /arnoldi_step nb; cbv iota beta.
set v := vdivs O (ff O Fc) (fbeta O Fc). set V := set_col O (fV O Fc) k v.
set w := apply_op O Arows v.
set H1 := mset O (fH O Fc) k (k - 1)%coq_nat (fbeta O Fc).
set Vs := List.firstn k.+1 V. set h := adjoint_product O V k.+1 w.
have sv : size v = n by rewrite /v /vdivs mapE size_map.
have sVv : size V = m by rewrite /V /set_col size_msetcol.
have nV j : (j < m)%N -> nth [::] V j = if j == k then v else nth [::] (fV O Fc) j.
  by move=> jm; rewrite /V /set_col nth_msetcol ?sV.
have eVs : Vs = take k.+1 V by rewrite /Vs firstnE.
have sVs : size Vs = k.+1 by rewrite eVs size_take sVv; case: ltnP => //; lia.
have nVs j : (j < k.+1)%N -> nth [::] Vs j = if j == k then v else nth [::] (fV O Fc) j.
  by move=> jk; rewrite eVs nth_take // nV //; lia.
have szVs : forall j, (j < size Vs)%N -> size (nth [::] Vs j) = n.
  by move=> j; rewrite sVs => ji; rewrite nVs //; case: eqP => // _; apply: scV; lia.
have sw : size w = n by rewrite /w /apply_op mapE size_map.
have eh : h = [seq dot0 O c w | c <- Vs] by rewrite /h /adjoint_product mapE.
have sh : size h = k.+1 by rewrite eh size_map.
(* the extended basis is orthonormal *)
have dvf j : (j < k)%N -> dot O (nth [::] (fV O Fc) j) v = 0.
  move=> jk; have jm : (j < m)%N by lia.
  have sj := scV j jm.
  rewrite dotE ?sj ?sv //.
  rewrite (eq_big_nat _ _ (F2 := fun r => nth 0 (nth [::] (fV O Fc) j) r * nth 0 (ff O Fc) r / fbeta O Fc)); last first.
    by move=> r _; rewrite /v nth_vdivs mulrA.
  by rewrite -mulr_suml -{1}sj -dotE ?sj ?sf // fperp // mul0r.
have dvv : dot O v v = 1.
  rewrite dotE // sv (eq_big_nat _ _ (F2 := fun r => nth 0 (ff O Fc) r * nth 0 (ff O Fc) r / fbeta O Fc ^+ 2)); last first.
    by move=> r _; rewrite /v !nth_vdivs expr2; field.
  by rewrite -mulr_suml -sf -dotE // -bsq divff // expf_neq0.
have orthV i j : (i < size Vs)%N -> (j < size Vs)%N -> dot O (nth [::] Vs i) (nth [::] Vs j) = (i == j)%:R.
  rewrite sVs => ik jk; rewrite !nVs //.
  case: (eqVneq i k) => [ei|ni]; case: (eqVneq j k) => [ej|nj].
  - by rewrite ei ej eqxx.
  - have jk' : (j < k)%N by lia.
    rewrite dotC ?sv ?scV ?dvf //; last by lia.
    by rewrite ei; have -> : (k == j) = false by lia.
  - have ik' : (i < k)%N by lia.
    by rewrite dvf // ej; have -> : (i == k) = false by lia.
  - by apply: orth; lia.
set f1 := vsub2 O w (lincomb O n Vs h).
have perp1 i : (i < k.+1)%N -> dot O (nth [::] Vs i) f1 = 0.
  by move=> ik; rewrite /f1 eh; apply: gs_orth => //; rewrite sVs.
have sl : size (lincomb O n Vs h) = n by rewrite /lincomb size_lincomb_from repeatE size_nseq.
have sf1 : size f1 = n by rewrite /f1 /vsub2 combineE size_map size_zip sw sl minnn.
(* the re-orthogonalisation makes no pass *)
have vf0 : maxabs O (adjoint_product O V k.+1 f1) = 0.
  apply: maxabs_zero => j; rewrite /adjoint_product mapE size_map firstnE -eVs sVs => jk.
  by rewrite (nth_map [::]) ?sVs // dot0E ?szVs ?sVs ?sf1 // -(szVs j) ?sVs // -dotE ?szVs ?sVs ?sf1 // perp1.
have E : (if Ops.ltb O (Ops.mul O l717 (norm O h)) (norm O f1) then (f1, h, norm O f1)
          else arn_reorth O eps 5 n Vs k.+1 bt f1 h (norm O f1) (adjoint_product O V k.+1 f1) (maxabs O (adjoint_product O V k.+1 f1))) = (f1, h, norm O f1).
  case: ifP => _ //; rewrite vf0 /=.
  by have -> : (eps * norm O f1 < 0) = false by apply/negbTE; rewrite -leNgt mulr_ge0 // norm_ge0.
rewrite -/f1 E /=.
have sH1 : size H1 = m by rewrite /H1 size_mset.
split.
- by move=> i j ik jk /=; have := orthV i j; rewrite sVs => /(_ ik jk); rewrite eVs !nth_take.
- by move=> j jk /=; have := perp1 j jk; rewrite eVs nth_take.
- by [].
- move=> r rn; rewrite /R2 /Av /Hc /Vr /= nV // eqxx -/w.
  have -> : nth [::] (set_col O H1 k (pad O m h)) k = pad O m h by rewrite /set_col nth_msetcol ?sH1 // eqxx.
  have rel := @gs_relation F n Vs w h r szVs sw rn.
  rewrite -/f1 in rel; rewrite -rel; congr (_ + _).
  rewrite /comb sVs sh minnn; apply: eq_big_nat => j /andP[_ jk].
  by rewrite /pad appE nth_cat sh jk eVs nth_take.
Qed.

Local Arguments arnoldi_step : simpl never.
(* the complete Krylov invariant of k columns:  A V_k = V_k H_k + f e_k' with H_k upper Hessenberg,  V_k' V_k = I,  V_k' f = 0,  beta = |f| *)
Definition Full (k : nat) (Fc : fac) : Prop :=
  [/\ InvW Arows n m k Fc, R2 Arows n k Fc \/ dropped n Fc, Orth k Fc, Fperp k Fc & Bnorm Fc].

Theorem loop_full len : forall k0 st, (0 < k0)%N -> (k0 + len <= m)%N -> Full k0 st.1 ->
  nb_run near0 eps l717 Arows n m bt (List.seq k0 len) st ->
  Full (k0 + len) (List.fold_left (fun st i => step i st) (List.seq k0 len) st).1.
Proof.
elim: len => [|len IH] k0 st k00 km fu /=; first by rewrite addn0.
case: st fu => Fc cnt /= [iw r2d ort fp bn] /andP[/negbTE nb rest].
have r2 : R2 Arows n k0 Fc by case: r2d => // -[_ d2]; move: nb; rewrite d2 /= near0_pos.
have km' : (0 < k0 < m)%N by lia.
have [iw1 _] := @Inv_step F near0 eps l717 Arows n m bt near0_pos sA k0 Fc cnt km' iw r2 nb.
have [w _ _] := iw.
have [ort1 fp1 bn1 r21] := @step_orth k0 Fc cnt km' w ort fp bn nb.
rewrite addnS -addSn; apply: IH => //; first by lia.
by split=> //; left.
Qed.

Theorem factorize_full from_k to_m Fc cnt : bt = Ops.mul O eps (Ops.sqrt O (of_Z O (BinInt.Z.of_nat n))) ->
  (0 < from_k)%N -> (from_k < to_m <= m)%N -> (from_k <= fk O Fc)%N -> Full from_k Fc ->
  let Fz := {| fV := fV O Fc; fH := zero_from O m from_k (fH O Fc); ff := ff O Fc; fbeta := fbeta O Fc; fk := fk O Fc |} in
  nb_run near0 eps l717 Arows n m bt (List.seq from_k (to_m - from_k)) (Fz, cnt) ->
  exists F' cnt', [/\ arnoldi_factorize_from_k O near0 eps l717 Arows n m from_k to_m (Fc, cnt) = @Done _ (F', cnt'), fk O F' = to_m & Full to_m F'].
Proof.
move=> ebt k0 /andP[kt tm] kf [iw r2d ort fp bn] Fz nb.
have [w r1 z] := iw.
have nb0 : Ops.ltb O (fbeta O Fc) near0 = false.
  have e1 : (to_m - from_k = (to_m - from_k).-1.+1)%N by lia.
  by move: nb; rewrite e1 /= => /andP[/negbTE].
have r2 : R2 Arows n from_k Fc by case: r2d => // -[_ d2]; move: nb0; rewrite d2 /= near0_pos.
rewrite /arnoldi_factorize_from_k -ebt.
have -> : PeanoNat.Nat.leb to_m from_k = false by apply/PeanoNat.Nat.leb_gt/ssrnat.ltP.
have -> : PeanoNat.Nat.ltb (fk O Fc) from_k = false by rewrite ltbE; lia.
have [wz hz] := @Hc_zero_from F near0 Arows n m near0_pos sA from_k Fc Fz w erefl erefl erefl.
have iwz : InvW Arows n m from_k Fz.
  split=> //.
  - move=> i ik r rn; rewrite (_ : Av Arows Fz i r = Av Arows Fc i r) // r1 //.
    apply: eq_big_nat => j /andP[_ jk]; rewrite hz; [|lia|lia].
    by have -> : (from_k <= i)%N || (from_k <= j)%N = false by lia.
  - move=> i j ik /andP[ij jm]; rewrite hz; [|lia|lia].
    by case: ifP => // _; apply: z => //; rewrite ij jm.
have r2z : R2 Arows n from_k Fz.
  move=> r rn; rewrite (_ : Av Arows Fz from_k.-1 r = Av Arows Fc from_k.-1 r) // r2 //; congr (_ + _).
  apply: eq_big_nat => j /andP[_ jk]; rewrite hz; [|lia|lia].
  by have -> : (from_k <= from_k.-1)%N || (from_k <= j)%N = false by lia.
have fz : Full from_k Fz by split=> //; left.
have km : (from_k + (to_m - from_k) <= m)%N by lia.
have := @loop_full (to_m - from_k) from_k (Fz, cnt) k0 km fz nb.
have -> : (from_k + (to_m - from_k) = to_m)%N by lia.
rewrite -/Fz; case: (List.fold_left _ _ _) => F1 cnt1 /= fu1.
by exists {| fV := fV O F1; fH := fH O F1; ff := ff O F1; fbeta := fbeta O F1; fk := to_m |}, cnt1; split.
Qed.

(* Arnoldi::init on a start vector that the operator does not annihilate: one unit column, residual orthogonal to it, beta = |f| *)
Theorem init_full (v0 : seq F) Fc cnt : (0 < m)%N -> norm O (apply_op O Arows v0) != 0 ->
  init O near0 eps Arows n m v0 = @Done _ (Fc, cnt) -> Full 1 Fc.
Proof.
move=> m0 nz e; have [iw r2d] := @init_relation F near0 eps Arows n m near0_pos sA v0 Fc cnt m0 e.
move: e; rewrite /init; case: ifP => // _.
set u := apply_op O Arows v0 in nz *.
set v := vdivs O u (norm O u); set w := apply_op O Arows v; set h00 := dot O v w.
have sv : size v = n by rewrite /v /vdivs mapE size_map /u /apply_op mapE size_map.
have sw : size w = n by rewrite /w /apply_op mapE size_map.
have vv : dot O v v = 1.
  rewrite dotE // sv (eq_big_nat _ _ (F2 := fun r => nth 0 u r * nth 0 u r / norm O u ^+ 2)); last first.
    by move=> r _; rewrite /v !nth_vdivs expr2; field.
  have su : size u = n by rewrite /u /apply_op mapE size_map.
  by rewrite -mulr_suml -su -dotE // -norm_sq divff // expf_neq0.
set f0 := List.map _ (List.combine w v).
have sf0 : size f0 = n by rewrite /f0 mapE size_map combineE size_zip sw sv minnn.
have vf0 : dot O v f0 = 0.
  rewrite dotE ?sv ?sf0 // (eq_big_nat _ _ (F2 := fun r => nth 0 v r * nth 0 w r - h00 * (nth 0 v r * nth 0 v r))); last first.
    move=> r /andP[_ rn]; rewrite /f0 mapE combineE (nth_map (0, 0)) ?size_zip ?sw ?sv ?minnn // nth_zip ?sw ?sv //=.
    by ring.
  by rewrite sumrB -mulr_sumr -{1 2}sv -!dotE ?sv ?sw // vv mulr1 subrr.
case E: (if Ops.ltb O _ _ then _ else _) => [f beta] [eF _].
split=> //; rewrite -eF /=.
- by move=> [|i] [|j] //= _ _.
- move=> [|j] //= _; move: E; case: ifP => _ [<- _] //.
  by rewrite repeatE dotE ?sv ?size_nseq // big1_seq // => r _; rewrite nth_nseq; case: ifP; rewrite mulr0.
- rewrite /Bnorm /=; move: E; case: ifP => _ [<- <-] //.
  rewrite /norm /= repeatE dotE // size_nseq big1_seq ?sqrtr0 // => r _.
  by rewrite nth_nseq; case: ifP; rewrite mulr0.
Qed.
End O.
