(* C07: the Gram-Schmidt / re-orthogonalisation part of one Arnoldi step of the MODEL (model/Arnoldi.v, tied bit for bit to
   Arnoldi::factorize_from) in exact arithmetic: whatever the basis, the new column of H and the new residual satisfy
   w = V h + f, through every re-orthogonalisation pass - unless the pass decides to drop a tiny residual. *)
From SV Require Import Cxx Ops LinAlg RngGen Arnoldi.
From mathcomp Require Import all_ssreflect all_algebra.
From mathcomp Require Import ring zify.
From SV Require Import OpsF.
Set Implicit Arguments. Unset Strict Implicit. Unset Printing Implicit Defensive.
Import Order.Theory GRing.Theory Num.Theory.
Local Open Scope ring_scope.

Section A.
Variable F : rcfType.
Notation O := (OpsF F).

Lemma combineE A B (x : seq A) (y : seq B) : List.combine x y = zip x y.
Proof. by elim: x y => [|a x IH] [|b y] //=; rewrite IH. Qed.

(* V c = sum_j c_j V_j, entrywise *)
Definition comb (V : seq (seq F)) (c : seq F) (r : nat) : F := \sum_(0 <= j < minn (size V) (size c)) nth 0 c j * nth 0 (nth [::] V j) r.

Lemma nth_lincomb_from (acc : seq F) (V : seq (seq F)) (c : seq F) r :
  (forall j, (j < size V)%N -> size (nth [::] V j) = size acc) -> (r < size acc)%N ->
  nth 0 (lincomb_from O acc V c) r = nth 0 acc r + comb V c r.
Proof.
rewrite /comb; elim: V c acc => [|v V IH] c acc sz rn /=; first by rewrite min0n big_geq // addr0.
case: c => [|a c] /=; first by rewrite minn0 big_geq // addr0.
rewrite minnSS big_nat_recl //= combineE IH.
- rewrite (nth_map (0, 0)) ?size_zip ?(sz 0%N) ?minnn //= nth_zip ?(sz 0%N) //=.
  rewrite -addrA; congr (_ + _); rewrite [nth 0 v r * a]mulrC; congr (_ + _).
- by move=> j jV; rewrite size_map size_zip (sz 0%N) // minnn; exact: (sz j.+1).
- by rewrite size_map size_zip (sz 0%N) // minnn.
Qed.

Lemma nth_lincomb n (V : seq (seq F)) (c : seq F) r :
  (forall j, (j < size V)%N -> size (nth [::] V j) = n) -> (r < n)%N ->
  nth 0 (lincomb O n V c) r = comb V c r.
Proof.
move=> sz rn; rewrite /lincomb nth_lincomb_from ?repeatE ?size_nseq // nth_nseq rn add0r //.
Qed.

Lemma size_lincomb_from (acc : seq F) V c : (forall j, (j < size V)%N -> size (nth [::] V j) = size acc) -> size (lincomb_from O acc V c) = size acc.
Proof.
elim: V c acc => [|v V IH] [|a c] acc sz //=.
rewrite combineE IH; first by rewrite size_map size_zip (sz 0%N) // minnn.
by move=> j jV; rewrite size_map size_zip (sz 0%N) // minnn; exact: (sz j.+1).
Qed.

(* classical Gram-Schmidt step: f = w - V h  ==>  V h + f = w, for ANY coefficients h *)
Theorem gs_relation n (V : seq (seq F)) (w h : seq F) r :
  (forall j, (j < size V)%N -> size (nth [::] V j) = n) -> size w = n -> (r < n)%N ->
  comb V h r + nth 0 (vsub2 O w (lincomb O n V h)) r = nth 0 w r.
Proof.
move=> sz sw rn; rewrite /vsub2 combineE.
have sl : size (lincomb O n V h) = n by rewrite /lincomb size_lincomb_from repeatE size_nseq.
rewrite (nth_map (0, 0)) ?size_zip ?sw ?sl ?minnn // nth_zip ?sw ?sl //= nth_lincomb //.
by rewrite addrC subrK.
Qed.

Lemma comb_add (V : seq (seq F)) (h g : seq F) r : size h = size V -> size g = size V ->
  comb V [seq p.1 + p.2 | p <- zip h g] r = comb V h r + comb V g r.
Proof.
move=> sh sg; rewrite /comb size_map size_zip sh sg !minnn -big_split /=.
apply: eq_big_nat => j /andP[_ jV].
by rewrite (nth_map (0, 0)) ?size_zip ?sh ?sg ?minnn // nth_zip ?sh ?sg //= mulrDl.
Qed.

(* one re-orthogonalisation pass keeps it: f' = f - V g, h' = h + g *)
Theorem reorth_pass_relation n (V : seq (seq F)) (f h g : seq F) r :
  (forall j, (j < size V)%N -> size (nth [::] V j) = n) -> size f = n -> size h = size V -> size g = size V -> (r < n)%N ->
  comb V [seq p.1 + p.2 | p <- zip h g] r + nth 0 (vsub2 O f (lincomb O n V g)) r = comb V h r + nth 0 f r.
Proof.
move=> sz sf sh sg rn; rewrite /vsub2 combineE.
have sl : size (lincomb O n V g) = n by rewrite /lincomb size_lincomb_from repeatE size_nseq.
rewrite (nth_map (0, 0)) ?size_zip ?sf ?sl ?minnn // nth_zip ?sf ?sl //= nth_lincomb // comb_add //.
set a := comb V h r; set b := comb V g r; set c := nth 0 f r.
by rewrite -[a + b + (c - b)]/(a + b + (c - b)); ring.
Qed.

(* the re-orthogonalisation loop of the model, as a whole: either it drops the residual (f = 0, beta = 0: the breakdown branch) or
   the relation w = V h + f still holds for the (f, h) it returns - for every number of passes *)
Definition krel n (V : seq (seq F)) (w f h : seq F) : Prop := forall r, (r < n)%N -> comb V h r + nth 0 f r = nth 0 w r.

Theorem arn_reorth_relation (eps bt : F) n (Vs : seq (seq F)) i1 (w : seq F) fuel : forall f h beta Vf err,
  (forall j, (j < size Vs)%N -> size (nth [::] Vs j) = n) -> size Vs = i1 ->
  size f = n -> size h = i1 -> size Vf = i1 -> krel n Vs w f h ->
  let '(f', h', beta') := arn_reorth O eps fuel n Vs i1 bt f h beta Vf err in
  (f' = nseq n 0 /\ beta' = 0) \/ (krel n Vs w f' h' /\ size h' = i1).
Proof.
elim: fuel => [|fuel IH] f h beta Vf err sz sV sf sh sVf rel /=; first by right.
case: ifP => _; last by right.
case: ifP => _; first by left; rewrite repeatE.
have sl : size (lincomb O n Vs Vf) = n by rewrite /lincomb size_lincomb_from repeatE size_nseq.
apply: IH => //.
- by rewrite /vsub2 combineE size_map size_zip sf sl minnn.
- by rewrite combineE size_map size_zip sh sVf minnn.
- by rewrite /adjoint_product mapE size_map firstnE size_take sV ltnn.
- move=> r rn; rewrite combineE.
  have := @reorth_pass_relation n Vs f h Vf r sz sf _ _ rn.
  rewrite sh sVf sV => /(_ erefl erefl) ->. exact: rel.
Qed.


(* Lanczos three-term recurrence of the model (the two `map ... combine` statements of lanczos_step): A v_i = beta v_(i-1) + alpha v_i + f *)
Theorem lanczos_recurrence n (w u v : seq F) (beta alpha : F) r : size w = n -> size u = n -> size v = n -> (r < n)%N ->
  let w' := List.map (fun p : F * F => p.1 - beta * p.2) (List.combine w u) in
  let f := List.map (fun p : F * F => p.1 - alpha * p.2) (List.combine w' v) in
  beta * nth 0 u r + alpha * nth 0 v r + nth 0 f r = nth 0 w r.
Proof.
move=> sw su sv rn /=; rewrite !combineE !mapE.
have s1 : size [seq p.1 - beta * p.2 | p <- zip w u] = n by rewrite size_map size_zip sw su minnn.
rewrite (nth_map (0, 0)) ?size_zip ?s1 ?sv ?minnn // nth_zip ?s1 ?sv //=.
rewrite (nth_map (0, 0)) ?size_zip ?sw ?su ?minnn // nth_zip ?sw ?su //=.
by ring.
Qed.

(* ---- one whole Arnoldi step of the model: whichever way the new basis vector v_i was obtained (normalised residual, or a fresh direction
   after a breakdown), the new column i of H and the new residual satisfy  A v_i = sum_(j<=i) H(j,i) v_j + f  - or the residual was dropped *)
Lemma nth_mapi_sel (c : seq F) j (l : seq (seq F)) off k : (k < size l)%N ->
  nth [::] (mapi_from off (fun jj c0 => if PeanoNat.Nat.eqb jj j then c else c0) l) k = if (off + k)%N == j then c else nth [::] l k.
Proof.
elim: l off k => [|a l IH] off [|k] //= kl; first by rewrite addn0 eqbE.
by rewrite IH // addSnnS.
Qed.
Lemma size_mapi_from' A B k (g : nat -> A -> B) l : size (mapi_from k g l) = size l.
Proof. by elim: l k => [|x l IH] k //=; rewrite IH. Qed.
Lemma nth_msetcol (M : seq (seq F)) j c k : (k < size M)%N -> nth [::] (msetcol O M j c) k = if k == j then c else nth [::] M k.
Proof. by move=> kM; rewrite /msetcol /mapi nth_mapi_sel // add0n. Qed.
Lemma size_msetcol (M : seq (seq F)) j c : size (msetcol O M j c) = size M.
Proof. by rewrite /msetcol /mapi; elim: M 0%N => [|a M IH] off //=; rewrite IH. Qed.

Theorem arnoldi_step_column (near0 eps l717 : F) (Arows : seq (seq F)) n m bt i (Fc : fac O) cnt :
  size Arows = n -> (i < m)%N -> size (fV O Fc) = m -> (forall j, (j < m)%N -> size (nth [::] (fV O Fc) j) = n) -> size (fH O Fc) = m ->
  let '(F', cnt') := arnoldi_step O near0 eps l717 Arows n m bt i (Fc, cnt) in
  let v := nth [::] (fV O F') i in
  size v = n ->
  (ff O F' = nseq n 0 /\ fbeta O F' = 0) \/
  krel n (take i.+1 (fV O F')) (apply_op O Arows v) (ff O F') (take i.+1 (nth [::] (fH O F') i)).
Proof.
move=> sA im sV sc sH; rewrite /arnoldi_step.
case: (if Ops.ltb O (fbeta O Fc) near0 then _ else _) => [[[f beta] cnt1] restart].
set v := vdivs O f beta. set V := set_col O (fV O Fc) i v.
set w := apply_op O Arows v.
set Vs := List.firstn i.+1 V. set h := adjoint_product O V i.+1 w.
have sVv : size V = m by rewrite /V /set_col size_msetcol.
have nV k : (k < m)%N -> nth [::] V k = if k == i then v else nth [::] (fV O Fc) k.
  by move=> km; rewrite /V /set_col nth_msetcol ?sV.
have eVs : Vs = take i.+1 V by rewrite /Vs firstnE.
have sVs : size Vs = i.+1 by rewrite eVs size_take sVv; case: ltnP => //; lia.
case E: (if Ops.ltb O _ _ then _ else _) => [[f2 h2] beta2] /=.
rewrite /set_col nth_msetcol ?sV // eqxx => sv.
have sM : size (mset O (fH O Fc) i (i - 1)%coq_nat (if restart then 0 else beta)) = m by rewrite /mset /mapi size_mapi_from' sH.
rewrite nth_msetcol ?sM // eqxx.
have szVs : forall j, (j < size Vs)%N -> size (nth [::] Vs j) = n.
  move=> j; rewrite sVs => ji; rewrite eVs nth_take // nV; last by lia.
  by case: eqP => // _; apply: sc; lia.
have sw : size w = n by rewrite /w /apply_op mapE size_map.
have sh : size h = i.+1 by rewrite /h /adjoint_product mapE size_map firstnE size_take sVv; case: ltnP => //; lia.
have rel0 : krel n Vs w (vsub2 O w (lincomb O n Vs h)) h by move=> r rn; exact: gs_relation.
have pad_take (hh : seq F) : size hh = i.+1 -> take i.+1 (pad O m hh) = hh.
  by move=> s1; rewrite /pad appE take_size_cat.
have fin : (f2 = nseq n 0 /\ beta2 = 0) \/ (krel n Vs w f2 h2 /\ size h2 = i.+1).
  move: E; case: ifP => _.
  - by case=> <- <- _; right.
  - have sl : size (lincomb O n Vs h) = n by rewrite /lincomb size_lincomb_from repeatE size_nseq.
    have sf0 : size (vsub2 O w (lincomb O n Vs h)) = n by rewrite /vsub2 combineE size_map size_zip sw sl minnn.
    have sVf : size (adjoint_product O V i.+1 (vsub2 O w (lincomb O n Vs h))) = i.+1.
      by rewrite /adjoint_product mapE size_map firstnE size_take sVv; case: ltnP => //; lia.
    move=> E.
    have := @arn_reorth_relation eps bt n Vs i.+1 w 5 _ _ (norm O (vsub2 O w (lincomb O n Vs h))) _ (maxabs O (adjoint_product O V i.+1 (vsub2 O w (lincomb O n Vs h)))) szVs sVs sf0 sh sVf rel0.
    by rewrite E.
case: fin => [[-> ->]|[rel s2]]; first by left.
by right; rewrite -eVs pad_take.
Qed.
End A.
