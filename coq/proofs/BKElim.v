(* C10: gaussian_elimination_1x1 of the Bunch-Kaufman model is the Schur complement step, entry by entry (exact arithmetic not even needed:
   the statement is about which expression is stored where, so it holds for every scalar instance). *)
From SV Require Import Ops LinAlg BK.
From mathcomp Require Import all_ssreflect.
From mathcomp Require Import zify.
From SV Require Import OpsF.
Set Implicit Arguments. Unset Strict Implicit. Unset Printing Implicit Defensive.

Section E.
Variable o : Ops.
Notation pget := (pget o). Notation pset := (pset o).

(* packed lower triangle of order n: column j holds rows j .. n-1 *)
Definition wf (n : nat) (P : list (list (T o))) : Prop := size P = n /\ forall j, (j < n)%N -> size (nth [::] P j) = (n - j)%N.

Lemma nth_vset (v : list (T o)) i x k : (i < size v)%N -> nth (zero o) (vset o v i x) k = if k == i then x else nth (zero o) v k.
Proof. by elim: v i k => [|a v IH] [|i] [|k] //= h; rewrite IH. Qed.
Lemma size_vset (v : list (T o)) i x : size (vset o v i x) = size v.
Proof. by elim: v i => [|a v IH] [|i] //=; rewrite IH. Qed.

Lemma nth_mapi_from' A B k (g : nat -> A -> B) l j d d' : (j < size l)%N -> nth d' (mapi_from k g l) j = g (k + j)%N (nth d l j).
Proof. by elim: l k j => [|x l IH] k [|j] //=; rewrite ?addn0 // ltnS => /IH ->; rewrite addSnnS. Qed.
Lemma size_mapi_from' A B k (g : nat -> A -> B) l : size (mapi_from k g l) = size l.
Proof. by elim: l k => [|x l IH] k //=; rewrite IH. Qed.

Lemma wf_pset n P i j x : wf n P -> wf n (pset P i j x).
Proof.
case=> sP sc; split; first by rewrite /BK.pset /mapi size_mapi_from'.
move=> jj jn; rewrite /BK.pset /mapi (@nth_mapi_from' _ _ 0 _ P jj [::] [::]) ?sP // add0n.
by case: (PeanoNat.Nat.eqb jj j); rewrite ?size_vset sc.
Qed.

Lemma pget_pset n P i j x i' j' : wf n P -> (j <= i < n)%N -> (j' <= i' < n)%N ->
  pget (pset P i j x) i' j' = if (i' == i) && (j' == j) then x else pget P i' j'.
Proof.
case=> sP sc /andP[ji i_n] /andP[ji' in'].
have jn : (j < n)%N by lia. have jn' : (j' < n)%N by lia.
rewrite /BK.pget /BK.pset /mapi !nthE (@nth_mapi_from' _ _ 0 _ P j' [::] [::]) ?sP // add0n eqbE.
case: (eqVneq j' j) => [e|ne]; last by rewrite andbF.
subst j'; rewrite nth_vset ?sc //; last by rewrite -/(subn i j); lia.
rewrite andbT -/(subn i' j) -/(subn i j); case: (eqVneq i' i) => [->|ne]; first by rewrite eqxx.
have -> // : (i' - j == i - j)%N = false by apply/eqP; move/eqP: ne; lia.
Qed.

(* a fold of point updates over distinct in-range positions, each reading only its own entry *)
Lemma fold_updates n (g : nat * nat -> T o -> T o) (L : seq (nat * nat)) P :
  wf n P -> uniq L -> (forall p, p \in L -> (p.2 <= p.1 < n)%N) ->
  let P' := List.fold_left (fun P p => pset P p.1 p.2 (g p (pget P p.1 p.2))) L P in
  wf n P' /\ forall i j, (j <= i < n)%N -> pget P' i j = if (i, j) \in L then g (i, j) (pget P i j) else pget P i j.
Proof.
elim: L P => [|p L IH] P w u r /=; first by split.
move: u => /andP[pL u].
have rp := r p (mem_head _ _).
have w1 := wf_pset p.1 p.2 (g p (pget P p.1 p.2)) w.
have [|w2 h] := IH _ w1 u; first by move=> q qL; apply: r; rewrite inE qL orbT.
split=> // i j ij; rewrite h // inE.
case: (eqVneq (i, j) p) => [e|ne] /=.
- rewrite -e in pL; rewrite (negbTE pL) (@pget_pset n P p.1 p.2 _ i j w rp ij) -e /= !eqxx /=; by rewrite e.
- rewrite (@pget_pset n P p.1 p.2 _ i j w rp ij).
  have -> : (i == p.1) && (j == p.2) = false.
    apply/negbTE; apply: contraNN ne => /andP[/eqP -> /eqP ->]. by rewrite -surjective_pairing.
  by [].
Qed.

Lemma seqE a b : List.seq a b = iota a b.
Proof. by elim: b a => [|b IH] a //=; rewrite IH. Qed.

Lemma fold_left_ext_in A (B : eqType) (f f' : A -> B -> A) (L : seq B) a : (forall a x, x \in L -> f a x = f' a x) ->
  List.fold_left f L a = List.fold_left f' L a.
Proof.
elim: L a => [|x L IH] a h //=; rewrite h ?mem_head // IH // => a' y yL; apply: h; by rewrite inE yL orbT.
Qed.
Lemma fold_left_map A B C (f : A -> C -> A) (m : B -> C) (L : seq B) a :
  List.fold_left f [seq m x | x <- L] a = List.fold_left (fun a x => f a (m x)) L a.
Proof. by elim: L a => [|x L IH] a //=. Qed.
Lemma fold_left_flatten A B (f : A -> B -> A) (LL : seq (seq B)) a :
  List.fold_left f (flatten LL) a = List.fold_left (fun a L => List.fold_left f L a) LL a.
Proof. by elim: LL a => [|L LL IH] a //=; rewrite -appE List.fold_left_app IH. Qed.

(* positions of the trailing submatrix touched by the rank-one update at step k, in the order of the two loops *)
Definition upd_pos (n k : nat) : seq (nat * nat) :=
  flatten [seq [seq ((j + k + 1 + t)%N, (j + k + 1)%N) | t <- iota 0 (n - k - 1 - j)] | j <- iota 0 (n - k - 1)].

Lemma mem_upd_pos n k i j : ((i, j) \in upd_pos n k) = (k < j <= i)%N && (i < n)%N.
Proof.
apply/flattenP/idP => [[L /mapP[jj]]|/andP[/andP[kj ji] i_n]].
- rewrite mem_iota add0n => /andP[_ jl] -> /mapP[t]; rewrite mem_iota add0n => /andP[_ tl] [-> ->]; lia.
- exists [seq ((j - k - 1 + k + 1 + t)%N, (j - k - 1 + k + 1)%N) | t <- iota 0 (n - k - 1 - (j - k - 1))].
    by apply/mapP; exists (j - k - 1)%N => //; rewrite mem_iota; lia.
  apply/mapP; exists (i - j)%N; first by rewrite mem_iota; lia.
  by congr (_, _); lia.
Qed.

Lemma uniq_upd_pos n k : uniq (upd_pos n k).
Proof.
rewrite /upd_pos.
have inj_t jj : injective (fun t => ((jj + k + 1 + t)%N, (jj + k + 1)%N)) by move=> a b [] /eqP; rewrite eqn_add2l => /eqP.
elim: (iota 0 (n - k - 1)) (iota_uniq 0 (n - k - 1)) => [|jj L IH] //= /andP[jL uL].
rewrite cat_uniq map_inj_uniq ?iota_uniq // IH // andbT.
apply/hasPn => p /flattenP[L' /mapP[j2 j2L ->] /mapP[t _ ->]].
apply/negP => /mapP[t' _ [_ /eqP]]; rewrite !eqn_add2r => /eqP e; by rewrite -e j2L in jL.
Qed.

(* gaussian_elimination_1x1 at step k with a non-zero pivot: the trailing submatrix receives the Schur complement, column k the multipliers,
   everything else is untouched - for EVERY scalar instance (the statement says which expression is stored where) *)
Theorem elim_1x1_spec n P k : wf n P -> (k < n)%N -> Ops.eqb o (pget P k k) (zero o) = false ->
  let akk := pget P k k in
  let '(P', inf) := elim_1x1 o n P k in
  [/\ inf = 0%N, wf n P' & forall i j, (j <= i < n)%N ->
     pget P' i j = if (k < j)%N then Ops.sub o (pget P i j) (Ops.mul o (Ops.div o (pget P j k) akk) (pget P i k))
                   else if (j == k) && (k < i)%N then Ops.div o (pget P i k) akk else pget P i j].
Proof.
move=> w kn nz akk; rewrite /elim_1x1 nz -/akk.
set ldim := (n - k - 1)%coq_nat.
set l := List.map _ _.
have nl t : (t < n - k - 1)%N -> nth (zero o) l t = pget P (k + 1 + t)%N k.
  move=> tl; rewrite /l mapE seqE (nth_map 0%N) ?size_iota // nth_iota //.
pose g1 (p : nat * nat) (old : T o) := Ops.sub o old (Ops.mul o (Ops.div o (nth (zero o) l (p.2 - k - 1)) akk) (nth (zero o) l (p.1 - k - 1))).
pose g2 (p : nat * nat) (old : T o) := Ops.div o (nth (zero o) l (p.1 - k - 1)) akk.
set P1 := List.fold_left _ (List.seq 0 ldim) P.
have eP1 : P1 = List.fold_left (fun P p => pset P p.1 p.2 (g1 p (pget P p.1 p.2))) (upd_pos n k) P.
  rewrite /P1 /upd_pos fold_left_flatten fold_left_map seqE.
  apply: fold_left_ext_in => Q j; rewrite mem_iota add0n => /andP[_ jl].
  rewrite fold_left_map seqE; apply: fold_left_ext_in => Q' t _.
  rewrite /g1 /= !nthE.
  have -> : (j + k + 1 - k - 1 = j)%N by lia.
  have -> : (j + k + 1 + t - k - 1 = j + t)%N by lia.
  by [].
have r1 : forall p, p \in upd_pos n k -> (p.2 <= p.1 < n)%N.
  by case=> a b; rewrite mem_upd_pos /= => /andP[/andP[_ ->] ->].
have [w1 h1] := fold_updates g1 w (uniq_upd_pos n k) r1; rewrite -eP1 in w1 h1.
pose cpos : seq (nat * nat) := [seq ((k + 1 + t)%N, k) | t <- iota 0 (n - k - 1)].
have eP2 : List.fold_left (fun P t => pset P (k + 1 + t)%coq_nat k (Ops.div o (List.nth t l (zero o)) akk)) (List.seq 0 ldim) P1 =
           List.fold_left (fun P p => pset P p.1 p.2 (g2 p (pget P p.1 p.2))) cpos P1.
  rewrite /cpos fold_left_map seqE; apply: fold_left_ext_in => Q t _.
  by rewrite /g2 /= nthE; have -> : (k + 1 + t - k - 1 = t)%N by lia.
have ucp : uniq cpos by rewrite map_inj_uniq ?iota_uniq // => a b [] /eqP; rewrite eqn_add2l => /eqP.
have mcp i j : ((i, j) \in cpos) = (j == k) && (k < i < n)%N.
  apply/mapP/idP => [[t]|/andP[/eqP -> /andP[ki i_n]]].
  - rewrite mem_iota add0n => /andP[_ tl] [-> ->]; rewrite eqxx /=; lia.
  - exists (i - k - 1)%N; first by rewrite mem_iota; lia.
    by congr (_, _); lia.
have r2 : forall p, p \in cpos -> (p.2 <= p.1 < n)%N.
  by case=> a b; rewrite mcp /= => /andP[/eqP -> /andP[ka ->]]; rewrite andbT ltnW.
have [w2 h2] := fold_updates g2 w1 ucp r2.
rewrite eP2; split=> // i j ij.
rewrite h2 // mcp h1 // mem_upd_pos.
move: ij => /andP[ji i_n]; rewrite i_n !andbT ji andbT.
case: (ltnP k j) => kj.
- have -> : (j == k) = false by apply/eqP; lia.
  rewrite /= /g1 /= !nl; [|lia|lia].
  have -> : (k + 1 + (j - k - 1) = j)%N by lia.
  by have -> : (k + 1 + (i - k - 1) = i)%N by lia.
- case: eqP => [e|_] //=; case: (ltnP k i) => ki //=.
  rewrite /g2 /= nl; last by lia.
  by have -> : (k + 1 + (i - k - 1) = i)%N by lia.
Qed.
End E.
