(* C10: gaussian_elimination_1x1 of the Bunch-Kaufman model is the Schur complement step, entry by entry (exact arithmetic not even needed:
   the statement is about which expression is stored where, so it holds for every scalar instance). *)
From SV Require Import Ops LinAlg BK.
From mathcomp Require Import all_ssreflect.
From mathcomp Require Import zify.
From SV Require Import OpsF.
Set Implicit Arguments. Unset Strict Implicit. Unset Printing Implicit Defensive.

Section E.
Variable o : Ops.
Notation pget := (pget o). Notation pset := (pset o).

(* packed lower triangle of order n: column j holds rows j .. n-1 *)
Definition wf (n : nat) (P : list (list (T o))) : Prop := size P = n /\ forall j, (j < n)%N -> size (nth [::] P j) = (n - j)%N.

Lemma nth_vset (v : list (T o)) i x k : (i < size v)%N -> nth (zero o) (vset o v i x) k = if k == i then x else nth (zero o) v k.
Proof. by elim: v i k => [|a v IH] [|i] [|k] //= h; rewrite IH. Qed.
Lemma size_vset (v : list (T o)) i x : size (vset o v i x) = size v.
Proof. by elim: v i => [|a v IH] [|i] //=; rewrite IH. Qed.

Lemma nth_mapi_from' A B k (g : nat -> A -> B) l j d d' : (j < size l)%N -> nth d' (mapi_from k g l) j = g (k + j)%N (nth d l j).
Proof. by elim: l k j => [|x l IH] k [|j] //=; rewrite ?addn0 // ltnS => /IH ->; rewrite addSnnS. Qed.
Lemma size_mapi_from' A B k (g : nat -> A -> B) l : size (mapi_from k g l) = size l.
Proof. by elim: l k => [|x l IH] k //=; rewrite IH. Qed.

Lemma wf_pset n P i j x : wf n P -> wf n (pset P i j x).
Proof.
case=> sP sc; split; first by rewrite /BK.pset /mapi size_mapi_from'.
move=> jj jn; rewrite /BK.pset /mapi (@nth_mapi_from' _ _ 0 _ P jj [::] [::]) ?sP // add0n.
by case: (PeanoNat.Nat.eqb jj j); rewrite ?size_vset sc.
Qed.

Lemma pget_pset n P i j x i' j' : wf n P -> (j <= i < n)%N -> (j' <= i' < n)%N ->
  pget (pset P i j x) i' j' = if (i' == i) && (j' == j) then x else pget P i' j'.
Proof.
case=> sP sc /andP[ji i_n] /andP[ji' in'].
have jn : (j < n)%N by lia. have jn' : (j' < n)%N by lia.
rewrite /BK.pget /BK.pset /mapi !nthE (@nth_mapi_from' _ _ 0 _ P j' [::] [::]) ?sP // add0n eqbE.
case: (eqVneq j' j) => [e|ne]; last by rewrite andbF.
subst j'; rewrite nth_vset ?sc //; last by rewrite -/(subn i j); lia.
rewrite andbT -/(subn i' j) -/(subn i j); case: (eqVneq i' i) => [->|ne]; first by rewrite eqxx.
have -> // : (i' - j == i - j)%N = false by apply/eqP; move/eqP: ne; lia.
Qed.

(* a fold of point updates over distinct in-range positions, each reading only its own entry *)
Lemma fold_updates n (g : nat * nat -> T o -> T o) (L : seq (nat * nat)) P :
  wf n P -> uniq L -> (forall p, p \in L -> (p.2 <= p.1 < n)%N) ->
  let P' := List.fold_left (fun P p => pset P p.1 p.2 (g p (pget P p.1 p.2))) L P in
  wf n P' /\ forall i j, (j <= i < n)%N -> pget P' i j = if (i, j) \in L then g (i, j) (pget P i j) else pget P i j.
Proof.
elim: L P => [|p L IH] P w u r /=; first by split.
move: u => /andP[pL u].
have rp := r p (mem_head _ _).
have w1 := wf_pset p.1 p.2 (g p (pget P p.1 p.2)) w.
have [|w2 h] := IH _ w1 u; first by move=> q qL; apply: r; rewrite inE qL orbT.
split=> // i j ij; rewrite h // inE.
case: (eqVneq (i, j) p) => [e|ne] /=.
- rewrite -e in pL; rewrite (negbTE pL) (@pget_pset n P p.1 p.2 _ i j w rp ij) -e /= !eqxx /=; by rewrite e.
- rewrite (@pget_pset n P p.1 p.2 _ i j w rp ij).
  have -> : (i == p.1) && (j == p.2) = false.
    apply/negbTE; apply: contraNN ne => /andP[/eqP -> /eqP ->]. by rewrite -surjective_pairing.
  by [].
Qed.

Lemma seqE a b : List.seq a b = iota a b.
Proof. by elim: b a => [|b IH] a //=; rewrite IH. Qed.

Lemma fold_left_ext_in A (B : eqType) (f f' : A -> B -> A) (L : seq B) a : (forall a x, x \in L -> f a x = f' a x) ->
  List.fold_left f L a = List.fold_left f' L a.
Proof.
elim: L a => [|x L IH] a h //=; rewrite h ?mem_head // IH // => a' y yL; apply: h; by rewrite inE yL orbT.
Qed.
Lemma fold_left_map A B C (f : A -> C -> A) (m : B -> C) (L : seq B) a :
  List.fold_left f [seq m x | x <- L] a = List.fold_left (fun a x => f a (m x)) L a.
Proof. by elim: L a => [|x L IH] a //=. Qed.
Lemma fold_left_flatten A B (f : A -> B -> A) (LL : seq (seq B)) a :
  List.fold_left f (flatten LL) a = List.fold_left (fun a L => List.fold_left f L a) LL a.
Proof. by elim: LL a => [|L LL IH] a //=; rewrite -appE List.fold_left_app IH. Qed.

(* positions of the trailing submatrix touched by the rank-one update at step k, in the order of the two loops *)
Definition upd_pos (n k : nat) : seq (nat * nat) :=
  flatten [seq [seq ((j + k + 1 + t)%N, (j + k + 1)%N) | t <- iota 0 (n - k - 1 - j)] | j <- iota 0 (n - k - 1)].

Lemma mem_upd_pos n k i j : ((i, j) \in upd_pos n k) = (k < j <= i)%N && (i < n)%N.
Proof.
apply/flattenP/idP => [[L /mapP[jj]]|/andP[/andP[kj ji] i_n]].
- rewrite mem_iota add0n => /andP[_ jl] -> /mapP[t]; rewrite mem_iota add0n => /andP[_ tl] [-> ->]; lia.
- exists [seq ((j - k - 1 + k + 1 + t)%N, (j - k - 1 + k + 1)%N) | t <- iota 0 (n - k - 1 - (j - k - 1))].
    by apply/mapP; exists (j - k - 1)%N => //; rewrite mem_iota; lia.
  apply/mapP; exists (i - j)%N; first by rewrite mem_iota; lia.
  by congr (_, _); lia.
Qed.

Lemma uniq_upd_pos n k : uniq (upd_pos n k).
Proof.
rewrite /upd_pos.
have inj_t jj : injective (fun t => ((jj + k + 1 + t)%N, (jj + k + 1)%N)) by move=> a b [] /eqP; rewrite eqn_add2l => /eqP.
elim: (iota 0 (n - k - 1)) (iota_uniq 0 (n - k - 1)) => [|jj L IH] //= /andP[jL uL].
rewrite cat_uniq map_inj_uniq ?iota_uniq // IH // andbT.
apply/hasPn => p /flattenP[L' /mapP[j2 j2L ->] /mapP[t _ ->]].
apply/negP => /mapP[t' _ [_ /eqP]]; rewrite !eqn_add2r => /eqP e; by rewrite -e j2L in jL.
Qed.

(* gaussian_elimination_1x1 at step k with a non-zero pivot: the trailing submatrix receives the Schur complement, column k the multipliers,
   everything else is untouched - for EVERY scalar instance (the statement says which expression is stored where) *)
Theorem elim_1x1_spec n P k : wf n P -> (k < n)%N -> Ops.eqb o (pget P k k) (zero o) = false ->
  let akk := pget P k k in
  let '(P', inf) := elim_1x1 o n P k in
  [/\ inf = 0%N, wf n P' & forall i j, (j <= i < n)%N ->
     pget P' i j = if (k < j)%N then Ops.sub o (pget P i j) (Ops.mul o (Ops.div o (pget P j k) akk) (pget P i k))
                   else if (j == k) && (k < i)%N then Ops.div o (pget P i k) akk else pget P i j].
Proof.
move=> w kn nz akk; rewrite /elim_1x1 nz -/akk.
set ldim := (n - k - 1)%coq_nat.
set l := List.map _ _.
have nl t : (t < n - k - 1)%N -> nth (zero o) l t = pget P (k + 1 + t)%N k.
  move=> tl; rewrite /l mapE seqE (nth_map 0%N) ?size_iota // nth_iota //.
pose g1 (p : nat * nat) (old : T o) := Ops.sub o old (Ops.mul o (Ops.div o (nth (zero o) l (p.2 - k - 1)) akk) (nth (zero o) l (p.1 - k - 1))).
pose g2 (p : nat * nat) (old : T o) := Ops.div o (nth (zero o) l (p.1 - k - 1)) akk.
set P1 := List.fold_left _ (List.seq 0 ldim) P.
have eP1 : P1 = List.fold_left (fun P p => pset P p.1 p.2 (g1 p (pget P p.1 p.2))) (upd_pos n k) P.
  rewrite /P1 /upd_pos fold_left_flatten fold_left_map seqE.
  apply: fold_left_ext_in => Q j; rewrite mem_iota add0n => /andP[_ jl].
  rewrite fold_left_map seqE; apply: fold_left_ext_in => Q' t _.
  rewrite /g1 /= !nthE.
  have -> : (j + k + 1 - k - 1 = j)%N by lia.
  have -> : (j + k + 1 + t - k - 1 = j + t)%N by lia.
  by [].
have r1 : forall p, p \in upd_pos n k -> (p.2 <= p.1 < n)%N.
  by case=> a b; rewrite mem_upd_pos /= => /andP[/andP[_ ->] ->].
have [w1 h1] := fold_updates g1 w (uniq_upd_pos n k) r1; rewrite -eP1 in w1 h1.
pose cpos : seq (nat * nat) := [seq ((k + 1 + t)%N, k) | t <- iota 0 (n - k - 1)].
have eP2 : List.fold_left (fun P t => pset P (k + 1 + t)%coq_nat k (Ops.div o (List.nth t l (zero o)) akk)) (List.seq 0 ldim) P1 =
           List.fold_left (fun P p => pset P p.1 p.2 (g2 p (pget P p.1 p.2))) cpos P1.
  rewrite /cpos fold_left_map seqE; apply: fold_left_ext_in => Q t _.
  by rewrite /g2 /= nthE; have -> : (k + 1 + t - k - 1 = t)%N by lia.
have ucp : uniq cpos by rewrite map_inj_uniq ?iota_uniq // => a b [] /eqP; rewrite eqn_add2l => /eqP.
have mcp i j : ((i, j) \in cpos) = (j == k) && (k < i < n)%N.
  apply/mapP/idP => [[t]|/andP[/eqP -> /andP[ki i_n]]].
  - rewrite mem_iota add0n => /andP[_ tl] [-> ->]; rewrite eqxx /=; lia.
  - exists (i - k - 1)%N; first by rewrite mem_iota; lia.
    by congr (_, _); lia.
have r2 : forall p, p \in cpos -> (p.2 <= p.1 < n)%N.
  by case=> a b; rewrite mcp /= => /andP[/eqP -> /andP[ka ->]]; rewrite andbT ltnW.
have [w2 h2] := fold_updates g2 w1 ucp r2.
rewrite eP2; split=> // i j ij.
rewrite h2 // mcp h1 // mem_upd_pos.
move: ij => /andP[ji i_n]; rewrite i_n !andbT ji andbT.
case: (ltnP k j) => kj.
- have -> : (j == k) = false by apply/eqP; lia.
  rewrite /= /g1 /= !nl; [|lia|lia].
  have -> : (k + 1 + (j - k - 1) = j)%N by lia.
  by have -> : (k + 1 + (i - k - 1) = i)%N by lia.
- case: eqP => [e|_] //=; case: (ltnP k i) => ki //=.
  rewrite /g2 /= nl; last by lia.
  by have -> : (k + 1 + (i - k - 1) = i)%N by lia.
Qed.

Lemma combineE A B (x : seq A) (y : seq B) : List.combine x y = zip x y.
Proof. by elim: x y => [|a x IH] [|b y] //=; rewrite IH. Qed.

(* positions of columns k and k+1 below the 2x2 block, in the order of the loop *)
Definition cpos2 (n k : nat) : seq (nat * nat) := flatten [seq [:: ((k + 2 + t)%N, k); ((k + 2 + t)%N, (k + 1)%N)] | t <- iota 0 (n - k - 2)].
Lemma mem_cpos2 n k i j : ((i, j) \in cpos2 n k) = ((j == k) || (j == k + 1)%N) && (k + 1 < i < n)%N.
Proof.
apply/flattenP/idP => [[L /mapP[t]]|/andP[jk /andP[ki i_n]]].
- rewrite mem_iota add0n => /andP[_ tl] ->; rewrite !inE => /orP[] /eqP[-> ->]; rewrite eqxx ?orbT /=; lia.
- exists [:: ((k + 2 + (i - k - 2))%N, k); ((k + 2 + (i - k - 2))%N, (k + 1)%N)].
    by apply/mapP; exists (i - k - 2)%N => //; rewrite mem_iota; lia.
  have -> : (k + 2 + (i - k - 2) = i)%N by lia.
  by rewrite !inE; case/orP: jk => /eqP ->; rewrite eqxx ?orbT.
Qed.
Lemma uniq_cpos2 n k : uniq (cpos2 n k).
Proof.
rewrite /cpos2.
elim: (iota 0 (n - k - 2)) (iota_uniq 0 (n - k - 2)) => [|t L IH] //= /andP[tL uL].
rewrite IH // andbT !inE negb_or.
have nin j0 : (k + 2 + t, j0)%N \notin flatten [seq [:: ((k + 2 + t0)%N, k); ((k + 2 + t0)%N, (k + 1)%N)] | t0 <- L].
  apply/negP => /flattenP[L' /mapP[t' t'L ->]]; rewrite !inE => /orP[] /eqP[] /eqP; rewrite eqn_add2l => /eqP e _.
  - by rewrite e t'L in tL.
  - by rewrite e t'L in tL.
rewrite !nin !andbT; apply/eqP => -[]; lia.
Qed.

(* gaussian_elimination_2x2 at step k with a nonsingular 2x2 pivot block E = [e11 e21; e21 e22]: with (x1_i, x2_i) = solve_2x2 E (a_ik, a_i,k+1)
   (the model inlines exactly solve_2x2's two branches) the trailing triangle receives a_ij - (x1_i a_jk + x2_i a_j,k+1), the columns k, k+1 below the
   block receive x1_i, x2_i, and NOTHING else is touched - for every scalar instance *)
Theorem elim_2x2_spec n P k : wf n P -> (k + 1 < n)%N ->
  let e11 := pget P k k in let e21 := pget P (k + 1)%N k in let e22 := pget P (k + 1)%N (k + 1)%N in
  Ops.eqb o (Ops.sub o (Ops.mul o e11 e22) (Ops.mul o e21 e21)) (zero o) = false ->
  let X i := solve_2x2 o e11 e21 e22 (pget P i k) (pget P i (k + 1)%N) in
  let '(P', inf) := elim_2x2 o n P k in
  [/\ inf = 0%N, wf n P' & forall i j, (j <= i < n)%N ->
     pget P' i j = if (k + 1 < j)%N then Ops.sub o (pget P i j) (Ops.add o (Ops.mul o (X i).1 (pget P j k)) (Ops.mul o (X i).2 (pget P j (k + 1)%N)))
                   else if (k + 1 < i)%N && (j == k) then (X i).1
                   else if (k + 1 < i)%N && (j == k + 1)%N then (X i).2 else pget P i j].
Proof.
move=> w kn e11 e21 e22 nz X; rewrite /elim_2x2 -/e11 -/e21 -/e22 nz.
set ldim := (n - k - 2)%coq_nat.
set c1 := List.map (fun t => BK.pget o P (k + 2 + t)%coq_nat k) _; set c2 := List.map (fun t => BK.pget o P (k + 2 + t)%coq_nat (k + 1)%coq_nat) _.
set XX := (if Ops.leb o _ _ then _ else _).
have n1 t : (t < n - k - 2)%N -> nth (zero o) c1 t = pget P (k + 2 + t)%N k.
  by move=> tl; rewrite /c1 mapE seqE (nth_map 0%N) ?size_iota // nth_iota.
have n2 t : (t < n - k - 2)%N -> nth (zero o) c2 t = pget P (k + 2 + t)%N (k + 1)%N.
  by move=> tl; rewrite /c2 mapE seqE (nth_map 0%N) ?size_iota // nth_iota.
have sc1 : size c1 = (n - k - 2)%N by rewrite /c1 mapE size_map seqE size_iota.
have sc2 : size c2 = (n - k - 2)%N by rewrite /c2 mapE size_map seqE size_iota.
have nX t : (t < n - k - 2)%N -> (nth (zero o) XX.1 t, nth (zero o) XX.2 t) = X (k + 2 + t)%N.
  move=> tl; rewrite /XX /X /solve_2x2 -(n1 t tl) -(n2 t tl); case: ifP => _ /=.
  - set X1 := List.map _ (List.combine c1 c2).
    have s1 : size X1 = (n - k - 2)%N by rewrite /X1 mapE size_map combineE size_zip sc1 sc2 minnn.
    have e1 : nth (zero o) X1 t = Ops.div o (Ops.sub o (nth (zero o) c2 t) (Ops.mul o (Ops.div o e21 e11) (nth (zero o) c1 t))) (Ops.sub o e22 (Ops.mul o (Ops.div o e21 e11) e21)).
      by rewrite /X1 mapE combineE (nth_map (zero o, zero o)) ?size_zip ?sc1 ?sc2 ?minnn // nth_zip ?sc1 ?sc2.
    by rewrite mapE combineE (nth_map (zero o, zero o)) ?size_zip ?sc1 ?s1 ?minnn // nth_zip ?sc1 ?s1 //= e1.
  - set X1 := List.map _ (List.combine c1 c2).
    have s1 : size X1 = (n - k - 2)%N by rewrite /X1 mapE size_map combineE size_zip sc1 sc2 minnn.
    have e1 : nth (zero o) X1 t = Ops.div o (Ops.sub o (nth (zero o) c1 t) (Ops.mul o (Ops.div o e11 e21) (nth (zero o) c2 t))) (Ops.sub o e21 (Ops.mul o (Ops.div o e11 e21) e22)).
      by rewrite /X1 mapE combineE (nth_map (zero o, zero o)) ?size_zip ?sc1 ?sc2 ?minnn // nth_zip ?sc1 ?sc2.
    by rewrite mapE combineE (nth_map (zero o, zero o)) ?size_zip ?sc2 ?s1 ?minnn // nth_zip ?sc2 ?s1 //= e1.
case: XX nX => X0 X1 /= nX.
pose g1 (p : nat * nat) (old : T o) := Ops.sub o old (Ops.add o (Ops.mul o (nth (zero o) X0 (p.1 - k - 2)) (nth (zero o) c1 (p.2 - k - 2)))
                                                                  (Ops.mul o (nth (zero o) X1 (p.1 - k - 2)) (nth (zero o) c2 (p.2 - k - 2)))).
pose g2 (p : nat * nat) (old : T o) := if p.2 == k then nth (zero o) X0 (p.1 - k - 2) else nth (zero o) X1 (p.1 - k - 2).
set P1 := List.fold_left _ (List.seq 0 ldim) P.
have eP1 : P1 = List.fold_left (fun P p => pset P p.1 p.2 (g1 p (pget P p.1 p.2))) (upd_pos n (k + 1)) P.
  rewrite /P1 /upd_pos fold_left_flatten fold_left_map seqE.
  have -> : (n - (k + 1) - 1 = n - k - 2)%N by lia.
  apply: fold_left_ext_in => Q j; rewrite mem_iota add0n => /andP[_ jl].
  rewrite fold_left_map seqE.
  have -> : (n - k - 2 - j = ldim - j)%N by [].
  apply: fold_left_ext_in => Q' t _.
  rewrite /g1 /= !nthE.
  have -> : (j + (k + 1) + 1 = j + k + 2)%N by lia.
  have -> : (j + k + 2 - k - 2 = j)%N by lia.
  have -> : (j + k + 2 + t - k - 2 = j + t)%N by lia.
  by [].
have r1 : forall p, p \in upd_pos n (k + 1) -> (p.2 <= p.1 < n)%N.
  by case=> a b; rewrite mem_upd_pos /= => /andP[/andP[_ ->] ->].
have [w1 h1] := fold_updates g1 w (uniq_upd_pos n (k + 1)) r1; rewrite -eP1 in w1 h1.
have eP2 : List.fold_left (fun P t => pset (pset P (k + 2 + t)%coq_nat k (List.nth t X0 (zero o))) (k + 2 + t)%coq_nat (k + 1)%coq_nat (List.nth t X1 (zero o))) (List.seq 0 ldim) P1 =
           List.fold_left (fun P p => pset P p.1 p.2 (g2 p (pget P p.1 p.2))) (cpos2 n k) P1.
  rewrite /cpos2 fold_left_flatten fold_left_map seqE; apply: fold_left_ext_in => Q t _.
  rewrite /g2 /= !nthE eqxx.
  have -> : (k + 1 == k)%N = false by lia.
  by have -> : (k + 2 + t - k - 2 = t)%N by lia.
have r2 : forall p, p \in cpos2 n k -> (p.2 <= p.1 < n)%N.
  by case=> a b; rewrite mem_cpos2 /=; lia.
have [w2 h2] := fold_updates g2 w1 (uniq_cpos2 n k) r2.
rewrite eP2; split=> // i j ij.
rewrite h2 // mem_cpos2 h1 // mem_upd_pos.
move: ij => /andP[ji i_n]; rewrite i_n !andbT ji andbT.
case: (ltnP (k + 1) j) => kj.
- have -> : (j == k) = false by lia.
  have -> : (j == k + 1)%N = false by lia.
  have il : (i - k - 2 < n - k - 2)%N by lia.
  have jl : (j - k - 2 < n - k - 2)%N by lia.
  have := nX _ il; have -> : (k + 2 + (i - k - 2) = i)%N by lia.
  move=> <- /=; rewrite /g1 /= n1 // n2 //.
  by have -> : (k + 2 + (j - k - 2) = j)%N by lia.
- case: (ltnP (k + 1) i) => ki /=; last by rewrite andbF.
  have il : (i - k - 2 < n - k - 2)%N by lia.
  have := nX _ il; have -> : (k + 2 + (i - k - 2) = i)%N by lia.
  move=> <- /=; rewrite andbT /g2 /=.
  case: (j =P k) => [//|nk] /=.
  by case: (j =P (k + 1)%N).
Qed.
End E.

(* in exact arithmetic the step IS one step of the L D L^T factorization: with d = a_kk, l_i = a'_ik the stored multipliers and S = the stored
   trailing triangle,  a_ij = S_ij + l_i d l_j  (k < j <= i),  a_ik = l_i d,  and the pivot entry is left in place *)
From mathcomp Require Import all_algebra.
From mathcomp Require Import ring.
Section Rec.
Variable F : rcfType.
Import GRing.Theory.
Local Open Scope ring_scope.
Theorem elim_1x1_reconstruct n (P : list (list F)) k : wf (o:=OpsF F) n P -> (k < n)%N -> BK.pget (OpsF F) P k k != 0 ->
  let d := BK.pget (OpsF F) P k k in
  let P' := (elim_1x1 (OpsF F) n P k).1 in
  [/\ BK.pget (OpsF F) P' k k = d,
      forall i, (k < i < n)%N -> BK.pget (OpsF F) P i k = BK.pget (OpsF F) P' i k * d &
      forall i j, (k < j)%N -> (j <= i < n)%N -> BK.pget (OpsF F) P i j = BK.pget (OpsF F) P' i j + BK.pget (OpsF F) P' i k * d * BK.pget (OpsF F) P' j k].
Proof.
move=> w kn dn /=.
have nz : Ops.eqb (OpsF F) (BK.pget (OpsF F) P k k) (zero (OpsF F)) = false by apply/negbTE.
have := elim_1x1_spec w kn nz; case: (elim_1x1 (OpsF F) n P k) => P' inf /= [_ w' sp].
split.
- rewrite sp; last by rewrite leqnn.
  by rewrite ltnn eqxx andbF.
- move=> i ki; rewrite sp; last by lia.
  have -> : (k < i)%N by lia.
  by rewrite ltnn eqxx /= divfK.
- move=> i j kj ji.
  have ki : (k < i)%N by lia.
  rewrite sp // kj (sp i k); last by lia.
  rewrite ltnn eqxx ki /= (sp j k); last by lia.
  rewrite ltnn eqxx kj /=.
  by field.
Qed.
End Rec.

From SV Require Import BKPf.
Section Rec2.
Variable F : rcfType.
Import GRing.Theory.
Local Open Scope ring_scope.
Notation pg := (BK.pget (OpsF F)).
(* the 2x2 step in exact arithmetic: with E the pivot block and l_i = (a'_ik, a'_i,k+1) the stored multipliers,
   (a_ik, a_i,k+1) = E l_i  and  a_ij = S_ij + l_i^T E l_j: one block step of the L D L^T factorization; the block itself stays in place *)
Theorem elim_2x2_reconstruct n (P : list (list F)) k : wf (o:=OpsF F) n P -> (k + 1 < n)%N ->
  let e11 := pg P k k in let e21 := pg P (k + 1)%N k in let e22 := pg P (k + 1)%N (k + 1)%N in
  e11 * e22 - e21 * e21 != 0 ->
  let P' := (elim_2x2 (OpsF F) n P k).1 in
  [/\ pg P' k k = e11 /\ pg P' (k + 1)%N k = e21 /\ pg P' (k + 1)%N (k + 1)%N = e22,
      forall i, (k + 1 < i < n)%N -> pg P i k = e11 * pg P' i k + e21 * pg P' i (k + 1)%N /\ pg P i (k + 1)%N = e21 * pg P' i k + e22 * pg P' i (k + 1)%N &
      forall i j, (k + 1 < j)%N -> (j <= i < n)%N ->
        pg P i j = pg P' i j + (pg P' i k * (e11 * pg P' j k + e21 * pg P' j (k + 1)%N) + pg P' i (k + 1)%N * (e21 * pg P' j k + e22 * pg P' j (k + 1)%N))].
Proof.
move=> w kn e11 e21 e22 dn /=.
have nz : Ops.eqb (OpsF F) (Ops.sub (OpsF F) (Ops.mul (OpsF F) e11 e22) (Ops.mul (OpsF F) e21 e21)) (zero (OpsF F)) = false by apply/negbTE.
have := elim_2x2_spec w kn nz; rewrite -/e11 -/e21 -/e22.
case: (elim_2x2 (OpsF F) n P k) => P' inf /= [_ w' sp].
have X i : let x := solve_2x2 (OpsF F) e11 e21 e22 (pg P i k) (pg P i (k + 1)%N) in e11 * x.1 + e21 * x.2 = pg P i k /\ e21 * x.1 + e22 * x.2 = pg P i (k + 1)%N.
  by have := @solve_2x2_spec F 0 e11 e21 e22 (pg P i k) (pg P i (k + 1)%N) dn; case: (solve_2x2 _ _ _ _ _ _).
have col i : (k + 1 < i < n)%N -> pg P' i k = (solve_2x2 (OpsF F) e11 e21 e22 (pg P i k) (pg P i (k + 1)%N)).1 /\ pg P' i (k + 1)%N = (solve_2x2 (OpsF F) e11 e21 e22 (pg P i k) (pg P i (k + 1)%N)).2.
  move=> /andP[ki i_n]; rewrite !sp; [|lia|lia].
  have -> : (k + 1 < k)%N = false by lia.
  rewrite ltnn ki eqxx /=.
  have -> : ((k + 1)%N == k) = false by lia.
  by rewrite eqxx.
split.
- rewrite !sp; [|lia|lia|lia].
  have -> : (k + 1 < k)%N = false by lia.
  by rewrite !ltnn /=.
- move=> i ki; have [-> ->] := col i ki; have [a b] := X i; by rewrite a b.
- move=> i j kj ji.
  have ki : (k + 1 < i < n)%N by lia.
  have kj' : (k + 1 < j < n)%N by lia.
  have [-> ->] := col i ki; have [-> ->] := col j kj'.
  have [a b] := X j; rewrite a b sp // kj /=.
  by ring.
Qed.
End Rec2.
