(* C10: the permutation bracket of BKLDLT::solve.  solve() applies the recorded interchanges to b in order, runs the three
   triangular/diagonal sweeps, and undoes the interchanges in reverse order.  Here: the second pass is the exact inverse of the
   first for every interchange list whose indices are in range (every scalar instance; nothing arithmetic is used), and every
   interchange recorded by permc is in range when the permutation vector encodes rows of the matrix. *)
From SV Require Import Ops LinAlg BK.
From mathcomp Require Import all_ssreflect.
From mathcomp Require Import zify.
From SV Require Import OpsF BKElim.
Set Implicit Arguments. Unset Strict Implicit. Unset Printing Implicit Defensive.

Section Pm.
Variable o : Ops.
Implicit Types (x : list (T o)) (pc : list (nat * nat)).

Definition sw x (pr : nat * nat) : list (T o) := vswap o x pr.1 pr.2.
Definition inr (m : nat) pc : Prop := forall pr, pr \in pc -> (pr.1 < m)%N /\ (pr.2 < m)%N.

Lemma fold_leftE A B (f : A -> B -> A) l a : List.fold_left f l a = foldl f a l.
Proof. by elim: l a => [|b l IH] a //=. Qed.

Lemma size_vswap x i j : size (vswap o x i j) = size x.
Proof. by rewrite /vswap !size_vset. Qed.

Lemma nth_vswap x i j k : (i < size x)%N -> (j < size x)%N ->
  nth (zero o) (vswap o x i j) k = if k == j then nth (zero o) x i else if k == i then nth (zero o) x j else nth (zero o) x k.
Proof. by move=> hi hj; rewrite /vswap /vnth !nthE !nth_vset ?size_vset. Qed.

Lemma vswap_invol x i j : (i < size x)%N -> (j < size x)%N -> vswap o (vswap o x i j) i j = x.
Proof.
move=> hi hj; apply: (@eq_from_nth _ (zero o)); first by rewrite !size_vswap.
move=> k _; rewrite !nth_vswap ?size_vswap // !eqxx.
case: (k =P j) => [->|nj]; first by case: (i =P j) => [->|].
by case: (k =P i) => [->|].
Qed.

Lemma size_fold_sw pc x : size (foldl sw x pc) = size x.
Proof. by elim: pc x => [|pr pc IH] x //=; rewrite IH /sw size_vswap. Qed.

(* undoing the interchanges in reverse order restores the vector *)
Theorem unpermute_permute pc x : inr (size x) pc -> foldl sw (foldl sw x pc) (rev pc) = x.
Proof.
elim: pc x => [|pr pc IH] x h //=.
rewrite rev_cons -cats1 foldl_cat /= IH; last first.
  by move=> q hq; rewrite /sw size_vswap; apply: h; rewrite inE hq orbT.
by case: (h pr); rewrite ?inE ?eqxx // => h1 h2; rewrite /sw vswap_invol.
Qed.

(* the same statement on the stdlib folds that bk_solve is written with *)
Theorem bk_solve_permutation_bracket pc x : inr (size x) pc ->
  List.fold_left (fun x pr => vswap o x (fst pr) (snd pr)) (List.rev pc)
    (List.fold_left (fun x pr => vswap o x (fst pr) (snd pr)) pc x) = x.
Proof. by move=> h; rewrite revE !fold_leftE; apply: (@unpermute_permute pc x). Qed.

(* the sweeps between the two passes see the permuted right-hand side: entry k of the permuted vector after one interchange *)
Theorem permute_entry x i j k : (i < size x)%N -> (j < size x)%N ->
  vnth o (vswap o x i j) k = if k == j then vnth o x i else if k == i then vnth o x j else vnth o x k.
Proof. by move=> hi hj; rewrite /vnth !nthE nth_vswap. Qed.
End Pm.

(* every interchange recorded by permc is in range when the permutation vector has one entry per row and each entry
   (p for a 1x1 pivot, -p-1 for a 2x2 pivot) encodes a row index p < n *)
Definition dec (v : BinNums.Z) : nat := BinInt.Z.to_nat (if BinInt.Z.leb 0 v then v else BinInt.Z.sub (BinInt.Z.opp v) 1).
Definition perm_ok (n : nat) (pm : list BinNums.Z) : Prop := size pm = n /\ forall i, (i < n)%N -> (dec (nth BinNums.Z0 pm i) < n)%N.

Lemma permc_from k (pm : list BinNums.Z) (pr : nat * nat) :
  pr \in List.concat (mapi_from k (fun i v => let p := dec v in if PeanoNat.Nat.eqb p i then [::] else [:: (i, p)]) pm) ->
  exists2 j, (j < size pm)%N & pr = ((k + j)%N, dec (nth BinNums.Z0 pm j)).
Proof.
elim: pm k => [|v pm IH] k //=; rewrite appE mem_cat => /orP[].
  case: (PeanoNat.Nat.eqb _ _) => //; rewrite inE => /eqP->; by exists 0%N; rewrite ?addn0.
by move/IH => [j hj ->]; exists j.+1 => //; rewrite addSnnS.
Qed.

Theorem permc_in_range n pm : perm_ok n pm -> inr n (permc pm).
Proof.
case=> sz h pr; rewrite /permc /mapi => /permc_from [j hj ->] /=; rewrite add0n.
by rewrite sz in hj; split => //; apply: h.
Qed.

