(* C10: the permutation vector produced by the compute() model is always well formed (one entry per row, each entry encoding a
   row index below n), for every scalar instance and every input - so the hypothesis of the permutation bracket of solve()
   (BKPerm.v) holds for every factorization the model can produce. *)
From SV Require Import Ops LinAlg BK.
From mathcomp Require Import all_ssreflect.
From mathcomp Require Import zify.
From SV Require Import OpsF BKElim BKPerm.
Set Implicit Arguments. Unset Strict Implicit. Unset Printing Implicit Defensive.

Lemma dec_of_nat r : dec (BinInt.Z.of_nat r) = r.
Proof. rewrite /dec; case: BinInt.Z.leb_spec0; lia. Qed.
Lemma dec_neg r : dec (BinInt.Z.sub (BinInt.Z.opp (BinInt.Z.of_nat r)) 1) = r.
Proof. rewrite /dec; case: BinInt.Z.leb_spec0; lia. Qed.

Section PermOk.
Variable o : Ops.
Variable alpha : T o.

Lemma argmax_range (g : nat -> T o) l a0 r0 lo hi : (lo < r0 < hi)%N -> (forall i, i \in l -> (lo < i < hi)%N) ->
  (lo < (List.fold_left (fun (st : T o * nat) i => let '(lam, r) := st in let a := g i in if ltb o lam a then (a, i) else (lam, r)) l (a0, r0)).2 < hi)%N.
Proof.
elim: l a0 r0 => [|i l IH] a0 r0 h0 hl //=.
have hl' : forall j, j \in l -> (lo < j < hi)%N by move=> j hj; apply: hl; rewrite inE hj orbT.
by case: (ltb o a0 (g i)); apply: IH => //; apply: hl; rewrite inE eqxx.
Qed.

Lemma find_lambda_range n P k : (k + 1 < n)%N -> (k < (find_lambda o n P k).2 < n)%N.
Proof.
move=> h; rewrite /find_lambda; apply: (@argmax_range (fun i => abs o (pget o P i k))); first by lia.
by move=> i; rewrite seqE mem_iota; lia.
Qed.

Lemma size_set_perm pm k v : size (set_perm pm k v) = size pm.
Proof. by rewrite /set_perm /mapi size_mapi_from'. Qed.
Lemma nth_set_perm pm k v i : (i < size pm)%N -> nth BinNums.Z0 (set_perm pm k v) i = if i == k then v else nth BinNums.Z0 pm i.
Proof. by move=> h; rewrite /set_perm /mapi (@nth_mapi_from' _ _ 0 _ pm i BinNums.Z0 BinNums.Z0) // add0n eqbE. Qed.

Lemma perm_ok_set n pm k v : perm_ok n pm -> (dec v < n)%N -> perm_ok n (set_perm pm k v).
Proof.
case=> sz h hv; split; first by rewrite size_set_perm.
by move=> i hi; rewrite nth_set_perm ?sz //; case: (i == k) => //; apply: h.
Qed.

Lemma pivoting_1x1_ok n P pm k r : perm_ok n pm -> (r < n)%N -> perm_ok n (pivoting_1x1 o n P pm k r).2.
Proof.
move=> ok hr; rewrite /pivoting_1x1; have ok' := perm_ok_set k ok (v:=BinInt.Z.of_nat r).
by case: (PeanoNat.Nat.eqb k r) => /=; apply: ok'; rewrite dec_of_nat.
Qed.

Lemma pivoting_1x1_nth n P pm k r : (k < size pm)%N -> nth BinNums.Z0 (pivoting_1x1 o n P pm k r).2 k = BinInt.Z.of_nat r.
Proof. by move=> h; rewrite /pivoting_1x1; case: (PeanoNat.Nat.eqb k r) => /=; rewrite nth_set_perm // eqxx. Qed.
Lemma pivoting_1x1_nth_other n P pm k r i : (i < size pm)%N -> i != k -> nth BinNums.Z0 (pivoting_1x1 o n P pm k r).2 i = nth BinNums.Z0 pm i.
Proof. by move=> h /negbTE ne; rewrite /pivoting_1x1; case: (PeanoNat.Nat.eqb k r) => /=; rewrite nth_set_perm // ne. Qed.
Lemma pivoting_1x1_size n P pm k r : size (pivoting_1x1 o n P pm k r).2 = size pm.
Proof. by rewrite /pivoting_1x1; case: (PeanoNat.Nat.eqb k r) => /=; rewrite size_set_perm. Qed.

Lemma pivoting_2x2_ok n P pm k r p : perm_ok n pm -> (k + 1 < n)%N -> (r < n)%N -> (p < n)%N -> perm_ok n (pivoting_2x2 o n P pm k r p).2.
Proof.
move=> ok hk hr hp; rewrite /pivoting_2x2.
case e1: (pivoting_1x1 o n P pm k p) => [P1 pm1].
case e2: (pivoting_1x1 o n P1 pm1 (k + 1) r) => [P2 pm2] /=.
have ok1 : perm_ok n pm1 by have := pivoting_1x1_ok P k ok hp; rewrite e1.
have ok2 : perm_ok n pm2 by have := pivoting_1x1_ok P1 (k + 1) ok1 hr; rewrite e2.
have s1 : size pm1 = n by case: ok1. have s2 : size pm2 = n by case: ok2.
have s0 : size pm = n by case: ok.
have n2k : nth BinNums.Z0 pm2 k = BinInt.Z.of_nat p.
  have h1 : (k < size pm1)%N by lia.
  have h2 : k != (k + 1)%N by lia.
  have := @pivoting_1x1_nth_other n P1 pm1 (k + 1) r k h1 h2; rewrite e2 /= => ->.
  have h3 : (k < size pm)%N by lia.
  by have := @pivoting_1x1_nth n P pm k p h3; rewrite e1.
have n2k1 : nth BinNums.Z0 pm2 (k + 1) = BinInt.Z.of_nat r.
  have h1 : (k + 1 < size pm1)%N by lia.
  by have := @pivoting_1x1_nth n P1 pm1 (k + 1) r h1; rewrite e2.
apply: perm_ok_set.
  by apply: perm_ok_set => //; rewrite !nthE n2k dec_neg.
have h4 : (k + 1 < size pm2)%N by lia.
rewrite !nthE (nth_set_perm _ _ h4).
have -> : (k + 1 == k) = false by lia.
by rewrite n2k1 dec_neg.
Qed.

Lemma permutate_mat_ok n P pm k : perm_ok n pm -> (k + 1 < n)%N -> perm_ok n (permutate_mat o alpha n P pm k).2.
Proof.
move=> ok hk; rewrite /permutate_mat.
case el: (find_lambda o n P k) => [lambda r].
have hr : (r < n)%N by have := find_lambda_range P hk; rewrite el /=; lia.
case: (ltb o (zero o) lambda) => //.
case: (ltb o _ _) => //.
case: (find_sigma o n P k r k) => [sigma p].
case: (ltb o _ _) => //.
case: (leb o _ _).
  by case e: (pivoting_1x1 o n P pm k r) => [P1 pm1] /=; have := pivoting_1x1_ok P k ok hr; rewrite e.
case e: (pivoting_2x2 o n P pm k r k) => [P1 pm1] /=.
by have := @pivoting_2x2_ok n P pm k r k ok hk hr; rewrite e; apply; lia.
Qed.

Lemma bk_loop_ok fuel n : forall k P pm inf, perm_ok n pm -> perm_ok n (bk_loop o alpha fuel n k P pm inf).1.1.2.
Proof.
elim: fuel => [|fu IH] k P pm inf ok //=.
rewrite ltbE; case: ifP => // hk.
have hk' : (k + 1 < n)%N by lia.
have := permutate_mat_ok P ok hk'.
case: (permutate_mat o alpha n P pm k) => [[is1 P1] pm1] /= ok1.
case: is1.
  by case: (elim_1x1 o n P1 k) => [P2 inf2]; case: (PeanoNat.Nat.eqb inf2 0) => //; apply: IH.
by case: (elim_2x2 o n P1 k) => [P2 inf2]; case: (PeanoNat.Nat.eqb inf2 0) => //; apply: IH.
Qed.

Lemma perm_ok_init n : perm_ok n (List.map BinInt.Z.of_nat (List.seq 0 n)).
Proof.
split; first by rewrite mapE seqE size_map size_iota.
by move=> i hi; rewrite mapE seqE (nth_map 0%N) ?size_iota // nth_iota // add0n dec_of_nat.
Qed.

Theorem bk_compute_perm_ok n src uplo shift : perm_ok n (perm o (bk_compute o alpha n src uplo shift)).
Proof.
rewrite /bk_compute.
have := @bk_loop_ok n n 0 (copy_data o n src uplo shift) _ 0 (perm_ok_init n).
by case: (bk_loop _ _ _ _ _ _ _ _) => [[[P pm] inf] k] /=.
Qed.
End PermOk.
