(* C10: the Bunch-Kaufman pivot strategy of BKLDLT (model/BK.v) in exact arithmetic, the
   lower/upper agreement of copy_data for every scalar instance, and the freshness of the status. *)
From SV Require Import Ops LinAlg BK.
From mathcomp Require Import all_ssreflect all_algebra.
From mathcomp Require Import ring zify.
From SV Require Import OpsF.
Set Implicit Arguments. Unset Strict Implicit. Unset Printing Implicit Defensive.
Import Order.Theory GRing.Theory Num.Theory.
Local Open Scope ring_scope.

Section Pivot.
Variable F : rcfType.
Variable alpha : F.
Hypothesis a0 : 0 < alpha.
Hypothesis a1 : alpha < 1.
Notation O := (OpsF F).

(* akk, arr: the two diagonal candidates; lambda = |a_rk| > 0 the largest off-diagonal magnitude of column k;
   sigma >= lambda the largest off-diagonal magnitude of row/column r *)
Variables (akk arr ark : F) (sigma : F).
Let lambda := `|ark|.
Hypothesis lam_pos : 0 < lambda.
Hypothesis sig_ge : lambda <= sigma.

(* a 1x1 pivot chosen without interchange is non-zero *)
Theorem choice0_pivot_nonzero : bk_choice O alpha `|akk| lambda sigma `|arr| = 0%N -> akk != 0.
Proof.
rewrite /bk_choice /=.
case: ltP => h1; last first.
  move=> _; rewrite -normr_gt0; exact: lt_le_trans (mulr_gt0 a0 lam_pos) h1.
case: ltP => h2; first by case: ifP.
move=> _; rewrite -normr_gt0.
have : 0 < alpha * lambda * lambda by rewrite !mulr_gt0.
move=> /lt_le_trans /(_ h2).
have s0 : 0 < sigma by exact: lt_le_trans lam_pos sig_ge.
by rewrite pmulr_rgt0.
Qed.

(* a 1x1 pivot chosen after interchanging k and r is non-zero *)
Theorem choice1_pivot_nonzero : bk_choice O alpha `|akk| lambda sigma `|arr| = 1%N -> arr != 0.
Proof.
rewrite /bk_choice /=.
case: ltP => h1 //; case: ltP => h2 //; case: leP => h3 // _.
rewrite -normr_gt0; apply: lt_le_trans h3.
by rewrite mulr_gt0 //; exact: lt_le_trans lam_pos sig_ge.
Qed.

(* a 2x2 pivot [a_kk a_rk; a_rk a_rr] chosen by the strategy is nonsingular *)
Theorem choice2_block_nonsingular : bk_choice O alpha `|akk| lambda sigma `|arr| = 2%N ->
  akk * arr - ark * ark != 0.
Proof.
rewrite /bk_choice /=.
case: ltP => h1 //; case: ltP => h2 //; case: leP => h3 // _.
have s0 : 0 < sigma by exact: lt_le_trans lam_pos sig_ge.
(* |akk| |arr| < |akk| alpha sigma < alpha^2 lambda^2 < lambda^2 = ark^2 *)
have b1 : `|akk| * `|arr| <= `|akk| * (alpha * sigma) by rewrite ler_wpmul2l // ltW.
have b2 : `|akk| * (alpha * sigma) < alpha * (alpha * lambda * lambda).
  by rewrite mulrCA ltr_pmul2l // mulrC.
have b3 : alpha * (alpha * lambda * lambda) < lambda * lambda.
  rewrite !mulrA -[X in _ < X]mul1r -mulrA ltr_pmul2r ?mulr_gt0 //.
  by rewrite -[X in _ < X]mulr1; apply: ltr_pmul; rewrite ?ltW.
have lt : `|akk * arr| < `|ark * ark| by rewrite !normrM; exact: le_lt_trans b1 (lt_trans b2 b3).
apply/eqP => /subr0_eq e; by rewrite e ltxx in lt.
Qed.

(* in a 2x2 pivot the off-diagonal entry strictly dominates a_kk: solve_2x2 / gaussian_elimination_2x2 always take their SECOND
   branch (|e21| <= |e11| is false) - the first one is dead code under the pivot strategy, which a coverage run of the harness confirms *)
Theorem choice2_offdiag_dominates : bk_choice O alpha `|akk| lambda sigma `|arr| = 2%N ->
  Ops.leb O (Ops.abs O ark) (Ops.abs O akk) = false.
Proof.
rewrite /bk_choice /=.
case: ltP => h1 //; case: ltP => h2 //; case: leP => h3 // _.
apply/negbTE; rewrite -ltNge; apply: lt_trans h1 _.
by rewrite -[X in _ < X]mul1r ltr_pmul2r.
Qed.
End Pivot.

(* ------------------------------------------------------------------ copy_data: both triangles agree *)
Section Copy.
Variable o : Ops.
Lemma copy_lower_upper (n : nat) (src : list (list (T o))) (shift : T o) :
  (forall i j, (i < n)%N -> (j < n)%N -> List.nth i (List.nth j src nil) (zero o) = List.nth j (List.nth i src nil) (zero o)) ->
  copy_data o n src true shift = copy_data o n src false shift.
Proof.
move=> sym; rewrite /copy_data.
apply: List.map_ext_in => j /List.in_seq [_ jn].
apply: List.map_ext_in => i /List.in_seq [ij ijn].
have jn' : (j < n)%N by apply/ssrnat.ltP; lia.
have in' : (i < n)%N by apply/ssrnat.ltP; lia.
by rewrite sym.
Qed.
End Copy.

(* ------------------------------------------------------------------ the status describes this call *)
Section Info.
Variable o : Ops.
Variable alpha : T o.
Lemma bk_loop_info fuel n : forall k P pm inf, (inf = 0%N \/ inf = 3%N) ->
  let '(_, _, inf', _) := bk_loop o alpha fuel n k P pm inf in (inf' = 0%N \/ inf' = 3%N).
Proof.
elim: fuel => [|fuel IH] k P pm inf hinf /=; first by [].
case: (PeanoNat.Nat.ltb k (n - 1)) => //.
case: (permutate_mat o alpha n P pm k) => [[is1 P'] pm'].
case: is1.
- rewrite /elim_1x1; case: (Ops.eqb o _ _); first by right.
  set P2 := List.fold_left _ _ _. exact: (IH (k + 1)%coq_nat P2 pm' 0%N (or_introl erefl)).
- rewrite /elim_2x2; case: (Ops.eqb o _ _); first by right.
  case: (if Ops.leb o _ _ then _ else _) => X0 X1.
  set P2 := List.fold_left _ _ _. exact: (IH (k + 2)%coq_nat P2 pm' 0%N (or_introl erefl)).
Qed.

(* info() is Successful (0) or NumericalIssue (3) after EVERY compute(), whatever happened before: never a stale value *)
Theorem bk_info_fresh n src uplo shift :
  let s := bk_compute o alpha n src uplo shift in (info o s = 0%N \/ info o s = 3%N).
Proof.
rewrite /bk_compute.
have := @bk_loop_info n n 0 (copy_data o n src uplo shift) (List.map BinInt.Z.of_nat (List.seq 0 n)) 0 (or_introl erefl).
case: (bk_loop _ _ _ _ _ _ _ _) => [[[P pm] inf] k] /= h.
by case: (PeanoNat.Nat.eqb k (n - 1)) => //; case: (Ops.eqb o _ _) => //; right.
Qed.
End Info.

(* ------------------------------------------------------------------ the 2x2 diagonal-block solve is exact *)
Section Solve2.
Variable F : rcfType.
Notation O := (OpsF F).
Theorem solve_2x2_spec (alpha e11 e21 e22 b1 b2 : F) : e11 * e22 - e21 * e21 != 0 ->
  let '(x1, x2) := solve_2x2 O e11 e21 e22 b1 b2 in
  e11 * x1 + e21 * x2 = b1 /\ e21 * x1 + e22 * x2 = b2.
Proof.
move=> det; rewrite /solve_2x2 /=.
case: leP => h.
- have e11n : e11 != 0.
    apply/eqP => e; move: h det; rewrite e normr0 normr_le0 => /eqP ->.
    by rewrite !mul0r subrr eqxx.
  have dn : e22 - e21 / e11 * e21 != 0.
    apply/eqP => e; move/eqP: det; apply.
    have -> : e11 * e22 - e21 * e21 = e11 * (e22 - e21 / e11 * e21) by field.
    by rewrite e mulr0.
  by split; field; rewrite e11n [e22 * e11]mulrC.
- have e21n : e21 != 0 by rewrite -normr_gt0; exact: le_lt_trans (normr_ge0 _) h.
  have dn : e21 - e11 / e21 * e22 != 0.
    apply/eqP => e; move/eqP: det; apply.
    have -> : e11 * e22 - e21 * e21 = - (e21 * (e21 - e11 / e21 * e22)) by field.
    by rewrite e mulr0 oppr0.
  have dn' : e21 * e21 - e11 * e22 != 0 by rewrite -opprB oppr_eq0.
  by split; field; rewrite e21n dn'.
Qed.
End Solve2.

(* ------------------------------------------------------------------ the pivot decision inside permutate_mat IS bk_choice *)
Section Decision.
Variable o : Ops.
Variable alpha : T o.
(* is_1x1 flag returned by permutate_mat, as a function of the decision; lambda > 0 *)
Theorem permutate_mat_decision n P pm k :
  let '(lambda, r) := find_lambda o n P k in
  Ops.ltb o (zero o) lambda = true ->
  let abs_akk := Ops.abs o (pget o P k k) in
  let '(sigma, p) := find_sigma o n P k r k in
  fst (fst (permutate_mat o alpha n P pm k)) = negb (Nat.eqb (bk_choice o alpha abs_akk lambda sigma (Ops.abs o (pget o P r r))) 2).
Proof.
rewrite /permutate_mat /bk_choice.
case: (find_lambda o n P k) => lambda r lpos; rewrite lpos /=.
case: (find_sigma o n P k r k) => sigma p.
case: (Ops.ltb o (Ops.abs o (pget o P k k)) _) => //=.
case: (Ops.ltb o (Ops.mul o sigma _) _) => //=.
case: (Ops.leb o _ _) => /=.
- by case: (pivoting_1x1 o n P pm k r).
- by case: (pivoting_2x2 o n P pm k r k).
Qed.
End Decision.
