(* C19 Thm 4: the computed draw lies in [-1/2, 1/2] in every radix-2 format with
   gradual underflow that contains 1/2 and 1 (binary32, binary64, x87-80, ...),
   stated on the GENERATED term random_real instantiated with rounded operations. *)
From Flocq Require Import Core.
Require Import Reals Lra Lia ZArith.
From SV Require Import Cxx Ops RngGen RngPf.
Local Open Scope R_scope.

Section R.
Variable prec emin : Z.
Hypothesis Hprec : (2 <= prec)%Z.
Hypothesis Hemin : (emin <= -prec)%Z.
Context (Hp : Prec_gt_0 prec).
Notation fexp := (FLT_exp emin prec).
Notation rnd := (round radix2 fexp ZnearestE).


Definition OpsFl : Ops := {|
  T := R; zero := 0; one := 1;
  add := fun x y => rnd (x + y); sub := fun x y => rnd (x - y);
  mul := fun x y => rnd (x * y); div := fun x y => rnd (x / y);
  neg := Ropp; abs := Rabs; sqrt := fun x => rnd (R_sqrt.sqrt x);
  ltb := fun x y => if Rlt_dec x y then true else false;
  leb := fun x y => if Rle_dec x y then true else false;
  eqb := fun x y => if Req_EM_T x y then true else false;
  of_Z := fun z => rnd (IZR z);
  of_lit := fun l => rnd (IZR (lit_num l) / IZR (Zpos (lit_den l))) |}.

Lemma fmt_bpow e : (emin <= e)%Z -> generic_format radix2 fexp (bpow radix2 e).
Proof. intros. apply generic_format_bpow. unfold FLT_exp. lia. Qed.
Lemma fmt_1 : generic_format radix2 fexp 1.
Proof. change 1 with (bpow radix2 0). apply fmt_bpow. lia. Qed.
Lemma fmt_half : generic_format radix2 fexp (/2).
Proof. change (/2) with (bpow radix2 (-1)). apply fmt_bpow. lia. Qed.
Lemma fmt_0 : generic_format radix2 fexp 0.
Proof. apply generic_format_0. Qed.

Lemma rnd_unit x : 0 <= x <= 1 -> 0 <= rnd x <= 1.
Proof.
  intros [H0 H1]. split.
  - rewrite <- (round_generic radix2 fexp ZnearestE 0 fmt_0). apply round_le; auto with typeclass_instances.
  - rewrite <- (round_generic radix2 fexp ZnearestE 1 fmt_1). apply round_le; auto with typeclass_instances.
Qed.

Lemma draw_range_R (s m : R) : 0 <= s -> 0 < m -> s <= m ->
  let q := rnd (rnd s / rnd m) in - / 2 <= rnd (q - rnd (/2)) <= /2.
Proof.
  intros Hs Hm Hsm q.
  rewrite (round_generic radix2 fexp ZnearestE _ fmt_half).
  assert (Hrs : 0 <= rnd s <= rnd m).
  { split. rewrite <- (round_generic radix2 fexp ZnearestE 0 fmt_0). apply round_le; auto with typeclass_instances.
    apply round_le; auto with typeclass_instances. }
  assert (Hq : 0 <= q <= 1).
  { apply rnd_unit. destruct (Req_dec (rnd m) 0) as [E|E].
    - rewrite E in *. unfold Rdiv. rewrite Rinv_0. lra.
    - assert (0 < rnd m) by lra. split. apply Rmult_le_pos; [lra| left; apply Rinv_0_lt_compat; lra].
      apply (Rmult_le_reg_r (rnd m)); [lra|]. unfold Rdiv. rewrite Rmult_assoc, Rinv_l by lra.
      rewrite Rmult_1_r, Rmult_1_l. apply Hrs. }
  split.
  - assert (G: generic_format radix2 fexp (- /2)) by (apply generic_format_opp, fmt_half).
    rewrite <- (round_generic radix2 fexp ZnearestE _ G). apply round_le; auto with typeclass_instances. lra.
  - assert (X : rnd (q - /2) <= rnd (/2)) by (apply round_le; auto with typeclass_instances; lra).
    rewrite (round_generic radix2 fexp ZnearestE _ fmt_half) in X. exact X.
Qed.

(* the statement on the generated draw *)
Theorem draw_range (s : Z) : in_range s ->
  - / 2 <= fst (random_real OpsFl s) <= / 2 /\ in_range (snd (random_real OpsFl s)).
Proof.
  intros Hs. rewrite random_real_shape. cbn [fst snd].
  destruct (next_spec s Hs) as [_ Hn]. split; [|exact Hn].
  set (s' := next_long_rand s) in *. clearbody s'.
  cbn [sub div of_Z of_lit OpsFl lit_num lit_den].
  replace (IZR 1 / IZR 2) with (/2) by (simpl; lra).
  apply draw_range_R.
  - apply IZR_le. lia.
  - apply IZR_lt. lia.
  - apply IZR_le. lia.
Qed.

Theorem draw_range_complex (s : Z) : in_range s ->
  let '((re, im), s') := random_complex OpsFl s in
  - / 2 <= re <= / 2 /\ - / 2 <= im <= / 2 /\ in_range s'.
Proof.
  intros Hs. rewrite random_complex_shape.
  destruct (draw_range s Hs) as [A B].
  destruct (next_spec s Hs) as [_ Hn].
  destruct (draw_range _ Hn) as [C D].
  destruct (next_spec _ Hn) as [_ Hnn].
  repeat split; try tauto; try apply Hnn.
Qed.
End R.

(* the three formats the library is instantiated with *)
Corollary draw_range_binary64 s : in_range s -> - / 2 <= fst (random_real (OpsFl 53 (-1074)) s) <= / 2.
Proof. intros H. apply (draw_range 53 (-1074)); try lia; try exact H. reflexivity. Qed.
Corollary draw_range_binary32 s : in_range s -> - / 2 <= fst (random_real (OpsFl 24 (-149)) s) <= / 2.
Proof. intros H. apply (draw_range 24 (-149)); try lia; try exact H. reflexivity. Qed.
Corollary draw_range_x87 s : in_range s -> - / 2 <= fst (random_real (OpsFl 64 (-16445)) s) <= / 2.
Proof. intros H. apply (draw_range 64 (-16445)); try lia; try exact H. reflexivity. Qed.
