(* C08: the Givens rotation kernel (stable_scaling / compute_rotation) in exact arithmetic. *)
From SV Require Import Ops Givens.
From mathcomp Require Import all_ssreflect all_algebra.
From mathcomp Require Import ring zify.
From SV Require Import OpsF.
Set Implicit Arguments. Unset Strict Implicit. Unset Printing Implicit Defensive.
Import Order.Theory GRing.Theory Num.Theory.
Local Open Scope ring_scope.

Section P.
Variable F : rcfType.
Variable cut : F.
Notation O := (OpsF F).

Lemma c2E : c2 O = 2%:R^-1. Proof. by rewrite /c2 /= /F_of_lit /= mul1r. Qed.
Lemma c4E : c4 O = 4%:R^-1. Proof. by rewrite /c4 /= /F_of_lit /= mul1r. Qed.
Lemma c8E : c8 O = 8%:R^-1. Proof. by rewrite /c8 /= /F_of_lit /= mul1r. Qed.
Lemma c38E : c38 O = 3%:R / 8%:R. Proof. by rewrite /c38 /= /F_of_lit /=. Qed.

(* standard branch: an exact rotation *)
Lemma scaling_std (a b : F) : 0 < a -> 0 <= b -> cut <= b / a ->
  let '(r, c, s) := stable_scaling O cut a b in
  [/\ c ^+ 2 + s ^+ 2 = 1, r * c = a, r * s = b, 0 < r & r ^+ 2 = a ^+ 2 + b ^+ 2].
Proof.
move=> a0 b0 hc; rewrite /stable_scaling /= hc.
set t := b / a. set d := Num.sqrt (1 + t * t).
have p0 : 0 < 1 + t * t by rewrite (@lt_le_trans _ _ 1) // ler_addl -expr2 sqr_ge0.
have d0 : 0 < d by rewrite sqrtr_gt0.
have dd : d * d = 1 + t * t by rewrite -expr2 sqr_sqrtr // ltW.
have dn : d != 0 by rewrite gt_eqF.
have an : a != 0 by rewrite gt_eqF.
split.
- rewrite !expr2. have -> : 1 / d * (1 / d) + t * (1 / d) * (t * (1 / d)) = (1 + t * t) / (d * d) by field.
  by rewrite dd divff // gt_eqF.
- by field.
- rewrite /t; field. by rewrite an dn.
- by rewrite mulr_gt0.
- rewrite expr2 mulrACA dd /t !expr2; field. exact: an.
Qed.

(* Taylor branch (t = b/a below the cutoff): s = t c exactly, and the two defects are
   explicit polynomials of order t^6 *)
Lemma scaling_taylor (a b : F) : a != 0 -> ~~ (cut <= b / a) ->
  let t := b / a in
  let '(r, c, s) := stable_scaling O cut a b in
  [/\ s = t * c,
      c * a + s * b = r + (5%:R / 16%:R) * t ^+ 6 * a
    & c ^+ 2 + s ^+ 2 = 1 + (5%:R / 8%:R) * t ^+ 6 - (15%:R / 64%:R) * t ^+ 8 + (9%:R / 64%:R) * t ^+ 10].
Proof.
move=> an /negbTE hc t; rewrite /stable_scaling c2E c4E c8E c38E /= hc -/t.
have bt : b = t * a by rewrite /t mulfVK.
clearbody t; rewrite {}bt; split.
- by ring.
- by field.
- by field.
Qed.

(* compute_rotation: exact in the zero cases and in the standard branch *)
Definition std_inputs (x y : F) : Prop :=
  y = 0 \/ x = 0 \/ (if `|y| < `|x| then cut <= `|y| / `|x| else cut <= `|x| / `|y|).

Lemma sgn_abs (x : F) : (if 0 < x then 1 else -1) * `|x| = x \/ x = 0.
Proof.
case: (ltrgt0P x) => [x0|x0|->]; [left|left|by right].
- by rewrite ?mul1r ?gtr0_norm.
- by rewrite ?mulN1r ?ltr0_norm ?opprK.
Qed.

Theorem rotation_spec (x y : F) : std_inputs x y ->
  let '(r, c, s) := compute_rotation O cut x y in
  [/\ c * x - s * y = r, s * x + c * y = 0, c ^+ 2 + s ^+ 2 = 1, 0 <= r & r ^+ 2 = x ^+ 2 + y ^+ 2].
Proof.
rewrite /std_inputs /compute_rotation /=.
case: (eqVneq y 0) => [-> _|yn].
- (* y = 0 *)
  case: (eqVneq x 0) => [->|xn].
  + by split; rewrite ?normr0 ?mulr0 ?mul1r ?subrr ?addr0 ?expr0n ?expr1n //= addr0.
  + split; rewrite ?mulr0 ?mul0r ?subr0 ?add0r ?addr0 ?normr_ge0 //.
    * by case: (ltrgt0P x) xn => // _ _; rewrite ?mul1r ?mulN1r.
    * by rewrite expr0n /= addr0; case: ifP => _; rewrite ?expr1n // sqrrN expr1n.
    * by rewrite expr0n /= addr0 (real_normK (num_real _)).
- case: (eqVneq x 0) => [-> _|xn].
  + (* x = 0 *)
    split; rewrite ?mulr0 ?mul0r ?add0r ?addr0 ?sub0r ?normr_ge0 //.
    * by rewrite mulNr opprK; case: (ltrgt0P y) yn => // _ _; rewrite ?mul1r ?mulN1r.
    * by rewrite expr0n /= add0r sqrrN; case: ifP => _; rewrite ?expr1n // sqrrN expr1n.
    * by rewrite expr0n /= add0r (real_normK (num_real _)).
  + move=> [/eqP|[/eqP|]]; rewrite ?(negbTE yn) ?(negbTE xn) //.
    have xa : 0 < `|x| by rewrite normr_gt0.
    have ya : 0 < `|y| by rewrite normr_gt0.
    set sx : F := if 0 < x then 1 else -1. set sy : F := if 0 < y then 1 else -1.
    have ex : sx * `|x| = x by case: (sgn_abs x) => // /eqP; rewrite (negbTE xn).
    have ey : sy * `|y| = y by case: (sgn_abs y) => // /eqP; rewrite (negbTE yn).
    have sx2 : sx * sx = 1 by rewrite /sx; case: ifP => _; rewrite ?mul1r // mulrNN mul1r.
    have sy2 : sy * sy = 1 by rewrite /sy; case: ifP => _; rewrite ?mul1r // mulrNN mul1r.
    case: ifP => cmp hc.
    * have := scaling_std xa (ltW ya) hc.
      case: (stable_scaling O cut `|x| `|y|) => [[r c] s] [e1 e2 e3 r0 e4].
      split.
      - rewrite -{1}ex -{1}ey. have -> : sx * c * (sx * `|x|) - - sy * s * (sy * `|y|) = (sx * sx) * (c * `|x|) + (sy * sy) * (s * `|y|) by ring.
        rewrite sx2 sy2 !mul1r -e2 -e3. have -> : c * (r * c) + s * (r * s) = r * (c ^+ 2 + s ^+ 2) by ring.
        by rewrite e1 mulr1.
      - rewrite -{1}ex -{1}ey. have -> : - sy * s * (sx * `|x|) + sx * c * (sy * `|y|) = sx * sy * (c * `|y| - s * `|x|) by ring.
        rewrite -e2 -e3. have -> : c * (r * s) - s * (r * c) = 0 by ring. by rewrite mulr0.
      - have -> : (sx * c) ^+ 2 + (- sy * s) ^+ 2 = (sx * sx) * c ^+ 2 + (sy * sy) * s ^+ 2 by ring.
        by rewrite sx2 sy2 !mul1r.
      - exact: ltW.
      - by rewrite e4 !real_normK ?num_real.
    * have := scaling_std ya (ltW xa) hc.
      case: (stable_scaling O cut `|y| `|x|) => [[r s] c] [e1 e2 e3 r0 e4].
      split.
      - rewrite -{1}ex -{1}ey. have -> : sx * c * (sx * `|x|) - - sy * s * (sy * `|y|) = (sx * sx) * (c * `|x|) + (sy * sy) * (s * `|y|) by ring.
        rewrite sx2 sy2 !mul1r -e2 -e3. have -> : c * (r * c) + s * (r * s) = r * (s ^+ 2 + c ^+ 2) by ring.
        by rewrite e1 mulr1.
      - rewrite -{1}ex -{1}ey. have -> : - sy * s * (sx * `|x|) + sx * c * (sy * `|y|) = sx * sy * (c * `|y| - s * `|x|) by ring.
        rewrite -e2 -e3. have -> : c * (r * s) - s * (r * c) = 0 by ring. by rewrite mulr0.
      - have -> : (sx * c) ^+ 2 + (- sy * s) ^+ 2 = (sy * sy) * s ^+ 2 + (sx * sx) * c ^+ 2 by ring.
        by rewrite sx2 sy2 !mul1r.
      - exact: ltW.
      - by rewrite e4 !real_normK ?num_real // addrC.
Qed.
End P.

(* C08: the 2x2 core of one step of TridiagQR::matrix_QtHQ is the congruence G^T [x y; y z] G with G = [c s; -s c] *)
From SV Require Import TridiagQR.
Section TQ.
Variable F : rcfType.
Theorem qthq_core_similarity (c s x y z u1 u2 : F) :
  let '(nd, nl, nd1) := qthq_core (OpsF F) c s x y z in
  nd * u1 ^+ 2 + 2%:R * nl * u1 * u2 + nd1 * u2 ^+ 2 =
  x * (c * u1 + s * u2) ^+ 2 + 2%:R * y * (c * u1 + s * u2) * (- s * u1 + c * u2) + z * (- s * u1 + c * u2) ^+ 2.
Proof. by rewrite /qthq_core /= (_ : BinPos.Pos.to_nat 2 = 2%N) //; ring. Qed.
End TQ.

(* C08: the reflector applications of DoubleShiftQR (apply_PX / apply_XP work entry-triple by entry-triple through hh3 / hh2):
   for a unit vector u they are involutions that preserve inner products, i.e. P = I - 2 u u' is orthogonal and symmetric *)
From SV Require Import DoubleShift.
Section HH.
Variable F : rcfType.
Notation O := (OpsF F).
Theorem hh3_isometry (u0 u1 u2 x0 x1 x2 y0 y1 y2 : F) : u0 ^+ 2 + u1 ^+ 2 + u2 ^+ 2 = 1 ->
  let '(a0, a1, a2) := hh3 O u0 u1 u2 x0 x1 x2 in let '(b0, b1, b2) := hh3 O u0 u1 u2 y0 y1 y2 in
  a0 * b0 + a1 * b1 + a2 * b2 = x0 * y0 + x1 * y1 + x2 * y2.
Proof.
move=> h; rewrite /hh3 /two /= (_ : BinPos.Pos.to_nat 2 = 2%N) //.
set ux := u0 * x0 + u1 * x1 + u2 * x2. set uy := u0 * y0 + u1 * y1 + u2 * y2.
apply/eqP; rewrite -subr_eq0; apply/eqP.
have -> : (x0 - (2%:R * u0 * x0 + 2%:R * u1 * x1 + 2%:R * u2 * x2) * u0) * (y0 - (2%:R * u0 * y0 + 2%:R * u1 * y1 + 2%:R * u2 * y2) * u0) +
          (x1 - (2%:R * u0 * x0 + 2%:R * u1 * x1 + 2%:R * u2 * x2) * u1) * (y1 - (2%:R * u0 * y0 + 2%:R * u1 * y1 + 2%:R * u2 * y2) * u1) +
          (x2 - (2%:R * u0 * x0 + 2%:R * u1 * x1 + 2%:R * u2 * x2) * u2) * (y2 - (2%:R * u0 * y0 + 2%:R * u1 * y1 + 2%:R * u2 * y2) * u2) -
          (x0 * y0 + x1 * y1 + x2 * y2) = 4%:R * ux * uy * (u0 ^+ 2 + u1 ^+ 2 + u2 ^+ 2 - 1) by rewrite /ux /uy; ring.
by rewrite h subrr mulr0.
Qed.

Theorem hh3_involution (u0 u1 u2 x0 x1 x2 : F) : u0 ^+ 2 + u1 ^+ 2 + u2 ^+ 2 = 1 ->
  let '(a0, a1, a2) := hh3 O u0 u1 u2 x0 x1 x2 in hh3 O u0 u1 u2 a0 a1 a2 = (x0, x1, x2).
Proof.
move=> h; rewrite /hh3 /two /= (_ : BinPos.Pos.to_nat 2 = 2%N) //.
set ux := u0 * x0 + u1 * x1 + u2 * x2.
have k : forall ui xi : F, xi - (2%:R * u0 * x0 + 2%:R * u1 * x1 + 2%:R * u2 * x2) * ui -
   (2%:R * u0 * (x0 - (2%:R * u0 * x0 + 2%:R * u1 * x1 + 2%:R * u2 * x2) * u0) + 2%:R * u1 * (x1 - (2%:R * u0 * x0 + 2%:R * u1 * x1 + 2%:R * u2 * x2) * u1) +
    2%:R * u2 * (x2 - (2%:R * u0 * x0 + 2%:R * u1 * x1 + 2%:R * u2 * x2) * u2)) * ui = xi + 4%:R * ux * ui * (u0 ^+ 2 + u1 ^+ 2 + u2 ^+ 2 - 1).
  by move=> ui xi; rewrite /ux; ring.
by rewrite !k h subrr !mulr0 !addr0.
Qed.
End HH.
