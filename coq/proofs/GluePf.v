(* Theorems on the GENERATED solver drivers (gen/GlueGen.v), for every world W that
   meets the stated contracts of the kernels, every oracle, every start state. *)
Require Import ZArith Lia List Bool Sorting.Permutation ZifyBool.
From SV Require Import Cxx GlueGen.
Import ListNotations.
Local Open Scope Z_scope.

Definition count (l : list bool) : Z := Z.of_nat (List.length (filter (fun b => b) l)).

Lemma count_le l : 0 <= count l <= Z.of_nat (List.length l).
Proof.
  unfold count. induction l as [|[] l IH]; simpl List.length; simpl filter; simpl List.length; lia.
Qed.

Lemma count_perm a b : Permutation a b -> count a = count b.
Proof.
  intros H. unfold count. f_equal.
  induction H; simpl; auto; try lia.
  - destruct x; simpl; lia.
  - destruct x, y; simpl; lia.
Qed.

Section Driver.
Variable Wst : Type.
Variable W : string -> list Z -> Wst -> res (Wst * Z).
Variable flags : Wst -> list bool.          (* the convergence flags m_ritz_conv *)
Variable nev : Z.
Hypothesis nev_nonneg : 0 <= nev.

(* contracts of the kernels the driver calls (validated against the real code at every
   hook event by the harness): *)
Definition numconv_contract := forall a w w' r, W "num_converged" a w = Ok (w', r) ->
  Z.of_nat (List.length (flags w')) = nev /\ r = count (flags w').
Definition frame_contract := forall f a w w' r,
  (f = "nev_adjusted" \/ f = "restart")%string -> W f a w = Ok (w', r) -> flags w' = flags w.
Definition sort_contract := forall a w w' r, W "sort_ritzpair" a w = Ok (w', r) ->
  Permutation (flags w') (flags w).

Hypothesis Hnc : numconv_contract.
Hypothesis Hfr : frame_contract.
Hypothesis Hso : sort_contract.

Ltac inv H := inversion H; subst; clear H.

(* ---- one statement for both drivers: parametrised by the generated loop and function *)
Section OneDriver.
Variable loop : (string -> list Z -> bool) -> nat -> Z -> Z -> Z -> Z -> Z -> Z -> Z -> Z -> Wst -> Z -> Z -> res (Z * Z * Z * Wst).
Variable orc : string -> list Z -> bool.
Variables selection maxit sorting ncv niter info0 : Z.

Hypothesis loop_unfold : forall fuel i w nconv nev_adj,
  loop orc (S fuel) i selection maxit sorting nev ncv niter info0 w nconv nev_adj =
    if i <? maxit then
      match W "num_converged" [] w with
      | Throw e m => Throw e m
      | Ok (w3, nconv1) =>
        if nconv1 >=? nev then Ok (i, nconv1, nev_adj, w3)
        else match W "nev_adjusted" [nconv1] w3 with
             | Throw e m => Throw e m
             | Ok (w4, nev_adj1) =>
               match W "restart" [nev_adj1; selection] w4 with
               | Throw e m => Throw e m
               | Ok (w5, _) => loop orc fuel (i + 1) selection maxit sorting nev ncv niter info0 w5 nconv1 nev_adj1
               end
             end
      end
    else Ok (i, nconv, nev_adj, w).
Hypothesis loop_zero : forall i w nconv nev_adj,
  loop orc O i selection maxit sorting nev ncv niter info0 w nconv nev_adj = Ok (i, nconv, nev_adj, w).

Lemma loop_spec fuel : forall i w nconv nev_adj i' nc' na' w',
  0 <= i <= maxit -> fuel = Z.to_nat (maxit - i) ->
  loop orc fuel i selection maxit sorting nev ncv niter info0 w nconv nev_adj = Ok (i', nc', na', w') ->
  i <= i' <= maxit /\
  (i' < maxit -> Z.of_nat (List.length (flags w')) = nev /\ nc' = count (flags w') /\ nev <= nc').
Proof.
  induction fuel as [|fuel IH]; intros i w nconv nev_adj i' nc' na' w' Hi Hf H.
  - rewrite loop_zero in H. inv H. split; lia.
  - rewrite loop_unfold in H.
    destruct (Z.ltb_spec i maxit) as [Hlt|Hge]; [|inv H; split; lia].
    destruct (W "num_converged" [] w) as [[w3 nconv1]|] eqn:E1; [|discriminate].
    destruct (Hnc _ _ _ _ E1) as [L1 C1].
    destruct (Z.geb_spec nconv1 nev) as [Hc|Hc].
    + inv H. split; [lia|]. intros _. repeat split; auto.
    + destruct (W "nev_adjusted" [nconv1] w3) as [[w4 na1]|] eqn:E2; [|discriminate].
      destruct (W "restart" [na1; selection] w4) as [[w5 r5]|] eqn:E3; [|discriminate].
      apply IH in H; [|lia|lia]. destruct H as [A B]. split; [lia|exact B].
Qed.
End OneDriver.

Ltac finish_driver H Hso sorting i2 :=
  match type of H with
  | context[W "sort_ritzpair"%string [sorting] ?w5] =>
    let w6 := fresh "w6" in let r6 := fresh "r6" in let E6 := fresh "E6" in
    destruct (W "sort_ritzpair"%string [sorting] w5) as [[w6 r6]|] eqn:E6; [|discriminate];
    inversion H; subst; clear H;
    pose proof (Hso _ _ _ _ E6) as P;
    pose proof (count_perm _ _ P) as CP; pose proof (Permutation_length P) as LP;
    pose proof (count_le (flags w5)) as CL;
    split; [exists i2; split; lia|];
    split; [lia|]; split; [lia|]; split; [lia|];
    unfold CompInfo_Successful, CompInfo_NotConverging;
    match goal with |- context[?a >=? ?b] => destruct (Z.geb_spec a b) end; split; try lia; try (split; lia)
  end.

(* ---------------------------------------------------------------- HermEigsBase::compute *)
Theorem herm_compute_spec orc ncv niter info0 selection maxit sorting w ret niter' info' w' :
  0 <= maxit ->
  herm_compute Wst W orc nev ncv niter info0 selection maxit sorting w = Ok (ret, niter', info', w') ->
  (exists i, 0 <= i <= maxit /\ niter' = niter + i + 1) /\
  Z.of_nat (List.length (flags w')) = nev /\
  ret = count (flags w') /\ ret <= nev /\
  (info' = CompInfo_Successful <-> ret = nev) /\
  (info' = CompInfo_Successful \/ info' = CompInfo_NotConverging).
Proof.
  intros Hm H. unfold herm_compute in H.
  destruct (W "m_fac.factorize_from" [ncv] w) as [[w1 r1]|] eqn:E1; [|discriminate].
  destruct (W "retrieve_ritzpair" [selection] w1) as [[w2 r2]|] eqn:E2; [|discriminate].
  cbv zeta in H.
  destruct (herm_compute_loop1 Wst W orc (Z.to_nat (maxit - 0)) 0 selection maxit sorting nev ncv niter info0 w2 0 0)
    as [[[[i2 nc1] na1] w3]|] eqn:EL; [|discriminate].
  apply (loop_spec (herm_compute_loop1 Wst W) orc selection maxit sorting ncv niter info0) in EL;
    [| intros; reflexivity | intros; reflexivity | lia | reflexivity].
  destruct EL as [Hi Hb].
  revert H. destruct (Z.geb_spec i2 maxit) as [G|G]; intros H.
  - destruct (W "num_converged" [] w3) as [[w4 nc2]|] eqn:E4; [|discriminate].
    destruct (Hnc _ _ _ _ E4) as [L5 C5]. finish_driver H Hso sorting i2.
  - destruct (Hb G) as [L5 [C5 _]]. finish_driver H Hso sorting i2.
Qed.

(* ---------------------------------------------------------------- GenEigsBase::compute *)
Theorem gen_compute_spec orc ncv niter info0 selection maxit sorting w ret niter' info' w' :
  0 <= maxit ->
  gen_compute Wst W orc nev ncv niter info0 selection maxit sorting w = Ok (ret, niter', info', w') ->
  (exists i, 0 <= i <= maxit /\ niter' = niter + i + 1) /\
  Z.of_nat (List.length (flags w')) = nev /\
  ret = count (flags w') /\ ret <= nev /\
  (info' = CompInfo_Successful <-> ret = nev) /\
  (info' = CompInfo_Successful \/ info' = CompInfo_NotConverging).
Proof.
  intros Hm H. unfold gen_compute in H.
  destruct (W "m_fac.factorize_from" [ncv] w) as [[w1 r1]|] eqn:E1; [|discriminate].
  destruct (W "retrieve_ritzpair" [selection] w1) as [[w2 r2]|] eqn:E2; [|discriminate].
  cbv zeta in H.
  destruct (gen_compute_loop1 Wst W orc (Z.to_nat (maxit - 0)) 0 selection maxit sorting nev ncv niter info0 w2 0 0)
    as [[[[i2 nc1] na1] w3]|] eqn:EL; [|discriminate].
  apply (loop_spec (gen_compute_loop1 Wst W) orc selection maxit sorting ncv niter info0) in EL;
    [| intros; reflexivity | intros; reflexivity | lia | reflexivity].
  destruct EL as [Hi Hb].
  revert H. destruct (Z.geb_spec i2 maxit) as [G|G]; intros H.
  - destruct (W "num_converged" [] w3) as [[w4 nc2]|] eqn:E4; [|discriminate].
    destruct (Hnc _ _ _ _ E4) as [L5 C5]. finish_driver H Hso sorting i2.
  - destruct (Hb G) as [L5 [C5 _]]. finish_driver H Hso sorting i2.
Qed.
End Driver.

(* ================================================================ restart sizes (C13) *)
Lemma herm_adj_loop orc fuel : forall i nconv nev ncv acc,
  acc <= herm_nev_adjusted_loop1 orc fuel i nconv nev ncv acc <= acc + Z.of_nat fuel.
Proof.
  induction fuel as [|fuel IH]; intros; cbn [herm_nev_adjusted_loop1]; [lia|].
  destruct (i <? ncv); [|lia].
  destruct (orc _ _); specialize (IH (i + 1) nconv nev ncv); [specialize (IH (acc + 1))|specialize (IH acc)]; lia.
Qed.

Theorem herm_restart_size orc nev ncv nconv : 1 <= nev -> nev < ncv -> 0 <= nconv ->
  1 <= herm_nev_adjusted orc nev ncv nconv <= ncv - 1.
Proof.
  intros H1 H2 H3. unfold herm_nev_adjusted. cbv zeta.
  pose proof (herm_adj_loop orc (Z.to_nat (ncv - nev)) nev nconv nev ncv nev) as L.
  set (a := herm_nev_adjusted_loop1 _ _ _ _ _ _ _) in *. clearbody a.
  set (b := a + Z.min nconv (Z.quot (ncv - a) 2)).
  assert (Hb : 1 <= b) by (unfold b; pose proof (Z.quot_pos (ncv - a) 2); lia).
  clearbody b.
  destruct ((b =? 1) && (ncv >=? 6)) eqn:E1.
  - pose proof (Z.quot_pos ncv 2). assert (Z.quot ncv 2 <= ncv - 1) by (apply Z.quot_le_upper_bound; lia).
    assert (3 <= Z.quot ncv 2) by (apply Z.quot_le_lower_bound; lia).
    destruct (Z.quot ncv 2 >? ncv - 1) eqn:E3; lia.
  - destruct ((b =? 1) && (ncv >? 2)) eqn:E2.
    + destruct (2 >? ncv - 1) eqn:E3; lia.
    + destruct (b >? ncv - 1) eqn:E3; lia.
Qed.

Lemma gen_adj_loop orc fuel : forall i nconv nev ncv acc,
  acc <= gen_nev_adjusted_loop1 orc fuel i nconv nev ncv acc <= acc + Z.of_nat fuel.
Proof.
  induction fuel as [|fuel IH]; intros; cbn [gen_nev_adjusted_loop1]; [lia|].
  destruct (i <? ncv); [|lia].
  destruct (orc _ _); specialize (IH (i + 1) nconv nev ncv); [specialize (IH (acc + 1))|specialize (IH acc)]; lia.
Qed.

Theorem gen_restart_size orc nev ncv nconv : 1 <= nev -> nev + 2 <= ncv -> 0 <= nconv ->
  1 <= gen_nev_adjusted orc nev ncv nconv <= ncv - 1.
Proof.
  intros H1 H2 H3. unfold gen_nev_adjusted. cbv zeta.
  pose proof (gen_adj_loop orc (Z.to_nat (ncv - nev)) nev nconv nev ncv nev) as L.
  set (a := gen_nev_adjusted_loop1 _ _ _ _ _ _ _) in *. clearbody a.
  set (b := a + Z.min nconv (Z.quot (ncv - a) 2)).
  assert (Hb : 1 <= b) by (unfold b; pose proof (Z.quot_pos (ncv - a) 2); lia).
  clearbody b.
  assert (Q1 : ncv >= 6 -> 3 <= Z.quot ncv 2 <= ncv - 2).
  { intros. split; [apply Z.quot_le_lower_bound; lia|]. apply Z.quot_le_upper_bound; lia. }
  destruct ((b =? 1) && (ncv >=? 6)) eqn:E1.
  - assert (ncv >= 6) by lia. specialize (Q1 H).
    destruct (Z.quot ncv 2 >? ncv - 2) eqn:E3; destruct (orc _ _); lia.
  - destruct ((b =? 1) && (ncv >? 3)) eqn:E2.
    + destruct (2 >? ncv - 2) eqn:E3; destruct (orc _ _); lia.
    + destruct (b >? ncv - 2) eqn:E3; destruct (orc _ _); lia.
Qed.

(* ================================================================ operation counts (C05, C13) *)
Lemma expand_basis_loop2_any orc fuel c seed oc it : exists c', expand_basis_count_loop2 orc fuel c seed oc it = c'.
Proof. eexists; reflexivity. Qed.

Lemma expand_basis_loop1_count orc fuel : forall iter seed oc, 0 <= iter ->
  expand_basis_count_loop1 orc fuel iter seed oc = if (Nat.eqb fuel 0 || negb (iter =? 0) || negb (iter <? 5))%bool then oc else oc + 1.
Proof.
  induction fuel as [|fuel IH]; intros iter seed oc Hi; cbn [expand_basis_count_loop1]; [reflexivity|].
  cbn [Nat.eqb orb].
  destruct (Z.ltb_spec iter 5); cbn [negb orb]; [|destruct (iter =? 0); reflexivity].
  destruct (Z.eqb_spec iter 0) as [->|ne]; cbn [negb orb].
  - destruct (orc "ortho_err < m_eps * fnorm"%string []); [reflexivity|].
    rewrite IH by lia. cbn. destruct (Nat.eqb fuel 0); reflexivity.
  - destruct (orc "ortho_err < m_eps * fnorm"%string []); [reflexivity|].
    rewrite IH by lia. destruct (Z.eqb_spec (iter + 1) 0); [lia|]. cbn [negb orb]. rewrite Bool.orb_true_r. reflexivity.
Qed.

(* expand_basis applies the operator exactly once, whatever the five tries do *)
Theorem expand_basis_one_op orc seed oc : expand_basis_count orc seed oc = oc + 1.
Proof. unfold expand_basis_count. rewrite expand_basis_loop1_count by lia. reflexivity. Qed.

Section Counts.
Variable Wst : Type.
Variable W : string -> list Z -> Wst -> res (Wst * Z).

Lemma arnoldi_loop_count orc fuel : forall i from_k to_m oc mk mm mn w oc' w',
  arnoldi_factorize_from_loop1 Wst W orc fuel i from_k to_m oc mk mm mn w = Ok (oc', w') ->
  oc <= oc' <= oc + 2 * Z.of_nat fuel /\ (Z.of_nat fuel <= to_m - i -> oc + Z.of_nat fuel <= oc').
Proof.
  induction fuel as [|fuel IH]; intros i from_k to_m oc mk mm mn w oc' w' H; cbn [arnoldi_factorize_from_loop1] in H.
  - inversion H; subst. lia.
  - destruct (Z.leb_spec i (to_m - 1)); [|inversion H; subst; lia].
    rewrite expand_basis_one_op in H.
    destruct (orc "m_beta < m_near_0"%string []).
    all: destruct (W "m_op.perform_op" [] w) as [[w4 ?]|]; [|discriminate].
    all: destruct (W "m_op.adjoint_product" [] w4) as [[w5 ?]|]; [|discriminate].
    all: destruct (orc "m_beta > RealScalar(0.717) * m_op.norm(h)"%string []); [apply IH in H; lia|].
    all: destruct (W "m_op.adjoint_product" [] w5) as [[w6 ?]|]; [|discriminate].
    all: match type of H with context[arnoldi_factorize_from_loop2 ?a ?b ?c ?d ?e ?f ?g ?h ?i ?j ?k ?l ?m ?n ?o] =>
           destruct (arnoldi_factorize_from_loop2 a b c d e f g h i j k l m n o) as [[c2 w7]|]; [|discriminate] end.
    all: apply IH in H; lia.
Qed.

Theorem arnoldi_factorize_count orc mk mm mn from_k to_m oc w mk' oc' w' :
  arnoldi_factorize_from Wst W orc mk mm mn from_k to_m oc w = Ok (mk', oc', w') ->
  (to_m <= from_k -> mk' = mk /\ oc' = oc) /\
  (from_k < to_m -> mk' = to_m /\ from_k <= mk /\ to_m - from_k <= oc' - oc <= 2 * (to_m - from_k)).
Proof.
  unfold arnoldi_factorize_from. intros H.
  destruct (Z.leb_spec to_m from_k).
  - inversion H; subst. split; [auto|lia].
  - destruct (Z.gtb_spec from_k mk); [discriminate|].
    destruct (W _ [] w) as [[w1 ?]|]; [|discriminate].
    destruct (W _ [] w1) as [[w2 ?]|]; [|discriminate].
    destruct (arnoldi_factorize_from_loop1 Wst W orc _ _ _ _ _ _ _ _ _) as [[oc1 w3]|] eqn:E; [|discriminate].
    inversion H; subst. apply arnoldi_loop_count in E. split; [lia|]. intros _. lia.
Qed.
End Counts.

(* ================================================================ init forgets the counters (C06) *)
Theorem herm_init_counters Wst W nev ncv n a b a' b' w :
  herm_init Wst W nev ncv n a b w = herm_init Wst W nev ncv n a' b' w.
Proof. reflexivity. Qed.
Theorem herm_init_zero Wst W nev ncv n a b w nm ni w' :
  herm_init Wst W nev ncv n a b w = Ok (nm, ni, w') -> nm = 0 /\ ni = 0.
Proof.
  unfold herm_init. intros H.
  repeat match type of H with context[match W ?f ?a ?x with _ => _ end] => destruct (W f a x) as [[? ?]|]; [|discriminate] end.
  inversion H; auto.
Qed.
Theorem gen_init_zero Wst W nev ncv n a b w nm ni w' :
  gen_init Wst W nev ncv n a b w = Ok (nm, ni, w') -> nm = 0 /\ ni = 0.
Proof.
  unfold gen_init. intros H.
  repeat match type of H with context[match W ?f ?a ?x with _ => _ end] => destruct (W f a x) as [[? ?]|]; [|discriminate] end.
  inversion H; auto.
Qed.

Section Counts2.
Variable Wst : Type.
Variable W : string -> list Z -> Wst -> res (Wst * Z).

Lemma lanczos_loop_count orc fuel : forall i from_k to_m oc mk mm mn w oc' w',
  lanczos_factorize_from_loop1 Wst W orc fuel i from_k to_m oc mk mm mn w = Ok (w', oc') ->
  oc <= oc' <= oc + 2 * Z.of_nat fuel /\ (Z.of_nat fuel <= to_m - i -> oc + Z.of_nat fuel <= oc').
Proof.
  induction fuel as [|fuel IH]; intros i from_k to_m oc mk mm mn w oc' w' H; cbn [lanczos_factorize_from_loop1] in H.
  - inversion H; subst. lia.
  - destruct (Z.leb_spec i (to_m - 1)); [|inversion H; subst; lia].
    rewrite expand_basis_one_op in H. cbv zeta in H.
    destruct (orc "m_beta < m_near_0"%string []); cbn [negb] in H.
    2: destruct (orc "m_beta < eps_sqrt"%string []).
    2: destruct (orc "abs(Viv) > eps_sqrt"%string []).
    all: cbn [negb] in H.
    all: match type of H with context[W "m_op.perform_op"%string [] ?x] => destruct (W "m_op.perform_op"%string [] x) as [[w6 ?]|]; [|discriminate] end.
    all: match type of H with context[W "m_op.adjoint_product"%string [] ?x] => destruct (W "m_op.adjoint_product"%string [] x) as [[w8 ?]|]; [|discriminate] end.
    all: match type of H with context[lanczos_factorize_from_loop2 ?a ?b ?c ?d ?e ?f ?g ?h ?i ?j ?k ?l ?m ?n ?o] =>
           destruct (lanczos_factorize_from_loop2 a b c d e f g h i j k l m n o) as [[c2 w9]|]; [|discriminate] end.
    all: apply IH in H; lia.
Qed.

Theorem lanczos_factorize_count orc mk mm mn from_k to_m oc w mk' oc' w' :
  lanczos_factorize_from Wst W orc mk mm mn from_k to_m oc w = Ok (mk', oc', w') ->
  (to_m <= from_k -> mk' = mk /\ oc' = oc) /\
  (from_k < to_m -> mk' = to_m /\ from_k <= mk /\ to_m - from_k <= oc' - oc <= 2 * (to_m - from_k)).
Proof.
  unfold lanczos_factorize_from. intros H.
  destruct (Z.leb_spec to_m from_k).
  - inversion H; subst. split; [auto|lia].
  - destruct (Z.gtb_spec from_k mk); [discriminate|].
    destruct (W _ [] w) as [[w1 ?]|]; [|discriminate].
    destruct (W _ [] w1) as [[w2 ?]|]; [|discriminate].
    destruct (lanczos_factorize_from_loop1 Wst W orc _ _ _ _ _ _ _ _ _) as [[w3 oc1]|] eqn:E; [|discriminate].
    inversion H; subst. apply lanczos_loop_count in E. split; [lia|]. intros _. lia.
Qed.
End Counts2.

(* ================================================================ work bound (C13) and exception propagation (C14) *)
Section Work.
Variable Wst : Type.
Variable W : string -> list Z -> Wst -> res (Wst * Z).
Variable ops : Wst -> Z.                      (* applications of the user's operator so far *)
Variable ncv : Z.
Hypothesis ncv_pos : 1 <= ncv.
(* contracts: a factorize_from call to dimension ncv costs at most 2(ncv-1) applications
   (arnoldi/lanczos_factorize_count with from_k >= 1); nothing else applies the operator *)
Hypothesis Hfac : forall a w w' r, W "m_fac.factorize_from" a w = Ok (w', r) -> ops w <= ops w' <= ops w + 2 * (ncv - 1).
Hypothesis Hother : forall f a w w' r, f <> "m_fac.factorize_from"%string -> W f a w = Ok (w', r) -> ops w' = ops w.

Lemma herm_restart_loop_ops orc fuel : forall i k sel w ns w',
  herm_restart_loop1 Wst W orc fuel i k sel ncv w ns = Ok w' -> ops w' = ops w.
Proof.
  induction fuel as [|fuel IH]; intros i k sel w ns w' H; cbn [herm_restart_loop1] in H; [inversion H; auto|].
  destruct (i <? ns); [|inversion H; auto].
  destruct (W "decomp.compute" [] w) as [[w2 ?]|] eqn:E2; [|discriminate].
  destruct (W "decomp.apply_YQ" [] w2) as [[w3 ?]|] eqn:E3; [|discriminate].
  destruct (W "m_fac.compress_H" [] w3) as [[w4 ?]|] eqn:E4; [|discriminate].
  apply IH in H. apply Hother in E2, E3, E4; try discriminate. lia.
Qed.

Theorem herm_restart_ops orc k sel w w' :
  herm_restart Wst W orc ncv k sel w = Ok w' -> ops w <= ops w' <= ops w + 2 * (ncv - 1).
Proof.
  unfold herm_restart. intros H. destruct (k >=? ncv); [inversion H; subst; lia|]. cbv zeta in H.
  destruct (W "std::sort" [] w) as [[w1 ?]|] eqn:E1; [|discriminate].
  destruct (herm_restart_loop1 Wst W orc _ 0 k sel ncv w1 (ncv - k)) as [w2|] eqn:E2; [|discriminate].
  destruct (W "m_fac.compress_V" [] w2) as [[w3 ?]|] eqn:E3; [|discriminate].
  destruct (W "m_fac.factorize_from" [k; ncv] w3) as [[w4 ?]|] eqn:E4; [|discriminate].
  destruct (W "retrieve_ritzpair" [sel] w4) as [[w5 ?]|] eqn:E5; [|discriminate].
  inversion H; subst. apply herm_restart_loop_ops in E2. apply Hfac in E4.
  apply Hother in E1, E3, E5; try discriminate. lia.
Qed.

Lemma gen_restart_loop_ops orc fuel : forall i k sel w w',
  gen_restart_loop1 Wst W orc fuel i k sel ncv w = Ok w' -> ops w' = ops w.
Proof.
  induction fuel as [|fuel IH]; intros i k sel w w' H; cbn [gen_restart_loop1] in H; [inversion H; auto|].
  destruct (i <? ncv); [|inversion H; auto].
  destruct (orc _ _).
  - destruct (W "decomp_ds.compute" [] w) as [[w2 ?]|] eqn:E2; [|discriminate].
    destruct (W "decomp_ds.apply_YQ" [] w2) as [[w3 ?]|] eqn:E3; [|discriminate].
    destruct (W "m_fac.compress_H" [] w3) as [[w4 ?]|] eqn:E4; [|discriminate].
    apply IH in H. apply Hother in E2, E3, E4; try discriminate. lia.
  - destruct (W "decomp_hb.compute" [] w) as [[w2 ?]|] eqn:E2; [|discriminate].
    destruct (W "decomp_hb.apply_YQ" [] w2) as [[w3 ?]|] eqn:E3; [|discriminate].
    destruct (W "m_fac.compress_H" [] w3) as [[w4 ?]|] eqn:E4; [|discriminate].
    apply IH in H. apply Hother in E2, E3, E4; try discriminate. lia.
Qed.

Theorem gen_restart_ops orc k sel w w' :
  gen_restart Wst W orc ncv k sel w = Ok w' -> ops w <= ops w' <= ops w + 2 * (ncv - 1).
Proof.
  unfold gen_restart. intros H. destruct (k >=? ncv); [inversion H; subst; lia|].
  destruct (gen_restart_loop1 Wst W orc _ k k sel ncv w) as [w1|] eqn:E1; [|discriminate].
  destruct (W "m_fac.compress_V" [] w1) as [[w2 ?]|] eqn:E2; [|discriminate].
  destruct (W "m_fac.factorize_from" [k; ncv] w2) as [[w3 ?]|] eqn:E3; [|discriminate].
  destruct (W "retrieve_ritzpair" [sel] w3) as [[w4 ?]|] eqn:E4; [|discriminate].
  inversion H; subst. apply gen_restart_loop_ops in E1. apply Hfac in E3.
  apply Hother in E2, E4; try discriminate. lia.
Qed.
End Work.

(* compute() with `restart` interpreted by the generated restart function *)
Section WorkCompute.
Variable Wst : Type.
Variable W : string -> list Z -> Wst -> res (Wst * Z).
Variable ops : Wst -> Z.
Variable ncv : Z.
Hypothesis ncv_pos : 1 <= ncv.
Hypothesis Hfac : forall a w w' r, W "m_fac.factorize_from" a w = Ok (w', r) -> ops w <= ops w' <= ops w + 2 * (ncv - 1).
Hypothesis Hother : forall f a w w' r, f <> "m_fac.factorize_from"%string -> W f a w = Ok (w', r) -> ops w' = ops w.
Variable orc : string -> list Z -> bool.

Definition with_restart (restart : (string -> list Z -> bool) -> Z -> Z -> Z -> Wst -> res Wst) : string -> list Z -> Wst -> res (Wst * Z) :=
  fun f a w =>
    if String.eqb f "restart"%string then
      match a with
      | [k; sel] => match restart orc ncv k sel w with Ok w' => Ok (w', 0) | Throw e m => Throw e m end
      | _ => Throw "logic_error"%string "restart: arity"%string
      end
    else W f a w.

Section One.
Variable restart : (string -> list Z -> bool) -> Z -> Z -> Z -> Wst -> res Wst.
Hypothesis Hrestart : forall k sel w w', restart orc ncv k sel w = Ok w' -> ops w <= ops w' <= ops w + 2 * (ncv - 1).
Let W2 := with_restart restart.

Lemma W2_bound f a w w' r : W2 f a w = Ok (w', r) -> ops w <= ops w' <= ops w + 2 * (ncv - 1).
Proof.
  unfold W2, with_restart. destruct (String.eqb_spec f "restart"%string) as [->|ne].
  - destruct a as [|k [|sel [|]]]; try discriminate.
    destruct (restart orc ncv k sel w) as [w1|] eqn:E; [|discriminate]. intros H; inversion H; subst. eauto.
  - intros H. destruct (String.eqb_spec f "m_fac.factorize_from"%string) as [->|ne2]; [eauto|].
    apply Hother in H; [lia|exact ne2].
Qed.
Lemma W2_free f a w w' r : f <> "restart"%string -> f <> "m_fac.factorize_from"%string -> W2 f a w = Ok (w', r) -> ops w' = ops w.
Proof.
  unfold W2, with_restart. intros n1 n2. destruct (String.eqb_spec f "restart"%string); [contradiction|]. intros H. eapply Hother; eauto.
Qed.

Variable loop : (string -> list Z -> bool) -> nat -> Z -> Z -> Z -> Z -> Z -> Z -> Z -> Z -> Wst -> Z -> Z -> res (Z * Z * Z * Wst).
Variables selection maxit sorting nev niter info0 : Z.
Hypothesis loop_unfold : forall fuel i w nconv nev_adj,
  loop orc (S fuel) i selection maxit sorting nev ncv niter info0 w nconv nev_adj =
    if i <? maxit then
      match W2 "num_converged" [] w with
      | Throw e m => Throw e m
      | Ok (w3, nconv1) =>
        if nconv1 >=? nev then Ok (i, nconv1, nev_adj, w3)
        else match W2 "nev_adjusted" [nconv1] w3 with
             | Throw e m => Throw e m
             | Ok (w4, nev_adj1) =>
               match W2 "restart" [nev_adj1; selection] w4 with
               | Throw e m => Throw e m
               | Ok (w5, _) => loop orc fuel (i + 1) selection maxit sorting nev ncv niter info0 w5 nconv1 nev_adj1
               end
             end
      end
    else Ok (i, nconv, nev_adj, w).
Hypothesis loop_zero : forall i w nconv nev_adj,
  loop orc O i selection maxit sorting nev ncv niter info0 w nconv nev_adj = Ok (i, nconv, nev_adj, w).

Lemma loop_ops fuel : forall i w nconv nev_adj i' nc' na' w',
  loop orc fuel i selection maxit sorting nev ncv niter info0 w nconv nev_adj = Ok (i', nc', na', w') ->
  i <= i' /\ (i <= maxit -> i' <= maxit) /\ ops w <= ops w' <= ops w + 2 * (ncv - 1) * (i' - i).
Proof.
  induction fuel as [|fuel IH]; intros i w nconv nev_adj i' nc' na' w' H.
  - rewrite loop_zero in H. inversion H; subst. lia.
  - rewrite loop_unfold in H. destruct (Z.ltb_spec i maxit); [|inversion H; subst; lia].
    destruct (W2 "num_converged" [] w) as [[w3 n1]|] eqn:E1; [|discriminate].
    apply W2_free in E1; try discriminate.
    destruct (n1 >=? nev); [inversion H; subst; lia|].
    destruct (W2 "nev_adjusted" [n1] w3) as [[w4 a1]|] eqn:E2; [|discriminate].
    apply W2_free in E2; try discriminate.
    destruct (W2 "restart" [a1; selection] w4) as [[w5 ?]|] eqn:E3; [|discriminate].
    apply W2_bound in E3. apply IH in H. nia.
Qed.
End One.

Theorem herm_compute_work nev niter info0 selection maxit sorting w ret niter' info' w' :
  0 <= maxit ->
  herm_compute Wst (with_restart (herm_restart Wst W)) orc nev ncv niter info0 selection maxit sorting w = Ok (ret, niter', info', w') ->
  ops w <= ops w' <= ops w + 2 * (ncv - 1) * (maxit + 1).
Proof.
  intros Hm H. unfold herm_compute in H.
  set (W2 := with_restart (herm_restart Wst W)) in *.
  assert (HR : forall k sel w w', herm_restart Wst W orc ncv k sel w = Ok w' -> ops w <= ops w' <= ops w + 2 * (ncv - 1))
    by (intros; eapply herm_restart_ops; eauto).
  destruct (W2 "m_fac.factorize_from"%string [ncv] w) as [[w1 ?]|] eqn:E1; [|discriminate].
  apply (W2_bound _ HR) in E1.
  destruct (W2 "retrieve_ritzpair"%string [selection] w1) as [[w2 ?]|] eqn:E2; [|discriminate].
  apply (W2_free (herm_restart Wst W)) in E2; try discriminate.
  cbv zeta in H.
  destruct (herm_compute_loop1 Wst W2 orc (Z.to_nat (maxit - 0)) 0 selection maxit sorting nev ncv niter info0 w2 0 0)
    as [[[[i2 nc1] na1] w3]|] eqn:EL; [|discriminate].
  apply (loop_ops (herm_restart Wst W) HR (herm_compute_loop1 Wst W2) selection maxit sorting nev niter info0) in EL;
    [| intros; reflexivity | intros; reflexivity].
  assert (Hi : i2 <= maxit) by lia.
  revert H. destruct (i2 >=? maxit); intros H.
  - destruct (W2 "num_converged"%string [] w3) as [[w4 ?]|] eqn:E4; [|discriminate].
    apply (W2_free (herm_restart Wst W)) in E4; try discriminate.
    destruct (W2 "sort_ritzpair"%string [sorting] w4) as [[w6 ?]|] eqn:E6; [|discriminate].
    apply (W2_free (herm_restart Wst W)) in E6; try discriminate.
    inversion H; subst. nia.
  - destruct (W2 "sort_ritzpair"%string [sorting] w3) as [[w6 ?]|] eqn:E6; [|discriminate].
    apply (W2_free (herm_restart Wst W)) in E6; try discriminate.
    inversion H; subst. nia.
Qed.
Theorem gen_compute_work nev niter info0 selection maxit sorting w ret niter' info' w' :
  0 <= maxit ->
  gen_compute Wst (with_restart (gen_restart Wst W)) orc nev ncv niter info0 selection maxit sorting w = Ok (ret, niter', info', w') ->
  ops w <= ops w' <= ops w + 2 * (ncv - 1) * (maxit + 1).
Proof.
  intros Hm H. unfold gen_compute in H.
  set (W2 := with_restart (gen_restart Wst W)) in *.
  assert (HR : forall k sel w w', gen_restart Wst W orc ncv k sel w = Ok w' -> ops w <= ops w' <= ops w + 2 * (ncv - 1))
    by (intros; eapply gen_restart_ops; eauto).
  destruct (W2 "m_fac.factorize_from"%string [ncv] w) as [[w1 ?]|] eqn:E1; [|discriminate].
  apply (W2_bound _ HR) in E1.
  destruct (W2 "retrieve_ritzpair"%string [selection] w1) as [[w2 ?]|] eqn:E2; [|discriminate].
  apply (W2_free (gen_restart Wst W)) in E2; try discriminate.
  cbv zeta in H.
  destruct (gen_compute_loop1 Wst W2 orc (Z.to_nat (maxit - 0)) 0 selection maxit sorting nev ncv niter info0 w2 0 0)
    as [[[[i2 nc1] na1] w3]|] eqn:EL; [|discriminate].
  apply (loop_ops (gen_restart Wst W) HR (gen_compute_loop1 Wst W2) selection maxit sorting nev niter info0) in EL;
    [| intros; reflexivity | intros; reflexivity].
  assert (Hi : i2 <= maxit) by lia.
  revert H. destruct (i2 >=? maxit); intros H.
  - destruct (W2 "num_converged"%string [] w3) as [[w4 ?]|] eqn:E4; [|discriminate].
    apply (W2_free (gen_restart Wst W)) in E4; try discriminate.
    destruct (W2 "sort_ritzpair"%string [sorting] w4) as [[w6 ?]|] eqn:E6; [|discriminate].
    apply (W2_free (gen_restart Wst W)) in E6; try discriminate.
    inversion H; subst. nia.
  - destruct (W2 "sort_ritzpair"%string [sorting] w3) as [[w6 ?]|] eqn:E6; [|discriminate].
    apply (W2_free (gen_restart Wst W)) in E6; try discriminate.
    inversion H; subst. nia.
Qed.
End WorkCompute.

(* ================================================================ exceptions propagate unchanged (C14) *)
Section Throws.
Variable Wst : Type.
Variable W : string -> list Z -> Wst -> res (Wst * Z).
Variables e0 m0 : string.
(* every exception that escapes a kernel / the user's operator is (e0, m0) ... *)
Hypothesis HT : forall f a w e m, W f a w = Throw e m -> e = e0 /\ m = m0.

Ltac step H :=
  match type of H with
  | context[match W ?f ?a ?w with _ => _ end] =>
    let E := fresh "E" in destruct (W f a w) as [[? ?]|] eqn:E; [|inversion H; subst; eapply HT; eauto]
  end.

Lemma herm_loop_throw orc fuel : forall i sel maxit srt nev ncv ni inf w nc na e m,
  herm_compute_loop1 Wst W orc fuel i sel maxit srt nev ncv ni inf w nc na = Throw e m -> e = e0 /\ m = m0.
Proof.
  induction fuel as [|fuel IH]; intros until m; intros H; cbn [herm_compute_loop1] in H; [discriminate|].
  destruct (i <? maxit); [|discriminate]. step H. destruct (_ >=? nev); [discriminate|].
  step H. step H. eapply IH; eauto.
Qed.
Lemma gen_loop_throw orc fuel : forall i sel maxit srt nev ncv ni inf w nc na e m,
  gen_compute_loop1 Wst W orc fuel i sel maxit srt nev ncv ni inf w nc na = Throw e m -> e = e0 /\ m = m0.
Proof.
  induction fuel as [|fuel IH]; intros until m; intros H; cbn [gen_compute_loop1] in H; [discriminate|].
  destruct (i <? maxit); [|discriminate]. step H. destruct (_ >=? nev); [discriminate|].
  step H. step H. eapply IH; eauto.
Qed.

(* ... then so is every exception that escapes compute(): the driver has no handler, raises
   nothing of its own, and stops at the first failing call *)
Theorem herm_compute_throw orc nev ncv ni inf sel maxit srt w e m :
  herm_compute Wst W orc nev ncv ni inf sel maxit srt w = Throw e m -> e = e0 /\ m = m0.
Proof.
  unfold herm_compute. intros H. step H. step H. cbv zeta in H.
  destruct (herm_compute_loop1 Wst W orc _ 0 sel maxit srt nev ncv ni inf _ 0 0) as [[[[? ?] ?] ?]|] eqn:EL;
    [|inversion H; subst; eapply herm_loop_throw; eauto].
  revert H. destruct (_ >=? maxit); intros H.
  - step H. step H. discriminate.
  - step H. discriminate.
Qed.
Theorem gen_compute_throw orc nev ncv ni inf sel maxit srt w e m :
  gen_compute Wst W orc nev ncv ni inf sel maxit srt w = Throw e m -> e = e0 /\ m = m0.
Proof.
  unfold gen_compute. intros H. step H. step H. cbv zeta in H.
  destruct (gen_compute_loop1 Wst W orc _ 0 sel maxit srt nev ncv ni inf _ 0 0) as [[[[? ?] ?] ?]|] eqn:EL;
    [|inversion H; subst; eapply gen_loop_throw; eauto].
  revert H. destruct (_ >=? maxit); intros H.
  - step H. step H. discriminate.
  - step H. discriminate.
Qed.
Theorem herm_init_throw nev ncv n a b w e m :
  herm_init Wst W nev ncv n a b w = Throw e m -> e = e0 /\ m = m0.
Proof. unfold herm_init. intros H. repeat step H. discriminate. Qed.
Theorem gen_init_throw nev ncv n a b w e m :
  gen_init Wst W nev ncv n a b w = Throw e m -> e = e0 /\ m = m0.
Proof. unfold gen_init. intros H. repeat step H. discriminate. Qed.
End Throws.

(* ================================================================ accessors (C05) *)
Section Accessors.
Variable orc : string -> list Z -> bool.
Definition flag (i : Z) : bool := orc "m_ritz_conv[i]"%string [i].
Fixpoint cnt (k : nat) (i : Z) : Z := match k with O => 0 | S k' => (if flag i then 1 else 0) + cnt k' (i + 1) end.

Lemma cnt_bounds k i : 0 <= cnt k i <= Z.of_nat k.
Proof. revert i; induction k as [|k IH]; intros i; cbn [cnt]; [lia|]. specialize (IH (i + 1)). destruct (flag i); lia. Qed.

Lemma herm_ev_loop fuel : forall i nev j, Z.of_nat fuel = nev - i ->
  herm_eigenvalues_count_loop1 orc fuel i nev j = j + cnt fuel i.
Proof.
  induction fuel as [|fuel IH]; intros i nev j H; cbn [herm_eigenvalues_count_loop1 cnt]; [lia|].
  destruct (Z.ltb_spec i nev); [|lia]. fold (flag i). rewrite IH by lia. destruct (flag i); lia.
Qed.
Lemma gen_ev_loop fuel : forall i nev j, Z.of_nat fuel = nev - i ->
  gen_eigenvalues_count_loop1 orc fuel i nev j = j + cnt fuel i.
Proof.
  induction fuel as [|fuel IH]; intros i nev j H; cbn [gen_eigenvalues_count_loop1 cnt]; [lia|].
  destruct (Z.ltb_spec i nev); [|lia]. fold (flag i). rewrite IH by lia. destruct (flag i); lia.
Qed.

(* eigenvalues() writes exactly one entry per set flag among the first nev, in index order *)
Theorem eigenvalues_count nev : 0 <= nev ->
  herm_eigenvalues_count orc nev = cnt (Z.to_nat nev) 0 /\ gen_eigenvalues_count orc nev = cnt (Z.to_nat nev) 0.
Proof.
  intros H. unfold herm_eigenvalues_count, gen_eigenvalues_count. cbv zeta.
  replace (nev - 0) with nev by lia. rewrite herm_ev_loop, gen_ev_loop by lia. lia.
Qed.

Lemma herm_evec_loop fuel : forall i nev nconv nvec j, j <= nvec ->
  j <= herm_eigenvectors_cols_loop1 orc fuel i nev nconv nvec j <= nvec.
Proof.
  induction fuel as [|fuel IH]; intros i nev nconv nvec j H; cbn [herm_eigenvectors_cols_loop1]; [lia|].
  destruct ((i <? nev) && (j <? nvec)) eqn:E; [|lia].
  destruct (orc _ _); [specialize (IH (i + 1) nev nconv nvec (j + 1))|specialize (IH (i + 1) nev nconv nvec j)]; lia.
Qed.
Lemma gen_evec_loop fuel : forall i nev nconv nvec j, j <= nvec ->
  j <= gen_eigenvectors_cols_loop1 orc fuel i nev nconv nvec j <= nvec.
Proof.
  induction fuel as [|fuel IH]; intros i nev nconv nvec j H; cbn [gen_eigenvectors_cols_loop1]; [lia|].
  destruct ((i <? nev) && (j <? nvec)) eqn:E; [|lia].
  destruct (orc _ _); [specialize (IH (i + 1) nev nconv nvec (j + 1))|specialize (IH (i + 1) nev nconv nvec j)]; lia.
Qed.

(* eigenvectors(nvec) has min(nvec, nconv) columns and never writes past them *)
Theorem eigenvectors_cols nev nconv nvec : 0 <= nvec -> 0 <= nconv ->
  fst (herm_eigenvectors_cols orc nev nconv nvec) = Z.min nvec nconv /\
  0 <= snd (herm_eigenvectors_cols orc nev nconv nvec) <= Z.min nvec nconv /\
  fst (gen_eigenvectors_cols orc nev nconv nvec) = Z.min nvec nconv /\
  0 <= snd (gen_eigenvectors_cols orc nev nconv nvec) <= Z.min nvec nconv.
Proof.
  intros H1 H2. unfold herm_eigenvectors_cols, gen_eigenvectors_cols. cbv zeta. cbn [fst snd].
  pose proof (herm_evec_loop (Z.to_nat (nev - 0)) 0 nev nconv (Z.min nvec nconv) 0 ltac:(lia)).
  pose proof (gen_evec_loop (Z.to_nat (nev - 0)) 0 nev nconv (Z.min nvec nconv) 0 ltac:(lia)).
  lia.
Qed.
End Accessors.
