(* C08: UpperHessenbergQR in exact arithmetic over an arbitrary real closed field. *)
From SV Require Import Ops LinAlg Givens HessQR.
From mathcomp Require Import all_ssreflect all_algebra.
From mathcomp Require Import ring zify.
From SV Require Import OpsF.
Set Implicit Arguments. Unset Strict Implicit. Unset Printing Implicit Defensive.
Import Order.Theory GRing.Theory Num.Theory.
Local Open Scope ring_scope.

Section P.
Variable F : rcfType.
Variable cut : F.
Notation O := (OpsF F).
Notation rot := (@rot_at O).

Lemma size_rot_at i c s (y : seq F) : size (rot i c s y) = size y.
Proof. by elim: i y => [|i IH] [|a [|b y]] //=; rewrite IH. Qed.

Lemma nth_rot_at i c s (y : seq F) k : (i.+1 < size y)%N ->
  nth 0 (rot i c s y) k = if k == i then c * nth 0 y i - s * nth 0 y i.+1
                          else if k == i.+1 then s * nth 0 y i + c * nth 0 y i.+1 else nth 0 y k.
Proof.
elim: i y k => [|i IH].
- by case=> [|a [|b y]] k //= _; case: k => [|[|k]].
- case=> [|a y] k //=; rewrite ltnS => sz.
  by case: k => [|k] //=; rewrite IH.
Qed.

(* zero every row strictly below row m *)
Definition zb (m : nat) (y : seq F) : seq F := mkseq (fun k => if (k <= m)%N then nth 0 y k else 0) (size y).
Lemma size_zb m y : size (zb m y) = size y. Proof. by rewrite size_mkseq. Qed.
Lemma nth_zb m y k : nth 0 (zb m y) k = if (k <= m)%N then nth 0 y k else 0.
Proof.
case: (ltnP k (size y)) => hk; first by rewrite nth_mkseq.
by rewrite !nth_default ?size_zb //; case: ifP.
Qed.

Lemma rot_zb i c s m y : (i.+1 <= m)%N -> (i.+1 < size y)%N -> rot i c s (zb m y) = zb m (rot i c s y).
Proof.
move=> im sz; apply: (@eq_from_nth _ 0); first by rewrite size_rot_at !size_zb size_rot_at.
move=> k _; rewrite nth_rot_at ?size_zb // !nth_zb nth_rot_at //.
rewrite (ltnW im) im; case: eqP => [->|_]; first by rewrite (ltnW im).
by case: eqP => [->|_]; [rewrite im | ].
Qed.

Lemma rot_fix i c s y : (i.+1 < size y)%N -> nth 0 y i = 0 -> nth 0 y i.+1 = 0 -> rot i c s y = y.
Proof.
move=> sz y0 y1; apply: (@eq_from_nth _ 0); first by rewrite size_rot_at.
move=> k _; rewrite nth_rot_at // y0 y1 !mulr0 subr0 addr0.
by case: eqP => [->|_] //; case: eqP => [->|_].
Qed.

(* apply the rotations rs at positions k, k+1, ... : this is apply_QtY_from *)
Notation app_rots := (@apply_QtY_from O).
Lemma size_app_rots k rs y : size (app_rots k rs y) = size y.
Proof. by elim: rs k y => [|[c s] rs IH] k y //=; rewrite IH size_rot_at. Qed.
Lemma app_rots_rcons k rs c s y : app_rots k (rcons rs (c, s)) y = rot (k + size rs) c s (app_rots k rs y).
Proof. by elim: rs k y => [|[c' s'] rs IH] k y /=; rewrite ?addn0 // IH addSnnS. Qed.
Lemma app_rots_zb k rs m y : (k + size rs <= m)%N -> (k + size rs < size y)%N ->
  app_rots k rs (zb m y) = zb m (app_rots k rs y).
Proof.
elim: rs k y => [|[c s] rs IH] k y //=; rewrite addnS -addSn => km ksz.
rewrite rot_zb ?IH ?size_rot_at //.
- exact: leq_trans (leq_addr _ _) km.
- exact: leq_ltn_trans (leq_addr _ _) ksz.
Qed.

(* ---- matrix-level bookkeeping ---- *)
Lemma size_mapi_from A B k (f : nat -> A -> B) l : size (mapi_from k f l) = size l.
Proof. by elim: l k => [|x l IH] k //=; rewrite IH. Qed.
Lemma nth_mapi_from A B k (f : nat -> A -> B) l j d d' : (j < size l)%N ->
  nth d' (mapi_from k f l) j = f (k + j)%N (nth d l j).
Proof. by elim: l k j => [|x l IH] k [|j] //=; rewrite ?addn0 // ltnS => /IH ->; rewrite addSnnS. Qed.

Section Compute.
Variable n : nat.
Variable H : seq (seq F).
Variable sh : F.
Hypothesis szH : size H = n.
Hypothesis szcol : forall j, (j < n)%N -> size (nth [::] H j) = n.
Let H' := diag_sub O sh H.
Lemma szH' : size H' = n. Proof. by rewrite /H' /diag_sub /mapi size_mapi_from. Qed.
Lemma szcol' j : (j < n)%N -> size (nth [::] H' j) = n.
Proof. by move=> jn; rewrite /H' /diag_sub /mapi (nth_mapi_from _ _ [::]) ?szH // size_mapi_from szcol. Qed.

(* contract of the rotation kernel (discharged below for the standard branch) *)
Definition rot_contract := forall x y : F, let '(r, c, s) := compute_rotation O cut x y in c * x - s * y = r /\ s * x + c * y = 0.
Hypothesis Hrot : rot_contract.

Definition Inv (i : nat) (R : seq (seq F)) (rs : seq (F * F)) :=
  [/\ size R = n, size rs = i &
   forall j, (j < n)%N ->
     [/\ size (nth [::] R j) = n,
         (j < i)%N -> nth [::] R j = app_rots 0 rs (zb j.+1 (nth [::] H' j)) /\ (forall k, (j < k)%N -> nth 0 (nth [::] R j) k = 0)
       & (i <= j)%N -> nth [::] R j = app_rots 0 rs (nth [::] H' j)]].

Lemma Inv0 : Inv 0 H' [::].
Proof. split=> //; first exact: szH'. by move=> j jn; split=> //; exact: szcol'. Qed.

Lemma Inv_step i R rs : (i.+1 < n)%N -> Inv i R rs ->
  let '(R', cs) := hqr_step O cut n i R in Inv i.+1 R' (rcons rs cs).
Proof.
move=> in1 inv; case: inv => szR szrs IH; rewrite /hqr_step !nthE.
have iN : (i < n)%N by exact: ltnW.
have [szi _ /(_ (leqnn i)) coli] := IH i iN.
set col := nth [::] R i. set xi := nth 0 col i. set xj := nth 0 col i.+1.
case E: (compute_rotation O cut xi xj) => [[r c] s].
have := Hrot xi xj; rewrite E => -[e1 e2].
rewrite /Inv; split; first by rewrite size_mapi_from.
- by rewrite size_rcons szrs.
move=> j jn; rewrite (nth_mapi_from _ _ [::]) ?szR // add0n ltbE eqbE.
have [szj lo hi] := IH j jn.
case: (ltnP j i) => ji.
- have [ej zj] := lo ji.
  split=> //; last by move=> h; have := leq_trans ji (ltnW h); rewrite ltnn.
  move=> _; split=> //.
  rewrite app_rots_rcons add0n szrs -ej rot_fix ?szj // zj //; exact: ltnW.
- case: eqP => [ji'|/eqP ne].
  + subst j. rewrite /set_col_i firstnE repeatE appE.
    have szn : size (take i col ++ [:: r, 0 & nseq (n - i - 2) 0]) = n.
      rewrite size_cat size_take szi iN /= size_nseq; lia.
    split=> //; last by rewrite ltnn.
    move=> _; split.
    * rewrite app_rots_rcons add0n szrs.
      have -> : app_rots 0 rs (zb i.+1 (nth [::] H' i)) = zb i.+1 col.
        by rewrite app_rots_zb ?add0n ?szrs ?szcol' // /col coli.
      apply: (@eq_from_nth _ 0); first by rewrite szn size_rot_at size_zb szi.
      move=> k; rewrite szn => kn.
      rewrite nth_rot_at ?size_zb ?szi // !nth_zb leqnSn leqnn nth_cat size_take szi iN.
      case: (ltnP k i) => ki.
        have -> : (k == i) = false by lia. have -> : (k == i.+1) = false by lia.
        have -> : (k <= i.+1)%N by lia. by rewrite nth_take.
      case: eqP => [->|/eqP nki]; first by rewrite subnn /= e1.
      case: eqP => [->|/eqP nki1]; first by rewrite subSnn /= e2.
      have ki2 : (i.+1 < k)%N by rewrite ltn_neqAle eq_sym nki1 ltn_neqAle eq_sym nki ki.
      rewrite leqNgt ki2 /=.
      have -> : (k - i = (k - i - 2).+2)%N by lia.
      by rewrite /= nth_nseq; case: ifP.
    * move=> k ik; rewrite nth_cat size_take szi iN ltnNge (ltnW ik) /=.
      have -> : (k - i = (k - i.+1).+1)%N by lia.
      rewrite /=; case: (k - i.+1)%N => [|m] //=; by rewrite nth_nseq; case: ifP.
  + have ij : (i < j)%N by rewrite ltn_neqAle eq_sym ne ji.
    split; first by rewrite size_rot_at.
    * by rewrite ltnS leqNgt ij.
    * by move=> _; rewrite app_rots_rcons add0n szrs (hi ji).
Qed.

Lemma hqr_loop_inv fuel : forall i R acc, (i + fuel = n - 1)%N -> Inv i R (rev acc) ->
  let '(R', rs') := hqr_loop O cut n fuel i R acc in Inv (n - 1) R' rs'.
Proof.
elim: fuel => [|fuel IHf] i R acc /=.
- by rewrite addn0 revE => <-.
- move=> e inv.
  have in1 : (i.+1 < n)%N by lia.
  have := Inv_step in1 inv.
  case: (hqr_step O cut n i R) => R' cs inv'.
  by apply: IHf; [lia | rewrite rev_cons].
Qed.

(* R = Q^T (Hessenberg part of H - sI), column by column, and R is upper triangular *)
Theorem hqr_compute_spec :
  let '(R, rs) := hqr_compute O cut n H sh in
  [/\ size R = n, size rs = (n - 1)%N &
   forall j, (j < n)%N ->
     nth [::] R j = apply_QtY O rs (zb j.+1 (nth [::] H' j)) /\ (forall k, (j < k < n)%N -> nth 0 (nth [::] R j) k = 0)].
Proof.
rewrite /hqr_compute /apply_QtY.
have := @hqr_loop_inv (n - 1) 0 H' [::] (add0n _) Inv0.
case: (hqr_loop _ _ _ _ _ _ _) => R rs [szR szrs inv]; split=> // j jn.
have [szj lo hi] := inv j jn.
case: (ltnP j (n - 1)) => jn1.
- have [e z] := lo jn1; split=> // k /andP[jk _]; exact: z.
- have e := hi jn1. split; last by move=> k; lia.
  rewrite e; congr (apply_QtY_from _ _ _).
  apply: (@eq_from_nth _ 0); first by rewrite size_zb.
  move=> k kn; rewrite nth_zb. rewrite szcol' // in kn. by have -> : (k <= j.+1)%N by lia.
Qed.
End Compute.
End P.

(* ------------------------------------------------------------------ orthogonality of Q *)
Section Orth.
Variable F : rcfType.
Notation O := (OpsF F).
Notation rot := (@rot_at O).
Notation rott := (@rott_at O).

Fixpoint dotr (x y : seq F) : F :=
  match x, y with a :: x', b :: y' => a * b + dotr x' y' | _, _ => 0 end.

Lemma rot_at_dot i (c s : F) (x y : seq F) : size x = size y -> c ^+ 2 + s ^+ 2 = 1 ->
  dotr (rot i c s x) (rot i c s y) = dotr x y.
Proof.
move=> + cs1; elim: i x y => [|i IH].
- case=> [|a [|a' x]] [|b [|b' y]] //= _.
  have -> : (c * a - s * a') * (c * b - s * b') + ((s * a + c * a') * (s * b + c * b') + dotr x y)
     = (c ^+ 2 + s ^+ 2) * (a * b + a' * b') + dotr x y by ring.
  by rewrite cs1 mul1r addrA.
- by case=> [|a x] [|b y] //= [e]; rewrite IH.
Qed.

Lemma size_rott_at i c s (y : seq F) : size (rott i c s y) = size y.
Proof. by elim: i y => [|i IH] [|a [|b y]] //=; rewrite IH. Qed.

Lemma rott_rot i (c s : F) (y : seq F) : c ^+ 2 + s ^+ 2 = 1 -> rott i c s (rot i c s y) = y.
Proof.
move=> cs1; elim: i y => [|i IH].
- case=> [|a [|b y]] //=; congr [:: _, _ & _].
  + have -> : c * (c * a - s * b) + s * (s * a + c * b) = (c ^+ 2 + s ^+ 2) * a by ring.
    by rewrite cs1 mul1r.
  + have -> : - s * (c * a - s * b) + c * (s * a + c * b) = (c ^+ 2 + s ^+ 2) * b by ring.
    by rewrite cs1 mul1r.
- by case=> [|a y] //=; rewrite IH.
Qed.

Lemma rot_rott i (c s : F) (y : seq F) : c ^+ 2 + s ^+ 2 = 1 -> rot i c s (rott i c s y) = y.
Proof.
move=> cs1; elim: i y => [|i IH].
- case=> [|a [|b y]] //=; congr [:: _, _ & _].
  + have -> : c * (c * a + s * b) - s * (- s * a + c * b) = (c ^+ 2 + s ^+ 2) * a by ring.
    by rewrite cs1 mul1r.
  + have -> : s * (c * a + s * b) + c * (- s * a + c * b) = (c ^+ 2 + s ^+ 2) * b by ring.
    by rewrite cs1 mul1r.
- by case=> [|a y] //=; rewrite IH.
Qed.

Definition normalized (rs : seq (F * F)) := all (fun p => p.1 ^+ 2 + p.2 ^+ 2 == 1) rs.

Lemma apply_QtY_from_dot i (rs : seq (F * F)) (x y : seq F) : size x = size y -> normalized rs ->
  dotr (apply_QtY_from O i rs x) (apply_QtY_from O i rs y) = dotr x y.
Proof.
elim: rs i x y => [|[c s] rs IH] i x y //= sz /andP[/eqP h1 hall].
by rewrite IH ?size_rot_at // rot_at_dot.
Qed.

(* Q' preserves inner products (hence norms) *)
Theorem QtY_isometry (rs : seq (F * F)) (x y : seq F) : size x = size y -> normalized rs ->
  dotr (apply_QtY O rs x) (apply_QtY O rs y) = dotr x y.
Proof. exact: apply_QtY_from_dot. Qed.

Lemma apply_QY_rev_rcons (rs : seq (F * F)) c s k y :
  apply_QY_rev O (rev (rcons rs (c, s))) k.+1 y = apply_QY_rev O (rev rs) k (rott k c s y).
Proof. by rewrite rev_rcons. Qed.

(* Q Q' = I and Q' Q = I on vectors *)
Theorem QY_QtY (rs : seq (F * F)) (y : seq F) : normalized rs ->
  apply_QY O rs (apply_QtY O rs y) = y.
Proof.
rewrite /apply_QY /apply_QtY revE lengthE.
elim/last_ind: rs y => [|rs [c s] IH] y //.
rewrite /normalized all_rcons => /andP[/eqP /= h1 hall].
rewrite size_rcons apply_QY_rev_rcons (app_rots_rcons) add0n rott_rot //; exact: IH.
Qed.

Lemma apply_QtY_from_cat k (r1 r2 : seq (F * F)) y :
  apply_QtY_from O k (r1 ++ r2) y = apply_QtY_from O (k + size r1) r2 (apply_QtY_from O k r1 y).
Proof. by elim: r1 k y => [|[c s] r1 IH] k y /=; rewrite ?addn0 // IH addSnnS. Qed.

Theorem QtY_QY (rs : seq (F * F)) (y : seq F) : normalized rs ->
  apply_QtY O rs (apply_QY O rs y) = y.
Proof.
rewrite /apply_QY /apply_QtY revE lengthE.
elim/last_ind: rs y => [|rs [c s] IH] y //.
rewrite /normalized all_rcons => /andP[/eqP /= h1 hall].
rewrite size_rcons apply_QY_rev_rcons app_rots_rcons add0n IH // rot_rott //.
Qed.
End Orth.

(* ------------------------------------------------------------------ similarity: Q'HQ *)
Section Sim.
Variable F : rcfType.
Notation O := (OpsF F).
Notation rot := (@rot_at O).
Notation rott := (@rott_at O).

Definition vaddr (x y : seq F) : seq F := [seq p.1 + p.2 | p <- zip x y].
Definition vscal (a : F) (x : seq F) : seq F := [seq a * t | t <- x].
(* matrix (list of columns of size n) times vector *)
Fixpoint mv (n : nat) (M : seq (seq F)) (x : seq F) : seq F :=
  match M, x with c :: M', a :: x' => vaddr (vscal a c) (mv n M' x') | _, _ => nseq n 0 end.

Lemma size_vaddr x y : size (vaddr x y) = minn (size x) (size y).
Proof. by rewrite /vaddr size_map size_zip. Qed.
Lemma size_vscal a x : size (vscal a x) = size x. Proof. by rewrite /vscal size_map. Qed.
Definition cols_ok (n : nat) (M : seq (seq F)) := all (fun c => size c == n) M.
Lemma size_mv n M x : cols_ok n M -> size (mv n M x) = n.
Proof.
elim: M x => [|c M IH] [|a x] //=; rewrite ?size_nseq // => /andP[/eqP sc ok].
by rewrite size_vaddr size_vscal sc IH // minnn.
Qed.

(* rot is linear *)
Lemma rot_vaddr i c s (x y : seq F) : size x = size y -> rot i c s (vaddr x y) = vaddr (rot i c s x) (rot i c s y).
Proof.
elim: i x y => [|i IH].
- case=> [|a [|a' x]] [|b [|b' y]] //= _; rewrite /vaddr /=; congr [:: _, _ & _]; ring.
- by case=> [|a x] [|b y] //= [e]; rewrite /vaddr /= -/(vaddr _ _) IH.
Qed.
Lemma rot_vscal i c s a (x : seq F) : rot i c s (vscal a x) = vscal a (rot i c s x).
Proof.
elim: i x => [|i IH].
- case=> [|u [|v x]] //=; rewrite /vscal /=; congr [:: _, _ & _]; ring.
- by case=> [|u x] //=; rewrite /vscal /= -/(vscal _ _) IH.
Qed.
Lemma rot_zero i c s n : rot i c s (nseq n (0 : F)) = nseq n 0.
Proof.
elim: i n => [|i IH] [|n] //=.
- by case: n => [|n] //=; rewrite !mulr0 subrr addr0.
- by rewrite IH.
Qed.

Lemma QtY_from_mv k rs n M x : cols_ok n M ->
  apply_QtY_from O k rs (mv n M x) = mv n [seq apply_QtY_from O k rs c | c <- M] x.
Proof.
elim: rs k M x => [|[c s] rs IH] k M x ok /=; first by rewrite map_id.
have -> : rot k c s (mv n M x) = mv n [seq rot k c s col | col <- M] x.
  elim: M x ok => [|col M IHM] [|a x] //=; rewrite ?rot_zero // => /andP[/eqP sc ok].
  by rewrite rot_vaddr ?size_vscal ?size_mv ?sc // rot_vscal IHM.
rewrite IH -?map_comp //.
by rewrite /cols_ok all_map; apply/allP => col /(allP ok) /=; rewrite size_rot_at.
Qed.

(* rotating columns i, i+1 of M == rotating (transposed) entries i, i+1 of x *)
Fixpoint colrot (i : nat) (c s : F) (M : seq (seq F)) : seq (seq F) :=
  match i, M with
  | 0, a :: b :: M' => vaddr (vscal c a) (vscal (- s) b) :: vaddr (vscal s a) (vscal c b) :: M'
  | i'.+1, a :: M' => a :: colrot i' c s M'
  | _, _ => M
  end.

Lemma lin2 (c s u v : F) (a b r : seq F) : size a = size b -> size b = size r ->
  vaddr (vscal u (vaddr (vscal c a) (vscal (- s) b))) (vaddr (vscal v (vaddr (vscal s a) (vscal c b))) r) =
  vaddr (vscal (c * u + s * v) a) (vaddr (vscal (- s * u + c * v) b) r).
Proof.
elim: a b r => [|x a IH] [|y b] [|z r] //= [e1] [e2].
rewrite /vaddr /vscal /= -/(vscal _ _) -/(vaddr _ _).
congr (_ :: _); first by ring.
exact: IH.
Qed.

Lemma mv_colrot n i c s M x : cols_ok n M -> size x = size M ->
  mv n (colrot i c s M) x = mv n M (rott i c s x).
Proof.
elim: i M x => [|i IH].
- case=> [|a [|b M]] [|u [|v x]] //= /and3P[/eqP sa /eqP sb ok] _.
  by rewrite lin2 ?sa ?sb ?size_mv.
- case=> [|a M] [|u x] //= /andP[sa ok] [sx].
  by rewrite IH.
Qed.

Lemma cols_ok_colrot n i c s M : cols_ok n M -> cols_ok n (colrot i c s M).
Proof.
elim: i M => [|i IH].
- case=> [|a [|b M]] //= /and3P[/eqP sa /eqP sb ok].
  by rewrite !size_vaddr !size_vscal sa sb minnn eqxx ok.
- by case=> [|a M] //= /andP[-> ok]; rewrite IH.
Qed.

(* Q x = G_0 (G_1 (... x)) : the rotations applied from the last to the first *)
Fixpoint QYp (k : nat) (rs : seq (F * F)) (x : seq F) : seq F :=
  if rs is (c, s) :: rs' then rott k c s (QYp k.+1 rs' x) else x.
Lemma QYp_rcons k rs c s x : QYp k (rcons rs (c, s)) x = QYp k rs (rott (k + size rs) c s x).
Proof. by elim: rs k => [|[c' s'] rs IH] k /=; rewrite ?addn0 // IH addSnnS. Qed.
Lemma apply_QY_QYp rs x : apply_QY O rs x = QYp 0 rs x.
Proof.
rewrite /apply_QY revE lengthE.
elim/last_ind: rs x => [|rs [c s] IH] x //.
by rewrite size_rcons apply_QY_rev_rcons IH QYp_rcons add0n.
Qed.
Lemma size_QYp k rs x : size (QYp k rs x) = size x.
Proof. by elim: rs k => [|[c s] rs IH] k //=; rewrite size_rott_at IH. Qed.

(* column version of the product R G_k G_{k+1} ... *)
Fixpoint colrots (k : nat) (rs : seq (F * F)) (M : seq (seq F)) : seq (seq F) :=
  if rs is (c, s) :: rs' then colrots k.+1 rs' (colrot k c s M) else M.

Theorem mv_colrots n k rs M x : cols_ok n M -> size x = size M ->
  mv n (colrots k rs M) x = mv n M (QYp k rs x).
Proof.
elim: rs k M x => [|[c s] rs IH] k M x ok sx //=.
rewrite IH ?cols_ok_colrot //; last first.
  by rewrite sx; elim: k M {ok sx IH} => [|k IHk] [|a [|b M]] //=; rewrite -?IHk.
by rewrite mv_colrot // size_QYp.
Qed.

(* ---- the RQ loop of matrix_QtHQ only touches the first i+2 rows of columns i, i+1: on an upper triangular R this is the
   full column rotation, hence  rq_loop = R G_0 G_1 ...  *)
Definition tri_from (n i : nat) (M : seq (seq F)) : Prop :=
  [/\ size M = n, cols_ok n M & forall j r, (i <= j < n)%N -> (j < r < n)%N -> nth 0 (nth [::] M j) r = 0].

Lemma zero_comb (c s : F) (a b : seq F) : size a = size b ->
  (forall r, (r < size a)%N -> nth 0 a r = 0 /\ nth 0 b r = 0) ->
  vaddr (vscal c a) (vscal (- s) b) = a /\ vaddr (vscal s a) (vscal c b) = b.
Proof.
elim: a b => [|x a IH] [|y b] //= [sab] z.
have [x0 y0] := z 0%N (ltn0Sn _); rewrite /= in x0 y0.
have [|e1 e2] := IH b sab; first by move=> r rs; exact: (z r.+1).
split.
- by rewrite -[in RHS]e1 x0 y0 /vaddr /vscal /= !mulr0 addr0.
- by rewrite -[in RHS]e2 x0 y0 /vaddr /vscal /= !mulr0 addr0.
Qed.

Lemma rot_cols_rows_full k (c s : F) (a b : seq F) : size a = size b ->
  (forall r, (k <= r < size a)%N -> nth 0 a r = 0 /\ nth 0 b r = 0) ->
  rot_cols_rows O k c s a b = (vaddr (vscal c a) (vscal (- s) b), vaddr (vscal s a) (vscal c b)).
Proof.
elim: k a b => [|k IH] a b sab z.
- have [|-> ->] := @zero_comb c s a b sab; first by move=> r rs; apply: z.
  by case: a b {sab z} => [|x a] [|y b].
- case: a b sab z => [|x a] [|y b] //= [sab] z.
  rewrite IH //; last by move=> r rs; exact: (z r.+1).
  by rewrite /vaddr /vscal /=; congr (_ :: _, _ :: _); ring.
Qed.

Lemma size_colrot i (c s : F) M : size (colrot i c s M) = size M.
Proof. by elim: i M => [|i IH] [|a [|b M]] //=; rewrite IH. Qed.

Lemma nth_colrot i (c s : F) M j : (i.+1 < size M)%N ->
  nth [::] (colrot i c s M) j =
  if j == i then vaddr (vscal c (nth [::] M i)) (vscal (- s) (nth [::] M i.+1))
  else if j == i.+1 then vaddr (vscal s (nth [::] M i)) (vscal c (nth [::] M i.+1)) else nth [::] M j.
Proof.
elim: i M j => [|i IH] [|a [|b M]] [|j] //= h; try by case: j.
all: by rewrite IH.
Qed.

Lemma nth_lin (u v : F) (x y : seq F) r : size x = size y -> (r < size x)%N ->
  nth 0 (vaddr (vscal u x) (vscal v y)) r = u * nth 0 x r + v * nth 0 y r.
Proof. by elim: x y r => [|a x IH] [|b y] [|r] //= [sxy] rs; rewrite /vaddr /vscal /= -/(vscal _ _) -/(vscal _ _) -/(vaddr _ _); exact: IH. Qed.

Lemma rq_step n i (c s : F) M : (i.+1 < n)%N -> tri_from n i M ->
  let a := nth [::] M i in let b := nth [::] M i.+1 in
  let '(a2, b2) := rot_cols_rows O (i + 2) c s a b in
  let M' := mapi_from 0 (fun j cj => if PeanoNat.Nat.eqb j i then a2 else if PeanoNat.Nat.eqb j i.+1 then b2 else cj) M in
  M' = colrot i c s M /\ tri_from n i.+1 M'.
Proof.
move=> i1n [szM ok tri] a b.
have sa : size a = n by move/allP: ok => /(_ a) /(_ (mem_nth _ _)) /eqP -> //; rewrite szM; lia.
have sb : size b = n by move/allP: ok => /(_ b) /(_ (mem_nth _ _)) /eqP -> //; rewrite szM.
have hz : forall r, (i + 2 <= r < size a)%N -> nth 0 a r = 0 /\ nth 0 b r = 0.
  by move=> r /andP[r1 r2]; rewrite sa in r2; split; apply: tri; lia.
rewrite (rot_cols_rows_full c s (etrans sa (esym sb)) hz).
set a2 := vaddr _ _; set b2 := vaddr _ _.
have e : mapi_from 0 (fun j cj => if PeanoNat.Nat.eqb j i then a2 else if PeanoNat.Nat.eqb j i.+1 then b2 else cj) M = colrot i c s M.
  apply: (@eq_from_nth _ [::]); first by rewrite size_mapi_from size_colrot.
  move=> j; rewrite size_mapi_from => jM.
  by rewrite (@nth_mapi_from _ _ 0 _ M j [::] [::]) // add0n nth_colrot ?szM // !eqbE.
rewrite /= e; split=> //; split; first by rewrite size_colrot.
- exact: cols_ok_colrot.
- move=> j r /andP[j1 j2] /andP[r1 r2]; rewrite nth_colrot ?szM //.
  have -> : (j == i) = false by apply/eqP; lia.
  case: eqP => [ej|_]; last by apply: tri; lia.
  have ar : nth 0 a r = 0 by apply: tri; lia.
  have br : nth 0 b r = 0 by apply: tri; lia.
  by rewrite /b2 nth_lin ?sa ?sb // ar br !mulr0 addr0.
Qed.

Lemma rq_loop_colrots n rs i M : (i + size rs < n)%N -> tri_from n i M -> rq_loop O i rs M = colrots i rs M.
Proof.
elim: rs i M => [|[c s] rs IH] i M //= h tr.
have i1n : (i.+1 < n)%N by lia.
have := @rq_step n i c s M i1n tr.
rewrite /= !nthE.
case: (rot_cols_rows _ _ _ _ _ _) => a2 b2 /= [-> tr'].
by apply: IH tr'; rewrite addSnnS.
Qed.
End Sim.

(* ------------------------------------------------------------------ matrix_QtHQ = Q' H Q *)
Section Final.
Variable F : rcfType.
Variable cut : F.
Notation O := (OpsF F).

(* the rotation kernel's contract (rotation_spec discharges it for the standard branch) *)
Hypothesis Hrot3 : forall x y : F, let '(r, c, s) := compute_rotation O cut x y in
  [/\ c * x - s * y = r, s * x + c * y = 0 & c ^+ 2 + s ^+ 2 = 1].

Lemma hqr_loop_normalized n fuel i R acc : normalized acc ->
  normalized (hqr_loop O cut n fuel i R acc).2.
Proof.
elim: fuel i R acc => [|fuel IH] i R acc /= na.
- by rewrite revE /normalized all_rev.
- rewrite /hqr_step.
  have := Hrot3 (List.nth i (List.nth i R nil) 0) (List.nth i.+1 (List.nth i R nil) 0).
  case: (compute_rotation _ _ _ _) => [[r c] s] [_ _ e3].
  by apply: IH; rewrite /normalized /= e3 eqxx.
Qed.

(* linearity of Q' *)
Lemma QtY_from_vaddr k rs (x y : seq F) : size x = size y ->
  apply_QtY_from O k rs (vaddr x y) = vaddr (apply_QtY_from O k rs x) (apply_QtY_from O k rs y).
Proof.
elim: rs k x y => [|[c s] rs IH] k x y sxy //=.
by rewrite rot_vaddr // IH // !size_rot_at.
Qed.
Lemma QtY_from_vscal k rs a (x : seq F) : apply_QtY_from O k rs (vscal a x) = vscal a (apply_QtY_from O k rs x).
Proof. by elim: rs k x => [|[c s] rs IH] k x //=; rewrite rot_vscal IH. Qed.

Lemma size_QtY_from k rs (x : seq F) : size (apply_QtY_from O k rs x) = size x.
Proof. by elim: rs k x => [|[c s] rs IH] k x //=; rewrite IH size_rot_at. Qed.

(* entries of a matrix-vector product *)
Lemma nth_vaddr (x y : seq F) r : size x = size y -> (r < size x)%N -> nth 0 (vaddr x y) r = nth 0 x r + nth 0 y r.
Proof. by elim: x y r => [|a x IH] [|b y] [|r] //= [sxy] rs; exact: IH. Qed.
Lemma nth_vscal a (x : seq F) r : nth 0 (vscal a x) r = a * nth 0 x r.
Proof. by elim: x r => [|b x IH] [|r] //=; rewrite ?mulr0. Qed.

Lemma nth_mv n (M : seq (seq F)) x r : cols_ok n M -> size x = size M -> (r < n)%N ->
  nth 0 (mv n M x) r = \sum_(0 <= j < size M) nth 0 x j * nth 0 (nth [::] M j) r.
Proof.
elim: M x => [|c M IH] [|a x] //= ok sx rn; first by rewrite big_nil nth_nseq rn.
move: ok => /andP[/eqP sc ok]; case: sx => sx.
rewrite nth_vaddr ?size_vscal ?size_mv ?sc // nth_vscal IH // big_nat_recl //=.
Qed.

Lemma sum_delta n (f : nat -> F) r : (r < n)%N -> \sum_(0 <= j < n) (if r == j then f j else 0) = f r.
Proof.
move=> rn; rewrite (@big_cat_nat _ _ _ r) //= ?leq0n //; last exact: ltnW.
rewrite big_nat_cond big1 ?add0r; last by move=> j /andP[/andP[_ jr] _]; case: eqP => // e; rewrite e ltnn in jr.
rewrite big_ltn // eqxx big_nat_cond big1 ?addr0 //.
by move=> j /andP[/andP[rj _] _]; case: eqP => // e; rewrite e ltnn in rj.
Qed.

Lemma nth_diag_add s (M : seq (seq F)) j r : (j < size M)%N -> (r < size (nth [::] M j))%N ->
  nth 0 (nth [::] (diag_add O s M) j) r = nth 0 (nth [::] M j) r + (if r == j then s else 0).
Proof.
move=> jM rc; rewrite /diag_add /mapi (@nth_mapi_from _ _ 0 _ M j [::] [::]) // add0n.
rewrite (@nth_mapi_from _ _ 0 _ (nth [::] M j) r 0 0) // add0n eqbE /=.
by case: eqP => _; rewrite ?addr0.
Qed.
Lemma nth_diag_sub s (M : seq (seq F)) j r : (j < size M)%N -> (r < size (nth [::] M j))%N ->
  nth 0 (nth [::] (diag_sub O s M) j) r = nth 0 (nth [::] M j) r - (if r == j then s else 0).
Proof.
move=> jM rc; rewrite /diag_sub /mapi (@nth_mapi_from _ _ 0 _ M j [::] [::]) // add0n.
rewrite (@nth_mapi_from _ _ 0 _ (nth [::] M j) r 0 0) // add0n eqbE /=.
by case: eqP => _; rewrite ?subr0.
Qed.
Lemma size_diag_add s (M : seq (seq F)) : size (diag_add O s M) = size M.
Proof. by rewrite /diag_add /mapi size_mapi_from. Qed.
Lemma cols_ok_diag_add n s (M : seq (seq F)) : cols_ok n M -> cols_ok n (diag_add O s M).
Proof.
move=> ok; apply/(all_nthP [::]) => j; rewrite size_diag_add => jM.
rewrite /diag_add /mapi (@nth_mapi_from _ _ 0 _ M j [::] [::]) // size_mapi_from.
exact: (all_nthP [::] ok).
Qed.

Lemma mv_diag_add n s (M : seq (seq F)) x : size M = n -> cols_ok n M -> size x = n ->
  mv n (diag_add O s M) x = vaddr (mv n M x) (vscal s x).
Proof.
move=> sM ok sx; apply: (@eq_from_nth _ 0).
  by rewrite size_vaddr size_vscal !size_mv ?cols_ok_diag_add // sx minnn.
move=> r; rewrite size_mv ?cols_ok_diag_add // => rn.
rewrite nth_vaddr ?size_mv ?size_vscal ?sx // nth_vscal !nth_mv ?size_diag_add ?cols_ok_diag_add ?sM ?sx //.
rewrite -(sum_delta (fun j => s * nth 0 x j) rn) -big_split /=.
apply: eq_big_nat => j /andP[_ jn].
rewrite nth_diag_add ?sM //; last by rewrite (eqP (all_nthP [::] ok j _)) ?sM.
by rewrite mulrDr; case: (r == j); rewrite ?mulr0 // [X in _ + X = _]mulrC.
Qed.

Definition hess (n : nat) (M : seq (seq F)) : seq (seq F) := mkseq (fun j => zb j.+1 (nth [::] M j)) n.

Lemma cols_ok_hess n (M : seq (seq F)) : (forall j, (j < n)%N -> size (nth [::] M j) = n) -> cols_ok n (hess n M).
Proof. by move=> h; apply/(all_nthP [::]) => j; rewrite size_mkseq => jn; rewrite nth_mkseq // size_zb h. Qed.

Lemma mv_hess_shift n sh (M : seq (seq F)) y : size M = n -> (forall j, (j < n)%N -> size (nth [::] M j) = n) -> size y = n ->
  mv n (hess n (diag_sub O sh M)) y = vaddr (mv n (hess n M) y) (vscal (- sh) y).
Proof.
move=> sM sc sy.
have sc' : forall j, (j < n)%N -> size (nth [::] (diag_sub O sh M) j) = n.
  by move=> j jn; rewrite /diag_sub /mapi (@nth_mapi_from _ _ 0 _ M j [::] [::]) ?sM // size_mapi_from sc.
apply: (@eq_from_nth _ 0).
  by rewrite size_vaddr size_vscal !size_mv ?cols_ok_hess // sy minnn.
move=> r; rewrite size_mv ?cols_ok_hess // => rn.
rewrite nth_vaddr ?size_mv ?size_vscal ?sy ?cols_ok_hess // nth_vscal !nth_mv ?size_mkseq ?cols_ok_hess ?sy //.
rewrite -(sum_delta (fun j => - sh * nth 0 y j) rn) -big_split /=.
apply: eq_big_nat => j /andP[_ jn].
rewrite !nth_mkseq ?sc ?sc' // nth_diag_sub ?sM ?sc //.
case: (leqP r j.+1) => rj.
- by rewrite mulrBr; case: (r == j); rewrite ?mulr0 ?subr0 ?addr0 // mulNr [sh * _]mulrC.
- have -> : (r == j) = false by apply/eqP; lia.
  by rewrite mulr0 addr0.
Qed.

Lemma size_colrots k rs (M : seq (seq F)) : size (colrots k rs M) = size M.
Proof. by elim: rs k M => [|[c s] rs IH] k M //=; rewrite IH size_colrot. Qed.
Lemma cols_ok_colrots n k rs (M : seq (seq F)) : cols_ok n M -> cols_ok n (colrots k rs M).
Proof. by elim: rs k M => [|[c s] rs IH] k M //= ok; apply: IH; exact: cols_ok_colrot. Qed.

Lemma vadd_cancel (a : F) (u x : seq F) : size u = size x ->
  vaddr (vaddr u (vscal (- a) x)) (vscal a x) = u.
Proof.
elim: u x => [|p u IH] [|q x] //= [sux].
rewrite /vaddr /vscal /= -/(vscal _ _) -/(vscal _ _) -/(vaddr _ _) -/(vaddr _ _) IH //.
by congr (_ :: _); ring.
Qed.

(* matrix_QtHQ() = Q' H Q: for every n >= 1, every input (entries below the sub-diagonal ignored), every shift *)
Theorem hqr_QtHQ_similar n (H : seq (seq F)) sh : (0 < n)%N -> size H = n -> (forall j, (j < n)%N -> size (nth [::] H j) = n) ->
  let '(R, rs) := hqr_compute O cut n H sh in
  forall x, size x = n -> mv n (hqr_QtHQ O R rs sh) x = apply_QtY O rs (mv n (hess n H) (apply_QY O rs x)).
Proof.
move=> n0 sH sc.
have Hrot : rot_contract cut.
  by move=> x y; have := Hrot3 x y; case: (compute_rotation _ _ _ _) => [[r c] s] [].
have := @hqr_compute_spec F cut n H sh sH sc Hrot.
have := @hqr_loop_normalized n (n - 1) 0 (diag_sub O sh H) [::] isT.
rewrite /hqr_compute; case: (hqr_loop _ _ _ _ _ _ _) => R rs /= nrm [sR srs cols] x sx.
set H' := diag_sub O sh H in cols.
have sc' : forall j, (j < n)%N -> size (nth [::] H' j) = n.
  by move=> j jn; rewrite /H' /diag_sub /mapi (@nth_mapi_from _ _ 0 _ H j [::] [::]) ?sH // size_mapi_from sc.
have eR : R = [seq apply_QtY O rs c | c <- hess n H'].
  apply: (@eq_from_nth _ [::]); first by rewrite size_map size_mkseq.
  move=> j; rewrite sR => jn; rewrite (nth_map [::]) ?size_mkseq // nth_mkseq //.
  by have [-> _] := cols j jn.
have okR : cols_ok n R.
  rewrite eR /cols_ok all_map; apply/(all_nthP [::]) => j; rewrite size_mkseq => jn /=.
  by rewrite /apply_QtY size_QtY_from nth_mkseq // size_zb sc'.
have tri : tri_from n 0 R.
  split=> // j r /andP[_ jn] jr; have [_ z] := cols j jn; exact: z.
rewrite /hqr_QtHQ (@rq_loop_colrots _ n) //; last by rewrite add0n srs; lia.
rewrite mv_diag_add ?size_colrots ?cols_ok_colrots // mv_colrots ?sR // -apply_QY_QYp.
set y := apply_QY O rs x.
have sy : size y = n by rewrite /y apply_QY_QYp size_QYp.
have -> : mv n R y = apply_QtY O rs (mv n (hess n H') y).
  by rewrite /apply_QtY QtY_from_mv ?cols_ok_hess // eR.
rewrite mv_hess_shift // /apply_QtY QtY_from_vaddr ?size_vscal ?size_mv ?cols_ok_hess // QtY_from_vscal.
have -> : apply_QtY_from O 0 rs y = x by have := QtY_QY x nrm; rewrite /apply_QtY.
by rewrite vadd_cancel // size_QtY_from size_mv ?cols_ok_hess.
Qed.
End Final.
