(* C08: UpperHessenbergQR in exact arithmetic over an arbitrary real closed field. *)
From SV Require Import Ops LinAlg Givens HessQR.
From mathcomp Require Import all_ssreflect all_algebra.
From mathcomp Require Import ring zify.
From SV Require Import OpsF.
Set Implicit Arguments. Unset Strict Implicit. Unset Printing Implicit Defensive.
Import Order.Theory GRing.Theory Num.Theory.
Local Open Scope ring_scope.

Section P.
Variable F : rcfType.
Variable cut : F.
Notation O := (OpsF F).
Notation rot := (@rot_at O).

Lemma size_rot_at i c s (y : seq F) : size (rot i c s y) = size y.
Proof. by elim: i y => [|i IH] [|a [|b y]] //=; rewrite IH. Qed.

Lemma nth_rot_at i c s (y : seq F) k : (i.+1 < size y)%N ->
  nth 0 (rot i c s y) k = if k == i then c * nth 0 y i - s * nth 0 y i.+1
                          else if k == i.+1 then s * nth 0 y i + c * nth 0 y i.+1 else nth 0 y k.
Proof.
elim: i y k => [|i IH].
- by case=> [|a [|b y]] k //= _; case: k => [|[|k]].
- case=> [|a y] k //=; rewrite ltnS => sz.
  by case: k => [|k] //=; rewrite IH.
Qed.

(* zero every row strictly below row m *)
Definition zb (m : nat) (y : seq F) : seq F := mkseq (fun k => if (k <= m)%N then nth 0 y k else 0) (size y).
Lemma size_zb m y : size (zb m y) = size y. Proof. by rewrite size_mkseq. Qed.
Lemma nth_zb m y k : nth 0 (zb m y) k = if (k <= m)%N then nth 0 y k else 0.
Proof.
case: (ltnP k (size y)) => hk; first by rewrite nth_mkseq.
by rewrite !nth_default ?size_zb //; case: ifP.
Qed.

Lemma rot_zb i c s m y : (i.+1 <= m)%N -> (i.+1 < size y)%N -> rot i c s (zb m y) = zb m (rot i c s y).
Proof.
move=> im sz; apply: (@eq_from_nth _ 0); first by rewrite size_rot_at !size_zb size_rot_at.
move=> k _; rewrite nth_rot_at ?size_zb // !nth_zb nth_rot_at //.
rewrite (ltnW im) im; case: eqP => [->|_]; first by rewrite (ltnW im).
by case: eqP => [->|_]; [rewrite im | ].
Qed.

Lemma rot_fix i c s y : (i.+1 < size y)%N -> nth 0 y i = 0 -> nth 0 y i.+1 = 0 -> rot i c s y = y.
Proof.
move=> sz y0 y1; apply: (@eq_from_nth _ 0); first by rewrite size_rot_at.
move=> k _; rewrite nth_rot_at // y0 y1 !mulr0 subr0 addr0.
by case: eqP => [->|_] //; case: eqP => [->|_].
Qed.

(* apply the rotations rs at positions k, k+1, ... : this is apply_QtY_from *)
Notation app_rots := (@apply_QtY_from O).
Lemma size_app_rots k rs y : size (app_rots k rs y) = size y.
Proof. by elim: rs k y => [|[c s] rs IH] k y //=; rewrite IH size_rot_at. Qed.
Lemma app_rots_rcons k rs c s y : app_rots k (rcons rs (c, s)) y = rot (k + size rs) c s (app_rots k rs y).
Proof. by elim: rs k y => [|[c' s'] rs IH] k y /=; rewrite ?addn0 // IH addSnnS. Qed.
Lemma app_rots_zb k rs m y : (k + size rs <= m)%N -> (k + size rs < size y)%N ->
  app_rots k rs (zb m y) = zb m (app_rots k rs y).
Proof.
elim: rs k y => [|[c s] rs IH] k y //=; rewrite addnS -addSn => km ksz.
rewrite rot_zb ?IH ?size_rot_at //.
- exact: leq_trans (leq_addr _ _) km.
- exact: leq_ltn_trans (leq_addr _ _) ksz.
Qed.

(* ---- matrix-level bookkeeping ---- *)
Lemma size_mapi_from A B k (f : nat -> A -> B) l : size (mapi_from k f l) = size l.
Proof. by elim: l k => [|x l IH] k //=; rewrite IH. Qed.
Lemma nth_mapi_from A B k (f : nat -> A -> B) l j d d' : (j < size l)%N ->
  nth d' (mapi_from k f l) j = f (k + j)%N (nth d l j).
Proof. by elim: l k j => [|x l IH] k [|j] //=; rewrite ?addn0 // ltnS => /IH ->; rewrite addSnnS. Qed.

Section Compute.
Variable n : nat.
Variable H : seq (seq F).
Variable sh : F.
Hypothesis szH : size H = n.
Hypothesis szcol : forall j, (j < n)%N -> size (nth [::] H j) = n.
Let H' := diag_sub O sh H.
Lemma szH' : size H' = n. Proof. by rewrite /H' /diag_sub /mapi size_mapi_from. Qed.
Lemma szcol' j : (j < n)%N -> size (nth [::] H' j) = n.
Proof. by move=> jn; rewrite /H' /diag_sub /mapi (nth_mapi_from _ _ [::]) ?szH // size_mapi_from szcol. Qed.

(* contract of the rotation kernel (discharged below for the standard branch) *)
Hypothesis Hrot : forall x y : F, let '(r, c, s) := compute_rotation O cut x y in c * x - s * y = r /\ s * x + c * y = 0.

Definition Inv (i : nat) (R : seq (seq F)) (rs : seq (F * F)) :=
  [/\ size R = n, size rs = i &
   forall j, (j < n)%N ->
     [/\ size (nth [::] R j) = n,
         (j < i)%N -> nth [::] R j = app_rots 0 rs (zb j.+1 (nth [::] H' j)) /\ (forall k, (j < k)%N -> nth 0 (nth [::] R j) k = 0)
       & (i <= j)%N -> nth [::] R j = app_rots 0 rs (nth [::] H' j)]].

Lemma Inv0 : Inv 0 H' [::].
Proof. split=> //; first exact: szH'. by move=> j jn; split=> //; exact: szcol'. Qed.

Lemma Inv_step i R rs : (i.+1 < n)%N -> Inv i R rs ->
  let '(R', cs) := hqr_step O cut n i R in Inv i.+1 R' (rcons rs cs).
Proof.
move=> in1 inv; case: inv => szR szrs IH; rewrite /hqr_step !nthE.
have iN : (i < n)%N by exact: ltnW.
have [szi _ /(_ (leqnn i)) coli] := IH i iN.
set col := nth [::] R i. set xi := nth 0 col i. set xj := nth 0 col i.+1.
case E: (compute_rotation O cut xi xj) => [[r c] s].
have := Hrot xi xj; rewrite E => -[e1 e2].
rewrite /Inv; split; first by rewrite size_mapi_from.
- by rewrite size_rcons szrs.
move=> j jn; rewrite (nth_mapi_from _ _ [::]) ?szR // add0n ltbE eqbE.
have [szj lo hi] := IH j jn.
case: (ltnP j i) => ji.
- have [ej zj] := lo ji.
  split=> //; last by move=> h; have := leq_trans ji (ltnW h); rewrite ltnn.
  move=> _; split=> //.
  rewrite app_rots_rcons add0n szrs -ej rot_fix ?szj // zj //; exact: ltnW.
- case: eqP => [ji'|/eqP ne].
  + subst j. rewrite /set_col_i firstnE repeatE appE.
    have szn : size (take i col ++ [:: r, 0 & nseq (n - i - 2) 0]) = n.
      rewrite size_cat size_take szi iN /= size_nseq; lia.
    split=> //; last by rewrite ltnn.
    move=> _; split.
    * rewrite app_rots_rcons add0n szrs.
      have -> : app_rots 0 rs (zb i.+1 (nth [::] H' i)) = zb i.+1 col.
        by rewrite app_rots_zb ?add0n ?szrs ?szcol' // /col coli.
      apply: (@eq_from_nth _ 0); first by rewrite szn size_rot_at size_zb szi.
      move=> k; rewrite szn => kn.
      rewrite nth_rot_at ?size_zb ?szi // !nth_zb leqnSn leqnn nth_cat size_take szi iN.
      case: (ltnP k i) => ki.
        have -> : (k == i) = false by lia. have -> : (k == i.+1) = false by lia.
        have -> : (k <= i.+1)%N by lia. by rewrite nth_take.
      case: eqP => [->|/eqP nki]; first by rewrite subnn /= e1.
      case: eqP => [->|/eqP nki1]; first by rewrite subSnn /= e2.
      have ki2 : (i.+1 < k)%N by rewrite ltn_neqAle eq_sym nki1 ltn_neqAle eq_sym nki ki.
      rewrite leqNgt ki2 /=.
      have -> : (k - i = (k - i - 2).+2)%N by lia.
      by rewrite /= nth_nseq; case: ifP.
    * move=> k ik; rewrite nth_cat size_take szi iN ltnNge (ltnW ik) /=.
      have -> : (k - i = (k - i.+1).+1)%N by lia.
      rewrite /=; case: (k - i.+1)%N => [|m] //=; by rewrite nth_nseq; case: ifP.
  + have ij : (i < j)%N by rewrite ltn_neqAle eq_sym ne ji.
    split; first by rewrite size_rot_at.
    * by rewrite ltnS leqNgt ij.
    * by move=> _; rewrite app_rots_rcons add0n szrs (hi ji).
Qed.

Lemma hqr_loop_inv fuel : forall i R acc, (i + fuel = n - 1)%N -> Inv i R (rev acc) ->
  let '(R', rs') := hqr_loop O cut n fuel i R acc in Inv (n - 1) R' rs'.
Proof.
elim: fuel => [|fuel IHf] i R acc /=.
- by rewrite addn0 revE => <-.
- move=> e inv.
  have in1 : (i.+1 < n)%N by lia.
  have := Inv_step in1 inv.
  case: (hqr_step O cut n i R) => R' cs inv'.
  by apply: IHf; [lia | rewrite rev_cons].
Qed.

(* R = Q^T (Hessenberg part of H - sI), column by column, and R is upper triangular *)
Theorem hqr_compute_spec :
  let '(R, rs) := hqr_compute O cut n H sh in
  [/\ size R = n, size rs = (n - 1)%N &
   forall j, (j < n)%N ->
     nth [::] R j = apply_QtY O rs (zb j.+1 (nth [::] H' j)) /\ (forall k, (j < k < n)%N -> nth 0 (nth [::] R j) k = 0)].
Proof.
rewrite /hqr_compute /apply_QtY.
have := @hqr_loop_inv (n - 1) 0 H' [::] (add0n _) Inv0.
case: (hqr_loop _ _ _ _ _ _ _) => R rs [szR szrs inv]; split=> // j jn.
have [szj lo hi] := inv j jn.
case: (ltnP j (n - 1)) => jn1.
- have [e z] := lo jn1; split=> // k /andP[jk _]; exact: z.
- have e := hi jn1. split; last by move=> k; lia.
  rewrite e; congr (apply_QtY_from _ _ _).
  apply: (@eq_from_nth _ 0); first by rewrite size_zb.
  move=> k kn; rewrite nth_zb. rewrite szcol' // in kn. by have -> : (k <= j.+1)%N by lia.
Qed.
End Compute.
End P.

(* ------------------------------------------------------------------ orthogonality of Q *)
Section Orth.
Variable F : rcfType.
Notation O := (OpsF F).
Notation rot := (@rot_at O).
Notation rott := (@rott_at O).

Fixpoint dotr (x y : seq F) : F :=
  match x, y with a :: x', b :: y' => a * b + dotr x' y' | _, _ => 0 end.

Lemma rot_at_dot i (c s : F) (x y : seq F) : size x = size y -> c ^+ 2 + s ^+ 2 = 1 ->
  dotr (rot i c s x) (rot i c s y) = dotr x y.
Proof.
move=> + cs1; elim: i x y => [|i IH].
- case=> [|a [|a' x]] [|b [|b' y]] //= _.
  have -> : (c * a - s * a') * (c * b - s * b') + ((s * a + c * a') * (s * b + c * b') + dotr x y)
     = (c ^+ 2 + s ^+ 2) * (a * b + a' * b') + dotr x y by ring.
  by rewrite cs1 mul1r addrA.
- by case=> [|a x] [|b y] //= [e]; rewrite IH.
Qed.

Lemma size_rott_at i c s (y : seq F) : size (rott i c s y) = size y.
Proof. by elim: i y => [|i IH] [|a [|b y]] //=; rewrite IH. Qed.

Lemma rott_rot i (c s : F) (y : seq F) : c ^+ 2 + s ^+ 2 = 1 -> rott i c s (rot i c s y) = y.
Proof.
move=> cs1; elim: i y => [|i IH].
- case=> [|a [|b y]] //=; congr [:: _, _ & _].
  + have -> : c * (c * a - s * b) + s * (s * a + c * b) = (c ^+ 2 + s ^+ 2) * a by ring.
    by rewrite cs1 mul1r.
  + have -> : - s * (c * a - s * b) + c * (s * a + c * b) = (c ^+ 2 + s ^+ 2) * b by ring.
    by rewrite cs1 mul1r.
- by case=> [|a y] //=; rewrite IH.
Qed.

Lemma rot_rott i (c s : F) (y : seq F) : c ^+ 2 + s ^+ 2 = 1 -> rot i c s (rott i c s y) = y.
Proof.
move=> cs1; elim: i y => [|i IH].
- case=> [|a [|b y]] //=; congr [:: _, _ & _].
  + have -> : c * (c * a + s * b) - s * (- s * a + c * b) = (c ^+ 2 + s ^+ 2) * a by ring.
    by rewrite cs1 mul1r.
  + have -> : s * (c * a + s * b) + c * (- s * a + c * b) = (c ^+ 2 + s ^+ 2) * b by ring.
    by rewrite cs1 mul1r.
- by case=> [|a y] //=; rewrite IH.
Qed.

Definition normalized (rs : seq (F * F)) := all (fun p => p.1 ^+ 2 + p.2 ^+ 2 == 1) rs.

Lemma apply_QtY_from_dot i (rs : seq (F * F)) (x y : seq F) : size x = size y -> normalized rs ->
  dotr (apply_QtY_from O i rs x) (apply_QtY_from O i rs y) = dotr x y.
Proof.
elim: rs i x y => [|[c s] rs IH] i x y //= sz /andP[/eqP h1 hall].
by rewrite IH ?size_rot_at // rot_at_dot.
Qed.

(* Q' preserves inner products (hence norms) *)
Theorem QtY_isometry (rs : seq (F * F)) (x y : seq F) : size x = size y -> normalized rs ->
  dotr (apply_QtY O rs x) (apply_QtY O rs y) = dotr x y.
Proof. exact: apply_QtY_from_dot. Qed.

Lemma apply_QY_rev_rcons (rs : seq (F * F)) c s k y :
  apply_QY_rev O (rev (rcons rs (c, s))) k.+1 y = apply_QY_rev O (rev rs) k (rott k c s y).
Proof. by rewrite rev_rcons. Qed.

(* Q Q' = I and Q' Q = I on vectors *)
Theorem QY_QtY (rs : seq (F * F)) (y : seq F) : normalized rs ->
  apply_QY O rs (apply_QtY O rs y) = y.
Proof.
rewrite /apply_QY /apply_QtY revE lengthE.
elim/last_ind: rs y => [|rs [c s] IH] y //.
rewrite /normalized all_rcons => /andP[/eqP /= h1 hall].
rewrite size_rcons apply_QY_rev_rcons (app_rots_rcons) add0n rott_rot //; exact: IH.
Qed.

Lemma apply_QtY_from_cat k (r1 r2 : seq (F * F)) y :
  apply_QtY_from O k (r1 ++ r2) y = apply_QtY_from O (k + size r1) r2 (apply_QtY_from O k r1 y).
Proof. by elim: r1 k y => [|[c s] r1 IH] k y /=; rewrite ?addn0 // IH addSnnS. Qed.

Theorem QtY_QY (rs : seq (F * F)) (y : seq F) : normalized rs ->
  apply_QtY O rs (apply_QY O rs y) = y.
Proof.
rewrite /apply_QY /apply_QtY revE lengthE.
elim/last_ind: rs y => [|rs [c s] IH] y //.
rewrite /normalized all_rcons => /andP[/eqP /= h1 hall].
rewrite size_rcons apply_QY_rev_rcons app_rots_rcons add0n IH // rot_rott //.
Qed.
End Orth.

(* ------------------------------------------------------------------ similarity: Q'HQ *)
Section Sim.
Variable F : rcfType.
Notation O := (OpsF F).
Notation rot := (@rot_at O).
Notation rott := (@rott_at O).

Definition vaddr (x y : seq F) : seq F := [seq p.1 + p.2 | p <- zip x y].
Definition vscal (a : F) (x : seq F) : seq F := [seq a * t | t <- x].
(* matrix (list of columns of size n) times vector *)
Fixpoint mv (n : nat) (M : seq (seq F)) (x : seq F) : seq F :=
  match M, x with c :: M', a :: x' => vaddr (vscal a c) (mv n M' x') | _, _ => nseq n 0 end.

Lemma size_vaddr x y : size (vaddr x y) = minn (size x) (size y).
Proof. by rewrite /vaddr size_map size_zip. Qed.
Lemma size_vscal a x : size (vscal a x) = size x. Proof. by rewrite /vscal size_map. Qed.
Definition cols_ok (n : nat) (M : seq (seq F)) := all (fun c => size c == n) M.
Lemma size_mv n M x : cols_ok n M -> size (mv n M x) = n.
Proof.
elim: M x => [|c M IH] [|a x] //=; rewrite ?size_nseq // => /andP[/eqP sc ok].
by rewrite size_vaddr size_vscal sc IH // minnn.
Qed.

(* rot is linear *)
Lemma rot_vaddr i c s (x y : seq F) : size x = size y -> rot i c s (vaddr x y) = vaddr (rot i c s x) (rot i c s y).
Proof.
elim: i x y => [|i IH].
- case=> [|a [|a' x]] [|b [|b' y]] //= _; rewrite /vaddr /=; congr [:: _, _ & _]; ring.
- by case=> [|a x] [|b y] //= [e]; rewrite /vaddr /= -/(vaddr _ _) IH.
Qed.
Lemma rot_vscal i c s a (x : seq F) : rot i c s (vscal a x) = vscal a (rot i c s x).
Proof.
elim: i x => [|i IH].
- case=> [|u [|v x]] //=; rewrite /vscal /=; congr [:: _, _ & _]; ring.
- by case=> [|u x] //=; rewrite /vscal /= -/(vscal _ _) IH.
Qed.
Lemma rot_zero i c s n : rot i c s (nseq n (0 : F)) = nseq n 0.
Proof.
elim: i n => [|i IH] [|n] //=.
- by case: n => [|n] //=; rewrite !mulr0 subrr addr0.
- by rewrite IH.
Qed.

Lemma QtY_from_mv k rs n M x : cols_ok n M ->
  apply_QtY_from O k rs (mv n M x) = mv n [seq apply_QtY_from O k rs c | c <- M] x.
Proof.
elim: rs k M x => [|[c s] rs IH] k M x ok /=; first by rewrite map_id.
have -> : rot k c s (mv n M x) = mv n [seq rot k c s col | col <- M] x.
  elim: M x ok => [|col M IHM] [|a x] //=; rewrite ?rot_zero // => /andP[/eqP sc ok].
  by rewrite rot_vaddr ?size_vscal ?size_mv ?sc // rot_vscal IHM.
rewrite IH -?map_comp //.
by rewrite /cols_ok all_map; apply/allP => col /(allP ok) /=; rewrite size_rot_at.
Qed.

(* rotating columns i, i+1 of M == rotating (transposed) entries i, i+1 of x *)
Fixpoint colrot (i : nat) (c s : F) (M : seq (seq F)) : seq (seq F) :=
  match i, M with
  | 0, a :: b :: M' => vaddr (vscal c a) (vscal (- s) b) :: vaddr (vscal s a) (vscal c b) :: M'
  | i'.+1, a :: M' => a :: colrot i' c s M'
  | _, _ => M
  end.

Lemma lin2 (c s u v : F) (a b r : seq F) : size a = size b -> size b = size r ->
  vaddr (vscal u (vaddr (vscal c a) (vscal (- s) b))) (vaddr (vscal v (vaddr (vscal s a) (vscal c b))) r) =
  vaddr (vscal (c * u + s * v) a) (vaddr (vscal (- s * u + c * v) b) r).
Proof.
elim: a b r => [|x a IH] [|y b] [|z r] //= [e1] [e2].
rewrite /vaddr /vscal /= -/(vscal _ _) -/(vaddr _ _).
congr (_ :: _); first by ring.
exact: IH.
Qed.

Lemma mv_colrot n i c s M x : cols_ok n M -> size x = size M ->
  mv n (colrot i c s M) x = mv n M (rott i c s x).
Proof.
elim: i M x => [|i IH].
- case=> [|a [|b M]] [|u [|v x]] //= /and3P[/eqP sa /eqP sb ok] _.
  by rewrite lin2 ?sa ?sb ?size_mv.
- case=> [|a M] [|u x] //= /andP[sa ok] [sx].
  by rewrite IH.
Qed.

Lemma cols_ok_colrot n i c s M : cols_ok n M -> cols_ok n (colrot i c s M).
Proof.
elim: i M => [|i IH].
- case=> [|a [|b M]] //= /and3P[/eqP sa /eqP sb ok].
  by rewrite !size_vaddr !size_vscal sa sb minnn eqxx ok.
- by case=> [|a M] //= /andP[-> ok]; rewrite IH.
Qed.

(* Q x = G_0 (G_1 (... x)) : the rotations applied from the last to the first *)
Fixpoint QYp (k : nat) (rs : seq (F * F)) (x : seq F) : seq F :=
  if rs is (c, s) :: rs' then rott k c s (QYp k.+1 rs' x) else x.
Lemma QYp_rcons k rs c s x : QYp k (rcons rs (c, s)) x = QYp k rs (rott (k + size rs) c s x).
Proof. by elim: rs k => [|[c' s'] rs IH] k /=; rewrite ?addn0 // IH addSnnS. Qed.
Lemma apply_QY_QYp rs x : apply_QY O rs x = QYp 0 rs x.
Proof.
rewrite /apply_QY revE lengthE.
elim/last_ind: rs x => [|rs [c s] IH] x //.
by rewrite size_rcons apply_QY_rev_rcons IH QYp_rcons add0n.
Qed.
Lemma size_QYp k rs x : size (QYp k rs x) = size x.
Proof. by elim: rs k => [|[c s] rs IH] k //=; rewrite size_rott_at IH. Qed.

(* column version of the product R G_k G_{k+1} ... *)
Fixpoint colrots (k : nat) (rs : seq (F * F)) (M : seq (seq F)) : seq (seq F) :=
  if rs is (c, s) :: rs' then colrots k.+1 rs' (colrot k c s M) else M.

Theorem mv_colrots n k rs M x : cols_ok n M -> size x = size M ->
  mv n (colrots k rs M) x = mv n M (QYp k rs x).
Proof.
elim: rs k M x => [|[c s] rs IH] k M x ok sx //=.
rewrite IH ?cols_ok_colrot //; last first.
  by rewrite sx; elim: k M {ok sx IH} => [|k IHk] [|a [|b M]] //=; rewrite -?IHk.
by rewrite mv_colrot // size_QYp.
Qed.
End Sim.
