(* Inventory theorems on the data members / static variables / mutable members GENERATED
   from the class definitions of /repo (gen/InvGen.v).  All by computation on the generated lists. *)
Require Import ZArith List Bool String.
From SV Require Import Cxx InvGen.
Import ListNotations.
Local Open Scope string_scope.

Definition mem (x : string) (l : list string) : bool := existsb (String.eqb x) l.

(* non-const, non-reference data members of a class: its mutable state *)
Definition state_of (cls : string) : list string :=
  map (fun r => match r with (_, m, _, _, _, _) => m end)
      (filter (fun r => match r with (c, _, _, cst, rf, _) => String.eqb c cls && negb cst && negb rf end) data_members).

(* members that init() does not (need to) reset: the operator container is fixed at
   construction; m_info keeps the status of the last compute() *)
Definition herm_not_reset : list string := ["m_op_container"; "m_info"].
Definition gen_not_reset : list string := ["m_info"].

Definition herm_init_complete : bool := forallb (fun m => mem m herm_init_touches || mem m herm_not_reset) (state_of "HermEigsBase").
Definition gen_init_complete : bool := forallb (fun m => mem m gen_init_touches || mem m gen_not_reset) (state_of "GenEigsBase").
Definition arnoldi_init_complete : bool := forallb (fun m => mem m arnoldi_init_touches) (state_of "Arnoldi").
Definition lanczos_no_state : bool := match state_of "Lanczos" with [] => true | _ => false end.

Theorem init_resets_all_state :
  herm_init_complete = true /\ gen_init_complete = true /\ arnoldi_init_complete = true /\ lanczos_no_state = true.
Proof. vm_compute. repeat split. Qed.

(* compute() and its helpers read no member outside the class's own data members *)
Definition all_members_of (cls : string) : list string :=
  map (fun r => match r with (_, m, _, _, _, _) => m end) (filter (fun r => match r with (c, _, _, _, _, _) => String.eqb c cls end) data_members).
Theorem compute_uses_only_members :
  forallb (fun m => mem m (all_members_of "HermEigsBase")) herm_compute_uses = true /\
  forallb (fun m => mem m (all_members_of "GenEigsBase")) gen_compute_uses = true /\
  forallb (fun m => mem m (all_members_of "Arnoldi")) arnoldi_uses = true.
Proof. vm_compute. repeat split. Qed.

(* ---- C20: no hidden shared mutable state *)
Theorem no_static_state : static_variables = [].
Proof. reflexivity. Qed.

(* every `mutable` member is a scratch buffer / status of an object owned by exactly one solver
   (operator adaptors built inside a solver, or shift-solve caches); none is in a shareable product wrapper *)
Definition shareable_wrappers : list string :=
  ["DenseSymMatProd"; "DenseGenMatProd"; "SparseSymMatProd"; "SparseGenMatProd"; "DenseHermMatProd"; "SparseHermMatProd"].
Definition private_mutable_owners : list string :=
  ["ArnoldiOp"; "DenseGenComplexShiftSolve"; "SparseGenComplexShiftSolve"; "SymGEigsCholeskyOp"; "SymGEigsRegInvOp";
   "SymGEigsShiftInvertOp"; "SymGEigsBucklingOp"; "SymGEigsCayleyOp"; "SVDTallMatOp"; "SVDWideMatOp"; "SparseRegularInverse"].
Theorem mutable_members_private :
  forallb (fun p => mem (fst p) private_mutable_owners && negb (mem (fst p) shareable_wrappers)) mutable_members = true.
Proof. vm_compute. reflexivity. Qed.

Theorem shared_wrappers_immutable :
  forallb (fun r => match r with (_, _, is_const) => is_const end) product_wrapper_methods = true /\
  forallb (fun r => match r with (c, _, _, _, _, mut) => negb (mem c shareable_wrappers && mut) end) data_members = true.
Proof. vm_compute. split; reflexivity. Qed.
