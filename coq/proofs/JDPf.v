(* Theorems on the GENERATED Davidson driver (gen/JDGen.v: JDSymEigsBase::compute_with_guess in world mode),
   for every world W, every oracle, every start state. *)
Require Import ZArith Lia List Bool ZifyBool.
From SV Require Import Cxx JDGen.
Import ListNotations.
Local Open Scope Z_scope.

Section Driver.
Variable Wst : Type.
Variable W : string -> list Z -> Wst -> res (Wst * Z).
Variable orc : string -> list Z -> bool.
Variables sel maxit nev mx ini : Z.
Notation conv_at it := (orc "m_ritz_pairs.check_convergence(tol, m_number_eigenvalues)"%string [it]).
Notation fail_at it := (orc "small_problem_info != Eigen::ComputationInfo::Success"%string [it]).

(* the loop, started below maxit with enough fuel: the counter stays in [start, maxit), the status is one of the three the body
   assigns, and each status value is explained by the oracle at the final counter *)
Lemma loop_spec : forall fuel i info0 w it inf w',
  i < maxit -> maxit - i <= Z.of_nat fuel ->
  jd_compute_loop1 Wst W orc fuel i sel maxit nev mx ini info0 w = Ok (it, w', inf) ->
  i <= it < maxit /\
  ((inf = 0 /\ conv_at it = true /\ fail_at it = false) \/
   (inf = 2 /\ conv_at it = false /\ it = maxit - 1) \/
   (inf = 3 /\ fail_at it = true)).
Proof.
  induction fuel as [|fuel IH]; intros i info0 w it inf w' Hlt Hfuel H; [lia|]. cbn [jd_compute_loop1] in H.
  destruct (i <? maxit) eqn:Hi; [|lia].
  assert (Step : forall w0, match W "m_search_space.update_operator_basis_product"%string [] w0 with
      | Throw e_ m_ => Throw e_ m_
      | Ok (wld_4, _) =>
          if fail_at i then Ok (i, wld_4, 3)
          else match W "m_ritz_pairs.sort"%string [sel] wld_4 with
               | Throw e_ m_ => Throw e_ m_
               | Ok (wld_5, _) =>
                   if conv_at i then Ok (i, wld_5, 0)
                   else if i =? maxit - 1 then Ok (i, wld_5, 2)
                        else match W "m_search_space.extend_basis"%string [] wld_5 with
                             | Throw e_ m_ => Throw e_ m_
                             | Ok (wld_6, _) => jd_compute_loop1 Wst W orc fuel (i + 1) sel maxit nev mx ini info0 wld_6
                             end
               end
      end = Ok (it, w', inf) ->
    i <= it < maxit /\
    ((inf = 0 /\ conv_at it = true /\ fail_at it = false) \/ (inf = 2 /\ conv_at it = false /\ it = maxit - 1) \/ (inf = 3 /\ fail_at it = true))).
  { intros w0 H0.
    destruct (W "m_search_space.update_operator_basis_product"%string [] w0) as [[w4 r4]|e m]; [|discriminate].
    destruct (fail_at i) eqn:Hf.
    { inversion H0; subst. split; [lia|]. right. right. auto. }
    destruct (W "m_ritz_pairs.sort"%string [sel] w4) as [[w5 r5]|e m]; [|discriminate].
    destruct (conv_at i) eqn:Hc.
    { inversion H0; subst. split; [lia|]. left. auto. }
    destruct (i =? maxit - 1) eqn:Hl.
    { inversion H0; subst. split; [lia|]. right. left. repeat split; auto. lia. }
    destruct (W "m_search_space.extend_basis"%string [] w5) as [[w6 r6]|e m]; [|discriminate].
    apply IH in H0; [|lia|lia]. destruct H0 as [Hr Hc']. split; [lia|exact Hc']. }
  destruct (orc "m_search_space.size() > m_max_search_space_size"%string [i]).
  - destruct (W "m_search_space.restart"%string [ini] w) as [[w2 r2]|e m]; [|discriminate]. exact (Step w2 H).
  - exact (Step w H).
Qed.

(* compute_with_guess with at least one allowed iteration: the status is always assigned by this call
   (Successful / NotConverging / NumericalIssue), never left over from an earlier call; Successful means the
   convergence test passed in the last iteration; NotConverging is only reported in iteration maxit - 1 *)
Theorem jd_compute_spec : forall niter0 info0 w it inf w',
  0 < maxit ->
  jd_compute Wst W orc nev mx ini niter0 info0 sel maxit w = Ok (it, inf, w') ->
  0 <= it < maxit /\
  ((inf = 0 /\ conv_at it = true) \/ (inf = 2 /\ conv_at it = false /\ it = maxit - 1) \/ (inf = 3 /\ fail_at it = true)).
Proof.
  intros niter0 info0 w it inf w' Hm H. unfold jd_compute in H.
  destruct (W "m_search_space.initialize_search_space"%string [] w) as [[w1 r1]|e m]; [|discriminate].
  destruct (jd_compute_loop1 Wst W orc (Z.to_nat (maxit - 0)) 0 sel maxit nev mx ini info0 w1) as [[[it1 w2] inf1]|e m] eqn:E; [|discriminate].
  inversion H; subst. apply loop_spec in E; [|lia|lia].
  destruct E as [Hr Hc]. split; [lia|]. destruct Hc as [[A [B C]]|[[A [B C]]|[A B]]]; auto.
Qed.

(* with maxit <= 0 nothing is computed and the status of the previous call is returned unchanged *)
Theorem jd_compute_maxit0 : forall niter0 info0 w it inf w',
  maxit <= 0 ->
  jd_compute Wst W orc nev mx ini niter0 info0 sel maxit w = Ok (it, inf, w') -> it = 0 /\ inf = info0.
Proof.
  intros niter0 info0 w it inf w' Hm H. unfold jd_compute in H.
  destruct (W "m_search_space.initialize_search_space"%string [] w) as [[w1 r1]|e m]; [|discriminate].
  replace (Z.to_nat (maxit - 0)) with 0%nat in H by lia. cbn [jd_compute_loop1] in H. inversion H; auto.
Qed.
End Driver.

(* the convergence flags and the returned count (shape of RitzPairs::check_convergence and of the return
   expression is checked textually by the generator) *)
Lemma firstn_flags below n k : (k <= n)%nat -> firstn k (jd_flags below n) = jd_flags below k.
Proof.
  unfold jd_flags. intros H. rewrite firstn_map. f_equal.
  revert n H. induction k as [|k IH]; intros n H; [reflexivity|].
  destruct n as [|n]; [lia|].
  rewrite <- !cons_seq, <- !seq_shift. cbn [firstn]. f_equal. rewrite firstn_map. f_equal. apply IH. lia.
Qed.

Theorem jd_success_returns_nev : forall (below : Z -> bool) (n nev : nat), (nev <= n)%nat ->
  jd_check_convergence below n nev = true -> jd_return (jd_flags below n) nev = Z.of_nat nev.
Proof.
  intros below n nev Hn H. unfold jd_check_convergence in H. rewrite Nat.min_l in H by exact Hn.
  unfold jd_return. rewrite firstn_flags by exact Hn. unfold jd_flags.
  rewrite forallb_forall in H. f_equal.
  assert (G : forall l, (forall x, In x l -> below (Z.of_nat x) = true) ->
              length (filter (fun b : bool => b) (map (fun j => below (Z.of_nat j)) l)) = length l).
  { induction l as [|a l IH]; intros Hl; [reflexivity|]. cbn. rewrite (Hl a (or_introl eq_refl)). cbn. f_equal. apply IH. intros x Hx. apply Hl. right. exact Hx. }
  rewrite G by exact H. apply seq_length.
Qed.

Theorem jd_return_le_nev : forall (flags : list bool) (nev : nat), 0 <= jd_return flags nev <= Z.of_nat nev.
Proof.
  intros flags nev. unfold jd_return.
  assert (F : forall l : list bool, (length (filter (fun b : bool => b) l) <= length l)%nat).
  { induction l as [|a l IH]; [apply Nat.le_refl|]. cbn. destruct a; cbn; lia. }
  pose proof (F (firstn nev flags)) as H1. pose proof (firstn_le_length nev flags) as H2. lia.
Qed.
