(* C07: the whole loop of Lanczos::factorize_from on the MODEL (model/Arnoldi.v: lanczos_step, tied bit for bit) in exact arithmetic, for a
   SELF-ADJOINT operator: for every run in which no step starts from a breakdown the complete Krylov invariant is handed from step to step -
   A V_k = V_k T_k + f e_k' with T_k symmetric tridiagonal, V_k' V_k = I, V_k' f = 0, beta = |f|.  The orthogonality of the new residual against
   ALL earlier basis vectors (which the three-term recurrence never computes) follows from the relation of the earlier columns and the
   self-adjointness; hence the near-breakdown test and the re-orthogonalisation loop of the model are no-ops in exact arithmetic. *)
From SV Require Import Cxx Ops LinAlg RngGen Arnoldi.
From mathcomp Require Import all_ssreflect all_algebra.
From mathcomp Require Import ring zify.
From SV Require Import OpsF ArnoldiPf ArnoldiLoop ArnoldiOrth.
Set Implicit Arguments. Unset Strict Implicit. Unset Printing Implicit Defensive.
Import Order.Theory GRing.Theory Num.Theory.
Local Open Scope ring_scope.

Section LZ.
Variable F : rcfType.
Notation O := (OpsF F).
Variables (near0 eps : F) (Arows : seq (seq F)) (n m : nat) (bt eps_sqrt : F).
Hypothesis near0_pos : 0 < near0.
Hypothesis eps_ge0 : 0 <= eps.
Hypothesis esq_ge0 : 0 <= eps_sqrt.
Hypothesis sA : size Arows = n.
(* the operator is self-adjoint for the Euclidean inner product *)
Hypothesis Asym : forall x y : seq F, size x = n -> size y = n -> dot O (apply_op O Arows x) y = dot O x (apply_op O Arows y).
Notation fac := (fac O).
Notation lstep := (lanczos_step O near0 eps Arows n m bt eps_sqrt).
Notation wfF := (wfF n m).
Notation Av := (Av Arows). Notation Hc := (@Hc F). Notation Vr := (@Vr F).

Lemma nth_map_sub (w u : seq F) (c : F) r : size w = n -> size u = n -> (r < n)%N ->
  nth 0 (List.map (fun p : F * F => p.1 - c * p.2) (List.combine w u)) r = nth 0 w r - c * nth 0 u r.
Proof. by move=> sw su rn; rewrite mapE combineE (nth_map (0, 0)) ?size_zip ?sw ?su ?minnn // nth_zip ?sw ?su. Qed.
Lemma size_map_sub (w u : seq F) (c : F) : size w = n -> size u = n -> size (List.map (fun p : F * F => p.1 - c * p.2) (List.combine w u)) = n.
Proof. by move=> sw su; rewrite mapE combineE size_map size_zip sw su minnn. Qed.
Lemma dot_map_sub (x w u : seq F) (c : F) : size x = n -> size w = n -> size u = n ->
  dot O x (List.map (fun p : F * F => p.1 - c * p.2) (List.combine w u)) = dot O x w - c * dot O x u.
Proof.
move=> sx sw su; rewrite !dotE ?size_map_sub ?sx ?sw ?su //.
rewrite mulr_sumr -sumrB; apply: eq_big_nat => r /andP[_ rn].
by rewrite nth_map_sub //; ring.
Qed.
Lemma dot_vdivs (x f : seq F) (b : F) : size x = n -> size f = n -> dot O x (vdivs O f b) = dot O x f / b.
Proof.
move=> sx sf; rewrite !dotE ?sx ?sf /vdivs ?mapE ?size_map // mulr_suml.
by apply: eq_big_nat => r _; rewrite -mapE -/(vdivs O f b) nth_vdivs mulrA.
Qed.
Lemma mgetE (M : seq (seq F)) i j : mget O M i j = nth 0 (nth [::] M j) i.
Proof. by rewrite /mget /vnth /mcol !nthE. Qed.

(* k columns built *)
Definition FullL (k : nat) (Fc : fac) : Prop :=
  [/\ wfF Fc,
      forall i, (i < k)%N -> forall r, (r < n)%N ->
        Av Fc i r = \sum_(0 <= j < k) Hc Fc i j * Vr Fc j r + (if i.+1 == k then nth 0 (ff O Fc) r else 0),
      forall i j, (i < m)%N -> (j < m)%N -> (k <= i)%N || (k <= j)%N || (i.+1 < j)%N || (j.+1 < i)%N -> Hc Fc i j = 0 &
      [/\ Orth k Fc, Fperp k Fc & Bnorm Fc]].

(* the pieces one step that neither starts from a breakdown nor trips the near-breakdown test writes *)
Definition lz_v (Fc : fac) := vdivs O (ff O Fc) (fbeta O Fc).
Definition lz_V (Fc : fac) k := set_col O (fV O Fc) k (lz_v Fc).
Definition lz_H1 (Fc : fac) k := mset O (fH O Fc) k (k - 1)%coq_nat (fbeta O Fc).
Definition lz_H2 (Fc : fac) k := mset O (lz_H1 Fc k) (k - 1)%coq_nat k (mget O (lz_H1 Fc k) k (k - 1)%coq_nat).
Definition lz_w (Fc : fac) k := List.map (fun p : F * F => p.1 - mget O (lz_H2 Fc k) k (k - 1)%coq_nat * p.2)
                                   (List.combine (apply_op O Arows (mcol O (lz_V Fc k) k)) (mcol O (lz_V Fc k) (k - 1)%coq_nat)).
Definition lz_H3 (Fc : fac) k := mset O (lz_H2 Fc k) k k (dot O (mcol O (lz_V Fc k) k) (lz_w Fc k)).
Definition lz_f (Fc : fac) k := List.map (fun p : F * F => p.1 - mget O (lz_H3 Fc k) k k * p.2) (List.combine (lz_w Fc k) (mcol O (lz_V Fc k) k)).

Lemma lstep_eq k Fc cnt : Ops.ltb O (fbeta O Fc) near0 = false ->
  Ops.ltb O (fbeta O Fc) eps_sqrt && Ops.ltb O eps_sqrt (Ops.abs O (dot O (mcol O (lz_V Fc k) (k - 1)%coq_nat) (lz_v Fc))) = false ->
  lstep k (Fc, cnt) =
  (let '(f0, H, b0) := lan_reorth O eps 5 n (List.firstn k.+1 (lz_V Fc k)) k bt (lz_f Fc k) (lz_H3 Fc k) (norm O (lz_f Fc k))
                          (adjoint_product O (lz_V Fc k) k.+1 (lz_f Fc k)) (maxabs O (adjoint_product O (lz_V Fc k) k.+1 (lz_f Fc k))) in
   ({| fV := lz_V Fc k; fH := H; ff := f0; fbeta := b0; fk := fk O Fc |}, cnt.+1)).
Proof.
move=> nb; rewrite /lanczos_step nb -/(lz_v Fc) -/(lz_V Fc k).
case: (Ops.ltb O (fbeta O Fc) eps_sqrt) => [|_].
- by rewrite andTb => ->.
- by [].
Qed.

Lemma lan_reorth_noop (Vs : seq (seq F)) k f H beta Vf : 0 <= beta -> maxabs O Vf = 0 ->
  lan_reorth O eps 5 n Vs k bt f H beta Vf (maxabs O Vf) = (f, H, beta).
Proof.
move=> b0 ->; rewrite /=.
by have -> : (eps * beta < 0) = false by apply/negbTE; rewrite -leNgt mulr_ge0.
Qed.

Section Step.
Variables (k : nat) (Fc : fac) (cnt : nat).
Hypothesis km : (0 < k < m)%N.
Hypothesis fu : FullL k Fc.
Hypothesis nb : Ops.ltb O (fbeta O Fc) near0 = false.
Let beta := fbeta O Fc.
Let v := lz_v Fc. Let V := lz_V Fc k.
Let w_ : wfF Fc. Proof. by case: fu. Qed.
Let sV : size (fV O Fc) = m. Proof. by case: w_. Qed.
Let scV : forall j, (j < m)%N -> size (nth [::] (fV O Fc) j) = n. Proof. by case: w_. Qed.
Let sH : size (fH O Fc) = m. Proof. by case: w_. Qed.
Let scH : forall j, (j < m)%N -> size (nth [::] (fH O Fc) j) = m. Proof. by case: w_. Qed.
Let sf : size (ff O Fc) = n. Proof. by case: w_. Qed.
Let orth : Orth k Fc. Proof. by case: fu => _ _ _ []. Qed.
Let fperp : Fperp k Fc. Proof. by case: fu => _ _ _ []. Qed.
Let bn : Bnorm Fc. Proof. by case: fu => _ _ _ []. Qed.
Let k0 : (0 < k)%N. Proof. by case/andP: km. Qed.
Let kltm : (k < m)%N. Proof. by case/andP: km. Qed.

Lemma bpos : 0 < beta.
Proof. by move: nb => /= /negbT; rewrite -leNgt; exact: lt_le_trans. Qed.
Lemma bsq : beta ^+ 2 = dot O (ff O Fc) (ff O Fc). Proof. by rewrite /beta bn norm_sq. Qed.
Lemma sv : size v = n. Proof. by rewrite /v /lz_v /vdivs mapE size_map. Qed.
Lemma sVv : size V = m. Proof. by rewrite /V /lz_V /set_col size_msetcol. Qed.
Lemma nV j : (j < m)%N -> nth [::] V j = if j == k then v else nth [::] (fV O Fc) j.
Proof. by move=> jm; rewrite /V /lz_V /set_col nth_msetcol ?sV. Qed.
Lemma scVn j : (j < m)%N -> size (nth [::] V j) = n.
Proof. by move=> jm; rewrite nV //; case: eqP => // _; [exact: sv | exact: scV]. Qed.
Lemma mcolV j : mcol O V j = nth [::] V j. Proof. by rewrite /mcol nthE. Qed.

Lemma dvf j : (j < k)%N -> dot O (nth [::] (fV O Fc) j) v = 0.
Proof.
move=> jk; have jm : (j < m)%N by lia.
by rewrite /v /lz_v dot_vdivs ?scV ?sf // fperp // mul0r.
Qed.
Lemma dvv : dot O v v = 1.
Proof.
have bne : beta != 0 by rewrite gt_eqF // bpos.
rewrite dotE // sv (eq_big_nat _ _ (F2 := fun r => nth 0 (ff O Fc) r * nth 0 (ff O Fc) r / beta ^+ 2)); last first.
  by move=> r _; rewrite /v /lz_v !nth_vdivs -/beta expr2; field.
by rewrite -mulr_suml -sf -dotE // -bsq divff // expf_neq0.
Qed.
Lemma dfv : dot O (ff O Fc) v = beta.
Proof.
have bne : beta != 0 by rewrite gt_eqF // bpos.
by rewrite /v /lz_v dot_vdivs // -bsq -/beta expr2 mulfK.
Qed.
Lemma orthV i j : (i < k.+1)%N -> (j < k.+1)%N -> dot O (nth [::] V i) (nth [::] V j) = (i == j)%:R.
Proof.
move=> ik jk; rewrite !nV; [|lia|lia].
case: (eqVneq i k) => [ei|ni]; case: (eqVneq j k) => [ej|nj].
- by rewrite dvv ei ej eqxx.
- have jk' : (j < k)%N by lia.
  rewrite dotC ?sv ?scV ?dvf //; last by lia.
  by rewrite ei; have -> : (k == j) = false by lia.
- have ik' : (i < k)%N by lia.
  by rewrite dvf // ej; have -> : (i == k) = false by lia.
- by apply: orth; lia.
Qed.

(* the near-breakdown test does not fire *)
Lemma near_ok : Ops.ltb O beta eps_sqrt && Ops.ltb O eps_sqrt (Ops.abs O (dot O (mcol O V (k - 1)%coq_nat) v)) = false.
Proof.
rewrite mcolV nV; last by lia.
have -> : ((k - 1)%coq_nat == k) = false by lia.
by rewrite dvf ?andbF //= ?normr0 ?ltNge ?esq_ge0 ?andbF //; lia.
Qed.

(* entries of the three updates of H: column i, row j *)
Let H1 := lz_H1 Fc k. Let H2 := lz_H2 Fc k. Let H3 := lz_H3 Fc k.
Let sH1 : size H1 = m. Proof. by rewrite /H1 /lz_H1 size_mset. Qed.
Let scH1 j : (j < m)%N -> size (nth [::] H1 j) = m. Proof. by move=> jm; rewrite /H1 /lz_H1 size_col_mset ?sH // scH. Qed.
Let sH2 : size H2 = m. Proof. by rewrite /H2 /lz_H2 size_mset. Qed.
Let scH2 j : (j < m)%N -> size (nth [::] H2 j) = m. Proof. by move=> jm; rewrite /H2 /lz_H2 size_col_mset ?sH1 // scH1. Qed.
Lemma h1E i j : (i < m)%N -> (j < m)%N -> nth 0 (nth [::] H1 i) j = if (i == (k - 1)%coq_nat) && (j == k) then beta else Hc Fc i j.
Proof. by move=> im jm; rewrite /H1 /lz_H1 (nth_mset (m:=m) near0_pos sA). Qed.
Lemma h2E i j : (i < m)%N -> (j < m)%N -> nth 0 (nth [::] H2 i) j =
  if (i == k) && (j == (k - 1)%coq_nat) then beta else if (i == (k - 1)%coq_nat) && (j == k) then beta else Hc Fc i j.
Proof.
move=> im jm; rewrite /H2 /lz_H2 -/H1 (nth_mset (m:=m) near0_pos sA) //; last by lia.
rewrite mgetE h1E ?eqxx //=; last by lia.
by rewrite h1E.
Qed.
Lemma h3E i j : (i < m)%N -> (j < m)%N -> nth 0 (nth [::] H3 i) j =
  if (i == k) && (j == k) then dot O v (lz_w Fc k) else nth 0 (nth [::] H2 i) j.
Proof.
move=> im jm; rewrite /H3 /lz_H3 -/H2 (nth_mset (m:=m) near0_pos sA) // -/V mcolV nV // eqxx.
by [].
Qed.
Lemma m21 : mget O H2 k (k - 1)%coq_nat = beta.
Proof.
rewrite mgetE h2E; [|lia|lia].
have -> : ((k - 1)%coq_nat == k) = false by lia.
by rewrite /= !eqxx.
Qed.
Let alpha := dot O v (lz_w Fc k).
Lemma m3kk : mget O H3 k k = alpha. Proof. by rewrite mgetE h3E // !eqxx. Qed.

Let u := nth [::] (fV O Fc) (k - 1)%coq_nat.         (* v_(k-1) *)
Let su : size u = n. Proof. by apply: scV; lia. Qed.
Let Avv := apply_op O Arows v.
Let sAv : size Avv = n. Proof. by rewrite /Avv /apply_op mapE size_map. Qed.
Lemma wE : lz_w Fc k = List.map (fun p : F * F => p.1 - beta * p.2) (List.combine Avv u).
Proof.
rewrite /lz_w -/H2 m21 !mcolV !nV ?eqxx //; last by lia.
by have -> : ((k - 1)%coq_nat == k) = false by lia.
Qed.
Lemma sw : size (lz_w Fc k) = n. Proof. by rewrite wE size_map_sub. Qed.
Lemma fE : lz_f Fc k = List.map (fun p : F * F => p.1 - alpha * p.2) (List.combine (lz_w Fc k) v).
Proof. by rewrite /lz_f -/H3 m3kk mcolV nV // eqxx. Qed.
Lemma sf' : size (lz_f Fc k) = n. Proof. by rewrite fE size_map_sub ?sw ?sv. Qed.

Let rel : forall i, (i < k)%N -> forall r, (r < n)%N ->
  Av Fc i r = \sum_(0 <= j < k) Hc Fc i j * Vr Fc j r + (if i.+1 == k then nth 0 (ff O Fc) r else 0).
Proof. by case: fu. Qed.
Let zz : forall i j, (i < m)%N -> (j < m)%N -> (k <= i)%N || (k <= j)%N || (i.+1 < j)%N || (j.+1 < i)%N -> Hc Fc i j = 0.
Proof. by case: fu. Qed.

(* v_j . (A v) through the self-adjointness and the relation of column j *)
Lemma dAv j : (j < k)%N -> dot O (nth [::] (fV O Fc) j) Avv = if j.+1 == k then beta else 0.
Proof.
move=> jk; have jm : (j < m)%N by lia.
have sj := scV jm.
rewrite /Avv -Asym ?sv // dotE ?sv; last by rewrite /apply_op mapE size_map.
have -> : size (apply_op O Arows (nth [::] (fV O Fc) j)) = n by rewrite /apply_op mapE size_map.
rewrite (eq_big_nat _ _ (F2 := fun r => \sum_(0 <= l < k) Hc Fc j l * (Vr Fc l r * nth 0 v r) + (if j.+1 == k then nth 0 (ff O Fc) r * nth 0 v r else 0))); last first.
  move=> r /andP[_ rn]; rewrite -/(Av Fc j r) rel // mulrDl big_distrl /=; congr (_ + _).
  - by apply: eq_big_nat => l _; rewrite mulrA.
  - by case: ifP => _; rewrite ?mul0r.
rewrite big_split /= exchange_big /= big1_seq ?add0r; last first.
  move=> l; rewrite mem_index_iota => /andP[_ lk].
  by rewrite -mulr_sumr /Vr -(scV (ltn_trans lk kltm)) -dotE ?scV ?sv ?dvf ?mulr0 //; lia.
case: ifP => _; last by rewrite big1_seq.
by rewrite -sf -dotE ?sf ?sv // dfv.
Qed.

Lemma dw j : (j < k)%N -> dot O (nth [::] (fV O Fc) j) (lz_w Fc k) = 0.
Proof.
move=> jk; have jm : (j < m)%N by lia.
rewrite wE dot_map_sub ?scV //; last by lia.
rewrite dAv // /u orth //; last by lia.
case: (eqVneq j.+1 k) => [e|ne].
- have -> : (j == (k - 1)%coq_nat) by lia.
  by rewrite mulr1 subrr.
- have -> : (j == (k - 1)%coq_nat) = false by lia.
  by rewrite mulr0 subr0.
Qed.
Lemma perp' j : (j < k.+1)%N -> dot O (nth [::] V j) (lz_f Fc k) = 0.
Proof.
move=> jk; rewrite nV; last by lia.
case: (eqVneq j k) => [e|ne].
- by rewrite fE dot_map_sub ?sv ?sw // dvv mulr1 subrr.
- have jk' : (j < k)%N by lia.
  by rewrite fE dot_map_sub ?sw ?sv ?scV ?dw ?dvf ?mulr0 ?subrr //; lia.
Qed.

Let F' : fac := {| fV := V; fH := H3; ff := lz_f Fc k; fbeta := norm O (lz_f Fc k); fk := fk O Fc |}.

Lemma lstep_res : lstep k (Fc, cnt) = (F', cnt.+1).
Proof.
rewrite (lstep_eq cnt nb near_ok) lan_reorth_noop //; first exact: norm_ge0.
have st : size (take k.+1 V) = k.+1 by rewrite size_take sVv; case: ltnP => //; lia.
apply: maxabs_zero => j; rewrite /adjoint_product mapE size_map firstnE -/V st => jk.
have jm : (j < m)%N by lia.
rewrite (nth_map [::]) ?st // nth_take // dot0E ?scVn ?sf' //.
by rewrite -(scVn jm) -dotE ?scVn ?sf' ?perp'.
Qed.

Lemma sH3 : size H3 = m. Proof. by rewrite /H3 /lz_H3 size_mset. Qed.
Lemma scH3 j : (j < m)%N -> size (nth [::] H3 j) = m. Proof. by move=> jm; rewrite /H3 /lz_H3 size_col_mset ?sH2 // scH2. Qed.
Lemma hc3 i j : (i < m)%N -> (j < m)%N -> Hc F' i j =
  if (i == k) && (j == k) then alpha else if (i == k) && (j == (k - 1)%coq_nat) then beta else if (i == (k - 1)%coq_nat) && (j == k) then beta else Hc Fc i j.
Proof. by move=> im jm; rewrite /Hc /= h3E // h2E. Qed.
Lemma vr' j r : (j < m)%N -> Vr F' j r = if j == k then nth 0 v r else Vr Fc j r.
Proof. by move=> jm; rewrite /Vr /= nV //; case: eqP. Qed.

Lemma step_full : FullL k.+1 F'.
Proof.
have bne : beta != 0 by rewrite gt_eqF // bpos.
split.
- split=> //=; [exact: sVv | exact: scVn | exact: sH3 | exact: scH3 | exact: sf'].
- move=> i ik r rn; rewrite big_nat_recr //= eqSS.
  have im : (i < m)%N by lia.
  rewrite vr' // eqxx.
  case: (eqVneq i k) => [ei|ni].
  + (* the new column: A v = beta v_(k-1) + alpha v + f' *)
    rewrite ei hc3 // !eqxx /= /Av /= nV // eqxx -/Avv.
    have -> : nth 0 (lz_f Fc k) r = nth 0 Avv r - beta * nth 0 u r - alpha * nth 0 v r.
      by rewrite fE nth_map_sub ?sw ?sv // wE nth_map_sub.
    have -> : \sum_(0 <= j < k) Hc F' k j * Vr F' j r = beta * nth 0 u r.
      have e : k = (k - 1)%coq_nat.+1 by lia.
      rewrite [in X in \sum_(0 <= j < X) _]e big_nat_recr //= hc3; [|lia|lia].
      have -> : ((k - 1)%coq_nat == k) = false by lia.
      rewrite !eqxx /= vr'; last by lia.
      have -> : ((k - 1)%coq_nat == k) = false by lia.
      rewrite big1_seq ?add0r // => j; rewrite mem_index_iota => /andP[_ jk].
      rewrite hc3; [|lia|lia].
      have -> : (j == k) = false by lia.
      have -> : (j == (k - 1)%coq_nat) = false by lia.
      by rewrite !andbF zz ?mul0r //; lia.
    by rewrite [RHS]addrC -[_ - _ - _]addrA -opprD subrK.
  + have ik' : (i < k)%N by lia.
    rewrite addr0 /Av /= nV // (negbTE ni).
    rewrite -/(Av Fc i r) rel //.
    have -> : \sum_(0 <= j < k) Hc F' i j * Vr F' j r = \sum_(0 <= j < k) Hc Fc i j * Vr Fc j r.
      apply: eq_big_nat => j /andP[_ jk]; rewrite hc3; [|lia|lia].
      rewrite vr'; last by lia.
      have -> : (j == k) = false by lia.
      by rewrite (negbTE ni) !andbF.
    rewrite hc3; [|lia|lia].
    rewrite (negbTE ni) /= eqxx andbT.
    case: (eqVneq i.+1 k) => [e|ne].
    * have -> : (i == (k - 1)%coq_nat) by lia.
      by rewrite /v /lz_v nth_vdivs -/beta mulrC divfK.
    * have -> : (i == (k - 1)%coq_nat) = false by lia.
      by rewrite zz ?mul0r ?addr0 //; lia.
- move=> i j im jm cond; rewrite hc3 //.
  have -> : (i == k) && (j == k) = false by lia.
  have -> : (i == k) && (j == (k - 1)%coq_nat) = false by lia.
  have -> : (i == (k - 1)%coq_nat) && (j == k) = false by lia.
  by apply: zz => //; lia.
- split; [exact: orthV | exact: perp' | by []].
Qed.
End Step.

Lemma step_lan k Fc cnt : (0 < k < m)%N -> FullL k Fc -> Ops.ltb O (fbeta O Fc) near0 = false -> FullL k.+1 (lstep k (Fc, cnt)).1.
Proof. by move=> km fu nb; rewrite (lstep_res cnt km fu nb); exact: step_full. Qed.

Local Arguments lanczos_step : simpl never.
Fixpoint nb_runL (l : list nat) (st : fac * nat) : bool :=
  if l is i :: l' then ~~ Ops.ltb O (fbeta O st.1) near0 && nb_runL l' (lstep i st) else true.

Theorem loop_lan len : forall k0 st, (0 < k0)%N -> (k0 + len <= m)%N -> FullL k0 st.1 -> nb_runL (List.seq k0 len) st ->
  FullL (k0 + len) (List.fold_left (fun st i => lstep i st) (List.seq k0 len) st).1.
Proof.
elim: len => [|len IH] k0 st k00 km fu /=; first by rewrite addn0.
case: st fu => Fc cnt /= fu /andP[/negbTE nb rest].
have km' : (0 < k0 < m)%N by lia.
rewrite addnS -addSn; apply: IH => //; first by lia.
exact: step_lan.
Qed.

Theorem factorize_lan from_k to_m Fc cnt :
  bt = Ops.mul O eps (Ops.sqrt O (of_Z O (BinInt.Z.of_nat n))) -> eps_sqrt = Ops.sqrt O eps ->
  (0 < from_k)%N -> (from_k < to_m <= m)%N -> (from_k <= fk O Fc)%N -> FullL from_k Fc ->
  let Fz := {| fV := fV O Fc; fH := zero_from O m from_k (fH O Fc); ff := ff O Fc; fbeta := fbeta O Fc; fk := fk O Fc |} in
  nb_runL (List.seq from_k (to_m - from_k)) (Fz, cnt) ->
  exists F' cnt', [/\ lanczos_factorize_from_k O near0 eps Arows n m from_k to_m (Fc, cnt) = @Done _ (F', cnt'), fk O F' = to_m & FullL to_m F'].
Proof.
move=> ebt ees k0 /andP[kt tm] kf [w rel z [ort fp bn]] Fz nb.
rewrite /lanczos_factorize_from_k -ebt -ees.
have -> : PeanoNat.Nat.leb to_m from_k = false by apply/PeanoNat.Nat.leb_gt/ssrnat.ltP.
have -> : PeanoNat.Nat.ltb (fk O Fc) from_k = false by rewrite ltbE; lia.
have [wz hz] := @Hc_zero_from F near0 Arows n m near0_pos sA from_k Fc Fz w erefl erefl erefl.
have fz : FullL from_k Fz.
  split=> //.
  - move=> i ik r rn; rewrite (_ : Av Fz i r = Av Fc i r) // rel //; congr (_ + _).
    apply: eq_big_nat => j /andP[_ jk]; rewrite hz; [|lia|lia].
    by have -> : (from_k <= i)%N || (from_k <= j)%N = false by lia.
  - move=> i j im jm cond; rewrite hz //.
    by case: ifP => // _; apply: z.
have km : (from_k + (to_m - from_k) <= m)%N by lia.
have := @loop_lan (to_m - from_k) from_k (Fz, cnt) k0 km fz nb.
have -> : (from_k + (to_m - from_k) = to_m)%N by lia.
rewrite -/Fz; case: (List.fold_left _ _ _) => F1 cnt1 /= fu1.
by exists {| fV := fV O F1; fH := fH O F1; ff := ff O F1; fbeta := fbeta O F1; fk := to_m |}, cnt1; split.
Qed.

(* Lanczos uses Arnoldi::init: one unit column with A v_0 = T(0,0) v_0 + f, unless the residual was negligible and dropped *)
Theorem init_fullL (v0 : seq F) Fc cnt : (0 < m)%N -> norm O (apply_op O Arows v0) != 0 ->
  init O near0 eps Arows n m v0 = @Done _ (Fc, cnt) -> FullL 1 Fc \/ dropped n Fc.
Proof.
move=> m0 nz e.
have [[w r1 z1] r2d ort fp bn] := @init_full F near0 eps Arows n m near0_pos sA v0 Fc cnt m0 nz e.
case: r2d => [r2|d]; last by right.
left; split=> //.
- move=> [|i] // _ r rn; rewrite eqxx; exact: r2.
- move=> i j im jm cond.
  move: e; rewrite /init; case: ifP => // _.
  case: (if Ops.ltb O _ _ then _ else _) => f b [<- _].
  rewrite /Hc /= (nth_mset (m:=m) near0_pos sA) ?repeatE ?size_nseq //; last by move=> c cm; rewrite nth_nseq cm size_nseq.
  have -> : (i == 0%N) && (j == 0%N) = false by lia.
  by rewrite nth_nseq im nth_nseq jm.
Qed.
End LZ.
