(* C17: the convergence bookkeeping of LOBPCGSolver (shape checked by the generator). *)
Require Import ZArith Lia List Bool.
From SV Require Import Cxx LobGen.
Import ListNotations.

Lemma filter_all_length {A} (f : A -> bool) (l : list A) : length (filter f l) = length l <-> forall x, In x l -> f x = true.
Proof.
  induction l as [|a l IH]; simpl; [split; [intros _ x []|reflexivity]|].
  assert (L : (length (filter f l) <= length l)%nat).
  { clear. induction l as [|b l IH]; simpl; [lia|]. destruct (f b); simpl; lia. }
  destruct (f a) eqn:E; simpl.
  - split.
    + intros H x [->|Hx]; auto. apply IH; [lia|exact Hx].
    + intros H. f_equal. apply IH. intros x Hx. apply H. right. exact Hx.
  - split; [lia|]. intros H. rewrite (H a (or_introl eq_refl)) in E. discriminate.
Qed.

(* BlockSize == 0 exactly when every one of the nev residual columns is below the tolerance *)
Theorem blocksize_zero_iff : forall (below : Z -> bool) (nev : nat),
  lobpcg_blocksize below nev = 0%Z <-> forall j, (j < nev)%nat -> below (Z.of_nat j) = true.
Proof.
  intros below nev. unfold lobpcg_blocksize.
  pose proof (filter_all_length (fun j => below (Z.of_nat j)) (seq 0 nev)) as F. rewrite seq_length in F.
  split.
  - intros H j Hj. apply F; [lia|]. apply in_seq. lia.
  - intros H. assert (length (filter (fun j => below (Z.of_nat j)) (seq 0 nev)) = nev) as ->; [|lia].
    apply F. intros x Hx. apply in_seq in Hx. apply H. lia.
Qed.

Theorem blocksize_range : forall (below : Z -> bool) (nev : nat), (0 <= lobpcg_blocksize below nev <= Z.of_nat nev)%Z.
Proof.
  intros below nev. unfold lobpcg_blocksize.
  assert (length (filter (fun j => below (Z.of_nat j)) (seq 0 nev)) <= nev)%nat.
  { rewrite <- (seq_length nev 0) at 2. generalize (seq 0 nev). induction l as [|a l IH]; simpl; [lia|]. destruct (below (Z.of_nat a)); simpl; lia. }
  lia.
Qed.
