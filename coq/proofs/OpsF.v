(* The exact-arithmetic instance of the scalar abstraction: any real closed field. *)
From SV Require Import Ops.
From mathcomp Require Import all_ssreflect all_algebra.
Set Implicit Arguments. Unset Strict Implicit. Unset Printing Implicit Defensive.
Import Order.Theory GRing.Theory Num.Theory.
Local Open Scope ring_scope.

Section F.
Variable F : rcfType.
Definition F_of_Z (z : BinNums.Z) : F :=
  match z with
  | BinNums.Z0 => 0
  | BinNums.Zpos p => (BinPos.Pos.to_nat p)%:R
  | BinNums.Zneg p => - (BinPos.Pos.to_nat p)%:R
  end.
Definition F_of_lit (l : lit) : F := F_of_Z (lit_num l) / (BinPos.Pos.to_nat (lit_den l))%:R.

Definition OpsF : Ops :=
  @Build_Ops F 0 1 +%R (fun x y => x - y) *%R (fun x y => x / y) -%R Num.norm Num.sqrt
             (fun x y => x < y) (fun x y => x <= y) (fun x y => x == y) F_of_Z F_of_lit.
End F.

(* bridging stdlib List functions (used by the model files) to ssreflect seq *)
Section Bridge.
Variable A : Type.
Lemma nthE d (l : seq A) i : List.nth i l d = nth d l i.
Proof. by elim: l i => [|x l IH] [|i] //=. Qed.
Lemma firstnE n (l : seq A) : List.firstn n l = take n l.
Proof. by elim: n l => [|n IH] [|x l] //=; rewrite IH. Qed.
Lemma skipnE n (l : seq A) : List.skipn n l = drop n l.
Proof. by elim: n l => [|n IH] [|x l] //=. Qed.
Lemma repeatE (x : A) n : List.repeat x n = nseq n x.
Proof. by elim: n => [|n IH] //=; rewrite IH. Qed.
Lemma appE (l1 l2 : seq A) : List.app l1 l2 = l1 ++ l2. Proof. by []. Qed.
Lemma revE (l : seq A) : List.rev l = rev l.
Proof. by elim: l => [|x l IH] //=; rewrite IH rev_cons -cats1. Qed.
Lemma lengthE (l : seq A) : List.length l = size l. Proof. by []. Qed.
End Bridge.
Lemma mapE A B (f : A -> B) (l : seq A) : List.map f l = map f l. Proof. by []. Qed.
Lemma ltbE j i : PeanoNat.Nat.ltb j i = (j < i)%N.
Proof. by apply/idP/idP => [/PeanoNat.Nat.ltb_lt/ssrnat.ltP|/ssrnat.ltP/PeanoNat.Nat.ltb_lt]. Qed.
Lemma eqbE j i : PeanoNat.Nat.eqb j i = (j == i).
Proof. by apply/idP/idP => [/PeanoNat.Nat.eqb_eq->|/eqP->] //; exact/PeanoNat.Nat.eqb_eq. Qed.
