(* C19: the generated next_long_rand is the Park-Miller minimal standard generator. *)
Require Import ZArith Lia Znumtheory List.
From SV Require Import Cxx Ops RngGen.
Local Open Scope Z_scope.
Ltac Zify.zify_post_hook ::= Z.div_mod_to_equations.

Definition M := 2147483647.
Definition W := 18446744073709551616.

Lemma land_ones' a n v : 0 <= n -> v = Z.ones n -> Z.land a v = a mod 2^n.
Proof. intros Hn ->. apply Z.land_ones; exact Hn. Qed.

Definition fold (x : Z) := if x >? M then (x mod 2147483648 + 1) else x.

Lemma fold_ok x : 0 <= x <= 2 * M -> 0 <= fold x <= M /\ (fold x = x \/ fold x = x - M).
Proof.
  unfold fold, M. intros H. destruct (x >? 2147483647) eqn:G; rewrite Z.gtb_ltb in G;
  [apply Z.ltb_lt in G | apply Z.ltb_ge in G]; lia.
Qed.

Lemma not_div s : 1 <= s <= 2147483646 -> ~ (M | 16807 * s).
Proof.
  intros Hs D. assert (G : Z.gcd M 16807 = 1) by (vm_compute; reflexivity).
  apply Z.gauss in D; [|exact G]. destruct D as [q Hq]. unfold M in *. lia.
Qed.

Ltac simpl_closed_mods :=
  repeat match goal with |- context[Z.modulo (Zpos ?p) (Zpos ?q)] =>
    let v := eval vm_compute in (Z.modulo (Zpos p) (Zpos q)) in
    let E := fresh "E" in
    assert (E : Z.modulo (Zpos p) (Zpos q) = v) by (vm_compute; reflexivity); rewrite !E; clear E end.

Theorem next_spec s : 1 <= s <= 2147483646 ->
  next_long_rand s = (16807 * s) mod 2147483647 /\ 1 <= next_long_rand s <= 2147483646.
Proof.
  intros Hs. pose proof (not_div s Hs) as ND.
  unfold next_long_rand. cbv zeta. simpl_closed_mods.
  rewrite (land_ones' s 16 65535), (land_ones' _ 15 32767) by (try lia; reflexivity).
  rewrite !(land_ones' _ 31 2147483647) by (try lia; reflexivity).
  rewrite !Z.shiftr_div_pow2 by (cbv; discriminate).
  rewrite Z.shiftl_mul_pow2 by (cbv; discriminate).
  change (2^16) with 65536. change (2^15) with 32768. change (2^31) with 2147483648.
  fold W. rewrite (Z.mod_small s W) by (unfold W; lia).
  set (a := s mod 65536). set (b := s / 65536).
  assert (Ha: 0 <= a < 65536) by (apply Z.mod_pos_bound; lia).
  assert (Hb: 0 <= b < 32768) by (unfold b; lia).
  assert (Es: s = b * 65536 + a) by (unfold a, b; lia).
  rewrite (Z.mod_small b W) by (unfold W; lia).
  rewrite !(Z.mod_small (16807*a) W) by (unfold W; lia).
  rewrite !(Z.mod_small (16807*b) W) by (unfold W; lia).
  set (h := 16807 * b). set (h0 := h mod 32768). set (h1 := h / 32768).
  assert (Hh0: 0 <= h0 < 32768) by (apply Z.mod_pos_bound; lia).
  assert (Hh1: 0 <= h1 < 32768) by (unfold h1, h; lia).
  assert (Eh: h = h1 * 32768 + h0) by (unfold h0, h1; lia).
  rewrite ?(Z.mod_small h0 W) by (unfold W; lia).
  rewrite ?(Z.mod_small h1 W) by (unfold W; lia).
  rewrite ?(Z.mod_small (h0 * 65536) W) by (unfold W; lia).
  rewrite ?(Z.mod_small (16807 * a + h0 * 65536) W) by (unfold W; lia).
  set (l1 := 16807 * a + h0 * 65536).
  assert (Hl1 : 0 <= l1 <= 2 * M) by (unfold l1, M; lia).
  assert (E : 16807 * s = l1 + h1 * 2147483648) by (unfold l1; lia).
  assert (F1 : (if l1 >? 2147483647 then ((l1 mod 2147483648) mod W + 1) mod W else l1) = fold l1).
  { unfold fold, M. destruct (l1 >? 2147483647); [|reflexivity].
    rewrite (Z.mod_small (l1 mod 2147483648) W) by (unfold W; lia). apply Z.mod_small. unfold W; lia. }
  rewrite F1. destruct (fold_ok l1 Hl1) as [B2 C2]. set (l2 := fold l1) in *.
  rewrite (Z.mod_small (l2 + h1) W) by (unfold W, M in *; lia).
  assert (Hl3 : 0 <= l2 + h1 <= 2 * M) by (unfold M in *; lia).
  assert (F2 : (if l2 + h1 >? 2147483647 then (((l2 + h1) mod 2147483648) mod W + 1) mod W else l2 + h1) = fold (l2 + h1)).
  { unfold fold, M. destruct (l2 + h1 >? 2147483647); [|reflexivity].
    rewrite (Z.mod_small ((l2+h1) mod 2147483648) W) by (unfold W; lia). apply Z.mod_small. unfold W; lia. }
  rewrite F2. destruct (fold_ok _ Hl3) as [B3 C3]. set (r := fold (l2 + h1)) in *.
  clearbody r l2 l1 h1 h0 h b a. clear F1 F2.
  assert (exists q, 16807 * s = r + q * M) as [q Hq].
  { unfold M in *. destruct C2, C3; [exists h1|exists (h1+1)|exists (h1+1)|exists (h1+2)]; lia. }
  assert (r <> 0 /\ r <> M).
  { split; intro Z0; apply ND; [exists q | exists (q+1)]; lia. }
  split; [| unfold M in *; lia].
  apply Z.mod_unique with q; unfold M in *; lia.
Qed.

Definition in_range (s : Z) : Prop := 1 <= s <= 2147483646.

Fixpoint iter_next (k : nat) (s : Z) : Z :=
  match k with O => s | S k' => iter_next k' (next_long_rand s) end.

Theorem iterate_in_range k : forall s, in_range s ->
  in_range (iter_next k s) /\ iter_next k s = (16807 ^ Z.of_nat k * s) mod 2147483647.
Proof.
  induction k as [|k IH]; intros s Hs.
  - split; [exact Hs|]. cbn [iter_next]. change (16807 ^ Z.of_nat 0) with 1.
    rewrite Z.mul_1_l, Z.mod_small; unfold in_range in Hs; lia.
  - cbn [iter_next]. destruct (next_spec s Hs) as [E R].
    destruct (IH (next_long_rand s) R) as [R' E']. split; [exact R'|].
    rewrite E', E. rewrite Nat2Z.inj_succ, Z.pow_succ_r by lia.
    rewrite Z.mul_mod_idemp_r by lia. f_equal. ring.
Qed.

(* seeds the library can generate: 0 at the literal sites, 2*i + 123*iter in expand_basis *)
Theorem lib_seeds_ok i j : 0 <= i < 1048576 -> 0 <= j < expand_tries ->
  in_range (seed_norm (expand_seed (expand_call_seed_arnoldi i) j)) /\
  in_range (seed_norm (expand_seed (expand_call_seed_lanczos i) j)).
Proof.
  intros Hi Hj. unfold expand_tries in Hj.
  unfold seed_norm, seed_norm_raw, expand_seed, expand_call_seed_arnoldi, expand_call_seed_lanczos, in_range.
  cbv zeta. simpl_closed_mods.
  set (x := 2 * i + 123 * j). assert (Hx : 0 <= x < 2097152 + 615) by (unfold x; lia).
  rewrite (Z.mod_small x) by lia.
  rewrite (land_ones' x 31 2147483647) by (try lia; reflexivity). change (2^31) with 2147483648.
  rewrite (Z.mod_small x 2147483648) by lia.
  clearbody x.
  destruct (x =? 0) eqn:E; cbn [negb].
  - split; lia.
  - apply Z.eqb_neq in E. rewrite Z.mod_small by lia. split; lia.
Qed.

Theorem literal_seeds_ok : Forall (fun p => in_range (seed_norm (snd p))) literal_seed_sites.
Proof.
  apply Forall_forall. intros p Hp.
  assert (H : forallb (fun p => (1 <=? seed_norm (snd p)) && (seed_norm (snd p) <=? 2147483646))%bool
                literal_seed_sites = true) by (vm_compute; reflexivity).
  rewrite forallb_forall in H. specialize (H p Hp).
  apply andb_prop in H. destruct H as [H1 H2]. apply Z.leb_le in H1, H2. unfold in_range. lia.
Qed.

Theorem seed_zero_is_one : seed_norm 0 = 1.
Proof. reflexivity. Qed.

(* every construction site is accounted for: the literal ones plus expand_basis *)
Theorem all_sites_accounted : n_rng_sites = Z.of_nat (length literal_seed_sites) + 1.
Proof. reflexivity. Qed.

(* structure of a draw, for every scalar instance: pure function of the seed *)
Theorem random_real_shape (o : Ops) s :
  random_real o s =
  (sub o (div o (of_Z o (next_long_rand s)) (of_Z o 2147483647))
         (of_lit o (Build_lit 1 2 0x1p-1%float)), next_long_rand s).
Proof. reflexivity. Qed.

Theorem random_complex_shape (o : Ops) s :
  random_complex o s =
  ((fst (random_real o s), fst (random_real o (next_long_rand s))),
   next_long_rand (next_long_rand s)).
Proof. reflexivity. Qed.
