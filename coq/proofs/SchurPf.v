(* C09: UpperHessenbergSchur in exact arithmetic: Eigen's makeHouseholder / makeGivens(p, q, &r) are exact, every reflector and
   rotation the model applies is an isometry, and the accumulated U of sc_compute is orthogonal for EVERY n and input. *)
From SV Require Import Ops LinAlg TridiagEig Schur.
From mathcomp Require Import all_ssreflect all_algebra.
From mathcomp Require Import ring zify.
From SV Require Import OpsF TEigPf.
Set Implicit Arguments. Unset Strict Implicit. Unset Printing Implicit Defensive.
Import Order.Theory GRing.Theory Num.Theory.
Local Open Scope ring_scope.

Section HH.
Variable F : rcfType.
Notation O := (OpsF F).
Variable min_ : F.
Hypothesis min0 : 0 <= min_.

(* H = I - tau w w^T, w = (1, v1, v2), is orthogonal iff tau (2 - tau |w|^2) = 0 *)
Definition hh3_cond (tau v1 v2 : F) : Prop := tau * (2%:R - tau * (1 + v1 ^+ 2 + v2 ^+ 2)) = 0.
Definition hh3 (tau v1 v2 : F) (x : F * F * F) : F * F * F :=
  let t := tau * (x.1.1 + v1 * x.1.2 + v2 * x.2) in (x.1.1 - t, x.1.2 - t * v1, x.2 - t * v2).
Definition dot3 (x y : F * F * F) : F := x.1.1 * y.1.1 + x.1.2 * y.1.2 + x.2 * y.2.

Lemma hh3_dot tau v1 v2 x y : hh3_cond tau v1 v2 -> dot3 (hh3 tau v1 v2 x) (hh3 tau v1 v2 y) = dot3 x y.
Proof.
case: x => [[x0 x1] x2]; case: y => [[y0 y1] y2]; rewrite /hh3_cond /hh3 /dot3 /= => h.
set sx := x0 + v1 * x1 + v2 * x2; set sy := y0 + v1 * y1 + v2 * y2.
have -> : (x0 - tau * sx) * (y0 - tau * sy) + (x1 - tau * sx * v1) * (y1 - tau * sy * v1) + (x2 - tau * sx * v2) * (y2 - tau * sy * v2)
        = x0 * y0 + x1 * y1 + x2 * y2 - tau * (2%:R - tau * (1 + v1 ^+ 2 + v2 ^+ 2)) * sx * sy by rewrite /sx /sy; ring.
by rewrite h !mul0r subr0.
Qed.

Lemma hh3_invol tau v1 v2 x : hh3_cond tau v1 v2 -> hh3 tau v1 v2 (hh3 tau v1 v2 x) = x.
Proof.
case: x => [[x0 x1] x2]; rewrite /hh3_cond /hh3 /= => h.
set sx := x0 + v1 * x1 + v2 * x2.
have e : tau * (x0 - tau * sx + v1 * (x1 - tau * sx * v1) + v2 * (x2 - tau * sx * v2)) = tau * (2%:R - tau * (1 + v1 ^+ 2 + v2 ^+ 2)) * sx - tau * sx
  by rewrite /sx; ring.
rewrite e h mul0r sub0r.
by congr (_, _, _); ring.
Qed.

Lemma tail_ge0 (x1 x2 : F) : 0 <= x1 * x1 + x2 * x2.
Proof. by rewrite addr_ge0 // -expr2 sqr_ge0. Qed.

(* Eigen's makeHouseholder: the reflector is always orthogonal; when the tail is not negligible it maps (c0, x1, x2) to (beta, 0, 0)
   with beta^2 = c0^2 + x1^2 + x2^2; otherwise it is the identity and beta = c0 *)
Theorem make_householder_spec (c0 x1 x2 : F) :
  let '(v1, v2, tau, beta) := make_householder O min_ c0 x1 x2 in
  hh3_cond tau v1 v2 /\
  (if x1 * x1 + x2 * x2 <= min_ then tau = 0 /\ beta = c0
   else hh3 tau v1 v2 (c0, x1, x2) = (beta, 0, 0) /\ beta ^+ 2 = c0 ^+ 2 + x1 ^+ 2 + x2 ^+ 2).
Proof.
rewrite /make_householder /=; case: ifP => [_|/negbT tl].
  by split=> //; rewrite /hh3_cond mul0r.
rewrite -ltNge in tl.
have t0 : 0 < x1 * x1 + x2 * x2 by exact: le_lt_trans tl.
set tail := x1 * x1 + x2 * x2 in tl t0 *.
have s0 : 0 < c0 * c0 + tail by rewrite ltr_paddl // -expr2 sqr_ge0.
have := sqrtr_gt0 (c0 * c0 + tail); rewrite s0; have := sqr_sqrtr (ltW s0).
set r := Num.sqrt _ => rr r0.
have rc : `|c0| < r.
  by rewrite -sqrtr_sqr /r ltr_sqrt // expr2 ltr_addl.
set beta := if _ then - r else r.
have [bb db] : beta ^+ 2 = c0 * c0 + tail /\ c0 - beta != 0.
  rewrite /beta /geb0 /=; case: ifP => c00; rewrite ?sqrrN rr; split=> //.
  - by rewrite opprK gt_eqF // ltr_paddl.
  - rewrite subr_eq0; apply/eqP => e; move: rc; rewrite -e ltr_norml ltxx andbF //.
have bn : beta != 0 by rewrite -sqrf_eq0 bb gt_eqF.
have tE : tail = (beta - c0) * (beta + c0) by rewrite -subr_sqr bb expr2; ring.
split; last split.
- rewrite /hh3_cond.
  have -> : 1 + (x1 / (c0 - beta)) ^+ 2 + (x2 / (c0 - beta)) ^+ 2 = 1 + tail / (c0 - beta) ^+ 2 by rewrite /tail; field.
  by rewrite tE; field; rewrite db bn.
- rewrite /hh3 /=.
  have e : c0 + x1 / (c0 - beta) * x1 + x2 / (c0 - beta) * x2 = c0 + tail / (c0 - beta) by rewrite /tail; field.
  by rewrite e tE; congr (_, _, _); field; rewrite ?db ?bn.
- by rewrite bb /tail !expr2 addrA.
Qed.
End HH.

(* ------------------------------------------------------------ sums that change in two / three positions *)
Section Sums.
Variable F : rcfType.
Lemma sum_change3 n k (f g : nat -> F) : (k + 2 < n)%N ->
  (forall c, (c < n)%N -> c != k -> c != (k + 1)%N -> c != (k + 2)%N -> f c = g c) ->
  f k + f (k + 1)%N + f (k + 2)%N = g k + g (k + 1)%N + g (k + 2)%N ->
  \sum_(c < n) f c = \sum_(c < n) g c.
Proof.
move=> h2 hr h3.
have h0 : (k < n)%N by lia.
have h1 : (k + 1 < n)%N by lia.
have e1 : Ordinal h1 != Ordinal h0 by rewrite -val_eqE /=; lia.
have e2 : (Ordinal h2 != Ordinal h0) && (Ordinal h2 != Ordinal h1) by rewrite -!val_eqE /=; apply/andP; split; lia.
rewrite (bigD1 (Ordinal h0)) //= (bigD1 (Ordinal h1)) //= (bigD1 (Ordinal h2)) //=.
rewrite [in RHS](bigD1 (Ordinal h0)) //= [in RHS](bigD1 (Ordinal h1)) //= [in RHS](bigD1 (Ordinal h2)) //=.
rewrite !addrA h3; congr (_ + _); apply: eq_bigr => c /andP[/andP[a b] d].
by apply: hr => //; rewrite -?val_eqE /= in a b d *.
Qed.
Lemma sum_change2 n p q (f g : nat -> F) : (p < q)%N -> (q < n)%N ->
  (forall c, (c < n)%N -> c != p -> c != q -> f c = g c) ->
  f p + f q = g p + g q ->
  \sum_(c < n) f c = \sum_(c < n) g c.
Proof.
move=> pq h1 hr h3.
have h0 : (p < n)%N by lia.
have e1 : Ordinal h1 != Ordinal h0 by rewrite -val_eqE /=; lia.
rewrite (bigD1 (Ordinal h0)) //= (bigD1 (Ordinal h1)) //=.
rewrite [in RHS](bigD1 (Ordinal h0)) //= [in RHS](bigD1 (Ordinal h1)) //=.
rewrite !addrA h3; congr (_ + _); apply: eq_bigr => c /andP[a b].
by apply: hr => //; rewrite -?val_eqE /= in a b *.
Qed.
End Sums.

(* ------------------------------------------------------------ the updates of U keep U U^T *)
Section UU.
Variable F : rcfType.
Notation O := (OpsF F).
Implicit Types (M U : seq (seq F)).

Definition wfm (n : nat) M : Prop := size M = n /\ forall j, (j < n)%N -> size (nth [::] M j) = n.
Definition gram (n : nat) M (i j : nat) : F := \sum_(c < n) mget O M i c * mget O M j c.

Lemma nth_mapi_s A B k (g : nat -> A -> B) l j d d' : (j < size l)%N -> nth d' (mapi_from k g l) j = g (k + j)%N (nth d l j).
Proof. by elim: l k j => [|x l IH] k [|j] //=; rewrite ?addn0 // ltnS => /IH ->; rewrite addSnnS. Qed.
Lemma size_mapi_s A B k (g : nat -> A -> B) l : size (mapi_from k g l) = size l.
Proof. by elim: l k => [|x l IH] k //=; rewrite IH. Qed.

Lemma seqE a b : List.seq a b = iota a b.
Proof. by elim: b a => [|b IH] a //=; rewrite IH. Qed.
Lemma mgetE M i j : mget O M i j = nth 0 (nth [::] M j) i.
Proof. by rewrite /mget /vnth /mcol !nthE. Qed.
Lemma size_msetcol M j c : size (msetcol O M j c) = size M.
Proof. by rewrite /msetcol /mapi size_mapi_s. Qed.
Lemma nth_msetcol M j c j' : (j' < size M)%N -> nth [::] (msetcol O M j c) j' = if j' == j then c else nth [::] M j'.
Proof. by move=> h; rewrite /msetcol /mapi (@nth_mapi_s _ _ 0 _ M j' [::] [::]) // add0n eqbE. Qed.

Lemma wfm_msetcol n M j c : wfm n M -> size c = n -> wfm n (msetcol O M j c).
Proof.
case=> sM sc szc; split; first by rewrite size_msetcol.
by move=> j' h; rewrite nth_msetcol ?sM //; case: ifP => _ //; exact: sc.
Qed.

(* hh_right with nrow = n: the window (k, k+1, k+2) of every row is reflected, the rest is untouched *)
Lemma hh_right_entries n M k v1 v2 tau : wfm n M -> (k + 2 < n)%N ->
  wfm n (hh_right O M k n v1 v2 tau) /\
  forall i, (i < n)%N ->
    (forall c, (c < n)%N -> c != k -> c != (k + 1)%N -> c != (k + 2)%N -> mget O (hh_right O M k n v1 v2 tau) i c = mget O M i c) /\
    (mget O (hh_right O M k n v1 v2 tau) i k, mget O (hh_right O M k n v1 v2 tau) i (k + 1), mget O (hh_right O M k n v1 v2 tau) i (k + 2))
      = hh3 tau v1 v2 (mget O M i k, mget O M i (k + 1), mget O M i (k + 2)).
Proof.
move=> w k2; have [sM sc] := w.
have k0 : (k < n)%N by lia.
have k1 : (k + 1 < n)%N by lia.
rewrite /hh_right.
set c0 := mcol O M k; set c1 := mcol O M (k + 1)%coq_nat; set c2 := mcol O M (k + 2)%coq_nat.
set tv := mapi (fun i x0 => Ops.mul O tau _) c0.
set c0' := mapi _ c0; set c1' := mapi _ c1; set c2' := mapi _ c2.
have s0 : size c0 = n by rewrite /c0 /mcol nthE sc.
have s1 : size c1 = n by rewrite /c1 /mcol nthE sc.
have s2 : size c2 = n by rewrite /c2 /mcol nthE sc.
have s0' : size c0' = n by rewrite /c0' /mapi size_mapi_s.
have s1' : size c1' = n by rewrite /c1' /mapi size_mapi_s.
have s2' : size c2' = n by rewrite /c2' /mapi size_mapi_s.
have w1 := wfm_msetcol k w s0'.
have w2 := wfm_msetcol (k + 1)%N w1 s1'.
have w3 := wfm_msetcol (k + 2)%N w2 s2'.
split=> // i i_n.
have col c : (c < n)%N -> nth [::] (msetcol O (msetcol O (msetcol O M k c0') (k + 1)%coq_nat c1') (k + 2)%coq_nat c2') c =
   if c == (k + 2)%N then c2' else if c == (k + 1)%N then c1' else if c == k then c0' else nth [::] M c.
  move=> cn; rewrite nth_msetcol; last by rewrite !size_msetcol sM.
  case: ifP => // _; rewrite nth_msetcol; last by rewrite !size_msetcol sM.
  by case: ifP => // _; rewrite nth_msetcol ?sM.
have tvi : nth 0 tv i = tau * (nth 0 c0 i + v1 * nth 0 c1 i + v2 * nth 0 c2 i).
  by rewrite /tv /mapi (@nth_mapi_s _ _ 0 _ c0 i 0 0) ?s0 // add0n /vnth !nthE.
split.
- move=> c cn /negbTE a /negbTE b /negbTE d; rewrite !mgetE col // d b a.
  by [].
- rewrite !mgetE !col // !eqxx.
  have -> : (k + 1 == k + 2)%N = false by lia.
  have -> : (k == k + 2)%N = false by lia.
  have -> : (k == k + 1)%N = false by lia.
  rewrite /c0' /c1' /c2' /mapi (@nth_mapi_s _ _ 0 _ c0 i 0 0) ?s0 // (@nth_mapi_s _ _ 0 _ c1 i 0 0) ?s1 // (@nth_mapi_s _ _ 0 _ c2 i 0 0) ?s2 //.
  rewrite !add0n !ltbE i_n /vnth !nthE tvi /hh3 /= /c0 /c1 /c2 /mcol !nthE.
  by [].
Qed.

(* hh_left: rows k, k+1, k+2 of every column j >= k are reflected by the SAME 3-vector map, everything else is untouched:
   hh_left then hh_right with one (tau, v1, v2) is H M H on the entries they touch, H = I - tau w w^T symmetric *)
Lemma nth_vset3 (c : seq F) k a0 a1 a2 i : (k + 2 < size c)%N ->
  nth 0 (vset O (vset O (vset O c k a0) (k + 1) a1) (k + 2) a2) i =
  if i == (k + 2)%N then a2 else if i == (k + 1)%N then a1 else if i == k then a0 else nth 0 c i.
Proof.
move=> h.
have nv (v : seq F) a x b : (a < size v)%N -> nth 0 (vset O v a x) b = if b == a then x else nth 0 v b.
  by elim: v a b => [|y v IH] [|a] [|b] //= hh; rewrite IH.
have sv (v : seq F) a x : size (vset O v a x) = size v by elim: v a => [|y v IH] [|a] //=; rewrite IH.
rewrite nv ?sv //; case: ifP => // _; rewrite nv ?sv; last by lia.
by case: ifP => // _; rewrite nv //; lia.
Qed.
Lemma hh_left_entries n M k v1 v2 tau : wfm n M -> (k + 2 < n)%N ->
  forall i j, (i < n)%N -> (j < n)%N ->
    (~~ ((k <= j) && (k <= i <= k + 2))%N -> mget O (hh_left O M k v1 v2 tau) i j = mget O M i j) /\
    ((k <= j)%N -> (mget O (hh_left O M k v1 v2 tau) k j, mget O (hh_left O M k v1 v2 tau) (k + 1) j, mget O (hh_left O M k v1 v2 tau) (k + 2) j)
                   = hh3 tau v1 v2 (mget O M k j, mget O M (k + 1) j, mget O M (k + 2) j)).
Proof.
move=> [sM sc] k2 i j i_n j_n.
have col : nth [::] (hh_left O M k v1 v2 tau) j =
   if (k <= j)%N then let c := nth [::] M j in
     vset O (vset O (vset O c k (nth 0 c k - tau * (nth 0 c k + v1 * nth 0 c (k + 1) + v2 * nth 0 c (k + 2))))
                    (k + 1) (nth 0 c (k + 1) - tau * (nth 0 c k + v1 * nth 0 c (k + 1) + v2 * nth 0 c (k + 2)) * v1))
            (k + 2) (nth 0 c (k + 2) - tau * (nth 0 c k + v1 * nth 0 c (k + 1) + v2 * nth 0 c (k + 2)) * v2)
   else nth [::] M j.
  rewrite /hh_left /mapi (@nth_mapi_s _ _ 0 _ M j [::] [::]) ?sM // add0n.
  by case: (PeanoNat.Nat.leb_spec k j) => [/ssrnat.leP ->|/ssrnat.ltP h]; rewrite /vnth ?nthE //; have -> : (k <= j)%N = false by lia.
split.
- move=> out; rewrite !mgetE col; case: (leqP k j) => kj //=.
  rewrite nth_vset3 ?sc //.
  have -> : (i == k + 2)%N = false by move: out; rewrite kj /=; lia.
  have -> : (i == k + 1)%N = false by move: out; rewrite kj /=; lia.
  by have -> : (i == k) = false by move: out; rewrite kj /=; lia.
- move=> kj; rewrite !mgetE col kj /= !nth_vset3 ?sc // !eqxx.
  have -> : (k + 1 == k + 2)%N = false by lia.
  have -> : (k == k + 2)%N = false by lia.
  by have -> : (k == k + 1)%N = false by lia.
Qed.

Lemma hh_right_gram n U k v1 v2 tau : wfm n U -> (k + 2 < n)%N -> hh3_cond tau v1 v2 ->
  wfm n (hh_right O U k n v1 v2 tau) /\ forall i j, (i < n)%N -> (j < n)%N -> gram n (hh_right O U k n v1 v2 tau) i j = gram n U i j.
Proof.
move=> w k2 hc; have [w' he] := hh_right_entries v1 v2 tau w k2; split=> // i j i_n j_n.
have [ri wi] := he i i_n; have [rj wj] := he j j_n.
rewrite /gram; apply: (@sum_change3 _ n k (fun c => mget O (hh_right O U k n v1 v2 tau) i c * mget O (hh_right O U k n v1 v2 tau) j c)
                                         (fun c => mget O U i c * mget O U j c)) => //.
- by move=> c cn a b d; rewrite ri // rj.
- have := hh3_dot (mget O U i k, mget O U i (k + 1)%N, mget O U i (k + 2)%N) (mget O U j k, mget O U j (k + 1)%N, mget O U j (k + 2)%N) hc.
  by rewrite -wi -wj /dot3 /=.
Qed.

(* rot_cols_top with nrow = n: columns p < q of every row are rotated, the rest is untouched *)
Lemma rot_cols_top_gram n U p q (c s : F) : wfm n U -> (p < q)%N -> (q < n)%N -> c ^+ 2 + s ^+ 2 = 1 ->
  wfm n (rot_cols_top O U p q n c s) /\ forall i j, (i < n)%N -> (j < n)%N -> gram n (rot_cols_top O U p q n c s) i j = gram n U i j.
Proof.
move=> w pq qn cs; have [sM sc] := w.
have pn : (p < n)%N by lia.
rewrite /rot_cols_top; case: ifP => _ //.
set x := mcol O U p; set y := mcol O U q.
set x' := mapi _ x; set y' := mapi _ y.
have sx : size x = n by rewrite /x /mcol nthE sc.
have sy : size y = n by rewrite /y /mcol nthE sc.
have sx' : size x' = n by rewrite /x' /mapi size_mapi_s.
have sy' : size y' = n by rewrite /y' /mapi size_mapi_s.
have w1 := wfm_msetcol p w sx'.
have w2 := wfm_msetcol q w1 sy'.
split=> // i j i_n j_n.
have col d : (d < n)%N -> nth [::] (msetcol O (msetcol O U p x') q y') d = if d == q then y' else if d == p then x' else nth [::] U d.
  move=> dn; rewrite nth_msetcol; last by rewrite !size_msetcol sM.
  by case: ifP => // _; rewrite nth_msetcol ?sM.
have ex r : (r < n)%N -> nth 0 x' r = c * nth 0 x r - s * nth 0 y r.
  by move=> rn; rewrite /x' /mapi (@nth_mapi_s _ _ 0 _ x r 0 0) ?sx // add0n ltbE rn /vnth nthE.
have ey r : (r < n)%N -> nth 0 y' r = s * nth 0 x r + c * nth 0 y r.
  by move=> rn; rewrite /y' /mapi (@nth_mapi_s _ _ 0 _ y r 0 0) ?sy // add0n ltbE rn /vnth nthE.
rewrite /gram; apply: (@sum_change2 _ n p q (fun d => mget O (msetcol O (msetcol O U p x') q y') i d * mget O (msetcol O (msetcol O U p x') q y') j d)
                                         (fun d => mget O U i d * mget O U j d)) => //.
- by move=> d dn /negbTE a /negbTE b; rewrite !mgetE col // a b.
- rewrite !mgetE !col // !eqxx.
  have -> : (p == q) = false by lia.
  rewrite !ex // !ey // /x /y /mcol !nthE.
  set a := nth 0 (nth [::] U p) i; set b := nth 0 (nth [::] U q) i; set a' := nth 0 (nth [::] U p) j; set b' := nth 0 (nth [::] U q) j.
  have -> : (c * a - s * b) * (c * a' - s * b') + (s * a + c * b) * (s * a' + c * b') = (c ^+ 2 + s ^+ 2) * (a * a' + b * b') by ring.
  by rewrite cs mul1r.
Qed.

Lemma gram_identity n i j : (i < n)%N -> (j < n)%N -> wfm n (identity O n) /\ gram n (identity O n) i j = (i == j)%:R.
Proof.
move=> i_n j_n.
have ent r c : (r < n)%N -> (c < n)%N -> mget O (identity O n) r c = (r == c)%:R.
  move=> rn cn; rewrite mgetE /identity !mapE seqE (nth_map 0%N) ?size_iota // nth_iota // add0n (nth_map 0%N) ?size_iota // nth_iota // add0n eqbE.
  by case: eqP.
split.
- split; first by rewrite /identity mapE size_map seqE size_iota.
  by move=> c cn; rewrite /identity !mapE seqE (nth_map 0%N) ?size_iota // size_map size_iota.
- rewrite /gram (bigD1 (Ordinal i_n)) //= big1 ?addr0.
    by rewrite !ent // eqxx mul1r eq_sym.
  move=> c; rewrite -val_eqE /= => /negbTE ci; rewrite ent // eq_sym.
  by rewrite [c == i :> nat]ci mul0r.
Qed.
End UU.

(* ------------------------------------------------------------ U of sc_compute is orthogonal *)
Section Loop.
Variable F : rcfType.
Notation O := (OpsF F).
Variables (eps min_ : F).
Hypothesis min0 : 0 <= min_.
Implicit Types (M U Tm : seq (seq F)).

Definition orthU (n : nat) U : Prop := wfm n U /\ forall i j, (i < n)%N -> (j < n)%N -> gram n U i j = (i == j)%:R.

Lemma orth_hh n U k v1 v2 tau : orthU n U -> (k + 2 < n)%N -> hh3_cond tau v1 v2 -> orthU n (hh_right O U k n v1 v2 tau).
Proof.
case=> w g k2 hc; have [w' g'] := hh_right_gram w k2 hc.
by split=> // i j i_n j_n; rewrite g' // g.
Qed.
Lemma orth_rot n U p q c s : orthU n U -> (p < q)%N -> (q < n)%N -> c ^+ 2 + s ^+ 2 = 1 -> orthU n (rot_cols_top O U p q n c s).
Proof.
case=> w g pq qn cs; have [w' g'] := rot_cols_top_gram w pq qn cs.
by split=> // i j i_n j_n; rewrite g' // g.
Qed.

Lemma make_givens_r_cs (p q : F) : (make_givens_r O p q).1 = make_givens O p q.
Proof. by rewrite /make_givens_r /make_givens; do ! case: ifP => _ //. Qed.
Lemma make_givens_r_unit (p q : F) : let '(c, s, _) := make_givens_r O p q in c ^+ 2 + s ^+ 2 = 1.
Proof.
have := make_givens_r_cs p q; have := make_givens_spec p q.
by case: (make_givens_r O p q) => [[c s] r] /=; case: (make_givens O p q) => c' s' [h _ _] [-> ->].
Qed.

Lemma find_small_le fuel res Tm near_0 : (find_small O eps fuel res Tm near_0 <= res)%N.
Proof.
elim: fuel res => [|fu IH] res //=.
case: ifP => // _; case: ifP => // _.
by apply: leq_trans (IH _) _; rewrite /subn /=; lia.
Qed.

Lemma sweep_orth fuel n il im iu k fhv near_0 Tm U : (iu < n)%N -> orthU n U ->
  orthU n (francis_sweep O min_ fuel n il im iu k fhv near_0 Tm U).2.
Proof.
move=> iun; elim: fuel k Tm U => [|fu IH] k Tm U oU //=.
case: (PeanoNat.Nat.leb_spec (k + 2)%coq_nat iu) => // kiu.
set trip := (if PeanoNat.Nat.eqb k im then fhv else _); case: trip => [[c0 x1] x2].
have := make_householder_spec min0 c0 x1 x2.
case: (make_householder O min_ c0 x1 x2) => [[[v1 v2] tau] beta] [hc _].
case: ifP => _; apply: IH => //.
by apply: orth_hh => //; move/ssrnat.leP: kiu => kiu; rewrite -/(addn k 2) in kiu *; lia.
Qed.

Lemma step_orth n il im iu fhv near_0 Tm U : (0 < iu < n)%N -> orthU n U ->
  orthU n (francis_step O min_ n il im iu fhv near_0 Tm U).2.
Proof.
move=> /andP[iu0 iun] oU; rewrite /francis_step.
have := @sweep_orth n n il im iu im fhv near_0 Tm U iun oU.
case: (francis_sweep O min_ n n il im iu im fhv near_0 Tm U) => Tm1 U1 /= oU1.
set p := mget O Tm1 _ _; set q := mget O Tm1 _ _.
have := make_givens_r_unit p q; case: (make_givens_r O p q) => [[c s] beta] cs.
case: ifP => _ //=.
by apply: orth_rot => //; rewrite /subn /=; lia.
Qed.

Lemma split_orth n iu Tm U ex : (0 < iu < n)%N -> orthU n U -> orthU n (split_off O n iu Tm U ex).2.
Proof.
move=> /andP[iu0 iun] oU; rewrite /split_off.
set Tm2 := mset O (mset O Tm iu iu _) _ _ _.
case: ifP => _ //=.
set p := (if _ then _ else _); set q := mget O Tm2 _ _.
have := make_givens_r_unit p q; case: (make_givens_r O p q) => [[c s] beta] cs /=.
by apply: orth_rot => //; rewrite /subn /=; lia.
Qed.

Lemma loop_orth fuel n iu1 iter total ex near_0 Tm U Tm' U' : (iu1 <= n)%N -> orthU n U ->
  sc_loop O eps min_ fuel n iu1 iter total ex near_0 Tm U = Some (Tm', U') -> orthU n U'.
Proof.
elim: fuel iu1 iter total ex Tm U => [|fu IH] iu1 iter total ex Tm U //= le1 oU.
case: iu1 le1 => [|iu] le1; first by case=> _ <-.
have := find_small_le n iu Tm near_0; set il := find_small _ _ _ _ _ _ => ile.
case: (PeanoNat.Nat.eqb_spec il iu) => e1.
  by apply: IH => //; exact: ltnW.
case: (PeanoNat.Nat.eqb_spec il (iu - 1)%coq_nat) => e2.
  have iu0 : (0 < iu)%N by move: e1 e2 ile; rewrite /subn /=; lia.
  have := @split_orth n iu Tm U ex _ oU; rewrite iu0 le1 => /(_ isT).
  case: (split_off O n iu Tm U ex) => Tm1 U1 /= oU1.
  by apply: IH => //; move: le1; rewrite /subn /=; lia.
have iu2 : (1 < iu)%N by move: e1 e2 ile; rewrite /subn /=; lia.
case: (compute_shift O iu iter Tm ex) => [[Tm1 ex1] sh].
case: ifP => // _.
case: (init_francis O eps n il (iu - 2)%coq_nat Tm1 sh) => im fhv.
have := @step_orth n il im iu fhv near_0 Tm1 U _ oU; rewrite le1 (ltnW iu2) => /(_ isT).
case: (francis_step O min_ n il im iu fhv near_0 Tm1 U) => Tm2 U2 /= oU2.
exact: IH.
Qed.

(* for EVERY n, every input matrix (Hessenberg or not) and every constants eps, min >= 0: whenever sc_compute returns (instead of signalling
   the iteration limit, where the C++ throws), the accumulated transformation U has orthonormal rows: U U^T = I *)
Theorem sc_compute_U_orthogonal n M Tm' U' : sc_compute O eps min_ n M = Some (Tm', U') -> orthU n U'.
Proof.
rewrite /sc_compute.
have oI : orthU n (identity O n).
  split; first by case: n => [|n]; [split=> //; by [] | have [] := @gram_identity F n.+1 0%N 0%N isT isT].
  by move=> i j i_n j_n; have [] := @gram_identity F n i j i_n j_n.
case: ifP => _; first by case=> _ <-.
exact: loop_orth.
Qed.
End Loop.
