(* C09: the shape of the T returned by the model of UpperHessenbergSchur::compute, for EVERY scalar instance (binary64 included):
   which entries each kernel may touch (frames), and from them: a Hessenberg input yields a T that is literally zero below the
   sub-diagonal and has no two consecutive non-zero sub-diagonal entries (quasi-upper-triangular). *)
From SV Require Import Ops LinAlg Schur.
From mathcomp Require Import all_ssreflect.
From mathcomp Require Import zify.
From SV Require Import OpsF.
Set Implicit Arguments. Unset Strict Implicit. Unset Printing Implicit Defensive.

Section Sh.
Variable o : Ops.
Variables (eps min_ : T o).
Notation mget := (mget o). Notation mset := (mset o).
Implicit Types (M : seq (seq (T o))).
Variable n : nat.

Definition wfm M : Prop := size M = n /\ forall j, (j < n)%N -> size (nth [::] M j) = n.
(* M' agrees with M on the positions K *)
Definition agree (K : nat -> nat -> bool) M M' : Prop := forall i j, (i < n)%N -> (j < n)%N -> K i j -> mget M' i j = mget M i j.

Lemma agree_refl K M : agree K M M. Proof. by []. Qed.
Lemma agree_trans K M1 M2 M3 : agree K M1 M2 -> agree K M2 M3 -> agree K M1 M3.
Proof. by move=> a b i j i_n j_n k; rewrite b // a. Qed.
Lemma agree_sub (K K' : nat -> nat -> bool) M M' : (forall i j, (i < n)%N -> (j < n)%N -> K' i j -> K i j) -> agree K M M' -> agree K' M M'.
Proof. by move=> h a i j i_n j_n k; apply: a => //; exact: h. Qed.

Lemma nth_vset_s (v : seq (T o)) i x k : (i < size v)%N -> nth (zero o) (vset o v i x) k = if k == i then x else nth (zero o) v k.
Proof. by elim: v i k => [|a v IH] [|i] [|k] //= h; rewrite IH. Qed.
Lemma nth_vset_out (v : seq (T o)) i x k : k != i -> nth (zero o) (vset o v i x) k = nth (zero o) v k.
Proof. by elim: v i k => [|a v IH] [|i] [|k] //= h; rewrite IH. Qed.
Lemma size_vset_s (v : seq (T o)) i x : size (vset o v i x) = size v.
Proof. by elim: v i => [|a v IH] [|i] //=; rewrite IH. Qed.
Lemma nth_mapi_h A B k (g : nat -> A -> B) l j d d' : (j < size l)%N -> nth d' (mapi_from k g l) j = g (k + j)%N (nth d l j).
Proof. by elim: l k j => [|x l IH] k [|j] //=; rewrite ?addn0 // ltnS => /IH ->; rewrite addSnnS. Qed.
Lemma size_mapi_h A B k (g : nat -> A -> B) l : size (mapi_from k g l) = size l.
Proof. by elim: l k => [|x l IH] k //=; rewrite IH. Qed.
Lemma seqE a b : List.seq a b = iota a b.
Proof. by elim: b a => [|b IH] a //=; rewrite IH. Qed.
Lemma mgetE M i j : mget M i j = nth (zero o) (nth [::] M j) i.
Proof. by rewrite /LinAlg.mget /vnth /mcol !nthE. Qed.

(* a column-wise map: the workhorse for mset, hh_left, rot_rows, sub_diag_upto *)
Lemma colmap_frame M (g : nat -> seq (T o) -> seq (T o)) (fp : nat -> nat -> bool) : wfm M ->
  (forall j c, size (g j c) = size c) ->
  (forall j c i, (j < n)%N -> size c = n -> (i < n)%N -> ~~ fp i j -> nth (zero o) (g j c) i = nth (zero o) c i) ->
  wfm (mapi g M) /\ agree (fun i j => ~~ fp i j) M (mapi g M).
Proof.
case=> sM sc sg fg; split.
- split; first by rewrite /mapi size_mapi_h.
  by move=> j jn; rewrite /mapi (@nth_mapi_h _ _ 0 _ M j [::] [::]) ?sM // sg sc.
- move=> i j i_n j_n nf; rewrite !mgetE /mapi (@nth_mapi_h _ _ 0 _ M j [::] [::]) ?sM // add0n.
  by apply: fg => //; exact: sc.
Qed.

Lemma mset_frame M a b x : wfm M -> wfm (mset M a b x) /\ agree (fun i j => ~~ ((i == a) && (j == b))) M (mset M a b x).
Proof.
move=> w; apply: colmap_frame => //.
- by move=> j c; case: ifP => _ //; rewrite size_vset_s.
- move=> j c i jn sc i_n; rewrite eqbE; case: (j =P b) => [_|_] //.
  by rewrite andbT => ia; rewrite nth_vset_out.
Qed.
Lemma mset_get M a b x : wfm M -> (a < n)%N -> (b < n)%N -> mget (mset M a b x) a b = x.
Proof.
case=> sM sc an bn; rewrite mgetE /LinAlg.mset /mapi (@nth_mapi_h _ _ 0 _ M b [::] [::]) ?sM // add0n eqbE eqxx.
by rewrite nth_vset_s ?eqxx // sc.
Qed.

Lemma sub_diag_frame M iu s : wfm M -> wfm (sub_diag_upto o M iu s) /\ agree (fun i j => i != j) M (sub_diag_upto o M iu s).
Proof.
move=> w; pose g := (fun j col => if PeanoNat.Nat.leb j iu then vset o col j (sub o (vnth o col j) s) else col).
have sg : forall j c, size (g j c) = size c by move=> j c; rewrite /g; case: ifP => _ //; rewrite size_vset_s.
have fg : forall j c i, (j < n)%N -> size c = n -> (i < n)%N -> ~~ (i == j) -> nth (zero o) (g j c) i = nth (zero o) c i.
  by move=> j c i jn sc i_n ij; rewrite /g; case: ifP => _ //; rewrite nth_vset_out.
by have [w' a] := @colmap_frame M g (fun i j => i == j) w sg fg; split.
Qed.

Lemma hh_left_frame M k v1 v2 tau : wfm M ->
  wfm (hh_left o M k v1 v2 tau) /\ agree (fun i j => ~~ ((k <= j) && (k <= i <= k + 2))%N) M (hh_left o M k v1 v2 tau).
Proof.
move=> w; apply: colmap_frame => //.
- by move=> j c; case: ifP => _ //; rewrite !size_vset_s.
- move=> j c i jn sc i_n; case: (PeanoNat.Nat.leb_spec k j) => [/ssrnat.leP kj|//].
  rewrite kj /= => out.
  rewrite !nth_vset_out //; move: out; rewrite -/(addn k 1) -/(addn k 2); lia.
Qed.

Lemma rot_rows_frame M p q j0 c s : wfm M ->
  wfm (rot_rows o M p q j0 c s) /\ agree (fun i j => ~~ ((j0 <= j)%N && ((i == p) || (i == q)))) M (rot_rows o M p q j0 c s).
Proof.
move=> w; rewrite /rot_rows; case: ifP => _; first by split.
apply: colmap_frame => //.
- by move=> j cc; case: ifP => _ //; rewrite !size_vset_s.
- move=> j cc i jn sc i_n; case: (PeanoNat.Nat.leb_spec j0 j) => [/ssrnat.leP kj|//].
  by rewrite kj /= negb_or => /andP[ip iq]; rewrite !nth_vset_out.
Qed.

Lemma size_msetcol M j c : size (msetcol o M j c) = size M.
Proof. by rewrite /msetcol /mapi size_mapi_h. Qed.
Lemma nth_msetcol M j c j' : (j' < size M)%N -> nth [::] (msetcol o M j c) j' = if j' == j then c else nth [::] M j'.
Proof. by move=> h; rewrite /msetcol /mapi (@nth_mapi_h _ _ 0 _ M j' [::] [::]) // add0n eqbE. Qed.
Lemma wfm_msetcol M j c : wfm M -> size c = n -> wfm (msetcol o M j c).
Proof.
case=> sM sc szc; split; first by rewrite size_msetcol.
by move=> j' h; rewrite nth_msetcol ?sM //; case: ifP => _ //; exact: sc.
Qed.

Lemma hh_right_frame M k nrow v1 v2 tau : wfm M -> (k + 2 < n)%N ->
  wfm (hh_right o M k nrow v1 v2 tau) /\ agree (fun i j => ~~ ((k <= j <= k + 2) && (i < nrow))%N) M (hh_right o M k nrow v1 v2 tau).
Proof.
move=> w k2; have [sM sc] := w.
have k0 : (k < n)%N by lia.
have k1 : (k + 1 < n)%N by lia.
rewrite /hh_right.
set c0 := mcol o M k; set c1 := mcol o M (k + 1)%coq_nat; set c2 := mcol o M (k + 2)%coq_nat.
set tv := mapi (fun i x0 => Ops.mul o tau _) c0.
set c0' := mapi _ c0; set c1' := mapi _ c1; set c2' := mapi _ c2.
have s0 : size c0 = n by rewrite /c0 /mcol nthE sc.
have s1 : size c1 = n by rewrite /c1 /mcol nthE sc.
have s2 : size c2 = n by rewrite /c2 /mcol nthE sc.
have s0' : size c0' = n by rewrite /c0' /mapi size_mapi_h.
have s1' : size c1' = n by rewrite /c1' /mapi size_mapi_h.
have s2' : size c2' = n by rewrite /c2' /mapi size_mapi_h.
have w1 := wfm_msetcol k w s0'.
have w2 := wfm_msetcol (k + 1)%N w1 s1'.
have w3 := wfm_msetcol (k + 2)%N w2 s2'.
split=> // i j i_n j_n out.
have col : nth [::] (msetcol o (msetcol o (msetcol o M k c0') (k + 1)%coq_nat c1') (k + 2)%coq_nat c2') j =
   if j == (k + 2)%N then c2' else if j == (k + 1)%N then c1' else if j == k then c0' else nth [::] M j.
  rewrite nth_msetcol; last by rewrite !size_msetcol sM.
  case: ifP => // _; rewrite nth_msetcol; last by rewrite !size_msetcol sM.
  by case: ifP => // _; rewrite nth_msetcol ?sM.
rewrite !mgetE col.
case: (j =P (k + 2)%N) => [e|ne2].
  have inr : (i < nrow)%N = false by move: out; rewrite e; lia.
  by rewrite /c2' /mapi (@nth_mapi_h _ _ 0 _ c2 i (zero o) (zero o)) ?s2 // add0n ltbE inr /c2 /mcol nthE e.
case: (j =P (k + 1)%N) => [e|ne1].
  have inr : (i < nrow)%N = false by move: out; rewrite e; lia.
  by rewrite /c1' /mapi (@nth_mapi_h _ _ 0 _ c1 i (zero o) (zero o)) ?s1 // add0n ltbE inr /c1 /mcol nthE e.
case: (j =P k) => [e|ne0] //.
have inr : (i < nrow)%N = false by move: out; rewrite e; lia.
by rewrite /c0' /mapi (@nth_mapi_h _ _ 0 _ c0 i (zero o) (zero o)) ?s0 // add0n ltbE inr /c0 /mcol nthE e.
Qed.

Lemma rot_cols_top_frame M p q nrow c s : wfm M -> (p < n)%N -> (q < n)%N ->
  wfm (rot_cols_top o M p q nrow c s) /\ agree (fun i j => ~~ (((j == p) || (j == q)) && (i < nrow))%N) M (rot_cols_top o M p q nrow c s).
Proof.
move=> w pn qn; have [sM sc] := w.
rewrite /rot_cols_top; case: ifP => _; first by split.
set x := mcol o M p; set y := mcol o M q.
set x' := mapi _ x; set y' := mapi _ y.
have sx : size x = n by rewrite /x /mcol nthE sc.
have sy : size y = n by rewrite /y /mcol nthE sc.
have sx' : size x' = n by rewrite /x' /mapi size_mapi_h.
have sy' : size y' = n by rewrite /y' /mapi size_mapi_h.
have w1 := wfm_msetcol p w sx'.
have w2 := wfm_msetcol q w1 sy'.
split=> // i j i_n j_n out.
have col : nth [::] (msetcol o (msetcol o M p x') q y') j = if j == q then y' else if j == p then x' else nth [::] M j.
  rewrite nth_msetcol; last by rewrite !size_msetcol sM.
  by case: ifP => // _; rewrite nth_msetcol ?sM.
rewrite !mgetE col.
case: (j =P q) => [e|neq].
  have inr : (i < nrow)%N = false by move: out; rewrite e eqxx orbT /=; lia.
  by rewrite /y' /mapi (@nth_mapi_h _ _ 0 _ y i (zero o) (zero o)) ?sy // add0n ltbE inr /y /mcol nthE e.
case: (j =P p) => [e|nep] //.
have inr : (i < nrow)%N = false by move: out; rewrite e eqxx /=; lia.
by rewrite /x' /mapi (@nth_mapi_h _ _ 0 _ x i (zero o) (zero o)) ?sx // add0n ltbE inr /x /mcol nthE e.
Qed.

(* ---------------------------------------------------------------- one Francis step *)
Section Step.
Variables (im iu : nat).
Hypothesis iun : (iu < n)%N.
(* the entries the clean-up loop zeroes: (i, i-2) for im+2 <= i <= iu and (i, i-3) for im+3 <= i <= iu *)
Definition inC (i j : nat) : bool := (i <= iu)%N && (((j + 2 == i)%N && (im + 2 <= i)%N) || ((j + 3 == i)%N && (im + 3 <= i)%N)).
(* what a Francis step must not change: the rows below the window and the sub-sub-diagonal entries outside the clean-up set *)
Definition keep (i j : nat) : bool := (iu < i)%N || ((j + 1 < i)%N && ~~ inC i j).

Definition cstep M (a : nat) := let M1 := mset M a (a - 2)%coq_nat (zero o) in if PeanoNat.Nat.ltb (im + 2)%coq_nat a then mset M1 a (a - 3)%coq_nat (zero o) else M1.
Definition hit (a i j : nat) : bool := (i == a) && ((j + 2 == a)%N || ((im + 2 < a)%N && (j + 3 == a)%N)).

Lemma cstep_spec M a : wfm M -> (1 < a < n)%N ->
  wfm (cstep M a) /\ forall i j, (i < n)%N -> (j < n)%N -> mget (cstep M a) i j = if hit a i j then zero o else mget M i j.
Proof.
move=> w /andP[a2 an]; rewrite /cstep.
have [w1 f1] := mset_frame a (a - 2)%coq_nat (zero o) w.
have a2n : ((a - 2)%coq_nat < n)%N by lia.
have g1 := mset_get (zero o) w an a2n.
rewrite ltbE; case: ifP => c3.
- have [w2 f2] := mset_frame a (a - 3)%coq_nat (zero o) w1.
  have a3n : ((a - 3)%coq_nat < n)%N by lia.
  have g2 := mset_get (zero o) w1 an a3n.
  split=> // i j i_n j_n; rewrite /hit -/(addn im 2) c3 /=.
  case: (i =P a) => [->|ne] /=.
  + case: (j =P (a - 3)%coq_nat) => [->|n3].
      by rewrite g2; have -> : ((a - 3)%coq_nat + 2 == a)%N || ((a - 3)%coq_nat + 3 == a)%N = true by lia.
    rewrite f2 //; last by rewrite eqxx /=; apply/eqP.
    case: (j =P (a - 2)%coq_nat) => [->|n2].
      by rewrite g1; have -> : ((a - 2)%coq_nat + 2 == a)%N || ((a - 2)%coq_nat + 3 == a)%N = true by lia.
    rewrite f1 //; last by rewrite eqxx /=; apply/eqP.
    by have -> : (j + 2 == a)%N || (j + 3 == a)%N = false by lia.
  + by rewrite f2 ?f1 //; [case: (i =P a) | case: (i =P a)].
- split=> // i j i_n j_n; rewrite /hit -/(addn im 2) c3 /= orbF.
  case: (i =P a) => [->|ne] /=.
  + case: (j =P (a - 2)%coq_nat) => [->|n2].
      by rewrite g1; have -> : ((a - 2)%coq_nat + 2 == a)%N by lia.
    rewrite f1 //; last by rewrite eqxx /=; apply/eqP.
    by have -> : (j + 2 == a)%N = false by lia.
  + by rewrite f1 //; case: (i =P a).
Qed.

Lemma cfold_spec L M : wfm M -> all (fun a => (1 < a < n)%N) L ->
  wfm (List.fold_left cstep L M) /\
  forall i j, (i < n)%N -> (j < n)%N -> mget (List.fold_left cstep L M) i j = if has (fun a => hit a i j) L then zero o else mget M i j.
Proof.
elim: L M => [|a L IH] M w //= /andP[ha hL].
have [w1 s1] := cstep_spec w ha; have [w2 s2] := IH _ w1 hL.
split=> // i j i_n j_n; rewrite s2 // s1 //.
by case: (has _ L); rewrite ?orbT //= orbF.
Qed.

Lemma cleanup_spec M : wfm M ->
  wfm (cleanup o im iu M) /\ forall i j, (i < n)%N -> (j < n)%N -> mget (cleanup o im iu M) i j = if inC i j then zero o else mget M i j.
Proof.
move=> w; rewrite /cleanup.
have hL : all (fun a => (1 < a < n)%N) (List.seq (im + 2)%coq_nat (iu + 1 - (im + 2))%coq_nat).
  apply/allP => a; rewrite seqE mem_iota -/(addn im 2) -/(addn iu 1) -/(subn (iu + 1) (im + 2)); lia.
have [w' sp] := cfold_spec w hL; split=> // i j i_n j_n.
rewrite (sp i j i_n j_n); congr (if _ then _ else _).
apply/hasP/idP => [[a]|].
- rewrite seqE mem_iota -/(addn im 2) -/(addn iu 1) -/(subn (iu + 1) (im + 2)) /hit /inC; lia.
- rewrite /inC => h; exists i; last by rewrite /hit eqxx /=; lia.
  rewrite seqE mem_iota -/(addn im 2) -/(addn iu 1) -/(subn (iu + 1) (im + 2)); lia.
Qed.

Lemma sweep_frame fuel il k fhv near_0 Tm U : (im <= k)%N -> wfm Tm ->
  wfm (francis_sweep o min_ fuel n il im iu k fhv near_0 Tm U).1 /\ agree keep Tm (francis_sweep o min_ fuel n il im iu k fhv near_0 Tm U).1.
Proof.
elim: fuel k Tm U => [|fu IH] k Tm U imk w /=; first by split.
case: (PeanoNat.Nat.leb_spec (k + 2)%coq_nat iu) => [/ssrnat.leP kiu|_]; last by split.
rewrite -/(addn k 2) in kiu.
set trip := (if PeanoNat.Nat.eqb k im then fhv else _); case: trip => [[c0 x1] x2].
case: (make_householder o min_ c0 x1 x2) => [[[v1 v2] tau] beta].
case: ifP => _; last by apply: IH => //; rewrite -/(addn k 1); lia.
set T1 := (if _ then LinAlg.mset _ _ _ _ _ else _).
have [w1 a1] : wfm T1 /\ agree keep Tm T1.
  rewrite /T1; case: ifP => _; last case: ifP => _; last by split.
  - have [w' a'] := mset_frame k (k - 1)%coq_nat (neg o (mget Tm k (k - 1)%coq_nat)) w; split=> //.
    by apply: agree_sub a' => i j i_n j_n; rewrite /keep /inC; lia.
  - have [w' a'] := mset_frame k (k - 1)%coq_nat beta w; split=> //.
    by apply: agree_sub a' => i j i_n j_n; rewrite /keep /inC; lia.
have k2n : (k + 2 < n)%N by lia.
have [w2 a2] := hh_left_frame k v1 v2 tau w1.
have [w3 a3] := hh_right_frame (Nat.min iu (k + 3)%coq_nat + 1)%coq_nat v1 v2 tau w2 k2n.
have imk1 : (im <= (k + 1)%coq_nat)%N by rewrite -/(addn k 1); lia.
have [w4 a4] := IH (k + 1)%coq_nat _ (hh_right o U k n v1 v2 tau) imk1 w3.
split=> //.
apply: agree_trans a4; apply: agree_trans (agree_trans a1 _) _.
- by apply: agree_sub a2 => i j i_n j_n; rewrite /keep /inC; lia.
- by apply: agree_sub a3 => i j i_n j_n; rewrite /keep /inC; lia.
Qed.

Lemma step_shape il fhv near_0 Tm U : (0 < iu)%N -> wfm Tm ->
  let T' := (francis_step o min_ n il im iu fhv near_0 Tm U).1 in
  [/\ wfm T', agree (fun i j => iu < i)%N Tm T' &
       forall i j, (i < n)%N -> (j < n)%N -> (j + 1 < i)%N -> mget T' i j = zero o \/ mget T' i j = mget Tm i j].
Proof.
move=> iu0 w; rewrite /francis_step.
have [] := @sweep_frame n il im fhv near_0 Tm U (leqnn _) w.
case: (francis_sweep o min_ n n il im iu im fhv near_0 Tm U) => T2 U2 /= w2 a2.
case: (make_givens_r o _ _) => [[c s] beta].
set T3U := (if _ then _ else _).
have [w3 a3] : wfm T3U.1 /\ agree keep Tm T3U.1.
  rewrite /T3U; case: ifP => _ //=.
  have iu1n : ((iu - 1)%coq_nat < n)%N by lia.
  have [wa aa] := mset_frame (iu - 1)%coq_nat (iu - 2)%coq_nat beta w2.
  have [wb ab] := rot_rows_frame (iu - 1)%coq_nat iu (iu - 1)%coq_nat c s wa.
  have [wc ac] := rot_cols_top_frame (iu + 1)%coq_nat c s wb iu1n iun.
  split=> //; apply: agree_trans a2 _; apply: agree_trans (agree_trans _ _) _.
  - by apply: agree_sub aa => i j i_n j_n; rewrite /keep /inC; lia.
  - by apply: agree_sub ab => i j i_n j_n; rewrite /keep /inC; lia.
  - by apply: agree_sub ac => i j i_n j_n; rewrite /keep /inC; lia.
case: T3U w3 a3 => T3 U3 /= w3 a3.
have [w4 sp] := cleanup_spec w3.
split=> //.
- move=> i j i_n j_n ii; rewrite sp //.
  have -> : inC i j = false by rewrite /inC; lia.
  by apply: a3 => //; rewrite /keep ii.
- move=> i j i_n j_n ji; rewrite sp //; case h: (inC i j); first by left.
  by right; apply: a3 => //; rewrite /keep ji h orbT.
Qed.
End Step.

Definition keep2 (iu i j : nat) : bool := (iu < i)%N || (j + 1 < i)%N.
Lemma split_shape iu Tm U ex : (0 < iu < n)%N -> wfm Tm ->
  let T' := (split_off o n iu Tm U ex).1 in
  [/\ wfm T', agree (keep2 iu) Tm T' & (1 < iu)%N -> mget T' (iu - 1)%coq_nat (iu - 2)%coq_nat = zero o].
Proof.
move=> /andP[iu0 iun] w; rewrite /split_off.
have iu1n : ((iu - 1)%coq_nat < n)%N by lia.
set d1 := add o _ ex.
have [w1 a1] := mset_frame iu iu d1 w.
set d2 := add o _ ex.
have [w2 a2] := mset_frame (iu - 1)%coq_nat (iu - 1)%coq_nat d2 w1.
set T2 := mset (mset Tm iu iu d1) _ _ d2 in w2 a2 *.
have a12 : agree (keep2 iu) Tm T2.
  apply: agree_trans (agree_sub _ a1) (agree_sub _ a2) => i j i_n j_n; rewrite /keep2; lia.
set T3U := (if geb0 o _ then _ else _).
have [w3 a3] : wfm T3U.1 /\ agree (keep2 iu) Tm T3U.1.
  rewrite /T3U; case: ifP => _ //=.
  case: (make_givens_r o _ _) => [[c s] r] /=.
  have [wb ab] := rot_rows_frame (iu - 1)%coq_nat iu (iu - 1)%coq_nat c s w2.
  have [wc ac] := rot_cols_top_frame (iu + 1)%coq_nat c s wb iu1n iun.
  have [wd ad] := mset_frame iu (iu - 1)%coq_nat (zero o) wc.
  split=> //; apply: agree_trans a12 _; apply: agree_trans (agree_trans _ _) _.
  - by apply: agree_sub ab => i j i_n j_n; rewrite /keep2; lia.
  - by apply: agree_sub ac => i j i_n j_n; rewrite /keep2; lia.
  - by apply: agree_sub ad => i j i_n j_n; rewrite /keep2; lia.
case: T3U w3 a3 => T3 U3 /= w3 a3.
rewrite ltbE; case: ifP => i1 /=; last by split.
have [w4 a4] := mset_frame (iu - 1)%coq_nat (iu - 2)%coq_nat (zero o) w3.
split=> //.
- by apply: agree_trans a3 _; apply: agree_sub a4 => i j i_n j_n; rewrite /keep2; lia.
- by move=> _; apply: mset_get => //; lia.
Qed.

Lemma shift_shape iu iter Tm ex : wfm Tm ->
  let T' := (compute_shift o iu iter Tm ex).1.1 in wfm T' /\ agree (fun i j => i != j) Tm T'.
Proof.
move=> w; rewrite /compute_shift.
set A := (if PeanoNat.Nat.eqb iter 10 then _ else _).
have [wA aA] : wfm A.1.1 /\ agree (fun i j => i != j) Tm A.1.1.
  by rewrite /A; case: ifP => _ //=; exact: sub_diag_frame.
case: A wA aA => [[TA exA] [[s0 s1] s2]] /= wA aA.
case: ifP => _ //; case: ifP => _ //=.
have [wB aB] := sub_diag_frame iu (sub o s0 (div o s2 (add o (if ltb o s1 s0 then neg o (sqrt o (add o (mul o (div o (sub o s1 s0) (of_lit o l_two)) (div o (sub o s1 s0) (of_lit o l_two))) s2)) else sqrt o (add o (mul o (div o (sub o s1 s0) (of_lit o l_two)) (div o (sub o s1 s0) (of_lit o l_two))) s2)) (div o (sub o s1 s0) (of_lit o l_two))))) wA.
by split=> //; apply: agree_trans aA aB.
Qed.

(* ---------------------------------------------------------------- the main loop *)
Definition Hess M : Prop := forall i j, (i < n)%N -> (j < n)%N -> (j + 1 < i)%N -> mget M i j = zero o.
Definition Bnd (iu1 : nat) M : Prop := (0 < iu1)%N -> (iu1 < n)%N -> mget M iu1 (iu1 - 1)%coq_nat = zero o.
Definition Qs (iu1 : nat) M : Prop := forall i, (iu1 <= i + 1)%N -> (i + 2 < n)%N -> mget M (i + 1)%N i = zero o \/ mget M (i + 2)%N (i + 1)%N = zero o.
Definition Inv (iu1 : nat) M : Prop := [/\ wfm M, Hess M, Bnd iu1 M & Qs iu1 M].

Lemma loop_shape fuel iu1 iter total ex near_0 Tm U Tm' U' : (iu1 <= n)%N -> Inv iu1 Tm ->
  sc_loop o eps min_ fuel n iu1 iter total ex near_0 Tm U = Some (Tm', U') -> Inv 0 Tm'.
Proof.
elim: fuel iu1 iter total ex Tm U => [|fu IH] iu1 iter total ex Tm U //= le1 inv.
case: iu1 le1 inv => [|iu] le1 inv; first by case=> <- _.
have [w hs bd qs] := inv.
have ile : (find_small o eps n iu Tm near_0 <= iu)%N.
  elim: (n) (iu) => [|fu' IH'] res //=.
  case: ifP => // _; case: ifP => // _.
  by apply: leq_trans (IH' _) _; lia.
move: ile; set il := find_small _ _ _ _ _ _ => ile.
case: (PeanoNat.Nat.eqb_spec il iu) => e1.
- (* one root *)
  apply: IH; first exact: ltnW.
  set d := add o _ ex.
  have [w1 a1] := mset_frame iu iu d w.
  set T1 := mset Tm iu iu d in w1 a1 *.
  rewrite ltbE; case: ifP => iu0.
  + have [w2 a2] := mset_frame iu (iu - 1)%coq_nat (zero o) w1.
    have g2 : mget (mset T1 iu (iu - 1)%coq_nat (zero o)) iu (iu - 1)%coq_nat = zero o by apply: mset_get => //; lia.
    have ag : agree (fun i j => ~~ ((i == iu) && ((j == iu) || (j + 1 == iu)%N))) Tm (mset T1 iu (iu - 1)%coq_nat (zero o)).
      by apply: agree_trans (agree_sub _ a1) (agree_sub _ a2) => i j i_n j_n; lia.
    split=> //.
    * by move=> i j i_n j_n ji; rewrite ag ?hs //; lia.
    * move=> i h1 h2; case: (i + 1 =P iu)%N => [e|ne].
        by left; rewrite e; have -> : i = (iu - 1)%coq_nat by lia.
      have hq : (iu.+1 <= i + 1)%N by lia.
      by have [z|z] := qs i hq h2; [left | right]; rewrite ag //; lia.
  + have iu00 : iu = 0%N by lia.
    split=> //.
    * by move=> i j i_n j_n ji; rewrite a1 ?hs //; lia.
    * by move=> h; lia.
    * move=> i h1 h2; have hq : (iu.+1 <= i + 1)%N by lia.
      by have [z|z] := qs i hq h2; [left | right]; rewrite a1 //; lia.
case: (PeanoNat.Nat.eqb_spec il (iu - 1)%coq_nat) => e2.
- (* two roots *)
  have iu0 : (0 < iu)%N by lia.
  have := @split_shape iu Tm U ex _ w; rewrite iu0 le1 => /(_ isT).
  case: (split_off o n iu Tm U ex) => T1 U1 /= [w1 a1 z1].
  apply: IH; first by lia.
  split=> //.
  + by move=> i j i_n j_n ji; rewrite a1 ?hs // /keep2 ji orbT.
  + move=> h1 h2; have -> : ((iu - 1)%coq_nat - 1)%coq_nat = (iu - 2)%coq_nat by lia.
    by apply: z1; lia.
  + move=> i h1 h2; case: (i + 1 =P (iu - 1)%coq_nat)%N => [e|ne].
      left; rewrite e; have -> : i = (iu - 2)%coq_nat by lia.
      by apply: z1; lia.
    case: (i + 1 =P iu)%N => [e|ne'].
      right; have -> : (i + 2 = iu + 1)%N by lia.
      rewrite e a1 //; try lia; last by rewrite /keep2; lia.
      have hb : (iu.+1 < n)%N by lia.
      by have := bd isT hb; rewrite -addn1; have -> : ((iu + 1)%N - 1)%coq_nat = iu by lia.
    have hq : (iu.+1 <= i + 1)%N by lia.
    by have [z|z] := qs i hq h2; [left | right]; rewrite a1 // /keep2; lia.
(* a Francis step *)
have iu2 : (1 < iu)%N by lia.
have := @shift_shape iu iter Tm ex w.
case: (compute_shift o iu iter Tm ex) => [[T1 ex1] sh] /= [w1 a1].
case: ifP => // _.
case: (init_francis o eps n il (iu - 2)%coq_nat T1 sh) => im fhv.
have := @step_shape im iu le1 il fhv near_0 T1 U (ltnW iu2) w1.
case: (francis_step o min_ n il im iu fhv near_0 T1 U) => T2 U2 /= [w2 a2 z2].
apply: IH => //; split=> //.
- move=> i j i_n j_n ji; have [->|->] // := z2 i j i_n j_n ji.
  by rewrite a1 ?hs //; lia.
- move=> h1 h2; rewrite a2 ?a1 ?bd //; lia.
- by move=> i h1 h2; have [z|z] := qs i h1 h2; [left | right]; rewrite a2 ?a1 //; lia.
Qed.

(* EVERY scalar instance, every n, every (wellformed, upper Hessenberg) input: if the model of UpperHessenbergSchur::compute returns, then either it took
   the early exit for a matrix of norm zero (T is the input itself) or T is literally zero below the sub-diagonal and no two consecutive
   sub-diagonal entries are both non-zero: quasi-upper-triangular with 1x1 and 2x2 diagonal blocks *)
Theorem sc_compute_quasi_triangular M Tm' U' : wfm M -> Hess M -> sc_compute o eps min_ n M = Some (Tm', U') ->
  (Ops.eqb o (l1_norm o n M) (zero o) = true /\ Tm' = M) \/
  (wfm Tm' /\ Hess Tm' /\ forall i, (i + 2 < n)%N -> mget Tm' (i + 1)%N i = zero o \/ mget Tm' (i + 2)%N (i + 1)%N = zero o).
Proof.
move=> w hs; rewrite /sc_compute; case: ifP => nz; first by case=> <- _; left.
move=> h; right.
have inv0 : Inv n M by split=> //; [move=> _; rewrite ltnn | move=> i h1 h2; lia].
have [w' hs' _ q'] := loop_shape (leqnn n) inv0 h.
by split=> //; split=> // i h2; apply: q'.
Qed.
End Sh.
