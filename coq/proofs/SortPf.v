(* C18: the ordering primitive.  List-level theory of the BothEnds interleaving
   (on the GENERATED loop of argsort), the std::sort contract, checker soundness. *)
Require Import ZArith Lia List Bool Sorting.Permutation Arith ZifyNat ZifyBool.
From SV Require Import Cxx SortKey SortGen SortModel.
Import ListNotations.
Local Open Scope Z_scope.
Ltac Zify.zify_post_hook ::= Z.to_euclidean_division_equations.

(* ------------------------------------------------------------------ upd *)
Lemma upd_length {A} (l : list A) i x : List.length (upd l i x) = List.length l.
Proof. revert i; induction l as [|a l IH]; intros [|i]; simpl; auto. Qed.

Lemma nth_upd {A} (l : list A) i j x d : (i < List.length l)%nat ->
  nth j (upd l i x) d = if Nat.eqb j i then x else nth j l d.
Proof.
  revert i j; induction l as [|a l IH]; intros i j H; simpl in H; [lia|].
  destruct i as [|i], j as [|j]; simpl; auto. apply IH. lia.
Qed.

(* ------------------------------------------------------------------ interleave: functional spec *)
Lemma interleave_length p : List.length (interleave p) = List.length p.
Proof. unfold interleave. now rewrite map_length, seq_length. Qed.

Lemma nth_interleave p j : (j < List.length p)%nat -> nth j (interleave p) 0 = il_at p j.
Proof.
  intros H. unfold interleave.
  rewrite (nth_indep _ 0 (il_at p 0)) by (now rewrite map_length, seq_length).
  rewrite map_nth. now rewrite seq_nth.
Qed.

(* ------------------------------------------------------------------ the generated loop computes it *)
Section Loop.
Variable orc : oracle.
Variable sel : Z.
Variable p : list Z.
Let n := List.length p.
Hypothesis Hn : Z.of_nat n < 9223372036854775808.

Lemma loop_inv fuel : forall k ind, List.length ind = n -> (fuel = n - k)%nat -> (k <= n)%nat ->
  let R := argsort_post_loop1 orc fuel (Z.of_nat k) sel (Z.of_nat n) ind p in
  List.length R = n /\ forall j, (j < n)%nat -> nth j R 0 = if Nat.ltb j k then nth j ind 0 else il_at p j.
Proof.
  induction fuel as [|fuel IH]; intros k ind Hl Hf Hk; cbn [argsort_post_loop1].
  - split; [exact Hl|]. intros j Hj. assert (k = n) by lia. subst k.
    destruct (Nat.ltb_spec j n); [reflexivity | lia].
  - assert (Hkn : (k < n)%nat) by lia.
    destruct (Z.ltb_spec (Z.of_nat k) (Z.of_nat n)) as [_|]; [|lia].
    set (ind' := if Z.rem (Z.of_nat k) 2 =? 0 then _ else _).
    assert (E : ind' = upd ind k (il_at p k)).
    { unfold ind', il_at. clear ind' IH. fold n.
      replace (Z.to_nat (Z.of_nat k mod 18446744073709551616)) with k by lia.
      destruct (Z.eqb_spec (Z.rem (Z.of_nat k) 2) 0) as [e|e];
      destruct (Nat.eqb_spec (k mod 2) 0) as [e'|e']; try lia; f_equal; f_equal; lia. }
    rewrite E. replace (Z.of_nat k + 1) with (Z.of_nat (S k)) by lia.
    destruct (IH (S k) (upd ind k (il_at p k))) as [L N]; try lia.
    { now rewrite upd_length. }
    split; [exact L|]. intros j Hj. rewrite (N j Hj).
    destruct (Nat.ltb_spec j (S k)); destruct (Nat.ltb_spec j k); try lia; try reflexivity.
    all: rewrite nth_upd by lia; destruct (Nat.eqb_spec j k); try lia; try reflexivity; subst; reflexivity.
Qed.

Lemma post_other : sel <> BothEnds -> argsort_post orc sel (Z.of_nat n) p = Ok p.
Proof. intros H. unfold argsort_post. destruct (Z.eqb_spec sel 8); [contradiction|reflexivity]. Qed.
End Loop.

Lemma post_bothends orc p : Z.of_nat (List.length p) < 9223372036854775808 ->
  argsort_post orc BothEnds (Z.of_nat (List.length p)) p = Ok (interleave p).
Proof.
  intros Hn. unfold argsort_post, BothEnds. cbn [Z.eqb Pos.eqb]. f_equal.
  replace (Z.to_nat (Z.of_nat (List.length p) - 0)) with (List.length p) by lia.
  destruct (loop_inv orc 8 p Hn (List.length p) 0%nat p eq_refl) as [L N]; try lia.
  change (Z.of_nat 0) with 0 in *.
  apply nth_ext with 0 0; [rewrite interleave_length; exact L|].
  intros j Hj. rewrite L in Hj. rewrite (N j Hj). cbn [Nat.ltb Nat.leb].
  now rewrite nth_interleave.
Qed.

(* ------------------------------------------------------------------ prefix property *)
Lemma firstn_S_nth {A} (l : list A) k d : (k < List.length l)%nat ->
  firstn (S k) l = firstn k l ++ [nth k l d].
Proof.
  revert k; induction l as [|a l IH]; intros k H; simpl in H; [lia|].
  destruct k; simpl; [reflexivity|]. f_equal. apply IH. lia.
Qed.

Lemma skipn_nth_cons {A} (l : list A) k d : (k < List.length l)%nat ->
  skipn k l = nth k l d :: skipn (S k) l.
Proof.
  revert k; induction l as [|a l IH]; intros k H; simpl in H; [lia|].
  destruct k; simpl; [reflexivity|]. apply IH. lia.
Qed.

Theorem interleave_prefix p k : (k <= List.length p)%nat ->
  Permutation (firstn k (interleave p))
              (firstn ((k + 1) / 2) p ++ skipn (List.length p - k / 2) p).
Proof.
  set (n := List.length p). induction k as [|k IH]; intros Hk.
  - simpl. replace (n - 0)%nat with n by lia. unfold n. rewrite skipn_all. constructor.
  - assert (Hk' : (k < n)%nat) by lia.
    rewrite (firstn_S_nth _ k 0) by (now rewrite interleave_length).
    rewrite nth_interleave by exact Hk'. unfold il_at. fold n.
    specialize (IH ltac:(lia)).
    destruct (Nat.eqb_spec (k mod 2) 0) as [e|e].
    + (* k even: one more from the front *)
      replace ((S k + 1) / 2)%nat with (S ((k + 1) / 2)) by lia.
      replace (S k / 2)%nat with (k / 2)%nat by lia.
      replace ((k + 1) / 2)%nat with (k / 2)%nat in * by lia.
      rewrite (firstn_S_nth p (k / 2) 0) by (fold n; lia).
      rewrite <- app_assoc. simpl.
      eapply Permutation_trans; [apply Permutation_app_tail; exact IH|].
      rewrite <- app_assoc. apply Permutation_app_head.
      apply Permutation_sym, Permutation_cons_append.
    + (* k odd: one more from the back *)
      replace ((S k + 1) / 2)%nat with ((k + 1) / 2)%nat by lia.
      replace (n - S k / 2)%nat with (n - 1 - k / 2)%nat by lia.
      rewrite (skipn_nth_cons p (n - 1 - k / 2) 0) by (fold n; lia).
      replace (S (n - 1 - k / 2)) with (n - k / 2)%nat by lia.
      eapply Permutation_trans; [apply Permutation_app_tail; exact IH|].
      rewrite <- app_assoc. apply Permutation_app_head.
      apply Permutation_sym. apply Permutation_cons_append.
Qed.

Theorem interleave_perm p : Permutation (interleave p) p.
Proof.
  pose proof (interleave_prefix p (List.length p) (le_n _)) as H.
  rewrite <- (interleave_length p) in H at 1. rewrite firstn_all in H.
  replace (List.length p - List.length p / 2)%nat with ((List.length p + 1) / 2)%nat in H by lia.
  now rewrite firstn_skipn in H.
Qed.

(* ------------------------------------------------------------------ the sort contract, reflected *)
Lemma list_eqb_eq a b : list_eqb a b = true -> a = b.
Proof.
  revert b; induction a as [|x a IH]; intros [|y b] H; simpl in H; try discriminate; auto.
  apply andb_prop in H. destruct H as [H1 H2]. apply Z.eqb_eq in H1. subst. f_equal. auto.
Qed.

Lemma insert_perm x l : Permutation (insert x l) (x :: l).
Proof.
  induction l as [|y l IH]; simpl; auto. destruct (x <=? y); auto.
  eapply Permutation_trans; [apply perm_skip; exact IH|]. apply perm_swap.
Qed.

Lemma isort_perm l : Permutation (isort l) l.
Proof.
  induction l as [|x l IH]; simpl; auto.
  eapply Permutation_trans; [apply insert_perm|]. now apply perm_skip.
Qed.

Lemma is_perm_iota_ok p : is_perm_iota p = true -> Permutation p (iota (List.length p)).
Proof.
  unfold is_perm_iota. intros H. apply list_eqb_eq in H. rewrite <- H.
  apply Permutation_sym, isort_perm.
Qed.

Definition adjacent_ok (keys p : list Z) : Prop :=
  forall i, (S i < List.length p)%nat ->
    ~ (nth (Z.to_nat (nth (S i) p 0)) keys 0 < nth (Z.to_nat (nth i p 0)) keys 0).

Lemma adj_ok_spec keys p : adj_ok keys p = true -> adjacent_ok keys p.
Proof.
  induction p as [|a [|b r] IH]; intros H i Hi; simpl in Hi; try lia.
  cbn [adj_ok] in H. apply andb_prop in H. destruct H as [H1 H2].
  destruct i as [|i].
  - cbn [nth]. apply negb_true_iff, Z.ltb_ge in H1. lia.
  - change (nth (S (S i)) (a :: b :: r) 0) with (nth (S i) (b :: r) 0).
    change (nth (S i) (a :: b :: r) 0) with (nth i (b :: r) 0).
    apply IH; [exact H2|]. simpl. lia.
Qed.

Definition contract (keys p : list Z) : Prop :=
  List.length p = List.length keys /\ Permutation p (iota (List.length keys)) /\ adjacent_ok keys p.

Lemma sort_contract_ok keys p : sort_contract keys p = true -> contract keys p.
Proof.
  unfold sort_contract. intros H. apply andb_prop in H. destruct H as [H H3].
  apply andb_prop in H. destruct H as [H1 H2]. apply Nat.eqb_eq in H1.
  split; [exact H1|]. split; [rewrite <- H1; now apply is_perm_iota_ok | now apply adj_ok_spec].
Qed.

(* ------------------------------------------------------------------ the model: every result the contract allows *)
Section Model.
Variable keys : list Z.
Let n := List.length keys.
Hypothesis Hn : Z.of_nat n < 9223372036854775808.
Variable p : list Z.
Hypothesis Hp : contract keys p.

Lemma p_len : List.length p = n. Proof. exact (proj1 Hp). Qed.

Theorem argsort_perm sel : exists out, argsort_post no_orc sel (Z.of_nat n) p = Ok out /\
  Permutation out (iota n).
Proof.
  destruct Hp as [L [P _]]. fold n in L, P.
  destruct (Z.eq_dec sel BothEnds) as [->|ne].
  - exists (interleave p). split.
    + rewrite <- L. apply post_bothends. rewrite L. exact Hn.
    + eapply Permutation_trans; [apply interleave_perm|exact P].
  - exists p. split; [rewrite <- L; now apply post_other | exact P].
Qed.

Theorem argsort_ordered sel : sel <> BothEnds ->
  argsort_post no_orc sel (Z.of_nat n) p = Ok p /\ adjacent_ok keys p.
Proof.
  intros ne. split; [rewrite <- p_len; now apply post_other | exact (proj2 (proj2 Hp))].
Qed.

Theorem bothends_prefix k : (k <= n)%nat ->
  exists out, argsort_post no_orc BothEnds (Z.of_nat n) p = Ok out /\
  Permutation (firstn k out) (firstn ((k + 1) / 2) p ++ skipn (n - k / 2) p).
Proof.
  intros Hk. exists (interleave p). split.
  - rewrite <- p_len. apply post_bothends. rewrite p_len. exact Hn.
  - rewrite <- p_len. apply interleave_prefix. rewrite p_len. exact Hk.
Qed.
End Model.

(* sortedness of p (ascending in key, i.e. for key = -x: descending in x) makes the
   first ceil(k/2) of p the largest and the last floor(k/2) the smallest *)
Lemma adjacent_chain keys p : adjacent_ok keys p -> forall i j, (i <= j)%nat -> (j < List.length p)%nat ->
  nth (Z.to_nat (nth i p 0)) keys 0 <= nth (Z.to_nat (nth j p 0)) keys 0.
Proof.
  intros H i j Hij Hj. induction j as [|j IH].
  - assert (i = 0)%nat by lia. subst. lia.
  - destruct (Nat.eq_dec i (S j)) as [->|ne]; [lia|].
    specialize (IH ltac:(lia) ltac:(lia)). specialize (H j Hj). lia.
Qed.

(* ------------------------------------------------------------------ checker soundness *)
Theorem valid_argsort_sound sel vals out :
  valid_argsort sel vals (Indices out) = true ->
  exists keys p, documented_real sel <> KThrow /\ keys_of (documented_real sel) vals = Some keys /\
    contract keys p /\ out = (if sel =? 8 then interleave p else p).
Proof.
  unfold valid_argsort. intros H. apply andb_prop in H. destruct H as [H0 H].
  destruct (keys_of (documented_real sel) vals) as [keys|] eqn:K; [|discriminate].
  assert (NT : documented_real sel <> KThrow) by (destruct (documented_real sel); simpl in H0; congruence).
  destruct (Z.eqb_spec sel 8) as [->|ne].
  - apply andb_prop in H. destruct H as [H1 H2]. apply list_eqb_eq in H2.
    exists keys, (deinterleave out). repeat split; auto; try (apply sort_contract_ok in H1; apply H1).
  - exists keys, out. repeat split; auto; apply sort_contract_ok in H; apply H.
Qed.

Lemma keys_of_length k vals keys : keys_of k vals = Some keys -> List.length keys = List.length vals.
Proof.
  revert keys; induction vals as [|v vals IH]; intros keys H; simpl in H.
  - injection H as <-. reflexivity.
  - destruct (zkey k v); [|discriminate]. destruct (keys_of k vals) eqn:E; [|discriminate].
    injection H as <-. simpl. f_equal. now apply IH.
Qed.

Theorem valid_gen_sort_sound rule vals out :
  valid_gen_sort rule vals (Indices out) = true ->
  exists keys, documented_complex rule <> KThrow /\ keys_of (documented_complex rule) vals = Some keys /\ contract keys out.
Proof.
  unfold valid_gen_sort. intros H. apply andb_prop in H. destruct H as [H0 H].
  destruct (keys_of (documented_complex rule) vals) as [keys|] eqn:K; [|discriminate].
  exists keys. split; [destruct (documented_complex rule); simpl in H0; congruence|].
  split; [reflexivity|]. now apply sort_contract_ok.
Qed.

Theorem valid_throw_sound sel vals e :
  valid_argsort sel vals (Thrown e) = true -> documented_real sel = KThrow /\ e = "invalid_argument"%string.
Proof.
  unfold valid_argsort. intros H. apply andb_prop in H. destruct H as [H1 H2].
  apply String.eqb_eq in H2. split; [destruct (documented_real sel); simpl in H1; congruence | exact H2].
Qed.

(* ------------------------------------------------------------------ dispatch is exactly the documented table *)
Definition dispatched (d : Z -> res Z) (cplx : bool) (rule : Z) : keyexp :=
  match d rule with Ok r => sorting_target cplx r | Throw _ _ => KThrow end.
Definition throws_invalid (d : Z -> res Z) (rule : Z) : bool :=
  match d rule with Ok _ => false | Throw e _ => String.eqb e "invalid_argument" end.

Ltac by_cases rule :=
  repeat match goal with
  | |- context[rule =? ?c] => destruct (Z.eqb_spec rule c); [subst rule; vm_compute; try reflexivity; try tauto|]
  end; try (vm_compute; reflexivity); try tauto.

Theorem dispatch_exact_argsort rule :
  dispatched argsort_dispatch false rule = documented_real rule /\
  (documented_real rule = KThrow <-> throws_invalid argsort_dispatch rule = true).
Proof.
  unfold dispatched, throws_invalid, argsort_dispatch, documented_real.
  by_cases rule; cbn [orb]; split; try reflexivity; split; intros; try reflexivity; try discriminate.
Qed.

Theorem dispatch_exact_gen_select rule :
  dispatched gen_select_dispatch true rule = documented_complex rule /\
  (documented_complex rule = KThrow <-> throws_invalid gen_select_dispatch rule = true).
Proof.
  unfold dispatched, throws_invalid, gen_select_dispatch, documented_complex.
  by_cases rule; split; try reflexivity; split; intros; try reflexivity; try discriminate.
Qed.

Theorem dispatch_exact_gen_sort rule :
  dispatched gen_sort_dispatch true rule = documented_complex rule /\
  (documented_complex rule = KThrow <-> throws_invalid gen_sort_dispatch rule = true).
Proof.
  unfold dispatched, throws_invalid, gen_sort_dispatch, documented_complex.
  by_cases rule; split; try reflexivity; split; intros; try reflexivity; try discriminate.
Qed.

(* the symmetric solvers accept exactly Magn/Alge for sorting, reject the rest with invalid_argument *)
Theorem herm_sort_check_exact rule :
  (herm_sort_check rule = Ok tt <-> (rule = 0 \/ rule = 3 \/ rule = 4 \/ rule = 7)) /\
  (herm_sort_check rule <> Ok tt -> throws (herm_sort_check rule) "invalid_argument" = true).
Proof.
  unfold herm_sort_check.
  destruct (Z.eqb_spec rule 3), (Z.eqb_spec rule 0), (Z.eqb_spec rule 7), (Z.eqb_spec rule 4);
    cbn [negb andb]; split; try (split; intros; try reflexivity; try lia; try discriminate);
    intros; try contradiction; try reflexivity.
  all: try (exfalso; apply H; reflexivity).
Qed.

(* direction of each key on (Gaussian) integers: "key a < key b" is the documented order *)
Definition key_lt (k : keyexp) (a b : zval) : bool :=
  match zkey k a, zkey k b with Some x, Some y => x <? y | _, _ => false end.

Theorem key_direction_real (x y : Z) :
  (key_lt (KNeg (KAbs KVal)) (ZR x) (ZR y) = true <-> Z.abs x > Z.abs y) /\
  (key_lt (KNeg KVal) (ZR x) (ZR y) = true <-> x > y) /\
  (key_lt (KAbs KVal) (ZR x) (ZR y) = true <-> Z.abs x < Z.abs y) /\
  (key_lt KVal (ZR x) (ZR y) = true <-> x < y).
Proof. unfold key_lt; cbn. repeat split; intros H; lia. Qed.

Theorem key_direction_complex (a b c d : Z) :
  (key_lt (KNeg (KAbs KVal)) (ZC a b) (ZC c d) = true <-> a * a + b * b > c * c + d * d) /\
  (key_lt (KAbs KVal) (ZC a b) (ZC c d) = true <-> a * a + b * b < c * c + d * d) /\
  (key_lt (KNeg KRe) (ZC a b) (ZC c d) = true <-> a > c) /\
  (key_lt KRe (ZC a b) (ZC c d) = true <-> a < c) /\
  (key_lt (KNeg (KAbs KIm)) (ZC a b) (ZC c d) = true <-> Z.abs b > Z.abs d) /\
  (key_lt (KAbs KIm) (ZC a b) (ZC c d) = true <-> Z.abs b < Z.abs d).
Proof. unfold key_lt; cbn. repeat split; intros H; lia. Qed.
