(* C16: the lazily filled eigenvector cache of PartialSVDSolver as a state machine, and the tall/wide dispatch. *)
Require Import ZArith Lia List Bool.
From SV Require Import Cxx SvdGen.
Import ListNotations.

(* operations on one solver object; the generation counter counts compute() calls *)
Inductive svd_op := Compute | GetU | GetV.
Record svd_st := { gen : nat; cache : option nat }.     (* cache = Some g: m_evecs holds the eigenvectors of compute() number g *)

(* one step; the output of an accessor is the generation whose vectors it hands back.
   `resets` is the generated fact: does compute() empty the cache? *)
Definition svd_step (resets : bool) (s : svd_st) (op : svd_op) : svd_st * option nat :=
  match op with
  | Compute => ({| gen := S (gen s); cache := if resets then None else cache s |}, None)
  | GetU | GetV =>
      let g := match cache s with Some g => g | None => gen s end in
      ({| gen := gen s; cache := Some g |}, Some g)
  end.

Fixpoint svd_run (resets : bool) (s : svd_st) (ops : list svd_op) : svd_st * list (nat * option nat) :=
  match ops with
  | [] => (s, [])
  | op :: r => let '(s1, o) := svd_step resets s op in
               let '(s2, outs) := svd_run resets s1 r in (s2, (gen s1, o) :: outs)
  end.

Definition fresh_cache (s : svd_st) : Prop := cache s = None \/ cache s = Some (gen s).

Lemma step_fresh s op : fresh_cache s -> fresh_cache (fst (svd_step true s op)).
Proof.
  unfold fresh_cache; destruct op; simpl; auto.
  all: intros [H|H]; rewrite H; simpl; auto.
Qed.

Lemma step_out s op g : fresh_cache s -> snd (svd_step true s op) = Some g -> g = gen (fst (svd_step true s op)).
Proof.
  unfold fresh_cache; destruct op; simpl; try discriminate.
  all: intros [H|H]; rewrite H; simpl; intros E; inversion E; auto.
Qed.

(* with the reset in compute(): along EVERY sequence of compute()/matrix_U()/matrix_V() calls, every accessor hands back the
   vectors of the most recent compute() *)
Theorem svd_accessors_current : forall ops s, fresh_cache s ->
  Forall (fun p : nat * option nat => match snd p with Some g => g = fst p | None => True end) (snd (svd_run true s ops)).
Proof.
  induction ops as [|op r IH]; intros s Hs; simpl; [constructor|].
  destruct (svd_step true s op) as [s1 o] eqn:E.
  pose proof (step_fresh s op Hs) as H1. pose proof (step_out s op) as H2. rewrite E in H1, H2. simpl in H1, H2.
  specialize (IH s1 H1). destruct (svd_run true s1 r) as [s2 outs]. simpl in *.
  constructor; [|exact IH]. simpl. destruct o as [g|]; auto.
Qed.

(* without it the property fails: compute; matrix_U; compute; matrix_U hands back generation 1 after compute() number 2 *)
Theorem svd_stale_without_reset :
  snd (svd_run false {| gen := 0; cache := None |} [Compute; GetU; Compute; GetU]) = [(1, None); (1, Some 1); (2, None); (2, Some 1)]%nat.
Proof. reflexivity. Qed.

(* the dispatch is consistent: the operator acts on the right-singular side exactly when V is the cached eigenvector matrix,
   and exactly one of U, V is the cached matrix *)
Theorem svd_dispatch_consistent : forall m n : Z,
  svd_V_is_evecs m n = svd_is_tall m n /\ svd_U_is_evecs m n = negb (svd_is_tall m n).
Proof. intros m n; unfold svd_V_is_evecs, svd_U_is_evecs, svd_is_tall; split; [reflexivity|]. destruct (Z.gtb_spec m n), (Z.leb_spec m n); simpl; auto; lia. Qed.

Theorem svd_ncols_spec : forall k nconv : Z, (0 <= k)%Z -> (0 <= nconv)%Z ->
  (svd_ncols k nconv = Z.min k nconv /\ 0 <= svd_ncols k nconv <= nconv)%Z.
Proof. intros; unfold svd_ncols; lia. Qed.
