(* C09: Eigen's Givens rotation in exact arithmetic, and the value conventions of
   UpperHessenbergEigen (structure for every scalar instance, signs and conjugates in exact arithmetic). *)
From SV Require Import Ops LinAlg TridiagEig.
From mathcomp Require Import all_ssreflect all_algebra.
From mathcomp Require Import ring zify.
From SV Require Import OpsF.
Set Implicit Arguments. Unset Strict Implicit. Unset Printing Implicit Defensive.
Import Order.Theory GRing.Theory Num.Theory.
Local Open Scope ring_scope.

(* ------------------------------------------------------------ makeGivens *)
Section Giv.
Variable F : rcfType.
Notation O := (OpsF F).

Lemma sqrt1p_gt0 (t : F) : 0 < Num.sqrt (1 + t * t).
Proof. by rewrite sqrtr_gt0 (@lt_le_trans _ _ 1) // ler_addl -expr2 sqr_ge0. Qed.
Lemma one_p_sq_neq0 (t : F) : 1 + t * t != 0.
Proof. by apply: lt0r_neq0; rewrite (@lt_le_trans _ _ 1) // ler_addl -expr2 sqr_ge0. Qed.
Lemma sqrt1p_sq (t : F) : Num.sqrt (1 + t * t) * Num.sqrt (1 + t * t) = 1 + t * t.
Proof. by rewrite -expr2 sqr_sqrtr // (@le_trans _ _ 1) // ler_addl -expr2 sqr_ge0. Qed.

(* J = [c s; -s c] with J^T (p, q)^T = (r, 0)^T:  c^2 + s^2 = 1,  s p + c q = 0,  (c p - s q)^2 = p^2 + q^2 *)
Theorem make_givens_spec (p q : F) :
  let '(c, s) := make_givens O p q in
  [/\ c ^+ 2 + s ^+ 2 = 1, s * p + c * q = 0 & (c * p - s * q) ^+ 2 = p ^+ 2 + q ^+ 2].
Proof.
rewrite /make_givens /=.
case: (eqVneq q 0) => [->|qn].
  by case: ifP => _; split; rewrite ?mulr0 ?mul0r ?addr0 ?subr0 ?expr0n ?addr0 ?sqrrN ?expr1n ?mul1r ?mulN1r ?sqrrN.
case: (eqVneq p 0) => [->|pn].
  by case: ifP => _; split; rewrite ?mulr0 ?mul0r ?add0r ?sub0r ?expr0n ?add0r ?sqrrN ?expr1n ?mul1r ?mulN1r ?opprK ?sqrrN.
case: ifP => _.
- set t := q / p. have := sqrt1p_gt0 t; have := sqrt1p_sq t. set d := Num.sqrt _ => dd d0.
  have dn : d != 0 by rewrite gt_eqF.
  have qt : q = t * p by rewrite /t mulfVK.
  case: ifP => _; rewrite qt; split.
  + rewrite !expr2. have -> : 1 / - d * (1 / - d) + - t * (1 / - d) * (- t * (1 / - d)) = (1 + t * t) / (d * d) by field.
    by rewrite dd divff // one_p_sq_neq0.
  + by field.
  + rewrite !expr2. have -> : (1 / - d * p - - t * (1 / - d) * (t * p)) * (1 / - d * p - - t * (1 / - d) * (t * p)) = p * p * ((1 + t * t) * (1 + t * t)) / (d * d) by field.
    rewrite dd; field; exact: one_p_sq_neq0.
  + rewrite !expr2. have -> : 1 / d * (1 / d) + - t * (1 / d) * (- t * (1 / d)) = (1 + t * t) / (d * d) by field.
    by rewrite dd divff // one_p_sq_neq0.
  + by field.
  + rewrite !expr2. have -> : (1 / d * p - - t * (1 / d) * (t * p)) * (1 / d * p - - t * (1 / d) * (t * p)) = p * p * ((1 + t * t) * (1 + t * t)) / (d * d) by field.
    rewrite dd; field; exact: one_p_sq_neq0.
- set t := p / q. have := sqrt1p_gt0 t; have := sqrt1p_sq t. set d := Num.sqrt _ => dd d0.
  have dn : d != 0 by rewrite gt_eqF.
  have pt : p = t * q by rewrite /t mulfVK.
  case: ifP => _; rewrite pt; split.
  + rewrite !expr2. have -> : - t * (-1 / - d) * (- t * (-1 / - d)) + -1 / - d * (-1 / - d) = (1 + t * t) / (d * d) by field.
    by rewrite dd divff // one_p_sq_neq0.
  + by field.
  + rewrite !expr2. have -> : (- t * (-1 / - d) * (t * q) - -1 / - d * q) * (- t * (-1 / - d) * (t * q) - -1 / - d * q) = q * q * ((1 + t * t) * (1 + t * t)) / (d * d) by field.
    rewrite dd; field; exact: one_p_sq_neq0.
  + rewrite !expr2. have -> : - t * (-1 / d) * (- t * (-1 / d)) + -1 / d * (-1 / d) = (1 + t * t) / (d * d) by field.
    by rewrite dd divff // one_p_sq_neq0.
  + by field.
  + rewrite !expr2. have -> : (- t * (-1 / d) * (t * q) - -1 / d * q) * (- t * (-1 / d) * (t * q) - -1 / d * q) = q * q * ((1 + t * t) * (1 + t * t)) / (d * d) by field.
    rewrite dd; field; exact: one_p_sq_neq0.
Qed.
End Giv.

(* ------------------------------------------------------------ one chase step is an orthogonal similarity *)
Section Sim.
Variable F : rcfType.
Notation O := (OpsF F).
(* the 4x4 window of the symmetric matrix around the planes (k, k+1): rows/columns k-1, k, k+1, k+2, with the bulge z at
   (k-1, k+1); as a quadratic form *)
Definition qform (a x z dk sk dk1 e0 e f : F) (v0 v1 v2 v3 : F) : F :=
  a * v0 ^+ 2 + 2%:R * x * v0 * v1 + 2%:R * z * v0 * v2 + dk * v1 ^+ 2 + 2%:R * sk * v1 * v2 + dk1 * v2 ^+ 2
  + 2%:R * e0 * v1 * v3 + 2%:R * e * v2 * v3 + f * v3 ^+ 2.

(* what one iteration of the chase writes (new diag[k], diag[k+1], subdiag[k], subdiag[k-1], the new bulge -s e and subdiag[k+1] = c e)
   are exactly the entries of G^T T G for the plane rotation G = [c s; -s c] that the eigenvector matrix is multiplied by,
   and the entry (k-1, k+1) of G^T T G is s x + c z - which make_givens makes zero (make_givens_spec) *)
Theorem chase_step_similarity (c s a x z dk sk dk1 e f : F) (u0 u1 u2 u3 : F) :
  let '(ndk, ndk1, nsk) := rot_update O c s dk dk1 sk in
  qform a (c * x - s * z) (s * x + c * z) ndk nsk ndk1 (- s * e) (c * e) f u0 u1 u2 u3 =
  qform a x z dk sk dk1 0 e f u0 (c * u1 + s * u2) (- s * u1 + c * u2) u3.
Proof. by rewrite /rot_update /qform /=; ring. Qed.
End Sim.

(* ------------------------------------------------------------ value conventions *)
Section Conv.
Variable o : Ops.
(* the shape of the list of (real part, imaginary part): real entries carry the literal zero, complex ones come as (a, z), (a, -z) *)
Inductive conv_list : list (T o * T o) -> Prop :=
| cl_nil : conv_list nil
| cl_real x l : conv_list l -> conv_list ((x, zero o) :: l)
| cl_pair a z l : conv_list l -> conv_list ((a, z) :: (a, neg o z) :: l).

Theorem he_values_conv fuel n i Tm : conv_list (he_values o fuel n i Tm).
Proof.
elim: fuel i => [|fuel IH] i /=; first exact: cl_nil.
case: (PeanoNat.Nat.ltb i n); last exact: cl_nil.
case: (_ || _); first exact: cl_real.
exact: cl_pair.
Qed.

Theorem he_values_length fuel n i Tm : (i <= n)%N -> (n - i <= fuel)%N -> List.length (he_values o fuel n i Tm) = (n - i)%N.
Proof.
elim: fuel i => [|fuel IH] i lein /=; first by rewrite leqn0 => /eqP->.
move=> hf; rewrite ltbE; case: ltnP => h; last by (have -> : (n - i = 0)%N by lia).
rewrite eqbE; case: eqP => [e|ne] /=.
  rewrite IH; lia.
case: (Ops.eqb o _ _) => /=.
  rewrite IH; lia.
rewrite IH; lia.
Qed.
End Conv.

Section ConvF.
Variable F : rcfType.
Notation O := (OpsF F).
(* in exact arithmetic: the first member of a pair has the non-negative imaginary part, and the scaling back by a positive
   scale keeps real values real and pairs exactly conjugate *)
Inductive conv_listF : list (F * F) -> Prop :=
| clF_nil : conv_listF nil
| clF_real x l : conv_listF l -> conv_listF ((x, 0) :: l)
| clF_pair a z l : 0 <= z -> conv_listF l -> conv_listF ((a, z) :: (a, - z) :: l).

Lemma he_values_convF fuel n i Tm : conv_listF (he_values O fuel n i Tm).
Proof.
elim: fuel i => [|fuel IH] i /=; first exact: clF_nil.
case: (PeanoNat.Nat.ltb i n); last exact: clF_nil.
case: (_ || _); first exact: clF_real.
apply: clF_pair => //.
apply: mulr_ge0; last exact: sqrtr_ge0.
by rewrite /max_ /=; do !case: ifP => _.
Qed.

Theorem he_eigenvalues_conv n Tm (scale : F) : 0 <= scale -> conv_listF (he_eigenvalues O n Tm scale).
Proof.
move=> s0; rewrite /he_eigenvalues.
elim: (he_values_convF n n 0 Tm) => [|x l _ IH|a z l z0 _ IH] /=; first exact: clF_nil.
- by rewrite !mulr0 mul0r subr0 addr0; exact: clF_real.
- rewrite !mulr0 subr0 !add0r mulNr; apply: clF_pair => //; exact: mulr_ge0.
Qed.
End ConvF.

(* ------------------------------------------------------------ TridiagEigen: success means every sub-diagonal entry is exactly zero *)
Section Loop.
Variable o : Ops.
Variables (near_0 cz pinv : T o).
Notation vnth := (vnth o). Notation vset := (vset o).

Lemma vset_size (v : list (T o)) i x : size (vset v i x) = size v.
Proof. by elim: v i => [|a v IH] [|i] //=; rewrite IH. Qed.
Lemma vnth_vset_ne (v : list (T o)) i j x : i != j -> vnth (vset v j x) i = vnth v i.
Proof. rewrite /LinAlg.vnth; elim: v i j => [|a v IH] [|i] [|j] //= ne; exact: IH. Qed.

Definition zero_from (e : nat) (sd : list (T o)) : Prop :=
  forall i, (e <= i < size sd)%N -> Ops.eqb o (vnth sd i) (zero o) = true.

Lemma chase_keeps fuel start e k x z d sd Q : (k <= e)%N ->
  let '(_, sd', _) := chase o fuel start e k x z d sd Q in
  size sd' = size sd /\ forall i, (e <= i)%N -> vnth sd' i = vnth sd i.
Proof.
elim: fuel k x z d sd Q => [|fuel IH] k x z d sd Q ke /=; first by [].
rewrite ltbE; case: (ltnP k e) => [lt|_] /=; last by [].
case: (nz o z) => /=; last by [].
case: (make_givens o x z) => c s.
set sd1 := vset sd k _.
set sd2 := if _ then _ else sd1.
have s2 : size sd2 = size sd /\ forall i, (e <= i)%N -> vnth sd2 i = vnth sd i.
  rewrite /sd2 ltbE; case: ifP => h; rewrite ?vset_size /sd1 ?vset_size; split=> // i ei.
  - rewrite !vnth_vset_ne //; apply/eqP; lia.
  - rewrite !vnth_vset_ne //; apply/eqP; lia.
rewrite ltbE; case: ifP => h.
- have := IH (k + 1)%coq_nat (vnth sd2 k) (Ops.mul o (neg o s) (vnth sd2 (k + 1)%coq_nat)) 
    (LinAlg.vset o (LinAlg.vset o d k (Ops.sub o (Ops.mul o c (Ops.sub o (Ops.mul o c (LinAlg.vnth o d k)) (Ops.mul o s (LinAlg.vnth o sd k)))) (Ops.mul o s (Ops.sub o (Ops.mul o c (LinAlg.vnth o sd k)) (Ops.mul o s (LinAlg.vnth o d (k + 1)%coq_nat)))))) (k + 1)%coq_nat
       (Ops.add o (Ops.mul o s (Ops.add o (Ops.mul o s (LinAlg.vnth o d k)) (Ops.mul o c (LinAlg.vnth o sd k)))) (Ops.mul o c (Ops.add o (Ops.mul o s (LinAlg.vnth o sd k)) (Ops.mul o c (LinAlg.vnth o d (k + 1)%coq_nat))))))
    (vset sd2 (k + 1)%coq_nat (Ops.mul o c (vnth sd2 (k + 1)%coq_nat))) (rot_cols o Q k c s).
  case: (chase _ _ _ _ _ _ _ _ _ _) => [[d' sd'] Q'] H.
  have ke1 : (k + 1 <= e)%N by rewrite addn1.
  have [a b] := H ke1; rewrite a vset_size; split; first by case: s2.
  move=> i ei; rewrite b // vnth_vset_ne; first by case: s2 => _; apply.
  apply/eqP; move: h; rewrite -/(addn k 1) => h. lia.
- have := IH (k + 1)%coq_nat (vnth sd2 k) z
    (LinAlg.vset o (LinAlg.vset o d k (Ops.sub o (Ops.mul o c (Ops.sub o (Ops.mul o c (LinAlg.vnth o d k)) (Ops.mul o s (LinAlg.vnth o sd k)))) (Ops.mul o s (Ops.sub o (Ops.mul o c (LinAlg.vnth o sd k)) (Ops.mul o s (LinAlg.vnth o d (k + 1)%coq_nat)))))) (k + 1)%coq_nat
       (Ops.add o (Ops.mul o s (Ops.add o (Ops.mul o s (LinAlg.vnth o d k)) (Ops.mul o c (LinAlg.vnth o sd k)))) (Ops.mul o c (Ops.add o (Ops.mul o s (LinAlg.vnth o sd k)) (Ops.mul o c (LinAlg.vnth o d (k + 1)%coq_nat))))))
    sd2 (rot_cols o Q k c s).
  case: (chase _ _ _ _ _ _ _ _ _ _) => [[d' sd'] Q'] H.
  have ke1 : (k + 1 <= e)%N by rewrite addn1.
  have [a b] := H ke1; rewrite a; split; first by case: s2.
  by move=> i ei; rewrite b //; case: s2 => _; apply.
Qed.

Lemma deflate_keeps start e d sd :
  let sd' := deflate o cz pinv start e d sd in
  size sd' = size sd /\ forall i, (e <= i)%N -> vnth sd' i = vnth sd i.
Proof.
rewrite /deflate.
have : forall j, List.In j (List.seq start (e - start)) -> (j < e)%N.
  by move=> j /List.in_seq h; apply/ssrnat.ltP; lia.
elim: (List.seq _ _) sd => [|j l IH] sd hin /=; first by [].
have je : (j < e)%N by apply: hin; left.
set sd1 := if _ then _ else _.
have [a b] : size sd1 = size sd /\ forall i, (e <= i)%N -> vnth sd1 i = vnth sd i.
  rewrite /sd1; case: ifP => _; first by rewrite vset_size; split=> // i ei; rewrite vnth_vset_ne //; apply/eqP; lia.
  case: ifP => _ //; rewrite vset_size; split=> // i ei; rewrite vnth_vset_ne //; apply/eqP; lia.
have [|a' b'] := IH sd1; first by move=> k hk; apply: hin; right.
by rewrite a' a; split=> // i ei; rewrite b' // b.
Qed.

Lemma find_end_zero fuel e sd : zero_from e sd -> (e <= fuel)%N ->
  let e' := find_end o fuel e sd in zero_from e' sd /\ (e' <= e)%N /\ (e' = 0%N \/ Ops.eqb o (vnth sd (e' - 1)) (zero o) = false).
Proof.
elim: fuel e => [|fuel IH] e zf /=; first by rewrite leqn0 => /eqP e0; rewrite e0 in zf *; split=> //; split=> //; left.
move=> ef; rewrite ltbE; case: (posnP e) => [e0|e0] /=; first by rewrite e0 in zf *; split=> //; split=> //; left.
case E: (Ops.eqb o _ _); last by split=> //; split=> //; right; rewrite -/(subn e 1) in E *.
have zf' : zero_from (e - 1)%coq_nat sd.
  move=> i /andP[h1 h2]; case: (eqVneq i (e - 1)%coq_nat) => [->|ne] //.
  apply: zf; rewrite h2 andbT. move: h1 ne; rewrite -/(subn e 1) => h1 /eqP ne. lia.
have [|a [b c]] := IH (e - 1)%coq_nat zf'; first by rewrite -/(subn e 1); lia.
split=> //; split=> //. apply: leq_trans b _. rewrite -/(subn e 1). lia.
Qed.

Lemma find_start_le fuel s0 sd : (find_start o fuel s0 sd <= s0)%N.
Proof.
elim: fuel s0 => [|m IHm] s0 //=.
case: (_ && _) => //; apply: leq_trans (IHm _) _; rewrite -/(subn s0 1); lia.
Qed.

Theorem te_loop_zero fuel n start e iter d sd Q d' sd' Q' : (e <= n)%N -> zero_from e sd ->
  te_loop o cz pinv fuel n start e iter d sd Q = Some (d', sd', Q') ->
  size sd' = size sd /\ zero_from 0 sd'.
Proof.
elim: fuel start e iter d sd Q => [|fuel IH] start e iter d sd Q en zf //=.
rewrite ltbE; case: (posnP e) => [e0|epos] /=; first by case=> _ <- _; rewrite -e0.
have [ds dk] := deflate_keeps start e d sd.
set sd1 := deflate _ _ _ _ _ _ _ in ds dk *.
have zf1 : zero_from e sd1 by move=> i /andP[h1 h2]; rewrite dk //; apply: zf; rewrite h1 -ds.
have [zf2 [le2 _]] := find_end_zero zf1 en.
set e2 := find_end _ _ _ _ in zf2 le2 *.
case: (PeanoNat.Nat.leb_spec e2 0) => [h0|hpos].
  by case=> _ <- _; split=> //; have -> : 0%N = e2 by lia.
case: (PeanoNat.Nat.ltb _ _) => //.
rewrite /qr_step.
set x0 := Ops.sub o _ _. set st := find_start _ _ _ _.
have stle : (st <= e2)%N.
  rewrite /st; apply: leq_trans (find_start_le _ _ _) _; rewrite -/(subn e2 1); lia.
have := @chase_keeps n st e2 st x0 (vnth sd1 st) d sd1 Q stle.
case: (chase _ _ _ _ _ _ _ _ _ _) => [[d2 sd2] Q2] [cs ck] H.
have zf3 : zero_from e2 sd2 by move=> i /andP[h1 h2]; rewrite ck //; apply: zf2; rewrite h1 -cs.
have [|a b] := IH st e2 iter.+1 d2 sd2 Q2 _ zf3 H; first exact: leq_trans le2 en.
by rewrite a cs ds.
Qed.
End Loop.
