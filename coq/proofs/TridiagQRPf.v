(* C08: TridiagQR::matrix_QtHQ() = Q' T Q in exact arithmetic, for every n, every symmetric tridiagonal T and every shift,
   under the contract of the rotation kernel (the same hypothesis as for UpperHessenbergQR).
   Part B: the sequence M_0 = T, M_{i+1} = G_i' M_i G_i of full congruences, as matrices nat -> nat -> F, and its structure
   (tridiagonal plus one bulge, with closed forms that tie it to the pivots of the QR factorization);
   Part A: the rotations TridiagQR::compute stores are the ones of that sequence; Part C: the in-place loop of matrix_QtHQ
   walks along it. *)
From SV Require Import Ops LinAlg Givens TridiagQR.
From mathcomp Require Import all_ssreflect all_algebra.
From mathcomp Require Import ring zify.
From SV Require Import OpsF.
Set Implicit Arguments. Unset Strict Implicit. Unset Printing Implicit Defensive.
Import Order.Theory GRing.Theory Num.Theory.
Local Open Scope ring_scope.

Section B.
Variable F : rcfType.
Notation O := (OpsF F).
Variable cut : F.
Hypothesis Hrot3 : forall x y : F, let '(r, c, s) := compute_rotation O cut x y in
  [/\ c * x - s * y = r, s * x + c * y = 0 & c ^+ 2 + s ^+ 2 = 1].
Variables (a b : nat -> F) (sh : F).       (* diagonal, sub-diagonal (b k = T(k+1, k)), shift *)
Implicit Types (M : nat -> nat -> F).

Definition Tfun (r k : nat) : F := if r == k then a r else if r == k.+1 then b k else if k == r.+1 then b r else 0.
Definition rowrot i (c s : F) M (r k : nat) : F :=
  if r == i then c * M i k - s * M i.+1 k else if r == i.+1 then s * M i k + c * M i.+1 k else M r k.
Definition colrot i (c s : F) M (r k : nat) : F :=
  if k == i then c * M r i - s * M r i.+1 else if k == i.+1 then s * M r i + c * M r i.+1 else M r k.
(* G' M G for the plane rotation G = [c s; -s c] in the plane (i, i+1) *)
Definition cong i (c s : F) M := colrot i c s (rowrot i c s M).

(* pivots of the QR factorization of T - sh I: p_i = R_ii before rotation i, u_i = the (i, i+1) entry at that moment *)
Fixpoint prec (i : nat) : F * F :=
  match i with
  | 0%N => (a 0%N - sh, b 0%N)
  | i'.+1 => let '(p, u) := prec i' in let '(r, c, s) := compute_rotation O cut p (b i') in (s * u + c * (a i'.+1 - sh), c * b i'.+1)
  end.
Definition rot3 (i : nat) : F * F * F := compute_rotation O cut (prec i).1 (b i).
Definition cc i := (rot3 i).1.2. Definition ss i := (rot3 i).2. Definition rr i := (rot3 i).1.1.
Definition pp i := (prec i).1. Definition uu i := (prec i).2.

Lemma rot_facts i : [/\ cc i * pp i - ss i * b i = rr i, ss i * pp i + cc i * b i = 0 & cc i ^+ 2 + ss i ^+ 2 = 1].
Proof. by rewrite /cc /ss /rr /rot3 /pp; have := Hrot3 (prec i).1 (b i); case: (compute_rotation _ _ _ _) => [[r c] s]. Qed.
Lemma ppS i : pp i.+1 = ss i * uu i + cc i * (a i.+1 - sh).
Proof. by rewrite /pp /uu /ss /cc /rot3 /=; case: (prec i) => p u /=; case: (compute_rotation _ _ _ _) => [[r c] s]. Qed.
Lemma uuS i : uu i.+1 = cc i * b i.+1.
Proof. by rewrite /uu /cc /rot3 /=; case: (prec i) => p u /=; case: (compute_rotation _ _ _ _) => [[r c] s]. Qed.

Fixpoint Mi (i : nat) : nat -> nat -> F := match i with 0%N => Tfun | i'.+1 => cong i' (cc i') (ss i') (Mi i') end.

(* entries of a congruence *)
Lemma cong_far i c s M r k : r != i -> r != i.+1 -> k != i -> k != i.+1 -> cong i c s M r k = M r k.
Proof. by rewrite /cong /colrot /rowrot => /negbTE -> /negbTE -> /negbTE -> /negbTE ->. Qed.
Lemma cong_row0 i c s M k : k != i -> k != i.+1 -> cong i c s M i k = c * M i k - s * M i.+1 k.
Proof. by rewrite /cong /colrot /rowrot => /negbTE -> /negbTE ->; rewrite eqxx. Qed.
Lemma cong_row1 i c s M k : k != i -> k != i.+1 -> cong i c s M i.+1 k = s * M i k + c * M i.+1 k.
Proof. by rewrite /cong /colrot /rowrot => /negbTE -> /negbTE ->; rewrite eqxx; have -> : (i.+1 == i) = false by lia. Qed.
Lemma cong_col0 i c s M r : r != i -> r != i.+1 -> cong i c s M r i = c * M r i - s * M r i.+1.
Proof. by rewrite /cong /colrot /rowrot eqxx => /negbTE -> /negbTE ->. Qed.
Lemma cong_col1 i c s M r : r != i -> r != i.+1 -> cong i c s M r i.+1 = s * M r i + c * M r i.+1.
Proof. by rewrite /cong /colrot /rowrot eqxx => /negbTE -> /negbTE ->; have -> : (i.+1 == i) = false by lia. Qed.
Lemma cong_00 i c s M : cong i c s M i i = c * (c * M i i - s * M i.+1 i) - s * (c * M i i.+1 - s * M i.+1 i.+1).
Proof. by rewrite /cong /colrot /rowrot !eqxx. Qed.
Lemma cong_10 i c s M : cong i c s M i.+1 i = c * (s * M i i + c * M i.+1 i) - s * (s * M i i.+1 + c * M i.+1 i.+1).
Proof. by rewrite /cong /colrot /rowrot !eqxx; have -> : (i.+1 == i) = false by lia. Qed.
Lemma cong_11 i c s M : cong i c s M i.+1 i.+1 = s * (s * M i i + c * M i.+1 i) + c * (s * M i i.+1 + c * M i.+1 i.+1).
Proof. by rewrite /cong /colrot /rowrot !eqxx; have -> : (i.+1 == i) = false by lia. Qed.
Lemma cong_01 i c s M : cong i c s M i i.+1 = s * (c * M i i - s * M i.+1 i) + c * (c * M i i.+1 - s * M i.+1 i.+1).
Proof. by rewrite /cong /colrot /rowrot !eqxx; have -> : (i.+1 == i) = false by lia. Qed.
Lemma cong_sym i c s M : (forall r k, M r k = M k r) -> forall r k, cong i c s M r k = cong i c s M k r.
Proof.
move=> sy r k.
case: (eqVneq r i) => [er|nr].
  rewrite er; case: (eqVneq k i) => [ek|nk]; first by rewrite ek.
  case: (eqVneq k i.+1) => [ek1|nk1]; first by rewrite ek1 cong_01 cong_10 (sy i.+1 i); ring.
  by rewrite cong_row0 // cong_col0 // (sy k i) (sy k i.+1).
case: (eqVneq r i.+1) => [er1|nr1].
  rewrite er1; case: (eqVneq k i) => [ek|nk]; first by rewrite ek cong_01 cong_10 (sy i.+1 i); ring.
  case: (eqVneq k i.+1) => [ek1|nk1]; first by rewrite ek1.
  by rewrite cong_row1 // cong_col1 // (sy k i) (sy k i.+1).
case: (eqVneq k i) => [ek|nk]; first by rewrite ek cong_row0 // cong_col0 // (sy r i) (sy r i.+1).
case: (eqVneq k i.+1) => [ek1|nk1]; first by rewrite ek1 cong_row1 // cong_col1 // (sy r i) (sy r i.+1).
by rewrite !cong_far.
Qed.

(* the structure of M_i: symmetric, zero below the sub-diagonal except one bulge, with closed forms at the active corner *)
Record S (i : nat) : Prop := {
  S_sym : forall r k, Mi i r k = Mi i k r;
  S_zero : forall r k, (k.+1 < r)%N -> ~~ ((r == k.+2) && (k.+1 == i)) -> Mi i r k = 0;
  S_bv : forall k, k.+1 = i -> Mi i k.+2 k = - ss k * b i;
  S_sub : forall k, (i <= k)%N -> Mi i k.+1 k = if k == i then uu i else b k;
  S_sub1 : forall i', i = i'.+1 -> Mi i i i' = - ss i' * pp i;
  S_diag : forall k, (i < k)%N -> Mi i k k = a k;
  S_diag0 : Mi i i i = if i is i'.+1 then sh + cc i' * pp i else a 0%N }.

Lemma S0 : S 0.
Proof.
split=> //=.
- move=> r k; rewrite /Tfun; case: (eqVneq r k) => [->|nrk] //.
  case: (eqVneq r k.+1) => [e|n1]; last by case: (eqVneq k r.+1).
  by rewrite e; have -> : (k == k.+2) = false by lia.
- by move=> r k h _; rewrite /Tfun; do 3! (case: eqP => [e|_]; first by lia).
- move=> k _; rewrite /Tfun; have -> : (k.+1 == k) = false by lia.
  by rewrite eqxx /uu /=; case: eqP => [->|].
- by move=> k _; rewrite /Tfun eqxx.
Qed.

Lemma S_step i : S i -> S i.+1.
Proof.
move=> [sy zero bv sub sub1 dg dg0]; have [f1 f2 f3] := rot_facts i.
set c := cc i in f1 f2 f3 *; set s := ss i in f1 f2 f3 *.
have su : Mi i i.+1 i = uu i by rewrite sub // eqxx.
have suT : Mi i i i.+1 = uu i by rewrite sy.
have d1 : Mi i i.+1 i.+1 = a i.+1 by rewrite dg.
have s2 : Mi i i.+2 i.+1 = b i.+1 by rewrite sub //; case: eqP => //; lia.
have key : s * (Mi i i i - sh) + c * uu i = (if i is i'.+1 then cc i' else 1) * (s * pp i + c * b i).
  move: dg0 su; case: (i) => [|i'] ->; first by rewrite /pp /uu /= mul1r.
  by rewrite uuS => _; ring.
have key0 : s * (Mi i i i - sh) + c * uu i = 0 by rewrite key f2 mulr0.
split.
- exact: cong_sym.
- move=> r k h nb /=.
  case: (r =P i) => [e|ni].
    rewrite e cong_row0; [|lia|lia].
    by rewrite !zero ?mulr0 ?subrr //; lia.
  case: (r =P i.+1) => [e|ni1].
    rewrite e cong_row1; [|lia|lia].
    case: (k.+1 =P i) => [ek|nk].
      have bvk := bv k ek; rewrite ek in bvk.
      rewrite bvk (sub1 k (esym ek)).
      have -> : s * (- ss k * pp i) + c * (- ss k * b i) = - ss k * (s * pp i + c * b i) by ring.
      by rewrite f2 mulr0.
    by rewrite !zero ?mulr0 ?addr0 //; lia.
  case: (k =P i) => [e|nki].
    rewrite e cong_col0; [|lia|lia].
    by rewrite !zero ?mulr0 ?subrr //; move: nb; rewrite e; lia.
  case: (k =P i.+1) => [e|nki1].
    rewrite e cong_col1; [|lia|lia].
    by rewrite !zero ?mulr0 ?addr0 //; lia.
  rewrite cong_far; [|lia|lia|lia|lia].
  by apply: zero => //; lia.
- move=> k [ek]; rewrite ek /= cong_col0; [|lia|lia].
  by rewrite s2 zero ?mulr0 ?sub0r ?mulNr //; lia.
- move=> k ik /=.
  case: (k =P i.+1) => [->|nk].
    rewrite cong_col1; [|lia|lia].
    by rewrite s2 zero ?mulr0 ?add0r ?uuS //; lia.
  rewrite cong_far; [|lia|lia|lia|lia].
  by rewrite sub; [case: eqP => //; lia | lia].
- move=> i' [<-]; rewrite /= cong_10 su suT d1 ppS -/c -/s.
  have -> : c * (s * Mi i i i + c * uu i) - s * (s * uu i + c * a i.+1) = c * (s * (Mi i i i - sh) + c * uu i) - s * (s * uu i + c * (a i.+1 - sh)) by ring.
  by rewrite key0 mulr0 sub0r mulNr.
- by move=> k ik /=; rewrite cong_far ?dg //; lia.
- rewrite /= cong_11 su suT d1 ppS -/c -/s.
  have -> : s * (s * Mi i i i + c * uu i) + c * (s * uu i + c * a i.+1) = s * (s * (Mi i i i - sh) + c * uu i) + sh * (c ^+ 2 + s ^+ 2) + c * (s * uu i + c * (a i.+1 - sh)) by ring.
  by rewrite key0 mulr0 add0r f3 mulr1.
Qed.

Lemma S_all i : S i. Proof. by elim: i => [|i IH]; [exact: S0 | exact: S_step]. Qed.
End B.

(* ---------------------------------------------------------------- Part A: the rotations stored by TridiagQR::compute *)
Section A.
Variable F : rcfType.
Notation O := (OpsF F).
Variables (cut : F) (n : nat) (diag Tsub : seq F) (sh : F).
Hypothesis sd : size diag = n.
Hypothesis st : size Tsub = (n - 1)%N.
Let a := nth 0 diag. Let b := nth 0 Tsub.
Notation pp := (pp cut a b sh). Notation uu := (uu cut a b sh). Notation cc := (cc cut a b sh). Notation ss := (ss cut a b sh). Notation rr := (rr cut a b sh).

Lemma nth_vset_f (v : seq F) i x k : nth 0 (vset O v i x) k = if (k == i) && (i < size v)%N then x else nth 0 v k.
Proof.
elim: v i k => [|y v IH] i k /=.
- by rewrite ltn0 andbF.
- by case: i k => [|i] [|k] //=; rewrite IH eqSS ltnS.
Qed.
Lemma size_vset_f (v : seq F) i x : size (vset O v i x) = size v.
Proof. by elim: v i => [|y v IH] [|i] //=; rewrite IH. Qed.

(* state of the main loop of compute() after i steps *)
Definition IA (i : nat) (stt : seq F * seq F * seq F * seq (F * F)) : Prop :=
  let '(Rd, Rs, Rs2, acc) := stt in
  [/\ size Rd = n, size Rs = (n - 1)%N,
      (nth 0 Rd i = pp i /\ forall j, (i < j < n)%N -> nth 0 Rd j = a j - sh),
      (nth 0 Rs i = uu i /\ forall j, (i < j)%N -> nth 0 Rs j = b j) &
      rev acc = mkseq (fun j => (cc j, ss j)) i].

Lemma IA_step i stt : (i.+1 < n)%N -> IA i stt -> IA i.+1 (tqr_step O cut n Tsub i stt).
Proof.
case: stt => [[[Rd Rs] Rs2] acc] i1n [sRd sRs [rdi rdj] [rsi rsj] eacc].
rewrite /tqr_step /vnth !nthE rdi -/(b i).
have ec : cc i = (compute_rotation O cut (pp i) (b i)).1.2 by [].
have es : ss i = (compute_rotation O cut (pp i) (b i)).2 by [].
case: (compute_rotation O cut (pp i) (b i)) ec es => [[r c] s] /= ec es.
have bn : b (n - 1)%N = 0 by rewrite /b nth_default // st.
have e1 : s * uu i + c * (a i.+1 - sh) = pp i.+1 by rewrite ppS ec es.
have rd1 : nth 0 (vset O Rd i r) i.+1 = a i.+1 - sh.
  rewrite nth_vset_f; have -> : (i.+1 == i) = false by lia.
  by rewrite /= rdj // ltnSn.
have racc : rev ((c, s) :: acc) = mkseq (fun j => (cc j, ss j)) i.+1 by rewrite rev_cons eacc mkseqS ec es.
have rdfar j : (i.+1 < j < n)%N -> nth 0 (vset O (vset O Rd i r) i.+1 (s * nth 0 Rs i + c * nth 0 (vset O Rd i r) i.+1)) j = a j - sh.
  move=> ij; rewrite !nth_vset_f.
  have -> : (j == i.+1) = false by lia.
  have -> : (j == i) = false by lia.
  by rewrite /= rdj //; lia.
have rdnew : nth 0 (vset O (vset O Rd i r) i.+1 (s * nth 0 Rs i + c * nth 0 (vset O Rd i r) i.+1)) i.+1 = pp i.+1.
  by rewrite nth_vset_f eqxx size_vset_f sRd i1n /= rd1 rsi e1.
rewrite ltbE; case: ifP => i2; rewrite /IA !nthE.
- split.
  + by rewrite !size_vset_f.
  + by rewrite !size_vset_f.
  + by split; [exact: rdnew | exact: rdfar].
  + split.
      rewrite !nth_vset_f eqxx !size_vset_f sRs.
      have -> : (i.+1 < n - 1)%N by move: i2; rewrite -/(subn n 2); lia.
      have -> : (i.+1 == i) = false by lia.
      by rewrite /= rsj // uuS ec mulrC.
    move=> j ij; rewrite !nth_vset_f.
    have -> : (j == i.+1) = false by lia.
    have -> : (j == i) = false by lia.
    by rewrite /= rsj //; lia.
  + exact: racc.
- split.
  + by rewrite !size_vset_f.
  + by rewrite !size_vset_f.
  + by split; [exact: rdnew | exact: rdfar].
  + split.
      rewrite nth_vset_f; have -> : (i.+1 == i) = false by lia.
      have ei : i.+1 = (n - 1)%N by move: i2; rewrite -/(subn n 2); lia.
      by rewrite /= rsj // uuS ei bn mulr0.
    move=> j ij; rewrite !nth_vset_f.
    have -> : (j == i) = false by lia.
    by rewrite /= rsj //; lia.
  + exact: racc.
Qed.

Lemma IA_loop fuel i stt : (i + fuel = n - 1)%N -> IA i stt -> IA (n - 1) (tqr_loop O cut n Tsub fuel i stt).
Proof.
elim: fuel i stt => [|fu IH] i stt /=; first by rewrite addn0 => ->.
move=> e ia; apply: IH; first by lia.
by apply: IA_step => //; lia.
Qed.

Hypothesis n0 : (0 < n)%N.
Lemma IA_init : IA 0 ([seq x - sh | x <- diag], Tsub, nseq (n - 2) 0, [::]).
Proof.
split=> //; first by rewrite size_map.
by split=> [|j /andP[_ jn]]; rewrite (nth_map 0) ?sd.
Qed.

(* the rotations stored by compute() are (c_i, s_i), i < n - 1, of the pivot recursion *)
Lemma tqr_rots (eps : F) (subd : seq F) : Tsub = deflate O eps diag subd ->
  let q := tqr_compute O cut eps n diag subd sh in
  [/\ T_diag O q = diag, T_subd O q = Tsub & rots O q = mkseq (fun j => (cc j, ss j)) (n - 1)].
Proof.
move=> eT; rewrite /tqr_compute -eT.
have := @IA_loop (n - 1) 0 ([seq x - sh | x <- diag], Tsub, nseq (n - 2) 0, [::]) (add0n _) IA_init.
rewrite mapE repeatE.
case: (tqr_loop _ _ _ _ _ _ _) => [[[Rd Rs] Rs2] acc] [_ _ _ _ eacc] /=.
by rewrite revE.
Qed.
End A.

(* ---------------------------------------------------------------- Part C: the in-place loop of matrix_QtHQ() *)
Section C.
Variable F : rcfType.
Notation O := (OpsF F).
Variables (cut : F) (n : nat) (diag Tsub : seq F) (sh : F).
Hypothesis Hrot3 : forall x y : F, let '(r, c, s) := compute_rotation O cut x y in
  [/\ c * x - s * y = r, s * x + c * y = 0 & c ^+ 2 + s ^+ 2 = 1].
Hypothesis sd : size diag = n.
Hypothesis st : size Tsub = (n - 1)%N.
Let a := nth 0 diag. Let b := nth 0 Tsub.
Notation cc := (cc cut a b sh). Notation ss := (ss cut a b sh).
Notation Mi := (Mi cut a b sh).
Variable q : tqr O.
Hypothesis qT : T_subd O q = Tsub.
Hypothesis qr : rots O q = mkseq (fun j => (cc j, ss j)) (n - 1).

Definition fin (j : nat) : nat := if (j.+2 < n)%N then j.+2 else j.+1.
Definition JC (i : nat) (stt : seq F * seq F) : Prop :=
  let '(D, L) := stt in
  [/\ size D = n, size L = (n - 1)%N,
      forall j, (j < n)%N -> nth 0 D j = Mi i j j,
      forall j, (i <= j)%N -> (j.+1 < n)%N -> nth 0 L j = Mi i j.+1 j &
      forall j, (j < i)%N -> nth 0 L j = Mi (fin j) j.+1 j].

Lemma two_nat : (BinPos.Pos.to_nat 2 = 2)%N. Proof. by []. Qed.

Lemma JC_step i stt : (i.+1 < n)%N -> JC i stt -> JC i.+1 (qthq_step O n q i stt).
Proof.
case: stt => D L i1n [sD sL dD lL lF].
have Sx := S_all Hrot3 a b sh.
have sy := S_sym (Sx i).
rewrite /qthq_step /vnth qr qT !nthE.
have i1 : (i < n - 1)%N by lia.
rewrite (nth_mkseq _ _ i1) /=.
set c := cc i; set s := ss i.
have ex : nth 0 D i = Mi i i i by rewrite dD //; lia.
have ez : nth 0 D i.+1 = Mi i i.+1 i.+1 by rewrite dD.
have ey : nth 0 L i = Mi i i.+1 i by rewrite lL.
have z2 : Mi i i.+2 i = 0 by apply: (S_zero (Sx i)) => //; lia.
(* the three entries of the 2x2 core *)
have e00 : c * c * nth 0 D i - (BinPos.Pos.to_nat 2)%:R * c * s * nth 0 L i + s * s * nth 0 D i.+1 = Mi i.+1 i i.
  by rewrite /= cong_00 (sy i i.+1) ex ey ez two_nat -/c -/s; ring.
have e10 : c * s * (nth 0 D i - nth 0 D i.+1) + (c * c - s * s) * nth 0 L i = Mi i.+1 i.+1 i.
  by rewrite /= cong_10 (sy i i.+1) ex ey ez -/c -/s; ring.
have e11 : s * s * nth 0 D i + (BinPos.Pos.to_nat 2)%:R * c * s * nth 0 L i + c * c * nth 0 D i.+1 = Mi i.+1 i.+1 i.+1.
  by rewrite /= cong_11 (sy i i.+1) ex ey ez two_nat -/c -/s; ring.
rewrite e00 e10 e11.
have dnew j : (j < n)%N -> nth 0 (vset O (vset O D i (Mi i.+1 i i)) i.+1 (Mi i.+1 i.+1 i.+1)) j = Mi i.+1 j j.
  move=> jn; rewrite !nth_vset_f !size_vset_f sD i1n.
  have -> : (i < n)%N by lia.
  rewrite !andbT; case: (eqVneq j i.+1) => [->|n1] //; case: (eqVneq j i) => [->|n0] //.
  by rewrite dD // /= cong_far.
have far j : (i.+1 < j)%N -> Mi i.+1 j.+1 j = Mi i j.+1 j by move=> h /=; rewrite cong_far //; lia.
rewrite ltbE; case: ifP => i2.
- have i1' : (i.+1 < n - 1)%N by move: i2; rewrite -/(subn n 2); lia.
  rewrite (nth_mkseq _ _ i1') /= -/(Mi i.+1) !nthE.
  set L1 := vset O L i _.
  have l1i : nth 0 L1 i = Mi i.+1 i.+1 i by rewrite /L1 nth_vset_f eqxx sL i1.
  have l1i1 : nth 0 L1 i.+1 = Mi i i.+2 i.+1.
    rewrite /L1 nth_vset_f; have -> : (i.+1 == i) = false by lia.
    by rewrite /= lL //; lia.
  have s2 : Mi i i.+2 i.+1 = b i.+1 by rewrite (S_sub (Sx i)) //; case: eqP => //; lia.
  have c21 : Mi i.+1 i.+2 i.+1 = Mi i i.+2 i.+1 * c by rewrite /= cong_col1 ?z2 ?mulr0 ?add0r 1?mulrC //; lia.
  have c20 : Mi i.+1 i.+2 i = - s * b i.+1 by rewrite /= cong_col0 ?z2 ?s2 ?mulr0 ?sub0r ?mulNr //; lia.
  set L2 := vset O L1 i.+1 _.
  have l2i : nth 0 L2 i = Mi i.+1 i.+1 i by rewrite /L2 nth_vset_f; have -> : (i == i.+1) = false by lia.
  split.
  + by rewrite !size_vset_f.
  + by rewrite !size_vset_f.
  + exact: dnew.
  + move=> j ij j1n; rewrite !nth_vset_f !size_vset_f sL.
    have -> : (j == i) = false by lia.
    have -> : (i.+1 == i) = false by lia.
    rewrite i1' andbT !andFb.
    case: (eqVneq j i.+1) => [->|n1]; rewrite /= -/(Mi i.+1).
    * by rewrite c21 lL //; lia.
    * by rewrite lL ?far //; lia.
  + move=> j; rewrite ltnS leq_eqVlt => /orP[/eqP ->|ji].
    * rewrite nth_vset_f eqxx !size_vset_f sL i1 /= -/(Mi i.+1) l2i -/(b i.+1) -c20.
      have -> : fin i = i.+2 by rewrite /fin; have -> : (i.+2 < n)%N by lia.
      by rewrite /= cong_row0 //; lia.
    * rewrite !nth_vset_f.
      have -> : (j == i) = false by lia.
      have -> : (j == i.+1) = false by lia.
      by rewrite /= lF.
- split.
  + by rewrite !size_vset_f.
  + by rewrite !size_vset_f.
  + exact: dnew.
  + by move=> j ij j1n; move: i2; rewrite -/(subn n 2); lia.
  + move=> j; rewrite ltnS leq_eqVlt => /orP[/eqP ->|ji].
    * rewrite nth_vset_f eqxx sL i1 /=.
      by have -> : fin i = i.+1 by rewrite /fin; have -> : (i.+2 < n)%N = false by move: i2; rewrite -/(subn n 2); lia.
    * rewrite nth_vset_f; have -> : (j == i) = false by lia.
      by rewrite /= lF.
Qed.

Lemma JC_loop fuel i stt : (i + fuel = n - 1)%N -> JC i stt -> JC (n - 1) (qthq_loop O n q fuel i stt).
Proof.
elim: fuel i stt => [|fu IH] i stt /=; first by rewrite addn0 => ->.
move=> e jc; apply: IH; first by lia.
by apply: JC_step => //; lia.
Qed.

Lemma JC_init : JC 0 (diag, Tsub).
Proof.
split=> //.
- by move=> j jn; rewrite /= /Tfun eqxx.
- by move=> j _ jn; rewrite /= /Tfun eqxx; have -> : (j.+1 == j) = false by lia.
Qed.

Lemma Mi_stable k j : (j.+2 <= k)%N -> Mi k j.+1 j = Mi j.+2 j.+1 j.
Proof.
elim: k => [|k IH] //; rewrite leq_eqVlt => /orP[/eqP [->]|h] //.
by rewrite /= cong_far ?IH //; lia.
Qed.

(* the loop of matrix_QtHQ() (before the final deflation of negligible sub-diagonals): the diagonal and the sub-diagonal it returns are those
   of M_{n-1} = G_{n-2}' ... G_0' T G_0 ... G_{n-2}, and M_{n-1} is symmetric and tridiagonal *)
Theorem qthq_loop_spec : (0 < n)%N ->
  let '(D, L) := qthq_loop O n q (n - 1) 0 (diag, Tsub) in
  [/\ forall j, (j < n)%N -> nth 0 D j = Mi (n - 1) j j,
      forall j, (j.+1 < n)%N -> nth 0 L j = Mi (n - 1) j.+1 j,
      forall r k, Mi (n - 1) r k = Mi (n - 1) k r &
      forall r k, (r < n)%N -> (k.+1 < r)%N -> Mi (n - 1) r k = 0].
Proof.
move=> n0; have := @JC_loop (n - 1) 0 (diag, Tsub) (add0n _) JC_init.
case: (qthq_loop O n q (n - 1) 0 (diag, Tsub)) => D L [sD sL dD lL lF].
have Sx := S_all Hrot3 a b sh (n - 1).
split=> //.
- move=> j jn; rewrite lF; last by lia.
  rewrite /fin; case: ifP => h; first by rewrite Mi_stable //; lia.
  by have -> : j.+1 = (n - 1)%N by lia.
- exact: (S_sym Sx).
- by move=> r k rn kr; apply: (S_zero Sx) => //; lia.
Qed.
End C.

(* ---------------------------------------------------------------- the theorem about TridiagQR *)
Section Final.
Variable F : rcfType.
Notation O := (OpsF F).
(* G_{m-1}' ... G_i' M G_i ... G_{m-1} for the list of stored rotations, first one in the plane (i, i+1) *)
Fixpoint congs (i : nat) (rs : seq (F * F)) (M : nat -> nat -> F) : nat -> nat -> F :=
  if rs is cs :: rs' then congs i.+1 rs' (cong i cs.1 cs.2 M) else M.

Lemma congs_rcons i rs cs M : congs i (rcons rs cs) M = cong (i + size rs)%N cs.1 cs.2 (congs i rs M).
Proof. by elim: rs i M => [|x rs IH] i M /=; rewrite ?addn0 // IH addSnnS. Qed.
Lemma congs_Mi cut a b sh m : congs 0 (mkseq (fun j => (cc cut a b sh j, ss cut a b sh j)) m) (Tfun a b) = Mi cut a b sh m.
Proof. by elim: m => [|m IH] //; rewrite mkseqS congs_rcons IH size_mkseq add0n. Qed.

(* TridiagQR::matrix_QtHQ() = Q' T Q: for every n >= 1, every diagonal / sub-diagonal and every shift, under the contract of the rotation kernel:
   with T the (deflated) symmetric tridiagonal matrix compute() factorized and (c_i, s_i) the rotations it stored, the diagonal D and the
   sub-diagonal L produced by the loop of matrix_QtHQ() are the diagonal and sub-diagonal of
      M = G_{n-2}' ... G_0' T G_0 ... G_{n-2},    G_i = [c_i s_i; -s_i c_i] in the plane (i, i+1),
   and M is symmetric with zeros outside the three diagonals - so (D, L) IS Q' T Q.  (matrix_QtHQ then zeroes sub-diagonal entries
   below eps (|D_i| + |D_i+1|): a deflation, not part of the similarity.) *)
Theorem tqr_QtHQ_similar (cut eps : F) (n : nat) (diag subd : seq F) (sh : F) :
  (forall x y : F, let '(r, c, s) := compute_rotation O cut x y in [/\ c * x - s * y = r, s * x + c * y = 0 & c ^+ 2 + s ^+ 2 = 1]) ->
  (0 < n)%N -> size diag = n -> size subd = (n - 1)%N ->
  let q := tqr_compute O cut eps n diag subd sh in
  let M := congs 0 (rots O q) (Tfun (nth 0 (T_diag O q)) (nth 0 (T_subd O q))) in
  let '(D, L) := qthq_loop O n q (n - 1) 0 (T_diag O q, T_subd O q) in
  [/\ forall j, (j < n)%N -> nth 0 D j = M j j,
      forall j, (j.+1 < n)%N -> nth 0 L j = M j.+1 j,
      forall r k, M r k = M k r &
      forall r k, (r < n)%N -> (k.+1 < r)%N -> M r k = 0].
Proof.
move=> hrot n0 sd ss_ q.
set Tsub := deflate O eps diag subd.
have st : size Tsub = (n - 1)%N.
  by rewrite /Tsub /deflate /mapi -ss_; elim: (subd) 0%N => [|x l IH] k //=; rewrite IH.
have [qd qs qr] := @tqr_rots F cut n diag Tsub sh sd st n0 eps subd (erefl _).
rewrite -/q in qd qs qr; rewrite qd qs qr congs_Mi.
exact: (@qthq_loop_spec F cut n diag Tsub sh hrot sd st q qs qr n0).
Qed.
End Final.
