(* C11: which entries the triangle-aware wrappers read, and what matrix they factorize -
   for every scalar instance (no algebra is needed: the statements are entrywise identities). *)
From SV Require Import Ops LinAlg BK Wrap.
From mathcomp Require Import all_ssreflect.
From mathcomp Require Import zify.
From SV Require Import OpsF.
Set Implicit Arguments. Unset Strict Implicit. Unset Printing Implicit Defensive.

Section W.
Variable o : Ops.
Variable alpha : T o.
Notation mget := (mget o).

Definition agree_on (lower : bool) (n : nat) (M M' : mat o) : Prop :=
  forall i j, (i < n)%N -> (j < n)%N -> in_tri lower i j -> mget M i j = mget M' i j.

Lemma in_tri_flip (l1 l2 : bool) i j : l1 != l2 -> in_tri l1 i j = in_tri l2 j i.
Proof. by case: l1; case: l2. Qed.

Lemma in_tri_both (l1 l2 : bool) i j : l1 != l2 -> in_tri l1 i j -> in_tri l2 i j -> i = j.
Proof. by case: l1; case: l2 => //= _ /PeanoNat.Nat.leb_le a /PeanoNat.Nat.leb_le b; lia. Qed.

Lemma mget_build n (f : nat -> nat -> T o) i j : (i < n)%N -> (j < n)%N ->
  mget (List.map (fun j => List.map (fun i => f i j) (List.seq 0 n)) (List.seq 0 n)) i j = f i j.
Proof.
move=> /ssrnat.ltP ii /ssrnat.ltP jj; rewrite /LinAlg.mget /mcol /vnth.
rewrite (List.nth_indep _ _ (List.map (fun i => f i 0) (List.seq 0 n))); last by rewrite List.map_length List.seq_length.
rewrite (@List.map_nth _ _ (fun j => List.map (fun i => f i j) (List.seq 0 n)) (List.seq 0 n) 0 j) List.seq_nth //= .
rewrite (List.nth_indep _ _ (f 0 j)); last by rewrite List.map_length List.seq_length.
by rewrite (@List.map_nth _ _ (fun i => f i j) (List.seq 0 n) 0 i) List.seq_nth.
Qed.

(* the matrix handed to the Bunch-Kaufman factorization by the dense-A helper is, on the triangle that is
   factorized, exactly sym(A) - sym(B) * sigma, whatever the two triangle options are *)
Theorem ssi_dense_A_entries lowerA lowerB n A B sigma i j : (i < n)%N -> (j < n)%N -> in_tri lowerA i j ->
  mget (ssi_mat_dense_A o lowerA lowerB n A B sigma) i j =
  Ops.sub o (sym_entry o lowerA A i j) (Ops.mul o (sym_entry o lowerB B i j) sigma).
Proof.
move=> ii jj tr; rewrite /ssi_mat_dense_A mget_build // tr /sym_entry tr.
case E: (Bool.eqb lowerA lowerB).
- by move/Bool.eqb_prop: E => <-; rewrite tr.
- have ne : lowerA != lowerB by apply/eqP => e; rewrite e Bool.eqb_reflx in E.
  case T2: (in_tri lowerB i j) => //.
  (* both triangles contain (i, j): the diagonal *)
  by rewrite (in_tri_both ne tr T2).
Qed.

Theorem ssi_sparse_A_entries lowerA lowerB n A B sigma i j : (i < n)%N -> (j < n)%N -> in_tri lowerB i j ->
  mget (ssi_mat_sparse_A o lowerA lowerB n A B sigma) i j =
  Ops.add o (Ops.mul o (Ops.neg o sigma) (sym_entry o lowerB B i j)) (sym_entry o lowerA A i j).
Proof.
move=> ii jj tr; rewrite /ssi_mat_sparse_A mget_build // tr /sym_entry tr.
case E: (Bool.eqb lowerA lowerB).
- by move/Bool.eqb_prop: E => ->; rewrite tr.
- have ne : lowerB != lowerA by apply/eqP => e; rewrite e Bool.eqb_reflx in E.
  case T2: (in_tri lowerA i j) => //.
  by rewrite (in_tri_both ne tr T2).
Qed.

(* the wrappers read only the designated triangles: matrices that agree there give the same result *)
Lemma ssi_dense_A_indep lowerA lowerB n A A' B B' sigma : agree_on lowerA n A A' -> agree_on lowerB n B B' ->
  ssi_mat_dense_A o lowerA lowerB n A B sigma = ssi_mat_dense_A o lowerA lowerB n A' B' sigma.
Proof.
move=> ha hb; rewrite /ssi_mat_dense_A.
apply: List.map_ext_in => j /List.in_seq [_ jn]; apply: List.map_ext_in => i /List.in_seq [_ i_n].
have jj : (j < n)%N by apply/ssrnat.ltP; lia. have ii : (i < n)%N by apply/ssrnat.ltP; lia.
case tr: (in_tri lowerA i j) => //.
rewrite (ha i j) //; case E: (Bool.eqb lowerA lowerB).
- by move/Bool.eqb_prop: E => e; rewrite (hb i j) // -e.
- have ne : lowerA != lowerB by apply/eqP => e; rewrite e Bool.eqb_reflx in E.
  by rewrite (hb j i) // -(in_tri_flip i j ne).
Qed.

Lemma ssi_sparse_A_indep lowerA lowerB n A A' B B' sigma : agree_on lowerA n A A' -> agree_on lowerB n B B' ->
  ssi_mat_sparse_A o lowerA lowerB n A B sigma = ssi_mat_sparse_A o lowerA lowerB n A' B' sigma.
Proof.
move=> ha hb; rewrite /ssi_mat_sparse_A.
apply: List.map_ext_in => j /List.in_seq [_ jn]; apply: List.map_ext_in => i /List.in_seq [_ i_n].
have jj : (j < n)%N by apply/ssrnat.ltP; lia. have ii : (i < n)%N by apply/ssrnat.ltP; lia.
case tr: (in_tri lowerB i j) => //.
rewrite (hb i j) //; case E: (Bool.eqb lowerA lowerB).
- by move/Bool.eqb_prop: E => e; rewrite (ha i j) // e.
- have ne : lowerB != lowerA by apply/eqP => e; rewrite e Bool.eqb_reflx in E.
  by rewrite (ha j i) // -(in_tri_flip i j ne).
Qed.

Theorem ssi_solve_reads_only_triangles a_dense lowerA lowerB n A A' B B' sigma x :
  agree_on lowerA n A A' -> agree_on lowerB n B B' ->
  ssi_solve o alpha a_dense lowerA lowerB n A B sigma x = ssi_solve o alpha a_dense lowerA lowerB n A' B' sigma x.
Proof.
by move=> ha hb; rewrite /ssi_solve; case: a_dense; rewrite ?(ssi_dense_A_indep sigma ha hb) ?(ssi_sparse_A_indep sigma ha hb).
Qed.

(* BKLDLT::copy_data reads only the designated triangle *)
Lemma copy_data_indep lower n (A A' : mat o) shift : agree_on lower n A A' ->
  copy_data o n A lower shift = copy_data o n A' lower shift.
Proof.
move=> ha; rewrite /copy_data.
apply: List.map_ext_in => j /List.in_seq [_ jn]; apply: List.map_ext_in => i /List.in_seq [ij i_n].
have jj : (j < n)%N by apply/ssrnat.ltP; lia. have ii : (i < n)%N by apply/ssrnat.ltP; lia.
case: lower ha => ha.
- have -> // : List.nth i (List.nth j A nil) (zero o) = List.nth i (List.nth j A' nil) (zero o).
  by apply: (ha i j) => //=; apply/PeanoNat.Nat.leb_le; lia.
- have -> // : List.nth j (List.nth i A nil) (zero o) = List.nth j (List.nth i A' nil) (zero o).
  by apply: (ha j i) => //=; apply/PeanoNat.Nat.leb_le; lia.
Qed.

Theorem dsss_solve_reads_only_triangle lower n A A' sigma x : agree_on lower n A A' ->
  dsss_solve o alpha lower n A sigma x = dsss_solve o alpha lower n A' sigma x.
Proof. by move=> ha; rewrite /dsss_solve /bk_compute (copy_data_indep sigma ha). Qed.
End W.
