(* Extraction of the executable models to OCaml (for the correspondence checks).
   Directives in force: ExtrOcamlBasic (bool, option, unit, list, prod, sumbool ->
   OCaml natives), ExtrOcamlString (ascii -> char, string -> char list),
   ExtrOCamlFloats (PrimFloat -> Float64 of coq-core.kernel),
   ExtrOCamlInt63 (Uint63 -> Uint63 of coq-core.kernel). Z, positive, nat stay
   the extracted inductive datatypes. *)
Require Import ExtrOcamlBasic ExtrOcamlString ExtrOCamlFloats ExtrOCamlInt63.
From SV Require Import Cxx Ops RngGen SortKey SortGen SortModel.

Definition rng_real_f (s : Z) := random_real OpsFloat s.
Definition rng_complex_f (s : Z) := random_complex OpsFloat s.

Extraction Language OCaml.
Extraction "model.ml" next_long_rand seed_norm rng_real_f rng_complex_f
  valid_argsort valid_gen_sort argsort_dispatch gen_select_dispatch gen_sort_dispatch herm_sort_check.
