(* Extraction of the executable models to OCaml (for the correspondence checks).
   Directives in force: ExtrOcamlBasic (bool, option, unit, list, prod, sumbool ->
   OCaml natives), ExtrOcamlString (ascii -> char, string -> char list),
   ExtrOCamlFloats (PrimFloat -> Float64 of coq-core.kernel),
   ExtrOCamlInt63 (Uint63 -> Uint63 of coq-core.kernel). Z, positive, nat stay
   the extracted inductive datatypes. *)
Require Import ExtrOcamlBasic ExtrOcamlString ExtrOCamlFloats ExtrOCamlInt63.
From SV Require Import TridiagEig Wrap Schur.
From SV Require Import Cxx Ops RngGen SortKey SortGen SortModel ArgsGen ArgsModel GlueGen LinAlg Givens HessQR TridiagQR DoubleShift Arnoldi BK.

Definition rng_real_f (s : Z) := random_real OpsFloat s.
Definition rng_complex_f (s : Z) := random_complex OpsFloat s.

Extraction Language OCaml.
Extraction "model.ml" next_long_rand seed_norm rng_real_f rng_complex_f
  valid_argsort valid_gen_sort argsort_dispatch gen_select_dispatch gen_sort_dispatch herm_sort_check
  herm_ctor_lvalue herm_ctor_rvalue gen_ctor jd_ctor jd_ctor_default svd_ctor
  shift_mode_check_shiftinvert shift_mode_check_buckling shift_mode_check_cayley arnoldi_init_check
  wrapper_ctor_DenseGenMatProd wrapper_ctor_DenseSymMatProd wrapper_ctor_DenseHermMatProd
  wrapper_ctor_SparseGenMatProd wrapper_ctor_SparseSymMatProd wrapper_ctor_SparseHermMatProd
  wrapper_ctor_DenseSymShiftSolve wrapper_ctor_SparseSymShiftSolve wrapper_ctor_DenseGenRealShiftSolve
  wrapper_ctor_SparseGenRealShiftSolve wrapper_ctor_DenseGenComplexShiftSolve wrapper_ctor_SparseGenComplexShiftSolve
  wrapper_ctor_DenseCholesky wrapper_ctor_SparseCholesky wrapper_ctor_SparseRegularInverse wrapper_ctor_SymShiftInvert
  herm_compute gen_compute herm_nev_adjusted gen_nev_adjusted herm_init gen_init
  herm_eigenvalues_count gen_eigenvalues_count herm_eigenvectors_cols gen_eigenvectors_cols
  arnoldi_factorize_from lanczos_factorize_from expand_basis_count herm_restart gen_restart
  compute_rotation hqr_compute hqr_QtHQ apply_QtY apply_QY apply_QtY_mat apply_QY_mat apply_YQ apply_YQt OpsFloat tqr_compute tqr_QtHQ ds_compute ds_apply_QtY ds_apply_YQ
  Arnoldi.init arnoldi_factorize_from_k lanczos_factorize_from_k Arnoldi.compress_V identity
  bk_compute bk_solve bk_choice
  te_compute he_eigenvalues make_givens
  ssi_solve dsss_solve
  sc_compute.
