(* Correspondence driver: reads one case per line on stdin, writes one result per
   line on stdout in the same text format as the C++ harnesses (floats as 16 hex
   digits of their IEEE bit pattern).  Trusted: this file (I/O, conversions). *)
open Model

let rec pos_of_int (n : int) : positive =
  if n = 1 then XH else if n land 1 = 1 then XI (pos_of_int (n lsr 1)) else XO (pos_of_int (n lsr 1))
let z_of_int (n : int) : z = if n = 0 then Z0 else if n > 0 then Zpos (pos_of_int n) else Zneg (pos_of_int (- n))
let rec int_of_pos (p : positive) : int = match p with XH -> 1 | XO q -> 2 * int_of_pos q | XI q -> 2 * int_of_pos q + 1
let int_of_z (x : z) : int = match x with Z0 -> 0 | Zpos p -> int_of_pos p | Zneg p -> - (int_of_pos p)
let rec nat_of_int (n : int) : nat = if n <= 0 then O else S (nat_of_int (n - 1))
let rec int_of_nat (n : nat) : int = match n with O -> 0 | S m -> 1 + int_of_nat m

let bits (f : float) : string = Printf.sprintf "%016Lx" (Int64.bits_of_float f)
let float_of_bits (s : string) : float = Int64.float_of_bits (Int64.of_string ("0x" ^ s))
let fl (x : Obj.t) : float = (Obj.magic x : float)

let split s = List.filter (fun t -> t <> "") (String.split_on_char ' ' s)

let handle (toks : string list) : string =
  match toks with
  | ["next"; s] -> string_of_int (int_of_z (next_long_rand (z_of_int (int_of_string s))))
  | ["seednorm"; s] -> string_of_int (int_of_z (seed_norm (z_of_int (int_of_string s))))
  | ["draws"; seed; k] ->
      (* SimpleRandom<double>(seed) then k calls of random() *)
      let st = ref (seed_norm (z_of_int (int_of_string seed))) in
      let buf = Buffer.create 64 in
      for _ = 1 to int_of_string k do
        let (x, s') = rng_real_f !st in
        st := s'; Buffer.add_string buf (bits (fl x)); Buffer.add_char buf ' '
      done;
      Buffer.add_string buf (string_of_int (int_of_z !st)); Buffer.contents buf
  | ["cdraws"; seed; k] ->
      let st = ref (seed_norm (z_of_int (int_of_string seed))) in
      let buf = Buffer.create 64 in
      for _ = 1 to int_of_string k do
        let (ri, s') = rng_complex_f !st in
        let (r, i) = (Obj.magic ri : Obj.t * Obj.t) in
        st := s'; Buffer.add_string buf (bits (fl r)); Buffer.add_char buf ' ';
        Buffer.add_string buf (bits (fl i)); Buffer.add_char buf ' '
      done;
      Buffer.add_string buf (string_of_int (int_of_z !st)); Buffer.contents buf
  | _ -> Extra.handle toks

let () =
  try
    while true do
      let line = input_line stdin in
      let toks = split line in
      if toks <> [] then begin
        (try print_string (handle toks) with e -> print_string ("ERROR " ^ Printexc.to_string e));
        print_newline ()
      end
    done
  with End_of_file -> ()
