(* further dispatch (kernels, glue); extended as models are added *)
let handle (toks : string list) : string = "ERROR unknown-case " ^ String.concat " " toks
