(* further dispatch (sorting checker, kernels, glue); extended as models are added *)
open Model

let rec pos_of_int (n : int) : positive =
  if n = 1 then XH else if n land 1 = 1 then XI (pos_of_int (n lsr 1)) else XO (pos_of_int (n lsr 1))
let z_of_int (n : int) : z = if n = 0 then Z0 else if n > 0 then Zpos (pos_of_int n) else Zneg (pos_of_int (- n))
let rec int_of_pos (p : positive) : int = match p with XH -> 1 | XO q -> 2 * int_of_pos q | XI q -> 2 * int_of_pos q + 1
let int_of_z (x : z) : int = match x with Z0 -> 0 | Zpos p -> int_of_pos p | Zneg p -> - (int_of_pos p)
let rec nat_of_int_e (n : int) : nat = if n <= 0 then O else S (nat_of_int_e (n - 1))
let rec int_of_nat_e (n : nat) : int = match n with O -> 0 | S m -> 1 + int_of_nat_e m
let explode (s : string) : char list = List.init (String.length s) (String.get s)
let implode (l : char list) : string = String.of_seq (List.to_seq l)

let rec take n l = if n = 0 then [] else match l with [] -> failwith "short" | x :: r -> x :: take (n - 1) r
let rec drop n l = if n = 0 then l else match l with [] -> failwith "short" | _ :: r -> drop (n - 1) r

let parse_outcome (toks : string list) : outcome =
  match toks with
  | "idx" :: r -> Indices (List.map (fun s -> z_of_int (int_of_string s)) r)
  | "throw" :: e :: _ -> Thrown (explode e)
  | _ -> Thrown (explode "unparsable")

let split_bar toks =
  let rec go acc = function [] -> (List.rev acc, []) | "|" :: r -> (List.rev acc, r) | x :: r -> go (x :: acc) r in
  go [] toks

let res_str (r : z res) : string =
  match r with Ok v -> "ok " ^ string_of_int (int_of_z v) | Throw (e, _) -> "throw " ^ implode e

(* ---- floating-point kernels (C-bit): floats travel as 16 hex digits *)
let fbits (f : float) : string = Printf.sprintf "%016Lx" (Int64.bits_of_float f)
let fof (s : string) : float = Int64.float_of_bits (Int64.of_string ("0x" ^ s))
let ofl (x : float) : Obj.t = Obj.repr x
let tofl (x : Obj.t) : float = (Obj.obj x : float)
let cutoff = ref 0.0
let consts : float array ref = ref [||]
type rd = { mutable rest : string list }
let rint r = match r.rest with x :: t -> r.rest <- t; int_of_string x | [] -> failwith "short"
let rfl r = match r.rest with x :: t -> r.rest <- t; ofl (fof x) | [] -> failwith "short"
let rvec r n = List.init n (fun _ -> rfl r)
let rmat r rows cols = List.init cols (fun _ -> rvec r rows)     (* list of columns *)
let pv (b : Buffer.t) (v : Obj.t list) = List.iter (fun x -> Buffer.add_string b (fbits (tofl x)); Buffer.add_char b ' ') v
let pm (b : Buffer.t) (m : Obj.t list list) = List.iter (pv b) m

let handle (toks : string list) : string =
  match toks with
  | "setconsts" :: vals -> consts := Array.of_list (List.map fof vals); cutoff := !consts.(2); "ok"
  | ["rot"; x; y] ->
      let ((r, c), s) = compute_rotation opsFloat (ofl !cutoff) (ofl (fof x)) (ofl (fof y)) in
      let b = Buffer.create 64 in pv b [r; c; s]; Buffer.contents b
  | "hqr" :: rest ->
      let r = { rest } in
      let n = rint r in let shift = rfl r in let h = rmat r n n in let y = rvec r n in
      let m = rint r in let yy = rmat r n m in let z = rmat r m n in
      let (rr, rots) = hqr_compute opsFloat (ofl !cutoff) (nat_of_int_e n) h shift in
      let b = Buffer.create 4096 in
      pm b rr; pv b (List.map fst rots); pv b (List.map snd rots);
      pm b (hqr_QtHQ opsFloat rr rots shift);
      pv b (apply_QtY opsFloat rots y); pv b (apply_QY opsFloat rots y);
      pm b (apply_QtY_mat opsFloat rots yy); pm b (apply_QY_mat opsFloat rots yy);
      pm b (apply_YQ opsFloat rots z); pm b (apply_YQt opsFloat rots z);
      Buffer.contents b
  | kind :: rest when kind = "arnoldi" || kind = "lanczos" ->
      let r = { rest } in
      let n = rint r in let m = rint r in let a = rmat r n n in let v0 = rvec r n in
      let kk = rint r in let shift = rfl r in
      let rows = List.init n (fun i -> List.map (fun col -> List.nth col i) a) in
      let eps = ofl !consts.(0) in let near0 = ofl !consts.(1) in let l0717 = ofl 0.717 in
      let nn = nat_of_int_e n in let mm = nat_of_int_e m in
      let b = Buffer.create 8192 in
      let dump (f : fac) (cnt : nat) = pm b f.fV; pm b f.fH; pv b f.ff; pv b [f.fbeta];
        Buffer.add_string b (string_of_int (int_of_nat_e f.fk)); Buffer.add_char b ' ';
        Buffer.add_string b (string_of_int (int_of_nat_e cnt)); Buffer.add_char b ' ' in
      let factorize = if kind = "arnoldi" then arnoldi_factorize_from_k opsFloat near0 eps l0717 rows else lanczos_factorize_from_k opsFloat near0 eps rows in
      (match init opsFloat near0 eps rows nn mm v0 with
       | Thrown0 e -> "throw " ^ implode e
       | Done st ->
         (match factorize nn mm (nat_of_int_e 1) mm st with
          | Thrown0 e -> "throw " ^ implode e
          | Done (f, cnt) ->
            dump f cnt;
            if kk > 0 then begin
              (* one implicit restart: (m - kk) single shifts *)
              let q = ref (identity opsFloat mm) in
              let h = ref f.fH in
              for _ = kk to m - 1 do
                if kind = "arnoldi" then begin
                  let (rr, rots) = hqr_compute opsFloat (ofl !cutoff) mm !h shift in
                  q := apply_YQ opsFloat rots !q;
                  h := hqr_QtHQ opsFloat rr rots shift
                end else begin
                  let d = List.init m (fun i -> List.nth (List.nth !h i) i) in
                  let sub = List.init (m - 1) (fun i -> List.nth (List.nth !h i) (i + 1)) in
                  let tq = tqr_compute opsFloat (ofl !cutoff) eps mm d sub shift in
                  q := apply_YQ opsFloat tq.rots !q;
                  let (dd, ll) = tqr_QtHQ opsFloat eps mm tq in
                  let zero = ofl 0.0 in
                  h := List.init m (fun j -> List.init m (fun i ->
                         if i = j then List.nth dd i else if i = j + 1 then List.nth ll j else if j = i + 1 then List.nth ll i else zero))
                end
              done;
              let f1 = { f with fH = !h } in
              let f2 = compress_V opsFloat nn mm (nat_of_int_e kk) !q f1 in
              Buffer.add_string b "| ";
              pm b (take kk f2.fV); pm b (List.map (take kk) (take kk f2.fH)); pv b f2.ff; pv b [f2.fbeta];
              Buffer.add_string b (string_of_int (int_of_nat_e f2.fk)); Buffer.add_char b ' ';
              (match factorize nn mm (nat_of_int_e kk) mm (f2, cnt) with
               | Thrown0 e -> Buffer.add_string b ("throw " ^ implode e)
               | Done (f3, cnt3) -> Buffer.add_string b "| "; dump f3 cnt3)
            end;
            Buffer.contents b))
  | "m_ssi" :: ad :: la :: lb :: rest ->
      let r = { rest } in
      let n = rint r in let sigma = rfl r in let a = rmat r n n in let bm = rmat r n n in let x = rvec r n in
      let alpha = ofl !consts.(6) in
      (match ssi_solve opsFloat alpha (ad = "1") (la = "1") (lb = "1") (nat_of_int_e n) a bm sigma x with
       | None -> "throw"
       | Some y -> let b = Buffer.create 512 in pv b y; Buffer.contents b)
  | "m_dsss" :: lo :: rest ->
      let r = { rest } in
      let n = rint r in let sigma = rfl r in let a = rmat r n n in let x = rvec r n in
      let alpha = ofl !consts.(6) in
      (match dsss_solve opsFloat alpha (lo = "1") (nat_of_int_e n) a sigma x with
       | None -> "throw"
       | Some y -> let b = Buffer.create 512 in pv b y; Buffer.contents b)
  | "teig" :: rest ->
      let r = { rest } in
      let n = rint r in let d = rvec r n in let sd = rvec r (n - 1) in
      let eps = ofl !consts.(0) in let near0 = ofl !consts.(1) in let mn = ofl !consts.(5) in
      let pinv = ofl (1.0 /. !consts.(0)) in
      (match te_compute opsFloat near0 mn pinv (nat_of_int_e n) d sd with
       | None -> "throw"
       | Some (ev, q) -> let b = Buffer.create 2048 in pv b ev; pm b q; Buffer.contents b)
  | "schur" :: rest ->
      let r = { rest } in
      let n = rint r in let h = rmat r n n in
      let eps = ofl !consts.(0) in let mn = ofl !consts.(5) in
      (match sc_compute opsFloat eps mn (nat_of_int_e n) h with
       | None -> "throw"
       | Some (t, u) -> let b = Buffer.create 4096 in pm b t; pm b u; Buffer.contents b)
  | "m_heig" :: rest ->
      let r = { rest } in
      let n = rint r in let scale = rfl r in let t = rmat r n n in
      let b = Buffer.create 1024 in
      List.iter (fun (re, im) -> pv b [re; im]) (he_eigenvalues opsFloat (nat_of_int_e n) t scale);
      Buffer.contents b
  | "bk" :: n :: shift :: ul :: _rm :: rest ->
      let r = { rest } in
      let n = int_of_string n in let shift = ofl (fof shift) in
      let a = rmat r n n in let bvec = rvec r n in
      let alpha = ofl !consts.(6) in
      let nn = nat_of_int_e n in
      let s = bk_compute opsFloat alpha nn a (ul = "L") shift in
      let b = Buffer.create 2048 in
      Buffer.add_string b (string_of_int (int_of_nat_e s.info)); Buffer.add_char b ' ';
      List.iter (fun z -> Buffer.add_string b (string_of_int (int_of_z z)); Buffer.add_char b ' ') s.perm;
      pm b s.p_;
      if int_of_nat_e s.info = 0 then pv b (bk_solve opsFloat nn s bvec);
      Buffer.contents b
  | "dsqr" :: rest ->
      let r = { rest } in
      let n = rint r in let ss = rfl r in let tt = rfl r in let h = rmat r n n in let y = rvec r n in
      let m = rint r in let z = rmat r m n in
      let eps = ofl !consts.(0) in let near0 = ofl !consts.(1) in
      let (q, rs) = ds_compute opsFloat (ofl !cutoff) near0 eps (nat_of_int_e n) h ss tt in
      let b = Buffer.create 4096 in
      pm b q;
      List.iter (fun (nr, _) -> Buffer.add_string b (string_of_int (int_of_nat_e nr)); Buffer.add_char b ' ') rs;
      List.iter (fun (nr, ((u0, u1), u2)) -> if int_of_nat_e nr > 1 then pv b [u0; u1; u2]) rs;
      pv b (ds_apply_QtY opsFloat (nat_of_int_e n) rs y);
      pm b (ds_apply_YQ opsFloat (nat_of_int_e n) (nat_of_int_e m) rs z);
      Buffer.contents b
  | "tqr" :: rest ->
      let r = { rest } in
      let n = rint r in let shift = rfl r in let d = rvec r n in let sub = rvec r (n - 1) in
      let eps = ofl !consts.(0) in
      let q = tqr_compute opsFloat (ofl !cutoff) eps (nat_of_int_e n) d sub shift in
      let b = Buffer.create 1024 in
      pv b q.r_diag; pv b q.r_supd; pv b q.r_supd2; pv b (List.map fst q.rots); pv b (List.map snd q.rots);
      let (dd, ll) = tqr_QtHQ opsFloat eps (nat_of_int_e n) q in
      pv b dd; pv b ll; Buffer.add_string b "shape-ok"; Buffer.contents b
  | "chk_argsort" :: rule :: n :: rest ->
      let n = int_of_string n in
      let (vs, out) = split_bar rest in
      let vals = List.map (fun s -> ZR (z_of_int (int_of_string s))) (take n vs) in
      if valid_argsort (z_of_int (int_of_string rule)) vals (parse_outcome out) then "ok" else "BAD"
  | "chk_csort" :: which :: rule :: n :: rest ->
      let n = int_of_string n in
      let (vs, out) = split_bar rest in
      let rec pairs = function a :: b :: r -> ZC (z_of_int (int_of_string a), z_of_int (int_of_string b)) :: pairs r | _ -> [] in
      let vals = pairs (take (2 * n) vs) in
      if valid_gen_sort (z_of_int (int_of_string rule)) vals (parse_outcome out) then "ok" else "BAD"
  | ["dispatch"; name; rule] ->
      let r = z_of_int (int_of_string rule) in
      (match name with
       | "argsort" -> res_str (argsort_dispatch r)
       | "gen_select" -> res_str (gen_select_dispatch r)
       | "gen_sort" -> res_str (gen_sort_dispatch r)
       | "herm_sort" -> (match herm_sort_check r with Ok _ -> "ok" | Throw (e, _) -> "throw " ^ implode e)
       | _ -> "ERROR unknown dispatch")
  | "m_ctor" :: cls :: n :: nev :: ncv :: [] ->
      let zi s = z_of_int (int_of_string s) in
      let show r = (match r with Ok _ -> "ok" | Throw (e, _) -> "throw " ^ implode e) in
      (match cls with
       | "herm" -> show (herm_ctor_lvalue (zi n) (zi nev) (zi ncv))
       | "herm_rvalue" -> show (herm_ctor_rvalue (zi n) (zi nev) (zi ncv))
       | "gen" -> show (gen_ctor (zi n) (zi nev) (zi ncv))
       | _ -> "ERROR unknown ctor model")
  | ["m_jd"; n; nev; ni; nm] ->
      let zi s = z_of_int (int_of_string s) in
      let r = if ni = "-1" && nm = "-1" then jd_ctor_default (zi n) (zi nev) else jd_ctor (zi n) (zi nev) (zi ni) (zi nm) in
      (match r with
       | Ok (((_, mx), ini), cs) -> Printf.sprintf "ok %d %d %d" (int_of_z mx) (int_of_z ini) (int_of_z cs)
       | Throw (e, _) -> "throw " ^ implode e)
  | ["m_svd"; r; c; k; ncv] ->
      let zi s = z_of_int (int_of_string s) in
      (match svd_ctor (zi r) (zi c) (zi k) (zi ncv) with Ok _ -> "ok" | Throw (e, _) -> "throw " ^ implode e)
  | ["m_sigma"; mode; iszero] ->
      let orc = (fun _ _ -> iszero = "1") in
      let show r = (match r with Ok _ -> "ok" | Throw (e, _) -> "throw " ^ implode e) in
      (match mode with
       | "ShiftInvert" -> show (shift_mode_check_shiftinvert orc)
       | "Buckling" -> show (shift_mode_check_buckling orc)
       | "Cayley" -> show (shift_mode_check_cayley orc)
       | _ -> "ERROR unknown mode")
  | ["m_initzero"; iszero] ->
      let orc = (fun _ _ -> iszero = "1") in
      (match arnoldi_init_check orc Z0 Z0 with Ok _ -> "ok" | Throw (e, _) -> "throw " ^ implode e)
  | ["m_wrapper"; w; r; c] ->
      let zi s = z_of_int (int_of_string s) in
      let show x = (match x with Ok _ -> "ok" | Throw (e, _) -> "throw " ^ implode e) in
      (match w with
       | "DenseGenMatProd" -> show wrapper_ctor_DenseGenMatProd
       | "DenseSymMatProd" -> show wrapper_ctor_DenseSymMatProd
       | "DenseHermMatProd" -> show wrapper_ctor_DenseHermMatProd
       | "SparseGenMatProd" -> show wrapper_ctor_SparseGenMatProd
       | "SparseSymMatProd" -> show wrapper_ctor_SparseSymMatProd
       | "SparseHermMatProd" -> show wrapper_ctor_SparseHermMatProd
       | "DenseSymShiftSolve" -> show (wrapper_ctor_DenseSymShiftSolve (zi r) (zi c))
       | "SparseSymShiftSolve" -> show (wrapper_ctor_SparseSymShiftSolve (zi r) (zi c))
       | "DenseGenRealShiftSolve" -> show (wrapper_ctor_DenseGenRealShiftSolve (zi r) (zi c))
       | "SparseGenRealShiftSolve" -> show (wrapper_ctor_SparseGenRealShiftSolve (zi r) (zi c))
       | "DenseGenComplexShiftSolve" -> show (wrapper_ctor_DenseGenComplexShiftSolve (zi r) (zi c))
       | "SparseGenComplexShiftSolve" -> show (wrapper_ctor_SparseGenComplexShiftSolve (zi r) (zi c))
       | "DenseCholesky" -> show (wrapper_ctor_DenseCholesky (zi r) (zi c))
       | "SparseCholesky" -> show (wrapper_ctor_SparseCholesky (zi r) (zi c))
       | "SparseRegularInverse" -> show (wrapper_ctor_SparseRegularInverse (zi r) (zi c))
       | _ -> "ERROR unknown wrapper")
  | ["m_wrapper2"; ar; ac; br; bc] ->
      let zi s = z_of_int (int_of_string s) in
      (match wrapper_ctor_SymShiftInvert (zi ar) (zi ac) (zi br) (zi bc) with Ok _ -> "ok" | Throw (e, _) -> "throw " ^ implode e)
  | "m_compute" :: fam :: nev :: ncv :: niter0 :: sel :: maxit :: sorting :: "|" :: vals ->
      (* replay world: num_converged / nev_adjusted return the recorded values in order *)
      let zi s = z_of_int (int_of_string s) in
      let w_replay (f : char list) (_ : z list) (st : z list) =
        (match implode f with
         | "num_converged" | "nev_adjusted" ->
             (match st with x :: r -> Ok (r, x) | [] -> Throw (explode "trace", explode "exhausted"))
         | _ -> Ok (st, Z0)) in
      let orc = (fun _ _ -> false) in
      let st0 = List.map zi vals in
      let r = (if fam = "herm" then herm_compute w_replay orc (zi nev) (zi ncv) (zi niter0) (z_of_int 1) (zi sel) (zi maxit) (zi sorting) st0
               else gen_compute w_replay orc (zi nev) (zi ncv) (zi niter0) (z_of_int 1) (zi sel) (zi maxit) (zi sorting) st0) in
      (match r with
       | Ok (((ret, niter), info), left) -> Printf.sprintf "ok %d %d %d %d" (int_of_z ret) (int_of_z niter) (int_of_z info) (List.length left)
       | Throw (e, m) -> "throw " ^ implode e ^ " " ^ implode m)
  | ["m_nevadj"; fam; nev; ncv; nconv; small; pairs] ->
      let zi s = z_of_int (int_of_string s) in
      let orc (txt : char list) (args : z list) : bool =
        let t = implode txt in
        let i = (match args with a :: _ -> int_of_z a | [] -> -1) in
        if String.length t >= 3 && String.sub t 0 3 = "abs" then (i >= 0 && i < String.length small && small.[i] = '1')
        else if String.length t >= 10 && String.sub t 0 10 = "is_complex" then (i - 1 >= 0 && i - 1 < String.length pairs && pairs.[i - 1] = '1')
        else failwith ("unknown oracle " ^ t) in
      let v = (if fam = "herm" then herm_nev_adjusted orc (zi nev) (zi ncv) (zi nconv) else gen_nev_adjusted orc (zi nev) (zi ncv) (zi nconv)) in
      string_of_int (int_of_z v)
  | _ -> "ERROR unknown-case " ^ String.concat " " toks
