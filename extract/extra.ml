(* further dispatch (sorting checker, kernels, glue); extended as models are added *)
open Model

let rec pos_of_int (n : int) : positive =
  if n = 1 then XH else if n land 1 = 1 then XI (pos_of_int (n lsr 1)) else XO (pos_of_int (n lsr 1))
let z_of_int (n : int) : z = if n = 0 then Z0 else if n > 0 then Zpos (pos_of_int n) else Zneg (pos_of_int (- n))
let rec int_of_pos (p : positive) : int = match p with XH -> 1 | XO q -> 2 * int_of_pos q | XI q -> 2 * int_of_pos q + 1
let int_of_z (x : z) : int = match x with Z0 -> 0 | Zpos p -> int_of_pos p | Zneg p -> - (int_of_pos p)
let explode (s : string) : char list = List.init (String.length s) (String.get s)
let implode (l : char list) : string = String.of_seq (List.to_seq l)

let rec take n l = if n = 0 then [] else match l with [] -> failwith "short" | x :: r -> x :: take (n - 1) r
let rec drop n l = if n = 0 then l else match l with [] -> failwith "short" | _ :: r -> drop (n - 1) r

let parse_outcome (toks : string list) : outcome =
  match toks with
  | "idx" :: r -> Indices (List.map (fun s -> z_of_int (int_of_string s)) r)
  | "throw" :: e :: _ -> Thrown (explode e)
  | _ -> Thrown (explode "unparsable")

let split_bar toks =
  let rec go acc = function [] -> (List.rev acc, []) | "|" :: r -> (List.rev acc, r) | x :: r -> go (x :: acc) r in
  go [] toks

let res_str (r : z res) : string =
  match r with Ok v -> "ok " ^ string_of_int (int_of_z v) | Throw (e, _) -> "throw " ^ implode e

let handle (toks : string list) : string =
  match toks with
  | "chk_argsort" :: rule :: n :: rest ->
      let n = int_of_string n in
      let (vs, out) = split_bar rest in
      let vals = List.map (fun s -> ZR (z_of_int (int_of_string s))) (take n vs) in
      if valid_argsort (z_of_int (int_of_string rule)) vals (parse_outcome out) then "ok" else "BAD"
  | "chk_csort" :: which :: rule :: n :: rest ->
      let n = int_of_string n in
      let (vs, out) = split_bar rest in
      let rec pairs = function a :: b :: r -> ZC (z_of_int (int_of_string a), z_of_int (int_of_string b)) :: pairs r | _ -> [] in
      let vals = pairs (take (2 * n) vs) in
      if valid_gen_sort (z_of_int (int_of_string rule)) vals (parse_outcome out) then "ok" else "BAD"
  | ["dispatch"; name; rule] ->
      let r = z_of_int (int_of_string rule) in
      (match name with
       | "argsort" -> res_str (argsort_dispatch r)
       | "gen_select" -> res_str (gen_select_dispatch r)
       | "gen_sort" -> res_str (gen_sort_dispatch r)
       | "herm_sort" -> (match herm_sort_check r with Ok _ -> "ok" | Throw (e, _) -> "throw " ^ implode e)
       | _ -> "ERROR unknown dispatch")
  | _ -> "ERROR unknown-case " ^ String.concat " " toks
