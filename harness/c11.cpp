// C11 harness: every built-in matrix-operation wrapper, instantiated over the cross product of its
// template options (triangle, storage order, storage index; dense/sparse for SymShiftInvert), run on
// the matrices of stdin.  For each case: the wrapper's output as IEEE bit patterns, whether a second
// run with different garbage in the triangle that must not be read gives bitwise the same output,
// and the relative error against a long double dense reference.
// Protocol: w <class> <opts> <n> <sigma> <sigmai> <A n*n col-major> <B n*n> <x n>
//   A, B: the full (symmetric where the class needs it) matrices; B is SPD.
//   opts: letters  L|U (triangle)  C|R (storage order)  i|l (storage index)  - as many as the class has;
//         SymShiftInvert: D|S D|S L|U L|U C|R C|R
#include <Eigen/Core>
#include <Eigen/Dense>
#include <Eigen/Sparse>
#include <complex>
#include <vector>
#include <string>
#include <iostream>
#include <sstream>
#include <Spectra/Util/CompInfo.h>
#include <Spectra/MatOp/DenseSymMatProd.h>
#include <Spectra/MatOp/DenseHermMatProd.h>
#include <Spectra/MatOp/DenseGenMatProd.h>
#include <Spectra/MatOp/DenseCholesky.h>
#include <Spectra/MatOp/DenseSymShiftSolve.h>
#include <Spectra/MatOp/DenseGenRealShiftSolve.h>
#include <Spectra/MatOp/DenseGenComplexShiftSolve.h>
#include <Spectra/MatOp/SparseSymMatProd.h>
#include <Spectra/MatOp/SparseHermMatProd.h>
#include <Spectra/MatOp/SparseGenMatProd.h>
#include <Spectra/MatOp/SparseCholesky.h>
#include <Spectra/MatOp/SparseSymShiftSolve.h>
#include <Spectra/MatOp/SparseGenRealShiftSolve.h>
#include <Spectra/MatOp/SparseGenComplexShiftSolve.h>
#include <Spectra/MatOp/SparseRegularInverse.h>
#include <Spectra/MatOp/SymShiftInvert.h>
#include "common.h"
// history: the second operator object of every pair has already been shifted elsewhere once (a shift that may be singular is
// allowed to throw); set_shift must describe its own call only, so both objects must then agree
#define HIST(call) do { try { call; } catch (...) {} } while (0)
using namespace Spectra;
typedef Eigen::MatrixXd Mat;
typedef Eigen::VectorXd Vec;
typedef long double LD;
typedef Eigen::Matrix<LD, Eigen::Dynamic, Eigen::Dynamic> LMat;
typedef Eigen::Matrix<LD, Eigen::Dynamic, 1> LVec;
typedef std::complex<double> cd;
typedef std::complex<LD> cl;
typedef Eigen::Matrix<cl, Eigen::Dynamic, Eigen::Dynamic> LCMat;
typedef Eigen::Matrix<cl, Eigen::Dynamic, 1> LCVec;

struct Case { long n; double sigma, sigmai; Mat A, B; Vec x; Mat Im; };   // Im: antisymmetric imaginary part for the Hermitian classes

// the matrix handed to a wrapper: designated triangle from M, garbage (variant g) elsewhere
template <typename S> static S garbage(int g, long i, long j) { return g == 0 ? S(1000.0 + i - 2 * j) : S(-777.0 - 3 * i + j); }
template <typename MatT>
static MatT with_garbage(const MatT& M, int uplo, int g)
{
    MatT R = M; typedef typename MatT::Scalar S;
    for (long i = 0; i < M.rows(); i++) for (long j = 0; j < M.cols(); j++)
        if ((uplo == Eigen::Lower && i < j) || (uplo == Eigen::Upper && i > j)) R(i, j) = garbage<S>(g, i, j);
    return R;
}
static void putv(std::ostringstream& o, const Vec& v) { for (long i = 0; i < v.size(); i++) o << bits(v[i]) << ' '; }
static bool same_bits(const Vec& a, const Vec& b) { return a.size() == b.size() && std::memcmp(a.data(), b.data(), sizeof(double) * a.size()) == 0; }
static bool same_bits(const Eigen::VectorXcd& a, const Eigen::VectorXcd& b) { return a.size() == b.size() && std::memcmp(a.data(), b.data(), sizeof(cd) * a.size()) == 0; }
static double relerr(const Vec& y, const LVec& ref) { LD d = (y.cast<LD>() - ref).norm(), r = ref.norm(); return (double) (r > 0 ? d / r : d); }
static std::string report(const Vec& y1, const Vec& y2, const LVec& ref)
{
    std::ostringstream o; o.precision(6); o << "ok " << (same_bits(y1, y2) ? 1 : 0) << ' ' << relerr(y1, ref) << ' '; putv(o, y1); return o.str();
}
template <typename F> static std::string guarded(F f)
{
    try { return f(); }
    catch (const std::invalid_argument&) { return "throw invalid_argument"; }
    catch (const std::runtime_error&) { return "throw runtime_error"; }
    catch (const std::exception&) { return "throw other"; }
}

// ------------------------------------------------------------------ dense symmetric family
template <int Uplo, int Flags>
static std::string dense_sym(const std::string& cls, const Case& c)
{
    typedef Eigen::Matrix<double, Eigen::Dynamic, Eigen::Dynamic, Flags> M;
    const long n = c.n; LMat LA = c.A.cast<LD>(), LB = c.B.cast<LD>(); LVec lx = c.x.cast<LD>();
    M A0 = with_garbage<M>(c.A, Uplo, 0), A1 = with_garbage<M>(c.A, Uplo, 1), B0 = with_garbage<M>(c.B, Uplo, 0), B1 = with_garbage<M>(c.B, Uplo, 1);
    Vec y0(n), y1(n);
    if (cls == "DenseSymMatProd")
    {
        DenseSymMatProd<double, Uplo, Flags> o0(A0), o1(A1); o0.perform_op(c.x.data(), y0.data()); o1.perform_op(c.x.data(), y1.data());
        Mat X2(n, 2); X2.col(0) = c.x; X2.col(1) = c.x.reverse(); Mat Y2 = o0 * X2;     // operator* agrees with perform_op
        if ((Vec(Y2.col(0)) - y0).norm() > 1e-13 * (y0.norm() + 1.0)) return "mismatch operator*";
        return report(y0, y1, LA * lx);
    }
    if (cls == "DenseCholesky")
    {
        DenseCholesky<double, Uplo, Flags> o0(B0), o1(B1); Vec t0(n), t1(n);
        if (o0.info() != CompInfo::Successful) return "throw info";
        o0.lower_triangular_solve(c.x.data(), t0.data()); o0.upper_triangular_solve(t0.data(), y0.data());
        o1.lower_triangular_solve(c.x.data(), t1.data()); o1.upper_triangular_solve(t1.data(), y1.data());
        // L^-T L^-1 x = B^-1 x, and |L^-1 x|^2 = x' B^-1 x
        LVec ref = LB.fullPivLu().solve(lx);
        LD q = lx.dot(ref), q0 = t0.cast<LD>().squaredNorm();
        if (std::abs((double) ((q - q0) / q)) > 1e-10) return "mismatch |L^-1 x|^2";
        return report(y0, y1, ref);
    }
    if (cls == "DenseSymShiftSolve")
    {
        DenseSymShiftSolve<double, Uplo, Flags> o0(A0), o1(A1); o0.set_shift(c.sigma); HIST(o1.set_shift(c.sigma + 0.625)); o1.set_shift(c.sigma);
        o0.perform_op(c.x.data(), y0.data()); o1.perform_op(c.x.data(), y1.data());
        LMat S = LA - LD(c.sigma) * LMat::Identity(n, n);
        return report(y0, y1, S.fullPivLu().solve(lx));
    }
    if (cls == "DenseHermMatProd")
    {
        typedef Eigen::Matrix<cd, Eigen::Dynamic, Eigen::Dynamic, Flags> CM;
        CM H(n, n); for (long i = 0; i < n; i++) for (long j = 0; j < n; j++) H(i, j) = cd(c.A(i, j), c.Im(i, j));
        CM H0 = with_garbage<CM>(H, Uplo, 0), H1 = with_garbage<CM>(H, Uplo, 1);
        // garbage on the diagonal's imaginary part must not matter either? (selfadjointView takes the real part) - left as given
        Eigen::VectorXcd xc(n), z0(n), z1(n); for (long i = 0; i < n; i++) xc[i] = cd(c.x[i], c.x[n - 1 - i]);
        DenseHermMatProd<cd, Uplo, Flags> o0(H0), o1(H1); o0.perform_op(xc.data(), z0.data()); o1.perform_op(xc.data(), z1.data());
        LCMat LH = H.template cast<cl>(); LCVec ref = LH * xc.cast<cl>();
        LD d = (z0.cast<cl>() - ref).norm() / ref.norm();
        std::ostringstream o; o.precision(6); o << "ok " << (same_bits(z0, z1) ? 1 : 0) << ' ' << (double) d << ' ';
        for (long i = 0; i < n; i++) o << bits(z0[i].real()) << ' ' << bits(z0[i].imag()) << ' ';
        return o.str();
    }
    return "unknown class";
}

// ------------------------------------------------------------------ dense general family
template <int Flags>
static std::string dense_gen(const std::string& cls, const Case& c)
{
    typedef Eigen::Matrix<double, Eigen::Dynamic, Eigen::Dynamic, Flags> M;
    const long n = c.n; LMat LA = c.A.cast<LD>(); LVec lx = c.x.cast<LD>();
    M A0 = c.A; Vec y0(n), y1(n);
    // also through a block of a larger matrix and through a Map (the wrappers take Eigen::Ref)
    M big = M::Constant(n + 3, n + 2, 5.5); big.block(1, 2, n, n) = c.A;
    if (cls == "DenseGenMatProd")
    {
        DenseGenMatProd<double, Flags> o0(A0), o1(big.block(1, 2, n, n)); o0.perform_op(c.x.data(), y0.data()); o1.perform_op(c.x.data(), y1.data());
        return report(y0, y1, LA * lx);
    }
    if (cls == "DenseGenRealShiftSolve")
    {
        DenseGenRealShiftSolve<double, Flags> o0(A0), o1(big.block(1, 2, n, n)); o0.set_shift(c.sigma); HIST(o1.set_shift(c.sigma + 0.625)); o1.set_shift(c.sigma);
        o0.perform_op(c.x.data(), y0.data()); o1.perform_op(c.x.data(), y1.data());
        LMat S = LA - LD(c.sigma) * LMat::Identity(n, n);
        return report(y0, y1, S.fullPivLu().solve(lx));
    }
    if (cls == "DenseGenComplexShiftSolve")
    {
        DenseGenComplexShiftSolve<double, Flags> o0(A0), o1(big.block(1, 2, n, n)); o0.set_shift(c.sigma, c.sigmai); HIST(o1.set_shift(c.sigma + 0.625, c.sigmai + 0.25)); o1.set_shift(c.sigma, c.sigmai);
        o0.perform_op(c.x.data(), y0.data()); o1.perform_op(c.x.data(), y1.data());
        LCMat S = LA.cast<cl>() - cl(c.sigma, c.sigmai) * LCMat::Identity(n, n);
        LCVec z = S.fullPivLu().solve(lx.cast<cl>());
        return report(y0, y1, z.real());
    }
    return "unknown class";
}

// ------------------------------------------------------------------ sparse families
template <typename SpM, typename DM> static SpM to_sparse(const DM& D)
{
    SpM S(D.rows(), D.cols()); typedef Eigen::Triplet<typename SpM::Scalar, typename SpM::StorageIndex> Tr; std::vector<Tr> t;
    for (long j = 0; j < D.cols(); j++) for (long i = 0; i < D.rows(); i++) if (D(i, j) != typename SpM::Scalar(0)) t.push_back(Tr(i, j, D(i, j)));
    S.setFromTriplets(t.begin(), t.end()); S.makeCompressed(); return S;
}
template <int Uplo, int Flags, typename SI>
static std::string sparse_sym(const std::string& cls, const Case& c)
{
    typedef Eigen::SparseMatrix<double, Flags, SI> SpM;
    const long n = c.n; LMat LA = c.A.cast<LD>(), LB = c.B.cast<LD>(); LVec lx = c.x.cast<LD>();
    SpM A0 = to_sparse<SpM>(with_garbage<Mat>(c.A, Uplo, 0)), A1 = to_sparse<SpM>(with_garbage<Mat>(c.A, Uplo, 1));
    SpM B0 = to_sparse<SpM>(with_garbage<Mat>(c.B, Uplo, 0)), B1 = to_sparse<SpM>(with_garbage<Mat>(c.B, Uplo, 1));
    Vec y0(n), y1(n);
    if (cls == "SparseSymMatProd")
    {
        SparseSymMatProd<double, Uplo, Flags, SI> o0(A0), o1(A1); o0.perform_op(c.x.data(), y0.data()); o1.perform_op(c.x.data(), y1.data());
        Mat X2(n, 2); X2.col(0) = c.x; X2.col(1) = c.x.reverse(); Mat Y2 = o0 * X2;
        if ((Vec(Y2.col(0)) - y0).norm() > 1e-13 * (y0.norm() + 1.0)) return "mismatch operator*";
        return report(y0, y1, LA * lx);
    }
    if (cls == "SparseCholesky")
    {
        SparseCholesky<double, Uplo, Flags, SI> o0(B0), o1(B1); Vec t0(n), t1(n);
        if (o0.info() != CompInfo::Successful) return "throw info";
        o0.lower_triangular_solve(c.x.data(), t0.data()); o0.upper_triangular_solve(t0.data(), y0.data());
        o1.lower_triangular_solve(c.x.data(), t1.data()); o1.upper_triangular_solve(t1.data(), y1.data());
        LVec ref = LB.fullPivLu().solve(lx);
        LD q = lx.dot(ref), q0 = t0.cast<LD>().squaredNorm();
        if (std::abs((double) ((q - q0) / q)) > 1e-10) return "mismatch |L^-1 x|^2";
        return report(y0, y1, ref);
    }
    if (cls == "SparseSymShiftSolve")
    {
        SparseSymShiftSolve<double, Uplo, Flags, SI> o0(A0), o1(A1); o0.set_shift(c.sigma); HIST(o1.set_shift(c.sigma + 0.625)); o1.set_shift(c.sigma);
        o0.perform_op(c.x.data(), y0.data()); o1.perform_op(c.x.data(), y1.data());
        LMat S = LA - LD(c.sigma) * LMat::Identity(n, n);
        return report(y0, y1, S.fullPivLu().solve(lx));
    }
    if (cls == "SparseRegularInverse")
    {
        SparseRegularInverse<double, Uplo, Flags, SI> o0(B0), o1(B1); Vec p0(n), p1(n);
        o0.solve(c.x.data(), y0.data()); o1.solve(c.x.data(), y1.data());
        o0.perform_op(c.x.data(), p0.data()); o1.perform_op(c.x.data(), p1.data());
        if (!same_bits(p0, p1)) return "ok 0 0 (perform_op reads the other triangle)";
        if (relerr(p0, LB * lx) > 1e-12) return "mismatch B x";
        // CG is iterative: both runs must agree to its tolerance rather than bitwise; reported as the relative difference
        std::ostringstream o; o.precision(6);
        o << "ok " << ((y0 - y1).norm() <= 1e-10 * y0.norm() ? 1 : 0) << ' ' << relerr(y0, LB.fullPivLu().solve(lx)) << ' '; putv(o, y0); return o.str();
    }
    if (cls == "SparseHermMatProd")
    {
        typedef Eigen::SparseMatrix<cd, Flags, SI> CSp; typedef Eigen::MatrixXcd CM;
        CM H(n, n); for (long i = 0; i < n; i++) for (long j = 0; j < n; j++) H(i, j) = cd(c.A(i, j), c.Im(i, j));
        CSp H0 = to_sparse<CSp>(with_garbage<CM>(H, Uplo, 0)), H1 = to_sparse<CSp>(with_garbage<CM>(H, Uplo, 1));
        Eigen::VectorXcd xc(n), z0(n), z1(n); for (long i = 0; i < n; i++) xc[i] = cd(c.x[i], c.x[n - 1 - i]);
        SparseHermMatProd<cd, Uplo, Flags, SI> o0(H0), o1(H1); o0.perform_op(xc.data(), z0.data()); o1.perform_op(xc.data(), z1.data());
        LCMat LH = H.cast<cl>(); LCVec ref = LH * xc.cast<cl>();
        LD d = (z0.cast<cl>() - ref).norm() / ref.norm();
        std::ostringstream o; o.precision(6); o << "ok " << (same_bits(z0, z1) ? 1 : 0) << ' ' << (double) d << ' ';
        for (long i = 0; i < n; i++) o << bits(z0[i].real()) << ' ' << bits(z0[i].imag()) << ' ';
        return o.str();
    }
    return "unknown class";
}
template <int Flags, typename SI>
static std::string sparse_gen(const std::string& cls, const Case& c)
{
    typedef Eigen::SparseMatrix<double, Flags, SI> SpM;
    const long n = c.n; LMat LA = c.A.cast<LD>(); LVec lx = c.x.cast<LD>();
    SpM A0 = to_sparse<SpM>(c.A); Vec y0(n), y1(n);
    if (cls == "SparseGenMatProd")
    {
        SparseGenMatProd<double, Flags, SI> o0(A0), o1(A0); o0.perform_op(c.x.data(), y0.data()); o1.perform_op(c.x.data(), y1.data());
        return report(y0, y1, LA * lx);
    }
    if (cls == "SparseGenRealShiftSolve")
    {
        SparseGenRealShiftSolve<double, Flags, SI> o0(A0), o1(A0); o0.set_shift(c.sigma); HIST(o1.set_shift(c.sigma + 0.625)); o1.set_shift(c.sigma);
        o0.perform_op(c.x.data(), y0.data()); o1.perform_op(c.x.data(), y1.data());
        LMat S = LA - LD(c.sigma) * LMat::Identity(n, n);
        return report(y0, y1, S.fullPivLu().solve(lx));
    }
    if (cls == "SparseGenComplexShiftSolve")
    {
        SparseGenComplexShiftSolve<double, Flags, SI> o0(A0), o1(A0); o0.set_shift(c.sigma, c.sigmai); HIST(o1.set_shift(c.sigma + 0.625, c.sigmai + 0.25)); o1.set_shift(c.sigma, c.sigmai);
        o0.perform_op(c.x.data(), y0.data()); o1.perform_op(c.x.data(), y1.data());
        LCMat S = LA.cast<cl>() - cl(c.sigma, c.sigmai) * LCMat::Identity(n, n);
        LCVec z = S.fullPivLu().solve(lx.cast<cl>());
        return report(y0, y1, z.real());
    }
    return "unknown class";
}

// ------------------------------------------------------------------ SymShiftInvert: 64 combinations
template <typename TA, typename TB, int UA, int UB, int FA, int FB> struct SSI
{
    typedef Eigen::Matrix<double, Eigen::Dynamic, Eigen::Dynamic, FA> DA; typedef Eigen::Matrix<double, Eigen::Dynamic, Eigen::Dynamic, FB> DB;
    typedef Eigen::SparseMatrix<double, FA, int> SA; typedef Eigen::SparseMatrix<double, FB, int> SB;
    typedef typename std::conditional<std::is_same<TA, Eigen::Sparse>::value, SA, DA>::type MA;
    typedef typename std::conditional<std::is_same<TB, Eigen::Sparse>::value, SB, DB>::type MB;
    static MA makeA(const Mat& M, std::true_type) { return to_sparse<SA>(M); }
    static MA makeA(const Mat& M, std::false_type) { return DA(M); }
    static MB makeB(const Mat& M, std::true_type) { return to_sparse<SB>(M); }
    static MB makeB(const Mat& M, std::false_type) { return DB(M); }
    static std::string run(const Case& c)
    {
        const long n = c.n; Vec y0(n), y1(n);
        typedef std::integral_constant<bool, std::is_same<TA, Eigen::Sparse>::value> ASp; typedef std::integral_constant<bool, std::is_same<TB, Eigen::Sparse>::value> BSp;
        MA A0 = makeA(with_garbage<Mat>(c.A, UA, 0), ASp()), A1 = makeA(with_garbage<Mat>(c.A, UA, 1), ASp());
        MB B0 = makeB(with_garbage<Mat>(c.B, UB, 0), BSp()), B1 = makeB(with_garbage<Mat>(c.B, UB, 1), BSp());
        SymShiftInvert<double, TA, TB, UA, UB, FA, FB> o0(A0, B0), o1(A1, B1); o0.set_shift(c.sigma); HIST(o1.set_shift(c.sigma + 0.625)); o1.set_shift(c.sigma);
        o0.perform_op(c.x.data(), y0.data()); o1.perform_op(c.x.data(), y1.data());
        LMat S = c.A.cast<LD>() - LD(c.sigma) * c.B.cast<LD>();
        return report(y0, y1, S.fullPivLu().solve(c.x.cast<LD>()));
    }
};
template <typename TA, typename TB, int UA, int UB> static std::string ssi4(char fa, char fb, const Case& c)
{
    if (fa == 'C' && fb == 'C') return SSI<TA, TB, UA, UB, Eigen::ColMajor, Eigen::ColMajor>::run(c);
    if (fa == 'C' && fb == 'R') return SSI<TA, TB, UA, UB, Eigen::ColMajor, Eigen::RowMajor>::run(c);
    if (fa == 'R' && fb == 'C') return SSI<TA, TB, UA, UB, Eigen::RowMajor, Eigen::ColMajor>::run(c);
    return SSI<TA, TB, UA, UB, Eigen::RowMajor, Eigen::RowMajor>::run(c);
}
template <typename TA, typename TB> static std::string ssi16(char ua, char ub, char fa, char fb, const Case& c)
{
    if (ua == 'L' && ub == 'L') return ssi4<TA, TB, Eigen::Lower, Eigen::Lower>(fa, fb, c);
    if (ua == 'L' && ub == 'U') return ssi4<TA, TB, Eigen::Lower, Eigen::Upper>(fa, fb, c);
    if (ua == 'U' && ub == 'L') return ssi4<TA, TB, Eigen::Upper, Eigen::Lower>(fa, fb, c);
    return ssi4<TA, TB, Eigen::Upper, Eigen::Upper>(fa, fb, c);
}
static std::string ssi(const std::string& o, const Case& c)
{
    if (o[0] == 'D' && o[1] == 'D') return ssi16<Eigen::Dense, Eigen::Dense>(o[2], o[3], o[4], o[5], c);
    if (o[0] == 'D' && o[1] == 'S') return ssi16<Eigen::Dense, Eigen::Sparse>(o[2], o[3], o[4], o[5], c);
    if (o[0] == 'S' && o[1] == 'D') return ssi16<Eigen::Sparse, Eigen::Dense>(o[2], o[3], o[4], o[5], c);
    return ssi16<Eigen::Sparse, Eigen::Sparse>(o[2], o[3], o[4], o[5], c);
}

static bool is_in(const std::string& s, std::initializer_list<const char*> l) { for (auto x : l) if (s == x) return true; return false; }

static std::string dispatch(const std::string& cls, const std::string& o, const Case& c)
{
    if (cls == "SymShiftInvert") return ssi(o, c);
    if (is_in(cls, {"DenseSymMatProd", "DenseHermMatProd", "DenseCholesky", "DenseSymShiftSolve"}))
    {
        if (o[0] == 'L' && o[1] == 'C') return dense_sym<Eigen::Lower, Eigen::ColMajor>(cls, c);
        if (o[0] == 'L' && o[1] == 'R') return dense_sym<Eigen::Lower, Eigen::RowMajor>(cls, c);
        if (o[0] == 'U' && o[1] == 'C') return dense_sym<Eigen::Upper, Eigen::ColMajor>(cls, c);
        return dense_sym<Eigen::Upper, Eigen::RowMajor>(cls, c);
    }
    if (is_in(cls, {"DenseGenMatProd", "DenseGenRealShiftSolve", "DenseGenComplexShiftSolve"}))
        return o[0] == 'C' ? dense_gen<Eigen::ColMajor>(cls, c) : dense_gen<Eigen::RowMajor>(cls, c);
    if (is_in(cls, {"SparseSymMatProd", "SparseHermMatProd", "SparseCholesky", "SparseSymShiftSolve", "SparseRegularInverse"}))
    {
        const bool lo = o[0] == 'L', cm = o[1] == 'C', in = o[2] == 'i';
        if (lo && cm && in) return sparse_sym<Eigen::Lower, Eigen::ColMajor, int>(cls, c);
        if (lo && cm && !in) return sparse_sym<Eigen::Lower, Eigen::ColMajor, long>(cls, c);
        if (lo && !cm && in) return sparse_sym<Eigen::Lower, Eigen::RowMajor, int>(cls, c);
        if (lo && !cm && !in) return sparse_sym<Eigen::Lower, Eigen::RowMajor, long>(cls, c);
        if (!lo && cm && in) return sparse_sym<Eigen::Upper, Eigen::ColMajor, int>(cls, c);
        if (!lo && cm && !in) return sparse_sym<Eigen::Upper, Eigen::ColMajor, long>(cls, c);
        if (!lo && !cm && in) return sparse_sym<Eigen::Upper, Eigen::RowMajor, int>(cls, c);
        return sparse_sym<Eigen::Upper, Eigen::RowMajor, long>(cls, c);
    }
    if (is_in(cls, {"SparseGenMatProd", "SparseGenRealShiftSolve", "SparseGenComplexShiftSolve"}))
    {
        const bool cm = o[0] == 'C', in = o[1] == 'i';
        if (cm && in) return sparse_gen<Eigen::ColMajor, int>(cls, c);
        if (cm && !in) return sparse_gen<Eigen::ColMajor, long>(cls, c);
        if (!cm && in) return sparse_gen<Eigen::RowMajor, int>(cls, c);
        return sparse_gen<Eigen::RowMajor, long>(cls, c);
    }
    return "unknown class";
}

int main()
{
    std::string line;
    while (std::getline(std::cin, line))
    {
        std::vector<std::string> t = split(line);
        if (t.empty()) { std::cout << "\n"; continue; }
        std::string out;
        try
        {
            if (t[0] == "w")
            {
                Case c; size_t i = 3; c.n = std::stol(t[i++]); c.sigma = from_bits(t[i++]); c.sigmai = from_bits(t[i++]);
                const long n = c.n; c.A.resize(n, n); c.B.resize(n, n); c.x.resize(n); c.Im = Mat::Zero(n, n);
                for (long j = 0; j < n; j++) for (long k = 0; k < n; k++) c.A(k, j) = from_bits(t.at(i++));
                for (long j = 0; j < n; j++) for (long k = 0; k < n; k++) c.B(k, j) = from_bits(t.at(i++));
                for (long k = 0; k < n; k++) c.x[k] = from_bits(t.at(i++));
                for (long j = 0; j < n; j++) for (long k = j + 1; k < n; k++) { double v = 0.25 * c.A(k, j) + 0.5; c.Im(k, j) = v; c.Im(j, k) = -v; }
                const std::string cls = t[1], o = t[2];
                out = guarded([&]() { return dispatch(cls, o, c); });
            }
            else out = "unknown command";
        }
        catch (const std::exception& e) { out = std::string("error ") + e.what(); }
        std::cout << out << "\n";
    }
    return 0;
}
