// C12 harness: constructor / init / shift argument validation of every solver and wrapper.
//   ctor <class> <n> <nev> <ncv>           -> ok | throw <type>
//   jd <n> <nev> <nvec_init> <nvec_max>    -> ok <max> <init> <corr> | throw <type>   (-1 -1: two-argument constructor)
//   svd <rows> <cols> <ncomp> <ncv>        -> ok | throw <type>
//   sigma <mode> <sigma>                   -> ok | throw <type>
//   initzero <class>                       -> ok | throw <type>
//   wrapper <name> <rows> <cols>           -> ok | throw <type>
//   wrapper2 <ar> <ac> <br> <bc>           -> ok | throw <type>       (SymShiftInvert dense/dense)
#include <Eigen/Core>
#include <Eigen/SparseCore>
#include <complex>
#include <memory>
#include <vector>
#include <string>
#include <sstream>
#include <iostream>
#define protected public
#include <Spectra/JDSymEigsBase.h>
#undef protected
#include <Spectra/SymEigsSolver.h>
#include <Spectra/HermEigsSolver.h>
#include <Spectra/SymEigsShiftSolver.h>
#include <Spectra/GenEigsSolver.h>
#include <Spectra/GenEigsRealShiftSolver.h>
#include <Spectra/GenEigsComplexShiftSolver.h>
#include <Spectra/SymGEigsSolver.h>
#include <Spectra/SymGEigsShiftSolver.h>
#include <Spectra/DavidsonSymEigsSolver.h>
#include <Spectra/contrib/PartialSVDSolver.h>
#include <Spectra/MatOp/DenseGenMatProd.h>
#include <Spectra/MatOp/DenseSymMatProd.h>
#include <Spectra/MatOp/DenseHermMatProd.h>
#include <Spectra/MatOp/SparseGenMatProd.h>
#include <Spectra/MatOp/SparseSymMatProd.h>
#include <Spectra/MatOp/SparseHermMatProd.h>
#include <Spectra/MatOp/DenseSymShiftSolve.h>
#include <Spectra/MatOp/SparseSymShiftSolve.h>
#include <Spectra/MatOp/DenseGenRealShiftSolve.h>
#include <Spectra/MatOp/SparseGenRealShiftSolve.h>
#include <Spectra/MatOp/DenseGenComplexShiftSolve.h>
#include <Spectra/MatOp/SparseGenComplexShiftSolve.h>
#include <Spectra/MatOp/DenseCholesky.h>
#include <Spectra/MatOp/SparseCholesky.h>
#include <Spectra/MatOp/SparseRegularInverse.h>
#include <Spectra/MatOp/SymShiftInvert.h>
#include "common.h"
using namespace Spectra;
typedef std::complex<double> cd;
typedef Eigen::MatrixXd Mat;
typedef Eigen::SparseMatrix<double> SpMat;

static std::string what(const std::exception& e)
{
    if (dynamic_cast<const std::invalid_argument*>(&e)) return "throw invalid_argument";
    if (dynamic_cast<const std::logic_error*>(&e)) return "throw logic_error";
    if (dynamic_cast<const std::runtime_error*>(&e)) return "throw runtime_error";
    if (dynamic_cast<const std::bad_alloc*>(&e)) return "throw bad_alloc";
    return "throw other";
}
static Mat sym(int n)
{
    Mat A(n, n);
    for (int i = 0; i < n; i++) for (int j = 0; j < n; j++) A(i, j) = ((i * 7 + j * 3) % 11) / 11.0;
    A = (A + A.transpose()).eval() * 0.5;
    for (int i = 0; i < n; i++) A(i, i) += i + 1.0;
    return A;
}
static Mat spd(int n) { Mat A = sym(n); for (int i = 0; i < n; i++) A(i, i) += 2.0 * n; return A; }
static Mat gen(int r, int c)
{
    Mat A(r, c);
    for (int i = 0; i < r; i++) for (int j = 0; j < c; j++) A(i, j) = ((i * 5 + j * 3) % 7) / 7.0 + (i == j ? 2.0 + i : 0.0);
    return A;
}

static std::string ctor(const std::string& cls, int n, long nev, long ncv)
{
    Mat A = sym(n), B = spd(n), G = gen(n, n);
    if (cls == "SymEigsSolver") { DenseSymMatProd<double> op(A); SymEigsSolver<DenseSymMatProd<double>> s(op, nev, ncv); }
    else if (cls == "HermEigsSolver") { Eigen::MatrixXcd H = A.cast<cd>(); DenseHermMatProd<cd> op(H); HermEigsSolver<DenseHermMatProd<cd>> s(op, nev, ncv); }
    else if (cls == "SymEigsShiftSolver") { DenseSymShiftSolve<double> op(A); SymEigsShiftSolver<DenseSymShiftSolve<double>> s(op, nev, ncv, 0.3); }
    else if (cls == "GenEigsSolver") { DenseGenMatProd<double> op(G); GenEigsSolver<DenseGenMatProd<double>> s(op, nev, ncv); }
    else if (cls == "GenEigsRealShiftSolver") { DenseGenRealShiftSolve<double> op(G); GenEigsRealShiftSolver<DenseGenRealShiftSolve<double>> s(op, nev, ncv, 0.3); }
    else if (cls == "GenEigsComplexShiftSolver") { DenseGenComplexShiftSolve<double> op(G); GenEigsComplexShiftSolver<DenseGenComplexShiftSolve<double>> s(op, nev, ncv, 0.3, 0.2); }
    else if (cls == "SymGEigsSolver_Cholesky") { DenseSymMatProd<double> op(A); DenseCholesky<double> Bop(B); SymGEigsSolver<DenseSymMatProd<double>, DenseCholesky<double>, GEigsMode::Cholesky> s(op, Bop, nev, ncv); }
    else if (cls == "SymGEigsSolver_RegularInverse") { SpMat As = A.sparseView(), Bs = B.sparseView(); SparseSymMatProd<double> op(As); SparseRegularInverse<double> Bop(Bs); SymGEigsSolver<SparseSymMatProd<double>, SparseRegularInverse<double>, GEigsMode::RegularInverse> s(op, Bop, nev, ncv); }
    else if (cls == "SymGEigsShiftSolver_ShiftInvert") { typedef SymShiftInvert<double, Eigen::Dense, Eigen::Dense> Op; Op op(A, B); DenseSymMatProd<double> Bop(B); SymGEigsShiftSolver<Op, DenseSymMatProd<double>, GEigsMode::ShiftInvert> s(op, Bop, nev, ncv, 0.3); }
    else if (cls == "SymGEigsShiftSolver_Buckling") { typedef SymShiftInvert<double, Eigen::Dense, Eigen::Dense> Op; Op op(B, A); DenseSymMatProd<double> Bop(B); SymGEigsShiftSolver<Op, DenseSymMatProd<double>, GEigsMode::Buckling> s(op, Bop, nev, ncv, 0.3); }
    else if (cls == "SymGEigsShiftSolver_Cayley") { typedef SymShiftInvert<double, Eigen::Dense, Eigen::Dense> Op; Op op(A, B); DenseSymMatProd<double> Bop(B); SymGEigsShiftSolver<Op, DenseSymMatProd<double>, GEigsMode::Cayley> s(op, Bop, nev, ncv, 0.3); }
    else return "ERROR unknown class";
    return "ok";
}

static std::string sigma_mode(const std::string& mode, double sigma)
{
    const int n = 6; Mat A = sym(n), B = spd(n);
    typedef SymShiftInvert<double, Eigen::Dense, Eigen::Dense> Op;
    DenseSymMatProd<double> Bop(B);
    if (mode == "ShiftInvert") { Op op(A, B); SymGEigsShiftSolver<Op, DenseSymMatProd<double>, GEigsMode::ShiftInvert> s(op, Bop, 2, 4, sigma); }
    else if (mode == "Buckling") { Op op(B, A); SymGEigsShiftSolver<Op, DenseSymMatProd<double>, GEigsMode::Buckling> s(op, Bop, 2, 4, sigma); }
    else if (mode == "Cayley") { Op op(A, B); SymGEigsShiftSolver<Op, DenseSymMatProd<double>, GEigsMode::Cayley> s(op, Bop, 2, 4, sigma); }
    else return "ERROR unknown mode";
    return "ok";
}

static std::string initzero(const std::string& cls, double scale)
{
    const int n = 7; Mat A = sym(n), G = gen(n, n);
    Eigen::VectorXd z = Eigen::VectorXd::Zero(n);
    if (scale != 0) z[3] = scale;
    if (cls == "SymEigsSolver") { DenseSymMatProd<double> op(A); SymEigsSolver<DenseSymMatProd<double>> s(op, 2, 5); s.init(z.data()); }
    else if (cls == "GenEigsSolver") { DenseGenMatProd<double> op(G); GenEigsSolver<DenseGenMatProd<double>> s(op, 2, 5); s.init(z.data()); }
    else if (cls == "HermEigsSolver") { Eigen::MatrixXcd H = A.cast<cd>(); Eigen::VectorXcd zc = z.cast<cd>(); DenseHermMatProd<cd> op(H); HermEigsSolver<DenseHermMatProd<cd>> s(op, 2, 5); s.init(zc.data()); }
    else if (cls == "SymEigsShiftSolver") { DenseSymShiftSolve<double> op(A); SymEigsShiftSolver<DenseSymShiftSolve<double>> s(op, 2, 5, 0.3); s.init(z.data()); }
    else return "ERROR unknown class";
    return "ok";
}

template <typename W> static std::string mk_dense(int r, int c) { Mat M = gen(r, c); W w(M); return "ok"; }
template <typename W> static std::string mk_sparse(int r, int c) { SpMat M = gen(r, c).sparseView(); W w(M); return "ok"; }
template <typename W> static std::string mk_cdense(int r, int c) { Eigen::MatrixXcd M = gen(r, c).cast<cd>(); W w(M); return "ok"; }
template <typename W> static std::string mk_csparse(int r, int c) { Eigen::SparseMatrix<cd> M = gen(r, c).cast<cd>().sparseView(); W w(M); return "ok"; }

static std::string wrapper(const std::string& w, int r, int c)
{
    if (w == "DenseGenMatProd") return mk_dense<DenseGenMatProd<double>>(r, c);
    if (w == "DenseSymMatProd") return mk_dense<DenseSymMatProd<double>>(r, c);
    if (w == "DenseHermMatProd") return mk_cdense<DenseHermMatProd<cd>>(r, c);
    if (w == "SparseGenMatProd") return mk_sparse<SparseGenMatProd<double>>(r, c);
    if (w == "SparseSymMatProd") return mk_sparse<SparseSymMatProd<double>>(r, c);
    if (w == "SparseHermMatProd") return mk_csparse<SparseHermMatProd<cd>>(r, c);
    if (w == "DenseSymShiftSolve") return mk_dense<DenseSymShiftSolve<double>>(r, c);
    if (w == "SparseSymShiftSolve") return mk_sparse<SparseSymShiftSolve<double>>(r, c);
    if (w == "DenseGenRealShiftSolve") return mk_dense<DenseGenRealShiftSolve<double>>(r, c);
    if (w == "SparseGenRealShiftSolve") return mk_sparse<SparseGenRealShiftSolve<double>>(r, c);
    if (w == "DenseGenComplexShiftSolve") return mk_dense<DenseGenComplexShiftSolve<double>>(r, c);
    if (w == "SparseGenComplexShiftSolve") return mk_sparse<SparseGenComplexShiftSolve<double>>(r, c);
    if (w == "DenseCholesky") return mk_dense<DenseCholesky<double>>(r, c);
    if (w == "SparseCholesky") return mk_sparse<SparseCholesky<double>>(r, c);
    if (w == "SparseRegularInverse") return mk_sparse<SparseRegularInverse<double>>(r, c);
    return "ERROR unknown wrapper";
}

int main()
{
    std::string line;
    while (std::getline(std::cin, line))
    {
        auto t = split(line);
        if (t.empty()) continue;
        std::string res;
        try
        {
            if (t[0] == "ctor") res = ctor(t[1], std::stoi(t[2]), std::stol(t[3]), std::stol(t[4]));
            else if (t[0] == "jd")
            {
                int n = std::stoi(t[1]); long nev = std::stol(t[2]), ni = std::stol(t[3]), nm = std::stol(t[4]);
                Mat A = sym(n); DenseSymMatProd<double> op(A);
                typedef DavidsonSymEigsSolver<DenseSymMatProd<double>> S;
                std::unique_ptr<S> s(ni == -1 && nm == -1 ? new S(op, nev) : new S(op, nev, ni, nm));
                std::ostringstream o; o << "ok " << s->m_max_search_space_size << ' ' << s->m_initial_search_space_size << ' ' << s->m_correction_size;
                res = o.str();
            }
            else if (t[0] == "svd")
            {
                Mat M = gen(std::stoi(t[1]), std::stoi(t[2]));
                PartialSVDSolver<Mat> s(M, std::stol(t[3]), std::stol(t[4]));
                res = "ok";
            }
            else if (t[0] == "sigma") res = sigma_mode(t[1], std::stod(t[2]));
            else if (t[0] == "initzero") res = initzero(t[1], std::stod(t[2]));
            else if (t[0] == "wrapper") res = wrapper(t[1], std::stoi(t[2]), std::stoi(t[3]));
            else if (t[0] == "wrapper2")
            {
                Mat A = gen(std::stoi(t[1]), std::stoi(t[2])), B = gen(std::stoi(t[3]), std::stoi(t[4]));
                SymShiftInvert<double, Eigen::Dense, Eigen::Dense> op(A, B);
                res = "ok";
            }
            else res = "ERROR unknown-case";
        }
        catch (const std::exception& e) { res = what(e); }
        std::cout << res << "\n";
    }
    return 0;
}
