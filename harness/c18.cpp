// C18 harness: the real ordering primitive on the cases of stdin.
//   argsort <rule> <n> v1 .. vn             -> idx i0 .. | throw <type>
//   argsortk <rule> <n> <k> v1 .. vn        -> idx i0 .. | throw <type>   (prefix overload)
//   csort <rule> <n> re1 im1 .. ren imn     -> idx i0 .. | throw <type>      (SortEigenvalue<complex<double>, rule>)
//   solver <class> <selection> <sorting>    -> ok | throw <type>              (rule dispatch of the solvers)
#include <Eigen/Core>
#include <Spectra/SymEigsSolver.h>
#include <Spectra/GenEigsSolver.h>
#include <Spectra/SymEigsShiftSolver.h>
#include <Spectra/GenEigsRealShiftSolver.h>
#include <Spectra/GenEigsComplexShiftSolver.h>
#include <Spectra/HermEigsSolver.h>
#include <Spectra/MatOp/DenseSymMatProd.h>
#include <Spectra/MatOp/DenseGenMatProd.h>
#include <Spectra/MatOp/DenseHermMatProd.h>
#include <Spectra/MatOp/DenseSymShiftSolve.h>
#include <Spectra/MatOp/DenseGenRealShiftSolve.h>
#include <Spectra/MatOp/DenseGenComplexShiftSolve.h>
#include "common.h"
using namespace Spectra;
typedef std::complex<double> cd;

static std::string what(const std::exception& e)
{
    if (dynamic_cast<const std::invalid_argument*>(&e)) return "throw invalid_argument";
    if (dynamic_cast<const std::logic_error*>(&e)) return "throw logic_error";
    if (dynamic_cast<const std::runtime_error*>(&e)) return "throw runtime_error";
    return "throw other";
}

template <SortRule R>
static std::string csort(const std::vector<cd>& v)
{
    SortEigenvalue<cd, R> s(v.data(), (Eigen::Index) v.size());
    std::vector<Eigen::Index> ind = s.index();
    std::ostringstream o; o << "idx";
    for (auto i : ind) o << ' ' << i;
    return o.str();
}

static Eigen::MatrixXd test_matrix(int n, bool sym)
{
    Eigen::MatrixXd A(n, n);
    for (int i = 0; i < n; i++) for (int j = 0; j < n; j++) A(i, j) = ((i * 7 + j * 3) % 11) / 11.0 + (i == j ? i + 1.0 : 0.0);
    if (sym) A = (A + A.transpose()).eval() * 0.5;
    return A;
}

static std::string solver_rules(const std::string& cls, int sel, int srt, int nev)
{
    const int n = 8;
    try
    {
        if (cls == "SymEigsSolver")
        {
            Eigen::MatrixXd A = test_matrix(n, true); DenseSymMatProd<double> op(A);
            SymEigsSolver<DenseSymMatProd<double>> s(op, nev, 5); s.init(); s.compute((SortRule) sel, 50, 1e-8, (SortRule) srt);
        }
        else if (cls == "HermEigsSolver")
        {
            Eigen::MatrixXcd A = test_matrix(n, true).cast<cd>(); A(0, 1) += cd(0, 0.5); A(1, 0) -= cd(0, 0.5);
            DenseHermMatProd<cd> op(A);
            HermEigsSolver<DenseHermMatProd<cd>> s(op, nev, 5); s.init(); s.compute((SortRule) sel, 50, 1e-8, (SortRule) srt);
        }
        else if (cls == "SymEigsShiftSolver")
        {
            Eigen::MatrixXd A = test_matrix(n, true); DenseSymShiftSolve<double> op(A);
            SymEigsShiftSolver<DenseSymShiftSolve<double>> s(op, nev, 5, 0.3); s.init(); s.compute((SortRule) sel, 50, 1e-8, (SortRule) srt);
        }
        else if (cls == "GenEigsSolver")
        {
            Eigen::MatrixXd A = test_matrix(n, false); DenseGenMatProd<double> op(A);
            GenEigsSolver<DenseGenMatProd<double>> s(op, nev, 6); s.init(); s.compute((SortRule) sel, 50, 1e-8, (SortRule) srt);
        }
        else if (cls == "GenEigsRealShiftSolver")
        {
            Eigen::MatrixXd A = test_matrix(n, false); DenseGenRealShiftSolve<double> op(A);
            GenEigsRealShiftSolver<DenseGenRealShiftSolve<double>> s(op, nev, 6, 0.3); s.init(); s.compute((SortRule) sel, 50, 1e-8, (SortRule) srt);
        }
        else if (cls == "GenEigsComplexShiftSolver")
        {
            Eigen::MatrixXd A = test_matrix(n, false); DenseGenComplexShiftSolve<double> op(A);
            GenEigsComplexShiftSolver<DenseGenComplexShiftSolve<double>> s(op, nev, 6, 0.3, 0.2); s.init(); s.compute((SortRule) sel, 50, 1e-8, (SortRule) srt);
        }
        else return "ERROR unknown class";
    }
    catch (const std::exception& e) { return what(e); }
    return "ok";
}

int main()
{
    std::string line;
    while (std::getline(std::cin, line))
    {
        auto t = split(line);
        if (t.empty()) continue;
        std::string res;
        try
        {
            if (t[0] == "argsorts" || t[0] == "csorts")
            {
                // argsorts <e> <rule> <n> v1 .. vn / csorts <e> <rule> <n> re1 im1 ..: the same vectors scaled by 2^e (exact, order
                // preserving for every key): keys whose squares or products under- or overflow must still order correctly
                int e = std::stoi(t[1]), rule = std::stoi(t[2]), n = std::stoi(t[3]);
                const double sc = std::ldexp(1.0, e);
                if (t[0] == "argsorts")
                {
                    Eigen::VectorXd v(n);
                    for (int i = 0; i < n; i++) v[i] = std::stod(t[4 + i]) * sc;
                    std::vector<Eigen::Index> ind = argsort((SortRule) rule, v, (Eigen::Index) n);
                    std::ostringstream o; o << "idx";
                    for (auto i : ind) o << ' ' << i;
                    res = o.str();
                }
                else
                {
                    std::vector<cd> v(n);
                    for (int i = 0; i < n; i++) v[i] = cd(std::stod(t[4 + 2 * i]) * sc, std::stod(t[5 + 2 * i]) * sc);
                    switch (rule)
                    {
                        case 0: res = csort<SortRule::LargestMagn>(v); break;
                        case 1: res = csort<SortRule::LargestReal>(v); break;
                        case 2: res = csort<SortRule::LargestImag>(v); break;
                        case 4: res = csort<SortRule::SmallestMagn>(v); break;
                        case 5: res = csort<SortRule::SmallestReal>(v); break;
                        case 6: res = csort<SortRule::SmallestImag>(v); break;
                        default: res = "ERROR rule not instantiable for complex values";
                    }
                }
            }
            else if (t[0] == "argsort")
            {
                int rule = std::stoi(t[1]), n = std::stoi(t[2]);
                Eigen::VectorXd v(n);
                for (int i = 0; i < n; i++) v[i] = std::stod(t[3 + i]);
                std::vector<Eigen::Index> ind = argsort((SortRule) rule, v, (Eigen::Index) n);
                std::ostringstream o; o << "idx";
                for (auto i : ind) o << ' ' << i;
                res = o.str();
            }
            else if (t[0] == "argsortk")
            {
                // argsortk <rule> <n> <k> v1 .. vn : the three-argument overload on the first k of n values
                int rule = std::stoi(t[1]), n = std::stoi(t[2]), k = std::stoi(t[3]);
                Eigen::VectorXd v(n);
                for (int i = 0; i < n; i++) v[i] = std::stod(t[4 + i]);
                std::vector<Eigen::Index> ind = argsort((SortRule) rule, v, (Eigen::Index) k);
                std::ostringstream o; o << "idx";
                for (auto i : ind) o << ' ' << i;
                res = o.str();
            }
            else if (t[0] == "csort")
            {
                int rule = std::stoi(t[1]), n = std::stoi(t[2]);
                std::vector<cd> v(n);
                for (int i = 0; i < n; i++) v[i] = cd(std::stod(t[3 + 2 * i]), std::stod(t[4 + 2 * i]));
                switch (rule)
                {
                    case 0: res = csort<SortRule::LargestMagn>(v); break;
                    case 1: res = csort<SortRule::LargestReal>(v); break;
                    case 2: res = csort<SortRule::LargestImag>(v); break;
                    case 4: res = csort<SortRule::SmallestMagn>(v); break;
                    case 5: res = csort<SortRule::SmallestReal>(v); break;
                    case 6: res = csort<SortRule::SmallestImag>(v); break;
                    default: res = "ERROR rule not instantiable for complex values";
                }
            }
            else if (t[0] == "solver") res = solver_rules(t[1], std::stoi(t[2]), std::stoi(t[3]), t.size() > 4 ? std::stoi(t[4]) : 2);
            else res = "ERROR unknown-case";
        }
        catch (const std::exception& e) { res = what(e); }
        std::cout << res << std::endl;   // flushed: the line the process dies on is then known
    }
    return 0;
}
