// C19 harness: runs the real SimpleRandom.h on the cases of stdin.
#include <Eigen/Core>
#include <Spectra/Util/SimpleRandom.h>
#include "common.h"
using namespace Spectra;

template <typename Real>
static std::string pred_real(long seed, int k)
{
    SimpleRandom<Real> rng((unsigned long) seed);
    for (int i = 0; i < k; i++)
    {
        Real x = rng.random();
        if (!(x >= Real(-0.5) && x <= Real(0.5))) { std::ostringstream o; o << "FAIL draw " << i << " out of [-0.5,0.5]: " << (long double) x; return o.str(); }
    }
    return "ok";
}
template <typename Real>
static std::string pred_cplx(long seed, int k)
{
    SimpleRandom<std::complex<Real>> rng((unsigned long) seed);
    SimpleRandom<Real> ref((unsigned long) seed);
    for (int i = 0; i < k; i++)
    {
        std::complex<Real> z = rng.random();
        Real r = ref.random(), im = ref.random();
        if (!(z.real() == r && z.imag() == im)) { std::ostringstream o; o << "FAIL complex draw " << i << " is not two consecutive real draws"; return o.str(); }
        if (!(r >= Real(-0.5) && r <= Real(0.5) && im >= Real(-0.5) && im <= Real(0.5))) return "FAIL complex draw out of range";
    }
    return "ok";
}

int main()
{
    std::string line;
    while (std::getline(std::cin, line))
    {
        auto t = split(line);
        if (t.empty()) continue;
        std::ostringstream o;
        if (t[0] == "next") o << next_long_rand(std::stol(t[1]));
        else if (t[0] == "seednorm")
        {
            // the state is private: observe it through the first transition
            struct Peek : SimpleRandom<double> { using SimpleRandom<double>::SimpleRandom; };
            SimpleRandom<double> r((unsigned long) std::stol(t[1]));
            long st; std::memcpy(&st, &r, sizeof st);   // sole data member (checked by the translator)
            o << st;
        }
        else if (t[0] == "draws")
        {
            SimpleRandom<double> r((unsigned long) std::stol(t[1]));
            int k = std::stoi(t[2]);
            for (int i = 0; i < k; i++) o << bits(r.random()) << ' ';
            long st; std::memcpy(&st, &r, sizeof st); o << st;
        }
        else if (t[0] == "cdraws")
        {
            SimpleRandom<std::complex<double>> r((unsigned long) std::stol(t[1]));
            int k = std::stoi(t[2]);
            for (int i = 0; i < k; i++) { auto z = r.random(); o << bits(z.real()) << ' ' << bits(z.imag()) << ' '; }
            long st; std::memcpy(&st, &r, sizeof st); o << st;
        }
        else if (t[0] == "pred") // pred <type> <seed> <k>
        {
            long s = std::stol(t[2]); int k = std::stoi(t[3]);
            if (t[1] == "float") o << pred_real<float>(s, k);
            else if (t[1] == "double") o << pred_real<double>(s, k);
            else if (t[1] == "ldouble") o << pred_real<long double>(s, k);
            else if (t[1] == "cfloat") o << pred_cplx<float>(s, k);
            else if (t[1] == "cdouble") o << pred_cplx<double>(s, k);
            else if (t[1] == "cldouble") o << pred_cplx<long double>(s, k);
            else o << "ERROR unknown type";
        }
        else if (t[0] == "vec") // random_vec(len) through both overloads must equal len successive draws
        {
            long s = std::stol(t[1]); int len = std::stoi(t[2]);
            SimpleRandom<double> a((unsigned long) s), b((unsigned long) s);
            Eigen::VectorXd v = a.random_vec(len);
            bool ok = true;
            for (int i = 0; i < len; i++) ok = ok && (bits(v[i]) == bits(b.random()));
            o << (ok ? "ok" : "FAIL random_vec differs from successive draws");
        }
        else o << "ERROR unknown-case";
        std::cout << o.str() << "\n";
    }
    return 0;
}
