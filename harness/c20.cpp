// C20 harness: concurrent independent solver runs vs the same runs one after another.
//   conc threads=<t> mode=<private|shared> cls=<class> n=<n> nev=<k> ncv=<m> mseed=<s> reps=<r> [breakdown=1]
// private: every thread has its own problem / operator / solver (any class of the zoo)
// shared : all threads construct their solver on ONE matrix-product wrapper object
//          (cls in SymEigsSolver | GenEigsSolver | SparseSym | SparseGen)
#include "zoo.h"
#include <Spectra/MatOp/SparseGenMatProd.h>
#include <thread>
#include <atomic>
using namespace zoo;

struct Out { long ret = -1, niter = -1, nops = -1; int info = -1; std::string evals; uint64_t h = 0; std::string exc; };
static bool same(const Out& a, const Out& b) { return a.ret == b.ret && a.niter == b.niter && a.nops == b.nops && a.info == b.info && a.evals == b.evals && a.h == b.h && a.exc == b.exc; }

template <typename Solver>
static Out run_solver(Solver& s, int sel, int sorting)
{
    Out o;
    try
    {
        s.init(); o.ret = (long) s.compute((SortRule) sel, 200, 1e-10, (SortRule) sorting);
        o.niter = (long) s.num_iterations(); o.nops = (long) s.num_operations(); o.info = (int) s.info();
        auto ev = s.eigenvalues(); std::vector<cd> v(ev.size()); for (long i = 0; i < (long) ev.size(); i++) v[i] = cd(ev[i]);
        o.evals = hexvec(v); o.h = hash_mat(s.eigenvectors().template cast<cd>());
    }
    catch (const std::exception& e) { o.exc = exc_name(e); }
    return o;
}

static Out run_private(const std::string& cls, int n, int nev, int ncv, uint64_t mseed, bool breakdown = false)
{
    Problem p = make_problem("gapped", n, mseed, 1.0, 0.37, 0.2);
    if (is_general(cls)) make_general(p, breakdown ? "gblock" : "gnormal", mseed, 1.0);
    std::unique_ptr<IRunner> r = make_runner(cls, p, nev, ncv);
    Out o;
    try
    {
        // breakdown: the start vector spans a small invariant subspace, so the run goes through Arnoldi::expand_basis (restart code)
        if (breakdown) r->initv(start_vector(*r, is_general(cls) ? "b" + std::to_string(mseed % 97) : "s" + std::to_string(mseed % 5))); else r->init();
        o.ret = r->compute(is_general(cls) ? 0 : 0, 200, 1e-10, 0);
        Obs ob; r->snapshot(ob, -1);
        o.niter = ob.niter; o.nops = ob.nops; o.info = ob.info; o.evals = hexvec(ob.evals); o.h = hash_mat(ob.evecs);
    }
    catch (const std::exception& e) { o.exc = exc_name(e); }
    return o;
}

int main()
{
    std::string line;
    while (std::getline(std::cin, line))
    {
        auto t = split(line); if (t.empty()) continue;
        std::ostringstream o;
        try
        {
            auto m = kv(t);
            const int T = std::stoi(m["threads"]), n = std::stoi(m["n"]), nev = std::stoi(m["nev"]), ncv = std::stoi(m["ncv"]);
            const int reps = m.count("reps") ? std::stoi(m["reps"]) : 1;
            const uint64_t mseed = std::stoull(m["mseed"]); const std::string cls = m["cls"], mode = m["mode"];
            bool ok = true; std::string detail;
            for (int rep = 0; rep < reps && ok; rep++)
            {
                std::vector<Out> seq(T), par(T);
                if (mode == "private")
                {
                    const bool bd = m.count("breakdown") > 0;
                    // with breakdown the threads also use different sizes, so that shared scratch state (if any) would be resized under each other
                    for (int i = 0; i < T; i++) seq[i] = run_private(cls, n + (bd ? i % 3 : 0), nev, ncv, mseed + i, bd);
                    std::vector<std::thread> th;
                    for (int i = 0; i < T; i++) th.emplace_back([&, i]() { par[i] = run_private(cls, n + (bd ? i % 3 : 0), nev, ncv, mseed + i, bd); });
                    for (auto& x : th) x.join();
                }
                else
                {
                    Problem p = make_problem("gapped", n, mseed, 1.0, 0.0, 0.0);
                    if (cls == "GenEigsSolver" || cls == "SparseGen") make_general(p, "gnormal", mseed, 1.0);
                    Eigen::SparseMatrix<double> As = p.A.sparseView();
                    // every thread uses a different (nev) to make the runs differ; one shared operator object
                    auto body = [&](int i, Out& out, void* shared)
                    {
                        const int k = 1 + (i % std::max(1, nev));
                        if (cls == "SymEigsSolver") { auto& op = *static_cast<DenseSymMatProd<double>*>(shared); SymEigsSolver<DenseSymMatProd<double>> s(op, k, ncv); out = run_solver(s, 0, 0); }
                        else if (cls == "GenEigsSolver") { auto& op = *static_cast<DenseGenMatProd<double>*>(shared); GenEigsSolver<DenseGenMatProd<double>> s(op, k, ncv); out = run_solver(s, 0, 0); }
                        else if (cls == "SparseSym") { auto& op = *static_cast<SparseSymMatProd<double>*>(shared); SymEigsSolver<SparseSymMatProd<double>> s(op, k, ncv); out = run_solver(s, 0, 0); }
                        else { auto& op = *static_cast<SparseGenMatProd<double>*>(shared); GenEigsSolver<SparseGenMatProd<double>> s(op, k, ncv); out = run_solver(s, 0, 0); }
                    };
                    DenseSymMatProd<double> op1(p.A); DenseGenMatProd<double> op2(p.A); SparseSymMatProd<double> op3(As); SparseGenMatProd<double> op4(As);
                    void* shared = cls == "SymEigsSolver" ? (void*) &op1 : cls == "GenEigsSolver" ? (void*) &op2 : cls == "SparseSym" ? (void*) &op3 : (void*) &op4;
                    for (int i = 0; i < T; i++) body(i, seq[i], shared);
                    std::vector<std::thread> th;
                    for (int i = 0; i < T; i++) th.emplace_back([&, i]() { body(i, par[i], shared); });
                    for (auto& x : th) x.join();
                }
                for (int i = 0; i < T; i++)
                    if (!same(seq[i], par[i])) { ok = false; detail = "thread " + std::to_string(i) + ": concurrent run differs from sequential run (ret " + std::to_string(par[i].ret) + " vs " + std::to_string(seq[i].ret) + ")"; }
                if (seq[0].ret < 0 && seq[0].exc.empty()) { ok = false; detail = "no result"; }
            }
            o << (ok ? "ok" : "DIFF " + detail);
        }
        catch (const std::exception& e) { o << "ERROR " << exc_name(e) << " " << e.what(); }
        std::cout << o.str() << std::endl;
    }
    return 0;
}
