// Shared helpers for the correspondence harnesses: text protocol identical to
// /verif/extract/driver.ml (floats as 16 hex digits of the IEEE-754 bit pattern).
#pragma once
#include <cstdint>
#include <cstring>
#include <cstdio>
#include <string>
#include <vector>
#include <sstream>
#include <iostream>
#include <complex>

static inline std::string bits(double x)
{
    uint64_t u; std::memcpy(&u, &x, 8);
    char buf[32]; std::snprintf(buf, sizeof buf, "%016llx", (unsigned long long) u);
    return buf;
}
static inline double from_bits(const std::string& s)
{
    uint64_t u = std::stoull(s, nullptr, 16); double x; std::memcpy(&x, &u, 8); return x;
}
static inline std::vector<std::string> split(const std::string& line)
{
    std::istringstream is(line); std::vector<std::string> t; std::string w;
    while (is >> w) t.push_back(w);
    return t;
}
