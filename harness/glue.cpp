// Glue-level harness: runs a history of init()/init(v)/compute(args) calls on one solver
// object of any class of the zoo and reports, after every call, everything the public API
// shows plus residuals/orthonormality evaluated against the user's pencil, the hook events,
// the counting operator's counters and an operator probe.   One JSON object per input line.
//
//   hist cls=<class> n=<n> nev=<k> ncv=<m> fam=<family> [gfam=<general family>] mseed=<s> scale=<x>
//        sigma=<x> sigmai=<x> ops=<op>;<op>;...  [fault=<k>] [fault2=<k>] [faultB=<k>] [nvecs=1] [probe=1]
//   op ::= I | V:<startspec> | C:<sel>:<maxit>:<tol>:<sorting> | F:<k>  (arm a fault at the k-th application from now) | U (disarm)
#define ZOO_PRIVATE_ACCESS
#include "zoo.h"
using namespace zoo;

struct Ev { std::string tag; long a, b; Peek p; KryRep kr; bool has_kr = false; };
struct Rec : Spectra::verif::Observer
{
    std::vector<Ev> evs; IRunner* run = nullptr; bool want_kry = false, herm = false;
    void event(const char* tag, const void*, long a, long b) override
    {
        Ev e; e.tag = tag; e.a = a; e.b = b;
        if (run) run->peek(e.p);
        if (run && want_kry && (e.tag == "arnoldi.init" || e.tag == "arnoldi.factorize_from" || e.tag == "lanczos.factorize_from" || e.tag == "arnoldi.compress_V"))
        { run->kry(e.kr, herm); e.has_kr = true; }
        evs.push_back(e);
    }
};

static std::string jstr(const std::string& s) { return "\"" + s + "\""; }

static bool key_le(int rule, cd a, cd b)   // documented order: a may precede b
{
    switch (rule)
    {
        case 0: return std::abs(a) >= std::abs(b);
        case 1: return a.real() >= b.real();
        case 2: return std::abs(a.imag()) >= std::abs(b.imag());
        case 3: return a.real() >= b.real();
        case 4: return std::abs(a) <= std::abs(b);
        case 5: return a.real() <= b.real();
        case 6: return std::abs(a.imag()) <= std::abs(b.imag());
        case 7: return a.real() <= b.real();
    }
    return true;
}

int main()
{
    std::string line;
    std::cout.precision(17);
    while (std::getline(std::cin, line))
    {
        auto t = split(line);
        if (t.empty()) continue;
        std::ostringstream o; o.precision(17);
        if (t[0] == "nevadj")
        {
            // nevadj <herm|gen> <nev> <ncv> <nconv> <small pattern> <pair position or -1>: the REAL private nev_adjusted on a synthetic state
            try
            {
                const int nev = std::stoi(t[2]), ncv = std::stoi(t[3]), nconv = std::stoi(t[4]), pp = std::stoi(t[6]);
                const std::string small = t[5];
                const int n = ncv + 2;
                Problem p = make_problem("gapped", n, 1, 1.0, 0.0, 0.0);
                if (t[1] == "herm")
                {
                    RSym r(p, nev, ncv); r.s->init();
                    for (int i = 0; i < ncv; i++) r.s->m_ritz_est[i] = (small[i] == '1') ? 0.0 : 1.0;
                    o << (long) r.s->nev_adjusted(nconv);
                }
                else
                {
                    make_general(p, "gnormal", 1, 1.0);
                    RGen r(p, nev, ncv); r.s->init();
                    for (int i = 0; i < ncv; i++) { r.s->m_ritz_est[i] = (small[i] == '1') ? cd(0.0, 0.0) : cd(1.0, 0.0); r.s->m_ritz_val[i] = cd(1.0 + i, 0.0); }
                    if (pp >= 0 && pp + 1 < ncv) { r.s->m_ritz_val[pp] = cd(2.0, 1.0); r.s->m_ritz_val[pp + 1] = cd(2.0, -1.0); }
                    o << (long) r.s->nev_adjusted(nconv);
                }
            }
            catch (const std::exception& e) { o << "throw " << exc_name(e); }
            std::cout << o.str() << "\n";
            continue;
        }
        try
        {
            auto m = kv(t);
            const std::string cls = m["cls"];
            const int n = std::stoi(m["n"]), nev = std::stoi(m["nev"]), ncv = std::stoi(m["ncv"]);
            const double scale = m.count("scale") ? std::stod(m["scale"]) : 1.0;
            const uint64_t mseed = m.count("mseed") ? std::stoull(m["mseed"]) : 1;
            Problem p = make_problem(m.count("fam") ? m["fam"] : "gapped", n, mseed, scale, m.count("sigma") ? std::stod(m["sigma"]) : 0.0,
                                     m.count("sigmai") ? std::stod(m["sigmai"]) : 0.0);
            if (is_general(cls)) make_general(p, m.count("gfam") ? m["gfam"] : "grandom", mseed, scale);
            std::unique_ptr<IRunner> r = make_runner(cls, p, nev, ncv);
            Rec rec; rec.run = r.get(); rec.want_kry = m.count("kry") > 0; rec.herm = !is_general(cls); Spectra::verif::observer() = &rec;
            if (m.count("fault")) r->ctl.fault_at = std::stol(m["fault"]);
            if (m.count("fault2")) r->ctl.fault_at2 = std::stol(m["fault2"]);
            if (m.count("faultB")) r->ctlB.fault_at = std::stol(m["faultB"]);
            const bool want_nvecs = m.count("nvecs") > 0;
            Vec probe0; if (m.count("probe")) probe0 = r->probe();
            o << "{\"cls\":" << jstr(cls) << ",\"steps\":[";
            bool first = true;
            long ops_at_init = 0, computes_since_init = 0, maxit_sum = 0;
            bool init_failed = false;   // a user does not call compute() after init() threw: such steps are skipped
            for (const std::string& op : split_on(m["ops"], ';'))
            {
                if (op.empty()) continue;
                auto a = split_on(op, ':');
                Obs ob; rec.evs.clear();
                long ret = -1; int sorting = -1; bool is_compute = false;
                if (a[0] == "F") { r->ctl.fault_at = r->ctl.count + std::stol(a[1]); continue; }
                if (a[0] == "U") { r->ctl.fault_at = -1; r->ctl.fault_at2 = -1; r->ctlB.fault_at = -1; continue; }
                const long c0 = r->ctl.count;
                if (a[0] == "C" && init_failed)
                {
                    if (!first) o << ","; first = false;
                    o << "{\"op\":" << jstr(op) << ",\"skipped\":true,\"threw\":false,\"exc\":\"\",\"events\":[]}";
                    continue;
                }
                try
                {
                    if (a[0] == "I") { ops_at_init = r->ctl.count; computes_since_init = 0; maxit_sum = 0; r->init(); }
                    else if (a[0] == "V") { ops_at_init = r->ctl.count; computes_since_init = 0; maxit_sum = 0; CVec v = start_vector(*r, a[1]); r->initv(v); }
                    else if (a[0] == "C")
                    {
                        is_compute = true; sorting = std::stoi(a[4]);
                        computes_since_init++; maxit_sum += std::stol(a[2]);
                        ret = r->compute(std::stoi(a[1]), std::stol(a[2]), std::stod(a[3]), sorting);
                    }
                    else throw std::logic_error("bad op " + op);
                }
                catch (const std::exception& e) { ob.threw = true; ob.exc = exc_name(e); }
                if (a[0] == "I" || a[0] == "V") init_failed = ob.threw;
                ob.ret = ret;
                bool snap_threw = false; std::string snap_exc;
                try { r->snapshot(ob, -1); } catch (const std::exception& e) { snap_threw = true; snap_exc = exc_name(e); }
                if (!first) o << ","; first = false;
                o << "{\"op\":" << jstr(op) << ",\"threw\":" << (ob.threw ? "true" : "false") << ",\"exc\":" << jstr(ob.exc)
                  << ",\"ret\":" << ob.ret << ",\"info\":" << ob.info << ",\"niter\":" << ob.niter << ",\"nops\":" << ob.nops
                  << ",\"opcount_since_init\":" << (r->ctl.count - ops_at_init) << ",\"opcount_call\":" << (r->ctl.count - c0)
                  << ",\"bcount\":" << r->ctlB.count << ",\"bad_args\":" << (r->ctl.bad_args + r->ctlB.bad_args)
                  << ",\"computes_since_init\":" << computes_since_init << ",\"maxit_sum\":" << maxit_sum
                  << ",\"snap_threw\":" << (snap_threw ? "true" : "false") << ",\"snap_exc\":" << jstr(snap_exc)
                  << ",\"nvals\":" << ob.evals.size() << ",\"ncols\":" << ob.evecs.cols() << ",\"nrows\":" << ob.evecs.rows()
                  << ",\"evals\":" << jstr(hexvec(ob.evals)) << ",\"evecs_hash\":\"" << std::hex << hash_mat(ob.evecs) << std::dec << "\"";
                // finiteness
                bool finite = true;
                for (auto& z : ob.evals) finite = finite && std::isfinite(z.real()) && std::isfinite(z.imag());
                for (long j = 0; j < ob.evecs.cols(); j++) for (long i = 0; i < ob.evecs.rows(); i++) finite = finite && std::isfinite(ob.evecs(i, j).real()) && std::isfinite(ob.evecs(i, j).imag());
                o << ",\"finite\":" << (finite ? "true" : "false");
                // ordering of the returned values by the sorting rule
                if (is_compute && !ob.threw)
                {
                    bool sorted = true;
                    for (size_t i = 0; i + 1 < ob.evals.size(); i++) sorted = sorted && key_le(sorting, ob.evals[i], ob.evals[i + 1]);
                    o << ",\"sorted\":" << (sorted ? "true" : "false");
                }
                // residuals in the user's pencil, norms, B-orthonormality
                if (!snap_threw && ob.evecs.cols() > 0 && ob.evecs.cols() == (long) ob.evals.size() && finite)
                {
                    const long k = ob.evecs.cols();
                    o << ",\"resid\":[";
                    CMat BX(ob.evecs.rows(), k);
                    for (long j = 0; j < k; j++)
                    {
                        CVec x = ob.evecs.col(j), Ax, Bx; r->pencil(x, Ax, Bx); BX.col(j) = r->ipvec(x);
                        double rn = (Ax - ob.evals[j] * Bx).norm() / std::max(x.norm(), 1e-300);
                        o << (j ? "," : "") << rn;
                    }
                    o << "],\"xnorm\":[";
                    for (long j = 0; j < k; j++) o << (j ? "," : "") << ob.evecs.col(j).norm();
                    o << "],\"bxnorm\":[";
                    for (long j = 0; j < k; j++) { CVec x = ob.evecs.col(j), Ax, Bx; r->pencil(x, Ax, Bx); o << (j ? "," : "") << Bx.norm(); }
                    CMat G = ob.evecs.adjoint() * BX;
                    double orth = (G - CMat::Identity(k, k)).cwiseAbs().maxCoeff();
                    double maxoff = 0; for (long i = 0; i < k; i++) for (long j = 0; j < k; j++) if (i != j) maxoff = std::max(maxoff, std::abs(G(i, j)));
                    o << "],\"orth\":" << orth << ",\"offdiag\":" << maxoff;
                }
                // eigenvectors(m) is the first min(m, count) columns of eigenvectors()
                if (want_nvecs && !snap_threw)
                {
                    bool pref = true; std::string detail;
                    for (long mm = 0; mm <= nev + 2; mm++)
                    {
                        Obs o2; try { r->snapshot(o2, mm); } catch (const std::exception& e) { pref = false; detail = "threw"; break; }
                        long want = std::min<long>(mm, (long) ob.evals.size());
                        if (o2.evecs.cols() != want) { pref = false; detail = "cols"; break; }
                        for (long j = 0; j < want && pref; j++) for (long i = 0; i < o2.evecs.rows(); i++)
                            if (std::abs(o2.evecs(i, j) - ob.evecs(i, j)) > 1e-9 * (1.0 + std::abs(ob.evecs(i, j)))) { pref = false; detail = "values"; break; }   // same column up to the rounding of a differently blocked product
                    }
                    o << ",\"prefix\":" << (pref ? "true" : "false") << ",\"prefix_detail\":" << jstr(detail);
                }
                o << ",\"normA\":" << r->normA() << ",\"normB\":" << r->normB();
                o << ",\"events\":[";
                for (size_t i = 0; i < rec.evs.size(); i++)
                {
                    const Ev& e = rec.evs[i];
                    o << (i ? "," : "") << "[" << jstr(e.tag) << "," << e.a << "," << e.b << "," << e.p.nmatop << "," << e.p.k << "," << jstr(e.p.flags);
                    if (e.tag == "eigs.adjust") o << "," << jstr(e.p.small) << "," << jstr(e.p.pairs);
                    if (e.has_kr) o << ",{\"k\":" << e.kr.k << ",\"m\":" << e.kr.m << ",\"scale\":" << e.kr.scale << ",\"rel\":" << e.kr.rel << ",\"orth\":" << e.kr.orth
                                    << ",\"fperp\":" << e.kr.fperp << ",\"shape\":" << e.kr.shape << ",\"sym\":" << e.kr.sym << ",\"beta\":" << e.kr.beta_err << ",\"minsub\":" << e.kr.minsub << ",\"finite\":" << (e.kr.finite ? "true" : "false") << "}";
                    o << "]";
                }
                o << "]}";
            }
            o << "]";
            if (m.count("ref"))
            {
                std::vector<cd> rf = r->reference();
                o << ",\"ref\":[";
                for (size_t i = 0; i < rf.size(); i++) o << (i ? "," : "") << "[" << rf[i].real() << "," << rf[i].imag() << "]";
                o << "]";
            }
            if (m.count("probe"))
            {
                Vec p1 = r->probe();
                double d = (p1.size() && probe0.size()) ? (p1 - probe0).cwiseAbs().maxCoeff() : 0.0;
                bool same = true; for (long i = 0; i < p1.size(); i++) same = same && bits(p1[i]) == bits(probe0[i]);
                o << ",\"probe_delta\":" << d << ",\"probe_same\":" << (same ? "true" : "false");
            }
            o << "}";
            Spectra::verif::observer() = nullptr;
        }
        catch (const std::exception& e)
        {
            o.str(""); o << "{\"error\":" << jstr(std::string(exc_name(e)) + ": " + e.what()) << "}";
            Spectra::verif::observer() = nullptr;
        }
        std::cout << o.str() << "\n";
    }
    return 0;
}
