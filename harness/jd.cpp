// C15 harness: DavidsonSymEigsSolver on the matrices / configurations of stdin (dense and sparse wrappers).
// Protocol: jd <wrapper D|S> <family> <n> <mseed> <nev> <ninit> <nmax> <ncorr> <rule> <maxit> <tol> <guess none|orth|raw>
// Output: ret info niter | eigenvalues | true residual norms | vector norms | orth defect | finite | ordered | normA
#include <Eigen/Core>
#include <Eigen/Dense>
#include <Eigen/Sparse>
#include <iostream>
#include <sstream>
#include <Spectra/DavidsonSymEigsSolver.h>
#include <Spectra/MatOp/DenseSymMatProd.h>
#include <Spectra/MatOp/SparseSymMatProd.h>
#include "common.h"
using namespace Spectra;
typedef Eigen::MatrixXd Mat; typedef Eigen::VectorXd Vec;

struct Rng { uint64_t s; explicit Rng(uint64_t seed) : s(seed * 0x9E3779B97F4A7C15ULL + 0x1234567ULL) {}
    uint64_t next() { s += 0x9E3779B97F4A7C15ULL; uint64_t z = s; z = (z ^ (z >> 30)) * 0xBF58476D1CE4E5B9ULL; z = (z ^ (z >> 27)) * 0x94D049BB133111EBULL; return z ^ (z >> 31); }
    double unit() { return (next() >> 11) * (1.0 / 9007199254740992.0); } double sym() { return 2.0 * unit() - 1.0; } };

static Mat family(const std::string& fam, int n, uint64_t seed)
{
    Rng r(seed); Mat A = Mat::Zero(n, n);
    auto fill = [&](double off) { for (int i = 0; i < n; i++) for (int j = 0; j < i; j++) { double v = off * r.sym(); A(i, j) = v; A(j, i) = v; } };
    if (fam == "dominant") { fill(0.05); for (int i = 0; i < n; i++) A(i, i) = 1.0 + i; }
    else if (fam == "weak") { fill(0.5); for (int i = 0; i < n; i++) A(i, i) = 0.3 * i + r.sym(); }                 // not diagonally dominant
    else if (fam == "block")                                                                                              // block diagonal: two decoupled halves
    { fill(0.05); int h = n / 2; for (int i = h; i < n; i++) for (int j = 0; j < h; j++) { A(i, j) = 0; A(j, i) = 0; } for (int i = 0; i < n; i++) A(i, i) = 1.0 + i; }
    else if (fam == "isolated")                                                                                           // one exactly decoupled coordinate carrying an extreme eigenvalue
    { fill(0.05); int k = (int) (seed % n); for (int j = 0; j < n; j++) { A(k, j) = 0; A(j, k) = 0; } for (int i = 0; i < n; i++) A(i, i) = 1.0 + i; A(k, k) = (seed & 1) ? n + 5.0 : -4.0; }
    else if (fam == "diagonal") { for (int i = 0; i < n; i++) A(i, i) = 1.0 + i; }                                        // every unit vector is an exact eigenvector
    else if (fam == "tiesdiag") { fill(0.05); for (int i = 0; i < n; i++) A(i, i) = 1.0 + (i / 2); }                      // repeated diagonal entries
    else { fill(1.0); for (int i = 0; i < n; i++) A(i, i) = r.sym(); }
    return A;
}
static double key(int rule, double x) { switch (rule) { case 0: return -std::abs(x); case 3: return -x; case 4: return std::abs(x); default: return x; } }

template <typename Op>
static std::string run(Op& op, const Mat& A, int nev, int ninit, int nmax, int ncorr, int rule, long maxit, double tol, const std::string& guess, uint64_t seed)
{
    const int n = (int) A.rows();
    DavidsonSymEigsSolver<Op> s(op, nev, ninit, nmax);
    if (ncorr > 0) s.set_correction_size(ncorr);
    long ret;
    if (guess == "none") ret = (long) s.compute((SortRule) rule, maxit, tol);
    else
    {
        Rng r(seed ^ 0x55AAULL); Mat G(n, ninit); for (int j = 0; j < ninit; j++) for (int i = 0; i < n; i++) G(i, j) = r.sym();
        if (guess == "orth") { Eigen::HouseholderQR<Mat> qr(G); G = qr.householderQ() * Mat::Identity(n, ninit); }
        ret = (long) s.compute_with_guess(G, (SortRule) rule, maxit, tol);
    }
    Vec ev = s.eigenvalues(); Mat X = s.eigenvectors();
    std::ostringstream o; o.precision(17);
    o << ret << ' ' << (int) s.info() << ' ' << (long) s.num_iterations() << " |";
    bool finite = true, ordered = true;
    for (long i = 0; i < ev.size(); i++) { o << ' ' << ev[i]; finite = finite && std::isfinite(ev[i]); if (i > 0 && key(rule, ev[i - 1]) > key(rule, ev[i])) ordered = false; }
    o << " |";
    for (long i = 0; i < X.cols() && i < ev.size(); i++) o << ' ' << (A * X.col(i) - ev[i] * X.col(i)).norm();
    o << " |";
    for (long i = 0; i < X.cols(); i++) { o << ' ' << X.col(i).norm(); finite = finite && X.col(i).allFinite(); }
    o << " | " << (X.cols() > 0 ? (X.transpose() * X - Mat::Identity(X.cols(), X.cols())).norm() : 0.0);
    o << " | " << (finite ? 1 : 0) << " | " << (ordered ? 1 : 0) << " | " << A.norm();
    // structure flags used to classify known findings: an exactly decoupled coordinate; a disconnected matrix graph
    bool decoupled = false; for (int i = 0; i < n; i++) { bool z = true; for (int j = 0; j < n; j++) if (j != i && A(i, j) != 0.0) z = false; decoupled = decoupled || z; }
    std::vector<int> seen(n, 0), st(1, 0); seen[0] = 1; int cnt = 1;
    while (!st.empty()) { int u = st.back(); st.pop_back(); for (int v = 0; v < n; v++) if (!seen[v] && A(u, v) != 0.0) { seen[v] = 1; cnt++; st.push_back(v); } }
    o << " | " << (decoupled ? 1 : 0) << ' ' << (cnt < n ? 1 : 0);
    return o.str();
}

int main()
{
    std::string line;
    while (std::getline(std::cin, line))
    {
        std::vector<std::string> t = split(line);
        if (t.empty()) { std::cout << "\n"; continue; }
        std::string out;
        try
        {
            const std::string w = t[1], fam = t[2]; int n = std::stoi(t[3]); uint64_t seed = std::stoull(t[4]);
            int nev = std::stoi(t[5]), ninit = std::stoi(t[6]), nmax = std::stoi(t[7]), ncorr = std::stoi(t[8]), rule = std::stoi(t[9]);
            long maxit = std::stol(t[10]); double tol = std::stod(t[11]); const std::string guess = t[12];
            Mat A = family(fam, n, seed);
            if (w == "D") { DenseSymMatProd<double> op(A); out = run(op, A, nev, ninit, nmax, ncorr, rule, maxit, tol, guess, seed); }
            else { Eigen::SparseMatrix<double> S = A.sparseView(); SparseSymMatProd<double> op(S); out = run(op, A, nev, ninit, nmax, ncorr, rule, maxit, tol, guess, seed); }
        }
        catch (const std::invalid_argument& e) { out = std::string("throw invalid_argument ") + e.what(); }
        catch (const std::exception& e) { out = std::string("throw other ") + e.what(); }
        std::cout << out << "\n";
    }
    return 0;
}
