// Kernel harness (C-bit): calls the real numeric leaf routines on the cases of stdin and prints
// every output as IEEE-754 bit patterns, in the same order as the extracted model.
// Built with -O1 -ffp-contract=off -DEIGEN_DONT_VECTORIZE.
#include <Eigen/Core>
#include <complex>
#include <vector>
#include <string>
#include <iostream>
#include <sstream>
#include <memory>
#include <limits>
#define private public
#define protected public
#include <Spectra/LinAlg/UpperHessenbergQR.h>
#include <Spectra/LinAlg/DoubleShiftQR.h>
#include <Spectra/LinAlg/TridiagEigen.h>
#include <Spectra/LinAlg/UpperHessenbergSchur.h>
#include <Spectra/LinAlg/UpperHessenbergEigen.h>
#include <Spectra/LinAlg/BKLDLT.h>
#include <Spectra/LinAlg/Arnoldi.h>
#include <Spectra/LinAlg/Lanczos.h>
#include <Spectra/Util/TypeTraits.h>
#include <Spectra/LinAlg/TridiagEigen.h>
#include <Spectra/LinAlg/UpperHessenbergSchur.h>
#include <Spectra/LinAlg/UpperHessenbergEigen.h>
#include <Spectra/MatOp/DenseSymShiftSolve.h>
#include <Spectra/MatOp/SymShiftInvert.h>
#undef private
#undef protected
#include "common.h"
using namespace Spectra;
typedef Eigen::MatrixXd Mat;
typedef Eigen::VectorXd Vec;

// user operator for the Krylov kernels: an explicit sequential double loop (y_i = sum_j A_ij x_j, left to right)
struct LoopOp
{
    typedef double Scalar;
    Mat A;
    explicit LoopOp(const Mat& a) : A(a) {}
    Eigen::Index rows() const { return A.rows(); }
    Eigen::Index cols() const { return A.cols(); }
    void perform_op(const double* x, double* y) const
    {
        const long n = A.rows();
        for (long i = 0; i < n; i++) { double acc = A(i, 0) * x[0]; for (long j = 1; j < n; j++) acc = acc + A(i, j) * x[j]; y[i] = acc; }
    }
};

struct Reader
{
    const std::vector<std::string>& t; size_t i;
    Reader(const std::vector<std::string>& tt, size_t from) : t(tt), i(from) {}
    long integer() { return std::stol(t.at(i++)); }
    double real() { return from_bits(t.at(i++)); }
    Vec vec(long n) { Vec v(n); for (long k = 0; k < n; k++) v[k] = real(); return v; }
    Mat mat(long r, long c) { Mat M(r, c); for (long j = 0; j < c; j++) for (long k = 0; k < r; k++) M(k, j) = real(); return M; }
};
static void put(std::ostringstream& o, double x) { o << bits(x) << ' '; }
static void put(std::ostringstream& o, const Vec& v) { for (long i = 0; i < v.size(); i++) put(o, v[i]); }
static void put(std::ostringstream& o, const Mat& M) { for (long j = 0; j < M.cols(); j++) for (long i = 0; i < M.rows(); i++) put(o, M(i, j)); }
template <typename A> static void puta(std::ostringstream& o, const A& a) { for (long i = 0; i < a.size(); i++) put(o, (double) a[i]); }

// ---- the property's own predicates (C08), evaluated on the implementation in the Scalar type under test
template <typename S>
static std::string pred_hqr(long n, double shift_, const Mat& Hd, bool tridiag)
{
    typedef Eigen::Matrix<S, Eigen::Dynamic, Eigen::Dynamic> M; typedef Eigen::Matrix<long double, Eigen::Dynamic, Eigen::Dynamic> ML;
    M H = Hd.cast<S>(); S shift = (S) shift_;
    if (tridiag) { for (long i = 0; i < n; i++) for (long j = 0; j < n; j++) if (std::abs(i - j) > 1) H(i, j) = 0; for (long i = 0; i + 1 < n; i++) H(i, i + 1) = H(i + 1, i); }
    else for (long j = 0; j < n; j++) for (long i = j + 2; i < n; i++) H(i, j) = 0;
    std::unique_ptr<UpperHessenbergQR<S>> qr(tridiag ? (UpperHessenbergQR<S>*) new TridiagQR<S>(H, shift) : new UpperHessenbergQR<S>(H, shift));
    M R = qr->matrix_R(); M QtHQ; qr->matrix_QtHQ(QtHQ);
    M Q = M::Identity(n, n); qr->apply_YQ(Q);                       // Q = I * Q
    M Q2 = M::Identity(n, n); qr->apply_QY(Q2);                     // Q = Q * I   (from the other side)
    M Qt = M::Identity(n, n); qr->apply_QtY(Qt);                    // Q'
    M Qt2 = M::Identity(n, n); qr->apply_YQt(Qt2);
    ML Ql = Q.template cast<long double>(), Hl = H.template cast<long double>(), Rl = R.template cast<long double>();
    ML Hs = Hl; for (long i = 0; i < n; i++) Hs(i, i) -= (long double) shift;
    // TridiagQR deflates negligible sub-diagonals first: compare against the deflated matrix
    ML Href = Hl;
    if (tridiag)
    {
        const long double eps = std::numeric_limits<S>::epsilon();
        for (long i = 0; i + 1 < n; i++) if (std::abs(Hl(i + 1, i)) <= eps * (std::abs(Hl(i, i)) + std::abs(Hl(i + 1, i + 1)))) { Href(i + 1, i) = 0; Href(i, i + 1) = 0; }
        Hs = Href; for (long i = 0; i < n; i++) Hs(i, i) -= (long double) shift;
    }
    long double scale = Hl.norm() + std::abs((long double) shift) + std::numeric_limits<long double>::min();
    long double e_qr = (Ql * Rl - Hs).norm() / scale;
    long double e_orth = (Ql.transpose() * Ql - ML::Identity(n, n)).norm();
    long double e_sim = (QtHQ.template cast<long double>() - Ql.transpose() * Href * Ql).norm() / scale;
    long double e_apply = std::max(std::max((Q2 - Q).template cast<long double>().norm(), (Qt - Q.transpose()).template cast<long double>().norm()), (Qt2 - Q.transpose()).template cast<long double>().norm());
    // the Vector overloads multiply by the same Q / Q'
    for (long j = 0; j < n; j++)
    {
        Eigen::Matrix<S, Eigen::Dynamic, 1> e = Eigen::Matrix<S, Eigen::Dynamic, 1>::Zero(n); e[j] = 1; qr->apply_QY(e);
        e_apply = std::max(e_apply, (long double) (e - Q.col(j)).template cast<long double>().norm());
        Eigen::Matrix<S, Eigen::Dynamic, 1> f = Eigen::Matrix<S, Eigen::Dynamic, 1>::Zero(n); f[j] = 1; qr->apply_QtY(f);
        e_apply = std::max(e_apply, (long double) (f - Q.transpose().col(j)).template cast<long double>().norm());
    }
    bool r_upper = true, hess = true, sym = true;
    for (long j = 0; j < n; j++) for (long i = j + 1; i < n; i++) if (R(i, j) != S(0)) r_upper = false;
    for (long j = 0; j < n; j++) for (long i = j + 2; i < n; i++) if (QtHQ(i, j) != S(0)) hess = false;
    if (tridiag) for (long i = 0; i < n; i++) for (long j = 0; j < n; j++) { if (std::abs(i - j) > 1 && QtHQ(i, j) != S(0)) hess = false; if (QtHQ(i, j) != QtHQ(j, i)) sym = false; }
    std::ostringstream o; o.precision(6);
    o << (double) e_qr << ' ' << (double) e_orth << ' ' << (double) e_sim << ' ' << (double) e_apply << ' ' << r_upper << ' ' << hess << ' ' << sym << ' ' << (double) std::numeric_limits<S>::epsilon();
    return o.str();
}
template <typename S>
static std::string pred_dsqr(long n, double s_, double t_, const Mat& Hd)
{
    typedef Eigen::Matrix<S, Eigen::Dynamic, Eigen::Dynamic> M; typedef Eigen::Matrix<long double, Eigen::Dynamic, Eigen::Dynamic> ML;
    typedef Eigen::Matrix<S, Eigen::Dynamic, 1> V;
    M H = Hd.cast<S>(); for (long j = 0; j < n; j++) for (long i = j + 2; i < n; i++) H(i, j) = 0;
    DoubleShiftQR<S> qr(H, (S) s_, (S) t_);
    M QtHQ(n, n); qr.matrix_QtHQ(QtHQ);
    M Q = M::Identity(n, n); qr.apply_YQ(Q);
    M Qt(n, n); for (long j = 0; j < n; j++) { V e = V::Zero(n); e[j] = 1; qr.apply_QtY(e); Qt.col(j) = e; }
    ML Ql = Q.template cast<long double>(), Hl = H.template cast<long double>();
    // the class works on H with negligible sub-diagonals zeroed
    ML Href = Hl; const long double eps = std::numeric_limits<S>::epsilon();
    const long double near0 = (long double) Spectra::TypeTraits<S>::min() * 10, eps_abs = near0 * (n / eps);
    for (long i = 0; i + 1 < n; i++) { long double h = std::abs(Hl(i + 1, i)), d = std::abs(Hl(i, i)) + std::abs(Hl(i + 1, i + 1)); if (h <= eps_abs || h <= eps * d) Href(i + 1, i) = 0; }
    long double scale = Hl.norm() + std::numeric_limits<long double>::min();
    long double e_orth = (Ql.transpose() * Ql - ML::Identity(n, n)).norm();
    long double e_sim = (QtHQ.template cast<long double>() - Ql.transpose() * Href * Ql).norm() / scale;
    long double e_apply = (Qt - Q.transpose()).template cast<long double>().norm();
    // first column of Q parallel to (H^2 - sH + tI) e1 on the leading unreduced block
    long nb = n; for (long i = 0; i + 1 < n; i++) if (Href(i + 1, i) == 0) { nb = i + 1; break; }
    long double e_first = 0;
    if (nb >= 2)
    {
        ML Hb = Href.topLeftCorner(nb, nb); ML Mb = Hb * Hb - (long double) s_ * Hb + (long double) t_ * ML::Identity(nb, nb);
        Eigen::Matrix<long double, Eigen::Dynamic, 1> m = Mb.col(0), q = Ql.col(0).head(nb);
        long double mn = m.norm();
        if (mn > 1e-8L * (Hb.norm() * Hb.norm() + std::abs((long double) t_))) { m /= mn; long double d = std::abs(m.dot(q)); e_first = std::abs(1.0L - d); }
    }
    bool hess = true; for (long j = 0; j < n; j++) for (long i = j + 2; i < n; i++) if (std::abs((long double) QtHQ(i, j)) > 50 * n * eps * scale) hess = false;
    std::ostringstream o; o.precision(6);
    o << (double) e_orth << ' ' << (double) e_sim << ' ' << (double) e_apply << ' ' << (double) e_first << ' ' << hess << ' ' << (double) eps;
    return o.str();
}

// ---- C10 predicates on the implementation: all four (triangle x storage order) variants of one Hermitian matrix
template <typename S> struct FromC { static S go(std::complex<double> z) { return (S) z.real(); } };
template <typename R> struct FromC<std::complex<R>> { static std::complex<R> go(std::complex<double> z) { return std::complex<R>((R) z.real(), (R) z.imag()); } };
template <typename S>
static std::string pred_bk(long n, double shift, const Mat& Re, const Mat& Im)
{
    typedef Eigen::Matrix<S, Eigen::Dynamic, Eigen::Dynamic> M; typedef Eigen::Matrix<S, Eigen::Dynamic, Eigen::Dynamic, Eigen::RowMajor> MR;
    typedef Eigen::Matrix<S, Eigen::Dynamic, 1> V; typedef typename Eigen::NumTraits<S>::Real R;
    typedef std::complex<long double> CL; typedef Eigen::Matrix<CL, Eigen::Dynamic, Eigen::Dynamic> ML; typedef Eigen::Matrix<CL, Eigen::Dynamic, 1> VL;
    M A(n, n); ML Al(n, n);
    for (long i = 0; i < n; i++) for (long j = 0; j < n; j++)
    {
        std::complex<double> z(Re(i, j), Eigen::NumTraits<S>::IsComplex ? Im(i, j) : 0.0);
        Al(i, j) = CL(z.real(), z.imag());
        A(i, j) = FromC<S>::go(z);
    }
    // garbage in the triangle that must not be read
    M AL = A, AU = A;
    for (long i = 0; i < n; i++) for (long j = 0; j < n; j++) { if (i < j) AL(i, j) = S(77 + i); if (i > j) AU(i, j) = S(-55 - j); }
    V b(n); for (long i = 0; i < n; i++) b[i] = S(R(1 + (i % 3)) - R(0.5) * R(i % 2));
    BKLDLT<S> f1(AL, Eigen::Lower, (R) shift), f2(AU, Eigen::Upper, (R) shift);
    MR ALr = AL, AUr = AU;
    BKLDLT<S> f3(ALr, Eigen::Lower, (R) shift), f4(AUr, Eigen::Upper, (R) shift);
    std::ostringstream o; o.precision(6);
    o << (int) f1.info() << ' ' << (int) f2.info() << ' ' << (int) f3.info() << ' ' << (int) f4.info() << ' ';
    bool same = true; long double ratio = 0;
    if (f1.info() == CompInfo::Successful && f2.info() == CompInfo::Successful && f3.info() == CompInfo::Successful && f4.info() == CompInfo::Successful)
    {
        V x1 = f1.solve(b), x2 = f2.solve(b), x3 = f3.solve(b), x4 = f4.solve(b);
        for (long i = 0; i < n; i++) same = same && x1[i] == x2[i] && x1[i] == x3[i] && x1[i] == x4[i];
        ML As = Al; for (long i = 0; i < n; i++) As(i, i) -= (long double) shift;
        VL xl = x1.template cast<CL>(), bl = b.template cast<CL>();
        long double res = (As * xl - bl).norm(), den = As.norm() * xl.norm() + bl.norm();
        ratio = res / (den * (long double) std::numeric_limits<R>::epsilon() * n);
    }
    o << (same ? 1 : 0) << ' ' << (double) ratio;
    return o.str();
}
static std::string wrapper_bk(long n, double shift, const Mat& A)
{
    std::string r1, r2;
    try { DenseSymShiftSolve<double> op(A); op.set_shift(shift); r1 = "ok"; } catch (const std::invalid_argument&) { r1 = "invalid_argument"; } catch (...) { r1 = "other"; }
    try { SymShiftInvert<double, Eigen::Dense, Eigen::Dense> op(A, Mat::Identity(n, n)); op.set_shift(shift); r2 = "ok"; } catch (const std::invalid_argument&) { r2 = "invalid_argument"; } catch (...) { r2 = "other"; }
    return r1 + " " + r2;
}

// ---- C09 predicates on the implementation
template <typename S>
static std::string pred_eig(long n, const Mat& H0)
{
    typedef Eigen::Matrix<S, Eigen::Dynamic, Eigen::Dynamic> M; typedef std::complex<S> C; typedef Eigen::Matrix<C, Eigen::Dynamic, Eigen::Dynamic> CM;
    typedef Eigen::Matrix<C, Eigen::Dynamic, 1> CV;
    const S eps = std::numeric_limits<S>::epsilon();
    M H = H0.template cast<S>();
    for (long j = 0; j < n; j++) for (long i = j + 2; i < n; i++) H(i, j) = S(0);
    std::ostringstream o; o.precision(5);
    // (1) TridiagEigen on the symmetric tridiagonal matrix with diagonal / sub-diagonal of H
    {
        M T = M::Zero(n, n); T.diagonal() = H.diagonal(); T.diagonal(-1) = H.diagonal(-1); T.diagonal(1) = H.diagonal(-1);
        M Tin = T; Tin.diagonal(1).setConstant(S(7));   // only the lower part is read
        try
        {
            TridiagEigen<S> e(Tin); M Z = e.eigenvectors(); M D = e.eigenvalues().asDiagonal();
            S nt = T.norm(); if (nt == S(0)) nt = S(1);
            o << "T " << (double) ((T * Z - Z * D).norm() / (n * eps * nt)) << ' ' << (double) ((Z.transpose() * Z - M::Identity(n, n)).norm() / (n * eps)) << ' '
              << ((e.eigenvalues().array() == e.eigenvalues().array()).all() ? 1 : 0) << ' ';
        }
        catch (const std::runtime_error&) { o << "T throw 0 1 "; }
    }
    S nh = H.norm(); if (nh == S(0)) nh = S(1);
    // (2) UpperHessenbergSchur
    try
    {
        UpperHessenbergSchur<S> sc(H); M U = sc.matrix_U(), T = sc.matrix_T();
        bool quasi = true;
        for (long j = 0; j < n; j++) for (long i = j + 2; i < n; i++) quasi = quasi && T(i, j) == S(0);
        for (long i = 0; i + 2 < n; i++) quasi = quasi && !(T(i + 1, i) != S(0) && T(i + 2, i + 1) != S(0));
        bool standard = true;      // every remaining 2x2 block carries a complex pair: ((a - d)/2)^2 + b c < 0
        for (long i = 0; i + 1 < n; i++) if (T(i + 1, i) != S(0))
        {   // negative discriminant, up to the rounding of the discriminant itself (a block that is a tie to working precision may legitimately stay)
            S p = S(0.5) * (T(i, i) - T(i + 1, i + 1)), bc = T(i + 1, i) * T(i, i + 1), disc = p * p + bc;
            standard = standard && (disc < S(0) || disc <= S(16) * eps * (p * p + std::abs(bc)));
        }
        o << "S " << (double) ((U * T * U.transpose() - H).norm() / (n * eps * nh)) << ' ' << (double) ((U.transpose() * U - M::Identity(n, n)).norm() / (n * eps)) << ' '
          << (quasi ? 1 : 0) << ' ' << (standard ? 1 : 0) << ' ';
    }
    catch (const std::runtime_error&) { o << "S throw 0 1 1 "; }
    // (3) UpperHessenbergEigen
    try
    {
        UpperHessenbergEigen<S> e(H); CV ev = e.eigenvalues(); CM X = e.eigenvectors();
        S worst = 0, nrm = 0; bool conv = true, finite = true;
        CM Hc = H.template cast<C>();
        for (long j = 0; j < n; j++)
        {
            worst = std::max(worst, (S) ((Hc * X.col(j) - ev[j] * X.col(j)).norm()));
            nrm = std::max(nrm, std::abs(X.col(j).norm() - S(1)));
            finite = finite && ev[j].real() == ev[j].real() && ev[j].imag() == ev[j].imag();
        }
        for (long j = 0; j < n; j++)
        {
            if (ev[j].imag() == S(0)) continue;
            // a complex value: the first of an adjacent exact conjugate pair has the positive imaginary part
            if (ev[j].imag() > S(0)) { conv = conv && j + 1 < n && ev[j + 1] == std::conj(ev[j]) && ev[j + 1].imag() < S(0); j++; }
            else conv = false;
        }
        // smallest separation between two computed eigenvalues relative to |H| (near-defective pairs)
        S sep = S(1); for (long a = 0; a < n; a++) for (long b = a + 1; b < n; b++) sep = std::min(sep, (S) (std::abs(ev[a] - ev[b]) / nh));
        o << "E " << (double) (worst / (n * eps * nh)) << ' ' << (double) (nrm / (n * eps)) << ' ' << (conv ? 1 : 0) << ' ' << (finite ? 1 : 0) << ' ' << (double) sep;
    }
    catch (const std::runtime_error&) { o << "E throw 0 1 1 1"; }
    return o.str();
}

int main()
{
    std::string line;
    while (std::getline(std::cin, line))
    {
        auto t = split(line); if (t.empty()) continue;
        std::ostringstream o;
        try
        {
            if (t[0] == "consts")
            {
                const double eps = TypeTraits<double>::epsilon();
                put(o, eps); put(o, TypeTraits<double>::min() * 10.0); put(o, 0.1 * std::pow(eps, 0.25));
                put(o, std::pow(eps, 2.0 / 3)); put(o, std::sqrt(eps)); put(o, TypeTraits<double>::min());
                put(o, (1.0 + std::sqrt(17.0)) / 8.0);
            }
            else if (t[0] == "rot")
            {
                Reader r(t, 1); double x = r.real(), y = r.real(), rr, c, s;
                UpperHessenbergQR<double>::compute_rotation(x, y, rr, c, s);
                put(o, rr); put(o, c); put(o, s);
            }
            else if (t[0] == "hqr")
            {
                Reader r(t, 1); long n = r.integer(); double shift = r.real(); Mat H = r.mat(n, n); Vec y = r.vec(n);
                long m = r.integer(); Mat Y = r.mat(n, m); Mat Z = r.mat(m, n);
                UpperHessenbergQR<double> qr(H, shift);
                put(o, qr.matrix_R()); puta(o, qr.m_rot_cos); puta(o, qr.m_rot_sin);
                Mat Q; qr.matrix_QtHQ(Q); put(o, Q);
                Vec a = y; qr.apply_QtY(a); put(o, a);
                Vec b = y; qr.apply_QY(b); put(o, b);
                Mat A1 = Y; qr.apply_QtY(A1); put(o, A1);
                Mat A2 = Y; qr.apply_QY(A2); put(o, A2);
                Mat A3 = Z; qr.apply_YQ(A3); put(o, A3);
                Mat A4 = Z; qr.apply_YQt(A4); put(o, A4);
            }
            else if (t[0] == "teig")
            {
                // teig <n> <diag n> <subdiag n-1>
                Reader r(t, 1); long n = r.integer(); Vec d = r.vec(n); Vec sd = r.vec(n - 1);
                Mat T = Mat::Zero(n, n); T.diagonal() = d; if (n > 1) { T.diagonal(-1) = sd; T.diagonal(1).setConstant(123.0); }   // the super-diagonal is not read
                try { TridiagEigen<double> e(T); put(o, e.eigenvalues()); put(o, e.eigenvectors()); } catch (const std::runtime_error&) { o << "throw"; }
            }
            else if (t[0] == "heig")
            {
                // heig <n> <H n*n col-major>: scale, the Schur factor T of H/scale (from a separate Schur object running the same code), eigenvalues
                Reader r(t, 1); long n = r.integer(); Mat H = r.mat(n, n);
                try
                {
                    UpperHessenbergEigen<double> e(H);
                    double scale = H.cwiseAbs().maxCoeff(); if (scale == 0.0) scale = 1.0;
                    UpperHessenbergSchur<double> s(H / scale);
                    put(o, scale); put(o, s.matrix_T());
                    for (long i = 0; i < n; i++) { put(o, e.eigenvalues()[i].real()); put(o, e.eigenvalues()[i].imag()); }
                }
                catch (const std::runtime_error&) { o << "throw"; }
            }
            else if (t[0] == "schur")
            {
                // schur <n> <H n*n col-major>: T and U of UpperHessenbergSchur<double>, or throw
                Reader r(t, 1); long n = r.integer(); Mat H = r.mat(n, n);
                try { UpperHessenbergSchur<double> s(H); put(o, s.matrix_T()); put(o, s.matrix_U()); } catch (const std::runtime_error&) { o << "throw"; }
            }
            else if (t[0] == "pred_eig")
            {
                Reader r(t, 2); long n = r.integer(); Mat H = r.mat(n, n);
                if (t[1] == "double") o << pred_eig<double>(n, H);
                else if (t[1] == "float") o << pred_eig<float>(n, H);
                else o << pred_eig<long double>(n, H);
            }
            else if (t[0] == "pred_bk")
            {
                Reader r(t, 2); long n = r.integer(); double shift = r.real(); Mat Re = r.mat(n, n); Mat Im = r.mat(n, n);
                if (t[1] == "double") o << pred_bk<double>(n, shift, Re, Im) << ' ' << wrapper_bk(n, shift, Re);
                else if (t[1] == "float") o << pred_bk<float>(n, shift, Re, Im);
                else if (t[1] == "ldouble") o << pred_bk<long double>(n, shift, Re, Im);
                else o << pred_bk<std::complex<double>>(n, shift, Re, Im);
            }
            else if (t[0] == "bk")
            {
                // bk <n> <shift> <uplo: L|U> <rowmajor 0|1> <A n*n col-major> <b n>
                Reader r(t, 1); long n = r.integer(); double shift = r.real(); std::string ul = t[r.i++]; long rm = r.integer(); Mat A = r.mat(n, n); Vec b = r.vec(n);
                BKLDLT<double> bk;
                // history: the object has already factorized other matrices (same size with row interchanges and 2x2 pivots,
                // the same matrix with another shift, a larger one); the model is a function of THIS call's arguments only
                // (C10_info_fresh, bk_compute), so nothing of the history may survive into the compared state or solution
                if (n >= 2)
                {
                    Mat H0(n, n); for (long i = 0; i < n; i++) for (long j = 0; j < n; j++) H0(i, j) = (i == j) ? 0.0 : 1.0 + double((std::max(i, j) * 7 + std::min(i, j) * 3) % 5);
                    bk.compute(H0, Eigen::Lower, 0.25); if (bk.info() == CompInfo::Successful) { Vec y = bk.solve(b); (void) y; }
                    Mat H1 = Mat::Identity(n + 1, n + 1); H1(n, 0) = 3.0; H1(0, n) = 3.0; bk.compute(H1, Eigen::Upper, 0.0);
                    bk.compute(H0, Eigen::Upper, -1.5);
                    bk.compute(A, ul == "L" ? Eigen::Lower : Eigen::Upper, shift + 0.75);
                }
                if (rm) { Eigen::Matrix<double, Eigen::Dynamic, Eigen::Dynamic, Eigen::RowMajor> Ar = A; bk.compute(Ar, ul == "L" ? Eigen::Lower : Eigen::Upper, shift); }
                else bk.compute(A, ul == "L" ? Eigen::Lower : Eigen::Upper, shift);
                o << (int) bk.info() << ' ';
                for (long i = 0; i < n; i++) o << (long) bk.m_perm[i] << ' ';
                for (long i = 0; i < bk.m_data.size(); i++) put(o, bk.m_data[i]);
                if (bk.info() == CompInfo::Successful) { Vec x = bk.solve(b); put(o, x); }
            }
            else if (t[0] == "arnoldi" || t[0] == "lanczos")
            {
                // <n> <m> <A n*n> <v0 n> <restart k or 0> <shift>
                Reader r(t, 1); long n = r.integer(), m = r.integer(); Mat A = r.mat(n, n); Vec v0 = r.vec(n);
                long kk = r.integer(); double shift = r.real();
                LoopOp op(A); typedef ArnoldiOp<double, LoopOp, IdentityBOp> AOp;
                Eigen::Index cnt = 0; Eigen::Map<const Vec> mv0(v0.data(), n);
                auto dump = [&](const Mat& V, const Mat& H, const Vec& f, double beta, long k) { put(o, V); put(o, H); put(o, f); put(o, beta); o << k << ' ' << (long) cnt << ' '; };
                if (t[0] == "arnoldi")
                {
                    Arnoldi<double, AOp> fac(AOp(op, IdentityBOp()), m);
                    fac.init(mv0, cnt); fac.factorize_from(1, m, cnt);
                    dump(fac.m_fac_V, fac.m_fac_H, fac.m_fac_f, fac.m_beta, fac.m_k);
                    if (kk > 0)
                    {   // one implicit restart with a single real shift repeated (m - kk) times
                        Mat Q = Mat::Identity(m, m); UpperHessenbergQR<double> qr(m);
                        for (long i = kk; i < m; i++) { qr.compute(fac.matrix_H(), shift); qr.apply_YQ(Q); fac.compress_H(qr); }
                        fac.compress_V(Q);
                        o << "| "; put(o, Mat(fac.m_fac_V.leftCols(kk))); put(o, Mat(fac.m_fac_H.topLeftCorner(kk, kk))); put(o, fac.m_fac_f); put(o, fac.m_beta); o << fac.m_k << ' ';
                        fac.factorize_from(kk, m, cnt);
                        o << "| "; dump(fac.m_fac_V, fac.m_fac_H, fac.m_fac_f, fac.m_beta, fac.m_k);
                    }
                }
                else
                {
                    Lanczos<double, AOp> fac(AOp(op, IdentityBOp()), m);
                    fac.init(mv0, cnt); fac.factorize_from(1, m, cnt);
                    dump(fac.m_fac_V, fac.m_fac_H, fac.m_fac_f, fac.m_beta, fac.m_k);
                    if (kk > 0)
                    {
                        Mat Q = Mat::Identity(m, m); TridiagQR<double> qr(m);
                        for (long i = kk; i < m; i++) { qr.compute(fac.matrix_H(), shift); qr.apply_YQ(Q); fac.compress_H(qr); }
                        fac.compress_V(Q);
                        o << "| "; put(o, Mat(fac.m_fac_V.leftCols(kk))); put(o, Mat(fac.m_fac_H.topLeftCorner(kk, kk))); put(o, fac.m_fac_f); put(o, fac.m_beta); o << fac.m_k << ' ';
                        fac.factorize_from(kk, m, cnt);
                        o << "| "; dump(fac.m_fac_V, fac.m_fac_H, fac.m_fac_f, fac.m_beta, fac.m_k);
                    }
                }
            }
            else if (t[0] == "pred_hqr" || t[0] == "pred_tqr")
            {
                Reader r(t, 2); long n = r.integer(); double shift = r.real(); Mat H = r.mat(n, n); bool tri = t[0] == "pred_tqr";
                if (t[1] == "float") o << pred_hqr<float>(n, shift, H, tri); else if (t[1] == "double") o << pred_hqr<double>(n, shift, H, tri); else o << pred_hqr<long double>(n, shift, H, tri);
            }
            else if (t[0] == "pred_dsqr")
            {
                Reader r(t, 2); long n = r.integer(); double ss = r.real(), tt = r.real(); Mat H = r.mat(n, n);
                if (t[1] == "float") o << pred_dsqr<float>(n, ss, tt, H); else if (t[1] == "double") o << pred_dsqr<double>(n, ss, tt, H); else o << pred_dsqr<long double>(n, ss, tt, H);
            }
            else if (t[0] == "dsqr")
            {
                Reader r(t, 1); long n = r.integer(); double ss = r.real(), tt = r.real(); Mat H = r.mat(n, n); Vec y = r.vec(n);
                long m = r.integer(); Mat Z = r.mat(m, n);
                DoubleShiftQR<double> qr(H, ss, tt);
                Mat Q(n, n); qr.matrix_QtHQ(Q); put(o, Q);
                for (long i = 0; i < n; i++) o << (int) qr.m_ref_nr[i] << ' ';
                for (long i = 0; i < n; i++) if (qr.m_ref_nr[i] > 1) { put(o, qr.m_ref_u(0, i)); put(o, qr.m_ref_u(1, i)); put(o, qr.m_ref_u(2, i)); }
                Vec a = y; qr.apply_QtY(a); put(o, a);
                Mat A3 = Z; qr.apply_YQ(A3); put(o, A3);
            }
            else if (t[0] == "tqr")
            {
                Reader r(t, 1); long n = r.integer(); double shift = r.real(); Vec d = r.vec(n); Vec sub = r.vec(n - 1);
                Mat Tm = Mat::Zero(n, n); Tm.diagonal() = d; Tm.diagonal(-1) = sub; Tm.diagonal(1) = sub;
                TridiagQR<double> qr(Tm, shift);
                Mat R = qr.matrix_R();
                for (long i = 0; i < n; i++) put(o, R(i, i));
                for (long i = 0; i + 1 < n; i++) put(o, R(i, i + 1));
                for (long i = 0; i + 2 < n; i++) put(o, R(i, i + 2));
                puta(o, qr.m_rot_cos); puta(o, qr.m_rot_sin);
                Mat Q; qr.matrix_QtHQ(Q);
                for (long i = 0; i < n; i++) put(o, Q(i, i));
                for (long i = 0; i + 1 < n; i++) put(o, Q(i + 1, i));
                bool shape = true;
                for (long i = 0; i < n; i++) for (long j = 0; j < n; j++)
                {
                    if (std::abs(i - j) > 1 && Q(i, j) != 0.0) shape = false;
                    if (j == i + 1 && bits(Q(i, j)) != bits(Q(j, i))) shape = false;
                    if (j > i && R(j, i) != 0.0) shape = false;
                    if (j > i + 2 && R(i, j) != 0.0) shape = false;
                }
                o << (shape ? "shape-ok" : "SHAPE-BAD");
            }
            else o << "ERROR unknown-case";
        }
        catch (const std::exception& e) { o.str(""); o << "throw " << e.what(); }
        std::cout << o.str() << "\n";
    }
    return 0;
}
