// C17 harness: LOBPCGSolver on the pencils / configurations of stdin.
// Protocol: lob <n> <k> <mseed> <withB 0|1> <precond 0|1> <maxit> <tol_div_n> <family>
// Output: info | eigenvalues | reference (k smallest of the pencil) | evec rows cols | |X'BX - I| | |R - (AX - BX L)| | max column norm of R | tol*n | finite
#include <Eigen/Core>
#include <Eigen/Dense>
#include <Eigen/Sparse>
#include <iostream>
#include <sstream>
#include <Spectra/contrib/LOBPCGSolver.h>
#include "common.h"
using namespace Spectra;
typedef Eigen::MatrixXd Mat; typedef Eigen::VectorXd Vec; typedef Eigen::SparseMatrix<double> SpMat;
struct Rng { uint64_t s; explicit Rng(uint64_t seed) : s(seed * 0x9E3779B97F4A7C15ULL + 0x1234567ULL) {}
    uint64_t next() { s += 0x9E3779B97F4A7C15ULL; uint64_t z = s; z = (z ^ (z >> 30)) * 0xBF58476D1CE4E5B9ULL; z = (z ^ (z >> 27)) * 0x94D049BB133111EBULL; return z ^ (z >> 31); }
    double unit() { return (next() >> 11) * (1.0 / 9007199254740992.0); } double sym() { return 2.0 * unit() - 1.0; } };

int main()
{
    std::string line;
    while (std::getline(std::cin, line))
    {
        std::vector<std::string> t = split(line);
        if (t.empty()) { std::cout << "\n"; continue; }
        std::ostringstream o; o.precision(17);
        try
        {
            int n = std::stoi(t[1]), k = std::stoi(t[2]); uint64_t seed = std::stoull(t[3]); bool withB = t[4] == "1", pre = t[5] == "1";
            int maxit = std::stoi(t[6]); double tol = std::stod(t[7]); const std::string fam = t[8];
            Rng r(seed);
            // A: sparse symmetric, smallest eigenvalues well separated (diagonal i + 0.5 / graded, weak sparse coupling)
            Mat Ad = Mat::Zero(n, n);
            for (int i = 0; i < n; i++) for (int j = 0; j < i; j++) if (r.next() % 5 == 0) { double v = (fam == "strong" ? 0.5 : 0.1) * r.sym(); Ad(i, j) = v; Ad(j, i) = v; }
            for (int i = 0; i < n; i++) Ad(i, i) = (fam == "laplace") ? 2.0 : (i + 0.5) * (fam == "wide" ? 3.0 : 1.0);
            if (fam == "laplace") { Ad.setZero(); for (int i = 0; i < n; i++) { Ad(i, i) = 2.0 + 0.3 * i; if (i + 1 < n) { Ad(i, i + 1) = -1.0; Ad(i + 1, i) = -1.0; } } }
            Mat Bd = Mat::Identity(n, n);
            if (withB) { Bd.setZero(); for (int i = 0; i < n; i++) { Bd(i, i) = 2.0 + r.unit(); if (i + 1 < n) { double v = 0.3 * r.sym(); Bd(i, i + 1) = v; Bd(i + 1, i) = v; } } }
            Mat Xd(n, k); for (int i = 0; i < n; i++) for (int j = 0; j < k; j++) Xd(i, j) = r.sym();
            SpMat A = Ad.sparseView(), B = Bd.sparseView(), X = Xd.sparseView();
            LOBPCGSolver<double> s(A, X);
            if (withB) s.setB(B);
            if (pre) { Mat P = Mat::Zero(n, n); for (int i = 0; i < n; i++) P(i, i) = 1.0 / Ad(i, i); SpMat Ps = P.sparseView(); s.setPreconditioner(Ps); }
            s.compute(maxit, tol);
            Vec ev = s.eigenvalues(); Mat V = s.eigenvectors(); Mat R = s.residuals();
            Eigen::GeneralizedSelfAdjointEigenSolver<Mat> ref(Ad, Bd);
            o << s.info() << " |"; for (long i = 0; i < ev.size(); i++) o << ' ' << ev[i];
            o << " |"; for (long i = 0; i < k; i++) o << ' ' << ref.eigenvalues()[i];
            o << " | " << V.rows() << ' ' << V.cols();
            double orth = -1, rdef = -1, rmax = 0; bool finite = ev.allFinite() && V.allFinite() && R.allFinite();
            if (V.rows() == n && V.cols() == k && ev.size() == k)
            {
                orth = (V.transpose() * Bd * V - Mat::Identity(k, k)).norm();
                Mat L = ev.asDiagonal(); if (R.rows() == n && R.cols() == k) rdef = (R - (Ad * V - Bd * V * L)).norm();
            }
            for (long j = 0; j < R.cols(); j++) rmax = std::max(rmax, R.col(j).norm());
            o << " | " << orth << " | " << rdef << " | " << rmax << " | " << tol * n << " | " << (finite ? 1 : 0) << " | " << R.rows() << ' ' << R.cols();
        }
        catch (const std::invalid_argument& e) { o << "throw invalid_argument " << e.what(); }
        catch (const std::exception& e) { o << "throw other " << e.what(); }
        std::cout << o.str() << "\n";
    }
    return 0;
}
