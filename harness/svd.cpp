// C16 harness: PartialSVDSolver on the matrices / configurations of stdin.
// Protocol: svd <kind D|S|R> <family> <m> <n> <mseed> <ncomp> <ncv> <maxit1> <tol1> <maxit2> <tol2>
//   kind: D dense column-major, R dense row-major, S sparse.  Two compute() calls in a row (the second is skipped when maxit2 < 0);
//   after each one: nconv, singular values, reference (leading singular values by a dense SVD), orthogonality and factor identities
//   for matrix_U(k) / matrix_V(k), column counts for k in {0, 1, nconv, nconv + 2}.
#include <Eigen/Core>
#include <Eigen/Dense>
#include <Eigen/Sparse>
#include <iostream>
#include <sstream>
#include <Spectra/contrib/PartialSVDSolver.h>
#include "common.h"
using namespace Spectra;
typedef Eigen::MatrixXd Mat; typedef Eigen::VectorXd Vec;
struct Rng { uint64_t s; explicit Rng(uint64_t seed) : s(seed * 0x9E3779B97F4A7C15ULL + 0x1234567ULL) {}
    uint64_t next() { s += 0x9E3779B97F4A7C15ULL; uint64_t z = s; z = (z ^ (z >> 30)) * 0xBF58476D1CE4E5B9ULL; z = (z ^ (z >> 27)) * 0x94D049BB133111EBULL; return z ^ (z >> 31); }
    double unit() { return (next() >> 11) * (1.0 / 9007199254740992.0); } double sym() { return 2.0 * unit() - 1.0; } };

static Mat family(const std::string& fam, int m, int n, uint64_t seed)
{
    Rng r(seed); Mat A(m, n);
    for (int i = 0; i < m; i++) for (int j = 0; j < n; j++) A(i, j) = r.sym();
    const int k = std::min(m, n);
    if (fam == "gapped" || fam == "lowrank" || fam == "rank1" || fam == "repeated")
    {   // prescribed singular values: U diag(s) V'
        Eigen::HouseholderQR<Mat> q1(Mat(A * A.transpose() + Mat::Identity(m, m))), q2(Mat(A.transpose() * A + Mat::Identity(n, n)));
        Mat U = q1.householderQ() * Mat::Identity(m, k), V = q2.householderQ() * Mat::Identity(n, k); Vec s(k);
        for (int i = 0; i < k; i++)
        {
            if (fam == "gapped") s[i] = 10.0 * std::pow(0.6, i);
            else if (fam == "lowrank") s[i] = i < 3 ? 5.0 - i : 0.0;
            else if (fam == "rank1") s[i] = i < 1 ? 3.0 : 0.0;
            else s[i] = i < 2 ? 4.0 : (i < 4 ? 2.0 : 1.0 / (1 + i));
        }
        A = U * s.asDiagonal() * V.transpose();
    }
    else if (fam == "integer") { for (int i = 0; i < m; i++) for (int j = 0; j < n; j++) A(i, j) = (double) ((int) (r.next() % 5) - 2); }
    else if (fam == "intrank")      // integer entries, exactly rank 2
    { for (int i = 0; i < m; i++) for (int j = 0; j < n; j++) A(i, j) = (double) ((1 + i) * (1 + j % 3) + (i % 2) * (j + 1)); }
    else if (fam == "zero") A.setZero();
    else if (fam == "sparse") { for (int i = 0; i < m; i++) for (int j = 0; j < n; j++) if (r.next() % 4) A(i, j) = 0.0; for (int i = 0; i < k; i++) A(i, i) += 2.0 + i; }
    return A;
}

template <typename MT, typename Make>
static std::string run(const Mat& A, Make make, int ncomp, int ncv, long maxit1, double tol1, long maxit2, double tol2)
{
    MT M = make(A);
    PartialSVDSolver<MT> s(M, ncomp, ncv);
    Eigen::JacobiSVD<Mat> ref(A); const double normA = ref.singularValues().size() ? ref.singularValues()[0] : 0.0;
    std::ostringstream o; o.precision(17);
    for (int pass = 0; pass < 2; pass++)
    {
        const long maxit = pass ? maxit2 : maxit1; const double tol = pass ? tol2 : tol1;
        if (maxit < 0) break;
        long nc = (long) s.compute(maxit, tol);
        Vec sv = s.singular_values();
        o << "pass " << nc << ' ' << sv.size() << " |";
        for (long i = 0; i < sv.size(); i++) o << ' ' << sv[i];
        o << " |";
        for (long i = 0; i < sv.size(); i++) o << ' ' << ref.singularValues()[i];
        // column counts
        o << " |";
        long ks[4] = {0, 1, nc, nc + 2};
        for (int q = 0; q < 4; q++) { Mat U = s.matrix_U(ks[q]), V = s.matrix_V(ks[q]); o << ' ' << U.cols() << ' ' << V.cols() << ' ' << U.rows() << ' ' << V.rows(); }
        Mat U = s.matrix_U(nc), V = s.matrix_V(nc);
        double ou = 0, ov = 0, av = 0, au = 0; bool finite = sv.allFinite();
        // identities only for the leading singular values above 1e-4 |A|
        long kk = 0; while (kk < nc && kk < sv.size() && sv[kk] > 1e-4 * normA) kk++;
        if (kk > 0 && U.cols() >= kk && V.cols() >= kk)
        {
            Mat Uk = U.leftCols(kk), Vk = V.leftCols(kk); Mat S = sv.head(kk).asDiagonal();
            ou = (Uk.transpose() * Uk - Mat::Identity(kk, kk)).norm(); ov = (Vk.transpose() * Vk - Mat::Identity(kk, kk)).norm();
            av = (A * Vk - Uk * S).norm(); au = (A.transpose() * Uk - Vk * S).norm();
        }
        o << " | " << kk << ' ' << ou << ' ' << ov << ' ' << av << ' ' << au << ' ' << (finite ? 1 : 0) << ' ' << normA << ' ';
    }
    return o.str();
}

int main()
{
    std::string line;
    while (std::getline(std::cin, line))
    {
        std::vector<std::string> t = split(line);
        if (t.empty()) { std::cout << "\n"; continue; }
        std::string out;
        try
        {
            const std::string kind = t[1], fam = t[2]; int m = std::stoi(t[3]), n = std::stoi(t[4]); uint64_t seed = std::stoull(t[5]);
            int ncomp = std::stoi(t[6]), ncv = std::stoi(t[7]); long m1 = std::stol(t[8]); double t1 = std::stod(t[9]); long m2 = std::stol(t[10]); double t2 = std::stod(t[11]);
            Mat A = family(fam, m, n, seed);
            if (kind == "D") out = run<Mat>(A, [](const Mat& X) { return X; }, ncomp, ncv, m1, t1, m2, t2);
            else if (kind == "R") { typedef Eigen::Matrix<double, Eigen::Dynamic, Eigen::Dynamic, Eigen::RowMajor> RM; out = run<RM>(A, [](const Mat& X) { return RM(X); }, ncomp, ncv, m1, t1, m2, t2); }
            else { typedef Eigen::SparseMatrix<double> SM; out = run<SM>(A, [](const Mat& X) { SM S = X.sparseView(); return S; }, ncomp, ncv, m1, t1, m2, t2); }
        }
        catch (const std::invalid_argument& e) { out = std::string("throw invalid_argument ") + e.what(); }
        catch (const std::exception& e) { out = std::string("throw other ") + e.what(); }
        std::cout << out << "\n";
    }
    return 0;
}
