// Solver zoo: one uniform, type-erased driver for every Arnoldi/Lanczos-family solver
// class of the library, with counting / fault-injecting user operators, deterministic
// problem families, and an observation record of the public API.
// Used by the glue-level checks (C01-C06, C13, C14, C16).
#pragma once
#include <Eigen/Core>
#include <Eigen/SparseCore>
#include <Eigen/Eigenvalues>
#include <complex>
#include <memory>
#include <vector>
#include <string>
#include <map>
#include <sstream>
#include <stdexcept>
#include <cmath>
#ifdef ZOO_PRIVATE_ACCESS
#define private public
#define protected public
#endif
#include <Spectra/SymEigsSolver.h>
#include <Spectra/HermEigsSolver.h>
#include <Spectra/SymEigsShiftSolver.h>
#include <Spectra/GenEigsSolver.h>
#include <Spectra/GenEigsRealShiftSolver.h>
#include <Spectra/GenEigsComplexShiftSolver.h>
#include <Spectra/SymGEigsSolver.h>
#include <Spectra/SymGEigsShiftSolver.h>
#include <Spectra/contrib/PartialSVDSolver.h>
#include <Spectra/MatOp/DenseGenMatProd.h>
#include <Spectra/MatOp/DenseSymMatProd.h>
#include <Spectra/MatOp/DenseHermMatProd.h>
#include <Spectra/MatOp/SparseSymMatProd.h>
#include <Spectra/MatOp/DenseSymShiftSolve.h>
#include <Spectra/MatOp/DenseGenRealShiftSolve.h>
#include <Spectra/MatOp/DenseGenComplexShiftSolve.h>
#include <Spectra/MatOp/DenseCholesky.h>
#include <Spectra/MatOp/SparseRegularInverse.h>
#include <Spectra/MatOp/SymShiftInvert.h>
#ifdef ZOO_PRIVATE_ACCESS
#undef private
#undef protected
#endif
#include "common.h"

namespace zoo {
using namespace Spectra;
typedef std::complex<double> cd;
typedef Eigen::MatrixXd Mat;
typedef Eigen::VectorXd Vec;
typedef Eigen::MatrixXcd CMat;
typedef Eigen::VectorXcd CVec;

// ------------------------------------------------------------------ PRNG (splitmix64)
struct Rng
{
    uint64_t s;
    explicit Rng(uint64_t seed) : s(seed * 0x9E3779B97F4A7C15ULL + 0x1234567ULL) {}
    uint64_t next()
    {
        s += 0x9E3779B97F4A7C15ULL; uint64_t z = s;
        z = (z ^ (z >> 30)) * 0xBF58476D1CE4E5B9ULL; z = (z ^ (z >> 27)) * 0x94D049BB133111EBULL; return z ^ (z >> 31);
    }
    double unit() { return (next() >> 11) / 9007199254740992.0; }       // [0,1)
    double sym() { return 2.0 * unit() - 1.0; }
    long range(long a, long b) { return a + (long) (next() % (uint64_t) (b - a + 1)); }
};

// ------------------------------------------------------------------ operator control (count / fault)
struct OpFault : std::runtime_error { long index; explicit OpFault(long k) : std::runtime_error("injected operator fault"), index(k) {} };
struct OpCtl
{
    long count = 0;       // applications since reset
    long fault_at = -1;   // 1-based index of the application that throws (-1: never)
    long fault_at2 = -1;
    long bad_args = 0;    // applications with x == y or null pointers
    bool paused = false;  // observer computations do not count and never fault
    void tick(const void* x, const void* y)
    {
        if (paused) return;
        count++;
        if (x == nullptr || y == nullptr || x == y) bad_args++;
        if (count == fault_at || count == fault_at2) throw OpFault(count);
    }
};

// wraps a built-in matrix operation; only functions that are actually called get instantiated
template <typename Base>
class Ctl : public Base
{
public:
    typedef typename Base::Scalar Scalar;
    OpCtl* ctl = nullptr;
    using Base::Base;
    void perform_op(const Scalar* x, Scalar* y) const { if (ctl) ctl->tick(x, y); Base::perform_op(x, y); }
    template <typename... D> void solve(const Scalar* x, Scalar* y, D...) const { if (ctl) ctl->tick(x, y); Base::solve(x, y); }
    template <typename... D> void lower_triangular_solve(const Scalar* x, Scalar* y, D...) const { if (ctl) ctl->tick(x, y); Base::lower_triangular_solve(x, y); }
    template <typename... D> void upper_triangular_solve(const Scalar* x, Scalar* y, D...) const { if (ctl) ctl->tick(x, y); Base::upper_triangular_solve(x, y); }
};

// ------------------------------------------------------------------ problems
struct Problem
{
    int n = 0;
    Mat A;      // real matrix (symmetric for the symmetric families)
    CMat Ac;    // complex Hermitian matrix (HermEigsSolver)
    Mat B;      // SPD matrix (generalized problems); in buckling mode: K = B (SPD), KG = A
    Mat S;      // rectangular matrix (SVD)
    double sigma = 0.0, sigmai = 0.0;
    std::string fam;
};

inline Mat rand_orth(int n, Rng& r)
{
    Mat Q = Mat::Identity(n, n);
    for (int k = 0; k < 3; k++)
    {
        Vec v(n); for (int i = 0; i < n; i++) v[i] = r.sym();
        double nn = v.squaredNorm(); if (nn == 0) continue;
        Q = Q - (2.0 / nn) * (Q * v) * v.transpose();
    }
    return Q;
}

inline Vec spectrum(const std::string& fam, int n, Rng& r)
{
    Vec d(n);
    if (fam == "gapped") for (int i = 0; i < n; i++) d[i] = (i % 2 ? -1.0 : 1.0) * (1.0 + i + 0.25 * r.unit());
    else if (fam == "posgapped") for (int i = 0; i < n; i++) d[i] = 1.0 + 1.5 * i + 0.25 * r.unit();
    else if (fam == "clustered") for (int i = 0; i < n; i++) d[i] = (i < n / 2 ? 1.0 + 1e-6 * i : 3.0 + i);
    else if (fam == "repeated") for (int i = 0; i < n; i++) d[i] = 1.0 + (i / 3);
    else if (fam == "graded") for (int i = 0; i < n; i++) d[i] = std::pow(10.0, -8.0 + 16.0 * i / std::max(1, n - 1));
    else if (fam == "lowrank") for (int i = 0; i < n; i++) d[i] = (i < 2 ? 1.0 + i : 0.0);
    else if (fam == "zero") d.setZero();
    else if (fam == "identity") d.setOnes();
    else for (int i = 0; i < n; i++) d[i] = 4.0 * r.sym();   // "generic"
    return d;
}

inline Problem make_problem(const std::string& fam, int n, uint64_t mseed, double scale, double sigma, double sigmai, int svd_rows = 0, int svd_cols = 0)
{
    Problem p; p.n = n; p.fam = fam; p.sigma = sigma; p.sigmai = sigmai;
    Rng r(mseed);
    Mat Q = rand_orth(n, r);
    if (fam == "blockdiag")
    {
        p.A = Mat::Zero(n, n);
        for (int i = 0; i + 1 < n; i += 2) { double a = 1.0 + i, b = 0.5 + 0.1 * i; p.A(i, i) = a; p.A(i + 1, i + 1) = a; p.A(i, i + 1) = b; p.A(i + 1, i) = b; }
        if (n % 2) p.A(n - 1, n - 1) = 7.0;
    }
    else if (fam == "rowsum")
    {   // path-graph Laplacian + 3 I: small integers, constant row sums 3, so the all-ones vector is an exact eigenvector (exactly in floating point for n a perfect square)
        p.A = Mat::Zero(n, n);
        for (int i = 0; i < n; i++) { p.A(i, i) = 3.0 + ((i > 0) ? 1.0 : 0.0) + ((i + 1 < n) ? 1.0 : 0.0); if (i + 1 < n) { p.A(i, i + 1) = -1.0; p.A(i + 1, i) = -1.0; } }
    }
    else if (fam == "integer")
    {
        p.A = Mat::Zero(n, n);
        for (int i = 0; i < n; i++) for (int j = 0; j <= i; j++) { double v = (double) r.range(-3, 3); p.A(i, j) = v; p.A(j, i) = v; }
    }
    else
    {
        Vec d = spectrum(fam, n, r);
        p.A = Q * d.asDiagonal() * Q.transpose();
        p.A = ((p.A + p.A.transpose()) * 0.5).eval();
    }
    p.A *= scale;
    // Hermitian: A + i*K with K skew
    {
        Mat K = Mat::Zero(n, n);
        for (int i = 0; i < n; i++) for (int j = 0; j < i; j++) { double v = 0.3 * r.sym(); K(i, j) = v; K(j, i) = -v; }
        p.Ac = p.A.cast<cd>() + cd(0, 1) * (scale * K).cast<cd>();
    }
    // SPD B with moderate conditioning
    {
        Mat Q2 = rand_orth(n, r); Vec e(n);
        for (int i = 0; i < n; i++) e[i] = 1.0 + 3.0 * r.unit();
        p.B = Q2 * e.asDiagonal() * Q2.transpose(); p.B = ((p.B + p.B.transpose()) * 0.5).eval();
    }
    if (svd_rows > 0)
    {
        p.S = Mat(svd_rows, svd_cols);
        for (int i = 0; i < svd_rows; i++) for (int j = 0; j < svd_cols; j++) p.S(i, j) = r.sym() + (i == j ? 2.0 + i : 0.0);
        p.S *= scale;
    }
    return p;
}

// general (nonsymmetric) families overwrite p.A
inline void make_general(Problem& p, const std::string& gfam, uint64_t mseed, double scale)
{
    const int n = p.n; Rng r(mseed ^ 0xABCDEFULL);
    Mat A = Mat::Zero(n, n);
    if (gfam == "grandom") { for (int i = 0; i < n; i++) for (int j = 0; j < n; j++) A(i, j) = r.sym(); for (int i = 0; i < n; i++) A(i, i) += 0.5 * i; }
    else if (gfam == "gnormal")
    {   // block diagonal 2x2 rotations-with-scaling, similarity by an orthogonal matrix: complex pairs, all distinct moduli
        Mat D = Mat::Zero(n, n);
        for (int i = 0; i + 1 < n; i += 2) { double a = 1.0 + 0.7 * i, b = 0.5 + 0.3 * i; D(i, i) = a; D(i + 1, i + 1) = a; D(i, i + 1) = b; D(i + 1, i) = -b; }
        if (n % 2) D(n - 1, n - 1) = -3.0;
        Mat Q = rand_orth(n, r); A = Q * D * Q.transpose();
    }
    else if (gfam == "gblock")
    {   // normal, block diagonal with a leading block of size max(2, n/3): vectors supported on the leading coordinates span an invariant subspace
        const int kb = std::max(2, n / 3);
        Mat D = Mat::Zero(n, n);
        for (int i = 0; i + 1 < n; i += 2) { if (i + 1 == kb) { D(i, i) = -2.0 - i; i--; continue; } double a = 1.0 + 0.7 * i, b = 0.5 + 0.3 * i; D(i, i) = a; D(i + 1, i + 1) = a; D(i, i + 1) = b; D(i + 1, i) = -b; }
        if (D(n - 1, n - 1) == 0.0 && (n < 2 || D(n - 1, n - 2) == 0.0)) D(n - 1, n - 1) = -3.5 - n;
        Mat Q = Mat::Zero(n, n); Q.topLeftCorner(kb, kb) = rand_orth(kb, r); Q.bottomRightCorner(n - kb, n - kb) = rand_orth(n - kb, r);
        A = Q * D * Q.transpose();
    }
    else if (gfam == "growsum")
    {   // nonsymmetric small integers with constant row sums 3: the all-ones vector is an exact right eigenvector
        for (int i = 0; i < n; i++) { A(i, i) = 3.0 - 2.0 - ((i >= 2) ? 1.0 : 0.0); A(i, (i + 1) % n) += 2.0; if (i >= 2) A(i, i - 2) += 1.0; }
    }
    else if (gfam == "gtriangular") { for (int i = 0; i < n; i++) { A(i, i) = 1.0 + i; for (int j = i + 1; j < n; j++) A(i, j) = 0.3 * r.sym(); } }
    else if (gfam == "gskew") { for (int i = 0; i < n; i++) for (int j = 0; j < i; j++) { double v = r.sym() + (i == j + 1 ? 1.0 + j : 0.0); A(i, j) = v; A(j, i) = -v; } }
    else if (gfam == "gperm") { for (int i = 0; i < n; i++) A((i + 1) % n, i) = 1.0; }
    else if (gfam == "gorth") { A = rand_orth(n, r); }
    else if (gfam == "gnilpotent") { for (int i = 0; i + 1 < n; i++) A(i, i + 1) = 1.0; }
    else if (gfam == "gzero") {}
    else if (gfam == "gidentity") { A.setIdentity(); }
    else if (gfam == "grealspec")
    {   // real distinct eigenvalues, non-normal
        Mat T = Mat::Zero(n, n); for (int i = 0; i < n; i++) { T(i, i) = (i % 2 ? -1.0 : 1.0) * (1.0 + i); for (int j = i + 1; j < n; j++) T(i, j) = 0.2 * r.sym(); }
        Mat Q = rand_orth(n, r); A = Q * T * Q.transpose();
    }
    else { for (int i = 0; i < n; i++) for (int j = 0; j < n; j++) A(i, j) = r.sym(); }
    p.A = A * scale; p.fam = gfam;
}

// ------------------------------------------------------------------ observations
struct Obs
{
    bool threw = false; std::string exc;
    long ret = -1, niter = -1, nops = -1; int info = -1;
    std::vector<cd> evals; CMat evecs;
    long opcount = 0, bcount = 0, bad_args = 0;
};

inline std::string exc_name(const std::exception& e)
{
    if (dynamic_cast<const OpFault*>(&e)) return "OpFault";
    if (dynamic_cast<const std::invalid_argument*>(&e)) return "invalid_argument";
    if (dynamic_cast<const std::logic_error*>(&e)) return "logic_error";
    if (dynamic_cast<const std::runtime_error*>(&e)) return "runtime_error";
    if (dynamic_cast<const std::bad_alloc*>(&e)) return "bad_alloc";
    return "other";
}

struct Peek
{
    long nmatop = -1, niter = -1, k = -1; int info = -1;
    std::string flags, small, pairs;   // '0'/'1' strings: convergence flags; |est_i| < near_0; (is_complex(val_j) && is_conj(val_j, val_j+1))
};

// defects of the Krylov factorization held by a solver (C07), all relative to `scale`
struct KryRep
{
    long k = -1, m = -1; double scale = 0, rel = -1, orth = -1, fperp = -1, shape = -1, sym = -1, beta_err = -1, minsub = 1; bool finite = true;
};

struct IRunner
{
    Problem prob; OpCtl ctl, ctlB;
    virtual void peek(Peek&) {}
    virtual void kry(KryRep&, bool lanczos_shape) {}
    // reference spectrum of the user's problem (dense solver), for the selection property
    virtual std::vector<cd> reference() const
    {
        std::vector<cd> out;
        if (is_general_cls)
        { Eigen::EigenSolver<Mat> es(prob.A, false); for (long i = 0; i < prob.n; i++) out.push_back(es.eigenvalues()[i]); }
        else if (complex_scalar())
        { Eigen::SelfAdjointEigenSolver<CMat> es(prob.Ac, Eigen::EigenvaluesOnly); for (long i = 0; i < prob.n; i++) out.push_back(cd(es.eigenvalues()[i], 0)); }
        else
        { Eigen::SelfAdjointEigenSolver<Mat> es(prob.A, Eigen::EigenvaluesOnly); for (long i = 0; i < prob.n; i++) out.push_back(cd(es.eigenvalues()[i], 0)); }
        return out;
    }
    bool is_general_cls = false;
    std::string cls; int nev = 0, ncv = 0;
    virtual ~IRunner() {}
    virtual void init() = 0;
    virtual void initv(const CVec& v) = 0;
    virtual long compute(int sel, long maxit, double tol, int sorting) = 0;
    virtual void snapshot(Obs& o, long nvec) = 0;   // nvec < 0: eigenvectors()
    virtual bool complex_scalar() const { return false; }
    // the user's pencil, for residuals: returns A x and B x in the ORIGINAL problem
    virtual void pencil(const CVec& x, CVec& Ax, CVec& Bx) const { Ax = prob.A.cast<cd>() * x; Bx = x; }
    // M x for the inner product the returned vectors are orthonormal in (B; K in buckling mode)
    virtual CVec ipvec(const CVec& x) const { CVec a, b; pencil(x, a, b); return b; }
    virtual double normA() const { return prob.A.norm(); }
    virtual double normB() const { return 1.0; }
    // probe the user operator with a fixed vector (for "operator left untouched")
    virtual Vec probe() { return Vec(); }
    virtual void* solver_ptr() { return nullptr; }
};

#ifdef ZOO_PRIVATE_ACCESS
template <typename S>
static void peek_solver(S& s, Peek& p)
{
    p.nmatop = (long) s.m_nmatop; p.niter = (long) s.m_niter; p.k = (long) s.m_fac.m_k; p.info = (int) s.m_info;
    p.flags.clear(); for (long i = 0; i < (long) s.m_ritz_conv.size(); i++) p.flags += (s.m_ritz_conv[i] ? '1' : '0');
    const double near_0 = Spectra::TypeTraits<double>::min() * 10.0;
    p.small.clear(); for (long i = 0; i < (long) s.m_ritz_est.size(); i++) p.small += (std::abs(s.m_ritz_est[i]) < near_0 ? '1' : '0');
    p.pairs.clear();
    for (long j = 0; j + 1 < (long) s.m_ritz_val.size(); j++)
    {
        cd a(s.m_ritz_val[j]), b(s.m_ritz_val[j + 1]);
        p.pairs += ((a.imag() != 0.0 && a == std::conj(b)) ? '1' : '0');
    }
}
template <typename S>
static void kry_solver(S& s, KryRep& r, OpCtl& c1, OpCtl& c2, bool herm)
{
    typedef typename std::remove_reference<decltype(s.m_fac.m_fac_V)>::type M;
    typedef typename M::Scalar Sc;
    typedef Eigen::Matrix<Sc, Eigen::Dynamic, 1> V;
    auto& fac = s.m_fac;
    const bool p1 = c1.paused, p2 = c2.paused; c1.paused = true; c2.paused = true;
    const long k = (long) fac.m_k, n = (long) fac.m_n; r.k = k; r.m = (long) fac.m_m;
    if (k >= 1 && k <= fac.m_m && fac.m_fac_V.cols() >= k && fac.m_fac_V.rows() == n)
    {
        M Vk = fac.m_fac_V.leftCols(k); M Hk = fac.m_fac_H.topLeftCorner(k, k); V f = fac.m_fac_f;
        M OV(n, k);
        for (long j = 0; j < k; j++) { V x = Vk.col(j), y(n); fac.m_op.perform_op(x.data(), y.data()); OV.col(j) = y; }
        M R = OV - Vk * Hk; R.col(k - 1) -= f;
        double scale = std::max((double) OV.norm() / std::sqrt((double) k), 1e-300);
        r.scale = scale; r.rel = (double) R.norm() / scale;
        M G(k, k); V g(k);
        for (long i = 0; i < k; i++) { for (long j = 0; j < k; j++) G(i, j) = fac.m_op.inner_product(Vk.col(i), Vk.col(j)); g[i] = fac.m_op.inner_product(Vk.col(i), f); }
        r.orth = (double) (G - M::Identity(k, k)).norm();
        r.fperp = (double) g.norm() / scale;
        double sh = 0, sy = 0;
        for (long j = 0; j < k; j++) for (long i = 0; i < k; i++)
        {
            if (i > j + 1) sh = std::max(sh, (double) std::abs(Hk(i, j)));
            if (herm && j > i + 1) sh = std::max(sh, (double) std::abs(Hk(i, j)));
            if (herm) sy = std::max(sy, (double) std::abs(Hk(i, j) - Eigen::numext::conj(Hk(j, i))));
        }
        r.shape = sh / scale; r.sym = sy / scale;
        // smallest sub-diagonal entry relative to |H|: a value at rounding level means a (missed) Krylov breakdown was passed
        { double hm = (double) Hk.cwiseAbs().maxCoeff(), ms = 1.0; for (long j = 0; j + 1 < k; j++) { double a = (double) std::abs(Hk(j + 1, j)); if (a > 0 && hm > 0) ms = std::min(ms, a / hm); } r.minsub = ms; }   // exact zeros are DETECTED breakdowns and do not count
        r.beta_err = std::abs((double) fac.m_beta - (double) fac.m_op.norm(f)) / scale;
        r.finite = std::isfinite(r.rel) && std::isfinite(r.orth) && std::isfinite(r.fperp);
    }
    c1.paused = p1; c2.paused = p2;
}
#define ZOO_PEEK void peek(Peek& p) override { peek_solver(*s, p); } void kry(KryRep& r, bool herm) override { kry_solver(*s, r, ctl, ctlB, herm); }
#else
#define ZOO_PEEK
#endif

template <typename Solver>
static void snap(Solver& s, Obs& o, long nvec)
{
    o.info = (int) s.info(); o.niter = (long) s.num_iterations(); o.nops = (long) s.num_operations();
    auto ev = s.eigenvalues();
    o.evals.resize(ev.size());
    for (long i = 0; i < (long) ev.size(); i++) o.evals[i] = cd(ev[i]);
    if (nvec < 0) o.evecs = s.eigenvectors().template cast<cd>(); else o.evecs = s.eigenvectors(nvec).template cast<cd>();
}

// ---- real symmetric standard
struct RSym : IRunner
{
    typedef Ctl<DenseSymMatProd<double>> Op; std::unique_ptr<Op> op; std::unique_ptr<SymEigsSolver<Op>> s;
    RSym(const Problem& p, int nev_, int ncv_) { prob = p; cls = "SymEigsSolver"; nev = nev_; ncv = ncv_; op.reset(new Op(prob.A)); op->ctl = &ctl; s.reset(new SymEigsSolver<Op>(*op, nev, ncv)); }
    void init() override { s->init(); }
    void initv(const CVec& v) override { Vec r = v.real(); s->init(r.data()); }
    long compute(int sel, long maxit, double tol, int sorting) override { return (long) s->compute((SortRule) sel, maxit, tol, (SortRule) sorting); }
    void snapshot(Obs& o, long nvec) override { snap(*s, o, nvec); }
    Vec probe() override { Vec x = Vec::LinSpaced(prob.n, 1.0, 2.0), y(prob.n); static_cast<const DenseSymMatProd<double>&>(*op).perform_op(x.data(), y.data()); return y; }
    void* solver_ptr() override { return s.get(); }
    ZOO_PEEK
};
// ---- complex Hermitian standard
struct RHerm : IRunner
{
    typedef Ctl<DenseHermMatProd<cd>> Op; std::unique_ptr<Op> op; std::unique_ptr<HermEigsSolver<Op>> s;
    RHerm(const Problem& p, int nev_, int ncv_) { prob = p; cls = "HermEigsSolver"; nev = nev_; ncv = ncv_; op.reset(new Op(prob.Ac)); op->ctl = &ctl; s.reset(new HermEigsSolver<Op>(*op, nev, ncv)); }
    void init() override { s->init(); }
    void initv(const CVec& v) override { CVec r = v; s->init(r.data()); }
    long compute(int sel, long maxit, double tol, int sorting) override { return (long) s->compute((SortRule) sel, maxit, tol, (SortRule) sorting); }
    void snapshot(Obs& o, long nvec) override { snap(*s, o, nvec); }
    bool complex_scalar() const override { return true; }
    void pencil(const CVec& x, CVec& Ax, CVec& Bx) const override { Ax = prob.Ac * x; Bx = x; }
    double normA() const override { return prob.Ac.norm(); }
    void* solver_ptr() override { return s.get(); }
    ZOO_PEEK
};
// ---- real symmetric shift-and-invert
struct RSymShift : IRunner
{
    typedef Ctl<DenseSymShiftSolve<double>> Op; std::unique_ptr<Op> op; std::unique_ptr<SymEigsShiftSolver<Op>> s;
    RSymShift(const Problem& p, int nev_, int ncv_) { prob = p; cls = "SymEigsShiftSolver"; nev = nev_; ncv = ncv_; op.reset(new Op(prob.A)); op->ctl = &ctl; s.reset(new SymEigsShiftSolver<Op>(*op, nev, ncv, prob.sigma)); }
    void init() override { s->init(); }
    void initv(const CVec& v) override { Vec r = v.real(); s->init(r.data()); }
    long compute(int sel, long maxit, double tol, int sorting) override { return (long) s->compute((SortRule) sel, maxit, tol, (SortRule) sorting); }
    void snapshot(Obs& o, long nvec) override { snap(*s, o, nvec); }
    Vec probe() override { Vec x = Vec::LinSpaced(prob.n, 1.0, 2.0), y(prob.n); static_cast<const DenseSymShiftSolve<double>&>(*op).perform_op(x.data(), y.data()); return y; }
    void* solver_ptr() override { return s.get(); }
    ZOO_PEEK
};
// ---- general real
struct RGen : IRunner
{
    typedef Ctl<DenseGenMatProd<double>> Op; std::unique_ptr<Op> op; std::unique_ptr<GenEigsSolver<Op>> s;
    RGen(const Problem& p, int nev_, int ncv_) { is_general_cls = true; prob = p; cls = "GenEigsSolver"; nev = nev_; ncv = ncv_; op.reset(new Op(prob.A)); op->ctl = &ctl; s.reset(new GenEigsSolver<Op>(*op, nev, ncv)); }
    void init() override { s->init(); }
    void initv(const CVec& v) override { Vec r = v.real(); s->init(r.data()); }
    long compute(int sel, long maxit, double tol, int sorting) override { return (long) s->compute((SortRule) sel, maxit, tol, (SortRule) sorting); }
    void snapshot(Obs& o, long nvec) override { snap(*s, o, nvec); }
    Vec probe() override { Vec x = Vec::LinSpaced(prob.n, 1.0, 2.0), y(prob.n); static_cast<const DenseGenMatProd<double>&>(*op).perform_op(x.data(), y.data()); return y; }
    void* solver_ptr() override { return s.get(); }
    ZOO_PEEK
};
struct RGenRealShift : IRunner
{
    typedef Ctl<DenseGenRealShiftSolve<double>> Op; std::unique_ptr<Op> op; std::unique_ptr<GenEigsRealShiftSolver<Op>> s;
    RGenRealShift(const Problem& p, int nev_, int ncv_) { is_general_cls = true; prob = p; cls = "GenEigsRealShiftSolver"; nev = nev_; ncv = ncv_; op.reset(new Op(prob.A)); op->ctl = &ctl; s.reset(new GenEigsRealShiftSolver<Op>(*op, nev, ncv, prob.sigma)); }
    void init() override { s->init(); }
    void initv(const CVec& v) override { Vec r = v.real(); s->init(r.data()); }
    long compute(int sel, long maxit, double tol, int sorting) override { return (long) s->compute((SortRule) sel, maxit, tol, (SortRule) sorting); }
    void snapshot(Obs& o, long nvec) override { snap(*s, o, nvec); }
    Vec probe() override { Vec x = Vec::LinSpaced(prob.n, 1.0, 2.0), y(prob.n); static_cast<const DenseGenRealShiftSolve<double>&>(*op).perform_op(x.data(), y.data()); return y; }
    void* solver_ptr() override { return s.get(); }
    ZOO_PEEK
};
struct RGenComplexShift : IRunner
{
    typedef Ctl<DenseGenComplexShiftSolve<double>> Op; std::unique_ptr<Op> op; std::unique_ptr<GenEigsComplexShiftSolver<Op>> s;
    RGenComplexShift(const Problem& p, int nev_, int ncv_) { is_general_cls = true; prob = p; cls = "GenEigsComplexShiftSolver"; nev = nev_; ncv = ncv_; op.reset(new Op(prob.A)); op->ctl = &ctl; s.reset(new GenEigsComplexShiftSolver<Op>(*op, nev, ncv, prob.sigma, prob.sigmai)); }
    void init() override { s->init(); }
    void initv(const CVec& v) override { Vec r = v.real(); s->init(r.data()); }
    long compute(int sel, long maxit, double tol, int sorting) override { return (long) s->compute((SortRule) sel, maxit, tol, (SortRule) sorting); }
    void snapshot(Obs& o, long nvec) override { snap(*s, o, nvec); }
    Vec probe() override { Vec x = Vec::LinSpaced(prob.n, 1.0, 2.0), y(prob.n); static_cast<const DenseGenComplexShiftSolve<double>&>(*op).perform_op(x.data(), y.data()); return y; }
    void* solver_ptr() override { return s.get(); }
    ZOO_PEEK
};
// ---- generalized, Cholesky mode
struct RGCholesky : IRunner
{
    typedef Ctl<DenseSymMatProd<double>> Op; typedef Ctl<DenseCholesky<double>> BOp;
    typedef SymGEigsSolver<Op, BOp, GEigsMode::Cholesky> S;
    std::unique_ptr<Op> op; std::unique_ptr<BOp> bop; std::unique_ptr<S> s;
    RGCholesky(const Problem& p, int nev_, int ncv_) { prob = p; cls = "SymGEigsSolver_Cholesky"; nev = nev_; ncv = ncv_; op.reset(new Op(prob.A)); op->ctl = &ctl; bop.reset(new BOp(prob.B)); bop->ctl = &ctlB; s.reset(new S(*op, *bop, nev, ncv)); }
    void init() override { s->init(); }
    void initv(const CVec& v) override { Vec r = v.real(); s->init(r.data()); }
    long compute(int sel, long maxit, double tol, int sorting) override { return (long) s->compute((SortRule) sel, maxit, tol, (SortRule) sorting); }
    void snapshot(Obs& o, long nvec) override { snap(*s, o, nvec); }
    void pencil(const CVec& x, CVec& Ax, CVec& Bx) const override { Ax = prob.A.cast<cd>() * x; Bx = prob.B.cast<cd>() * x; }
    double normB() const override { return prob.B.norm(); }
    std::vector<cd> reference() const override
    {
        std::vector<cd> out; Eigen::GeneralizedSelfAdjointEigenSolver<Mat> es(prob.A, prob.B, Eigen::EigenvaluesOnly);
        for (long i = 0; i < prob.n; i++) out.push_back(cd(es.eigenvalues()[i], 0));
        return out;
    }
    void* solver_ptr() override { return s.get(); }
    ZOO_PEEK
};
struct RGRegInv : IRunner
{
    typedef Eigen::SparseMatrix<double> Sp;
    // B is handed over through its UPPER triangle only (the lower one is not stored), A through its lower triangle only
    typedef Ctl<SparseSymMatProd<double, Eigen::Lower>> Op; typedef Ctl<SparseRegularInverse<double, Eigen::Upper>> BOp;
    typedef SymGEigsSolver<Op, BOp, GEigsMode::RegularInverse> S;
    Sp As, Bs; std::unique_ptr<Op> op; std::unique_ptr<BOp> bop; std::unique_ptr<S> s;
    RGRegInv(const Problem& p, int nev_, int ncv_)
    {
        prob = p; cls = "SymGEigsSolver_RegularInverse"; nev = nev_; ncv = ncv_;
        Mat Al = prob.A.triangularView<Eigen::Lower>(), Bu = prob.B.triangularView<Eigen::Upper>();
        As = Al.sparseView(); Bs = Bu.sparseView();
        op.reset(new Op(As)); op->ctl = &ctl; bop.reset(new BOp(Bs)); bop->ctl = &ctlB; s.reset(new S(*op, *bop, nev, ncv));
    }
    void init() override { s->init(); }
    void initv(const CVec& v) override { Vec r = v.real(); s->init(r.data()); }
    long compute(int sel, long maxit, double tol, int sorting) override { return (long) s->compute((SortRule) sel, maxit, tol, (SortRule) sorting); }
    void snapshot(Obs& o, long nvec) override { snap(*s, o, nvec); }
    void pencil(const CVec& x, CVec& Ax, CVec& Bx) const override { Ax = prob.A.cast<cd>() * x; Bx = prob.B.cast<cd>() * x; }
    double normB() const override { return prob.B.norm(); }
    std::vector<cd> reference() const override
    {
        std::vector<cd> out; Eigen::GeneralizedSelfAdjointEigenSolver<Mat> es(prob.A, prob.B, Eigen::EigenvaluesOnly);
        for (long i = 0; i < prob.n; i++) out.push_back(cd(es.eigenvalues()[i], 0));
        return out;
    }
    void* solver_ptr() override { return s.get(); }
    ZOO_PEEK
};
template <GEigsMode Mode>
struct RGShift : IRunner
{
    // mixed triangle options: the first matrix is handed over through its lower triangle, the second through its upper one;
    // the other triangles hold values that must never be read
    typedef Ctl<SymShiftInvert<double, Eigen::Dense, Eigen::Dense, Eigen::Lower, Eigen::Upper>> Op; typedef Ctl<DenseSymMatProd<double>> BOp;
    typedef SymGEigsShiftSolver<Op, BOp, Mode> S;
    Mat first_stored, second_stored;
    std::unique_ptr<Op> op; std::unique_ptr<BOp> bop; std::unique_ptr<S> s;
    // ShiftInvert / Cayley: pencil (A, B), Bop = B.  Buckling: pencil (K, KG) with K = prob.B (SPD), KG = prob.A, Bop = K.
    RGShift(const Problem& p, int nev_, int ncv_, const char* name)
    {
        prob = p; cls = name; nev = nev_; ncv = ncv_;
        first_stored = (Mode == GEigsMode::Buckling) ? prob.B : prob.A; second_stored = (Mode == GEigsMode::Buckling) ? prob.A : prob.B;
        for (long i = 0; i < prob.n; i++) for (long j = 0; j < prob.n; j++)
        { if (i < j) first_stored(i, j) = 31.0 + i - j; if (i > j) second_stored(i, j) = -17.0 - i + 2 * j; }
        op.reset(new Op(first_stored, second_stored));
        op->ctl = &ctl; bop.reset(new BOp(prob.B)); bop->ctl = &ctlB;
        s.reset(new S(*op, *bop, nev, ncv, prob.sigma));
    }
    void init() override { s->init(); }
    void initv(const CVec& v) override { Vec r = v.real(); s->init(r.data()); }
    long compute(int sel, long maxit, double tol, int sorting) override { return (long) s->compute((SortRule) sel, maxit, tol, (SortRule) sorting); }
    void snapshot(Obs& o, long nvec) override { snap(*s, o, nvec); }
    void pencil(const CVec& x, CVec& Ax, CVec& Bx) const override
    {
        if (Mode == GEigsMode::Buckling) { Ax = prob.B.cast<cd>() * x; Bx = prob.A.cast<cd>() * x; }
        else { Ax = prob.A.cast<cd>() * x; Bx = prob.B.cast<cd>() * x; }
    }
    double normA() const override { return Mode == GEigsMode::Buckling ? prob.B.norm() : prob.A.norm(); }
    double normB() const override { return Mode == GEigsMode::Buckling ? prob.A.norm() : prob.B.norm(); }
    std::vector<cd> reference() const override
    {
        std::vector<cd> out; Eigen::GeneralizedSelfAdjointEigenSolver<Mat> es(prob.A, prob.B, Eigen::EigenvaluesOnly);   // A x = mu B x
        for (long i = 0; i < prob.n; i++)
        {
            double mu = es.eigenvalues()[i];
            if (Mode == GEigsMode::Buckling) { if (mu != 0.0) out.push_back(cd(1.0 / mu, 0)); }   // K x = lambda KG x with K = B, KG = A
            else out.push_back(cd(mu, 0));
        }
        return out;
    }
    CVec ipvec(const CVec& x) const override { return prob.B.cast<cd>() * x; }   // B, and K in buckling mode: both are prob.B

    void* solver_ptr() override { return s.get(); }
    ZOO_PEEK
};

inline std::vector<std::string> all_classes()
{
    return {"SymEigsSolver", "HermEigsSolver", "SymEigsShiftSolver", "GenEigsSolver", "GenEigsRealShiftSolver", "GenEigsComplexShiftSolver",
            "SymGEigsSolver_Cholesky", "SymGEigsSolver_RegularInverse", "SymGEigsShiftSolver_ShiftInvert", "SymGEigsShiftSolver_Buckling",
            "SymGEigsShiftSolver_Cayley"};
}
inline bool is_general(const std::string& c) { return c.compare(0, 3, "Gen") == 0; }

inline std::unique_ptr<IRunner> make_runner(const std::string& cls, const Problem& p, int nev, int ncv)
{
    if (cls == "SymEigsSolver") return std::unique_ptr<IRunner>(new RSym(p, nev, ncv));
    if (cls == "HermEigsSolver") return std::unique_ptr<IRunner>(new RHerm(p, nev, ncv));
    if (cls == "SymEigsShiftSolver") return std::unique_ptr<IRunner>(new RSymShift(p, nev, ncv));
    if (cls == "GenEigsSolver") return std::unique_ptr<IRunner>(new RGen(p, nev, ncv));
    if (cls == "GenEigsRealShiftSolver") return std::unique_ptr<IRunner>(new RGenRealShift(p, nev, ncv));
    if (cls == "GenEigsComplexShiftSolver") return std::unique_ptr<IRunner>(new RGenComplexShift(p, nev, ncv));
    if (cls == "SymGEigsSolver_Cholesky") return std::unique_ptr<IRunner>(new RGCholesky(p, nev, ncv));
    if (cls == "SymGEigsSolver_RegularInverse") return std::unique_ptr<IRunner>(new RGRegInv(p, nev, ncv));
    if (cls == "SymGEigsShiftSolver_ShiftInvert") return std::unique_ptr<IRunner>(new RGShift<GEigsMode::ShiftInvert>(p, nev, ncv, "SymGEigsShiftSolver_ShiftInvert"));
    if (cls == "SymGEigsShiftSolver_Buckling") return std::unique_ptr<IRunner>(new RGShift<GEigsMode::Buckling>(p, nev, ncv, "SymGEigsShiftSolver_Buckling"));
    if (cls == "SymGEigsShiftSolver_Cayley") return std::unique_ptr<IRunner>(new RGShift<GEigsMode::Cayley>(p, nev, ncv, "SymGEigsShiftSolver_Cayley"));
    throw std::logic_error("zoo: unknown class " + cls);
}

// ------------------------------------------------------------------ key=value case lines
inline std::map<std::string, std::string> kv(const std::vector<std::string>& t, size_t from = 1)
{
    std::map<std::string, std::string> m;
    for (size_t i = from; i < t.size(); i++) { size_t e = t[i].find('='); if (e != std::string::npos) m[t[i].substr(0, e)] = t[i].substr(e + 1); }
    return m;
}
inline std::vector<std::string> split_on(const std::string& s, char c)
{
    std::vector<std::string> out; std::string cur;
    for (char ch : s) { if (ch == c) { out.push_back(cur); cur.clear(); } else cur += ch; }
    out.push_back(cur); return out;
}
inline std::string hexvec(const std::vector<cd>& v)
{
    std::ostringstream o; for (auto& z : v) o << bits(z.real()) << ':' << bits(z.imag()) << ',';
    return o.str();
}
inline uint64_t hash_mat(const CMat& m)
{
    uint64_t h = 1469598103934665603ULL;
    for (long j = 0; j < m.cols(); j++) for (long i = 0; i < m.rows(); i++)
    { double a = m(i, j).real(), b = m(i, j).imag(); uint64_t u, w; std::memcpy(&u, &a, 8); std::memcpy(&w, &b, 8); h = (h ^ u) * 1099511628211ULL; h = (h ^ w) * 1099511628211ULL; }
    return h;
}

// start vectors: "r<seed>" random, "b<seed>" random on the leading max(2, n/3) coordinates, "e<k>" k-th eigenvector of A (symmetric) , "s<k>" sum of two eigenvectors (invariant subspace)
inline CVec start_vector(const IRunner& r, const std::string& spec)
{
    const int n = r.prob.n; CVec v(n);
    if (spec.size() && spec[0] == 'r') { Rng g(std::stoull(spec.substr(1))); for (int i = 0; i < n; i++) v[i] = r.complex_scalar() ? cd(g.sym(), g.sym()) : cd(g.sym(), 0); return v; }
    if (spec == "zero") { v.setZero(); return v; }
    if (spec == "ones") { v.setOnes(); return v; }
    if (spec.size() && spec[0] == 'g')
    {   // k-th eigenvector of the pencil (A, B): an exact one-dimensional invariant subspace of every generalized mode
        Eigen::GeneralizedSelfAdjointEigenSolver<Mat> es(r.prob.A, r.prob.B); int k = std::stoi(spec.substr(1)) % n;
        return es.eigenvectors().col(k).cast<cd>();
    }
    if (spec.size() && spec[0] == 'b')
    {   // supported on the leading max(2, n/3) coordinates: an invariant subspace of the block-diagonal families
        Rng g(std::stoull(spec.substr(1)) + 77); const int kb = std::max(2, n / 3); v.setZero();
        for (int i = 0; i < kb; i++) v[i] = r.complex_scalar() ? cd(g.sym(), g.sym()) : cd(g.sym(), 0); return v;
    }
    if (r.complex_scalar())
    {
        Eigen::SelfAdjointEigenSolver<CMat> es(r.prob.Ac); int k = std::stoi(spec.substr(1)) % n;
        v = es.eigenvectors().col(k); if (spec[0] == 's') v += es.eigenvectors().col((k + 1) % n); return v;
    }
    Eigen::SelfAdjointEigenSolver<Mat> es((r.prob.A + r.prob.A.transpose()) * 0.5); int k = std::stoi(spec.substr(1)) % n;
    Vec w = es.eigenvectors().col(k); if (spec[0] == 's') w += es.eigenvectors().col((k + 1) % n);
    return w.cast<cd>();
}
}  // namespace zoo
