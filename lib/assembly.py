"""Shared by C01-C04: calm-slice generators and the properties' own predicates evaluated on
the observations of the glue harness (residuals in the user's pencil, norms, (B-)orthonormality,
returned values against a dense reference)."""
import struct, math, cmath
from common import *
from glue_common import *

EPS = 2.220446049250313e-16
EPS23 = EPS ** (2.0 / 3.0)
SIGMA, SIGMAI = 0.37, 0.2


def evals_of(step):
    out = []
    for p in step['evals'].split(','):
        if not p:
            continue
        a, b = p.split(':')
        out.append(complex(struct.unpack('>d', bytes.fromhex(a))[0], struct.unpack('>d', bytes.fromhex(b))[0]))
    return out


def shift_of(line):
    """(sigma, sigmai) of a history line"""
    m = dict(x.split('=', 1) for x in (line or '').split()[1:] if '=' in x)
    try:
        return float(m.get('sigma', SIGMA)), float(m.get('sigmai', SIGMAI))
    except ValueError:
        return SIGMA, SIGMAI


def forward(cls, lam, sig=None):
    """the spectrum the iteration (and hence the selection rule) acts on"""
    SIGMA, SIGMAI = sig if sig else (0.37, 0.2)
    if cls in ('SymEigsShiftSolver', 'GenEigsRealShiftSolver', 'SymGEigsShiftSolver_ShiftInvert'):
        return 1.0 / (lam - SIGMA)
    if cls == 'SymGEigsShiftSolver_Buckling':
        return lam / (lam - SIGMA)
    if cls == 'SymGEigsShiftSolver_Cayley':
        return (lam + SIGMA) / (lam - SIGMA)
    if cls == 'GenEigsComplexShiftSolver':
        s = complex(SIGMA, SIGMAI)
        return 0.5 * (1.0 / (lam - s) + 1.0 / (lam - s.conjugate()))
    return lam


def key(rule, x):
    x = complex(x)
    return {0: -abs(x), 1: -x.real, 2: -abs(x.imag), 3: -x.real, 4: abs(x), 5: x.real, 6: abs(x.imag), 7: x.real}[rule]


def wanted(cls, rule, ref, k, sig=None):
    """the k reference eigenvalues the rule names (in the rule's spectrum); None if the cut falls in a tie/too small a gap"""
    nus = [(forward(cls, l, sig), l) for l in ref]
    if rule == 8:
        srt = sorted(nus, key=lambda p: -p[0].real)
        top = srt[:(k + 1) // 2] + srt[len(srt) - k // 2:] if k // 2 else srt[:(k + 1) // 2]
        rest = [p for p in srt if p not in top]
        if not rest:
            return [p[1] for p in top]
        gap = min(abs(a[0].real - b[0].real) for a in top for b in rest)
        spread = max(p[0].real for p in srt) - min(p[0].real for p in srt) + 1e-300
        return [p[1] for p in top] if gap > 5e-3 * spread else None
    srt = sorted(nus, key=lambda p: key(rule, p[0]))
    top, rest = srt[:k], srt[k:]
    if not rest:
        return [p[1] for p in top]
    ks = [key(rule, p[0]) for p in srt]
    spread = max(ks) - min(ks) + 1e-300
    if key(rule, rest[0][0]) - key(rule, top[-1][0]) <= 5e-3 * spread:
        return None                     # the cut is inside a tie (conjugate pair) or a negligible gap
    return [p[1] for p in top]


def match_sets(got, exp, tol):
    """injective matching of returned values to expected ones within tol"""
    exp = list(exp)
    for g in got:
        j = min(range(len(exp)), key=lambda i: abs(exp[i] - g)) if exp else None
        if j is None or abs(exp[j] - g) > tol:
            return False, g
        exp.pop(j)
    return True, None


def calm_cases(rng, tier, classes, per_q, per_t, hist='short', want_ref=False, only_full=False):
    per = per_q if tier == 'quick' else per_t
    out = []
    for cls in classes:
        sels, sorts = rules_for(cls)
        shifty = 'Shift' in cls
        for h in range(per):
            n = rng.range(8, 18 if tier == 'quick' else 40)
            if is_gen(cls):
                nev = rng.range(1, max(1, (n - 3) // 2)); ncv = rng.range(min(n, 2 * nev + 2), n)
            else:
                nev = rng.range(1, max(1, (n - 2) // 2)); ncv = rng.range(min(n, 2 * nev + 1), n)
            fam = rng.choice(['gapped', 'posgapped'])
            gfam = rng.choice(['gnormal', 'grealspec'])
            scale = 1.0 if (shifty or 'SymG' in cls) else rng.choice([1.0, 1.0, 1e-3, 1e3])
            sel = rng.choice(sels); srt = rng.choice(sorts)
            start = 'I' if rng.below(2) else 'V:r%d' % rng.below(1000)
            sig = (SIGMA, SIGMAI)
            if cls == 'GenEigsComplexShiftSolver' and h % 3 == 1:
                # complex shifts whose disc |lambda - Re sigma| < |Im sigma| contains wanted eigenvalues (the inner root of the back-transformation is the right one)
                sig = rng.choice([(1.1, 2.5), (3.1, 0.6), (1.1, -2.2), (2.6, 1.5)]); gfam = 'gnormal'; sel = 0; ncv = max(ncv, min(n, 2 * nev + 6))
            if cls in ('SymEigsSolver', 'HermEigsSolver') and h % 8 == 5 and not only_full:      # (not for C04: a multiple eigenvalue is found once, finding F8's mechanism)
                # operators that act as a multiple of the identity on the start vector: the very first residual is rounding noise (init()'s special branch),
                # every step is a breakdown; rules for which a spurious zero Ritz value would be among the wanted ones
                fam = rng.choice(['identity', 'repeated']); scale = 1.0; start = 'I'; sel = rng.choice([4, 7, 8]); srt = rng.choice(sorts)
            if is_gen(cls) and h % 4 == 3:
                # Krylov breakdown: block-diagonal normal matrix, start vector inside the invariant subspace of the leading block
                gfam = 'gblock'; start = 'V:b%d' % rng.below(1000); ncv = max(ncv, min(n, max(2, n // 3) + 2))
            if only_full:
                ops = [start, 'C:%d:1000:1e-10:%d' % (sel, srt)]
            else:
                maxit = rng.choice([1000, 1000, 1000, 0, 1, 2, 3, 5])
                tol = rng.choice(['1e-10', '1e-10', '1e-6', '1e-3'])
                ops = [start, 'C:%d:%d:%s:%d' % (sel, maxit, tol, srt)]
                if rng.below(3) == 0:
                    ops.append('C:%d:%d:%s:%d' % (rng.choice(sels), rng.choice([2, 1000]), rng.choice(['1e-10', '1e-6']), rng.choice(sorts)))
                if rng.below(5) == 0:
                    ops += ['I', 'C:%d:1000:1e-10:%d' % (rng.choice(sels), rng.choice(sorts))]
            out.append((cls, n, nev, ncv, scale, hist_line(cls, n, nev, ncv, ops, fam=fam, gfam=gfam, mseed=rng.below(10 ** 6), scale=scale, sigma=sig[0], sigmai=sig[1],
                                                           extra='ref=1' if want_ref else '')))
    return out


def residual_bound(cls, step, j, lam, tol, scale_sigma):
    """tol * documented convergence scale (back-transformed) + rounding-level multiple of the norms"""
    nA, nB = step['normA'], step['normB']
    if cls in ('SymEigsSolver', 'HermEigsSolver', 'GenEigsSolver'):
        return 1.5 * tol * max(EPS23, abs(lam)) + 1e-11 * nA
    if cls in ('SymEigsShiftSolver', 'GenEigsRealShiftSolver'):
        nu = 1.0 / (lam - SIGMA) if lam != SIGMA else float('inf')
        return 1.5 * tol * (nA + abs(SIGMA)) * max(1.0, EPS23 / max(abs(nu), 1e-300)) + 1e-10 * (nA + abs(SIGMA))
    if cls == 'GenEigsComplexShiftSolver':
        return 1e4 * tol * (nA + 1.0) ** 2 + 1e-8 * (nA + 1.0)
    # generalized modes: tol-level times (|A| + |lambda| |B|), transport factors included generously
    return 1e3 * tol * (nA + abs(lam) * nB) + 1e-9 * (nA + abs(lam) * nB)
