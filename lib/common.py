"""Shared machinery of /verif/bin/check: regeneration, Coq build, extraction,
harness builds, evidence, violations, known findings."""
import os, sys, json, time, subprocess, hashlib, re, fcntl, random, shutil

ROOT = os.path.abspath(os.path.join(os.path.dirname(os.path.abspath(__file__)), '..'))
REPO = os.environ.get('VERIF_REPO', '/repo')
WORK = os.path.join(ROOT, '_work')
COQ = os.path.join(ROOT, 'coq')
GEN = os.path.join(COQ, 'gen')
NPROC = str(min(16, os.cpu_count() or 4))
GUARD = 'SPECTRA_VERIF_HOOKS'
EIGEN = '/usr/include/eigen3'

CXX_BIT = ['-std=c++11', '-O1', '-ffp-contract=off', '-DEIGEN_DONT_VECTORIZE', '-D' + GUARD]
CXX_FAST = ['-std=c++11', '-O1', '-D' + GUARD]
CXX_SAN = ['-std=c++11', '-O1', '-g', '-fsanitize=address,undefined', '-fno-sanitize-recover=all', '-D' + GUARD]
CXX_TSAN = ['-std=c++11', '-O1', '-g', '-fsanitize=thread', '-D' + GUARD]

os.makedirs(WORK, exist_ok=True)


def sh(cmd, timeout=3600, cwd=None, env=None, input=None):
    e = dict(os.environ)
    if env:
        e.update(env)
    try:
        r = subprocess.run(cmd, stdout=subprocess.PIPE, stderr=subprocess.STDOUT, text=True, timeout=timeout,
                           cwd=cwd, env=e, input=input, shell=isinstance(cmd, str))
        return r.returncode, r.stdout
    except subprocess.TimeoutExpired as ex:
        out = ex.stdout or ''
        if isinstance(out, bytes):
            out = out.decode('utf8', 'replace')
        return 124, out + '\n[timeout after %ss]' % timeout


class Lock:
    def __init__(self, name):
        self.path = os.path.join(WORK, name + '.lock')

    def __enter__(self):
        self.fh = open(self.path, 'w')
        fcntl.flock(self.fh, fcntl.LOCK_EX)
        return self

    def __exit__(self, *a):
        fcntl.flock(self.fh, fcntl.LOCK_UN)
        self.fh.close()


def headers_digest():
    h = hashlib.sha256()
    root = os.path.join(REPO, 'include')
    for d, _, fs in sorted(os.walk(root)):
        for f in sorted(fs):
            p = os.path.join(d, f)
            h.update(p.encode())
            h.update(open(p, 'rb').read())
    return h.hexdigest()


def file_digest(paths):
    h = hashlib.sha256()
    for p in paths:
        h.update(p.encode())
        if os.path.exists(p):
            h.update(open(p, 'rb').read())
    return h.hexdigest()


# ------------------------------------------------------------------ T-gen
def regen():
    """Regenerate coq/gen/*.v from /repo. Returns the status dict of gen.py."""
    with Lock('gen'):
        rc, out = sh([sys.executable, os.path.join(ROOT, 'translator', 'gen.py')], timeout=600)
        st = {}
        sp = os.path.join(GEN, '_status.json')
        if os.path.exists(sp):
            st = json.load(open(sp))
        st['_rc'] = rc
        st['_log'] = out[-4000:]
        return st


# ------------------------------------------------------------------ Coq
FORBIDDEN = re.compile(r'\b(Admitted|admit|Axiom|Axioms|Parameter|Parameters|Conjecture|Conjectures|Admit Obligations|'
                       r'Unset Guard Checking|Unset Positivity Checking|Unset Universe Checking|bypass_check|'
                       r'native_compute)\b|-type-in-type|-impredicative-set')


def strip_comments(txt):
    out, depth, i = [], 0, 0
    while i < len(txt):
        if txt.startswith('(*', i):
            depth += 1
            i += 2
        elif txt.startswith('*)', i) and depth:
            depth -= 1
            i += 2
        else:
            if not depth:
                out.append(txt[i])
            i += 1
    return ''.join(out)


def grep_gate():
    """No Admitted / Axiom / Parameter / disabled kernel checks anywhere in the development
    (outside comments and string literals).  `Variable`/`Hypothesis` must be inside a Section."""
    bad = []
    files = []
    for d, _, fs in os.walk(COQ):
        for f in fs:
            if f.endswith('.v'):
                files.append(os.path.join(d, f))
    files.append(os.path.join(ROOT, 'extract', 'Extract.v'))
    files.append(os.path.join(COQ, '_CoqProject'))
    for p in files:
        if not os.path.exists(p):
            continue
        txt = strip_comments(open(p).read())
        txt_ns = re.sub(r'"[^"]*"', '""', txt)
        for m in FORBIDDEN.finditer(txt_ns):
            bad.append('%s: %s' % (os.path.relpath(p, ROOT), m.group(0)))
        if p.endswith('.v'):
            depth = 0
            for line in txt_ns.split('\n'):
                s = line.strip()
                if re.match(r'^(Section|Module Type|Module)\b', s) and not re.match(r'^Module\s+\w+\s*:=', s):
                    if s.startswith('Section'):
                        depth += 1
                if re.match(r'^End\b', s) and depth:
                    depth -= 1
                if depth == 0 and re.match(r'^(Variable|Variables|Hypothesis|Hypotheses|Context)\b', s):
                    bad.append('%s: section-less %s' % (os.path.relpath(p, ROOT), s[:40]))
    return bad


def coq_makefile():
    mk = os.path.join(COQ, 'Makefile')
    cp = os.path.join(COQ, '_CoqProject')
    if not os.path.exists(mk) or os.path.getmtime(mk) < os.path.getmtime(cp):
        rc, out = sh(['coq_makefile', '-f', '_CoqProject', '-o', 'Makefile'], cwd=COQ)
        if rc:
            raise RuntimeError('coq_makefile failed: ' + out)


def coq_make(targets=None, timeout=3000):
    """Full .vo build of the targets (all if None) under the build lock. Returns (ok, log)."""
    with Lock('coq'):
        coq_makefile()
        cmd = ['make', '-k', '-j' + NPROC] + (targets or [])
        rc, out = sh(cmd, cwd=COQ, timeout=timeout, env={'TIMED': '0'})
        return rc == 0, out


def coq_property(pid, fresh=False, timeout=1800):
    """(Re-)check Properties_<pid>.v unconditionally and parse its Print Assumptions output.
    Returns dict(ok, log, theorems=[{name, assumptions:[...]}])."""
    ok, log = coq_make(['Properties_%s.vo' % pid], timeout=timeout)
    res = {'ok': False, 'log': log[-6000:], 'theorems': []}
    if not ok:
        return res
    with Lock('coq'):
        vo = os.path.join(COQ, 'Properties_%s.vo' % pid)
        if os.path.exists(vo):
            os.remove(vo)
        rc, out = sh(['make', 'Properties_%s.vo' % pid], cwd=COQ, timeout=timeout)
    res['log'] = out[-6000:]
    if rc:
        return res
    src = strip_comments(open(os.path.join(COQ, 'Properties_%s.v' % pid)).read())
    names = re.findall(r'^\s*(?:Theorem|Corollary|Lemma)\s+(\w+)', src, re.M)
    printed = re.findall(r'Print Assumptions\s+(\w+)', src)
    # split the output into one block per Print Assumptions, in order
    blocks = re.split(r'(?m)^(?=Closed under the global context|Axioms:)', out)
    blocks = [b for b in blocks if b.startswith('Closed under') or b.startswith('Axioms:')]
    for i, nm in enumerate(printed):
        b = blocks[i] if i < len(blocks) else '?'
        b = re.split(r'(?m)^(File |Warning|COQC|make)', b)[0]
        if b.startswith('Closed'):
            ax = []
        else:
            ax = re.findall(r'(?m)^([A-Za-z_][\w.]*)\s*:', b)
            ax += re.findall(r'(?m)^([A-Za-z_][\w.]*)\s*$', b)
            ax = [a for a in dict.fromkeys(ax) if a != 'Axioms']
        res['theorems'].append({'name': nm, 'assumptions': ax})
    res['unprinted'] = [n for n in names if n not in printed]
    res['ok'] = True
    return res


# lower bounds (about one third of what the quick tier sees on the unchanged tree) for the number of distinct non-trivial evaluations
MIN_NONTRIVIAL = {'C01': 35, 'C02': 35, 'C03': 60, 'C04': 140, 'C05': 90, 'C06': 45, 'C07': 18, 'C08': 170, 'C09': 120, 'C10': 75, 'C11': 120, 'C12': 8000,
                  'C13': 140, 'C14': 190, 'C15': 15, 'C16': 30, 'C17': 10, 'C18': 70000, 'C19': 60000, 'C20': 7}

ALLOWED_AXIOMS = {
    'ClassicalDedekindReals.sig_not_dec', 'ClassicalDedekindReals.sig_forall_dec',
    'FunctionalExtensionality.functional_extensionality_dep', 'Classical_Prop.classic',
    'ProofIrrelevance.proof_irrelevance', 'Eqdep.Eq_rect_eq.eq_rect_eq', 'JMeq.JMeq_eq',
    'ClassicalEpsilon.constructive_indefinite_description', 'PropExtensionality.propositional_extensionality',
    'Classical_Prop.proof_irrelevance',
}


def axioms_ok(theorems):
    """Only standard-library axioms and primitive types/operations may appear."""
    bad = []
    for t in theorems:
        for a in t['assumptions']:
            if a in ALLOWED_AXIOMS:
                continue
            if re.match(r'^(float|int|PrimFloat\.|Uint63\.|PrimInt63\.|FloatOps\.|Sint63\.|FloatAxioms\.|Uint63Axioms\.|PArray\.|array|Coq\.Floats\.|Coq\.Numbers\.)', a) or a in ('float', 'int', 'array'):
                continue
            bad.append('%s: %s' % (t['name'], a))
    return bad


def coqchk(pid, timeout=1800):
    rc, out = sh(['coqchk', '-o', '-silent', '-R', '.', 'SV', 'SV.Properties_%s' % pid], cwd=COQ, timeout=timeout)
    return rc == 0, out[-4000:]


# ------------------------------------------------------------------ OCaml model runner
def build_ml():
    """Extract the executable models and build the OCaml runner (cached by content)."""
    with Lock('ml'):
        tg = []
        for line in open(os.path.join(COQ, '_CoqProject')):
            line = line.strip()
            if line.endswith('.v') and (line.startswith('model/') or line.startswith('gen/')):
                tg.append(line[:-2] + '.vo')
        ok, log = coq_make(tg)
        srcs = [os.path.join(ROOT, 'extract', f) for f in ('Extract.v', 'driver.ml', 'extra.ml')]
        vos = []
        for d, _, fs in os.walk(COQ):
            for f in sorted(fs):
                if f.endswith('.v') and (os.sep + 'model' in d or os.sep + 'gen' in d):
                    vos.append(os.path.join(d, f))
        dg = file_digest(srcs + sorted(vos))
        mld = os.path.join(WORK, 'ml')
        os.makedirs(mld, exist_ok=True)
        stamp = os.path.join(mld, 'stamp')
        exe = os.path.join(mld, 'model_run')
        if os.path.exists(exe) and os.path.exists(stamp) and open(stamp).read() == dg:
            return True, exe, 'cached'
        if not ok:
            return False, exe, log[-4000:]
        rc, out = sh(['coqc', '-R', COQ, 'SV', os.path.join(ROOT, 'extract', 'Extract.v')], cwd=mld, timeout=900)
        if rc:
            return False, exe, out[-4000:]
        for f in ('driver.ml', 'extra.ml'):
            shutil.copy(os.path.join(ROOT, 'extract', f), mld)
        rc, out2 = sh(['ocamlfind', 'ocamlopt', '-inline', '100', '-w', '-a', '-rectypes', '-package', 'coq-core.kernel', '-linkpkg',
                       'model.mli', 'model.ml', 'extra.ml', 'driver.ml', '-o', 'model_run'], cwd=mld, timeout=900)
        if rc:
            return False, exe, (out + out2)[-4000:]
        open(stamp, 'w').write(dg)
        return True, exe, 'built'


# ------------------------------------------------------------------ C++ harness builds
def build_cpp(name, flags=None, src=None, extra_inc=(), timeout=1800):
    """Compile harness/<name>.cpp against /repo's CURRENT headers (cache keyed by header digest)."""
    flags = list(flags or CXX_BIT)
    src = src or os.path.join(ROOT, 'harness', name + '.cpp')
    tag = hashlib.sha256((' '.join(flags)).encode()).hexdigest()[:8]
    exe = os.path.join(WORK, 'bin', '%s-%s' % (name, tag))
    os.makedirs(os.path.dirname(exe), exist_ok=True)
    deps = [src] + [os.path.join(ROOT, 'harness', f) for f in sorted(os.listdir(os.path.join(ROOT, 'harness'))) if f.endswith('.h')]
    dg = file_digest(deps) + headers_digest()
    with Lock('cpp-' + name + tag):
        stamp = exe + '.stamp'
        if os.path.exists(exe) and os.path.exists(stamp) and open(stamp).read() == dg:
            return True, exe, 'cached'
        cmd = ['g++'] + flags + ['-I' + os.path.join(REPO, 'include'), '-I' + EIGEN, '-I' + os.path.join(ROOT, 'harness')] + \
              ['-I' + i for i in extra_inc] + [src, '-o', exe, '-lpthread']
        rc, out = sh(cmd, timeout=timeout)
        if rc:
            if os.path.exists(stamp):
                os.remove(stamp)
            return False, exe, out[-6000:]
        open(stamp, 'w').write(dg)
        return True, exe, 'built'


def run_lines(exe, lines, timeout=1800, env=None):
    dump = os.environ.get('VERIF_DUMP_LINES')          # development aid: keep the inputs every harness was fed (coverage measurements)
    if dump:
        os.makedirs(dump, exist_ok=True)
        with open(os.path.join(dump, os.path.basename(exe).split('-')[0] + '.lines'), 'a') as fh:
            fh.write('\n'.join(lines) + '\n')
    rc, out = sh([exe], input='\n'.join(lines) + '\n', timeout=timeout, env=env)
    return rc, out.split('\n')[:-1] if out.endswith('\n') else out.split('\n')


# ------------------------------------------------------------------ PRNG for generators
class Rng:
    """splitmix64 - every random choice of a check derives from VERIF_SEED through this."""

    def __init__(self, seed):
        self.s = (seed * 0x9E3779B97F4A7C15 + 0x1234567) & 0xFFFFFFFFFFFFFFFF

    def next(self):
        self.s = (self.s + 0x9E3779B97F4A7C15) & 0xFFFFFFFFFFFFFFFF
        z = self.s
        z = ((z ^ (z >> 30)) * 0xBF58476D1CE4E5B9) & 0xFFFFFFFFFFFFFFFF
        z = ((z ^ (z >> 27)) * 0x94D049BB133111EB) & 0xFFFFFFFFFFFFFFFF
        return z ^ (z >> 31)

    def below(self, n):
        return self.next() % n

    def range(self, a, b):
        return a + self.below(b - a + 1)

    def choice(self, xs):
        return xs[self.below(len(xs))]

    def unit(self):
        return (self.next() >> 11) / float(1 << 53)


# ------------------------------------------------------------------ result bookkeeping
class Check:
    def __init__(self, pid, tier, seed):
        self.pid, self.tier, self.seed = pid, tier, seed
        self.t0 = time.time()
        self.obligations = []      # (name, ok, detail)
        self.evaluations = 0
        self.nontrivial = set()
        self.samples = []
        self.coverage_extra = {}
        self.assumptions = []
        self.trusted = []
        self.violations = []       # (what, replay_dict, found_input)
        self.known_hits = []
        self.checker_cmd = ''
        self.rule = ''

    def oblige(self, name, ok, detail=''):
        self.obligations.append((name, bool(ok), detail))
        return ok

    def sample(self, s, limit=6):
        if len(self.samples) < limit:
            self.samples.append(s)

    def count(self, case_key, nontrivial=True):
        self.evaluations += 1
        if nontrivial:
            self.nontrivial.add(hashlib.sha1(str(case_key).encode()).hexdigest()[:16])

    def broken(self):
        return [o for o in self.obligations if not o[1]]

    def violation(self, what, replay, found_input):
        self.violations.append((what, replay, found_input))

    def finish(self):
        os.makedirs(os.path.join(ROOT, 'evidence'), exist_ok=True)
        os.makedirs(os.path.join(ROOT, 'replays'), exist_ok=True)
        nob = len(self.obligations)
        ndis = len([o for o in self.obligations if o[1]])
        cov = {
            'obligations': nob, 'discharged': ndis,
            'checker_cmd': self.checker_cmd or 'cd /verif/coq && make Properties_%s.vo  (coqc 8.16.1, full .vo build)' % self.pid,
            'trusted_base': self.trusted,
            'evaluations': self.evaluations, 'distinct_nontrivial': len(self.nontrivial),
            'rule': self.rule, 'samples': self.samples or ['(none)'],
            'obligation_list': [{'name': n, 'ok': ok, 'detail': d[:300]} for (n, ok, d) in self.obligations],
        }
        cov.update(self.coverage_extra)
        ev = {'property_id': self.pid, 'tier': self.tier, 'seed': self.seed, 'level': 'proof', 'coverage': cov,
              'assumptions': self.assumptions, 'wall_s': round(time.time() - self.t0, 2),
              'violations': len(self.violations)}
        json.dump(ev, open(os.path.join(ROOT, 'evidence', self.pid + '.json'), 'w'), indent=1, default=str)
        for k in self.known_hits:
            print('KNOWN-FINDING: property=%s %s' % (self.pid, k))
        if not self.violations:
            print('OK property=%s tier=%s obligations=%d/%d evaluations=%d wall=%.1fs' % (
                self.pid, self.tier, ndis, nob, self.evaluations, time.time() - self.t0))
            return 0
        for i, (what, replay, found) in enumerate(self.violations):
            h = hashlib.sha1(json.dumps(replay, sort_keys=True, default=str).encode()).hexdigest()[:10]
            path = os.path.join(ROOT, 'replays', '%s-%s.json' % (self.pid, h))
            replay = dict(replay)
            replay.update({'property': self.pid, 'what': what, 'seed': self.seed, 'failing_input_found': bool(found)})
            json.dump(replay, open(path, 'w'), indent=1, default=str)
            print('VIOLATION property=%s replay=%s%s' % (self.pid, path, '' if found else ' no-failing-input-found'))
        return 1


def load_known():
    p = os.path.join(ROOT, 'known_findings.json')
    if not os.path.exists(p):
        return {'findings': [], 'fixed': []}
    return json.load(open(p))
