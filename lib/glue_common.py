"""Shared by the glue-level checks (C05, C06, C13, C14, C01-C04): history generation,
harness/model plumbing, validation of the world contracts at hook events, model replay."""
import json
from common import *

CLASSES = ['SymEigsSolver', 'HermEigsSolver', 'SymEigsShiftSolver', 'GenEigsSolver', 'GenEigsRealShiftSolver',
           'GenEigsComplexShiftSolver', 'SymGEigsSolver_Cholesky', 'SymGEigsSolver_RegularInverse',
           'SymGEigsShiftSolver_ShiftInvert', 'SymGEigsShiftSolver_Buckling', 'SymGEigsShiftSolver_Cayley']
GEN = {'GenEigsSolver', 'GenEigsRealShiftSolver', 'GenEigsComplexShiftSolver'}
HERM_SEL = [0, 3, 4, 7, 8]
HERM_SORT = [0, 3, 4, 7]
GEN_RULES = [0, 1, 2, 4, 5, 6]
SYM_FAMS = ['gapped', 'posgapped', 'generic', 'clustered', 'repeated', 'graded', 'lowrank', 'blockdiag', 'integer', 'identity', 'zero']
GEN_FAMS = ['grandom', 'gnormal', 'gtriangular', 'gskew', 'gperm', 'gorth', 'gnilpotent', 'gidentity', 'grealspec', 'gzero']


def bad_rules_for(cls):
    """legal SortRule values the class does not support: (selection rules that throw, sorting rules that throw)"""
    sels, sorts = rules_for(cls)
    return [r for r in range(9) if r not in sels], [r for r in range(9) if r not in sorts]


def is_gen(cls):
    return cls in GEN


def rules_for(cls):
    return (GEN_RULES, GEN_RULES) if is_gen(cls) else (HERM_SEL, HERM_SORT)


def hist_line(cls, n, nev, ncv, ops, fam='gapped', gfam='gnormal', mseed=1, scale=1.0, sigma=0.37, sigmai=0.2, extra=''):
    return ('hist cls=%s n=%d nev=%d ncv=%d fam=%s gfam=%s mseed=%d scale=%r sigma=%r sigmai=%r ops=%s %s'
            % (cls, n, nev, ncv, fam, gfam, mseed, scale, sigma, sigmai, ';'.join(ops), extra)).strip()


def legal_cfg(rng, cls, nmax=16, nmin=4):
    """legal (n, nev, ncv) incl. the extremes ncv = nev+1 (nev+2), ncv = n"""
    n = rng.range(nmin, nmax)
    if is_gen(cls):
        nev = rng.range(1, n - 2)
        lo = nev + 2
    else:
        nev = rng.range(1, n - 1)
        lo = nev + 1
    pick = rng.below(4)
    ncv = lo if pick == 0 else (n if pick == 1 else rng.range(lo, n))
    return n, nev, ncv


def run_hist(exe, lines, timeout=3000, env=None):
    rc, out = run_lines(exe, lines, timeout=timeout, env=env)
    res = []
    for l in out:
        try:
            res.append(json.loads(l))
        except Exception:
            res.append({'error': 'unparsable: ' + l[:200]})
    return rc, res


def contract_violations(step, cls, nev, ncv):
    """Validate, on the real run, the kernel contracts the Coq theorems assume (C-trace):
       num_converged returns the count of the flags it just wrote (length nev); nev_adjusted / restart
       leave the flags alone; sort_ritzpair permutes them; factorize_from(from,to) ends at dimension `to`
       and costs between to-from and 2(to-from) applications; init() leaves dimension 1 after 2 applications;
       the final return value etc. are what the generated driver computes from the recorded values."""
    bad = []
    evs = step.get('events', [])
    last_conv_flags = None
    prev_nmatop = None
    for e in evs:
        tag, a, b, nmatop, k, flags = e[0], e[1], e[2], e[3], e[4], e[5]
        if tag in ('eigs.conv', 'eigs.final'):
            if tag == 'eigs.conv' or last_conv_flags is None or True:
                if len(flags) != nev:
                    bad.append('%s: %d flags, nev=%d' % (tag, len(flags), nev))
                # eigs.final fires also when the loop ended by break (no new test): count still must equal nconv
                if flags.count('1') != b:
                    bad.append('%s: nconv=%d but %d flags set' % (tag, b, flags.count('1')))
            last_conv_flags = flags
        elif tag in ('eigs.adjust', 'eigs.restart'):
            if last_conv_flags is not None and flags != last_conv_flags:
                bad.append('%s: flags changed by nev_adjusted/restart' % tag)
        elif tag == 'eigs.sorted':
            if last_conv_flags is not None and sorted(flags) != sorted(last_conv_flags):
                bad.append('eigs.sorted: flags are not a permutation of the tested flags')
        elif tag in ('arnoldi.factorize_from', 'lanczos.factorize_from'):
            if a < b:
                if k != b:
                    bad.append('%s: dimension %d after factorize_from(%d,%d)' % (tag, k, a, b))
                if prev_nmatop is not None and not (b - a <= nmatop - prev_nmatop <= 2 * (b - a)):
                    bad.append('%s(%d,%d): %d applications' % (tag, a, b, nmatop - prev_nmatop))
        elif tag == 'arnoldi.init':
            if not (a == 1 and b == 2):
                bad.append('arnoldi.init: k=%d counter=%d' % (a, b))
        if tag != 'arnoldi.expand_basis':
            prev_nmatop = nmatop if nmatop >= 0 else prev_nmatop
    return bad


def model_lines(step, cls, nev, ncv, niter_before):
    """lines for the extracted model: replay of the generated driver and of nev_adjusted"""
    fam = 'gen' if is_gen(cls) else 'herm'
    a = step['op'].split(':')
    sel, maxit, sorting = int(a[1]), int(a[2]), int(a[4])
    vals, adj = [], []
    for e in step.get('events', []):
        if e[0] == 'eigs.conv':
            vals.append(e[2])
        elif e[0] == 'eigs.adjust':
            vals.append(e[2])
            adj.append('m_nevadj %s %d %d %d %s %s' % (fam, nev, ncv, e[1], e[6] or '-', e[7] or '-'))
        elif e[0] == 'eigs.final':
            fin = e
    # the post-loop test (only when the loop was exhausted) is the last recorded value
    evs = [e for e in step.get('events', []) if e[0] in ('eigs.conv', 'eigs.final')]
    nconv_events = [e for e in step.get('events', []) if e[0] == 'eigs.conv']
    final = [e for e in step.get('events', []) if e[0] == 'eigs.final']
    if final and (not nconv_events or final[0][1] >= maxit):
        vals.append(final[0][2])
    line = 'm_compute %s %d %d %d %d %d %d | %s' % (fam, nev, ncv, niter_before, sel, maxit, sorting, ' '.join(map(str, vals)))
    exp_adj = [e[2] for e in step.get('events', []) if e[0] == 'eigs.adjust']
    return line, adj, exp_adj
