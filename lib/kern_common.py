"""Kernel-level correspondence helpers (C-bit): hex encoding of doubles, matrix families aimed
at the case splits of the kernels, runners for the C++ harness and the extracted model."""
import struct, math
from common import *


def hx(x):
    return struct.pack('>d', float(x)).hex()


def unhx(s):
    return struct.unpack('>d', bytes.fromhex(s))[0]


def ulp_step(x, k):
    """x moved by k units in the last place"""
    neg = x < 0
    b = struct.unpack('>q', struct.pack('>d', abs(x)))[0]
    b = min(max(b + k, 0), 0x7FEFFFFFFFFFFFFF)      # stay within the finite non-negative doubles
    y = struct.unpack('>d', struct.pack('>q', b))[0]
    return -y if neg else y


def rnd(rng):
    return 2.0 * rng.unit() - 1.0


def hess_matrix(rng, n, kind):
    """n x n upper Hessenberg matrix (column-major list of columns), entries below the subdiagonal are garbage by design"""
    H = [[0.0] * n for _ in range(n)]   # H[j][i] = entry (i, j)
    for j in range(n):
        for i in range(n):
            if kind == 'integer':
                v = float(rng.range(-3, 3))
            elif kind == 'graded':
                v = rnd(rng) * 10.0 ** (rng.range(-8, 8))
            elif kind == 'tiny':
                v = rnd(rng) * 1e-150
            elif kind == 'huge':
                v = rnd(rng) * 1e150
            else:
                v = rnd(rng)
            H[j][i] = v
    for j in range(n):
        for i in range(j + 2, n):
            H[j][i] = 0.0 if rng.below(2) else rnd(rng)      # below the subdiagonal: ignored by the algorithm
    if kind in ('deflated', 'integer'):
        for j in range(n - 1):
            if rng.below(3) == 0:
                H[j][j + 1] = 0.0                               # exact zero subdiagonal
    if kind == 'smallsub':
        for j in range(n - 1):
            H[j][j + 1] = H[j][j] * 10.0 ** (-rng.range(3, 9)) * (1 if rng.below(2) else -1)   # |y/x| around the Taylor cutoff
    return H


def flat(M):
    return [x for col in M for x in col]


def canon_nan(line):
    """all NaN bit patterns are one value (payload and sign of a NaN are not part of the tie)"""
    out = []
    for w in line.split():
        if len(w) == 16 and all(ch in '0123456789abcdef' for ch in w):
            v = int(w, 16)
            if (v & 0x7FF0000000000000) == 0x7FF0000000000000 and (v & 0x000FFFFFFFFFFFFF):
                w = 'nan'
        out.append(w)
    return ' '.join(out)


def run_pair(exe, mexe, lines, consts_line=None, timeout=3000):
    rc1, a = run_lines(exe, lines, timeout=timeout)
    ml = ([consts_line] if consts_line else []) + lines
    rc2, b = run_lines(mexe, ml, timeout=timeout)
    if consts_line:
        b = b[1:]
    return rc1, [canon_nan(x) for x in a], rc2, [canon_nan(x) for x in b]


def get_consts(exe):
    rc, out = run_lines(exe, ['consts'])
    return out[0].split() if rc == 0 and out else None
