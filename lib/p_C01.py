"""C01 - symmetric/Hermitian solvers return only genuine, orthonormal eigenpairs."""
import concurrent.futures as cf
from common import *
from glue_common import *
from assembly import *

CLASSES_HERE = ['SymEigsSolver', 'HermEigsSolver', 'SymEigsShiftSolver']
PID = 'C01'
GEN_FILES = ('GlueGen.v', 'MapsGen.v')
WHAT = 'returned pairs are eigenpairs of A to the requested accuracy, unit norm, mutually orthonormal'


_f3 = {}


def known_f3_applies(exe):
    """F3 absorbs a failing case only while it is listed AND its own witness still fails"""
    if 'v' not in _f3:
        kf = [f for f in load_known().get('findings', []) if f.get('property') == 'C04' and f.get('id') == 'F3']
        _f3['v'] = False
        if kf:
            rc, r = run_hist(exe, [kf[0]['witness']])
            try:
                d = r[0]; st_ = d['steps'][-1]
                got = evals_of(st_)
                _f3['v'] = st_['info'] == 0 and abs(got[0].real - (-10.1021)) > 1.0
            except Exception:
                _f3['v'] = False
    return _f3['v']


_f5 = {}


def max_orth(exe, line):
    """largest |V'BV - I| seen at any factorization / restart event of the history (Krylov observer)"""
    rc, r = run_hist(exe, [line + ' kry=1'])
    worst = 0.0
    try:
        for st_ in r[0]['steps']:
            for e in st_.get('events', []):
                if len(e) > 6 and isinstance(e[6], dict):
                    worst = max(worst, e[6].get('orth', 0.0))
    except Exception:
        return 0.0
    return worst


def known_f5_applies(exe, cls, line):
    """F5: general solver whose Krylov basis lost orthonormality during the run (residual collapsed to rounding level by
    exact shifts that had converged); absorbs a failing history only if that mechanism is observed in it AND the listed
    witness still fails"""
    if cls not in GEN:
        return False
    kf = [f for f in load_known().get('findings', []) if f.get('id') == 'F5']
    if not kf:
        return False
    if 'w' not in _f5:
        _f5['w'] = max_orth(exe, kf[0]['witness']) > 1e-6
    if not _f5['w']:
        return False
    return max_orth(exe, line) > 1e-8


def predicate(cls, n, nev, ncv, step):
    f = []
    if step.get('skipped') or step['threw'] or not step['op'].startswith('C') or 'resid' not in step:
        return f
    tol = float(step['op'].split(':')[3])
    lam = evals_of(step)
    for j, r in enumerate(step['resid']):
        b = residual_bound(cls, step, j, lam[j].real, tol, SIGMA)
        if not (r <= b):
            f.append('pair %d (theta=%.6g): |A x - theta x| / |x| = %.3g exceeds tol*scale + rounding = %.3g' % (j, lam[j].real, r, b))
    for j, xn in enumerate(step['xnorm']):
        if abs(xn - 1.0) > 1e-9:
            f.append('vector %d has norm %.12g' % (j, xn))
    if step.get('orth', 0) > 1e-8:
        f.append('returned vectors not orthonormal: |X\'X - I| = %.3g' % step['orth'])
    return f


def run(ck, replay=None, pid=PID, classes=CLASSES_HERE, pred=None, what=WHAT, want_ref=False, only_full=False, extra_props=()):
    pred = pred or predicate
    rng = Rng(ck.seed)
    ck.rule = ('calm slice: prescribed gapped spectra (random orthogonal similarity), norms 1e-3..1e3 (1 for shift/generalized modes), legal (n, nev, ncv) with ncv >= 2 nev + 1, '
               'all rules of the class, default and random start vectors, histories init;compute(maxit in {0,1,2,3,5,1000}, tol in {1e-10,1e-6,1e-3}) [;compute][;init;compute]; '
               'predicate evaluated on every compute() of every history; non-trivial = history whose compute returned at least one pair; distinct by case line')
    st = regen()
    for gf in GEN_FILES:
        g = st.get(gf, {'ok': False, 'error': 'not generated'})
        ck.oblige('T-gen %s' % gf, g.get('ok'), g.get('error', ''))
    bad = grep_gate()
    ck.oblige('no Admitted/Axiom/Parameter/disabled checks in the development', not bad, '; '.join(bad))
    with cf.ThreadPoolExecutor(3) as ex:
        f_pr = ex.submit(coq_property, pid)
        f_c = ex.submit(build_cpp, 'glue', CXX_FAST)
        pr = f_pr.result(); okc, exe, logc = f_c.result()
    ck.oblige('Properties_%s.v checks (coqc)' % pid, pr['ok'], pr['log'][-1500:] if not pr['ok'] else '')
    for t in pr['theorems']:
        ck.oblige('theorem ' + t['name'], True, 'assumptions: ' + (', '.join(t['assumptions']) or 'closed under the global context'))
        ck.trusted.append('%s: %s' % (t['name'], ', '.join(t['assumptions']) or 'closed under the global context'))
    if pr['ok']:
        ba = axioms_ok(pr['theorems'])
        ck.oblige('only standard-library axioms', not ba, '; '.join(ba))
    for xp in extra_props:
        pr2 = coq_property(xp)
        ck.oblige('Properties_%s.v (theorems this property rests on) checks' % xp, pr2['ok'], pr2['log'][-800:] if not pr2['ok'] else '')
    if ck.tier == 'thorough' and pr['ok']:
        ok, out = coqchk(pid)
        ck.oblige('coqchk SV.Properties_%s' % pid, ok, out[-1500:])
    ck.oblige('harness glue builds against /repo headers (hooks on)', okc, logc if not okc else '')
    first_fail = None
    if okc:
        if replay is not None and replay.get('case'):
            m = dict(x.split('=', 1) for x in replay['case'].split()[1:] if '=' in x)
            cases = [(m['cls'], int(m['n']), int(m['nev']), int(m['ncv']), float(m.get('scale', 1)), replay['case'])]
        else:
            cases = calm_cases(rng, ck.tier, classes, 40, 400, want_ref=want_ref, only_full=only_full)
        rc, res = run_hist(exe, [c[-1] for c in cases])
        ck.oblige('harness ran', rc == 0 and len(res) == len(cases), 'rc=%s %d/%d' % (rc, len(res), len(cases)))
        badp, con_bad = [], []
        npairs = 0
        outcomes = {}
        for (cls, n, nev, ncv, scale, line), d in zip(cases, res):
            if 'steps' not in d:
                badp.append((line, 'harness error ' + str(d.get('error')))); continue
            got_pair = False
            for step in d['steps']:
                if step.get('skipped'):
                    continue
                step['_ref'] = d.get('ref'); step['_line'] = line
                for msg in pred(cls, n, nev, ncv, step):
                    if msg == 'KNOWN:F3':
                        if known_f3_applies(exe):
                            m3 = 'F3 interior target (SmallestMagn on an indefinite iterated spectrum / SmallestMagn, SmallestImag for general solvers): Successful with genuine but not the named eigenpairs (witness: SymEigsShiftSolver n=10 nev=1 ncv=3 gapped mseed=409269 SmallestMagn)'
                            if m3 not in ck.known_hits:
                                ck.known_hits.append(m3)
                            continue
                        msg = 'returned values are not the ones the rule names (interior target; listed witness no longer fails)'
                    badp.append((line, '%s: %s' % (step['op'], msg)))
                if step['op'].startswith('C') and not step['threw']:
                    got_pair = got_pair or step['nvals'] > 0
                    npairs += step['nvals']
                    outcomes['info %d' % step['info']] = outcomes.get('info %d' % step['info'], 0) + 1
                    for msg in contract_violations(step, cls, nev, ncv):
                        con_bad.append((line, '%s: %s' % (step['op'], msg)))
            ck.count(line, got_pair)
            mine = [b for b in badp if b[0] == line]
            if mine and known_f5_applies(exe, cls, line):
                badp = [b for b in badp if b[0] != line]
                m5 = 'F5 general solver: exact shifts that have converged collapse the restarted residual to rounding level, the basis loses orthonormality and garbage is reported as converged (witness: GenEigsRealShiftSolver n=8 nev=1 ncv=4 gnormal mseed=419506 SmallestMagn: returned vector V y has norm 3e-11)'
                if m5 not in ck.known_hits:
                    ck.known_hits.append(m5)
        ck.oblige('property predicate on every compute() of %d histories (%d returned pairs): %s' % (len(cases), npairs, what), not badp,
                  'history `%s` -> %s' % badp[0] if badp else '')
        ck.oblige('C-trace: kernel contracts assumed by the driver theorems hold at every hook event', not con_bad,
                  'history `%s` -> %s' % con_bad[0] if con_bad else '')
        ck.coverage_extra['returned_pairs_checked'] = npairs
        ck.coverage_extra['outcomes'] = outcomes
        if badp:
            first_fail = {'case': badp[0][0], 'observed': badp[0][1], 'clause': what}
        if cases:
            ck.sample({'history': cases[0][-1]})
    ck.assumptions = ['exact-arithmetic assembly; the rounding term is evaluated (1e-11..1e-9 times the norms), not proved',
                      'contract of the small dense eigen-solver (H y = theta y, unit y) is a hypothesis (C09 partial); kernels tied bit for bit under C07/C08',
                      'calm slice only: aggressive inputs (clustered/low-rank/large-norm breakdown cases) are used by the failing-input search after a tie breaks, because of design note D3']
    if ck.broken() or first_fail:
        br = ck.broken()
        what_ = br[0][0] if br else 'property predicate failed on the implementation'
        if first_fail:
            ck.violation(what_, dict(first_fail, broken=[b[0] + ': ' + b[2][:400] for b in br]), True)
        else:
            ck.violation(what_, {'broken': [b[0] + ': ' + b[2][:1500] for b in br]}, False)
