"""C02 - general (nonsymmetric) solvers return only genuine unit-norm eigenpairs."""
import p_C01
from assembly import *

CLS = ['GenEigsSolver', 'GenEigsRealShiftSolver', 'GenEigsComplexShiftSolver']


def predicate(cls, n, nev, ncv, step):
    f = []
    if step.get('skipped') or step['threw'] or not step['op'].startswith('C') or 'resid' not in step:
        return f
    tol = float(step['op'].split(':')[3])
    lam = evals_of(step)
    for j, r in enumerate(step['resid']):
        if cls in ('GenEigsSolver',):
            b = 1.5 * tol * max(EPS23, abs(lam[j])) + 1e-11 * step['normA']
        elif cls == 'GenEigsRealShiftSolver':
            nu = 1.0 / (lam[j] - SIGMA) if lam[j] != SIGMA else float('inf')
            b = 1.5 * tol * (step['normA'] + abs(SIGMA)) * max(1.0, EPS23 / max(abs(nu), 1e-300)) + 1e-10 * (step['normA'] + abs(SIGMA))
        else:
            b = residual_bound(cls, step, j, lam[j], tol, SIGMA)
        if not (r <= b):
            f.append('pair %d (lambda=%s): |A x - lambda x| / |x| = %.3g exceeds tol*scale + rounding = %.3g' % (j, '%.6g%+.6gi' % (lam[j].real, lam[j].imag), r, b))
    for j, xn in enumerate(step['xnorm']):
        if abs(xn - 1.0) > 1e-9:
            f.append('vector %d has norm %.12g' % (j, xn))
    ref = step.get('_ref')
    if ref and step['info'] == 0 and tol <= 1e-8:
        refc = [complex(a, b) for a, b in ref]
        ok, g = match_sets(lam, refc, 1e-6 * (step['normA'] + 1.0))
        if not ok:
            f.append('returned value %s is not an eigenvalue of A (or is a duplicate of a neighbour)' % g)
    return f


def run(ck, replay=None):
    p_C01.run(ck, replay, pid='C02', classes=CLS, pred=predicate, what='returned pairs are unit-norm eigenpairs of A, values in A\'s own spectrum, no duplicates', want_ref=True)
