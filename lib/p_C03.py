"""C03 - generalized symmetric solvers: true pencil eigenpairs, B-orthonormal vectors."""
import p_C01
from assembly import *

CLS = ['SymGEigsSolver_Cholesky', 'SymGEigsSolver_RegularInverse', 'SymGEigsShiftSolver_ShiftInvert', 'SymGEigsShiftSolver_Buckling', 'SymGEigsShiftSolver_Cayley']


def predicate(cls, n, nev, ncv, step):
    f = []
    if step.get('skipped') or step['threw'] or not step['op'].startswith('C') or 'resid' not in step:
        return f
    tol = float(step['op'].split(':')[3])
    lam = evals_of(step)
    for j, r in enumerate(step['resid']):
        b = residual_bound(cls, step, j, lam[j].real, tol, SIGMA)
        if not (r <= b):
            f.append('pair %d (lambda=%.6g): |A x - lambda B x| / |x| = %.3g exceeds tol-level (|A| + |lambda||B|) + rounding = %.3g' % (j, lam[j].real, r, b))
    if step.get('orth', 0) > 1e-8:
        f.append('returned vectors not orthonormal in the inner product of the positive-definite matrix: |X\'BX - I| = %.3g' % step['orth'])
    return f


def run(ck, replay=None):
    p_C01.run(ck, replay, pid='C03', classes=CLS, pred=predicate, what='returned pairs satisfy A x = lambda B x (K x = lambda K_G x) to tol level and X\'BX = I (X\'KX = I)')
