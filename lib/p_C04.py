"""C04 - the converged set is the part of the spectrum the selection rule asks for."""
import p_C01
from assembly import *
from glue_common import CLASSES


def interior_target(cls, rule, refc, sig=None):
    """classifier of known finding F3"""
    if cls.startswith('Gen'):
        return rule in (4, 6)
    nus = [forward(cls, z, sig).real for z in refc]
    return rule == 4 and min(nus) < 0 < max(nus)


def predicate(cls, n, nev, ncv, step):
    f = []
    if step.get('skipped') or step['threw'] or not step['op'].startswith('C'):
        return f
    ref = step.get('_ref')
    if not ref or step['info'] != 0:
        return f
    rule = int(step['op'].split(':')[1])
    refc = [complex(a, b) for a, b in ref]
    if cls == 'SymGEigsShiftSolver_Buckling' or not cls.startswith('Gen'):
        refc = [complex(z.real, 0) for z in refc]
    sig = shift_of(step.get('_line'))
    exp = wanted(cls, rule, refc, nev, sig)
    if exp is None:
        return f              # the cut falls inside a tie / negligible gap: the property does not apply
    got = evals_of(step)
    scale = max(abs(z) for z in refc) + 1e-300
    ok, g = match_sets(got, exp, 1e-6 * scale)
    if not ok and interior_target(cls, rule, refc, sig):
        genuine, _ = match_sets(got, refc, 1e-6 * scale)
        if genuine:
            f.append('KNOWN:F3')
            return f
    if not ok:
        f.append('Successful, but returned value %s is not among the %d eigenvalues the rule names (expected %s)' % (g, nev, ['%.6g%+.6gi' % (z.real, z.imag) for z in exp]))
    return f


def run(ck, replay=None):
    p_C01.run(ck, replay, pid='C04', classes=CLASSES, pred=predicate,
              what='on Successful, the returned eigenvalues are the ones the rule names in the spectrum it acts on (A; nu for the shift, buckling, Cayley modes)',
              want_ref=True, only_full=True, extra_props=('C18',))
