"""C05 - result accessors, counts, ordering and status are mutually consistent."""
import concurrent.futures as cf
from common import *
from glue_common import *

CALM_SYM = ['gapped', 'posgapped']
CALM_GEN = ['gnormal', 'grealspec']


def gen_histories(rng, tier):
    per = 26 if tier == 'quick' else 400
    out = []
    for cls in CLASSES:
        sels, sorts = rules_for(cls)
        for h in range(per):
            n, nev, ncv = legal_cfg(rng, cls, 16 if tier == 'quick' else 28)
            shifty = 'Shift' in cls
            fam = rng.choice(['gapped', 'posgapped', 'clustered', 'repeated'] if shifty else ['gapped', 'posgapped', 'generic', 'clustered', 'repeated', 'integer', 'blockdiag'])
            gfam = rng.choice(['gnormal', 'grealspec', 'gtriangular'] if shifty else ['gnormal', 'grealspec', 'gtriangular', 'grandom'])
            ops = []
            nops = rng.range(2, 5)
            ops.append('I' if rng.below(3) else 'V:r%d' % rng.below(1000))
            for j in range(nops - 1):
                if j > 0 and rng.below(4) == 0:
                    ops.append('I' if rng.below(2) else 'V:r%d' % rng.below(1000))
                else:
                    maxit = rng.choice([0, 1, 2, 3, 5, 1000, 1000])
                    tol = rng.choice(['1e-10', '1e-10', '1e-4', '1e-1'])
                    ops.append('C:%d:%d:%s:%d' % (rng.choice(sels), maxit, tol, rng.choice(sorts)))
            out.append((cls, n, nev, ncv, fam, gfam, hist_line(cls, n, nev, ncv, ops, fam=fam, gfam=gfam, mseed=rng.below(10 ** 6), extra='nvecs=1')))
    # accessors before any compute
    for cls in CLASSES:
        out.append((cls, 8, 2, 6, 'gapped', 'gnormal', hist_line(cls, 8, 2, 6, ['I'], extra='nvecs=1')))
    return out


def step_predicates(cls, n, nev, ncv, step, ever_computed, calm):
    """the property's own predicate on one observed call; returns list of failures"""
    f = []
    if step.get('snap_threw'):
        f.append('accessor threw ' + step.get('snap_exc', ''))
        return f
    is_c = step['op'].startswith('C')
    if step['threw']:
        return f            # exceptions are C13/C14's subject
    if step['nvals'] != step['ncols']:
        f.append('eigenvalues().size()=%d != eigenvectors().cols()=%d' % (step['nvals'], step['ncols']))
    if step['nvals'] > nev:
        f.append('more than nev values')
    if is_c:
        if step['ret'] != step['nvals']:
            f.append('compute() returned %d but eigenvalues().size()=%d' % (step['ret'], step['nvals']))
        want = 0 if step['ret'] == nev else 2
        if step['info'] != want:
            f.append('info()=%d with %d of %d converged' % (step['info'], step['ret'], nev))
        if not step.get('sorted', True):
            f.append('values not in the order of the sorting rule')
        a = step['op'].split(':')
        if calm and step['info'] == 0 and float(a[3]) <= 1e-8 and 'resid' in step:
            for j, r in enumerate(step['resid']):
                if r > 1e-5 * (step['normA'] + step['normB']):
                    f.append('pair %d: value and vector do not belong together (residual %.2e)' % (j, r))
    else:
        if not ever_computed and (step['info'] != 1 or step['nvals'] != 0 or step['ncols'] != 0):
            f.append('before any compute(): info=%d, %d values, %d columns' % (step['info'], step['nvals'], step['ncols']))
    if step['ncols'] and step['nrows'] != n:
        f.append('eigenvectors().rows()=%d != n' % step['nrows'])
    if 'prefix' in step and not step['prefix']:
        f.append('eigenvectors(m) is not the first min(m,count) columns (%s)' % step.get('prefix_detail'))
    opc, nops = step['opcount_since_init'], step['nops']
    if cls == 'GenEigsComplexShiftSolver':
        if not (nops <= opc <= nops + 2 * nev * step['computes_since_init']):
            f.append('num_operations()=%d, operator applied %d times' % (nops, opc))
    elif nops != opc:
        f.append('num_operations()=%d, operator applied %d times' % (nops, opc))
    if is_c and not (step['computes_since_init'] <= step['niter'] <= step['computes_since_init'] + step['maxit_sum']):
        f.append('num_iterations()=%d after %d compute() with maxit sum %d' % (step['niter'], step['computes_since_init'], step['maxit_sum']))
    return f


def run(ck, replay=None):
    rng = Rng(ck.seed)
    ck.rule = ('histories of 2..5 calls over {init(), init(v), compute(sel, maxit in {0,1,2,3,5,1000}, tol in {1e-10,1e-4,1e-1}, sorting)} on every '
               'solver class of the zoo (11 classes), legal (n, nev, ncv) incl. ncv = nev+1(+2) and ncv = n, 7 symmetric / 4 general families; '
               'non-trivial = history with at least one compute(); distinct by the full case line')
    st = regen()
    g = st.get('GlueGen.v', {'ok': False, 'error': 'not generated'})
    ck.oblige('T-gen GlueGen.v (compute, restart, init, accessors, factorize_from translated in world mode)', g.get('ok'), g.get('error', ''))
    bad = grep_gate()
    ck.oblige('no Admitted/Axiom/Parameter/disabled checks in the development', not bad, '; '.join(bad))
    with cf.ThreadPoolExecutor(3) as ex:
        f_pr = ex.submit(coq_property, 'C05')
        f_c = ex.submit(build_cpp, 'glue', CXX_FAST)
        pr = f_pr.result(); okc, exe, logc = f_c.result()
    ck.oblige('Properties_C05.v checks (coqc)', pr['ok'], pr['log'][-1500:] if not pr['ok'] else '')
    for t in pr['theorems']:
        ck.oblige('theorem ' + t['name'], True, 'assumptions: ' + (', '.join(t['assumptions']) or 'closed under the global context'))
        ck.trusted.append('%s: %s' % (t['name'], ', '.join(t['assumptions']) or 'closed under the global context'))
    if pr['ok']:
        ba = axioms_ok(pr['theorems'])
        ck.oblige('only standard-library axioms', not ba, '; '.join(ba))
    if ck.tier == 'thorough' and pr['ok']:
        ok, out = coqchk('C05')
        ck.oblige('coqchk SV.Properties_C05', ok, out[-1500:])
    ck.oblige('harness glue builds against /repo headers (hooks on)', okc, logc if not okc else '')
    okm, mexe, logm = build_ml()
    ck.oblige('extracted model builds', okm, logm if not okm else '')
    first_fail = None
    if okc:
        if replay is not None and replay.get('case'):
            m = dict(x.split('=', 1) for x in replay['case'].split()[1:] if '=' in x)
            hs = [(m['cls'], int(m['n']), int(m['nev']), int(m['ncv']), m.get('fam'), m.get('gfam'), replay['case'])]
        else:
            hs = gen_histories(rng, ck.tier)
        rc, res = run_hist(exe, [h[-1] for h in hs])
        ck.oblige('harness ran', rc == 0 and len(res) == len(hs), 'rc=%s %d/%d' % (rc, len(res), len(hs)))
        pred_bad, con_bad, mlines, mexp, adj_lines, adj_exp = [], [], [], [], [], []
        dist = {}
        for (cls, n, nev, ncv, fam, gfam, line), d in zip(hs, res):
            if 'error' in d:
                pred_bad.append((line, 'harness error: ' + d['error']))
                continue
            ever = False
            niter_before = 0
            calm = (gfam in CALM_GEN) if is_gen(cls) else (fam in CALM_SYM)
            ncomp = 0
            for step in d['steps']:
                if step.get('skipped'):
                    continue
                for msg in step_predicates(cls, n, nev, ncv, step, ever, calm):
                    pred_bad.append((line, '%s: %s' % (step['op'], msg)))
                if step['op'].startswith('C') and not step['threw']:
                    ever = True
                    ncomp += 1
                    for msg in contract_violations(step, cls, nev, ncv):
                        con_bad.append((line, '%s: %s' % (step['op'], msg)))
                    ml, al, ae = model_lines(step, cls, nev, ncv, niter_before)
                    mlines.append(ml); mexp.append((line, step['op'], 'ok %d %d %d 0' % (step['ret'], step['niter'], step['info'])))
                    adj_lines += al; adj_exp += [(line, step['op'], x) for x in ae]
                elif step['op'][0] in 'IV' and not step['threw']:
                    for msg in contract_violations(step, cls, nev, ncv):
                        con_bad.append((line, '%s: %s' % (step['op'], msg)))
                niter_before = step['niter'] if step['niter'] >= 0 else niter_before
            ck.count(line, ncomp > 0)
            dist[cls] = dist.get(cls, 0) + 1
            mine = [b for b in pred_bad if b[0] == line]
            if mine and all('do not belong together' in b[1] for b in mine) and is_gen(cls):
                import p_C01
                if [f for f in load_known().get('findings', []) if f.get('id') == 'F5-C05'] and p_C01.known_f5_applies(exe, cls, line.replace(' nvecs=1', '')):
                    pred_bad = [b for b in pred_bad if b[0] != line]
                    m5 = 'F5-C05 general solver whose Krylov basis lost orthonormality (root: F5): a converged value is paired with a vector that is not its eigenvector (witness: GenEigsSolver n=27 nev=6 ncv=8 grealspec mseed=847881)'
                    if m5 not in ck.known_hits:
                        ck.known_hits.append(m5)
        ck.oblige('public-API consistency predicate on every observed call (%d histories)' % len(hs), not pred_bad,
                  'history `%s` -> %s' % pred_bad[0] if pred_bad else '')
        if pred_bad:
            first_fail = {'case': pred_bad[0][0], 'observed': pred_bad[0][1], 'clause': 'accessors/counts/status consistent'}
        ck.oblige('C-trace: kernel contracts assumed by the theorems hold at every hook event', not con_bad,
                  'history `%s` -> %s' % con_bad[0] if con_bad else '')
        if con_bad and not first_fail:
            first_fail = None   # a broken contract is a broken tie; the predicate decides about a failing input
        if okm and mlines:
            rc, mo = run_lines(mexe, mlines + adj_lines)
            okrun = rc == 0 and len(mo) == len(mlines) + len(adj_lines)
            diffs = [(e[0], e[1], e[2], o) for e, o in zip(mexp, mo[:len(mlines)]) if e[2] != o] if okrun else []
            ck.oblige('C-trace: generated driver replayed on the recorded kernel results reproduces (return, niter, info) of %d compute() calls' % len(mlines),
                      okrun and not diffs, 'history `%s` step %s: impl `%s`, model `%s`' % diffs[0] if diffs else 'rc=%s' % rc)
            d2 = [(e[0], e[1], e[2], o) for e, o in zip(adj_exp, mo[len(mlines):]) if str(e[2]) != o] if okrun else []
            ck.oblige('C-trace: generated nev_adjusted on the recorded estimate patterns == restart size used (%d restarts)' % len(adj_lines),
                      okrun and not d2, 'history `%s` step %s: impl %s, model %s' % d2[0] if d2 else '')
            ck.coverage_extra['replayed_computes'] = len(mlines)
            ck.coverage_extra['replayed_restarts'] = len(adj_lines)
        ck.coverage_extra['distribution'] = dist
        for (h, d) in list(zip(hs, res))[:3]:
            if 'steps' in d:
                ck.sample({'case': h[-1], 'steps': [{k: s[k] for k in ('op', 'ret', 'info', 'niter', 'nops', 'nvals', 'ncols')} for s in d['steps']]})
    ck.assumptions = ['kernel contracts (num_converged returns the count of the nev flags it writes; sort_ritzpair permutes the flags; factorize_from costs between to-from and 2(to-from) applications) are hypotheses of the theorems and are validated at every hook event of every run',
                      'world calls inside initialisers of non-integer locals are not threaded by the translator (documented in DESIGN.md)',
                      'clang 14 JSON AST + translator; extraction + driver; hooks SPECTRA_VERIF_HOOKS']
    if ck.broken() or first_fail:
        br = ck.broken()
        what = br[0][0] if br else 'property predicate failed on the implementation'
        if first_fail:
            ck.violation(what, dict(first_fail, broken=[b[0] + ': ' + b[2][:400] for b in br]), True)
        else:
            ck.violation(what, {'broken': [b[0] + ': ' + b[2][:1500] for b in br]}, False)
