"""C06 - results depend only on arguments: reruns bit-identical, operator left untouched."""
import concurrent.futures as cf
from common import *
from glue_common import *


def observe(step):
    return (step['threw'], step['exc'], step['ret'], step['info'], step['niter'], step['nops'], step['evals'], step['evecs_hash'], step['nvals'], step['ncols'])


_f1 = {}


def known_f1_c06(ck, exe, cls, reused):
    """F1-C06 (root F1): an injected fault that lands in the probe solves of GenEigsComplexShiftSolver leaves the operator shifted.
    Classifier: the fault index exceeds num_operations() of the same compute() run without the fault; witness must still fail."""
    kf = [f for f in load_known().get('findings', []) if f.get('id') == 'F1-C06']
    if not kf or cls != 'GenEigsComplexShiftSolver' or ';F:' not in reused:
        return False
    head, ops = reused.split('ops=')[0], reused.split('ops=')[1].split()[0].split(';')
    tail = ' '.join(reused.split('ops=')[1].split()[1:])
    hit = False
    for i, o in enumerate(ops):
        if o.startswith('F:') and i + 1 < len(ops) and ops[i + 1].startswith('C:'):
            k = int(o[2:])
            clean = [x for j, x in enumerate(ops[:i + 2]) if j != i]                 # same prefix up to that compute(), fault removed
            rc, r = run_hist(exe, [head + 'ops=' + ';'.join(clean) + ' ' + tail])
            try:
                st = [s_ for s_ in r[0]['steps'] if not s_.get('skipped')]
                comp = st[-1]; before = st[-2]['nops'] if len(st) > 1 and st[-2]['op'][0] in 'IV' else 0
                iter_ops = comp['nops'] - before
                if k > iter_ops:
                    hit = True
            except Exception:
                pass
    if not hit:
        return False
    if 'w' not in _f1:
        w = kf[0]['witness']
        rc, r = run_hist(exe, [w, w.replace('ops=I;F:5;C:6:5:1e-10:6;U;', 'ops=')])
        try:
            _f1['w'] = observe(r[0]['steps'][-1]) != observe(r[1]['steps'][-1])
        except Exception:
            _f1['w'] = False
    if not _f1['w']:
        return False
    msg = 'F1-C06 operator fault during the probe solves of GenEigsComplexShiftSolver leaves the operator at the probe shift (root F1): the reused solver then differs from a fresh one (witness: n=4 nev=2 ncv=4 gnormal mseed=954111, fault at application 5)'
    if msg not in ck.known_hits:
        ck.known_hits.append(msg)
    return True


def gen_cases(rng, tier):
    """(class, fresh-history line, reused-history line): the reused object first goes through a prefix of other calls"""
    per = 14 if tier == 'quick' else 200
    out = []
    for cls in CLASSES:
        sels, sorts = rules_for(cls)
        badsel, badsort = bad_rules_for(cls)
        for h in range(per):
            n, nev, ncv = legal_cfg(rng, cls, 14 if tier == 'quick' else 26)
            shifty = 'Shift' in cls
            fam = rng.choice(['gapped', 'posgapped', 'clustered', 'repeated'] if shifty else ['gapped', 'posgapped', 'generic', 'clustered', 'repeated', 'integer', 'blockdiag'])
            gfam = rng.choice(['gnormal', 'grealspec', 'gtriangular'] if shifty else ['gnormal', 'grealspec', 'gtriangular', 'grandom'])
            mseed = rng.below(10 ** 6)
            start = 'I' if rng.below(2) else 'V:r%d' % rng.below(1000)
            final = [start, 'C:%d:%d:%s:%d' % (rng.choice(sels), rng.choice([0, 1, 3, 1000]), rng.choice(['1e-10', '1e-4']), rng.choice(sorts))]
            prefix = []
            for j in range(rng.range(1, 3)):
                k = rng.below(7)
                if k == 5:      # a run that throws at its very end: legal SortRule value that is not a supported sorting rule
                    prefix += ['I', 'C:%d:%d:%s:%d' % (rng.choice(sels), rng.choice([0, 2, 1000]), '1e-10', rng.choice(badsort))]
                elif k == 6:    # a run that throws from inside the iteration: unsupported selection rule
                    prefix += ['I', 'C:%d:%d:%s:%d' % (rng.choice(badsel), rng.choice([2, 1000]), '1e-10', rng.choice(sorts))]
                elif k == 0:
                    prefix.append('I')
                elif k == 1:
                    prefix.append('V:r%d' % rng.below(1000))
                elif k == 2:
                    prefix.append('V:zero')                        # throws invalid_argument
                elif k == 3:
                    prefix += ['I', 'C:%d:%d:%s:%d' % (rng.choice(sels), rng.choice([0, 2, 1000]), rng.choice(['1e-10', '1e-2']), rng.choice(sorts))]
                else:
                    prefix += ['I', 'F:%d' % rng.range(1, 6), 'C:%d:5:1e-10:%d' % (rng.choice(sels), rng.choice(sorts)), 'U']   # a run that throws
            if cls in ('SymEigsSolver', 'GenEigsSolver') and h % 5 == 4:
                # the observed run starts from an EXACT eigenvector (all-ones, constant row sums, n = 16 so that the normalisation is exact):
                # init() takes its "f is rounding noise" branch, which has to reset everything the previous run left behind
                n = 16; nev = rng.range(1, 3); ncv = rng.range(nev + 3, 10); fam = 'rowsum'; gfam = 'growsum'
                final = ['V:ones', final[1]]
                prefix = ['I', 'C:%d:%d:%s:%d' % (rng.choice(sels), rng.choice([2, 1000]), '1e-10', rng.choice(sorts))] + prefix
            fresh = hist_line(cls, n, nev, ncv, final, fam=fam, gfam=gfam, mseed=mseed, extra='probe=1')
            reused = hist_line(cls, n, nev, ncv, prefix + final, fam=fam, gfam=gfam, mseed=mseed, extra='probe=1')
            out.append((cls, fresh, reused, 1))     # the observed outcome is the one after compute()
    return out


def run(ck, replay=None):
    rng = Rng(ck.seed)
    ck.rule = ('pairs (fresh solver, reused solver) on the same operator/arguments; the reused object first runs a prefix of 1..6 other calls '
               '(init, init(v), init(zero vector) [throws], full compute with other arguments, compute interrupted by an injected operator fault, compute with a legal but '
               'unsupported sorting rule [throws at the very end] or selection rule [throws inside the iteration]); a fifth of the standard-solver cases observe a run '
               'started from an exact eigenvector (all-ones vector, constant row sums) after an earlier full run; '
               'all 11 classes; outcome compared bit for bit; operator probed before/after; non-trivial = prefix contains a compute or a throwing call')
    st = regen()
    g = st.get('GlueGen.v', {'ok': False, 'error': 'not generated'})
    ck.oblige('T-gen GlueGen.v', g.get('ok'), g.get('error', ''))
    bad = grep_gate()
    ck.oblige('no Admitted/Axiom/Parameter/disabled checks in the development', not bad, '; '.join(bad))
    with cf.ThreadPoolExecutor(3) as ex:
        f_pr = ex.submit(coq_property, 'C06')
        f_c = ex.submit(build_cpp, 'glue', CXX_FAST)
        pr = f_pr.result(); okc, exe, logc = f_c.result()
    ck.oblige('Properties_C06.v checks (coqc)', pr['ok'], pr['log'][-1500:] if not pr['ok'] else '')
    for t in pr['theorems']:
        ck.oblige('theorem ' + t['name'], True, 'assumptions: ' + (', '.join(t['assumptions']) or 'closed under the global context'))
        ck.trusted.append('%s: %s' % (t['name'], ', '.join(t['assumptions']) or 'closed under the global context'))
    if pr['ok']:
        ba = axioms_ok(pr['theorems'])
        ck.oblige('only standard-library axioms', not ba, '; '.join(ba))
    if ck.tier == 'thorough' and pr['ok']:
        ok, out = coqchk('C06')
        ck.oblige('coqchk SV.Properties_C06', ok, out[-1500:])
    ck.oblige('harness glue builds against /repo headers', okc, logc if not okc else '')
    first_fail = None
    if okc:
        if replay is not None and replay.get('fresh'):
            cases = [(replay.get('cls', '?'), replay['fresh'], replay['reused'], 1)]
        else:
            cases = gen_cases(rng, ck.tier)
        lines = []
        for c in cases:
            lines += [c[1], c[2], c[1]]          # fresh, reused, fresh again (run-to-run determinism)
        rc, res = run_hist(exe, lines)
        ck.oblige('harness ran', rc == 0 and len(res) == len(lines), 'rc=%s %d/%d' % (rc, len(res), len(lines)))
        badc, badp = [], []
        for i, c in enumerate(cases):
            if len(res) < 3 * i + 3:
                break
            a, b, a2 = res[3 * i], res[3 * i + 1], res[3 * i + 2]
            if 'error' in a or 'error' in b:
                badc.append((c, 'harness error %s %s' % (a.get('error'), b.get('error'))))
                continue
            k = c[3]
            for d_ in (a, b, a2):
                d_['steps'] = [s_ for s_ in d_['steps'] if not s_.get('skipped')]
            oa = [observe(s) for s in a['steps'][-k:]]
            ob = [observe(s) for s in b['steps'][-k:]]
            oa2 = [observe(s) for s in a2['steps'][-k:]]
            nontriv = any(x in c[2].split('ops=')[1].rsplit(';', 2)[0] for x in ('C:', 'zero', 'F:'))
            ck.count(c[2], nontriv)
            if oa != oa2:
                badc.append((c, 'two fresh runs differ'))
            elif oa != ob and known_f1_c06(ck, exe, c[0], c[2]):
                pass
            elif oa != ob:
                fld = ['threw', 'exc', 'ret', 'info', 'niter', 'nops', 'eigenvalues', 'eigenvectors', 'nvals', 'ncols']
                d = [fld[j] for x, y in zip(oa, ob) for j in range(len(x)) if x[j] != y[j]]
                badc.append((c, 'reused solver differs from fresh solver in: ' + ','.join(dict.fromkeys(d))))
            for d_, nm in ((a, 'fresh'), (b, 'reused')):
                if d_.get('probe_same') is False and not (nm == 'reused' and known_f1_c06(ck, exe, c[0], c[2])):
                    badp.append((c, '%s: operator behaves differently after the run (max change %.3g)' % (nm, d_.get('probe_delta', 0))))
        ck.oblige('fresh solver == reused solver == second fresh run, bit for bit (%d triples)' % len(cases), not badc,
                  '%s | reused history `%s`' % (badc[0][1], badc[0][0][2]) if badc else '')
        ck.oblige('operator object unchanged by init()/compute() (probe vector, bitwise)', not badp,
                  '%s | history `%s`' % (badp[0][1], badp[0][0][2]) if badp else '')
        if badc:
            first_fail = {'cls': badc[0][0][0], 'fresh': badc[0][0][1], 'reused': badc[0][0][2], 'observed': badc[0][1], 'clause': 'result is a function of (operator, nev, ncv, v, args) alone'}
        elif badp:
            first_fail = {'cls': badp[0][0][0], 'fresh': badp[0][0][1], 'reused': badp[0][0][2], 'observed': badp[0][1], 'clause': 'operator left untouched'}
        if cases and len(res) >= 2:
            ck.sample({'fresh': cases[0][1], 'reused': cases[0][2]})
    ck.assumptions = ['bit-identity is checked within one build on this machine (not across compilers/platforms)',
                      'init() overwriting every array compute() reads is exercised (differential histories), the theorem covers the counters and the member inventory']
    if ck.broken() or first_fail:
        br = ck.broken()
        what = br[0][0] if br else 'property predicate failed on the implementation'
        if first_fail:
            ck.violation(what, dict(first_fail, broken=[b[0] + ': ' + b[2][:400] for b in br]), True)
        else:
            ck.violation(what, {'broken': [b[0] + ': ' + b[2][:1500] for b in br]}, False)
