"""C07 - the Krylov factorization invariant holds at every step, restart and breakdown."""
import concurrent.futures as cf
from common import *
from kern_common import *
from glue_common import *

TOL = {'rel': 1e-10, 'orth': 1e-10, 'fperp': 1e-10, 'shape': 1e-12, 'sym': 1e-12, 'beta': 1e-12}


def cbit_cases(rng, tier):
    lines = []
    per = 30 if tier == 'quick' else 600
    for kind in ('arnoldi', 'lanczos'):
        for rep in range(per):
            n = rng.range(4, 10 if tier == 'quick' else 24); m = rng.range(3, n)
            A = [[0.0] * n for _ in range(n)]
            mode = rep % 8
            if mode in (0, 1):
                A = [[rnd(rng) for _ in range(n)] for _ in range(n)]
                v0 = [rnd(rng) for _ in range(n)]
            elif mode == 2:      # diagonal, start = e_j: immediate breakdown
                for i in range(n): A[i][i] = float(i + 1)
                v0 = [0.0] * n; v0[rng.below(n)] = 1.0
            elif mode == 3:      # identity: every step breaks down
                for i in range(n): A[i][i] = 1.0
                v0 = [rnd(rng) for _ in range(n)]
            elif mode == 4:      # block diagonal, start inside the first block: breakdown at step 2
                for i in range(n):
                    for j in range(n):
                        if (i < 2) == (j < 2): A[j][i] = float(rng.range(-2, 2))
                v0 = [0.0] * n; v0[0] = 1.0; v0[1] = 0.5
            elif mode == 6:      # diagonal plus a tiny coupling, start = e_j: the residual norm falls between near_0 and sqrt(eps) -> the near-breakdown
                                 # test of Lanczos (inner product with the previous basis vector) is executed (found unexercised by tools/coverage.sh)
                for i in range(n): A[i][i] = float(i + 1)
                e = 10.0 ** (-rng.range(9, 12))
                for i in range(n):
                    for j in range(i):
                        if rng.below(2): A[i][j] = A[j][i] = e * rnd(rng)
                v0 = [0.0] * n; v0[rng.below(n)] = 1.0
            elif mode == 7:      # diagonal, start = e_j plus a perturbation of size 1e-9 .. 1e-12
                for i in range(n): A[i][i] = float(i + 1)
                e = 10.0 ** (-rng.range(9, 12))
                v0 = [e * rnd(rng) for _ in range(n)]; v0[rng.below(n)] = 1.0
            else:                # small integers
                A = [[float(rng.range(-2, 2)) for _ in range(n)] for _ in range(n)]
                v0 = [float(rng.range(-2, 2)) for _ in range(n)]; v0[0] = 1.0
            if kind == 'lanczos':
                for i in range(n):
                    for j in range(i): A[i][j] = A[j][i]
            kk = 0 if rep % 3 == 0 else rng.range(1, m - 1)
            lines.append('%s %d %d %s %s %d %s' % (kind, n, m, ' '.join(map(hx, flat(A))), ' '.join(map(hx, v0)), kk, hx(rnd(rng))))
    return lines


def inv_cases(rng, tier):
    per = 8 if tier == 'quick' else 120
    out = []
    for cls in CLASSES:
        sels, sorts = rules_for(cls)
        for h in range(per):
            n, nev, ncv = legal_cfg(rng, cls, 16 if tier == 'quick' else 30)
            shifty = 'Shift' in cls
            fam = rng.choice(['gapped', 'posgapped', 'clustered', 'repeated'] if shifty else ['gapped', 'posgapped', 'generic', 'clustered', 'repeated', 'integer', 'blockdiag', 'identity', 'lowrank'])
            gfam = rng.choice(['gnormal', 'grealspec', 'gtriangular'] if shifty else ['gnormal', 'grealspec', 'gtriangular', 'grandom', 'gidentity', 'gperm'])
            # breakdown-prone inputs (invariant-subspace starts, identity / low-rank / permutation operators) only at norm ~1 and without
            # shift-and-invert: with other norms the ABSOLUTE breakdown thresholds of Arnoldi/Lanczos lose orthogonality (design note D3)
            breaky = fam in ('identity', 'lowrank') or gfam in ('gidentity', 'gperm')
            start = rng.choice(['I', 'V:r%d' % rng.below(100)] + ([] if (is_gen(cls) or shifty or 'SymG' in cls) else ['V:e%d' % rng.below(4), 'V:s%d' % rng.below(4)]))
            if 'SymG' in cls and h % 4 == 1:
                start = 'V:g%d' % rng.below(6)        # an eigenvector of the pencil: the run goes through a breakdown right after init()
                fam = rng.choice(['gapped', 'posgapped'])
            breaky = breaky or start[:3] in ('V:e', 'V:s', 'V:g')
            ops = [start, 'C:%d:%d:%s:%d' % (rng.choice(sels), rng.choice([0, 2, 6, 40]), '1e-10', rng.choice(sorts))]
            if rng.below(3) == 0:
                ops.append('C:%d:%d:%s:%d' % (rng.choice(sels), rng.choice([1, 5]), '1e-10', rng.choice(sorts)))
            out.append(hist_line(cls, n, nev, ncv, ops, fam=fam, gfam=gfam, mseed=rng.below(10 ** 6), scale=(1.0 if breaky else rng.choice([1.0, 1.0, 1e-3, 1e3])), extra='kry=1'))
    # targeted: generalized classes that iterate with the B-inner product, operator of small norm (scale 1e3 under shift-and-invert), nev close to ncv,
    # many restarts: as the run converges the residual norms fall below sqrt(eps) and the NEAR-breakdown test of Lanczos (which must use the
    # B-inner product) is executed; the second seeded change for C07 is only visible there, and a random draw found such a run for one seed in six
    for cls in CLASSES:
        if 'SymG' not in cls or 'Cholesky' in cls:
            continue
        sels, sorts = rules_for(cls)
        for t in range(8 if tier == 'quick' else 24):
            n = 11 + t % 4; nev = 8 + t % 2
            ops = ['I' if t % 2 == 0 else 'V:r%d' % rng.below(100), 'C:%d:40:1e-10:%d' % (sels[0], rng.choice(sorts))]
            out.append(hist_line(cls, n, nev, nev + 1, ops, fam='gapped', gfam='grealspec', mseed=rng.below(10 ** 6), scale=1000.0, extra='kry=1'))
    return out


def run(ck, replay=None):
    rng = Rng(ck.seed)
    ck.rule = ('C-bit: Arnoldi / Lanczos init + factorize_from + (implicit restart: compress_H, compress_V) + factorize_from on dense, diagonal (start = e_j), '
               'identity (every step breaks down), block-diagonal (breakdown at step 2) and integer operators, compared bit for bit (V, H, f, beta, k, operation count); '
               'invariant slice: A V = V H + f e_k\', V\'BV = I, V\'Bf = 0, Hessenberg/tridiagonal-symmetric H, beta = |f| evaluated by a hook observer inside real '
               'runs of all 11 solver classes at every init / factorize_from / compress_V event; non-trivial = run with at least one restart or breakdown')
    st = regen()
    for f in ('GlueGen.v', 'RngGen.v'):
        g = st.get(f, {'ok': False, 'error': 'not generated'})
        ck.oblige('T-gen %s' % f, g.get('ok'), g.get('error', ''))
    bad = grep_gate()
    ck.oblige('no Admitted/Axiom/Parameter/disabled checks in the development', not bad, '; '.join(bad))
    with cf.ThreadPoolExecutor(3) as ex:
        f_pr = ex.submit(coq_property, 'C07')
        f_k = ex.submit(build_cpp, 'kernels')
        f_g = ex.submit(build_cpp, 'glue', CXX_FAST)
        pr = f_pr.result(); okk, kexe, logk = f_k.result(); okg, gexe, logg = f_g.result()
    ck.oblige('Properties_C07.v checks (coqc)', pr['ok'], pr['log'][-1500:] if not pr['ok'] else '')
    for t in pr['theorems']:
        ck.oblige('theorem ' + t['name'], True, 'assumptions: ' + (', '.join(t['assumptions']) or 'closed under the global context'))
        ck.trusted.append('%s: %s' % (t['name'], ', '.join(t['assumptions']) or 'closed under the global context'))
    if pr['ok']:
        ba = axioms_ok(pr['theorems'])
        ck.oblige('only standard-library axioms', not ba, '; '.join(ba))
    if ck.tier == 'thorough' and pr['ok']:
        ok, out = coqchk('C07')
        ck.oblige('coqchk SV.Properties_C07', ok, out[-1500:])
    ck.oblige('harness kernels builds', okk, logk if not okk else '')
    ck.oblige('harness glue builds (hooks on)', okg, logg if not okg else '')
    okm, mexe, logm = build_ml()
    ck.oblige('extracted model builds', okm, logm if not okm else '')
    first_fail = None
    if okk and okm:
        c = get_consts(kexe)
        lines = cbit_cases(rng, ck.tier)
        rc1, a, rc2, b = run_pair(kexe, mexe, lines, 'setconsts ' + ' '.join(c))
        diff = [(l, x, y) for l, x, y in zip(lines, a, b) if x.strip() != y.strip()]
        for name in ('arnoldi', 'lanczos'):
            d = [x for x in diff if x[0].startswith(name)]
            msg = ''
            if d:
                xa, xb = d[0][1].split(), d[0][2].split()
                pos = next((i for i, (p, q) in enumerate(zip(xa, xb)) if p != q), -1)
                msg = 'case `%s...`: first differing output #%d' % (d[0][0][:60], pos)
            ck.oblige('C-bit %s: init/factorize_from/compress_V/expand_basis == model bit for bit (%d cases)' % (name, len([l for l in lines if l.startswith(name)])),
                      rc1 == 0 and rc2 == 0 and len(a) == len(lines) and len(b) == len(lines) and not d, msg or 'rc=%s/%s' % (rc1, rc2))
        nb = sum(1 for x in a if x and int(x.split('|')[0].split()[-1]) > 2 + (int(lines[a.index(x)].split()[2]) - 1))
        ck.coverage_extra['cbit_cases'] = len(lines)
        ck.coverage_extra['cbit_cases_with_breakdown'] = nb
    if okg:
        hs = inv_cases(rng, ck.tier) if replay is None or not replay.get('case') else [replay['case']]
        rc, res = run_hist(gexe, hs)
        ck.oblige('invariant runs completed', rc == 0 and len(res) == len(hs), 'rc=%s' % rc)
        badi = []
        nev_total = 0
        kd3 = [f for f in load_known().get('findings', []) if f.get('property') == 'C07' and f.get('id') == 'F5-C07']
        wd3 = {}

        def known_d3(exe_):
            """F5-C07 (design note D3): orthonormality only to ~1e-10 after a breakdown restart; absorbed only while the listed witness still fails"""
            if not kd3:
                return False
            if 'ok' not in wd3:
                rcw, rw = run_hist(exe_, [kd3[0]['witness']])
                worst_w = 0.0
                try:
                    for st_ in rw[0]['steps']:
                        for e_ in st_.get('events', []):
                            if isinstance(e_[-1], dict) and e_[-1].get('finite'):
                                worst_w = max(worst_w, e_[-1].get('orth', 0.0))
                except Exception:
                    pass
                wd3['ok'] = worst_w > TOL['orth']
            if not wd3['ok']:
                return False
            msg = 'F5-C07 after a Krylov breakdown restart the basis is orthonormal only to ~1e-10 (absolute breakdown thresholds, design note D3) (witness: SymEigsSolver n=28 nev=25 ncv=28 clustered V:s0 mseed=721971)'
            if msg not in ck.known_hits:
                ck.known_hits.append(msg)
            return True

        worst = {k: 0.0 for k in TOL}
        for line, d in zip(hs, res):
            if 'steps' not in d:
                badi.append((line, 'harness error ' + str(d.get('error')))); continue
            nrest = 0
            broke_down = False          # a MISSED (near-)breakdown in this run: a non-zero sub-diagonal of H below 2e-6 |H| was accepted as a Lanczos/Arnoldi coefficient
            for s in d['steps']:
                for e in s.get('events', []):
                    if e[0] == 'eigs.restart' or e[0] == 'arnoldi.expand_basis':
                        nrest += 1
                    if isinstance(e[-1], dict) and e[-1].get('minsub', 1.0) < 2e-6:
                        broke_down = True
                    if isinstance(e[-1], dict):
                        kr = e[-1]; nev_total += 1
                        if not kr['finite']:
                            if not s['threw']:
                                badi.append((line, '%s at %s(%d,%d): non-finite factorization' % (s['op'], e[0], e[1], e[2])))
                            continue
                        for key, tol in TOL.items():
                            worst[key] = max(worst[key], kr[key])
                            if kr[key] > tol and key in ('orth', 'fperp', 'rel') and broke_down and (kr[key] < 1e-6 or (' cls=Gen' in line and ('gfam=gidentity' in line or 'gfam=gperm' in line))) and known_d3(gexe):
                                continue
                            if kr[key] > tol:
                                names = {'rel': '|AV - VH - f e_k\'| / |AV|', 'orth': '|V\'BV - I|', 'fperp': '|V\'Bf| / |AV|', 'shape': 'H not Hessenberg/tridiagonal', 'sym': 'H not symmetric', 'beta': 'beta != |f|'}
                                badi.append((line, '%s at %s(%d,%d), dimension %d: %s = %.3g' % (s['op'], e[0], e[1], e[2], kr['k'], names[key], kr[key])))
                        want_k = {'arnoldi.init': 1}.get(e[0])
                        if e[0].endswith('factorize_from') and e[1] < e[2]:
                            want_k = e[2]
                        if want_k is not None and kr['k'] != want_k:
                            badi.append((line, '%s: dimension %d, advertised %d' % (e[0], kr['k'], want_k)))
            ck.count(line, nrest > 0)
        ck.oblige('Krylov invariant holds at every hook event of %d runs (%d events)' % (len(hs), nev_total), not badi,
                  'run `%s` -> %s' % badi[0] if badi else '')
        ck.coverage_extra['events_checked'] = nev_total
        ck.coverage_extra['worst_defects'] = {k: float('%.3g' % v) for k, v in worst.items()}
        if badi:
            first_fail = {'case': badi[0][0], 'observed': badi[0][1], 'clause': 'A V = V H + f e_k\', V\'BV = I, V\'Bf = 0 at every hand-over point'}
        if hs:
            ck.sample({'run': hs[0]})
    ck.assumptions = ['exact-arithmetic theorems over an arbitrary field; rounding ("to rounding level relative to |A|") is evaluated on the implementation with thresholds 1e-10..1e-12',
                      'C-bit: double, standard inner product, harness-defined sequential operator; B-inner-product modes and complex scalars are covered by the invariant slice',
                      'breakdown heuristics (absolute thresholds) on rank-deficient operators of large norm are outside the calm slice (design note D3)']
    if ck.broken() or first_fail:
        br = ck.broken()
        what = br[0][0] if br else 'property predicate failed on the implementation'
        if first_fail:
            ck.violation(what, dict(first_fail, broken=[b[0] + ': ' + b[2][:400] for b in br]), True)
        else:
            ck.violation(what, {'broken': [b[0] + ': ' + b[2][:1500] for b in br]}, False)
