"""C08 - shifted QR helpers: orthogonal Q, exact similarity, structure preserved."""
import concurrent.futures as cf
from common import *
from kern_common import *

KINDS = ['random', 'integer', 'graded', 'deflated', 'smallsub', 'tiny', 'huge']


def cbit_cases(rng, tier, c):
    lines = []
    cut = unhx(c[2]); eps = unhx(c[0])
    nrot = 400 if tier == 'quick' else 20000
    for k in range(nrot):
        x = rnd(rng) * 10.0 ** rng.range(-8, 8); y = rnd(rng) * 10.0 ** rng.range(-8, 8)
        if k % 7 == 0: y = 0.0
        if k % 11 == 0: x = 0.0
        if k % 5 == 0: y = x * ulp_step(cut, rng.range(-3, 3))          # |y/x| at the Taylor cutoff +- a few ulp
        if k % 13 == 0: x, y = y, x
        lines.append('rot %s %s' % (hx(x), hx(y)))
    per = 40 if tier == 'quick' else 1200
    nmax = 12 if tier == 'quick' else 40
    for kind in KINDS:
        for rep in range(per):
            n = rng.range(2, nmax); m = rng.range(1, 3)
            H = hess_matrix(rng, n, kind)
            y = [rnd(rng) for _ in range(n)]
            Y = [[rnd(rng) for _ in range(n)] for _ in range(m)]
            Z = [[rnd(rng) for _ in range(m)] for _ in range(n)]
            shift = rng.choice([0.0, rnd(rng), H[n - 1][n - 1], 1.0])
            if rep % 4 == 0 and n >= 2:     # an exact eigenvalue of the trailing 2x2 block when it is real
                a, b, cc, d = H[n - 2][n - 2], H[n - 1][n - 2], H[n - 2][n - 1], H[n - 1][n - 1]
                disc = ((a - d) / 2) ** 2 + b * cc
                if disc >= 0 and abs(disc) < 1e300:
                    shift = (a + d) / 2 + math.sqrt(disc)
            lines.append('hqr %d %s %s %s %d %s %s' % (n, hx(shift), ' '.join(map(hx, flat(H))), ' '.join(map(hx, y)), m, ' '.join(map(hx, flat(Y))), ' '.join(map(hx, flat(Z)))))
            d_ = [H[j][j] for j in range(n)]; sub = [H[j][j + 1] for j in range(n - 1)]
            if kind == 'deflated' or rep % 3 == 0:
                for i in range(n - 1):
                    if rng.below(3) == 0:
                        sub[i] = ulp_step(eps * (abs(d_[i]) + abs(d_[i + 1])), rng.range(-2, 2)) * (1 if rng.below(2) else -1)
            lines.append('tqr %d %s %s %s' % (n, hx(shift), ' '.join(map(hx, d_)), ' '.join(map(hx, sub))))
            if n >= 3:
                re, im = rnd(rng), rnd(rng)
                ss, tt = 2 * re, re * re + im * im
                if rep % 5 == 0:
                    a, b, cc, d = H[n - 2][n - 2], H[n - 1][n - 2], H[n - 2][n - 1], H[n - 1][n - 1]
                    ss, tt = a + d, a * d - b * cc
                lines.append('dsqr %d %s %s %s %s %d %s' % (n, hx(ss), hx(tt), ' '.join(map(hx, flat(H))), ' '.join(map(hx, y)), m, ' '.join(map(hx, flat(Z)))))
    return lines


def pred_cases(rng, tier):
    lines = []
    per = 12 if tier == 'quick' else 300
    nmax = 16 if tier == 'quick' else 64
    for ty in ('float', 'double', 'ldouble'):
        for kind in ('random', 'integer', 'graded', 'deflated', 'smallsub'):
            for rep in range(per):
                n = rng.range(2, nmax)
                H = hess_matrix(rng, n, kind)
                if ty == 'float' and kind == 'graded':
                    H = [[x if abs(x) < 1e30 else 1.0 for x in col] for col in H]
                shift = rng.choice([0.0, rnd(rng), H[n - 1][n - 1]])
                body = '%s %d %s %s' % (ty, n, hx(shift), ' '.join(map(hx, flat(H))))
                lines.append('pred_hqr ' + body)
                lines.append('pred_tqr ' + body)
                if n >= 3:
                    re, im = rnd(rng), rnd(rng)
                    lines.append('pred_dsqr %s %d %s %s %s' % (ty, n, hx(2 * re), hx(re * re + im * im), ' '.join(map(hx, flat(H)))))
    return lines


def run(ck, replay=None):
    rng = Rng(ck.seed)
    ck.rule = ('C-bit: rotations (zero cases, |y/x| at the Taylor cutoff +-3 ulp, 16 decades), UpperHessenbergQR / TridiagQR / DoubleShiftQR on 7 matrix '
               'families (random, integer with exact zeros, graded over 16 decades, deflated blocks, sub-diagonals at the deflation thresholds, tiny, huge), '
               'shifts incl. exact eigenvalues of trailing blocks, all public and protected outputs compared as bit patterns with the extracted model; '
               'predicate slice: the identities of the property in float/double/long double; non-trivial = n >= 3; distinct by case line')
    bad = grep_gate()
    ck.oblige('no Admitted/Axiom/Parameter/disabled checks in the development', not bad, '; '.join(bad))
    with cf.ThreadPoolExecutor(3) as ex:
        f_pr = ex.submit(coq_property, 'C08')
        f_c = ex.submit(build_cpp, 'kernels')
        pr = f_pr.result(); okc, exe, logc = f_c.result()
    ck.oblige('Properties_C08.v checks (coqc)', pr['ok'], pr['log'][-1500:] if not pr['ok'] else '')
    for t in pr['theorems']:
        ck.oblige('theorem ' + t['name'], True, 'assumptions: ' + (', '.join(t['assumptions']) or 'closed under the global context'))
        ck.trusted.append('%s: %s' % (t['name'], ', '.join(t['assumptions']) or 'closed under the global context'))
    if pr['ok']:
        ba = axioms_ok(pr['theorems'])
        ck.oblige('only standard-library axioms', not ba, '; '.join(ba))
    if ck.tier == 'thorough' and pr['ok']:
        ok, out = coqchk('C08')
        ck.oblige('coqchk SV.Properties_C08', ok, out[-1500:])
    ck.oblige('harness kernels builds against /repo headers (-O1 -ffp-contract=off -DEIGEN_DONT_VECTORIZE)', okc, logc if not okc else '')
    okm, mexe, logm = build_ml()
    ck.oblige('extracted model builds', okm, logm if not okm else '')
    first_fail = None
    if okc:
        c = get_consts(exe)
        ck.oblige('constants (eps, near_0, cutoff, ...) read from the code', bool(c), '')
        if c and okm:
            lines = cbit_cases(rng, ck.tier, c) if replay is None or not replay.get('cbit') else replay['cbit']
            rc1, a, rc2, b = run_pair(exe, mexe, lines, 'setconsts ' + ' '.join(c))
            diff = [(l, x, y) for l, x, y in zip(lines, a, b) if x.strip() != y.strip()]
            by = {}
            for l in lines:
                by[l.split()[0]] = by.get(l.split()[0], 0) + 1
            for name in ('rot', 'hqr', 'tqr', 'dsqr'):
                d = [x for x in diff if x[0].startswith(name + ' ')]
                msg = ''
                if d:
                    xa, xb = d[0][1].split(), d[0][2].split()
                    pos = next((i for i, (p, q) in enumerate(zip(xa, xb)) if p != q), -1)
                    msg = 'case `%s...`: first differing output #%d impl=%s model=%s' % (d[0][0][:70], pos, xa[pos] if pos >= 0 and pos < len(xa) else '?', xb[pos] if pos >= 0 and pos < len(xb) else '?')
                ck.oblige('C-bit %s: implementation == model bit for bit (%d cases)' % (name, by.get(name, 0)),
                          rc1 == 0 and rc2 == 0 and len(a) == len(lines) and len(b) == len(lines) and not d, msg or 'rc=%s/%s' % (rc1, rc2))
            ck.coverage_extra['cbit_cases'] = by
            ck.broken_cbit = [d[0] for d in diff[:20]]
        # ---- the property's identities on the implementation (float, double, long double)
        pl = pred_cases(rng, ck.tier) if replay is None or not replay.get('pred') else replay['pred']
        extra = getattr(ck, 'broken_cbit', [])
        # inputs on which the correspondence disagreed are searched first
        for l in extra:
            t = l.split()
            if t[0] == 'hqr':
                n = int(t[1]); pl.insert(0, 'pred_hqr double %d %s %s' % (n, t[2], ' '.join(t[3:3 + n * n])))
            if t[0] == 'dsqr':
                n = int(t[1]); pl.insert(0, 'pred_dsqr double %d %s %s %s' % (n, t[2], t[3], ' '.join(t[4:4 + n * n])))
            if t[0] == 'tqr':
                n = int(t[1]); d_ = t[3:3 + n]; sub = t[3 + n:3 + 2 * n - 1]
                M = [['0000000000000000'] * n for _ in range(n)]
                for j in range(n):
                    M[j][j] = d_[j]
                    if j + 1 < n:
                        M[j][j + 1] = sub[j]; M[j + 1][j] = sub[j]
                pl.insert(0, 'pred_tqr double %d %s %s' % (n, t[2], ' '.join(x for col in M for x in col)))
        rc, out = run_lines(exe, pl)
        ck.oblige('predicate harness ran', rc == 0 and len(out) == len(pl), 'rc=%s %d/%d' % (rc, len(out), len(pl)))
        badp = []
        worst = 0.0
        for l, o in zip(pl, out):
            t = l.split(); f = o.split()
            n = int(t[2])
            ck.count(l, n >= 3)
            try:
                vals = [float(x) for x in f]
            except ValueError:
                badp.append((l, o)); continue
            eps = vals[-1]; tol = 50.0 * n * eps
            if t[0] in ('pred_hqr', 'pred_tqr'):
                names = ['|QR-(H-sI)|', '|Q\'Q-I|', '|Q\'HQ-matrix_QtHQ|', '|apply_* mutually consistent|']
                for k in range(4):
                    worst = max(worst, vals[k] / (n * eps))
                    if not (vals[k] <= tol):
                        badp.append((l, '%s = %.3g > 50 n eps' % (names[k], vals[k])))
                if f[4] != '1': badp.append((l, 'R not upper triangular'))
                if f[5] != '1': badp.append((l, 'Q\'HQ not Hessenberg/tridiagonal'))
                if f[6] != '1': badp.append((l, 'Q\'HQ not symmetric'))
            else:
                names = ['|Q\'Q-I|', '|Q\'HQ-matrix_QtHQ|', '|apply_QtY vs apply_YQ|', 'first column of Q not parallel to (H^2-sH+tI)e1']
                for k in range(4):
                    worst = max(worst, vals[k] / (n * eps))
                    lim = tol if k != 3 else 1e4 * n * eps
                    if not (vals[k] <= lim):
                        badp.append((l, '%s = %.3g' % (names[k], vals[k])))
                if f[4] != '1': badp.append((l, 'Q\'HQ not Hessenberg'))
        ck.oblige('identities of the property hold on the implementation within 50 n eps (%d cases, float/double/long double)' % len(pl), not badp,
                  'case `%s...` -> %s' % (badp[0][0][:80], badp[0][1]) if badp else '')
        ck.coverage_extra['worst_error_in_n_eps'] = round(worst, 3)
        if badp:
            first_fail = {'pred': [badp[0][0]], 'observed': badp[0][1], 'clause': 'QR identities to a small multiple of n eps (|H|+|s|)'}
        if pl and out:
            ck.sample({'case': pl[len(pl) // 2][:120] + '...', 'result': out[len(pl) // 2] if len(out) > len(pl) // 2 else None})
    ck.assumptions = ['exact-arithmetic theorems (any real closed field); the n*eps rounding bound is not proved - it is evaluated on the implementation (predicate slice)',
                      'C-bit covers double only; float and long double are covered by the predicate slice',
                      'Eigen numext::hypot modelled by its formula for finite arguments; pow only yields the constant cutoff, read from the code',
                      'TridiagQR / DoubleShiftQR: models tied bit for bit, global similarity theorems not yet proved (DESIGN.md)']
    if ck.broken() or first_fail:
        br = ck.broken()
        what = br[0][0] if br else 'property predicate failed on the implementation'
        if first_fail:
            ck.violation(what, dict(first_fail, broken=[b[0] + ': ' + b[2][:400] for b in br]), True)
        else:
            ck.violation(what, {'broken': [b[0] + ': ' + b[2][:1500] for b in br], 'cbit': [x for x in getattr(ck, 'broken_cbit', [])[:3]]}, False)
