"""C09 - small dense eigen-decompositions are backward stable with exact pairing."""
import concurrent.futures as cf
from common import *
from kern_common import *

TRI_KINDS = ['random', 'integer', 'graded', 'zerosub', 'repeated', 'wilkinson', 'zero', 'tiny', 'huge', 'nearzero', 'e2underflow']
HESS_KINDS = ['random', 'integer', 'graded', 'deflated', 'companion', 'jordan', 'rotation', 'zero', 'smallscale', 'bigscale', 'symmetric', 'tieblock', 'samereal']


def tri_case(rng, n, kind, eps):
    d = [rnd(rng) for _ in range(n)]; sd = [rnd(rng) for _ in range(n - 1)]
    if kind == 'integer':
        d = [float(rng.range(-3, 3)) for _ in range(n)]; sd = [float(rng.range(-2, 2)) for _ in range(n - 1)]
    elif kind == 'graded':
        d = [rnd(rng) * 10.0 ** (-rng.range(0, 12)) for _ in range(n)]; sd = [rnd(rng) * 10.0 ** (-rng.range(0, 12)) for _ in range(n - 1)]
    elif kind == 'zerosub':
        sd = [0.0 if rng.below(3) == 0 else v for v in sd]
    elif kind == 'repeated':
        d = [2.0] * n; sd = [rng.choice([0.0, 1.0, 1e-9]) for _ in range(n - 1)]
    elif kind == 'wilkinson':
        m = (n - 1) / 2.0
        d = [abs(i - m) for i in range(n)]; sd = [1.0] * (n - 1)
    elif kind == 'zero':
        d = [0.0] * n; sd = [0.0] * (n - 1)
    elif kind == 'tiny':
        d = [v * 1e-290 for v in d]; sd = [v * 1e-290 for v in sd]
    elif kind == 'huge':
        d = [v * 1e150 for v in d]; sd = [v * 1e150 for v in sd]
    elif kind == 'e2underflow':   # last sub-diagonal entry e with e*e == 0 in binary64 but not deflated (the last two diagonal entries are smaller still):
        # the branch of the Wilkinson shift that avoids e^2 (found never executed by a coverage run of the harness inputs)
        sd[n - 2] = rnd(rng) * 10.0 ** (-rng.range(163, 165))
        d[n - 1] = rnd(rng) * 10.0 ** (-rng.range(300, 305)); d[n - 2] = rnd(rng) * 10.0 ** (-rng.range(300, 305))
    elif kind == 'nearzero':      # sub-diagonals at the deflation threshold eps * sqrt(|d_i| + |d_i+1|) +- a few ulp
        sd = [ulp_step(eps * math.sqrt(abs(d[i]) + abs(d[i + 1])), rng.range(-3, 3)) * (1 if rng.below(2) else -1) if rng.below(2) else sd[i] for i in range(n - 1)]
    return d, sd


def hess_case(rng, n, kind):
    if kind in ('random', 'integer', 'graded', 'deflated'):
        return hess_matrix(rng, n, kind)
    H = [[0.0] * n for _ in range(n)]       # H[j][i] = entry (i, j)
    if kind == 'companion':
        for j in range(n - 1):
            H[j][j + 1] = 1.0
        for i in range(n):
            H[n - 1][i] = float(rng.range(-3, 3)) if rng.below(2) else rnd(rng)
    elif kind == 'jordan':                   # defective: one eigenvalue, ones on the super-diagonal, small sub-diagonal perturbation or none
        lam = float(rng.range(-2, 2))
        for j in range(n):
            H[j][j] = lam
            if j + 1 < n:
                H[j + 1][j] = 1.0
                H[j][j + 1] = rng.choice([0.0, 0.0, 1e-12])
    elif kind == 'rotation':                 # 2x2 rotation-like blocks: complex pairs, repeated pairs
        th = rnd(rng)
        for j in range(0, n - 1, 2):
            a = rng.choice([th, rnd(rng)])
            H[j][j] = math.cos(a); H[j + 1][j + 1] = math.cos(a); H[j + 1][j] = -math.sin(a); H[j][j + 1] = math.sin(a)
            if j + 2 < n:
                H[j + 2][j + 1] = rng.choice([0.0, rnd(rng)])
        if n % 2:
            H[n - 1][n - 1] = rnd(rng)
    elif kind == 'tieblock':
        # 2x2 diagonal blocks [a b; c d] with c != 0 and ((a - d)/2)^2 + b c == 0 EXACTLY (a repeated, defective real eigenvalue with
        # exactly representable data), cut off by exact zero sub-diagonals, at a power-of-two scale; the rest random
        H = hess_matrix(rng, n, 'random'); sc = 2.0 ** rng.range(-3, 3)
        j = rng.below(2)
        while j + 1 < n:
            h = float(rng.range(1, 3)) * (1 if rng.below(2) else -1); d = float(rng.range(-3, 3)); a = d + 2 * h
            b, c = (h, -h) if rng.below(2) else (h * h, -1.0)
            H[j][j] = a * sc; H[j + 1][j + 1] = d * sc; H[j + 1][j] = b * sc; H[j][j + 1] = c * sc      # H[col][row]
            if j + 2 < n:
                H[j + 1][j + 2] = 0.0
            if j > 0:
                H[j - 1][j] = 0.0
            j += 2 + rng.below(3)
    elif kind == 'samereal':
        # block upper triangular with 2x2 blocks [a -b_k; b_k a]: several DIFFERENT complex pairs with bit-for-bit equal real parts, exact zero
        # sub-diagonals between the blocks, random coupling above them
        H = hess_matrix(rng, n, 'random'); a = float(rng.range(-2, 2))
        for j in range(n):
            for i in range(j + 1, n):
                H[j][i] = 0.0
        for q, j in enumerate(range(0, n - 1, 2)):
            b = float(q + 1) * rng.choice([1.0, 2.0, 0.5])
            H[j][j] = a; H[j + 1][j + 1] = a; H[j + 1][j] = -b; H[j][j + 1] = b      # H[col][row]
        if n % 2:
            H[n - 1][n - 1] = float(rng.range(-3, 3))
    elif kind == 'zero':
        pass
    elif kind in ('smallscale', 'bigscale'):
        H = hess_matrix(rng, n, 'random'); f = 1e-140 if kind == 'smallscale' else 1e140
        H = [[v * f for v in col] for col in H]
    elif kind == 'symmetric':
        for j in range(n):
            H[j][j] = rnd(rng)
            if j + 1 < n:
                v = rnd(rng); H[j][j + 1] = v; H[j + 1][j] = v
    return H


def run(ck, replay=None):
    rng = Rng(ck.seed)
    ck.rule = ('C-bit: TridiagEigen<double> (eigenvalues, eigenvectors or the thrown exception) on 10 tridiagonal families (random, integer, graded over 12 decades, '
               'exact zero sub-diagonals, repeated eigenvalues, Wilkinson, zero, 1e-290 / 1e150 scalings, sub-diagonals at the deflation threshold +-3 ulp), n = 2..24; '
               'UpperHessenbergSchur<double>: T, U or the exception of the complete Francis iteration (exceptional shifts, 2x2 splitting, reflector kernels) on the 13 Hessenberg families, bit for bit; UpperHessenbergEigen<double>: eigenvalues recomputed by the model from the Schur factor T and the scale, compared as bit patterns; predicate slice: '
               'T Z = Z D, Z\'Z = I, U T U\' = H, U\'U = I, T quasi-triangular with complex-pair 2x2 blocks only, unit-norm eigenpairs with small residual, value conventions, '
               'in float/double/long double on 13 Hessenberg families (random, integer, graded, deflated, companion, Jordan-like defective, rotation blocks with repeated '
               'pairs, zero, 1e-140 / 1e140 scalings, symmetric, isolated 2x2 blocks with an exactly zero discriminant, several complex pairs with exactly equal real parts), n = 2..64; non-trivial = n >= 3; distinct by case line')
    bad = grep_gate()
    ck.oblige('no Admitted/Axiom/Parameter/disabled checks in the development', not bad, '; '.join(bad))
    with cf.ThreadPoolExecutor(3) as ex:
        f_pr = ex.submit(coq_property, 'C09')
        f_c = ex.submit(build_cpp, 'kernels')
        pr = f_pr.result(); okc, exe, logc = f_c.result()
    ck.oblige('Properties_C09.v checks (coqc)', pr['ok'], pr['log'][-1500:] if not pr['ok'] else '')
    for t in pr['theorems']:
        ck.oblige('theorem ' + t['name'], True, 'assumptions: ' + (', '.join(t['assumptions']) or 'closed under the global context'))
        ck.trusted.append('%s: %s' % (t['name'], ', '.join(t['assumptions']) or 'closed under the global context'))
    if pr['ok']:
        ba = axioms_ok(pr['theorems'])
        ck.oblige('only standard-library axioms', not ba, '; '.join(ba))
    if ck.tier == 'thorough' and pr['ok']:
        ok, out = coqchk('C09')
        ck.oblige('coqchk SV.Properties_C09', ok, out[-1500:])
    ck.oblige('harness kernels builds against /repo headers (-O1 -ffp-contract=off -DEIGEN_DONT_VECTORIZE)', okc, logc if not okc else '')
    okm, mexe, logm = build_ml()
    ck.oblige('extracted model builds', okm, logm if not okm else '')
    first_fail = None
    broken_inputs = []
    if okc:
        c = get_consts(exe)
        ck.oblige('constants (eps, min, ...) read from the code', bool(c), '')
        eps = unhx(c[0]) if c else 2.0 ** -52
        if c and okm:
            # ---- TridiagEigen bit for bit
            per = 12 if ck.tier == 'quick' else 400
            lines = []
            for kind in TRI_KINDS:
                for rep in range(per):
                    n = rng.range(2, 12 if ck.tier == 'quick' else 24)
                    d, sd = tri_case(rng, n, kind, eps)
                    lines.append('teig %d %s %s' % (n, ' '.join(map(hx, d)), ' '.join(map(hx, sd))))
            if replay and replay.get('cbit'):
                lines = [l for l in replay['cbit'] if l.startswith('teig')]
            rc1, a, rc2, b = run_pair(exe, mexe, lines, 'setconsts ' + ' '.join(c))
            diff = [(l, x, y) for l, x, y in zip(lines, a, b) if x.strip() != y.strip()]
            msg = ''
            if diff:
                xa, xb = diff[0][1].split(), diff[0][2].split()
                pos = next((i for i, (p, q) in enumerate(zip(xa, xb)) if p != q), -1)
                msg = 'case `%s...`: first differing output #%d impl=%s model=%s' % (diff[0][0][:70], pos, xa[pos] if 0 <= pos < len(xa) else '?', xb[pos] if 0 <= pos < len(xb) else '?')
            ck.oblige('C-bit teig: TridiagEigen<double> == model bit for bit (%d cases)' % len(lines),
                      rc1 == 0 and rc2 == 0 and len(a) == len(lines) and len(b) == len(lines) and not diff, msg or 'rc=%s/%s' % (rc1, rc2))
            for l in lines:
                ck.count(l, int(l.split()[1]) >= 3)
            ck.coverage_extra['teig_throws'] = sum(1 for x in a if x.strip() == 'throw')
            for l, x, y in diff[:10]:
                t = l.split(); n = int(t[1]); d = t[2:2 + n]; sd = t[2 + n:2 + 2 * n - 1]
                M = [['0000000000000000'] * n for _ in range(n)]
                for j in range(n):
                    M[j][j] = d[j]
                    if j + 1 < n:
                        M[j][j + 1] = sd[j]
                broken_inputs.append('pred_eig double %d %s' % (n, ' '.join(v for col in M for v in col)))
            # ---- UpperHessenbergEigen: eigenvalues from T and the scale
            hl = []
            for kind in HESS_KINDS:
                for rep in range(per):
                    n = rng.range(2, 12 if ck.tier == 'quick' else 24)
                    H = hess_case(rng, n, kind)
                    hl.append('heig %d %s' % (n, ' '.join(map(hx, flat(H)))))
            if replay and replay.get('cbit'):
                hl = [l for l in replay['cbit'] if l.startswith('heig')]
            rc1, a = run_lines(exe, hl)
            ml, idx = [], []
            for i, (l, x) in enumerate(zip(hl, a)):
                f = x.split(); n = int(l.split()[1])
                if len(f) == 1 + n * n + 2 * n:
                    ml.append('m_heig %d %s %s' % (n, f[0], ' '.join(f[1:1 + n * n]))); idx.append(i)
            rc2, b = run_lines(mexe, ['setconsts ' + ' '.join(c)] + ml)
            b = b[1:]
            dh = []
            for k, i in enumerate(idx):
                n = int(hl[i].split()[1])
                impl = canon_nan(' '.join(a[i].split()[1 + n * n:]))
                mod = canon_nan(b[k].strip()) if k < len(b) else '?'
                if impl != mod:
                    dh.append((hl[i], impl, mod))
            nthrow = sum(1 for x in a if x.strip() == 'throw')
            ck.oblige('C-bit heig: eigenvalues of UpperHessenbergEigen<double> == model applied to its Schur factor, bit for bit (%d cases, %d threw)' % (len(hl), nthrow),
                      rc1 == 0 and rc2 == 0 and len(a) == len(hl) and len(idx) + nthrow == len(hl) and not dh,
                      'case `%s...`: impl %s model %s' % (dh[0][0][:70], dh[0][1][:100], dh[0][2][:100]) if dh else 'rc=%s/%s %d+%d/%d' % (rc1, rc2, len(idx), nthrow, len(hl)))
            for l in hl:
                ck.count(l, int(l.split()[1]) >= 3)
            for l, x, y in dh[:10]:
                broken_inputs.append('pred_eig double ' + l.split(' ', 1)[1])
        # ---- UpperHessenbergSchur bit for bit (T, U, or the thrown exception)
        if c and okm:
            per = 5 if ck.tier == 'quick' else 150
            sl = []
            # two more families for the tie only (not for the predicate: 'tiny' is outside the property's scaling range): perturbed cyclic shifts stagnate
            # under the standard shifts and take Wilkinson's exceptional shift (iter == 10), entries around 1e-100..1e-160 reach MATLAB's one (iter == 30)
            for kind in HESS_KINDS + ['cyclic', 'tiny']:
                for rep in range(per):
                    n = rng.range(2, 12 if ck.tier == 'quick' else 32)
                    if kind == 'cyclic':
                        n = max(n, 3); H = [[0.0] * n for _ in range(n)]; sc = 2.0 ** rng.range(-2, 2)
                        for j in range(n - 1):
                            H[j][j + 1] = sc
                        H[n - 1][0] = sc * (1 if rng.below(2) else -1)
                        e = 0.0 if rng.below(3) == 0 else 10.0 ** (-rng.range(1, 12))
                        for j in range(n):
                            for i in range(min(n, j + 2)):
                                if e and rng.below(3) == 0:
                                    H[j][i] += e * rnd(rng)
                    elif kind == 'tiny':
                        n = min(n, 8); H = hess_case(rng, n, 'random'); f = 10.0 ** (-rng.range(100, 160)); H = [[v * f for v in col] for col in H]
                    else:
                        H = hess_case(rng, n, kind)
                    sl.append('schur %d %s' % (n, ' '.join(map(hx, flat(H)))))
            if replay and replay.get('cbit'):
                sl = [l for l in replay['cbit'] if l.startswith('schur')]
            rc1, a, rc2, b = run_pair(exe, mexe, sl, 'setconsts ' + ' '.join(c))
            ds = [(l, x, y) for l, x, y in zip(sl, a, b) if canon_nan(x.strip()) != canon_nan(y.strip())]
            msg = ''
            if ds:
                xa, xb = ds[0][1].split(), ds[0][2].split()
                pos = next((i for i, (p, q) in enumerate(zip(xa, xb)) if p != q), -1)
                msg = 'case `%s...`: first differing output #%d impl=%s model=%s' % (ds[0][0][:70], pos, xa[pos] if 0 <= pos < len(xa) else '?', xb[pos] if 0 <= pos < len(xb) else '?')
            nthrow = sum(1 for x in a if x.strip() == 'throw')
            ck.oblige('C-bit schur: UpperHessenbergSchur<double> (matrix_T, matrix_U, or the thrown exception) == model bit for bit (%d cases, %d threw)' % (len(sl), nthrow),
                      rc1 == 0 and rc2 == 0 and len(a) == len(sl) and len(b) == len(sl) and not ds, msg or 'rc=%s/%s' % (rc1, rc2))
            ck.coverage_extra['schur_throws'] = nthrow
            for l in sl:
                ck.count(l, int(l.split()[1]) >= 3)
            for l, x, y in ds[:10]:
                broken_inputs.append('pred_eig double ' + l.split(' ', 1)[1])
        # ---- the property's identities on the implementation
        per = 5 if ck.tier == 'quick' else 120
        nmax = 32 if ck.tier == 'quick' else 64
        pl = list(broken_inputs)
        for ty in ('double', 'float', 'ldouble'):
            for kind in HESS_KINDS:
                for rep in range(per):
                    n = rng.range(2, nmax) if rep % 3 else rng.range(2, 5)
                    H = hess_case(rng, n, kind)
                    if ty == 'float':
                        if kind in ('smallscale', 'bigscale'):
                            H = [[v * (1e125 if kind == 'smallscale' else 1e-125) for v in col] for col in H]     # 1e-15 / 1e15 in float
                        H = [[v if abs(v) < 1e30 else 1.0 for v in col] for col in H]
                    pl.append('pred_eig %s %d %s' % (ty, n, ' '.join(map(hx, flat(H)))))
        if replay and replay.get('pred'):
            pl = replay['pred']
        rc, out = run_lines(exe, pl)
        ck.oblige('predicate harness ran', rc == 0 and len(out) == len(pl), 'rc=%s %d/%d' % (rc, len(out), len(pl)))
        badp = []; worst = {'T': 0.0, 'S': 0.0, 'E': 0.0}; throws = {'T': 0, 'S': 0, 'E': 0}
        C_T, C_S, C_E = 30.0, 30.0, 1000.0
        known = [f for f in load_known().get('findings', []) if f.get('property') == 'C09' and f.get('id') == 'F4']
        wstate = {}

        k10 = [f for f in load_known().get('findings', []) if f.get('property') == 'C09' and f.get('id') == 'F10']
        w10 = {}

        def known_f10(t, ratio, sep):
            """F10 (near-defective pair): classifier on this case + the listed witness must still fail"""
            if not k10:
                return False
            sq = {'float': 2.0 ** -11.5, 'double': 2.0 ** -26, 'ldouble': 2.0 ** -31.5}[t[1]]
            if not (sep < 1e3 * sq and ratio < 1e4):
                return False
            if 'ok' not in w10:
                rcw, ow = run_lines(exe, [k10[0]['witness']])
                try:
                    fw = ow[0].split(); i = fw.index('E'); w10['ok'] = fw[i + 1] != 'throw' and float(fw[i + 1]) > C_E
                except Exception:
                    w10['ok'] = False
            if not w10['ok']:
                return False
            msg = 'F10 near-defective eigenvalue pair: eigenvector residual of UpperHessenbergEigen ~1e3 n eps |H| (witness: float, n=57, isolated 2x2 blocks with zero discriminant: 1.29e3 n eps)'
            if msg not in ck.known_hits:
                ck.known_hits.append(msg)
            return True

        def known_f4(t, E_, C_E):
            """F4: attributed only if the classifier holds for this case and the listed witness still fails"""
            if not known:
                return False
            tiny, eps_t = {'float': (2.0 ** -126, 2.0 ** -23), 'double': (2.0 ** -1022, 2.0 ** -52), 'ldouble': (2.0 ** -16382 if False else 0.0, 2.0 ** -63)}[t[1]]
            mx = max(abs(unhx(w)) for w in t[3:])
            if not (0.0 < mx and mx ** 3 < tiny / eps_t):
                return False
            if E_[0] == 'throw' or not (float(E_[0]) <= C_E and float(E_[1]) <= 30.0 and E_[2] == '1' and E_[3] == '1'):
                return False
            if 'ok' not in wstate:
                rcw, ow = run_lines(exe, [known[0]['witness']])
                try:
                    fw = ow[0].split(); i = fw.index('S')
                    wstate['ok'] = fw[i + 1] != 'throw' and (float(fw[i + 1]) > C_S or float(fw[i + 2]) > C_S)
                except Exception:
                    wstate['ok'] = False
            if not wstate['ok']:
                return False
            msg = 'F4 UpperHessenbergSchur called directly on a matrix whose entries\' cubes underflow returns inaccurate factors (witness: float, n=6, entries ~1e-15: |U T U\' - H| = 905 n eps |H|)'
            if msg not in ck.known_hits:
                ck.known_hits.append(msg)
            return True
        for l, o_ in zip(pl, out):
            t = l.split(); n = int(t[2]); f = o_.split()
            ck.count(l, n >= 3)
            try:
                iT, iS, iE = f.index('T'), f.index('S'), f.index('E')
            except ValueError:
                badp.append((l, 'no output: ' + o_[:100])); continue
            T_, S_, E_ = f[iT + 1:iS], f[iS + 1:iE], f[iE + 1:]
            if T_[0] == 'throw':
                throws['T'] += 1
            else:
                v = [float(x) for x in T_[:2]]; worst['T'] = max(worst['T'], v[0], v[1])
                if not (v[0] <= C_T): badp.append((l, 'TridiagEigen: |T Z - Z D| = %.3g n eps |T|' % v[0]))
                if not (v[1] <= C_T): badp.append((l, 'TridiagEigen: |Z\'Z - I| = %.3g n eps' % v[1]))
                if T_[2] != '1': badp.append((l, 'TridiagEigen returned NaN eigenvalues'))
            if S_[0] == 'throw':
                throws['S'] += 1
            else:
                v = [float(x) for x in S_[:2]]
                if not (v[0] <= C_S and v[1] <= C_S) and known_f4(t, E_, C_E):
                    pass          # known finding F4 (direct Schur call, cube underflow); still a violation if the witness no longer fails
                else:
                    worst['S'] = max(worst['S'], v[0], v[1])
                    if not (v[0] <= C_S): badp.append((l, 'Schur: |U T U\' - H| = %.3g n eps |H|' % v[0]))
                    if not (v[1] <= C_S): badp.append((l, 'Schur: |U\'U - I| = %.3g n eps' % v[1]))
                if S_[2] != '1': badp.append((l, 'Schur: T is not quasi-upper-triangular'))
                if S_[3] != '1': badp.append((l, 'Schur: a 2x2 diagonal block of T has real eigenvalues (it should have been split)'))
            if E_[0] == 'throw':
                throws['E'] += 1
            else:
                v = [float(x) for x in E_[:2]]; worst['E'] = max(worst['E'], v[0])
                if not (v[0] <= C_E) and not known_f10(t, v[0], float(E_[4]) if len(E_) > 4 else 1.0):
                    badp.append((l, 'UpperHessenbergEigen: max |H x - lambda x| = %.3g n eps |H|' % v[0]))
                if not (v[1] <= 30.0): badp.append((l, 'UpperHessenbergEigen: eigenvector norm differs from 1 by %.3g n eps' % v[1]))
                if E_[2] != '1': badp.append((l, 'value conventions broken: real values with zero imaginary part, complex ones as adjacent exact conjugates, positive imaginary part first'))
                if E_[3] != '1': badp.append((l, 'UpperHessenbergEigen returned NaN'))
            if t[1] != 'float' and 'throw' in (T_[0], S_[0], E_[0]) and all(unhx(w) == 0.0 for w in t[3:]):
                badp.append((l, 'the zero matrix made the decomposition throw'))
        ck.oblige('identities of the property hold on the implementation (%d cases, float/double/long double; thrown: %s)' % (len(pl), throws), not badp,
                  'case `%s...` -> %s' % (badp[0][0][:80], badp[0][1]) if badp else '')
        ck.coverage_extra['worst_error_in_n_eps'] = {k: round(v, 3) for k, v in worst.items()}
        ck.coverage_extra['iteration_limit_exceptions'] = throws
        if badp:
            first_fail = {'pred': [badp[0][0]], 'observed': badp[0][1], 'clause': 'backward-stable decompositions with exact value conventions'}
        if pl and out:
            ck.sample({'case': pl[len(pl) // 2][:120] + '...', 'result': out[len(pl) // 2] if len(out) > len(pl) // 2 else None})
    ck.assumptions = ['the n*eps backward-error bounds are floating-point statements: evaluated on the implementation (predicate slice), not proved',
                      'C-bit covers TridiagEigen<double> and UpperHessenbergSchur<double> completely (scalar path of the reflector kernels: -DEIGEN_DONT_VECTORIZE) and the eigenvalue '
                      'extraction / scaling of UpperHessenbergEigen<double>; the eigenvector back-substitution (which uses std::complex division) is covered by the predicate slice only',
                      'an exception at the iteration limit is an allowed outcome; the number seen is recorded in the evidence']
    if ck.broken() or first_fail:
        br = ck.broken()
        what = br[0][0] if br else 'property predicate failed on the implementation'
        if first_fail:
            ck.violation(what, dict(first_fail, broken=[b[0] + ': ' + b[2][:400] for b in br]), True)
        else:
            ck.violation(what, {'broken': [b[0] + ': ' + b[2][:1500] for b in br], 'cbit': broken_inputs[:3]}, False)
