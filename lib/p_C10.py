"""C10 - Bunch-Kaufman LDLT solves every nonsingular symmetric/Hermitian shifted system."""
import concurrent.futures as cf
from fractions import Fraction
from common import *
from kern_common import *

FAMS = ['posdef', 'indef', 'zerodiag', 'blockdiag', 'graded', 'integer', 'singular', 'arrow', 'dyadic']
DYADIC = [0.0, 0.25, -0.25, 0.5, -0.5, 1.0, -1.0, 2.0, -2.0, 4.0, -4.0]


def sym_matrix(rng, n, fam):
    """full symmetric n x n matrix as rows (= columns)"""
    A = [[0.0] * n for _ in range(n)]
    if fam == 'posdef':
        G = [[float(rng.range(-2, 2)) for _ in range(n)] for _ in range(n)]
        for i in range(n):
            for j in range(n):
                A[i][j] = sum(G[i][k] * G[j][k] for k in range(n)) + (1.0 if i == j else 0.0)
    elif fam == 'blockdiag':
        i = 0
        while i < n:
            if i + 1 < n and rng.below(3) != 0:
                a = float(rng.range(1, 4)) * (1 if rng.below(2) else -1)
                if rng.below(2):
                    A[i][i + 1] = A[i + 1][i] = a                       # [0 a; a 0]
                else:
                    A[i][i] = rnd(rng); A[i + 1][i + 1] = rnd(rng); A[i][i + 1] = A[i + 1][i] = 2.0 + rnd(rng)
                i += 2
            else:
                A[i][i] = float(rng.range(1, 5)) * (1 if rng.below(2) else -1); i += 1
    else:
        for i in range(n):
            for j in range(i + 1):
                if fam in ('integer', 'singular'):
                    v = float(rng.range(-3, 3))
                elif fam == 'dyadic':      # candidate pivots whose 2x2 blocks are singular unless the strategy looks at a_rr
                    v = DYADIC[rng.below(len(DYADIC))]
                elif fam == 'graded':
                    v = rnd(rng) * 10.0 ** (-(i + j) * rng.range(0, 2))
                elif fam == 'arrow':
                    v = rnd(rng) if (j == 0 or i == j or i == n - 1) else 0.0
                else:
                    v = rnd(rng)
                if fam == 'zerodiag' and i == j:
                    v = 0.0
                A[i][j] = A[j][i] = v
        if fam == 'singular' and n >= 2:
            p, q = rng.below(n), rng.below(n)
            if p != q:
                for j in range(n):
                    A[p][j] = A[q][j]
                for j in range(n):
                    A[j][p] = A[p][j]
                A[p][p] = A[q][q] = A[p][q]
    return A


def pick_shift(rng, A, fam, rep):
    n = len(A)
    k = rep % 6
    if k == 0: return 0.0
    if k == 1: return A[rng.below(n)][rng.below(n)] if fam != 'zerodiag' else 0.0   # equal to an entry (a diagonal one for i == j)
    if k == 2: return A[rng.below(n)][rng.below(n) if False else rng.below(n)]
    if k == 3:
        i = rng.below(n); return ulp_step(A[i][i], rng.range(-3, 3)) if A[i][i] != 0.0 else 2.0 ** -30
    if k == 4: return float(rng.range(-3, 3))
    return rnd(rng)


def exact_check(A, shift, x, b):
    """exact rational arithmetic on the doubles: (nonsingular?, residual ratio in units of n eps (|A-sI| |x| + |b|), inf-norms)"""
    n = len(A)
    M = [[Fraction(A[i][j]) - (Fraction(shift) if i == j else 0) for j in range(n)] for i in range(n)]
    ratio = None
    if x is not None:
        xs = [Fraction(v) for v in x]; bs = [Fraction(v) for v in b]
        res = max(abs(sum(M[i][j] * xs[j] for j in range(n)) - bs[i]) for i in range(n))
        nA = max(sum(abs(v) for v in row) for row in M); nx = max(abs(v) for v in xs); nb = max(abs(v) for v in bs)
        den = Fraction(n) * Fraction(2.0 ** -52) * (nA * nx + nb)
        ratio = float(res / den) if den != 0 else (0.0 if res == 0 else float('inf'))
    # exact determinant test by fraction elimination
    W = [row[:] for row in M]; nonsing = True
    for c in range(n):
        p = next((r for r in range(c, n) if W[r][c] != 0), None)
        if p is None:
            nonsing = False; break
        W[c], W[p] = W[p], W[c]
        for r in range(c + 1, n):
            if W[r][c] != 0:
                f = W[r][c] / W[c][c]
                for cc in range(c, n):
                    W[r][cc] -= f * W[c][cc]
    return nonsing, ratio


def cbit_cases(rng, tier):
    cases = []
    per = 10 if tier == 'quick' else 150
    nmax = 9 if tier == 'quick' else 12
    for fam in FAMS:
        for rep in range(per):
            n = rng.range(1, nmax) if rep % 5 else rng.range(1, 3)
            A = sym_matrix(rng, n, fam)
            shift = pick_shift(rng, A, fam, rep)
            b = [float(rng.range(-4, 4)) if rep % 2 else rnd(rng) for _ in range(n)]
            if all(v == 0.0 for v in b): b[0] = 1.0
            ul = 'LU'[rep % 2]; rm = (rep // 2) % 2
            # the other triangle is garbage: it must not be read
            S = [row[:] for row in A]
            for i in range(n):
                for j in range(n):
                    if (ul == 'L' and i < j) or (ul == 'U' and i > j):
                        S[i][j] = 1e3 + i - j
            cols = [[S[i][j] for i in range(n)] for j in range(n)]
            line = 'bk %d %s %s %d %s %s' % (n, hx(shift), ul, rm, ' '.join(map(hx, flat(cols))), ' '.join(map(hx, b)))
            cases.append((line, fam, A, shift, b))
    return cases


def pred_cases(rng, tier):
    lines = []
    per = 6 if tier == 'quick' else 60
    nmax = 40 if tier == 'quick' else 80
    for ty in ('double', 'cdouble', 'float', 'ldouble'):
        for fam in FAMS:
            for rep in range(per):
                n = rng.range(1, nmax) if rep % 3 else rng.range(1, 4)
                if fam == 'posdef': n = min(n, 24)
                A = sym_matrix(rng, n, fam)
                if ty == 'float':
                    A = [[struct.unpack('>f', struct.pack('>f', v))[0] for v in row] for row in A]
                Im = [[0.0] * n for _ in range(n)]
                if ty == 'cdouble':
                    for i in range(n):
                        for j in range(i):
                            if fam == 'arrow' and A[i][j] == 0.0: continue
                            v = float(rng.range(-2, 2)) if fam in ('integer', 'singular', 'posdef', 'blockdiag') else rnd(rng)
                            Im[i][j] = v; Im[j][i] = -v
                shift = pick_shift(rng, A, fam, rep)
                if ty == 'float':
                    shift = struct.unpack('>f', struct.pack('>f', shift))[0]
                lines.append(('pred_bk %s %d %s %s %s' % (ty, n, hx(shift), ' '.join(hx(A[i][j]) for j in range(n) for i in range(n)),
                                                         ' '.join(hx(Im[i][j]) for j in range(n) for i in range(n))), fam))
    return lines


C_BOUND = 50.0     # the constant c of the residual bound (worst observed on the unchanged tree is recorded in the evidence)


def run(ck, replay=None):
    rng = Rng(ck.seed)
    ck.rule = ('C-bit: BKLDLT<double> on 9 matrix families (positive definite, indefinite, zero diagonal, block diagonal with [0 a; a 0] blocks, graded, dyadic 0, +-1/4 .. +-4, '
               'integer, exactly singular, arrow), n = 1..12, shifts 0 / equal to entries / +-3 ulp of a diagonal entry / integer / random, lower and upper '
               'triangle (other triangle garbage), column- and row-major: status, permutation, every packed entry and the solution compared as bit patterns '
               'with the extracted model; on the same cases the residual bound and nonsingular => Successful are decided in exact rational arithmetic; '
               'predicate slice n = 1..80 in double / complex<double> / float / long double: four variants (triangle x storage order) agree bitwise, '
               'residual in long double, wrappers throw iff not Successful; non-trivial = n >= 3; distinct by case line')
    bad = grep_gate()
    ck.oblige('no Admitted/Axiom/Parameter/disabled checks in the development', not bad, '; '.join(bad))
    with cf.ThreadPoolExecutor(3) as ex:
        f_pr = ex.submit(coq_property, 'C10')
        f_c = ex.submit(build_cpp, 'kernels')
        pr = f_pr.result(); okc, exe, logc = f_c.result()
    ck.oblige('Properties_C10.v checks (coqc)', pr['ok'], pr['log'][-1500:] if not pr['ok'] else '')
    for t in pr['theorems']:
        ck.oblige('theorem ' + t['name'], True, 'assumptions: ' + (', '.join(t['assumptions']) or 'closed under the global context'))
        ck.trusted.append('%s: %s' % (t['name'], ', '.join(t['assumptions']) or 'closed under the global context'))
    if pr['ok']:
        ba = axioms_ok(pr['theorems'])
        ck.oblige('only standard-library axioms', not ba, '; '.join(ba))
    if ck.tier == 'thorough' and pr['ok']:
        ok, out = coqchk('C10')
        ck.oblige('coqchk SV.Properties_C10', ok, out[-1500:])
    ck.oblige('harness kernels builds against /repo headers (-O1 -ffp-contract=off -DEIGEN_DONT_VECTORIZE)', okc, logc if not okc else '')
    okm, mexe, logm = build_ml()
    ck.oblige('extracted model builds', okm, logm if not okm else '')
    first_fail = None
    if okc:
        c = get_consts(exe)
        ck.oblige('constants (eps, ..., Bunch-Kaufman alpha) read from the code', bool(c) and len(c) >= 7, '')
        cases = cbit_cases(rng, ck.tier)
        if replay and replay.get('cbit'):
            cases = [(l, 'replay', None, None, None) for l in replay['cbit']]
        lines = [x[0] for x in cases]
        if c and okm:
            rc1, a, rc2, b = run_pair(exe, mexe, lines, 'setconsts ' + ' '.join(c))
            diff = [(l, x, y) for l, x, y in zip(lines, a, b) if x.strip() != y.strip()]
            msg = ''
            if diff:
                xa, xb = diff[0][1].split(), diff[0][2].split()
                pos = next((i for i, (p, q) in enumerate(zip(xa, xb)) if p != q), -1)
                msg = 'case `%s...`: first differing output #%d impl=%s model=%s' % (diff[0][0][:70], pos, xa[pos] if 0 <= pos < len(xa) else '?', xb[pos] if 0 <= pos < len(xb) else '?')
            ck.oblige('C-bit bk: implementation == model bit for bit (%d cases)' % len(lines),
                      rc1 == 0 and rc2 == 0 and len(a) == len(lines) and len(b) == len(lines) and not diff, msg or 'rc=%s/%s' % (rc1, rc2))
            ck.broken_cbit = [d[0] for d in diff[:20]]
        else:
            rc1, a = run_lines(exe, lines); a = [canon_nan(x) for x in a]
        # ---- exact rational decision of the property on the implementation's outputs
        worst = 0.0; badp = []; stats = {'success': 0, 'numerical_issue': 0, 'two_by_two': 0, 'interchanged': 0, 'nonsingular': 0}
        for (l, fam, A, shift, bb), o in zip(cases, a):
            t = l.split(); n = int(t[1]); f = o.split()
            if A is None:     # replayed line: rebuild the symmetric matrix from the triangle that is read
                vals = [unhx(w) for w in t[5:5 + n * n]]; ul = t[3]
                A = [[0.0] * n for _ in range(n)]
                for j in range(n):
                    for i in range(n):
                        if (ul == 'L' and i >= j) or (ul == 'U' and i <= j):
                            A[i][j] = A[j][i] = vals[j * n + i]
                shift = unhx(t[2]); bb = [unhx(w) for w in t[5 + n * n:5 + n * n + n]]
            ck.count(l, n >= 3)
            if not f:
                badp.append((l, 'no output')); continue
            info = int(f[0]); perm = [int(v) for v in f[1:1 + n]]
            if any(p < 0 for p in perm): stats['two_by_two'] += 1
            if any(p >= 0 and p != i for i, p in enumerate(perm)): stats['interchanged'] += 1
            x = None
            if info == 0:
                stats['success'] += 1
                x = [unhx(w) for w in f[-n:]]
                if any(v != v or abs(v) == float('inf') for v in x):
                    x = None; badp.append((l, 'Successful but the solution is not finite'))
            elif info == 3:
                stats['numerical_issue'] += 1
            else:
                badp.append((l, 'status %d is neither Successful nor NumericalIssue' % info))
            nonsing, ratio = exact_check(A, shift, x, bb)
            if nonsing:
                stats['nonsingular'] += 1
                if info != 0:
                    badp.append((l, 'A - sigma I is exactly nonsingular but the factorization reported status %d' % info))
            if ratio is not None:
                worst = max(worst, ratio)
                if not (ratio <= C_BOUND):
                    badp.append((l, 'residual %.3g n eps (|A - sigma I| |x| + |b|) exceeds c = %g (exact rational arithmetic)' % (ratio, C_BOUND)))
        if getattr(ck, 'broken_cbit', None) and not badp:
            # the correspondence broke: widen the search for an input on which the property itself fails (implementation only)
            extra = []
            for rep in range(6000):
                fam = ('integer', 'dyadic', 'dyadic', 'indef')[rep % 4]
                n = rng.range(2, 7)
                A = sym_matrix(rng, n, fam); shift = pick_shift(rng, A, fam, rep)
                bb = [float(rng.range(-4, 4)) for _ in range(n)]
                if all(v == 0.0 for v in bb): bb[0] = 1.0
                cols = [[A[i][j] for i in range(n)] for j in range(n)]
                extra.append(('bk %d %s %s %d %s %s' % (n, hx(shift), 'LU'[rep % 2], 0, ' '.join(map(hx, flat(cols))), ' '.join(map(hx, bb))), fam, A, shift, bb))
            rcx, ax = run_lines(exe, [x[0] for x in extra])
            for (l, fam, A, shift, bb), o in zip(extra, ax):
                f = o.split(); n = len(A)
                if not f: continue
                info = int(f[0]); x = [unhx(w) for w in f[-n:]] if info == 0 else None
                if x is not None and any(v != v or abs(v) == float('inf') for v in x):
                    continue
                nonsing, ratio = exact_check(A, shift, x, bb)
                if nonsing and info != 0:
                    badp.append((l, 'A - sigma I is exactly nonsingular but the factorization reported status %d' % info)); break
                if ratio is not None and not (ratio <= C_BOUND):
                    badp.append((l, 'residual %.3g n eps (|A - sigma I| |x| + |b|) exceeds c = %g (exact rational arithmetic)' % (ratio, C_BOUND))); break
            ck.coverage_extra['widened_search_cases'] = len(extra)
        ck.oblige('nonsingular => Successful, and residual <= %g n eps (|A-sI| |x| + |b|), decided exactly on the implementation (%d cases)' % (C_BOUND, len(cases)),
                  not badp, 'case `%s...` -> %s' % (badp[0][0][:80], badp[0][1]) if badp else '')
        ck.coverage_extra['cbit_stats'] = stats
        ck.coverage_extra['worst_residual_in_n_eps_exact'] = round(worst, 4)
        if badp:
            first_fail = {'cbit': [badp[0][0]], 'observed': badp[0][1], 'clause': 'nonsingular => success with residual <= c n eps (...)'}
        # ---- predicate slice: bigger sizes, complex Hermitian, float / long double, the wrappers
        pl = pred_cases(rng, ck.tier)
        if replay and replay.get('pred'):
            pl = [(l, 'replay') for l in replay['pred']]
        for l in getattr(ck, 'broken_cbit', []):
            t = l.split(); n = int(t[1]); w = t[5:5 + n * n]; lower = t[3] == 'L'
            # symmetric matrix rebuilt from the triangle that is read (the other one holds garbage by design)
            sym = [w[min(i, j) * n + max(i, j)] if lower else w[max(i, j) * n + min(i, j)] for j in range(n) for i in range(n)]
            pl.insert(0, ('pred_bk double %d %s %s %s' % (n, t[2], ' '.join(sym), ' '.join(['0000000000000000'] * (n * n))), 'cbit-disagreement'))
        rc, out = run_lines(exe, [x[0] for x in pl])
        ck.oblige('predicate harness ran', rc == 0 and len(out) == len(pl), 'rc=%s %d/%d' % (rc, len(out), len(pl)))
        badq = []; worstp = 0.0; pst = {'success': 0, 'numerical_issue': 0, 'wrapper_throws': 0}
        for (l, fam), o in zip(pl, out):
            t = l.split(); f = o.split(); n = int(t[2])
            ck.count(l, n >= 3)
            if len(f) < 6:
                badq.append((l, 'no output: ' + o[:80])); continue
            infos = f[:4]
            if len(set(infos)) != 1:
                badq.append((l, 'status differs between lower/upper x column/row-major: %s' % ' '.join(infos)))
            if any(v not in ('0', '3') for v in infos):
                badq.append((l, 'status not in {Successful, NumericalIssue}: %s' % ' '.join(infos)))
            if f[4] != '1':
                badq.append((l, 'solutions from lower/upper x column/row-major differ'))
            ratio = float(f[5])
            if infos[0] == '0':
                pst['success'] += 1
                worstp = max(worstp, ratio)
                if not (ratio <= C_BOUND):
                    badq.append((l, 'residual %.3g n eps (|A - sigma I| |x| + |b|) exceeds c = %g' % (ratio, C_BOUND)))
            else:
                pst['numerical_issue'] += 1
            if t[1] == 'double':
                want = 'ok' if infos[0] == '0' else 'invalid_argument'
                if f[6:8] != [want, want]:
                    badq.append((l, 'DenseSymShiftSolve / SymShiftInvert set_shift: %s, expected %s (factorization status %s)' % (' '.join(f[6:8]), want, infos[0])))
                if want != 'ok': pst['wrapper_throws'] += 1
            if fam in ('posdef', 'blockdiag') and t[3] == '0000000000000000' and infos[0] != '0':
                badq.append((l, 'nonsingular by construction (%s, shift 0) but status %s' % (fam, infos[0])))
        ck.oblige('four variants agree, residual <= %g n eps (...), wrappers throw iff not Successful (%d cases, n up to 80, real/complex/float/long double)' % (C_BOUND, len(pl)),
                  not badq, 'case `%s...` -> %s' % (badq[0][0][:80], badq[0][1]) if badq else '')
        ck.coverage_extra['pred_stats'] = pst
        ck.coverage_extra['worst_residual_in_n_eps_pred'] = round(worstp, 4)
        if badq and not first_fail:
            first_fail = {'pred': [badq[0][0]], 'observed': badq[0][1], 'clause': 'variants agree / residual bound / wrappers throw'}
        if pl and out:
            ck.sample({'case': pl[len(pl) // 2][0][:120] + '...', 'result': out[len(pl) // 2] if len(out) > len(pl) // 2 else None})
    ck.assumptions = ['exact-arithmetic theorems (any real closed field) about the pivot strategy and the 2x2 solve; the n*eps residual bound is not proved - it is decided '
                      'in exact rational arithmetic on the implementation\'s outputs (C-bit cases) and in long double (predicate slice)',
                      'C-bit covers BKLDLT<double>; complex Hermitian, float and long double are covered by the predicate slice only',
                      'nonsingular => Successful is demanded where nonsingularity is decided exactly (rational elimination, n <= 12) or holds by construction']
    if ck.broken() or first_fail:
        br = ck.broken()
        what = br[0][0] if br else 'property predicate failed on the implementation'
        if first_fail:
            ck.violation(what, dict(first_fail, broken=[b[0] + ': ' + b[2][:400] for b in br]), True)
        else:
            ck.violation(what, {'broken': [b[0] + ': ' + b[2][:1500] for b in br], 'cbit': [x for x in getattr(ck, 'broken_cbit', [])[:3]]}, False)
