"""C11 - matrix-operation wrappers compute the documented operator in every configuration."""
import concurrent.futures as cf, itertools
from common import *
from kern_common import *

DENSE_SYM = ['DenseSymMatProd', 'DenseHermMatProd', 'DenseCholesky', 'DenseSymShiftSolve']
DENSE_GEN = ['DenseGenMatProd', 'DenseGenRealShiftSolve', 'DenseGenComplexShiftSolve']
SPARSE_SYM = ['SparseSymMatProd', 'SparseHermMatProd', 'SparseCholesky', 'SparseSymShiftSolve', 'SparseRegularInverse']
SPARSE_GEN = ['SparseGenMatProd', 'SparseGenRealShiftSolve', 'SparseGenComplexShiftSolve']


def configurations():
    out = []
    for c in DENSE_SYM:
        out += [(c, u + f) for u in 'LU' for f in 'CR']
    for c in DENSE_GEN:
        out += [(c, f) for f in 'CR']
    for c in SPARSE_SYM:
        out += [(c, u + f + s) for u in 'LU' for f in 'CR' for s in 'il']
    for c in SPARSE_GEN:
        out += [(c, f + s) for f in 'CR' for s in 'il']
    out += [('SymShiftInvert', ''.join(p)) for p in itertools.product('DS', 'DS', 'LU', 'LU', 'CR', 'CR')]
    return out


def sym(rng, n, sparse):
    A = [[0.0] * n for _ in range(n)]
    for i in range(n):
        for j in range(i + 1):
            v = rnd(rng) if (not sparse or i == j or rng.below(3) == 0) else 0.0
            A[i][j] = A[j][i] = v
    return A


def spd(rng, n, sparse):
    B = sym(rng, n, sparse)
    for i in range(n):
        B[i][i] = sum(abs(v) for v in B[i]) + 1.0 + rng.unit()
    return B


def general(rng, n, sparse):
    return [[(rnd(rng) if (not sparse or i == j or rng.below(3) == 0) else 0.0) + (2.0 if i == j else 0.0) for j in range(n)] for i in range(n)]


def garbage0(i, j):
    return 1000.0 + i - 2 * j


def stored(M, lower):
    """what the harness hands to the wrapper in its first run: designated triangle of M, garbage elsewhere"""
    n = len(M)
    return [[M[i][j] if ((lower and i >= j) or (not lower and i <= j)) else garbage0(i, j) for j in range(n)] for i in range(n)]


def colmajor(M):
    n = len(M)
    return [M[i][j] for j in range(n) for i in range(n)]


def run(ck, replay=None):
    rng = Rng(ck.seed)
    ck.rule = ('all 16 wrapper classes over the cross product of their template options (138 configurations: triangle x storage order x storage index; '
               'SymShiftInvert: dense/sparse A x dense/sparse B x triangle A x triangle B x order A x order B = 64), n = 2..10, symmetric / SPD / general matrices '
               '(sparse ones with about 1/3 fill), definite and indefinite shifts; each case: output vs long double dense reference, second run with different '
               'garbage in the triangle that must not be read compared bitwise, dense general wrappers also through a block of a larger matrix; the 48 '
               'BKLDLT-backed SymShiftInvert configurations and DenseSymShiftSolve compared bit for bit with the extracted model; non-trivial = n >= 3')
    st = regen()
    g = st.get('WrapGen.v', {'ok': False, 'error': 'not generated'})
    ck.oblige('T-gen WrapGen.v (template parameters, matrix use sites, constructor static_asserts of the 16 wrappers)', g.get('ok'), g.get('error', ''))
    bad = grep_gate()
    ck.oblige('no Admitted/Axiom/Parameter/disabled checks in the development', not bad, '; '.join(bad))
    with cf.ThreadPoolExecutor(3) as ex:
        f_pr = ex.submit(coq_property, 'C11')
        f_c = ex.submit(build_cpp, 'c11')
        f_k = ex.submit(build_cpp, 'kernels')
        pr = f_pr.result(); okc, exe, logc = f_c.result(); okk, kexe, logk = f_k.result()
    ck.oblige('Properties_C11.v checks (coqc)', pr['ok'], pr['log'][-1500:] if not pr['ok'] else '')
    for t in pr['theorems']:
        ck.oblige('theorem ' + t['name'], True, 'assumptions: ' + (', '.join(t['assumptions']) or 'closed under the global context'))
        ck.trusted.append('%s: %s' % (t['name'], ', '.join(t['assumptions']) or 'closed under the global context'))
    if pr['ok']:
        ba = axioms_ok(pr['theorems'])
        ck.oblige('only standard-library axioms', not ba, '; '.join(ba))
    if ck.tier == 'thorough' and pr['ok']:
        ok, out = coqchk('C11')
        ck.oblige('coqchk SV.Properties_C11', ok, out[-1500:])
    ck.oblige('harness c11 builds against /repo headers (138 template instantiations)', okc, logc if not okc else '')
    okm, mexe, logm = build_ml()
    ck.oblige('extracted model builds', okm, logm if not okm else '')
    first_fail = None
    if okc:
        reps = 3 if ck.tier == 'quick' else 40
        cases = []
        for (cls, opts) in configurations():
            sparse = cls.startswith('Sparse') or (cls == 'SymShiftInvert' and 'S' in opts[:2])
            for rep in range(reps):
                n = rng.range(2, 10)
                A = general(rng, n, sparse) if 'Gen' in cls else sym(rng, n, sparse)
                B = spd(rng, n, sparse)
                x = [rnd(rng) for _ in range(n)]
                sigma = rng.choice([-(n + 1.5), 0.37, n + 2.25]) if rep % 3 else -(2.0 * n + 1.0)
                sigmai = rng.choice([0.5, -1.25])
                line = 'w %s %s %d %s %s %s %s %s' % (cls, opts, n, hx(sigma), hx(sigmai), ' '.join(map(hx, colmajor(A))), ' '.join(map(hx, colmajor(B))), ' '.join(map(hx, x)))
                cases.append((cls, opts, n, A, B, x, sigma, line))
        if replay and replay.get('case'):
            cases = [(replay['case'].split()[1], replay['case'].split()[2], int(replay['case'].split()[3]), None, None, None, None, replay['case'])]
        rc, out = run_lines(exe, [c[-1] for c in cases])
        ck.oblige('harness ran', rc == 0 and len(out) == len(cases), 'rc=%s %d/%d' % (rc, len(out), len(cases)))
        badp = []; worst = 0.0; dist = {}
        TOL = 1e-7
        for (cls, opts, n, A, B, x, sigma, line), o_ in zip(cases, out):
            ck.count(line, n >= 3)
            f = o_.split()
            dist[cls] = dist.get(cls, 0) + 1
            if not f or f[0] != 'ok':
                badp.append((line, '%s<%s>: %s' % (cls, opts, o_[:120]))); continue
            if f[1] != '1':
                badp.append((line, '%s<%s>: the output changes when entries of the triangle that must not be read change' % (cls, opts)))
            try:
                e = float(f[2])
            except ValueError:
                badp.append((line, '%s<%s>: %s' % (cls, opts, o_[:120]))); continue
            worst = max(worst, e)
            if not (e <= TOL):
                badp.append((line, '%s<%s>: relative error %.3g against the long double reference of the documented operator' % (cls, opts, e)))
        ck.oblige('documented operator (rel. error <= %g vs long double reference) and triangle independence in all configurations (%d cases)' % (TOL, len(cases)), not badp,
                  'case `%s...` -> %s' % (badp[0][0][:60], badp[0][1]) if badp else '')
        ck.coverage_extra['cases_per_class'] = dist
        ck.coverage_extra['worst_relative_error'] = worst
        if badp:
            first_fail = {'case': badp[0][0], 'observed': badp[0][1], 'clause': 'documented operation / only the designated triangle is read'}
        # ---- C-bit: the BKLDLT-backed configurations against the composed model
        if okm and okk and replay is None:
            c = get_consts(kexe)
            ml, idx = [], []
            for k, (cls, opts, n, A, B, x, sigma, line) in enumerate(cases):
                if cls == 'SymShiftInvert' and opts[:2] != 'SS':
                    la, lb = opts[2] == 'L', opts[3] == 'L'
                    ml.append('m_ssi %d %d %d %d %s %s %s %s' % (1 if opts[0] == 'D' else 0, la, lb, n, hx(sigma), ' '.join(map(hx, colmajor(stored(A, la)))),
                                                               ' '.join(map(hx, colmajor(stored(B, lb)))), ' '.join(map(hx, x)))); idx.append(k)
                elif cls == 'DenseSymShiftSolve':
                    lo = opts[0] == 'L'
                    ml.append('m_dsss %d %d %s %s %s' % (lo, n, hx(sigma), ' '.join(map(hx, colmajor(stored(A, lo)))), ' '.join(map(hx, x)))); idx.append(k)
            rc2, b = run_lines(mexe, ['setconsts ' + ' '.join(c)] + ml)
            b = b[1:]
            diff = []
            for q, k in enumerate(idx):
                f = out[k].split() if k < len(out) else []
                impl = ' '.join(f[3:]) if f and f[0] == 'ok' else ('throw' if f and f[0] == 'throw' else '?')
                mod = b[q].strip() if q < len(b) else '?'
                if canon_nan(impl) != canon_nan(mod):
                    diff.append((cases[k][-1], cases[k][0] + '<' + cases[k][1] + '>', impl[:60], mod[:60]))
            ck.oblige('C-bit: SymShiftInvert<double> (48 BKLDLT-backed configurations) and DenseSymShiftSolve<double> == composed model, bit for bit (%d cases)' % len(idx),
                      rc2 == 0 and len(b) == len(ml) and not diff, 'case %s: impl %s model %s' % (diff[0][1], diff[0][2], diff[0][3]) if diff else 'rc=%s' % rc2)
            if diff and not first_fail:
                ck.broken_case = diff[0][0]
        if cases and out:
            ck.sample({'case': cases[len(cases) // 2][-1][:100] + '...', 'result': out[len(cases) // 2][:80] if len(out) > len(cases) // 2 else None})
    ck.assumptions = ['Eigen (products, LLT, SimplicialLLT, PartialPivLU, SparseLU, ConjugateGradient) is trusted to do what it documents; the wrappers\' use of it is compared with a long double reference',
                      'backward-stable accuracy is evaluated on well-conditioned inputs (relative error <= 1e-7), not proved',
                      'scalar type: double (complex<double> for the Hermitian products); matrices passed as plain objects, and as blocks for the dense general wrappers',
                      'the inventory theorems are syntactic facts about the regenerated tables; their semantic counterpart is the triangle-independence run and the model tie']
    if ck.broken() or first_fail:
        br = ck.broken()
        what = br[0][0] if br else 'property predicate failed on the implementation'
        if first_fail:
            ck.violation(what, dict(first_fail, broken=[b[0] + ': ' + b[2][:400] for b in br]), True)
        else:
            ck.violation(what, {'broken': [b[0] + ': ' + b[2][:1500] for b in br], 'case': getattr(ck, 'broken_case', None)}, False)
