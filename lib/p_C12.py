"""C12 - invalid arguments rejected with invalid_argument; valid ones accepted."""
import concurrent.futures as cf
from common import *

HERM = ['SymEigsSolver', 'HermEigsSolver', 'SymEigsShiftSolver', 'SymGEigsSolver_Cholesky', 'SymGEigsSolver_RegularInverse',
        'SymGEigsShiftSolver_ShiftInvert', 'SymGEigsShiftSolver_Buckling', 'SymGEigsShiftSolver_Cayley']
GEN = ['GenEigsSolver', 'GenEigsRealShiftSolver', 'GenEigsComplexShiftSolver']
SQUARE = ['DenseSymShiftSolve', 'SparseSymShiftSolve', 'DenseGenRealShiftSolve', 'SparseGenRealShiftSolve',
          'DenseGenComplexShiftSolve', 'SparseGenComplexShiftSolve', 'DenseCholesky', 'SparseCholesky', 'SparseRegularInverse']
ANYSHAPE = ['DenseGenMatProd', 'DenseSymMatProd', 'DenseHermMatProd', 'SparseGenMatProd', 'SparseSymMatProd', 'SparseHermMatProd']
INV = 'throw invalid_argument'


def herm_spec(n, nev, ncv):
    return 1 <= nev <= n - 1 and nev < ncv <= n


def gen_spec(n, nev, ncv):
    return 1 <= nev <= n - 2 and nev + 2 <= ncv <= n


def build_cases():
    """(impl line, model line or None, spec-expected outcome or None)"""
    cs = []
    for n in range(1, 13):
        for nev in range(-2, n + 4):
            for ncv in range(-2, n + 4):
                for c in HERM:
                    cs.append(('ctor %s %d %d %d' % (c, n, nev, ncv), 'm_ctor %s %d %d %d' % ('herm' if c in HERM[:3] else 'herm_rvalue', n, nev, ncv),
                               'ok' if herm_spec(n, nev, ncv) else INV))
                for c in GEN:
                    cs.append(('ctor %s %d %d %d' % (c, n, nev, ncv), 'm_ctor gen %d %d %d' % (n, nev, ncv), 'ok' if gen_spec(n, nev, ncv) else INV))
        for nev in range(-2, n + 4):
            for (ni, nm) in [(-1, -1), (2, 5), (n, n), (n + 2, 2 * n), (1, 3), (0, 0)]:
                exp = None if 1 <= nev <= n - 1 else INV      # accepted: sizes compared with the model, bounds checked below
                cs.append(('jd %d %d %d %d' % (n, nev, ni, nm), 'm_jd %d %d %d %d' % (n, nev, ni, nm), exp))
    for r in range(1, 7):
        for c in range(1, 7):
            d = min(r, c)
            for k in range(-1, d + 3):
                for ncv in range(-1, d + 3):
                    cs.append(('svd %d %d %d %d' % (r, c, k, ncv), 'm_svd %d %d %d %d' % (r, c, k, ncv), 'ok' if herm_spec(d, k, ncv) else INV))
    for mode in ('ShiftInvert', 'Buckling', 'Cayley'):
        for sg in ('0', '-0.0', '1.5', '-2', '1e-300', '0.3'):
            z = float(sg) == 0.0
            cs.append(('sigma %s %s' % (mode, sg), 'm_sigma %s %d' % (mode, 1 if z else 0), INV if (z and mode != 'ShiftInvert') else 'ok'))
    for c in ('SymEigsSolver', 'GenEigsSolver', 'HermEigsSolver', 'SymEigsShiftSolver'):
        cs.append(('initzero %s 0' % c, 'm_initzero 1', INV))
        cs.append(('initzero %s 1' % c, 'm_initzero 0', 'ok'))
        cs.append(('initzero %s 1e-3' % c, 'm_initzero 0', 'ok'))
    for w in SQUARE + ANYSHAPE:
        for r in range(1, 5):
            for c in range(1, 5):
                exp = 'ok' if (r == c or w in ANYSHAPE) else INV
                cs.append(('wrapper %s %d %d' % (w, r, c), 'm_wrapper %s %d %d' % (w, r, c), exp))
    for ar in range(1, 4):
        for ac in range(1, 4):
            for br in range(1, 4):
                for bc in range(1, 4):
                    cs.append(('wrapper2 %d %d %d %d' % (ar, ac, br, bc), 'm_wrapper2 %d %d %d %d' % (ar, ac, br, bc),
                               'ok' if (ar == ac == br == bc) else INV))
    return cs


def run(ck, replay=None):
    ck.rule = ('exhaustive: 11 Arnoldi/Lanczos solver classes x n in 1..12 x (nev, ncv) in [-2, n+3]^2; Davidson n x nev x 6 size pairs; '
               'partial SVD all shapes up to 6x6; sigma in {0,-0,..} x 3 modes; zero / non-zero start vectors; 15 wrappers x all shapes up to 4x4; '
               'SymShiftInvert all 81 shape pairs up to 3x3; non-trivial = every case (each is a distinct argument tuple)')
    st = regen()
    g = st.get('ArgsGen.v', {'ok': False, 'error': 'not generated'})
    ck.oblige('T-gen ArgsGen.v (constructor checks, mode checks, init check, wrapper checks, throw inventory)', g.get('ok'), g.get('error', ''))
    bad = grep_gate()
    ck.oblige('no Admitted/Axiom/Parameter/disabled checks in the development', not bad, '; '.join(bad))
    with cf.ThreadPoolExecutor(4) as ex:
        f_pr = ex.submit(coq_property, 'C12')
        f_c = ex.submit(build_cpp, 'c12')
        f_s = ex.submit(build_cpp, 'c12', CXX_SAN)
        f_18 = ex.submit(build_cpp, 'c18')
        pr = f_pr.result(); okc, exe, logc = f_c.result(); oks, sexe, logs = f_s.result(); ok18, exe18, log18 = f_18.result()
    ck.oblige('Properties_C12.v checks (coqc)', pr['ok'], pr['log'][-1500:] if not pr['ok'] else '')
    for t in pr['theorems']:
        ck.oblige('theorem ' + t['name'], True, 'assumptions: ' + (', '.join(t['assumptions']) or 'closed under the global context'))
        ck.trusted.append('%s: %s' % (t['name'], ', '.join(t['assumptions']) or 'closed under the global context'))
    if pr['ok']:
        ba = axioms_ok(pr['theorems'])
        ck.oblige('only standard-library axioms', not ba, '; '.join(ba))
    if ck.tier == 'thorough' and pr['ok']:
        ok, out = coqchk('C12')
        ck.oblige('coqchk SV.Properties_C12', ok, out[-1500:])
    ck.oblige('harness c12 builds against /repo headers', okc, logc if not okc else '')
    ck.oblige('harness c12 (ASan+UBSan+LSan) builds', oks, logs if not oks else '')
    okm, mexe, logm = build_ml()
    ck.oblige('extracted model builds', okm, logm if not okm else '')
    cases = build_cases()
    if replay is not None and replay.get('cases'):
        want = set(replay['cases'])
        cases = [c for c in cases if c[0] in want]
    first_fail = None
    impl = []
    if okc:
        rc, impl = run_lines(exe, [c[0] for c in cases], timeout=1800)
        ck.oblige('harness ran', rc == 0 and len(impl) == len(cases), 'rc=%s lines=%d/%d' % (rc, len(impl), len(cases)))
    if okc and len(impl) == len(cases):
        # --- the property's own predicate (documented ranges) on the implementation
        bad_spec = []
        for (l, m, exp), got in zip(cases, impl):
            ck.count(l)
            if exp is not None and got != exp:
                bad_spec.append((l, got, exp))
            if l.startswith('jd ') and got.startswith('ok'):
                n = int(l.split()[1]); ni = int(l.split()[3])
                _, mx, ini, cs_ = got.split()
                if not (int(mx) <= n and (ni < 0 or int(ini) + int(cs_) <= n)):
                    bad_spec.append((l, got, 'sizes with init + corr <= n and max <= n'))
        ck.oblige('every constructor / init / shift / wrapper call accepted or rejected exactly as documented (%d calls)' % len(cases),
                  not bad_spec, 'case `%s`: impl `%s`, documented `%s`' % bad_spec[0] if bad_spec else '')
        if bad_spec:
            first_fail = {'cases': [bad_spec[0][0]], 'observed': bad_spec[0][1], 'expected': bad_spec[0][2], 'clause': 'accept/reject boundary'}
        # --- correspondence with the generated model
        if okm:
            rc, mod = run_lines(mexe, [c[1] for c in cases])
            diff = [(c[0], a, b) for c, a, b in zip(cases, impl, mod) if a != b]
            ck.oblige('correspondence: implementation == generated model on all %d calls' % len(cases), rc == 0 and len(mod) == len(cases) and not diff,
                      'case `%s`: impl `%s`, model `%s`' % diff[0] if diff else '')
        for i in (5, 30000, len(cases) - 3):
            if i < len(cases):
                ck.sample({'case': cases[i][0], 'impl': impl[i], 'documented': cases[i][2]})
    # --- unsupported selection / sorting rules (shared with C18): 6 classes x nev in {1,2,3} x 81 pairs
    if ok18:
        okset = {'h_sel': {0, 3, 4, 7, 8}, 'h_sort': {0, 3, 4, 7}, 'g': {0, 1, 2, 4, 5, 6}}
        rl, exp = [], []
        for cls, fam in [('SymEigsSolver', 'h'), ('HermEigsSolver', 'h'), ('SymEigsShiftSolver', 'h'), ('GenEigsSolver', 'g'),
                         ('GenEigsRealShiftSolver', 'g'), ('GenEigsComplexShiftSolver', 'g')]:
            for nev_ in (1, 2, 3):
                for a in range(9):
                    for b in range(9):
                        rl.append('solver %s %d %d %d' % (cls, a, b, nev_))
                        ok = (a in okset['h_sel'] and b in okset['h_sort']) if fam == 'h' else (a in okset['g'] and b in okset['g'])
                        exp.append('ok' if ok else INV)
        rc, got = run_lines(exe18, rl)
        badr = [(l, g, e) for l, g, e in zip(rl, got, exp) if g != e]
        for l in rl:
            ck.count(l)
        ck.oblige('compute() accepts exactly the documented selection/sorting rules (6 classes x nev in {1,2,3} x 81 rule pairs = 1458 calls)', rc == 0 and len(got) == len(rl) and not badr,
                  'case `%s`: impl `%s`, documented `%s`' % badr[0] if badr else '')
        if badr and not first_fail:
            first_fail = {'cases': [badr[0][0]], 'observed': badr[0][1], 'expected': badr[0][2], 'clause': 'unsupported rule'}
    # --- leak clause: rejected calls under LeakSanitizer (runtime behaviour the model cannot exhibit)
    if oks:
        rej = [c[0] for c in cases if c[2] == INV]
        step = 1 if ck.tier == 'thorough' else 7
        sub = rej[::step] + [c[0] for c in cases if c[0].startswith('svd ')]
        rc, out = sh([sexe], input='\n'.join(sub) + '\n', timeout=1800, env={'ASAN_OPTIONS': 'detect_leaks=1:exitcode=23', 'UBSAN_OPTIONS': 'print_stacktrace=1'})
        leak = 'LeakSanitizer' in out or 'AddressSanitizer' in out or 'runtime error' in out
        ck.evaluations += len(sub)
        known = load_known()
        kf = [f for f in known.get('findings', []) if f.get('property') == 'C12' and f.get('id') == 'D8']
        if leak and kf and 'PartialSVDSolver' in out and 'AddressSanitizer' not in out.replace('LeakSanitizer', ''):
            ck.known_hits.append('D8 PartialSVDSolver constructor leaks its operator when the inner solver constructor throws (e.g. `svd 3 3 3 3`)')
            leak = False
        ck.oblige('rejected calls leak nothing and trip no sanitizer (%d calls under ASan+UBSan+LSan)' % len(sub), not leak and rc in (0,), out[-1200:] if (leak or rc) else '')
        if (leak or rc) and not first_fail:
            # find one leaking call
            culprit = None
            for l in [c for c in sub if c.startswith('svd ')][:60] + sub[:200]:
                r2, o2 = sh([sexe], input=l + '\n', timeout=60, env={'ASAN_OPTIONS': 'detect_leaks=1:exitcode=23'})
                if r2 != 0 or 'Sanitizer' in o2:
                    culprit = l
                    break
            if culprit:
                first_fail = {'cases': [culprit], 'observed': 'sanitizer report', 'clause': 'a rejected call leaks nothing', 'report': out[-800:]}
    ck.assumptions = ['clang 14 JSON AST + translator (dimension calls X.rows()/X.cols() mapped to integer variables)',
                      'derived solver constructors forward (nev, ncv) unchanged to the base (exercised by the exhaustive grid, not proved)',
                      'leak clause: runtime behaviour, shown by LeakSanitizer on the rejected calls only']
    if ck.broken() or first_fail:
        br = ck.broken()
        what = br[0][0] if br else 'property predicate failed on the implementation'
        if first_fail:
            ck.violation(what, dict(first_fail, broken=[b[0] + ': ' + b[2][:400] for b in br]), True)
        else:
            ck.violation(what, {'broken': [b[0] + ': ' + b[2][:1500] for b in br], 'cases': []}, False)
