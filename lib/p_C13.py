"""C13 - compute() is memory-safe, terminates within its work bound, never emits NaN."""
import concurrent.futures as cf, itertools
from common import *
from glue_common import *

DOCUMENTED_EXC = {'invalid_argument', 'runtime_error', 'logic_error'}
HARD_SYM = ['zero', 'identity', 'lowrank', 'repeated', 'blockdiag', 'integer', 'graded', 'clustered', 'gapped', 'generic']
HARD_GEN = ['gzero', 'gidentity', 'gnilpotent', 'gperm', 'gorth', 'gskew', 'gtriangular', 'gnormal', 'grandom', 'grealspec']


def restart_table(ncv_max):
    """every (family, nev, ncv, nconv, zero-estimate pattern, conjugate-pair position)"""
    impl, model = [], []
    for ncv in range(2, ncv_max + 1):
        for fam in ('herm', 'gen'):
            nev_hi = ncv - 1 if fam == 'herm' else ncv - 2
            for nev in range(1, nev_hi + 1):
                free = ncv - nev
                pats = list(itertools.product('01', repeat=free)) if free <= 6 else \
                    [tuple('0' * free), tuple('1' * free)] + [tuple('1' if (i == j) else '0' for i in range(free)) for j in range(free)] + \
                    [tuple('0' if (i == j) else '1' for i in range(free)) for j in range(free)]
                for nconv in range(0, nev + 1):
                    for pat in pats:
                        small = '0' * nev + ''.join(pat)
                        for pp in ([-1] if fam == 'herm' else [-1] + list(range(0, ncv - 1))):
                            impl.append('nevadj %s %d %d %d %s %d' % (fam, nev, ncv, nconv, small, pp))
                            pairs = ''.join('1' if j == pp else '0' for j in range(ncv - 1)) or '-'
                            model.append('m_nevadj %s %d %d %d %s %s' % (fam, nev, ncv, nconv, small, pairs))
    return impl, model


_w = {}


def witness_exceeds(exe, finding):
    """the listed witness of F2 must still exceed the bound for the finding to absorb anything"""
    if 'v' not in _w:
        rc, r = run_hist(exe, [finding['witness']])
        try:
            tot = sum(s['opcount_call'] for s in r[0]['steps'])
            _w['v'] = tot > 2 + 2 * 6 * (0 + 1)
        except Exception:
            _w['v'] = False
    return _w['v']


def gen_runs(rng, tier):
    per = 14 if tier == 'quick' else 150
    out = []
    for cls in CLASSES:
        sels, sorts = rules_for(cls)
        for h in range(per):
            n, nev, ncv = legal_cfg(rng, cls, 14 if tier == 'quick' else 24)
            shifty = 'Shift' in cls
            generalized = 'SymG' in cls
            fam = rng.choice(['gapped', 'posgapped', 'clustered', 'repeated', 'blockdiag'] if shifty else HARD_SYM)
            gfam = rng.choice(['gnormal', 'grealspec', 'gtriangular'] if shifty else HARD_GEN)
            scale = rng.choice([1.0, 1.0, 1e-8, 1e8, 1e-3, 1e4])
            if generalized:
                scale = rng.choice([1.0, 1e-3, 1e3])
            maxit = rng.choice([0, 1, 2, 5, 30, 300])
            start = rng.choice(['I', 'I', 'V:r%d' % rng.below(100), 'V:e%d' % rng.below(5), 'V:s%d' % rng.below(5)])
            if is_gen(cls) and start[0] == 'V' and start[2] in 'es':
                start = 'V:r%d' % rng.below(100)
            comp = 'C:%d:%d:%s:%d' % (rng.choice(sels), maxit, rng.choice(['1e-10', '1e-6']), rng.choice(sorts))
            out.append((cls, n, nev, ncv, maxit, hist_line(cls, n, nev, ncv, [start, comp], fam=fam, gfam=gfam, mseed=rng.below(10 ** 6), scale=scale)))
    return out


def run(ck, replay=None):
    rng = Rng(ck.seed)
    ck.rule = ('(1) exhaustive restart-size table: real nev_adjusted (private access) vs generated model for all ncv <= 10 (quick) / 14 (thorough), nev, nconv, '
               'zero-estimate patterns, conjugate-pair positions; (2) init;compute on zero/identity/low-rank/repeated/block-diagonal/integer/graded/nilpotent/'
               'permutation/orthogonal/skew matrices, norms 1e-8..1e8, ncv in {nev+1(+2), n, random}, maxit from 0, eigenvector / invariant-subspace starts; '
               'Eigen assertions on; non-trivial = every case')
    st = regen()
    g = st.get('GlueGen.v', {'ok': False, 'error': 'not generated'})
    ck.oblige('T-gen GlueGen.v', g.get('ok'), g.get('error', ''))
    bad = grep_gate()
    ck.oblige('no Admitted/Axiom/Parameter/disabled checks in the development', not bad, '; '.join(bad))
    with cf.ThreadPoolExecutor(3) as ex:
        f_pr = ex.submit(coq_property, 'C13')
        f_c = ex.submit(build_cpp, 'glue', CXX_FAST)
        f_s = ex.submit(build_cpp, 'glue', CXX_SAN) if ck.tier == 'thorough' else None
        pr = f_pr.result(); okc, exe, logc = f_c.result()
        oks, sexe, logs = f_s.result() if f_s else (False, None, '')
    ck.oblige('Properties_C13.v checks (coqc)', pr['ok'], pr['log'][-1500:] if not pr['ok'] else '')
    for t in pr['theorems']:
        ck.oblige('theorem ' + t['name'], True, 'assumptions: ' + (', '.join(t['assumptions']) or 'closed under the global context'))
        ck.trusted.append('%s: %s' % (t['name'], ', '.join(t['assumptions']) or 'closed under the global context'))
    if pr['ok']:
        ba = axioms_ok(pr['theorems'])
        ck.oblige('only standard-library axioms', not ba, '; '.join(ba))
    if ck.tier == 'thorough' and pr['ok']:
        ok, out = coqchk('C13')
        ck.oblige('coqchk SV.Properties_C13', ok, out[-1500:])
    ck.oblige('harness glue builds against /repo headers (Eigen assertions on)', okc, logc if not okc else '')
    okm, mexe, logm = build_ml()
    ck.oblige('extracted model builds', okm, logm if not okm else '')
    first_fail = None
    known = load_known().get('findings', [])
    if okc and okm and replay is None:
        impl, model = restart_table(10 if ck.tier == 'quick' else 14)
        rc1, a = run_lines(exe, impl)
        rc2, b = run_lines(mexe, model)
        diff = [(x, p, q) for x, p, q in zip(impl, a, b) if p != q]
        ck.oblige('exhaustive restart-size table: real nev_adjusted == generated model (%d cases)' % len(impl),
                  rc1 == 0 and rc2 == 0 and len(a) == len(impl) and len(b) == len(impl) and not diff,
                  'case `%s`: impl %s, model %s' % diff[0] if diff else 'rc=%s/%s' % (rc1, rc2))
        # the property's own predicate on the table: 1 <= k <= ncv-1
        oob = []
        for l, v in zip(impl, a):
            t = l.split()
            try:
                k = int(v)
            except ValueError:
                oob.append((l, v)); continue
            if not (1 <= k <= int(t[3]) - 1):
                oob.append((l, v))
        ck.evaluations += len(impl)
        for l in impl[::97]:
            ck.nontrivial.add(l)
        ck.oblige('restart size always in 1..ncv-1 on the real code (%d cases)' % len(impl), not oob, 'case `%s` -> %s' % oob[0] if oob else '')
        if oob:
            first_fail = {'case': oob[0][0], 'observed': oob[0][1], 'clause': 'restart size within the Krylov dimension'}
        ck.coverage_extra['restart_table_cases'] = len(impl)
    if okc:
        runs = gen_runs(rng, ck.tier)
        if replay is not None and replay.get('case', '').startswith('hist'):
            m = dict(x.split('=', 1) for x in replay['case'].split()[1:] if '=' in x)
            mx = int(m['ops'].split(';')[1].split(':')[2])
            runs = [(m['cls'], int(m['n']), int(m['nev']), int(m['ncv']), mx, replay['case'])]
        rc, res = run_hist(exe, [r[-1] for r in runs])
        crashed = None
        if rc != 0 or len(res) != len(runs):
            # find the first case that kills the process (assertion / signal)
            for r in runs:
                rc1, out1 = sh([exe], input=r[-1] + '\n', timeout=300)
                if rc1 != 0:
                    crashed = (r, out1[-600:])
                    break
        ck.oblige('no crash / Eigen index assertion / signal on %d structured runs' % len(runs), rc == 0 and len(res) == len(runs),
                  'case `%s`: %s' % (crashed[0][-1], crashed[1]) if crashed else 'rc=%s' % rc)
        if crashed and not first_fail:
            first_fail = {'case': crashed[0][-1], 'observed': crashed[1], 'clause': 'no internal index assertion / undefined behaviour'}
        badr = []
        dist = {}
        if len(res) == len(runs):
            for (cls, n, nev, ncv, maxit, line), d in zip(runs, res):
                ck.count(line)
                if 'steps' not in d:
                    badr.append((line, 'harness error ' + str(d.get('error')))); continue
                tot = 0
                for s in d['steps']:
                    if s.get('skipped'):
                        continue
                    tot += s['opcount_call']
                    if s['threw']:
                        dist['threw ' + s['exc']] = dist.get('threw ' + s['exc'], 0) + 1
                        if s['exc'] not in DOCUMENTED_EXC:
                            badr.append((line, '%s raised %s' % (s['op'], s['exc'])))
                    elif s['op'].startswith('C'):
                        dist['info %d' % s['info']] = dist.get('info %d' % s['info'], 0) + 1
                        if s['info'] not in (0, 2):
                            badr.append((line, 'info()=%d after compute()' % s['info']))
                        if not s['finite']:
                            badr.append((line, 'NaN/Inf in the returned values or vectors'))
                    if s['bad_args']:
                        badr.append((line, 'operator called with null / aliased vectors'))
                bound = 2 + 2 * ncv * (maxit + 1)
                if tot > bound:
                    kf = [f for f in known if f.get('property') == 'C13' and f.get('id') == 'F2']
                    if kf and cls == 'GenEigsComplexShiftSolver' and tot <= bound + 2 * nev and tot - 2 * nev <= 2 + 2 * (ncv - 1) * (maxit + 1) + 0 \
                            and witness_exceeds(exe, kf[0]):
                        msg = 'F2 GenEigsComplexShiftSolver: the 2*nev probe solves can push the total number of operator applications over 2+2*ncv*(maxit+1) (witness: A=2I, nev=3, ncv=6, maxit=0: 18 > 14)'
                        if msg not in ck.known_hits:
                            ck.known_hits.append(msg)
                    else:
                        badr.append((line, '%d operator applications, bound %d' % (tot, bound)))
        ck.oblige('finite results with info in {Successful, NotConverging} or a documented exception; operator arguments valid; work bound 2+2*ncv*(maxit+1)',
                  not badr, 'case `%s` -> %s' % badr[0] if badr else '')
        if badr and not first_fail:
            first_fail = {'case': badr[0][0], 'observed': badr[0][1], 'clause': 'terminates within work bound with finite results or documented exception'}
        ck.coverage_extra['outcomes'] = dist
        if runs and len(res) == len(runs):
            ck.sample({'case': runs[0][-1]})
        if oks:
            sub = [r[-1] for r in runs[::3]]
            rc2, out = sh([sexe], input='\n'.join(sub) + '\n', timeout=3000, env={'ASAN_OPTIONS': 'detect_leaks=0', 'UBSAN_OPTIONS': 'print_stacktrace=1'})
            rep = 'Sanitizer' in out or 'runtime error' in out
            ck.oblige('no ASan / UBSan report on %d structured runs' % len(sub), rc2 == 0 and not rep, out[-1500:] if (rep or rc2) else '')
            if (rep or rc2) and not first_fail:
                first_fail = {'case': sub[0], 'observed': 'sanitizer report', 'report': out[-800:], 'clause': 'memory safe / no undefined behaviour'}
    ck.assumptions = ['memory safety, UB and NaN propagation are runtime behaviour: shown by the assertion-enabled and sanitizer builds on the structured inputs, not by a theorem',
                      'work-bound theorem assumes the factorize_from contract proved on the generated Arnoldi/Lanczos loops (C13_factorize_work) for from_k >= 1']
    if ck.broken() or first_fail:
        br = ck.broken()
        what = br[0][0] if br else 'property predicate failed on the implementation'
        if first_fail:
            ck.violation(what, dict(first_fail, broken=[b[0] + ': ' + b[2][:400] for b in br]), True)
        else:
            ck.violation(what, {'broken': [b[0] + ': ' + b[2][:1500] for b in br]}, False)
