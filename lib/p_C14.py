"""C14 - a failing user operator is contained: exception propagates, solver stays usable."""
import concurrent.futures as cf
from common import *
from glue_common import *
from p_C06 import observe


def base_cases(rng, tier):
    out = []
    for cls in CLASSES:
        sels, sorts = rules_for(cls)
        for rep in range(1 if tier == 'quick' else 3):
            n = rng.range(8, 11)
            nev = 2
            ncv = rng.range(5, 6)
            fam = rng.choice(['gapped', 'posgapped'])
            gfam = rng.choice(['gnormal', 'grealspec'])
            comp = 'C:%d:%d:%s:%d' % (rng.choice(sels), rng.choice([1, 2, 3]), '1e-10', rng.choice(sorts))
            start = 'I' if rng.below(2) else 'V:r%d' % rng.below(100)
            out.append(dict(cls=cls, n=n, nev=nev, ncv=ncv, fam=fam, gfam=gfam, mseed=rng.below(10 ** 6), comp=comp, start=start))
        # a Krylov breakdown inside the run (start vector in an invariant subspace smaller than ncv): the operator is then also applied
        # by expand_basis, so faults are injected into that application too
        if cls in ('SymEigsSolver', 'HermEigsSolver', 'SymGEigsSolver_Cholesky', 'SymGEigsSolver_RegularInverse') or is_gen(cls):
            n = rng.range(9, 11)
            comp = 'C:%d:%d:%s:%d' % (rng.choice(sels), 2, '1e-10', rng.choice(sorts))
            if is_gen(cls):
                out.append(dict(cls=cls, n=n, nev=2, ncv=6, fam='gapped', gfam='gblock', mseed=rng.below(10 ** 6), comp=comp, start='V:b%d' % rng.below(100)))
            else:
                out.append(dict(cls=cls, n=n, nev=2, ncv=6, fam='gapped', gfam='gnormal', mseed=rng.below(10 ** 6), comp=comp, start='V:s%d' % rng.below(5)))
    return out


_witness_state = {}


def known_probe_fault(c, b, desc, ln, known, ck, exe):
    """Known finding F1: a fault during the probe solves of GenEigsComplexShiftSolver leaves the operator shifted.
    Attributed only if (1) the classifier holds for this case and (2) the entry's own witness still fails."""
    if not known or c['cls'] != 'GenEigsComplexShiftSolver' or 'inside compute' not in desc:
        return False
    import re as _re
    ks = [int(x) for x in _re.findall(r'\d+', desc.split('(')[0])]      # absolute application indices of the injected faults
    n_init = b['steps'][0]['opcount_call']
    iter_ops = b['steps'][1]['nops'] - n_init                # applications of the iteration proper within compute()
    if not any(k - n_init > iter_ops for k in ks):
        return False
    if 'ok' not in _witness_state:
        w = known[0]['witness']
        rc, r = run_hist(exe, [w, w.replace('ops=I;F:13;', 'ops=I;U;')])
        try:
            _witness_state['ok'] = observe(r[0]['steps'][-1]) != observe(r[1]['steps'][-1])
        except Exception:
            _witness_state['ok'] = False
    if not _witness_state['ok']:
        return False
    msg = 'F1 operator fault during the probe solves of GenEigsComplexShiftSolver leaves the operator at the probe shift (witness: n=11 nev=2 ncv=6 grealspec mseed=72000, fault at application 15)'
    if msg not in ck.known_hits:
        ck.known_hits.append(msg)
    return True


def line(c, ops, extra=''):
    return hist_line(c['cls'], c['n'], c['nev'], c['ncv'], ops, fam=c['fam'], gfam=c['gfam'], mseed=c['mseed'], extra=extra)


def run(ck, replay=None):
    rng = Rng(ck.seed)
    ck.rule = ('for every solver class: a small problem (plus, for the standard and the Cholesky/RegularInverse classes, one whose start vector lies in a small invariant subspace so that the run goes through a Krylov breakdown), the fault-free run init;compute counted, then for EVERY index k of its operator '
               'applications (A-operator; B-operator for the generalized classes; pairs of faults in the thorough tier) the run with a fault at k '
               'followed by init;compute; non-trivial = every case (distinct fault index / class)')
    st = regen()
    g = st.get('GlueGen.v', {'ok': False, 'error': 'not generated'})
    ck.oblige('T-gen GlueGen.v', g.get('ok'), g.get('error', ''))
    g2 = st.get('ArgsGen.v', {'ok': False, 'error': 'not generated'})
    ck.oblige('T-gen ArgsGen.v (try/catch inventory)', g2.get('ok'), g2.get('error', ''))
    bad = grep_gate()
    ck.oblige('no Admitted/Axiom/Parameter/disabled checks in the development', not bad, '; '.join(bad))
    with cf.ThreadPoolExecutor(3) as ex:
        f_pr = ex.submit(coq_property, 'C14')
        f_c = ex.submit(build_cpp, 'glue', CXX_FAST)
        f_s = ex.submit(build_cpp, 'glue', CXX_SAN) if ck.tier == 'thorough' else None
        pr = f_pr.result(); okc, exe, logc = f_c.result()
        oks, sexe, logs = f_s.result() if f_s else (False, None, '')
    ck.oblige('Properties_C14.v checks (coqc)', pr['ok'], pr['log'][-1500:] if not pr['ok'] else '')
    for t in pr['theorems']:
        ck.oblige('theorem ' + t['name'], True, 'assumptions: ' + (', '.join(t['assumptions']) or 'closed under the global context'))
        ck.trusted.append('%s: %s' % (t['name'], ', '.join(t['assumptions']) or 'closed under the global context'))
    if pr['ok']:
        ba = axioms_ok(pr['theorems'])
        ck.oblige('only standard-library axioms', not ba, '; '.join(ba))
    if ck.tier == 'thorough' and pr['ok']:
        ok, out = coqchk('C14')
        ck.oblige('coqchk SV.Properties_C14', ok, out[-1500:])
    ck.oblige('harness glue builds against /repo headers', okc, logc if not okc else '')
    first_fail = None
    if okc:
        cases = base_cases(rng, ck.tier)
        if replay is not None and replay.get('base'):
            cases = [replay['base']]
        rc, base = run_hist(exe, [line(c, [c['start'], c['comp']]) for c in cases])
        ck.oblige('fault-free baselines ran', rc == 0 and len(base) == len(cases) and all('steps' in b for b in base), 'rc=%s' % rc)
        jobs = []     # (case, description, history line, expects_fault)
        for c, b in zip(cases, base):
            if 'steps' not in b:
                continue
            n_init = b['steps'][0]['opcount_call']
            n_comp = b['steps'][1]['opcount_call']
            nb = b['steps'][1]['bcount']
            for k in range(1, n_init + 1):
                jobs.append((c, b, 'A-fault at application %d (inside init)' % k, line(c, ['F:%d' % k, c['start'], 'U', c['start'], c['comp']]), 1))
            for k in range(1, n_comp + 1):
                jobs.append((c, b, 'A-fault at application %d (inside compute)' % (n_init + k), line(c, [c['start'], 'F:%d' % k, c['comp'], 'U', c['start'], c['comp']]), 2))
            if nb > 0:
                for k in range(1, min(nb, 60) + 1):
                    jobs.append((c, b, 'B-fault at B-application %d' % k, line(c, [c['start'], c['comp'], 'U', c['start'], c['comp']], extra='faultB=%d' % k), -1))
            if ck.tier == 'thorough':
                for _ in range(10):
                    k1 = rng.range(1, n_comp); k2 = rng.range(1, n_comp)
                    jobs.append((c, b, 'A-faults at applications %d and %d (inside compute, two runs in a row)' % (n_init + k1, n_init + k2),
                                 line(c, [c['start'], 'F:%d' % k1, c['comp'], 'U', c['start'], 'F:%d' % k2, c['comp'], 'U', c['start'], c['comp']]), 2))
        rc, res = run_hist(exe, [j[3] for j in jobs])
        ck.oblige('fault-injection runs completed', rc == 0 and len(res) == len(jobs), 'rc=%s %d/%d' % (rc, len(res), len(jobs)))
        badf = []
        known = [f for f in load_known().get('findings', []) if f.get('property') == 'C14' and f.get('id') == 'F1']
        for (c, b, desc, ln, where), d in zip(jobs, res):
            ck.count(ln)
            if 'steps' not in d:
                badf.append((c, desc, ln, 'harness error ' + str(d.get('error'))))
                continue
            steps = [s_ for s_ in d['steps'] if not s_.get('skipped')]
            if where > 0:
                thrown = [s for s in steps[:where] if s['threw']]
                if not thrown or thrown[-1]['exc'] != 'OpFault':
                    badf.append((c, desc, ln, 'the injected fault did not propagate unchanged out of %s (saw %s)' % (steps[where - 1]['op'], [s['exc'] for s in steps[:where]])))
                    continue
            else:
                thrown = [s for s in steps if s['threw']]
                if thrown and any(s['exc'] != 'OpFault' for s in thrown):
                    badf.append((c, desc, ln, 'B-operator fault surfaced as %s' % [s['exc'] for s in thrown]))
                    continue
            if observe(steps[-1]) != observe(b['steps'][-1]) and known_probe_fault(c, b, desc, ln, known, ck, exe):
                continue
            if observe(steps[-1]) != observe(b['steps'][-1]):
                fld = ['threw', 'exc', 'ret', 'info', 'niter', 'nops', 'eigenvalues', 'eigenvectors', 'nvals', 'ncols']
                diff = [fld[j] for j, (x, y) in enumerate(zip(observe(steps[-1]), observe(b['steps'][-1]))) if x != y]
                badf.append((c, desc, ln, 'after recovery init();compute() differs from the never-faulted run in: ' + ','.join(diff)))
        ck.oblige('every fault propagates as the same exception and init();compute() afterwards is bit-identical to the fault-free run (%d fault points)' % len(jobs),
                  not badf, '%s: %s | `%s`' % (badf[0][1], badf[0][3], badf[0][2]) if badf else '')
        if badf:
            first_fail = {'base': badf[0][0], 'case': badf[0][2], 'fault': badf[0][1], 'observed': badf[0][3], 'clause': 'fault contained'}
        ck.coverage_extra['fault_points'] = len(jobs)
        if jobs:
            ck.sample({'fault': jobs[len(jobs) // 2][2], 'history': jobs[len(jobs) // 2][3]})
        if oks and jobs:
            sub = [j[3] for j in jobs[::5]]
            rc2, out = sh([sexe], input='\n'.join(sub) + '\n', timeout=3000, env={'ASAN_OPTIONS': 'detect_leaks=1:exitcode=23'})
            rep = 'Sanitizer' in out or 'runtime error' in out
            ck.oblige('no leak / memory error while unwinding (%d fault runs under ASan+UBSan+LSan)' % len(sub), rc2 == 0 and not rep, out[-1200:] if (rep or rc2) else '')
            if (rep or rc2) and not first_fail:
                first_fail = {'case': sub[0], 'observed': 'sanitizer report during fault runs', 'clause': 'nothing leaked or corrupted', 'report': out[-800:]}
    ck.assumptions = ['C++ unwinding and leak-freedom are runtime behaviour: exercised under ASan/LSan in the thorough tier',
                      'world calls inside expressions (norms, inner products with the B-operator) are not threaded by the translator; B-operator faults are covered by the exhaustive fault-injection runs']
    if ck.broken() or first_fail:
        br = ck.broken()
        what = br[0][0] if br else 'property predicate failed on the implementation'
        if first_fail:
            ck.violation(what, dict(first_fail, broken=[b[0] + ': ' + b[2][:400] for b in br]), True)
        else:
            ck.violation(what, {'broken': [b[0] + ': ' + b[2][:1500] for b in br]}, False)
