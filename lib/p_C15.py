"""C15 - Davidson solver: Successful means true residuals below tol, never NaN."""
import concurrent.futures as cf
from common import *

FAMS = ['dominant', 'weak', 'block', 'isolated', 'diagonal', 'tiesdiag', 'dense']
W6 = 'jd D isolated 20 1 3 6 12 0 3 100 1e-8 none'
W7 = 'jd S dominant 15 930760 4 8 15 0 4 300 1e-10 raw'


def parse(o):
    p = [x.strip().split() for x in o.split('|')]
    return dict(ret=int(p[0][0]), info=int(p[0][1]), niter=int(p[0][2]), ev=[float(x) for x in p[1]], res=[float(x) for x in p[2]], nrm=[float(x) for x in p[3]],
                orth=float(p[4][0]), finite=p[5][0] == '1', ordered=p[6][0] == '1', normA=float(p[7][0]), decoupled=p[8][0] == '1', reducible=p[8][1] == '1')


def judge(d, nev, tol):
    """clauses of the property that fail for one run: list of (kind, text)"""
    f = []
    if not d['finite']:
        f.append(('nonfinite', 'returned values are not finite (info() = %d)' % d['info']))
        return f
    if d['info'] == 0:
        if d['ret'] != nev:
            f.append(('count', 'Successful but compute() returned %d != nev = %d' % (d['ret'], nev)))
        if any(not (r < tol + 1e-10 * d['normA']) for r in d['res'][:nev]):
            f.append(('residual', 'Successful but |A x - theta x| = %.3g >= tol = %g for the user\'s matrix' % (max(d['res'][:nev]), tol)))
        if any(abs(x - 1.0) > 1e-8 for x in d['nrm'][:nev]):
            f.append(('norm', 'Successful but a returned vector has norm %.6g' % [x for x in d['nrm'][:nev] if abs(x - 1.0) > 1e-8][0]))
        elif d['orth'] > 1e-8:
            f.append(('orth', 'Successful but |X\'X - I| = %.3g' % d['orth']))
        if not d['ordered']:
            f.append(('order', 'Successful but the pairs are not ordered by the selection rule'))
    return f


def run(ck, replay=None):
    rng = Rng(ck.seed)
    ck.rule = ('DavidsonSymEigsSolver with the dense and the sparse product wrapper on 7 families (diagonally dominant, not dominant, block diagonal, one exactly decoupled '
               'coordinate carrying an extreme eigenvalue, diagonal, repeated diagonal entries, dense random), n = 12..40, nev 1..4, initial / maximal search space and '
               'correction sizes with initial + correction <= n, the four rules, tol in {1e-5, 1e-8, 1e-10}, maxit in {1, 3, 100, 300}, default initial space, '
               'user-supplied orthonormal and non-orthonormal initial spaces; residuals recomputed with the user\'s matrix; non-trivial = run that reported Successful')
    st = regen()
    g = st.get('JDGen.v', {'ok': False, 'error': 'not generated'})
    ck.oblige('T-gen JDGen.v (compute_with_guess in world mode; shapes of check_convergence and of the return expression)', g.get('ok'), g.get('error', ''))
    bad = grep_gate()
    ck.oblige('no Admitted/Axiom/Parameter/disabled checks in the development', not bad, '; '.join(bad))
    with cf.ThreadPoolExecutor(3) as ex:
        f_pr = ex.submit(coq_property, 'C15')
        f_c = ex.submit(build_cpp, 'jd', CXX_FAST)
        pr = f_pr.result(); okc, exe, logc = f_c.result()
    ck.oblige('Properties_C15.v checks (coqc)', pr['ok'], pr['log'][-1500:] if not pr['ok'] else '')
    for t in pr['theorems']:
        ck.oblige('theorem ' + t['name'], True, 'assumptions: ' + (', '.join(t['assumptions']) or 'closed under the global context'))
        ck.trusted.append('%s: %s' % (t['name'], ', '.join(t['assumptions']) or 'closed under the global context'))
    if pr['ok']:
        ba = axioms_ok(pr['theorems'])
        ck.oblige('only standard-library axioms', not ba, '; '.join(ba))
    if ck.tier == 'thorough' and pr['ok']:
        ok, out = coqchk('C15')
        ck.oblige('coqchk SV.Properties_C15', ok, out[-1500:])
    ck.oblige('harness jd builds against /repo headers', okc, logc if not okc else '')
    first_fail = None
    if okc:
        per = 4 if ck.tier == 'quick' else 60
        lines, meta = [], []
        for fam in FAMS:
            for w in 'DS':
                for guess in ('none', 'orth', 'raw'):
                    for rep in range(per):
                        n = rng.range(12, 40); nev = rng.range(1, 4); ninit = rng.range(nev, 2 * nev + 2)
                        hi = min(n, 10 * nev)
                        nmax = rng.range(ninit + nev, hi) if ninit + nev < hi else ninit + nev
                        ncorr = 0 if rep % 3 else rng.range(1, max(1, min(nev + 2, n - ninit)))
                        rule = rng.choice([0, 3, 4, 7]); tol = rng.choice(['1e-8', '1e-5', '1e-10']); maxit = rng.choice([1, 3, 100, 300])
                        lines.append('jd %s %s %d %d %d %d %d %d %d %d %s %s' % (w, fam, n, rng.below(10 ** 6), nev, ninit, nmax, ncorr, rule, maxit, tol, guess))
                        meta.append((fam, w, guess, nev, float(tol), ninit))
        if replay and replay.get('case'):
            t = replay['case'].split(); lines = [replay['case']]; meta = [(t[2], t[1], t[12], int(t[5]), float(t[11]), int(t[6]))]
        rc, out = run_lines(exe, lines + [W6, W7])
        ck.oblige('harness ran', rc == 0 and len(out) == len(lines) + 2, 'rc=%s %d/%d' % (rc, len(out), len(lines) + 2))
        known = {f['id']: f for f in load_known().get('findings', []) if f.get('property') == 'C15'}
        w6_fails = w7_fails = False
        try:
            w6_fails = any(k == 'nonfinite' for k, _ in judge(parse(out[-2]), 3, 1e-8))
            w7_fails = any(k in ('norm', 'orth') for k, _ in judge(parse(out[-1]), 4, 1e-10))
        except Exception:
            pass
        badp = []; dist = {}
        for l, m, o_ in zip(lines, meta, out):
            fam, w, guess, nev, tol, ninit = m
            if o_.startswith('throw'):
                badp.append((l, 'unexpected exception: ' + o_[:100])); ck.count(l, False); continue
            try:
                d = parse(o_)
            except Exception:
                badp.append((l, 'unparsable output: ' + o_[:100])); continue
            ck.count(l, d['info'] == 0)
            dist['info %d' % d['info']] = dist.get('info %d' % d['info'], 0) + 1
            for kind, text in judge(d, nev, tol):
                # F6: 0/0 in the Davidson correction when a Ritz value equals a diagonal entry exactly: one-dimensional initial space of a unit vector, or an exactly decoupled coordinate
                if kind == 'nonfinite' and 'F6' in known and w6_fails and ((guess == 'none' and ninit == 1) or d['decoupled']):
                    msg = 'F6 Davidson correction divides 0 by 0 when a Ritz value equals a diagonal entry exactly (decoupled coordinate, or one-dimensional default initial space): NaN results (witness: %s)' % W6
                    if msg not in ck.known_hits: ck.known_hits.append(msg)
                    continue
                # F7: the search space is not (kept) orthonormal: non-orthonormal user guess, or zero correction vectors from exactly converged Ritz pairs of a reducible matrix
                collapsed = any(x < 1e-6 for x in d['nrm'][:nev])      # a returned 'vector' that is zero to rounding: the zero-correction mechanism
                if kind in ('norm', 'orth') and 'F7' in known and w7_fails and (guess == 'raw' or d['reducible'] or d['decoupled'] or collapsed):
                    msg = 'F7 Davidson search space not orthonormal (user guess taken as is / zero correction vectors of exact Ritz pairs): Successful with non-unit or non-orthonormal vectors (witness: %s)' % W7
                    if msg not in ck.known_hits: ck.known_hits.append(msg)
                    continue
                badp.append((l, text))
        ck.oblige('property predicate on %d runs (true residuals, unit norm, orthonormal, ordered, count, finite)' % len(lines), not badp,
                  'case `%s` -> %s' % badp[0] if badp else '')
        ck.coverage_extra['outcomes'] = dist
        if badp:
            first_fail = {'case': badp[0][0], 'observed': badp[0][1], 'clause': 'Successful => genuine ordered orthonormal pairs; always finite'}
        if lines and len(out) > len(lines) // 2:
            ck.sample({'case': lines[len(lines) // 2], 'result': out[len(lines) // 2][:160]})
    ck.assumptions = ['driver theorems hold for every world W and oracle: they constrain status / counter / returned count, not the numerical quality of the Ritz pairs',
                      'Eigen::SelfAdjointEigenSolver and HouseholderQR are trusted; the cached-product identities are exact-arithmetic (the drift of the cache is what the true-residual run measures)',
                      'maxit = 0 is excluded from the runs: the accessors index an empty Ritz-pair object (compute() then returns the previous status, theorem C15_maxit0)']
    if ck.broken() or first_fail:
        br = ck.broken()
        what = br[0][0] if br else 'property predicate failed on the implementation'
        if first_fail:
            ck.violation(what, dict(first_fail, broken=[b[0] + ': ' + b[2][:400] for b in br]), True)
        else:
            ck.violation(what, {'broken': [b[0] + ': ' + b[2][:1500] for b in br]}, False)
