"""C16 - partial SVD returns the leading singular triplets with orthonormal factors."""
import concurrent.futures as cf
from common import *

FAMS = ['gapped', 'random', 'repeated', 'lowrank', 'rank1', 'integer', 'intrank', 'sparse']


def parse(o):
    """list of passes"""
    out = []
    for chunk in o.split('pass ')[1:]:
        p = [x.strip().split() for x in chunk.split('|')]
        d = dict(nconv=int(p[0][0]), nsv=int(p[0][1]), sv=[float(x) for x in p[1]], ref=[float(x) for x in p[2]], counts=[int(x) for x in p[3]],
                 kk=int(p[4][0]), ou=float(p[4][1]), ov=float(p[4][2]), av=float(p[4][3]), au=float(p[4][4]), finite=p[4][5] == '1', normA=float(p[4][6]))
        out.append(d)
    return out


def judge(d, m, n, ncomp, tol):
    f = []
    if not d['finite'] or any(not (x >= 0.0) for x in d['sv']):
        f.append('singular values not finite / negative: %s' % d['sv'])
        return f
    if any(d['sv'][i] < d['sv'][i + 1] * (1 - 1e-12) - 1e-300 for i in range(len(d['sv']) - 1)):
        f.append('singular values not in non-increasing order: %s' % d['sv'])
    nc = d['nconv']
    if d['nsv'] != nc:
        f.append('singular_values().size() = %d but compute() returned %d' % (d['nsv'], nc))
    ks = [0, 1, nc, nc + 2]
    for q, k in enumerate(ks):
        uc, vc, ur, vr = d['counts'][4 * q:4 * q + 4]
        want = min(k, nc)
        if uc != want or vc != want:
            f.append('matrix_U(%d) / matrix_V(%d) have %d / %d columns, expected min(k, nconv) = %d' % (k, k, uc, vc, want))
        if ur != m or vr != n:
            f.append('matrix_U / matrix_V have %d / %d rows for a %d x %d matrix' % (ur, vr, m, n))
    nA = d['normA']
    if nc == ncomp:
        for i in range(nc):
            if d['ref'][i] > 1e-4 * nA and abs(d['sv'][i] - d['ref'][i]) > (10 * tol + 1e-9) * nA:
                f.append('MATCH singular value %d = %.15g, reference %.15g (tol %g)' % (i, d['sv'][i], d['ref'][i], tol))
    if d['kk'] > 0:
        lim = (1e4 * tol + 1e-8)
        if d['ou'] > lim: f.append('|U\'U - I| = %.3g on the %d leading columns' % (d['ou'], d['kk']))
        if d['ov'] > lim: f.append('|V\'V - I| = %.3g on the %d leading columns' % (d['ov'], d['kk']))
        if d['av'] > lim * nA: f.append('|A V - U S| = %.3g (|A| = %.3g)' % (d['av'], nA))
        if d['au'] > lim * nA: f.append('|A\'U - V S| = %.3g (|A| = %.3g)' % (d['au'], nA))
    return f


def run(ck, replay=None):
    rng = Rng(ck.seed)
    ck.rule = ('PartialSVDSolver on dense column-major / dense row-major / sparse input, tall, wide and square (3 <= m, n <= 40), 8 families (prescribed gapped spectrum, random, '
               'repeated singular values, rank 3, rank 1, small integers, integer rank 2, sparse), ncomp 1..5, ncv up to min(m, n); two compute() calls in a row on the same '
               'object (first with a small iteration limit and loose tolerance, then converged) - after each: values finite, non-negative, ordered, equal to the dense reference '
               'when all converged, column counts for k in {0, 1, nconv, nconv+2}, U\'U = I, V\'V = I, A V = U S, A\'U = V S on the values above 1e-4 |A|; non-trivial = both passes returned pairs')
    st = regen()
    g = st.get('SvdGen.v', {'ok': False, 'error': 'not generated'})
    ck.oblige('T-gen SvdGen.v (dispatch conditions, column count, cache reset; shapes checked)', g.get('ok'), g.get('error', ''))
    bad = grep_gate()
    ck.oblige('no Admitted/Axiom/Parameter/disabled checks in the development', not bad, '; '.join(bad))
    with cf.ThreadPoolExecutor(3) as ex:
        f_pr = ex.submit(coq_property, 'C16')
        f_c = ex.submit(build_cpp, 'svd', CXX_FAST)
        pr = f_pr.result(); okc, exe, logc = f_c.result()
    ck.oblige('Properties_C16.v checks (coqc)', pr['ok'], pr['log'][-1500:] if not pr['ok'] else '')
    for t in pr['theorems']:
        ck.oblige('theorem ' + t['name'], True, 'assumptions: ' + (', '.join(t['assumptions']) or 'closed under the global context'))
        ck.trusted.append('%s: %s' % (t['name'], ', '.join(t['assumptions']) or 'closed under the global context'))
    if pr['ok']:
        ba = axioms_ok(pr['theorems'])
        ck.oblige('only standard-library axioms', not ba, '; '.join(ba))
    if ck.tier == 'thorough' and pr['ok']:
        ok, out = coqchk('C16')
        ck.oblige('coqchk SV.Properties_C16', ok, out[-1500:])
    ck.oblige('harness svd builds against /repo headers', okc, logc if not okc else '')
    first_fail = None
    if okc:
        per = 4 if ck.tier == 'quick' else 60
        lines, meta = [], []
        for fam in FAMS:
            for kind in 'DRS':
                for rep in range(per):
                    shape = rep % 3
                    a, b = rng.range(4, 40), rng.range(3, 24)
                    m, n = (max(a, b) + 1, min(a, b)) if shape == 0 else ((min(a, b), max(a, b) + 1) if shape == 1 else (b + 2, b + 2))
                    k = min(m, n)
                    ncomp = rng.range(1, min(5, k - 1)); ncv = rng.range(ncomp + 1, min(k, 2 * ncomp + 4))
                    tol2 = rng.choice(['1e-10', '1e-8'])
                    two = rep % 2 == 0
                    l = 'svd %s %s %d %d %d %d %d %s' % (kind, fam, m, n, rng.below(10 ** 6), ncomp, ncv,
                                                      ('%d %s 1000 %s' % (rng.choice([1, 2, 3]), '1e-2', tol2)) if two else ('1000 %s -1 0' % tol2))
                    lines.append(l); meta.append((m, n, ncomp, [1e-2, float(tol2)] if two else [float(tol2)]))
        if replay and replay.get('case'):
            t = replay['case'].split(); lines = [replay['case']]
            meta = [(int(t[3]), int(t[4]), int(t[6]), [float(t[9])] + ([float(t[11])] if int(t[10]) >= 0 else []))]
        rc, out = run_lines(exe, lines)
        crash = ''
        if rc != 0 and len(out) < len(lines):
            rcx, ox = sh([exe], input=lines[len(out)] + '\n', timeout=300)
            crash = 'case `%s` aborts: %s' % (lines[len(out)], ox[-300:].replace('\n', ' '))
        ck.oblige('harness ran', rc == 0 and len(out) == len(lines), crash or 'rc=%s %d/%d' % (rc, len(out), len(lines)))
        badp = []; npass = 0
        if crash:
            badp.append((lines[len(out)], 'the process aborts (Eigen assertion / signal): ' + crash[-200:]))
        kf = [f for f in load_known().get('findings', []) if f.get('property') == 'C16' and f.get('id') == 'F8']
        wst = {}

        def known_f8(p, tol):
            """F8 (multiple singular value): classifier on this run + the listed witness must still fail"""
            if not kf:
                return False
            nA = p['normA']; ref = p['ref']
            # the full reference spectrum is not printed: a multiple value among the printed leading ones, or a returned value equal to a printed one
            lead = ref[:len(p['sv'])]
            multiple = any(abs(lead[i] - lead[i + 1]) < 1e-9 * nA for i in range(len(lead) - 1))
            genuine = all(v <= lead[0] + (10 * tol + 1e-9) * nA for v in p['sv'])
            if not (multiple and genuine):
                return False
            if 'ok' not in wst:
                rcw, ow = run_lines(exe, [kf[0]['witness']])
                try:
                    q = parse(ow[0])[0]
                    wst['ok'] = abs(q['sv'][1] - q['ref'][1]) > 1e-6 * q['normA']
                except Exception:
                    wst['ok'] = False
            if not wst['ok']:
                return False
            msg = 'F8 multiple singular value: single-vector Lanczos returns one copy (Successful with sigma_1, sigma_3 for sigma_1 = sigma_2) (witness: %s)' % kf[0]['witness']
            if msg not in ck.known_hits: ck.known_hits.append(msg)
            return True
        for l, (m, n, ncomp, tols), o_ in zip(lines, meta, out):
            if o_.startswith('throw'):
                badp.append((l, 'unexpected exception: ' + o_[:100])); ck.count(l, False); continue
            try:
                ps = parse(o_)
            except Exception:
                badp.append((l, 'unparsable output: ' + o_[:100])); continue
            ck.count(l, len(ps) == len(tols) and all(p['nconv'] > 0 for p in ps))
            if len(ps) != len(tols):
                badp.append((l, 'expected %d passes, saw %d' % (len(tols), len(ps)))); continue
            for i, (p, tol) in enumerate(zip(ps, tols)):
                npass += 1
                for msg in judge(p, m, n, ncomp, tol):
                    if msg.startswith('MATCH') and known_f8(p, tol):
                        continue
                    badp.append((l, 'compute() #%d: %s' % (i + 1, msg.replace('MATCH ', ''))))
        ck.oblige('property predicate after every compute() (%d runs, %d compute() calls)' % (len(lines), npass), not badp, 'case `%s` -> %s' % badp[0] if badp else '')
        if badp:
            first_fail = {'case': badp[0][0], 'observed': badp[0][1], 'clause': 'leading singular triplets, orthonormal factors, most recent compute()'}
        if lines and len(out) > len(lines) // 2:
            ck.sample({'case': lines[len(lines) // 2], 'result': out[len(lines) // 2][:200]})
    ck.assumptions = ['the underlying SymEigsSolver is covered by C01/C04/C05; Eigen products are trusted',
                      'the accuracy clauses are evaluated on the implementation against a dense Jacobi SVD, not proved',
                      'the zero matrix is excluded: every start vector lies in its null space and init() cannot form a Krylov space (the solver throws); recorded in DESIGN.md']
    if ck.broken() or first_fail:
        br = ck.broken()
        what = br[0][0] if br else 'property predicate failed on the implementation'
        if first_fail:
            ck.violation(what, dict(first_fail, broken=[b[0] + ': ' + b[2][:400] for b in br]), True)
        else:
            ck.violation(what, {'broken': [b[0] + ': ' + b[2][:1500] for b in br]}, False)
