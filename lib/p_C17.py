"""C17 - LOBPCG: on success, smallest eigenvalues with n-by-k B-orthonormal eigenvectors."""
import concurrent.futures as cf
from common import *

FAMS = ['weak', 'strong', 'wide', 'laplace']


def parse(o):
    p = [x.strip().split() for x in o.split('|')]
    return dict(info=int(p[0][0]), ev=[float(x) for x in p[1]], ref=[float(x) for x in p[2]], rows=int(p[3][0]), cols=int(p[3][1]), orth=float(p[4][0]), rdef=float(p[5][0]),
                rmax=float(p[6][0]), toln=float(p[7][0]), finite=p[8][0] == '1', rrows=int(p[9][0]), rcols=int(p[9][1]))


def judge(d, n, k):
    f = []
    if d['info'] != 0:
        return f                                  # not reported as success: "the status says so"
    if not d['finite']:
        f.append('success reported with non-finite results'); return f
    if d['rows'] != n or d['cols'] != k:
        f.append('eigenvectors() is %d x %d, expected n x k = %d x %d' % (d['rows'], d['cols'], n, k)); return f
    if len(d['ev']) != k or any(d['ev'][i] > d['ev'][i + 1] for i in range(k - 1)):
        f.append('eigenvalues() not k ascending values: %s' % d['ev'])
    scale = max(1.0, abs(d['ref'][-1]))
    for i in range(min(k, len(d['ev']))):
        if abs(d['ev'][i] - d['ref'][i]) > 10 * d['toln'] + 1e-9 * scale:
            f.append('eigenvalue %d = %.12g but the %d-th smallest eigenvalue of the pencil is %.12g' % (i, d['ev'][i], i, d['ref'][i]))
    if d['orth'] > 1e-8:
        f.append('|X\'BX - I| = %.3g' % d['orth'])
    if d['rrows'] != n or d['rcols'] != k or d['rdef'] > 1e-9 * scale:
        f.append('residuals() is not A X - B X diag(eigenvalues): defect %.3g (%d x %d)' % (d['rdef'], d['rrows'], d['rcols']))
    if not (d['rmax'] < d['toln']):
        f.append('success reported but a residual column has norm %.3g >= tol*n = %.3g' % (d['rmax'], d['toln']))
    return f


def run(ck, replay=None):
    rng = Rng(ck.seed)
    ck.rule = ('LOBPCGSolver<double> on sparse symmetric pencils with well separated smallest eigenvalues (4 families: weakly / strongly coupled graded diagonal, wide gaps, '
               'shifted 1-D Laplacian), n = 20..80, block sizes k with 5k < n, with and without an SPD tridiagonal B, with and without the diagonal preconditioner, random '
               'full-rank initial blocks, iteration limits from 3 (not converged: status must not be Success) to n, tol*n from 1e-8 n to 1e-5 n; reference = dense '
               'generalized symmetric eigen-solver; non-trivial = run that reported success')
    st = regen()
    g = st.get('LobGen.v', {'ok': False, 'error': 'not generated'})
    ck.oblige('T-gen LobGen.v (eigenvectors(), final status block, checkConvergence_getBlocksize: shapes checked)', g.get('ok'), g.get('error', ''))
    bad = grep_gate()
    ck.oblige('no Admitted/Axiom/Parameter/disabled checks in the development', not bad, '; '.join(bad))
    with cf.ThreadPoolExecutor(3) as ex:
        f_pr = ex.submit(coq_property, 'C17')
        f_c = ex.submit(build_cpp, 'lob', CXX_FAST)
        pr = f_pr.result(); okc, exe, logc = f_c.result()
    ck.oblige('Properties_C17.v checks (coqc)', pr['ok'], pr['log'][-1500:] if not pr['ok'] else '')
    for t in pr['theorems']:
        ck.oblige('theorem ' + t['name'], True, 'assumptions: ' + (', '.join(t['assumptions']) or 'closed under the global context'))
        ck.trusted.append('%s: %s' % (t['name'], ', '.join(t['assumptions']) or 'closed under the global context'))
    if pr['ok']:
        ba = axioms_ok(pr['theorems'])
        ck.oblige('only standard-library axioms', not ba, '; '.join(ba))
    if ck.tier == 'thorough' and pr['ok']:
        ok, out = coqchk('C17')
        ck.oblige('coqchk SV.Properties_C17', ok, out[-1500:])
    ck.oblige('harness lob builds against /repo headers', okc, logc if not okc else '')
    first_fail = None
    if okc:
        per = 4 if ck.tier == 'quick' else 50
        lines, meta = [], []
        for fam in FAMS:
            for withB in (0, 1):
                for pre in (0, 1):
                    for rep in range(per):
                        n = rng.range(20, 80); k = rng.range(1, max(1, (n - 1) // 5 - 1)); k = min(k, 12)
                        maxit = rng.choice([3, n, n, n]); tol = rng.choice(['1e-6', '1e-7', '1e-8', '1e-5'])
                        lines.append('lob %d %d %d %d %d %d %s %s' % (n, k, rng.below(10 ** 6), withB, pre, maxit, tol, fam)); meta.append((n, k))
        if replay and replay.get('case'):
            t = replay['case'].split(); lines = [replay['case']]; meta = [(int(t[1]), int(t[2]))]
        rc, out = run_lines(exe, lines, timeout=3000)
        crash = ''
        if rc != 0 and len(out) < len(lines):
            rcx, ox = sh([exe], input=lines[len(out)] + '\n', timeout=300)
            crash = 'case `%s` aborts: %s' % (lines[len(out)], ox[-300:].replace('\n', ' '))
        ck.oblige('harness ran', rc == 0 and len(out) == len(lines), crash or 'rc=%s %d/%d' % (rc, len(out), len(lines)))
        badp = []; dist = {}
        f9 = [f for f in load_known().get('findings', []) if f.get('property') == 'C17' and f.get('id') == 'F9']
        w9 = {'ok': False}
        if f9:
            rcw, ow = run_lines(exe, [f9[0]['witness']])
            w9['ok'] = bool(ow) and ow[0].startswith('throw other TridiagEigen')
        if crash:
            badp.append((lines[len(out)], 'the process aborts: ' + crash[-200:]))
        for l, (n, k), o_ in zip(lines, meta, out):
            if o_.startswith('throw'):
                ck.count(l, False)
                if f9 and w9['ok'] and o_.startswith('throw other TridiagEigen: eigen decomposition failed'):
                    m9 = 'F9 LOBPCG: failure of the inner Rayleigh-Ritz eigen-solver escapes compute() as std::runtime_error instead of a status (witness: %s)' % f9[0]['witness']
                    if m9 not in ck.known_hits: ck.known_hits.append(m9)
                    continue
                badp.append((l, 'unexpected exception: ' + o_[:100])); continue
            try:
                d = parse(o_)
            except Exception:
                badp.append((l, 'unparsable output: ' + o_[:100])); continue
            ck.count(l, d['info'] == 0)
            dist['info %d' % d['info']] = dist.get('info %d' % d['info'], 0) + 1
            for msg in judge(d, n, k):
                badp.append((l, msg))
        ck.oblige('property predicate on %d runs (%s)' % (len(lines), dist), not badp, 'case `%s` -> %s' % badp[0] if badp else '')
        ck.coverage_extra['outcomes'] = dist
        if badp:
            first_fail = {'case': badp[0][0], 'observed': badp[0][1], 'clause': 'success => k smallest eigenvalues ascending, n x k B-orthonormal X, residuals = AX - BX L below tol*n'}
        if lines and len(out) > len(lines) // 2:
            ck.sample({'case': lines[len(lines) // 2], 'result': out[len(lines) // 2][:200]})
    ck.assumptions = ['the inner SymGEigsSolver / DenseCholesky / Eigen::EigenSolver are covered by C03 / C11 or trusted',
                      'the theorems constrain the status bookkeeping and the exact-arithmetic Rayleigh-Ritz update; convergence to the SMALLEST eigenvalues is evaluated against a dense reference',
                      'one compute() per solver object (a second compute() keeps an earlier Success status: outside the quantifier of the property)']
    if ck.broken() or first_fail:
        br = ck.broken()
        what = br[0][0] if br else 'property predicate failed on the implementation'
        if first_fail:
            ck.violation(what, dict(first_fail, broken=[b[0] + ': ' + b[2][:400] for b in br]), True)
        else:
            ck.violation(what, {'broken': [b[0] + ': ' + b[2][:1500] for b in br]}, False)
