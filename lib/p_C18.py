"""C18 - eigenvalue ordering primitive is a correct permutation for every rule and tie."""
import itertools
from common import *

REAL_ALPHA = [0, 1, -1, 2, -2, 3]
CPLX_ALPHA = [(0, 0), (1, 0), (-1, 0), (0, 1), (0, -1), (1, 1), (1, -1)]
CPLX_RULES = [0, 1, 2, 4, 5, 6]
SOLVERS = [('SymEigsSolver', 'argsort', 'herm_sort'), ('HermEigsSolver', 'argsort', 'herm_sort'),
           ('SymEigsShiftSolver', 'argsort', 'herm_sort'), ('GenEigsSolver', 'gen_select', 'gen_sort'),
           ('GenEigsRealShiftSolver', 'gen_select', 'gen_sort'), ('GenEigsComplexShiftSolver', 'gen_select', 'gen_sort')]


def gen_cases(rng, tier):
    real, cplx = [], []
    full_r = 7 if tier == 'thorough' else 4
    full_c = 6 if tier == 'thorough' else 3
    for n in range(0, 8):
        if n <= full_r:
            real += [list(v) for v in itertools.product(REAL_ALPHA, repeat=n)]
        else:
            real += [[rng.choice(REAL_ALPHA) for _ in range(n)] for _ in range(5600)]   # ~5% of 6^5+6^6+6^7
        if n <= full_c:
            cplx += [list(v) for v in itertools.product(CPLX_ALPHA, repeat=n)]
        else:
            cplx += [[rng.choice(CPLX_ALPHA) for _ in range(n)] for _ in range(3000 if tier == 'quick' else 30000)]
    nr = 200 if tier == 'quick' else 3000
    for _ in range(nr):
        n = rng.range(8, 200)
        real.append([rng.range(-40, 40) for _ in range(n)])
        cplx.append([(rng.range(-12, 12), rng.range(-12, 12)) for _ in range(n)])
    return real, cplx


def run(ck, replay=None):
    rng = Rng(ck.seed)
    ck.rule = ('all vectors of length 0..%s over {0,+-1,+-2,3} (real) / 0..%s over {0,+-1,+-i,1+-i} (complex), seeded samples of the longer '
               'ones up to length 7, random integer vectors of length 8..200; every rule defined for the type (and every undefined one for '
               'the throw clause); the three-argument prefix overload on every proper prefix of the vectors of length <= 4 (5 thorough) and a random prefix of the long ones; non-trivial = (prefix) length >= 2; distinct by (rule, vector, prefix)')
    st = regen()
    g = st.get('SortGen.v', {'ok': False, 'error': 'not generated'})
    ck.oblige('T-gen SortGen.v (SelectionRule.h tables, BothEnds loop, solver dispatch switches)', g.get('ok'), g.get('error', ''))
    bad = grep_gate()
    ck.oblige('no Admitted/Axiom/Parameter/disabled checks in the development', not bad, '; '.join(bad))
    pr = coq_property('C18')
    ck.oblige('Properties_C18.v checks (coqc)', pr['ok'], pr['log'][-1500:] if not pr['ok'] else '')
    for t in pr['theorems']:
        ck.oblige('theorem ' + t['name'], True, 'assumptions: ' + (', '.join(t['assumptions']) or 'closed under the global context'))
        ck.trusted.append('%s: %s' % (t['name'], ', '.join(t['assumptions']) or 'closed under the global context'))
    if pr['ok']:
        ba = axioms_ok(pr['theorems'])
        ck.oblige('only standard-library axioms', not ba, '; '.join(ba))
    if ck.tier == 'thorough' and pr['ok']:
        ok, out = coqchk('C18')
        ck.oblige('coqchk SV.Properties_C18', ok, out[-1500:])
    okc, exe, logc = build_cpp('c18')
    ck.oblige('harness c18 builds against /repo headers', okc, logc if not okc else '')
    okm, mexe, logm = build_ml()
    ck.oblige('extracted checker builds', okm, logm if not okm else '')
    first_fail = None
    if replay is not None:
        lines = replay.get('cases', [])
    else:
        real, cplx = gen_cases(rng, ck.tier)
        lines = []
        for v in real:
            s = ' '.join(map(str, v))
            for rule in range(9):
                lines.append('argsort %d %d %s' % (rule, len(v), s))
        for v in cplx:
            s = ' '.join('%d %d' % z for z in v)
            for rule in CPLX_RULES:
                lines.append('csort %d %d %s' % (rule, len(v), s))
        # the three-argument overload (what the symmetric solvers call with len = nev < ncv): every proper prefix of the short vectors,
        # a random prefix of the long ones
        pmax = 5 if ck.tier == 'thorough' else 4
        for v in real:
            s = ' '.join(map(str, v))
            if 1 <= len(v) <= pmax:
                ks = range(len(v))
            elif len(v) >= 8:
                ks = [rng.range(1, len(v) - 1)]
            else:
                continue
            for k in ks:
                for rule in range(9):
                    lines.append('argsortk %d %d %d %s' % (rule, len(v), k, s))
        # the same short vectors scaled by 2^-600 / 2^600 (exact and order preserving for every key; the checker sees the integers)
        for e in (-600, 600):
            for v in real:
                if len(v) <= 3:
                    for rule in range(9):
                        lines.append('argsorts %d %d %d %s' % (e, rule, len(v), ' '.join(map(str, v))))
            for v in cplx:
                if len(v) <= 2:
                    for rule in CPLX_RULES:
                        lines.append('csorts %d %d %d %s' % (e, rule, len(v), ' '.join('%d %d' % z for z in v)))
        for cls, _, _ in SOLVERS:
            for a in range(9):
                for b in range(9):
                    lines.append('solver %s %d %d' % (cls, a, b))
        ck.coverage_extra['distribution'] = {'real_vectors': len(real), 'complex_vectors': len(cplx), 'cases': len(lines),
                                             'lengths': {str(n): sum(1 for v in real if len(v) == n) for n in range(8)}}
    cpp = []
    if okc:
        rc, cpp = run_lines(exe, lines, timeout=3000)
        ck.oblige('harness ran', rc == 0 and len(cpp) == len(lines), 'rc=%s lines=%d/%d' % (rc, len(cpp), len(lines)))
        if rc != 0 and len(cpp) <= len(lines):
            # the harness died (abort / assertion / signal): the input it died on is the failing input if it dies on it alone, too
            # (the assertion message may have been captured as one more line, hence the two candidates)
            for j in (len(cpp) - 1, len(cpp)):
                if 0 <= j < len(lines):
                    rc1, out1 = run_lines(exe, [lines[j]], timeout=600)
                    if rc1 != 0:
                        first_fail = {'cases': [lines[j]], 'observed': 'the process aborts (rc=%s) on this input alone: assertion / out-of-range access instead of an ordering or std::invalid_argument' % rc1,
                                      'clause': 'ordering primitive returns a permutation / solvers order by the rule or reject it'}
                        lines = lines[:j]; cpp = cpp[:j]          # judge what was produced before the process died
                        break
    # when the model no longer builds (the translator rejected the changed source) the obligation above has already failed; the checker
    # binary extracted from the last tree on which it did build is then still used - only to SEARCH for a failing input: it contains the
    # verified specification-side checker (SortKey/SortModel), which does not depend on the regenerated tables
    searching = (not okm) and os.path.exists(mexe)
    if okc and (okm or searching) and len(cpp) == len(lines):
        chk, idx = [], []
        for i, (l, o) in enumerate(zip(lines, cpp)):
            t = l.split()
            if t[0] == 'argsort':
                chk.append('chk_argsort %s | %s' % (' '.join(t[1:]), o)); idx.append(i)
            elif t[0] == 'argsortk':
                k = int(t[3])
                chk.append('chk_argsort %s %d %s | %s' % (t[1], k, ' '.join(t[4:4 + k]), o)); idx.append(i)
            elif t[0] == 'argsorts':
                chk.append('chk_argsort %s | %s' % (' '.join(t[2:]), o)); idx.append(i)
            elif t[0] == 'csorts':
                chk.append('chk_csort any %s | %s' % (' '.join(t[2:]), o)); idx.append(i)
            elif t[0] == 'csort':
                chk.append('chk_csort any %s | %s' % (' '.join(t[1:]), o)); idx.append(i)
        disp = ['dispatch %s %d' % (nm, r) for nm in ('argsort', 'gen_select', 'gen_sort', 'herm_sort') for r in range(9)]
        rc, res = run_lines(mexe, chk + disp, timeout=3000)
        okrun = rc == 0 and len(res) == len(chk) + len(disp)
        ck.oblige('checker ran', okrun, 'rc=%s' % rc)
        if okrun:
            badc = [(lines[idx[j]], cpp[idx[j]], r) for j, r in enumerate(res[:len(chk)]) if r != 'ok']
            nontriv = 0
            for i in set(idx):
                t = lines[i].split()
                ck.count(lines[i], int(t[3] if t[0] == 'argsortk' else t[2]) >= 2)
            ck.oblige('verified checker accepts every output of argsort / SortEigenvalue (%d checks)' % len(chk), not badc,
                      'case `%s` -> `%s` (%s)' % badc[0] if badc else '')
            if badc:
                first_fail = {'cases': [badc[0][0]], 'observed': badc[0][1], 'clause': 'output is not an ordering the rule allows'}
            dres = dict(zip(disp, res[len(chk):]))
            bads = []
            pos = {l: i for i, l in enumerate(lines)}
            for cls, dsel, dsort in SOLVERS:
                for a in range(9):
                    for b in range(9):
                        l = 'solver %s %d %d' % (cls, a, b)
                        got = cpp[pos[l]] if l in lines else None
                        if got is None:
                            continue
                        # the documented rule sets (specification side, not the generated tables)
                        okset = {'argsort': {0, 3, 4, 7, 8}, 'herm_sort': {0, 3, 4, 7}, 'gen_select': {0, 1, 2, 4, 5, 6}, 'gen_sort': {0, 1, 2, 4, 5, 6}}
                        exp = 'ok' if (a in okset[dsel] and b in okset[dsort]) else 'throw invalid_argument'
                        ck.count(l)
                        if got != exp:
                            bads.append((l, got, exp))
            ck.oblige('solver-level rule dispatch == generated dispatch tables (6 classes x 81 pairs)', not bads,
                      'case `%s`: impl `%s`, model `%s`' % bads[0] if bads else '')
            if bads and not first_fail:
                first_fail = {'cases': [bads[0][0]], 'observed': bads[0][1], 'expected': bads[0][2], 'clause': 'unsupported rule must be rejected with invalid_argument / supported one accepted'}
            for l, o in list(zip(lines, cpp))[40000:40003]:
                ck.sample({'case': l, 'impl': o})
    ck.assumptions = ['std::sort satisfies its contract for a strict-weak-order comparator (modelled, not verified)',
                      'values are NaN-free; complex magnitudes are compared through re^2+im^2 in the checker (order-equivalent to |z| in exact arithmetic; inputs are small Gaussian integers so the double computation is exact)',
                      'clang 14 JSON AST + translator; extraction (ExtrOcamlBasic, ExtrOcamlString, ExtrOCamlFloats, ExtrOCamlInt63) + driver']
    if ck.broken() or first_fail:
        br = ck.broken()
        what = br[0][0] if br else 'property predicate failed on the implementation'
        if first_fail:
            ck.violation(what, dict(first_fail, broken=[b[0] + ': ' + b[2][:400] for b in br]), True)
        else:
            ck.violation(what, {'broken': [b[0] + ': ' + b[2][:1500] for b in br], 'cases': []}, False)
