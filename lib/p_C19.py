"""C19 - RNG is the exact, seed-pure Park-Miller sequence."""
import os, json
from common import *

M = 2147483647


def cases(rng, tier):
    """states / seeds for the bit-exact correspondence and the property sweep."""
    states = [1, 2, 3, 16807, 65535, 65536, 65537, 32767, 32768, 127773, 127774, M // 2, M - 2, M - 1,
              2147483646, 1073741823, 1073741824, 0x7FFF0000, 0x0000FFFF, 0x7FFFFFFE]
    n = 200000 if tier == 'quick' else 2000000
    states += [rng.range(1, M - 1) for _ in range(n // 2)]
    # a strided sweep of the whole state space with a seed-dependent offset
    stride = (M - 1) // (n // 2)
    off = rng.below(stride)
    states += [1 + ((off + k * stride) % (M - 1)) for k in range(n // 2)]
    seeds = [0, 1, 2, M, M + 1, 2 * M, 2 ** 31, 2 ** 32, 2 ** 32 + 5, 2 ** 61 + 1]
    seeds += [2 * i + 123 * j for i in (0, 1, 2, 3, 7, 100, 2 ** 20 - 1) for j in range(5)]
    seeds += [2 * rng.below(2 ** 20) + 123 * rng.below(5) for _ in range(300)]
    return states, seeds


def run(ck, replay=None):
    rng = Rng(ck.seed)
    ck.rule = ('states: boundary values + uniform random + strided sweep (seeded offset) of 1..2^31-2; seeds: 0, '
               'wrap-around values, all library forms 2i+123j; a case is non-trivial when the state is in 1..2^31-2 '
               '(every one is) and distinct by value')
    st = regen()
    g = st.get('RngGen.v', {'ok': False, 'error': 'not generated'})
    ck.oblige('T-gen RngGen.v (translation of SimpleRandom.h)', g.get('ok'), g.get('error', ''))
    bad = grep_gate()
    ck.oblige('no Admitted/Axiom/Parameter/disabled checks in the development', not bad, '; '.join(bad))
    pr = coq_property('C19')
    ck.oblige('Properties_C19.v checks (coqc)', pr['ok'], pr['log'][-1500:] if not pr['ok'] else '')
    for t in pr['theorems']:
        ck.oblige('theorem ' + t['name'], True, 'assumptions: ' + (', '.join(t['assumptions']) or 'closed under the global context'))
        ck.trusted.append('%s: %s' % (t['name'], ', '.join(t['assumptions']) or 'closed under the global context'))
    if pr['ok']:
        ba = axioms_ok(pr['theorems'])
        ck.oblige('only standard-library axioms', not ba, '; '.join(ba))
    if ck.tier == 'thorough' and pr['ok']:
        ok, out = coqchk('C19')
        ck.oblige('coqchk SV.Properties_C19', ok, out[-1500:])
        ck.coverage_extra['coqchk'] = out[-1500:]

    okc, exe, logc = build_cpp('c19')
    ck.oblige('harness c19 builds against /repo headers', okc, logc if not okc else '')
    okm, mexe, logm = build_ml()
    ck.oblige('extracted model builds', okm, logm if not okm else '')

    if replay is not None:
        states, seeds = replay.get('states', []), replay.get('seeds', [])
    else:
        states, seeds = cases(rng, ck.tier)
    lines = ['next %d' % s for s in states] + ['seednorm %d' % s for s in seeds]
    lines += ['draws %d 6' % s for s in seeds] + ['cdraws %d 4' % s for s in seeds]
    first_fail = None
    cpp = []
    if okc:
        rc, cpp = run_lines(exe, lines)
        ck.oblige('harness ran', rc == 0 and len(cpp) == len(lines), 'rc=%s lines=%d/%d' % (rc, len(cpp), len(lines)))
    # ---- correspondence: generated model (extracted) vs real code, bit for bit
    if okc and okm and len(cpp) == len(lines):
        rc, ml = run_lines(mexe, lines)
        diff = [(l, a, b) for l, a, b in zip(lines, cpp, ml) if a != b]
        ck.oblige('C-bit: next_long_rand / seed normalisation / double and complex draws == generated model on %d cases' % len(lines),
                  rc == 0 and len(ml) == len(lines) and not diff,
                  'first difference: case `%s` impl=%s model=%s' % diff[0] if diff else '')
        ck.coverage_extra['correspondence_cases'] = len(lines)
    # ---- the property's own predicate on the implementation (exact, so no tolerance)
    if okc and len(cpp) == len(lines):
        for s, out in zip(states, cpp[:len(states)]):
            ck.count(('next', s))
            exp = (16807 * s) % M
            try:
                got = int(out)
            except ValueError:
                got = None
            if got != exp or not (1 <= exp <= M - 1):
                first_fail = first_fail or {'states': [s], 'seeds': [], 'expected_next': exp, 'observed': out,
                                            'clause': 'advances exactly as minstd'}
        base = len(states)
        for i, s in enumerate(seeds):
            ck.count(('seed', s))
            try:
                nrm = int(cpp[base + i])
            except ValueError:
                nrm = -1
            lib = (s == 0) or any(s == 2 * a + 123 * j for j in range(5) for a in [(s - 123 * j) // 2] if a >= 0 and a < 2 ** 20 and (s - 123 * j) % 2 == 0)
            if lib and not (1 <= nrm <= M - 1):
                first_fail = first_fail or {'states': [], 'seeds': [s], 'observed_state': nrm, 'clause': 'state never degenerate for library seeds'}
            dr = cpp[base + len(seeds) + i].split()
            for hx in dr[:-1]:
                import struct
                x = struct.unpack('>d', bytes.fromhex(hx))[0]
                if lib and not (-0.5 <= x <= 0.5):
                    first_fail = first_fail or {'states': [], 'seeds': [s], 'observed_draw': x, 'clause': 'draw in [-0.5,0.5]'}
        ck.sample({'state': states[0], 'next': cpp[0]})
        ck.sample({'seed': seeds[10], 'normalised': cpp[base + 10], 'draws_bits': cpp[base + len(seeds) + 10]})
    # ---- calm slice for the scalar types C-bit does not reach (float, long double, complex)
    if okc:
        pl = []
        for ty in ('float', 'double', 'ldouble', 'cfloat', 'cdouble', 'cldouble'):
            for s in [0, 1, 2, 123, 246, 1000, 2 * (2 ** 20 - 1) + 492]:
                pl.append('pred %s %d %d' % (ty, s, 20000 if ck.tier == 'quick' else 400000))
        pl += ['vec %d 37' % s for s in (0, 2, 125)]
        rc, po = run_lines(exe, pl)
        badp = [(l, o) for l, o in zip(pl, po) if o != 'ok']
        ck.evaluations += len(pl)
        ck.oblige('predicate slice: draws of float/long double/complex in range, complex = two real draws, random_vec = successive draws',
                  rc == 0 and len(po) == len(pl) and not badp, '%s -> %s' % badp[0] if badp else '')
        if badp and not first_fail:
            first_fail = {'states': [], 'seeds': [], 'pred_case': badp[0][0], 'observed': badp[0][1], 'clause': 'draw range / complex structure'}
    ck.coverage_extra['distribution'] = {'states': len(states), 'seeds': len(seeds)}
    ck.assumptions = ['clang 14 JSON AST reflects the source; translator subset (translator/cxx2v.py) is faithful',
                      'LP64: long/unsigned long are 64-bit (explicit in the generated term as mod 2^64)',
                      'extraction (ExtrOcamlBasic, ExtrOCamlFloats, ExtrOCamlInt63) and driver.ml',
                      'binary32/x87 draw range rests on the Flocq theorem C19_draw_range (generic in prec, emin); their tie to the code is the predicate slice']
    if ck.broken() or first_fail:
        br = ck.broken()
        what = br[0][0] if br else 'property predicate failed on the implementation'
        if first_fail:
            ck.violation(what, dict(first_fail, broken=[b[0] + ': ' + b[2][:400] for b in br]), True)
        else:
            ck.violation(what, {'broken': [b[0] + ': ' + b[2][:1500] for b in br], 'states': [], 'seeds': []}, False)
