"""C20 - solvers are re-entrant: concurrent independent runs are race-free and identical."""
import concurrent.futures as cf
from common import *
from glue_common import CLASSES


def run(ck, replay=None):
    rng = Rng(ck.seed)
    ck.rule = ('launches of 2..16 threads, each running init();compute() on its own solver: private problem/operator per thread (all 11 classes) or one '
               'shared Dense/Sparse Sym/Gen product wrapper, plus launches whose start vectors span a small invariant subspace (restart code) with different sizes per thread; results compared bitwise with the same runs executed one after another; ThreadSanitizer build; '
               'non-trivial = every launch (distinct class / thread count / seed)')
    st = regen()
    for f in ('InvGen.v', 'RngGen.v'):
        g = st.get(f, {'ok': False, 'error': 'not generated'})
        ck.oblige('T-gen %s' % f, g.get('ok'), g.get('error', ''))
    bad = grep_gate()
    ck.oblige('no Admitted/Axiom/Parameter/disabled checks in the development', not bad, '; '.join(bad))
    with cf.ThreadPoolExecutor(3) as ex:
        f_pr = ex.submit(coq_property, 'C20')
        f_c = ex.submit(build_cpp, 'c20', CXX_TSAN)
        pr = f_pr.result(); okc, exe, logc = f_c.result()
    ck.oblige('Properties_C20.v checks (coqc)', pr['ok'], pr['log'][-1500:] if not pr['ok'] else '')
    for t in pr['theorems']:
        ck.oblige('theorem ' + t['name'], True, 'assumptions: ' + (', '.join(t['assumptions']) or 'closed under the global context'))
        ck.trusted.append('%s: %s' % (t['name'], ', '.join(t['assumptions']) or 'closed under the global context'))
    if pr['ok']:
        ba = axioms_ok(pr['theorems'])
        ck.oblige('only standard-library axioms', not ba, '; '.join(ba))
    if ck.tier == 'thorough' and pr['ok']:
        ok, out = coqchk('C20')
        ck.oblige('coqchk SV.Properties_C20', ok, out[-1500:])
    ck.oblige('harness c20 builds with -fsanitize=thread against /repo headers (hooks on)', okc, logc if not okc else '')
    first_fail = None
    if okc:
        lines = []
        reps = 1 if ck.tier == 'quick' else 4
        for cls in CLASSES:
            for _ in range(1 if ck.tier == 'quick' else 4):
                T = rng.choice([2, 3, 4, 8, 16])
                n = rng.range(10, 24)
                gen = cls.startswith('Gen')
                nev = rng.range(1, 3)
                ncv = rng.range(nev + 3, min(n, nev + 8))
                lines.append('conc threads=%d mode=private cls=%s n=%d nev=%d ncv=%d mseed=%d reps=%d' % (T, cls, n, nev, ncv, rng.below(10 ** 6), reps))
        # runs that go through a Krylov breakdown (restart code of Arnoldi::expand_basis), threads with different sizes
        for cls in ('SymEigsSolver', 'GenEigsSolver', 'SymGEigsSolver_Cholesky', 'GenEigsRealShiftSolver'):
            for _ in range(1 if ck.tier == 'quick' else 4):
                T = rng.choice([3, 4, 8]); n = rng.range(10, 20); nev = rng.range(1, 2); ncv = rng.range(nev + 4, min(n, nev + 8))
                lines.append('conc threads=%d mode=private cls=%s n=%d nev=%d ncv=%d mseed=%d reps=%d breakdown=1' % (T, cls, n, nev, ncv, rng.below(10 ** 6), reps))
        for cls in ('SymEigsSolver', 'GenEigsSolver', 'SparseSym', 'SparseGen'):
            for _ in range(2 if ck.tier == 'quick' else 8):
                T = rng.choice([2, 4, 8, 16])
                n = rng.range(12, 30)
                nev = rng.range(2, 4)
                ncv = rng.range(nev + 3, min(n, nev + 8))
                lines.append('conc threads=%d mode=shared cls=%s n=%d nev=%d ncv=%d mseed=%d reps=%d' % (T, cls, n, nev, ncv, rng.below(10 ** 6), reps))
        if replay is not None and replay.get('case'):
            lines = [replay['case']]
        rc, out = sh([exe], input='\n'.join(lines) + '\n', timeout=3000, env={'TSAN_OPTIONS': 'halt_on_error=0 exitcode=66 report_signal_unsafe=0'})
        outl = [l for l in out.split('\n') if l.startswith('ok') or l.startswith('DIFF') or l.startswith('ERROR')]
        race = 'ThreadSanitizer' in out
        for l in lines:
            ck.count(l)
        ck.oblige('no ThreadSanitizer report over %d launches' % len(lines), not race, out[out.find('WARNING: ThreadSanitizer'):][:1500] if race else '')
        badl = [(l, o) for l, o in zip(lines, outl) if o != 'ok']
        ck.oblige('concurrent results bit-identical to sequential results (%d launches)' % len(lines), len(outl) == len(lines) and not badl,
                  'launch `%s` -> %s' % badl[0] if badl else 'rc=%s, %d/%d lines' % (rc, len(outl), len(lines)))
        if badl:
            first_fail = {'case': badl[0][0], 'observed': badl[0][1], 'clause': 'concurrent == sequential, bitwise'}
        elif race:
            # locate a launch that reproduces the report
            culprit = None
            for l in lines:
                r1, o1 = sh([exe], input=l + '\n', timeout=600, env={'TSAN_OPTIONS': 'halt_on_error=0 exitcode=66'})
                if 'ThreadSanitizer' in o1:
                    culprit = (l, o1[o1.find('WARNING: ThreadSanitizer'):][:1200])
                    break
            if culprit:
                first_fail = {'case': culprit[0], 'observed': 'data race reported by ThreadSanitizer', 'report': culprit[1], 'clause': 'race-free'}
        ck.sample({'launch': lines[0], 'result': outl[0] if outl else None})
        ck.coverage_extra['launches'] = len(lines)
    ck.assumptions = ['the data race itself, the memory model and the schedules are runtime behaviour: only the schedules ThreadSanitizer observes over the launches are covered',
                      'theorems: no variable with static storage duration, every mutable member belongs to an object owned by one solver, shared product wrappers have only const methods (inventories regenerated from /repo)']
    if ck.broken() or first_fail:
        br = ck.broken()
        what = br[0][0] if br else 'property predicate failed on the implementation'
        if first_fail:
            ck.violation(what, dict(first_fail, broken=[b[0] + ': ' + b[2][:400] for b in br]), True)
        else:
            ck.violation(what, {'broken': [b[0] + ': ' + b[2][:1500] for b in br]}, False)
