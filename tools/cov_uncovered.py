import sys,re,collections
for f in sys.argv[1:]:
    occ=collections.defaultdict(list); txt={}
    for l in open(f,errors='replace'):
        m=re.match(r'\s*([^:]+):\s*(\d+):(.*)',l)
        if not m: continue
        c,n,t=m.group(1).strip(),int(m.group(2)),m.group(3)
        if n==0: continue
        txt[n]=t
        if c=='-' : continue
        occ[n].append(c)
    un=[n for n,cs in sorted(occ.items()) if all(c.startswith('#####') or c.startswith('=====') for c in cs)]
    print('==',f,len(un),'never-executed lines')
    for n in un:
        t=txt[n].strip()
        if 'throw std::' in t or t in ('{','}'): continue
        print('  %4d: %s'%(n,t[:110]))
