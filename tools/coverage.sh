#!/bin/bash
# coverage.sh [harness...] : development aid, not a check.  Which lines of /repo's headers do the inputs of the quick checks never execute?
# Builds gcov-instrumented copies of the harnesses in a scratch directory outside /verif and /repo, feeds them the inputs the quick
# checks feed the real harnesses (VERIF_DUMP_LINES), prints the never-executed lines of the Spectra headers, removes the scratch directory.
set -e
hs=${@:-kernels glue c11 jd svd lob}
d=$(mktemp -d /tmp/verif-cov.XXXX); bk=$(mktemp -d /verif/_work/evbk.XXXX); cp /verif/evidence/*.json $bk/
cd /verif
for p in $(python3 -c "import json; print(' '.join(c['property_id'] for c in json.load(open('MANIFEST.json'))['checks']))"); do
  VERIF_DUMP_LINES=$d/lines VERIF_SEED=${VERIF_SEED:-1} bin/check $p 2>&1 | grep -E "^(OK|VIOLATION)" | cut -c1-60
done
cp $bk/*.json /verif/evidence/; rm -rf $bk
for h in $hs; do
  [ -f $d/lines/$h.lines ] || continue
  mkdir -p $d/$h; ( cd $d/$h && g++ -std=c++11 -O0 --coverage -ffp-contract=off -DEIGEN_DONT_VECTORIZE -DSPECTRA_VERIF_HOOKS -I/repo/include -I/usr/include/eigen3 -I/verif/harness /verif/harness/$h.cpp -o cov \
     && (timeout 3000 ./cov < $d/lines/$h.lines > /dev/null 2>&1 || true) && gcov -o . cov-$h.gcda > /dev/null 2>&1 )
  echo "######## $h"
  python3 /verif/tools/cov_uncovered.py $(grep -l "/repo/include/Spectra" $d/$h/*.gcov 2>/dev/null) | grep -v " 0 never-executed"
done
rm -rf $d
