#!/usr/bin/env python3
"""Regenerate /verif/MANIFEST.json from the table below (kept valid at all times)."""
import json, subprocess
NOTE = ("Trusted: Coq 8.16.1 kernel (vm_compute; no native_compute); clang 14 JSON AST + translator/cxx2v.py (T-gen); "
        "extraction (ExtrOcamlBasic, ExtrOcamlString, ExtrOCamlFloats, ExtrOCamlInt63) + extract/driver.ml, extra.ml; "
        "g++ 12 -O1 -ffp-contract=off -DEIGEN_DONT_VECTORIZE harnesses; Eigen, libstdc++ (std::sort), libm modelled by contract. "
        "Axioms per theorem are listed in the evidence file (Print Assumptions).")
CLAIMED = {
 'C19': ('proof', "All clauses proved for every state/seed on the Gallina term regenerated from SimpleRandom.h (T-gen): exact minstd transition, non-degeneracy for every number of draws, library seed forms, draw range in every binary format (Flocq), purity. Tied additionally by bit-exact correspondence of 2e5 (quick) / 2e6 (thorough) states and draws.", '§5 C19', 'theorems on the translated generator; bit-exact differential run'),
 'C18': ('proof', "Permutation, ordering, BothEnds-prefix and dispatch theorems for every vector and every tie-breaking allowed by std::sort's contract, on the BothEnds loop / key table / dispatch switches regenerated from the headers; a spec-side checker proved sound is run on the real outputs for all vectors of length <= 4 (quick) / <= 7 (thorough) over the tie alphabet plus samples.", '§5 C18', 'list-level theorems on translated loop and tables; verified checker on exhaustive enumeration'),
 'C12': ('proof', "Accept/reject boundary of every constructor, mode check, init check and wrapper check proved equal to the documented ranges on the translated checks (all n, nev, ncv); exhaustive grid n<=12 x (nev,ncv) in [-2,n+3]^2 on 11 solver classes + Davidson + SVD + wrappers against both the documented ranges and the generated model; leak clause partial (LeakSanitizer on rejected calls).", '§5 C12', 'theorems on translated argument checks; exhaustive grid correspondence'),
 'C05': ('proof', "Return value = |eigenvalues()| <= nev, info() <-> count = nev, at most maxit restarts, accessor column counts, counter reset and per-step operation counts are theorems on compute()/init()/accessor loops/factorize_from regenerated from the headers in world mode (kernel calls abstract), for every world meeting three kernel contracts, every oracle, every start state (= every init/compute history). The contracts are validated at every hook event of ~300 (quick) / ~4400 (thorough) histories on all 11 solver classes, the generated driver is replayed on the recorded kernel results, and the public-API predicate is evaluated on every observed call.", '§5 C05', 'theorems on translated drivers; trace refinement via hooks; API predicate on histories'),
 'C06': ('proof', "init() resets every piece of mutable state of solver and factorization (theorem on the member inventory regenerated from the class definitions), counters after init() independent of the previous state (generated init), no static state; fresh vs reused solver (after other runs, throwing calls, injected faults) compared bit for bit on all 11 classes, operator probed before/after.", '§5 C06', 'inventory theorems on translated class definitions; differential histories'),
 'C13': ('proof', "partial: restart sizes in 1..ncv-1, one application per breakdown, factorize_from cost in [to-from, 2(to-from)], and the work bound 2(ncv-1)(maxit+1) for compute() are theorems on the generated drivers for every oracle/world; the real nev_adjusted is compared exhaustively with the generated model (ncv <= 10 quick / 14 thorough). Memory safety / UB / NaN are runtime behaviour: structured hard inputs with Eigen assertions on (quick) and ASan+UBSan (thorough).", '§5 C13', 'theorems on translated index/counter code; exhaustive table; sanitizer search'),
 'C14': ('proof', "partial: the generated drivers propagate whatever exception a kernel raises unchanged, raise nothing themselves and the library has no handler (theorems, arbitrary world); recovery is exercised by injecting a fault at EVERY operator application index (A and B operators; pairs in thorough) and comparing the post-recovery init();compute() bit for bit with the fault-free run. Unwinding/leaks: ASan/LSan in the thorough tier.", '§5 C14', 'theorems on translated drivers; exhaustive fault injection'),
 'C20': ('proof', "partial: no variable with static storage duration, every mutable member belongs to an object owned by one solver, the shareable product wrappers have only const methods and no mutable member, every RNG is a local object (theorems on inventories regenerated from the class definitions); the data race itself is runtime behaviour: ThreadSanitizer build, 2..16 threads, private or shared wrapper, concurrent results compared bitwise with sequential ones.", '§5 C20', 'inventory theorems on translated class definitions; ThreadSanitizer launches'),
 'C08': ('proof', "Exact-arithmetic theorems over an arbitrary real closed field on the kernel models: rotation kernel exact (zero cases, standard branch) with explicit t^6 defect polynomials in the Taylor branch; UpperHessenbergQR: R = Q'(H - sI) columnwise and upper triangular for every n, input, shift; Q isometric, apply_QY/apply_QtY mutually inverse, right-multiplication consistent with left-multiplication. The binary64 instance of the same Gallina terms (UpperHessenbergQR, TridiagQR, DoubleShiftQR, every public/protected output) is compared with the C++ bit for bit; the property's identities are evaluated on the implementation in float/double/long double. TridiagQR/DoubleShiftQR global similarity theorems not yet proved (partial).", '§5 C08', 'theorems over rcfType on kernel models; bit-exact correspondence; identity slice'),
}
NA_REASON = "check under construction in this session (machinery not yet committed); not a claim that the technique cannot apply"
props = [json.loads(l) for l in open('/verif/properties.jsonl')]
hooks = []
try:
    out = subprocess.run(['git', '-C', '/repo', 'log', '--format=%h %s'], capture_output=True, text=True).stdout
    hooks = [l.split()[0] for l in out.split('\n') if l and 'verif hook' in l.lower()]
except Exception:
    pass
man = {"version": 1, "setup_cmd": "bin/setup",
       "hooks": {"guard": "SPECTRA_VERIF_HOOKS", "enable": "harnesses are compiled with -DSPECTRA_VERIF_HOOKS against /repo/include (header-only library)",
                 "baseline_off_cmd": "cmake --build /repo/_build -j16 && ctest --test-dir /repo/_build -j8 --timeout 900",
                 "source_commits": hooks, "add_only": True},
       "engines": [{"name": "coq-proof+tie", "path": "bin/check", "serves_properties": sorted(CLAIMED),
                    "kind_free_text": "Coq 8.16.1 theorems about models regenerated from /repo by translator/gen.py (clang JSON AST -> Gallina) or hand-written kernels tied by bit-exact correspondence (extracted OCaml vs C++ harness)"}],
       "checks": [], "not_applicable": [],
       "notes": "bin/check <id> [--tier quick|thorough] [--replay file]; every check regenerates coq/gen/*.v from /repo, re-checks Properties_<id>.v with coqc, rebuilds its harness from /repo's working tree and writes evidence/<id>.json."}
for p in props:
    pid = p['id']
    if pid in CLAIMED:
        cat, text, ref, tech = CLAIMED[pid]
        man['checks'].append({"property_id": pid, "quick_cmd": "bin/check %s --tier quick" % pid, "thorough_cmd": "bin/check %s --tier thorough" % pid,
                              "evidence_file": "evidence/%s.json" % pid, "replay_cmd_template": "bin/check %s --replay {path}" % pid, "engine": "coq-proof+tie",
                              "level_claimed": {"category": cat, "text": text, "design_ref": ref}, "level_note": NOTE, "technique": tech})
    else:
        man['not_applicable'].append({"property_id": pid, "reason": NA_REASON})
json.dump(man, open('/verif/MANIFEST.json', 'w'), indent=1)
print('claimed:', sorted(CLAIMED))
