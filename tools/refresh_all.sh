#!/bin/bash
# refresh_all.sh: rerun every claimed quick check on the clean /repo tree with VERIF_SEED=1 (what `vp check` does) and show the verdict lines
cd /verif
if [ -n "$(git -C /repo status --porcelain --untracked-files=no)" ]; then echo "/repo has uncommitted changes"; exit 1; fi
export VERIF_SEED=1 VERIF_TIER=quick
for p in $(python3 -c "import json; print(' '.join(c['property_id'] for c in json.load(open('MANIFEST.json'))['checks']))"); do
  bin/check $p 2>&1 | grep -E "^(OK|VIOLATION)" | cut -c1-140
done
python3 - <<'PY'
import json,glob
for f in sorted(glob.glob('/verif/evidence/*.json')):
    d=json.load(open(f)); c=d['coverage']
    if c['obligations']!=c['discharged'] or d.get('violations',0): print('STALE/BAD', f, c['obligations'], c['discharged'], d.get('violations'))
PY
