#!/bin/bash
# seedrun.sh <patch> <prop>... : apply a seeded change to /repo, run the quick checks, undo it
d=$1; shift
git -C /repo apply $d || exit 1
for p in "$@"; do (cd /verif && bin/check $p 2>&1 | grep -E "^(OK|VIOLATION|KNOWN)" ); done
git -C /repo checkout -- .
(cd /verif && python3 translator/gen.py >/dev/null 2>&1)
