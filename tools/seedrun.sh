#!/bin/bash
# seedrun.sh <patch> <prop>... : apply a seeded change to /repo, run the quick checks, undo it.
# The evidence files of the clean tree are put back afterwards (a run against a seeded change must never be committed).
d=$1; shift
bk=$(mktemp -d /verif/_work/evbk.XXXX); cp /verif/evidence/*.json $bk/ 2>/dev/null
git -C /repo apply $d || exit 1
for p in "$@"; do (cd /verif && bin/check $p 2>&1 | grep -E "^(OK|VIOLATION|KNOWN)" ); done
git -C /repo checkout -- .
cp $bk/*.json /verif/evidence/ 2>/dev/null; rm -rf $bk
(cd /verif && python3 translator/gen.py >/dev/null 2>&1)
