#!/bin/bash
# thorough_all.sh: run every thorough check once on the clean tree (VERIF_SEED=1), verdict lines to _work/thorough.log
cd /verif
export VERIF_SEED=1
: > _work/thorough.log
for p in $(python3 -c "import json; print(' '.join(c['property_id'] for c in json.load(open('MANIFEST.json'))['checks']))"); do
  s=$(date +%s); bin/check $p --tier thorough 2>&1 | grep -E "^(OK|VIOLATION|KNOWN)" | cut -c1-200 >> _work/thorough.log; echo "  ($p took $(( $(date +%s) - s )) s)" >> _work/thorough.log
done
echo DONE >> _work/thorough.log
