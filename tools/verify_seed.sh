#!/bin/bash
# verify_seed.sh <worktree> : confirm a seeded change (tests pass with it; demo passes without, fails with)
wt=$1
cd $wt || exit 2
git diff -- include > /tmp/_cur.diff
if ! diff -q /tmp/_cur.diff seed/patch.diff >/dev/null; then echo "NOTE: patch.diff differs from worktree diff"; fi
if [ -d _build ]; then
  cmake --build _build -j16 2>&1 | tail -2
  ctest --test-dir _build -j16 --timeout 900 2>&1 | tail -4
else
  echo "no _build"
fi
flags=$(grep -m1 -o 'g++ .*' seed/README.md | head -1)
echo "README build line: $flags"
g++ -std=c++11 -O1 -I$wt/include -I/usr/include/eigen3 seed/demo.cpp -o /tmp/_demo_with 2>&1 | tail -3
g++ -std=c++11 -O1 -I/repo/include -I/usr/include/eigen3 seed/demo.cpp -o /tmp/_demo_without 2>&1 | tail -3
timeout 600 /tmp/_demo_without > /tmp/_demo_without.out 2>&1; echo "without: exit $?"; tail -2 /tmp/_demo_without.out
timeout 600 /tmp/_demo_with > /tmp/_demo_with.out 2>&1; echo "with: exit $?"; tail -3 /tmp/_demo_with.out
rm -f /tmp/_demo_with /tmp/_demo_without
