"""Load the clang JSON AST of every declaration in namespace Spectra from /repo's
current working tree (one clang run, ~2 s) and offer lookups.

The AST is the *only* view of the C++ the translator has: nothing in here reads
the headers as text except `src_text`, which is used for recording the source
text of oracles (float-dependent conditions) and for SHA-256 stamps."""
import json, os, subprocess, hashlib, sys

REPO = os.environ.get('VERIF_REPO', '/repo')
WORK = os.environ.get('VERIF_WORK', os.path.join(os.path.dirname(os.path.abspath(__file__)), '..', '_work'))
WORK = os.path.abspath(WORK)

ALL_TU = """\
#include <Spectra/SymEigsSolver.h>
#include <Spectra/HermEigsSolver.h>
#include <Spectra/SymEigsShiftSolver.h>
#include <Spectra/GenEigsSolver.h>
#include <Spectra/GenEigsRealShiftSolver.h>
#include <Spectra/GenEigsComplexShiftSolver.h>
#include <Spectra/SymGEigsSolver.h>
#include <Spectra/SymGEigsShiftSolver.h>
#include <Spectra/DavidsonSymEigsSolver.h>
#include <Spectra/contrib/PartialSVDSolver.h>
#include <Spectra/contrib/LOBPCGSolver.h>
#include <Spectra/MatOp/DenseGenMatProd.h>
#include <Spectra/MatOp/DenseSymMatProd.h>
#include <Spectra/MatOp/DenseHermMatProd.h>
#include <Spectra/MatOp/SparseGenMatProd.h>
#include <Spectra/MatOp/SparseSymMatProd.h>
#include <Spectra/MatOp/SparseHermMatProd.h>
#include <Spectra/MatOp/DenseSymShiftSolve.h>
#include <Spectra/MatOp/SparseSymShiftSolve.h>
#include <Spectra/MatOp/DenseGenRealShiftSolve.h>
#include <Spectra/MatOp/SparseGenRealShiftSolve.h>
#include <Spectra/MatOp/DenseGenComplexShiftSolve.h>
#include <Spectra/MatOp/SparseGenComplexShiftSolve.h>
#include <Spectra/MatOp/DenseCholesky.h>
#include <Spectra/MatOp/SparseCholesky.h>
#include <Spectra/MatOp/SparseRegularInverse.h>
#include <Spectra/MatOp/SymShiftInvert.h>
"""


class TranslationError(Exception):
    pass


def headers_digest():
    h = hashlib.sha256()
    root = os.path.join(REPO, 'include')
    for d, _, fs in sorted(os.walk(root)):
        for f in sorted(fs):
            p = os.path.join(d, f)
            h.update(p.encode())
            h.update(open(p, 'rb').read())
    return h.hexdigest()


def dump():
    """Run clang on the all-headers TU; cache by digest of the header tree."""
    os.makedirs(os.path.join(WORK, 'ast'), exist_ok=True)
    dg = headers_digest()
    out = os.path.join(WORK, 'ast', 'all-%s.json' % dg[:16])
    if os.path.exists(out) and os.path.getsize(out) > 0:
        return out
    for f in os.listdir(os.path.join(WORK, 'ast')):
        if f.startswith('all-'):
            os.remove(os.path.join(WORK, 'ast', f))
    tu = os.path.join(WORK, 'ast', 'all.cpp')
    open(tu, 'w').write(ALL_TU)
    cmd = ['clang++', '-std=c++11', '-fsyntax-only', '-I' + os.path.join(REPO, 'include'),
           '-I/usr/include/eigen3', '-Xclang', '-ast-dump=json', '-Xclang',
           '-ast-dump-filter=Spectra::', tu]
    tmp = out + '.tmp'
    with open(tmp, 'w') as fh:
        r = subprocess.run(cmd, stdout=fh, stderr=subprocess.PIPE, text=True, timeout=300)
    if r.returncode != 0:
        raise TranslationError('clang failed on the all-headers TU:\n' + r.stderr[-3000:])
    os.rename(tmp, out)
    return out


def load():
    path = dump()
    s = open(path).read()
    dec = json.JSONDecoder()
    i = 0
    docs = []
    n = len(s)
    while i < n:
        while i < n and s[i].isspace():
            i += 1
        if i >= n:
            break
        d, j = dec.raw_decode(s, i)
        docs.append(d)
        i = j
    return AST(docs)


def walk(n):
    yield n
    for c in n.get('inner', []) or []:
        if isinstance(c, dict):
            yield from walk(c)


def kids(n):
    return [c for c in (n.get('inner') or []) if isinstance(c, dict) and 'kind' in c]


class AST:
    def __init__(self, docs):
        self.docs = docs
        self._files = {}
        self._assign_files()

    def _assign_files(self):
        """clang prints `file` only when it changes; propagate it through the dump
        order so every node with a range knows its file."""
        cur = [None]

        def visit(n):
            for key in ('loc',):
                l = n.get(key)
                if isinstance(l, dict):
                    self._loc(l, cur)
            r = n.get('range')
            if isinstance(r, dict):
                for k in ('begin', 'end'):
                    if isinstance(r.get(k), dict):
                        self._loc(r[k], cur)
            for c in n.get('inner', []) or []:
                if isinstance(c, dict):
                    visit(c)
        for d in self.docs:
            visit(d)

    @staticmethod
    def _loc(l, cur):
        for sub in ('spellingLoc', 'expansionLoc'):
            if isinstance(l.get(sub), dict):
                AST._loc(l[sub], cur)
        if 'file' in l:
            cur[0] = l['file']
        elif 'offset' in l:
            l['file'] = cur[0]

    # ---- lookups -------------------------------------------------------
    def top(self, name, kinds=None):
        return [d for d in self.docs if d.get('name') == name and (kinds is None or d['kind'] in kinds)]

    def class_template(self, name):
        """Primary template pattern CXXRecordDecl of class template `name`."""
        for d in self.docs:
            if d['kind'] == 'ClassTemplateDecl' and d.get('name') == name:
                for c in kids(d):
                    if c['kind'] == 'CXXRecordDecl' and c.get('name') == name:
                        return c
        raise TranslationError('class template %s not found' % name)

    def class_specs(self, name):
        """All partial/explicit specialisations + primary of `name` (records)."""
        out = []
        for d in self.docs:
            if d.get('name') != name:
                continue
            if d['kind'] == 'ClassTemplateDecl':
                for c in kids(d):
                    if c['kind'] == 'CXXRecordDecl' and c.get('name') == name:
                        out.append(c)
            elif d['kind'] in ('ClassTemplatePartialSpecializationDecl', 'ClassTemplateSpecializationDecl', 'CXXRecordDecl'):
                out.append(d)
        return out

    def methods(self, rec, name, kinds=('CXXMethodDecl', 'CXXConstructorDecl', 'FunctionTemplateDecl')):
        out = []
        for c in kids(rec):
            if c['kind'] in kinds and (c.get('name') == name or (c.get('name') or '').startswith(name + '<')):
                if c['kind'] == 'FunctionTemplateDecl':
                    for cc in kids(c):
                        if cc['kind'] in ('CXXMethodDecl', 'CXXConstructorDecl'):
                            out.append(cc)
                            break
                else:
                    out.append(c)
        return out

    def method(self, cls, name, index=0):
        rec = self.class_template(cls) if isinstance(cls, str) else cls
        ms = [m for m in self.methods(rec, name) if body(m) is not None]
        if len(ms) <= index:
            raise TranslationError('method %s::%s[%d] not found' % (cls if isinstance(cls, str) else cls.get('name'), name, index))
        return ms[index]

    def function(self, name):
        for d in self.docs:
            if d['kind'] == 'FunctionDecl' and d.get('name') == name and body(d) is not None:
                return d
            if d['kind'] == 'FunctionTemplateDecl' and d.get('name') == name:
                for c in kids(d):
                    if c['kind'] == 'FunctionDecl' and body(c) is not None:
                        return c
        raise TranslationError('function %s not found' % name)

    def functions(self, name):
        out = []
        for d in self.docs:
            if d['kind'] == 'FunctionDecl' and d.get('name') == name and body(d) is not None:
                out.append(d)
            if d['kind'] == 'FunctionTemplateDecl' and d.get('name') == name:
                for c in kids(d):
                    if c['kind'] == 'FunctionDecl' and body(c) is not None:
                        out.append(c)
                        break
        return out

    def fields(self, rec):
        return [c for c in kids(rec) if c['kind'] == 'FieldDecl']

    # ---- source text ---------------------------------------------------
    def src_text(self, n):
        r = n.get('range')
        if not r:
            return '?'
        b, e = r['begin'], r['end']
        b = b.get('expansionLoc', b)
        e = e.get('expansionLoc', e)
        f = b.get('file')
        if f is None or 'offset' not in b or 'offset' not in e:
            return '?'
        if f not in self._files:
            try:
                self._files[f] = open(f, 'rb').read()
            except OSError:
                return '?'
        data = self._files[f]
        return data[b['offset']: e['offset'] + e.get('tokLen', 1)].decode('utf8', 'replace')

    def stamp(self, n):
        t = self.src_text(n)
        return hashlib.sha256(t.encode()).hexdigest()


def body(fn):
    for c in kids(fn):
        if c['kind'] == 'CompoundStmt':
            return c
    return None


def params(fn):
    return [c for c in kids(fn) if c['kind'] == 'ParmVarDecl']
